import Hs.Model.Vx
import Hs.Model.Ns
import Hs.Model.NsAssoc
import Hs.Model.NsProtos
/-
  Driver glue for C13.  Requests (tokens after `C13`); `G` = `<nrows> {<def|-> <nis> {<item|->}*}*`, names
  are hex strings, name lists are count-prefixed:
    sym  G <kq> q.. <ku> u..            per query symbol `q`, joined by `;`:
                                        sup=..|asup=..|sub=..|asub=..|inh=..|cho=..|conj=..|fits=<the u it fits>
    refl G <kr> {<ntags> {<tag> <0|1>}*}* <kb> base..
                                        per record, joined by `;`:  defs=..|fits=<the bases it fits>
  Every name list is sorted (code point order) and printed as comma-separated hex.

  Part 2 (Hs.Model.NsAssoc); `GX` = `<nrows> {<def|-> <ntags> {<key> (m | s <sym> | l <n> {<item|->}* | o)}*}*`:
    assoc GX <kq> q.. <ka> a..          `<index>#<per q, joined by ;>` where
                                        index = cho=k:v,v/k:..|feat=..|libs=..|fn=..|ton=..|tod=k:v,v/..|conj=..
                                        per q = <a>=<associations(q, a)> per a, joined by |, then |impl=b,b+m,m|roots=<4 bits>
                                        (impl: the ordered parts, `+`, the mandatory supertypes sorted; tod values in list order)
    rel GX <nrecs> {<key|-> <id|-> <nt> {<tag> <ref|->}*}* <nq> {<subject index> <rel> <term|-> <target|->}*
                                        per query 1 | 0 | !<outcome>, joined by ;
    ent GX <ko> order.. <kr> {<ntags> {<tag> <0|1>}*}*
                                        per record the entity type's def name or `-`, joined by ;

  Part 3 (Hs.Model.NsProtos); `PD` = `<n> {<key> <token>}*`:
    protos G <npd> {<name> <0|1 children usable> <nc> PD* <nf> f..}* <np> PD*
                                        per parent the set of prototypes, each `{key:token,..}` with keys sorted,
                                        the set sorted and joined by |; parents joined by ;
    small G <k> n..                     `has_subtype` per name (0|1, joined by ,) `#` `all_matching_names(n..)` in order
    core G                              the sixteen fields of `core_type_defs`: the def's name or `-`, joined by ,
-/
namespace Hs.Drv.C13
open Hs Hs.Vx Hs.Ns

def pRow : P Row := fun ts => do
  let (n, ts) ← pHO ts
  let (k, ts) ← pNat ts
  let (items, ts) ← pRep pHO k ts
  pure ({ name := n, isRaw := items }, ts)

def pRows : P (List Row) := fun ts => do
  let (k, ts) ← pNat ts
  pRep pRow k ts

def pNames : P (List Name) := fun ts => do
  let (k, ts) ← pNat ts
  pRep pH k ts

def pTag : P (Name × Bool) := fun ts => do
  let (n, ts) ← pH ts
  let (m, ts) ← pNat ts
  pure ((n, m != 0), ts)

def pRec : P Rec := fun ts => do
  let (k, ts) ← pNat ts
  pRep pTag k ts

def pRecs : P (List Rec) := fun ts => do
  let (k, ts) ← pNat ts
  pRep pRec k ts

def nameLe : List Char → List Char → Bool
  | [], _ => true
  | _ :: _, [] => false
  | a :: as, b :: bs => if a.toNat < b.toNat then true else if b.toNat < a.toNat then false else nameLe as bs

def showNames (l : List Name) : String :=
  ",".intercalate ((l.mergeSort nameLe).map H)

def showRes : Res (List Name) → String
  | .ok l => showNames l
  | r => "!" ++ r.tag

def symReply (fuel : Nat) (ns : Ns) (u : List Name) (q : Name) : String :=
  "sup=" ++ showNames (supertypesOf ns.defs q) ++
  "|asup=" ++ showRes (allSupertypesOf fuel ns q) ++
  "|sub=" ++ showNames (subtypesOf ns q) ++
  "|asub=" ++ showRes (allSubtypesOf fuel ns q) ++
  "|inh=" ++ showRes (inheritance fuel ns q) ++
  "|cho=" ++ showNames (choicesFor ns q) ++
  "|conj=" ++ showNames (conjunctsDefs ns q) ++
  "|fits=" ++ showRes (fitsRow fuel ns q u)

def reflReply (fuel : Nat) (ns : Ns) (bases : List Name) (r : Rec) : String :=
  match reflect fuel ns r with
  | .ok ds =>
    let fit := bases.filter (fun b => match anyFits fuel ns b ds with | .ok true => true | _ => false)
    let bad := bases.any (fun b => match anyFits fuel ns b ds with | .ok _ => false | _ => true)
    "defs=" ++ showNames ds ++ "|fits=" ++ (if bad then "!diverge" else showNames fit)
  | e => "defs=!" ++ e.tag ++ "|fits=!" ++ e.tag

def symReq (ts : List String) : String :=
  match pRows ts with
  | none => "bad-request"
  | some (rows, ts) =>
    match pNames ts with
    | none => "bad-request"
    | some (qs, ts) =>
      match pNames ts with
      | none => "bad-request"
      | some (us, _) =>
        let ns := make rows
        let fuel := fuelFor ns.defs
        "ok " ++ ";".intercalate (qs.map (symReply fuel ns us))

def reflReq (ts : List String) : String :=
  match pRows ts with
  | none => "bad-request"
  | some (rows, ts) =>
    match pRecs ts with
    | none => "bad-request"
    | some (recs, ts) =>
      match pNames ts with
      | none => "bad-request"
      | some (bases, _) =>
        let ns := make rows
        let fuel := fuelFor ns.defs
        "ok " ++ ";".intercalate (recs.map (reflReply fuel ns bases))


/-! ### part 2 -/
section
open Hs.NsA

def pTagV : P TagV := fun ts => do
  let (k, ts) ← tok ts
  if k = "m" then pure (.marker, ts)
  else if k = "o" then pure (.other, ts)
  else if k = "s" then do
    let (s, ts) ← pH ts
    pure (.sym s, ts)
  else if k = "l" then do
    let (n, ts) ← pNat ts
    let (items, ts) ← pRep pHO n ts
    pure (.list items, ts)
  else none

def pKV : P (Name × TagV) := fun ts => do
  let (k, ts) ← pH ts
  let (v, ts) ← pTagV ts
  pure ((k, v), ts)

def pRowX : P RowX := fun ts => do
  let (n, ts) ← pHO ts
  let (k, ts) ← pNat ts
  let (tags, ts) ← pRep pKV k ts
  pure ({ name := n, tags := tags }, ts)

def pRowsX : P (List RowX) := fun ts => do
  let (k, ts) ← pNat ts
  pRep pRowX k ts

def showList (l : List Name) : String := ",".intercalate (l.map H)

def showMap (m : List (Name × List Name)) (sortVals : Bool) : String :=
  let m := m.mergeSort (fun a b => nameLe a.1 b.1)
  "/".intercalate (m.map (fun kv => H kv.1 ++ ":" ++ (if sortVals then showNames kv.2 else showList kv.2)))

def indexReply (x : NsX) : String :=
  "cho=" ++ showMap (choicesIndex x) true ++
  "|feat=" ++ showNames (features x) ++
  "|libs=" ++ showNames (libs x) ++
  "|fn=" ++ showNames (featureNames x) ++
  "|ton=" ++ showNames (tagOnNames x) ++
  "|tod=" ++ showMap (tagOnDefs x) false ++
  "|conj=" ++ showNames (conjuncts x)

def assocQReply (fuel : Nat) (x : NsX) (as : List Name) (q : Name) : String :=
  let parts := as.map (fun a => H a ++ "=" ++ showRes (associations fuel x q a))
  let impl := match implementation fuel x q with
    | .ok (b, m) => showList b ++ "+" ++ showNames m
    | e => "!" ++ e.tag
  let roots := String.ofList ((List.range 4).map (fun w =>
    match fitsRoot fuel x w q with
    | .ok true => '1'
    | .ok false => '0'
    | _ => '!'))
  "|".intercalate parts ++ "|impl=" ++ impl ++ "|roots=" ++ roots

def assocReq (ts : List String) : String :=
  match pRowsX ts with
  | none => "bad-request"
  | some (rows, ts) =>
    match pNames ts with
    | none => "bad-request"
    | some (qs, ts) =>
      match pNames ts with
      | none => "bad-request"
      | some (as, _) =>
        let x := makeX rows
        let fuel := fuelFor x.ns.defs
        "ok " ++ indexReply x ++ "#" ++ ";".intercalate (qs.map (assocQReply fuel x as))

def pSubjTag : P SubjTag := fun ts => do
  let (k, ts) ← pH ts
  let (r, ts) ← pHO ts
  pure ({ key := k, ref := r }, ts)

def pRecX : P RecX := fun ts => do
  let (key, ts) ← pHO ts
  let (id, ts) ← pHO ts
  let (n, ts) ← pNat ts
  let (tags, ts) ← pRep pSubjTag n ts
  pure ({ key := key, id := id, tags := tags }, ts)

structure RelQ where
  subj : Nat
  rel : Name
  term : Option Name
  target : Option Name

def pRelQ : P RelQ := fun ts => do
  let (i, ts) ← pNat ts
  let (r, ts) ← pH ts
  let (t, ts) ← pHO ts
  let (g, ts) ← pHO ts
  pure ({ subj := i, rel := r, term := t, target := g }, ts)

def relReq (ts : List String) : String :=
  match pRowsX ts with
  | none => "bad-request"
  | some (rows, ts) =>
    match (do let (n, ts) ← pNat ts; pRep pRecX n ts : Option (List RecX × List String)) with
    | none => "bad-request"
    | some (recs, ts) =>
      match (do let (n, ts) ← pNat ts; pRep pRelQ n ts : Option (List RelQ × List String)) with
      | none => "bad-request"
      | some (qs, _) =>
        let x := makeX rows
        let fuel := fuelFor x.ns.defs
        "ok " ++ ";".intercalate (qs.map (fun q =>
          match recs[q.subj]? with
          | none => "bad-subject"
          | some s =>
            match NsA.hasRelationship fuel (recs.length + 1) x recs q.rel q.term q.target s with
            | .ok true => "1"
            | .ok false => "0"
            | e => "!" ++ e.tag))

def entReq (ts : List String) : String :=
  match pRowsX ts with
  | none => "bad-request"
  | some (rows, ts) =>
    match pNames ts with
    | none => "bad-request"
    | some (order, ts) =>
      match pRecs ts with
      | none => "bad-request"
      | some (recs, _) =>
        let x := makeX rows
        let fuel := fuelFor x.ns.defs
        "ok " ++ ";".intercalate (recs.map (fun r =>
          match reflect fuel x.ns r with
          | .ok ds =>
            match entityType fuel x.ns ds order with
            | .ok (some n) => H n
            | .ok none => "-"
            | e => "!" ++ e.tag
          | e => "!" ++ e.tag))
end

def pPD : P NsA.PDict := fun ts => do
  let (k, ts) ← pNat ts
  pRep (fun ts => do
    let (n, ts) ← pH ts
    let (v, ts) ← pNat ts
    pure ((n, v), ts)) k ts

def pChildSpec : P (Name × NsA.ChildSpec) := fun ts => do
  let (n, ts) ← pH ts
  let (usable, ts) ← pNat ts
  let (nc, ts) ← pNat ts
  let (cs, ts) ← pRep pPD nc ts
  let (fl, ts) ← pNames ts
  pure ((n, { children := if usable != 0 then some cs else none, flatten := fl }), ts)

def showPD (d : NsA.PDict) : String :=
  let d := d.mergeSort (fun a b => nameLe a.1 b.1)
  "{" ++ ",".intercalate (d.map (fun kv => H kv.1 ++ ":" ++ toString kv.2)) ++ "}"

def protosReq (ts : List String) : String :=
  match pRows ts with
  | none => "bad-request"
  | some (rows, ts) =>
    match (do let (n, ts) ← pNat ts; pRep pChildSpec n ts : Option (List (Name × NsA.ChildSpec) × List String)) with
    | none => "bad-request"
    | some (pd, ts) =>
      match (do let (n, ts) ← pNat ts; pRep pPD n ts : Option (List NsA.PDict × List String)) with
      | none => "bad-request"
      | some (parents, _) =>
        let ns := make rows
        let fuel := fuelFor ns.defs
        "ok " ++ ";".intercalate (parents.map (fun parent =>
          let ps := (NsA.protosLoop fuel ns pd parent).map showPD
          let ps := (ps.mergeSort (fun a b => decide (a ≤ b))).eraseDups
          "|".intercalate ps))

def coreReq (ts : List String) : String :=
  match pRows ts with
  | none => "bad-request"
  | some (rows, _) =>
    "ok " ++ ",".intercalate ((NsA.coreTypeDefs (make rows).defs).map (fun o =>
      match o with
      | some n => H n
      | none => "-"))

def smallReq (ts : List String) : String :=
  match pRows ts with
  | none => "bad-request"
  | some (rows, ts) =>
    match pNames ts with
    | none => "bad-request"
    | some (names, _) =>
      let ns := make rows
      "ok " ++ ",".intercalate (names.map (fun n => if NsA.hasSubtype ns n then "1" else "0")) ++ "#" ++
        showList (NsA.allMatchingNames ns.defs names)

/-- requests `C13 <cmd> ...` (tokens after the property id) -/
def handle (ts : List String) : String :=
  match ts with
  | cmd :: rest =>
    if cmd = "sym" then symReq rest
    else if cmd = "refl" then reflReq rest
    else if cmd = "assoc" then assocReq rest
    else if cmd = "rel" then relReq rest
    else if cmd = "ent" then entReq rest
    else if cmd = "protos" then protosReq rest
    else if cmd = "core" then coreReq rest
    else if cmd = "small" then smallReq rest
    else "bad-request"
  | [] => "bad-request"

end Hs.Drv.C13
