import Hs.Model.Vx
namespace Hs.Drv.C13

/-- requests `C13 <cmd> ...` (tokens after the property id) -/
def handle (_ts : List String) : String := "bad-request"

end Hs.Drv.C13
