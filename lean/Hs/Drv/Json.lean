import Hs.Model.Vx
import Hs.Model.Hayson
namespace Hs.Drv.Json
open Hs Hs.Vx Hs.Hayson

/-! J tokens.  request form: `jn | jb0 | jb1 | ji LEX BITS H(display) | jf H(lex) BITS H(display) | js H |
ja k J*k | jo k (H(key) J)*k`; reply form: `ji INT`, `jf BITS` (no lexemes). -/

mutual
partial def pJ : P Json := fun ts => do
  let (t, ts) ← tok ts
  match t with
  | "jn" => pure (.null, ts)
  | "jb0" => pure (.bool false, ts)
  | "jb1" => pure (.bool true, ts)
  | "ji" => do
    let (lex, ts) ← tok ts
    let i ← lex.toInt?
    let (b, ts) ← pBits ts
    let (d, ts) ← pH ts
    pure (.int i { bits := b, txt := d }, ts)
  | "jf" => do
    let (_, ts) ← tok ts
    let (b, ts) ← pBits ts
    let (d, ts) ← pH ts
    pure (.flt { bits := b, txt := d }, ts)
  | "js" => do let (x, ts) ← pH ts; pure (.str x, ts)
  | "ja" => do
    let (k, ts) ← pNat ts
    let (xs, ts) ← pRep pJ k ts
    pure (.arr (Jsons.ofList xs), ts)
  | "jo" => do
    let (k, ts) ← pNat ts
    let (ms, ts) ← pRep (fun ts => do
      let (key, ts) ← pH ts
      let (j, ts) ← pJ ts
      pure ((key, j), ts)) k ts
    pure (.obj (Members.ofList ms), ts)
  | _ => none
end

partial def wJ : Json → List String
  | .null => ["jn"]
  | .bool b => [if b then "jb1" else "jb0"]
  | .int i _ => ["ji", toString i]
  | .flt f => ["jf", natHex f.bits 16]
  | .str x => ["js", H x]
  | .arr xs => ["ja", toString xs.toList.length] ++ xs.toList.flatMap wJ
  | .obj ms => ["jo", toString ms.toList.length] ++ ms.toList.flatMap fun (k, j) => H k :: wJ j

def resTag {α} (r : Res α) (f : α → String) : String :=
  match r with
  | .ok a => "ok " ++ f a
  | .err => "err" | .panic => "panic" | .diverge => "diverge" | .depth => "depth"

/-- `jenc V` → `ok J` (what `Serialize` produces); `jdec J` → `ok V` | `err` (the visitor) -/
def handle (ts : List String) : String :=
  match ts with
  | cmd :: rest =>
    if cmd = "jenc" then
      match pVal rest with
      | some (v, _) => "ok " ++ join (wJ (toJson v))
      | none => "bad-request"
    else if cmd = "jdec" then
      match pJ rest with
      | some (j, _) => resTag (fromJson j) showVal
      | none => "bad-request"
    else "bad-request"
  | [] => "bad-request"

end Hs.Drv.Json
