import Hs.Drv.FilterVx
import Hs.Model.FilterLoops
namespace Hs.Drv.C09
open Hs Hs.Vx Hs.FLoops

def okBool (r : Res Bool) : String :=
  Hs.Drv.FilterVx.resTag r (fun b => if b then "1" else "0")

/-- `weq H(target) V(start) k (ID|- EMPTY V)*k` → `ok 0|1`; fuel = (number of records) + 1 -/
def weqReq (ts : List String) : String :=
  match (do
    let (target, ts) ← pH ts
    let (start, ts) ← pVal ts
    let (k, ts) ← pNat ts
    let (recs, _) ← pRep (fun ts => do
      let (id, ts) ← pHO ts
      let (e, ts) ← pNat ts
      let (v, ts) ← pVal ts
      pure (({ id := id, empty := e != 0, target := v } : RecView), ts)) k ts
    pure (okBool (weqEval recs target start ((viewIds recs).length + 1)))) with
  | some s => s
  | none => "bad-request"

def pDefVal : P DefVal := fun ts => do
  let (s, ts) ← tok ts
  let (f, ts) ← pNat ts
  if s = "-" then pure (.absent, ts)
  else if s = "!" then pure (.other, ts)
  else pure (.sym (f != 0), ts)

/-- `rel ISREL TRANSITIVE HASRECIP HASTERM TARGET|- SUBJECT k (KEY|- ID|- n (REF|- RELSYM|-|! FITS RECIPSYM|-|! RFITS)*n)*k` -/
def relReq (ts : List String) : String :=
  match (do
    let (isRel, ts) ← pNat ts
    let (tr, ts) ← pNat ts
    let (hr, ts) ← pNat ts
    let (_ht, ts) ← pNat ts
    let (target, ts) ← pHO ts
    let (si, ts) ← pNat ts
    let (k, ts) ← pNat ts
    let (recs, _) ← pRep (fun ts => do
      let (key, ts) ← pHO ts
      let (id, ts) ← pHO ts
      let (n, ts) ← pNat ts
      let (es, ts) ← pRep (fun ts => do
        let (r, ts) ← pHO ts
        let (rel, ts) ← pDefVal ts
        let (rc, ts) ← pDefVal ts
        pure (({ ref := r, rel := rel, recip := rc } : Entry), ts)) n ts
      pure (({ key := key, id := id, entries := es } : Rec), ts)) k ts
    let subject ← recs[si]?
    pure (okBool (hasRelationship recs (isRel != 0) (tr != 0) (hr != 0) target subject ((recIds recs).length + 1)))) with
  | some s => s
  | none => "bad-request"

/-- requests `C09 <cmd> ...`: `parse H(text)` (shared with C08), `weq …`, `rel …` -/
def handle (ts : List String) : String :=
  match Hs.Drv.FilterVx.handle ts with
  | some r => r
  | none =>
    match ts with
    | "weq" :: rest => weqReq rest
    | "rel" :: rest => relReq rest
    | _ => "bad-request"

end Hs.Drv.C09
