import Hs.Model.Vx
namespace Hs.Drv.C09

/-- requests `C09 <cmd> ...` (tokens after the property id) -/
def handle (_ts : List String) : String := "bad-request"

end Hs.Drv.C09
