import Hs.Model.Vx
namespace Hs.Drv.C16

/-- requests `C16 <cmd> ...` (tokens after the property id) -/
def handle (_ts : List String) : String := "bad-request"

end Hs.Drv.C16
