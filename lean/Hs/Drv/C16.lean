/-
  Driver glue for C16: answers the requests of harness/src/c16.rs with the model `Hs.UnitArith` run on the
  regenerated table `Hs.Gen.UnitsQ` (entry order = order of the `UNITS` array literal).
    pair A B        → c=<ok|err> m=<name|err> d=<name|err> a=<name|-|err> s=… nm=… nd=…
    solo A          → the eight results of (x,A) op (y,—) and (x,—) op (y,A), op = + − × ÷
    none            → the four results of two unit-less Numbers
    cx A B xbits rbits → `in` when the double `rbits` lies within 1e-14·(|x·sa|+|oa|+|ob|)/|sb| of the exact
                      value of `A.convert_to(x, B)`, `out …` otherwise, `err` when the model refuses
  Units are addressed by name (first id).  Not part of any theorem.
-/
import Hs.Model.Vx
import Hs.Model.UnitArith
import Hs.Gen.UnitsQ
namespace Hs.Drv.C16
open Hs Hs.UnitArith

def es : List QUnit := entryUnits Gen.UnitsQ.units Gen.UnitsQ.entries

/-- units sorted by name, for binary search -/
def sorted : Array QUnit := Gen.UnitsQ.units.toArray.qsort (fun a b => a.name < b.name)

partial def findGo (n : String) (lo hi : Nat) : Option QUnit :=
  if lo ≥ hi then none else
  let mid := (lo + hi) / 2
  match sorted[mid]? with
  | none => none
  | some u =>
    if u.name = n then some u
    else if u.name < n then findGo n (mid + 1) hi
    else findGo n lo mid

def byName (n : String) : Option QUnit := findGo n 0 sorted.size

def uname : Res QUnit → String
  | .ok u => u.name
  | _ => "err"

def nname : Res QNum → String
  | .ok n => match n.unit with
    | some u => u.name
    | none => "-"
  | _ => "err"

def X : Rat := 6
def Y : Rat := (3 : Rat) / 2

def pairReq (a b : QUnit) : String :=
  let c := match convertTo a b 1 with
    | .ok _ => "ok"
    | _ => "err"
  let na : QNum := ⟨X, some a⟩
  let nb : QNum := ⟨Y, some b⟩
  s!"c={c} m={uname (mulUnits es a b)} d={uname (divUnits es a b)} a={nname (numAdd na nb)} s={nname (numSub na nb)} nm={nname (numMul es na nb)} nd={nname (numDiv es na nb)}"

def soloReq (a : QUnit) : String :=
  let na : QNum := ⟨X, some a⟩
  let n0 : QNum := ⟨Y, none⟩
  " ".intercalate ([numAdd na n0, numSub na n0, numMul es na n0, numDiv es na n0,
    numAdd n0 na, numSub n0 na, numMul es n0 na, numDiv es n0 na].map nname)

def noneReq : String :=
  let p : QNum := ⟨X, none⟩
  let q : QNum := ⟨Y, none⟩
  " ".intercalate ([numAdd p q, numSub p q, numMul es p q, numDiv es p q].map nname)

def cxReq (a b : QUnit) (xb rb : String) : String :=
  match (Vx.natOfHex xb).bind ratOfBits, (Vx.natOfHex rb).bind ratOfBits with
  | some x, some r =>
    match convertTo a b x with
    | .ok e =>
      let mag := qabs (x * a.scale) + qabs a.offset + qabs b.offset
      let tol := mag / qabs b.scale / 100000000000000
      if qabs (r - e) ≤ tol then "in" else s!"out exact={e}"
    | _ => "err"
  | _, _ => "bad-number"

def handle (ts : List String) : String :=
  match ts with
  | ["none"] => noneReq
  | ["solo", a] =>
    match byName a with
    | some a => soloReq a
    | none => "unknown-unit"
  | ["pair", a, b] =>
    match byName a, byName b with
    | some a, some b => pairReq a b
    | _, _ => "unknown-unit"
  | ["cx", a, b, xb, rb] =>
    match byName a, byName b with
    | some a, some b => cxReq a b xb rb
    | _, _ => "unknown-unit"
  | _ => "bad-request"

end Hs.Drv.C16
