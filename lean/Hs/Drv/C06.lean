import Hs.Model.Vx
namespace Hs.Drv.C06

/-- requests `C06 <cmd> ...` (tokens after the property id) -/
def handle (_ts : List String) : String := "bad-request"

end Hs.Drv.C06
