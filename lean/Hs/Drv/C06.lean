import Hs.Model.Vx
import Hs.Model.Tz
namespace Hs.Drv.C06
open Hs Hs.Vx Hs.Tz

/-- `DB ::= k (H(tzid) instant offset)*k` — the zone offset function at the instants the request can
reach (the instant of the text and, where the zone's offset there has seconds, that instant minus
them); anything else is answered with an offset no zone has -/
def pDb : P TzDb := fun ts => do
  let (k, ts) ← pNat ts
  let (es, ts) ← pRep (fun ts => do
    let (z, ts) ← pH ts
    let (t, ts) ← pInt ts
    let (o, ts) ← pInt ts
    pure ((z, t, o), ts)) k ts
  pure ({ offsetAt := fun z t =>
    match es.find? (fun e => e.1 = z ∧ e.2.1 = t) with
    | some e => e.2.2
    | none => 999999999 }, ts)

def dtReply (db : TzDb) : Res DT → String
  | .ok d => s!"ok {d.secs} {d.ns} {d.offset db} {H d.tzid} {H d.short}"
  | r => r.tag

def fnv (ids : List (List Char)) : Nat :=
  ids.foldl (fun h id =>
    (id ++ ['\n']).foldl (fun h c => ((h ^^^ c.toNat) * 0x100000001b3) % 18446744073709551616) h) 0xcbf29ce484222325

def sortedIds : List String := (Gen.Zones.zones.map String.ofList).toArray.qsort (· < ·) |>.toList

def handle (ts : List String) : String :=
  match ts with
  | "offtext" :: ts =>
    match pInt ts with
    | some (off, _) => "ok " ++ H (offsetText off)
    | none => "bad-request"
  | "rfcoff" :: ts =>
    match pInt ts with
    | some (off, _) => "ok " ++ H (rfcOffsetText off) ++ s!" {roundMin off}"
    | none => "bad-request"
  | "rfc" :: ts =>
    (do
      let (loc, ts) ← pInt ts
      let (ns, ts) ← pNat ts
      let (off, ts) ← pInt ts
      let (db, _) ← pDb ts
      pure (dtReply db (makeDateTime loc ns off))).getD "bad-request"
  | "withtz" :: ts =>
    (do
      let (secs, ts) ← pInt ts
      let (ns, ts) ← pNat ts
      let (name, ts) ← pH ts
      let (db, _) ← pDb ts
      pure (dtReply db (makeDateTimeWithTz secs ns name))).getD "bad-request"
  | "fromtext" :: ts =>
    (do
      let (secs, ts) ← pInt ts
      let (ns, ts) ← pNat ts
      let (written, ts) ← pInt ts
      let (name, ts) ← pH ts
      let (db, _) ← pDb ts
      pure (dtReply db (makeDateTimeFromText db secs ns written name))).getD "bad-request"
  | "zenc" :: ts =>
    (do
      let (tzid, ts) ← pH ts
      let (txt, _) ← pH ts
      -- the RFC 3339 text is chrono's; the writer appends the city name unless the zone is UTC
      let d : DT := ⟨0, 0, tzid⟩
      pure ("ok " ++ H (if d.isUtc then txt else txt ++ ' ' :: d.short))).getD "bad-request"
  | "jenc" :: ts =>
    (do
      let (tzid, ts) ← pH ts
      let (txt, _) ← pH ts
      let d : DT := ⟨0, 0, tzid⟩
      pure ("ok " ++ H txt ++ " " ++ (if d.isUtc then "-" else H d.short))).getD "bad-request"
  | "zdec" :: ts =>
    (do
      let (loc, ts) ← pInt ts
      let (ns, ts) ← pNat ts
      let (offTxt, ts) ← pH ts
      let (name, ts) ← pHO ts
      let (db, _) ← pDb ts
      pure (dtReply db (zincDec db ⟨loc, ns, offTxt, name⟩))).getD "bad-request"
  | "jdec" :: ts =>
    (do
      let (loc, ts) ← pInt ts
      let (ns, ts) ← pNat ts
      let (off, ts) ← pInt ts
      let (name, ts) ← pHO ts
      let (db, _) ← pDb ts
      pure (dtReply db (jsonDec db ⟨loc, ns, off, name⟩))).getD "bad-request"
  | "capi" :: ts =>
    (do
      let (secs, ts) ← pInt ts
      let (ns, ts) ← pNat ts
      let (name, ts) ← pH ts
      let (db, _) ← pDb ts
      match capiMakeTz secs ns name with
      | .ok d => pure (dtReply db (.ok d) ++ s!" {(capiGetLocal db d).1}")
      | r => pure r.tag).getD "bad-request"
  | "zones" :: ts =>
    (do
      let (n, ts) ← pNat ts
      let (h, _) ← pNat ts
      let ids := sortedIds.map String.toList
      pure (if ids.length = n ∧ fnv ids = h then "ok" else s!"mismatch {ids.length} {fnv ids}")).getD "bad-request"
  | _ => "bad-request"

end Hs.Drv.C06
