import Hs.Model.Vx
namespace Hs.Drv.C18

/-- requests `C18 <cmd> ...` (tokens after the property id) -/
def handle (_ts : List String) : String := "bad-request"

end Hs.Drv.C18
