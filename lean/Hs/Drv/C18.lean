import Hs.Model.Vx
import Hs.Model.CApi
import Hs.Model.COwn
import Hs.Gen.CApi
import Hs.Drv.C17
/-
  Driver glue for C18 (not part of any theorem).

  `C18 hist <call>*`        same as `C17 hist` (null-argument runs: the model's answer to the same calls)
  `C18 own <call>*`         the ownership bookkeeping of the history: `ok v:<live value ids> s:<live string
                            ids> f:<live filter ids>` or `bad <class>` when the allocator's view rejects it
  `C18 nulltable <fn:i>*`   the harness's (function, pointer parameter) pairs must be exactly those of the
                            translated inventory (the two exempt destroy functions left out)
-/
namespace Hs.Drv.C18
open Hs Hs.Vx Hs.CApi Hs.COwn

def sortNats (l : List Nat) : List Nat :=
  l.foldl (fun acc k => (Hs.Drv.C17.insertSorted k () acc)) [] |>.map (·.1)

def showBad : Bad → String
  | .doubleFree => "doubleFree" | .useAfterFree => "useAfterFree" | .wrongDestroy => "wrongDestroy"
  | .dangling => "dangling" | .reissued => "reissued"

def ownReq (ts : List String) : String :=
  match Hs.Drv.C17.pOps ts [] with
  | none => "bad-request"
  | some ops =>
    let tr := traceOf CState.init { snext := 0, bnext := 0 } ops
    match run Heap.empty tr with
    | .error b => "bad " ++ showBad b
    | .ok h =>
      let ids (c : Cls) := sortNats ((h.live.filter (fun o => o.cls == c)).map (·.id))
      let sh (l : List Nat) := ",".intercalate (l.map toString)
      s!"ok v:{sh (ids .val)} s:{sh (ids .str)} f:{sh (ids .flt)}"

def nullTableReq (ts : List String) : String :=
  let want := Gen.CApi.fns.flatMap fun f =>
    if f.name == "haystack_value_destroy" || f.name == "haystack_string_destroy" then []
    else (List.range f.ptrParams.length).map fun i => s!"{f.name}:{i}"
  let missing := want.filter (fun n => !ts.contains n)
  let extra := ts.filter (fun n => !want.contains n)
  if missing.isEmpty && extra.isEmpty then s!"ok {want.length}"
  else "missing:" ++ ",".intercalate missing ++ " extra:" ++ ",".intercalate extra

def handle (ts : List String) : String :=
  match ts with
  | "hist" :: rest => Hs.Drv.C17.histReq rest
  | "own" :: rest => ownReq rest
  | "nulltable" :: rest => nullTableReq rest
  | _ => "bad-request"

end Hs.Drv.C18
