import Hs.Model.Vx
import Hs.Model.Cmp
namespace Hs.Drv.C12
open Hs Hs.Vx

def ordS : Ordering → String
  | .lt => "lt" | .eq => "eq" | .gt => "gt"

/-- `cmp Va Vb` → `ok <==> <same hasher writes> <cmp> <partial_cmp>` -/
def cmpReq (ts : List String) : String :=
  match pVal ts with
  | none => "bad-request"
  | some (a, ts) =>
    match pVal ts with
    | none => "bad-request"
    | some (b, _) =>
      let e := if Val.eqv a b then "1" else "0"
      let h := if Val.hashSeq a = Val.hashSeq b then "1" else "0"
      let p := match Val.pcmp a b with
        | none => "none"
        | some o => ordS o
      s!"ok {e} {h} {ordS (Val.cmp a b)} {p}"

def handle (ts : List String) : String :=
  match ts with
  | cmd :: rest => if cmd = "cmp" then cmpReq rest else "bad-request"
  | [] => "bad-request"

end Hs.Drv.C12
