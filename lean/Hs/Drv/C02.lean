import Hs.Model.Vx
namespace Hs.Drv.C02

/-- requests `C02 <cmd> ...` (tokens after the property id) -/
def handle (_ts : List String) : String := "bad-request"

end Hs.Drv.C02
