import Hs.Drv.Json
namespace Hs.Drv.C02

/-- requests `C02 jenc V`, `C02 jdec J` -/
def handle (ts : List String) : String := Hs.Drv.Json.handle ts

end Hs.Drv.C02
