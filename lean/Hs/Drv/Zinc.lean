import Hs.Model.Vx
import Hs.Model.ZincEnc
import Hs.Model.ZincParse
namespace Hs.Drv.Zinc
open Hs Hs.Vx Hs.Zinc

def resTag {α} (r : Res α) (f : α → String) : String :=
  match r with
  | .ok a => "ok " ++ f a
  | .err => "err"
  | .panic => "panic"
  | .diverge => "diverge"
  | .depth => "depth"

/-- `parse_grid_iterator` driven to the end (or the first error): one entry per `next()` call:
`row <bytes pulled from the reader so far> {dict}`, `e` (an `Err` item), then `end`. -/
def rowsTrace (bs : List UInt8) : String :=
  let fuel := fuelFor bs.length
  let total := bs.length
  match lexRead fuel (Scan.make bs) with
  | .ok p =>
    match gridHeader fuel 0 p with
    | .ok ((_, cols, _), r0) =>
      let names := cols.map (·.1)
      let rec go (n : Nat) (r : RowState) (acc : List String) : String :=
        match n with
        | 0 => join (acc ++ ["unbounded"])
        | n + 1 =>
          match rowNext fuel 0 r names with
          | .ok (none, _) => join (acc ++ ["end"])
          | .ok (some row, r1) =>
            go n r1 (acc ++ ["row", toString (total - r1.p.sc.inp.length)] ++ wTags row)
          | .err => join (acc ++ ["e", "end"])
          | .panic => join (acc ++ ["panic"])
          | .diverge => join (acc ++ ["diverge"])
          | .depth => join (acc ++ ["depth"])
      "ok " ++ go (total + 3) r0 []
    | .err => "err" | .panic => "panic" | .diverge => "diverge" | .depth => "depth"
  | .err => "err" | .panic => "panic" | .diverge => "diverge" | .depth => "depth"

/-- requests shared by the Zinc properties:
  `enc V`          → `ok H(text)`
  `dec H(bytes)`   → `ok V` | `err` | … -/
def handle (ts : List String) : String :=
  match ts with
  | cmd :: rest =>
    if cmd = "enc" then
      match pVal rest with
      | some (v, _) => "ok " ++ hexOfBytes (encode v)
      | none => "bad-request"
    else if cmd = "dec" then
      match rest with
      | [h] => match bytesOfHex h with
        | some bs => resTag (fromBytes bs) showVal
        | none => "bad-request"
      | _ => "bad-request"
    else if cmd = "rows" then
      match rest with
      | [h] => match bytesOfHex h with
        | some bs => rowsTrace bs
        | none => "bad-request"
      | _ => "bad-request"
    else "bad-request"
  | [] => "bad-request"

end Hs.Drv.Zinc
