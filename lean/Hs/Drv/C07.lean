import Hs.Model.Vx
import Hs.Model.Filter
import Hs.Model.FilterSpec
namespace Hs.Drv.C07
open Hs Hs.Vx

/-! Exchange syntax of filters (prefix tokens):
  OR   ::= or k AND*k          AND ::= and k TERM*k          P ::= k H*k
  TERM ::= par OR | has P | miss P | isa H(sym) | weq P H(refid) | rel H(rel) HO(term) HO(refid)
         | cmp OP P V          OP ::= eq | ne | lt | le | gt | ge          V = a VX value
-/

def pPath : P FPath := fun ts => do
  let (k, ts) ← pNat ts
  pRep pH k ts

def pOp : P CmpOp := fun ts => do
  let (t, ts) ← tok ts
  match t with
  | "eq" => pure (.eq, ts) | "ne" => pure (.ne, ts) | "lt" => pure (.lt, ts)
  | "le" => pure (.le, ts) | "gt" => pure (.gt, ts) | "ge" => pure (.ge, ts)
  | _ => none

mutual
partial def pOr : P FOr := fun ts => do
  let (t, ts) ← tok ts
  if t ≠ "or" then none else
  let (k, ts) ← pNat ts
  let (as, ts) ← pRep pAnd k ts
  pure (FOr.ofList as, ts)
partial def pAnd : P FAnd := fun ts => do
  let (t, ts) ← tok ts
  if t ≠ "and" then none else
  let (k, ts) ← pNat ts
  let (xs, ts) ← pRep pTerm k ts
  pure (FAnd.ofList xs, ts)
partial def pTerm : P FTerm := fun ts => do
  let (t, ts) ← tok ts
  match t with
  | "par" => do let (o, ts) ← pOr ts; pure (.parens o, ts)
  | "has" => do let (p, ts) ← pPath ts; pure (.has p, ts)
  | "miss" => do let (p, ts) ← pPath ts; pure (.missing p, ts)
  | "isa" => do let (s, ts) ← pH ts; pure (.isA s, ts)
  | "weq" => do
    let (p, ts) ← pPath ts
    let (r, ts) ← pH ts
    pure (.wildcardEq p r, ts)
  | "rel" => do
    let (r, ts) ← pH ts
    let (t, ts) ← pHO ts
    let (f, ts) ← pHO ts
    pure (.relation r t f, ts)
  | "cmp" => do
    let (op, ts) ← pOp ts
    let (p, ts) ← pPath ts
    let (v, ts) ← pVal ts
    pure (.cmp p op v, ts)
  | _ => none
end

/-- resolver records: `same` (the evaluated records) or `k REC*k` -/
def pRes (recs : List Tags) : P (List Tags) := fun ts => do
  let (t, ts) ← tok ts
  if t = "same" then pure (recs, ts) else
  let k ← t.toNat?
  pRep pTags k ts

def bitAt (s : String) (i : Nat) : Bool := s.toList.getD i '0' == '1'

structure Req where
  mode : String
  f : FOr
  recs : List Tags
  res : List Tags
  fitsT : List (List Char × String)
  relT : List ((List Char × Option (List Char) × Option (List Char)) × String)

def pReq : P Req := fun ts => do
  let (mode, ts) ← tok ts
  let (f, ts) ← pOr ts
  let (n, ts) ← pNat ts
  let (recs, ts) ← pRep pTags n ts
  let (res, ts) ← pRes recs ts
  let (nf, ts) ← pNat ts
  let (fitsT, ts) ← pRep (fun ts => do
    let (s, ts) ← pH ts
    let (b, ts) ← tok ts
    pure ((s, b), ts)) nf ts
  let (nr, ts) ← pNat ts
  let (relT, ts) ← pRep (fun ts => do
    let (r, ts) ← pH ts
    let (t, ts) ← pHO ts
    let (f, ts) ← pHO ts
    let (b, ts) ← tok ts
    pure (((r, t, f), b), ts)) nr ts
  pure ({ mode, f, recs, res, fitsT, relT }, ts)

def bits (bs : List Bool) : String := String.ofList (bs.map fun b => if b then '1' else '0')

def indexOfRow (keys : List String) (r : Tags) : String :=
  let k := showVal (.dict r)
  match keys.findIdx? (· == k) with
  | some i => toString i
  | none => "?"

/-- `feval MODE F n REC*n RES nf (H bits)*nf nr (H HO HO bits)*nr`
     → `ok e=<bits> s=<bits, ? where the property leaves the answer open>[ f=<row|-> a=<rows|->]` -/
def feval (ts : List String) : String :=
  match pReq ts with
  | none => "bad-request"
  | some (q, _) =>
    let isDict := q.mode == "d"
    let res : Resolver := if isDict then dictResolver else recsResolver q.res
    let resRecs : List Tags := if isDict then [] else q.res
    let fitsAt (i : Nat) : Tags → List Char → Bool := fun _ sym =>
      match q.fitsT.find? (fun e => e.1 == sym) with
      | some e => bitAt e.2 i
      | none => false
    let relAt (i : Nat) : Tags → List Char → Option (List Char) → Option (List Char) → Bool :=
      fun _ r t f =>
        match q.relT.find? (fun e => e.1.1 == r && e.1.2.1 == t && e.1.2.2 == f) with
        | some e => bitAt e.2 i
        | none => false
    let idx := List.range q.recs.length
    let cxs : List Ctx := (q.recs.zip idx).map fun (r, i) =>
      { dict := r, res := res, fits := fitsAt i, rel := relAt i }
    if cxs.any (fun cx => q.f.diverges cx) then "diverge" else
    let e := cxs.map fun cx => q.f.evalImpl cx
    let s := (q.recs.zip idx).map fun (r, i) =>
      let env : SpecEnv :=
        { deref := recsResolveRef resRecs, hops := resRecs.length + 2, fits := fitsAt i, rel := relAt i,
          mixed := fun _ _ _ => false }
      if q.f.noMixed env.deref r then (if q.f.evalSpec env r then '1' else '0') else '?'
    let base := s!"ok e={bits e} s={String.ofList s}"
    if isDict then
      -- `Grid::filter` / `Grid::filter_all` over the rows: the namespace is the empty DEFAULT_NS
      let flt : Tags → Bool := dictFilter (fun _ _ => false) (fun _ _ _ _ => false) q.f
      let rows := Rows.ofList q.recs
      let keys := q.recs.map fun r => showVal (.dict r)
      let first := match filterFirst flt rows with
        | some r => indexOfRow keys r
        | none => "-"
      let all := filterAll flt rows
      let allS := if all.isEmpty then "-" else ",".intercalate (all.map (indexOfRow keys))
      s!"{base} f={first} a={allS}"
    else base

def handle (ts : List String) : String :=
  match ts with
  | cmd :: rest => if cmd = "feval" then feval rest else "bad-request"
  | [] => "bad-request"

end Hs.Drv.C07
