import Hs.Model.Vx
namespace Hs.Drv.C07

/-- requests `C07 <cmd> ...` (tokens after the property id) -/
def handle (_ts : List String) : String := "bad-request"

end Hs.Drv.C07
