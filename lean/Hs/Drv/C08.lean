import Hs.Model.Vx
namespace Hs.Drv.C08

/-- requests `C08 <cmd> ...` (tokens after the property id) -/
def handle (_ts : List String) : String := "bad-request"

end Hs.Drv.C08
