import Hs.Drv.FilterVx
namespace Hs.Drv.C08

/-- requests `C08 <cmd> ...` (tokens after the property id):
  `print F` → `ok H(text)` (`Filter::to_string`),  `parse H(text)` → `ok F` | `err` (`Filter::try_from`) -/
def handle (ts : List String) : String :=
  match Hs.Drv.FilterVx.handle ts with
  | some r => r
  | none => "bad-request"

end Hs.Drv.C08
