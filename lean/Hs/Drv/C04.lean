import Hs.Model.Vx
namespace Hs.Drv.C04

/-- requests `C04 <cmd> ...` (tokens after the property id) -/
def handle (_ts : List String) : String := "bad-request"

end Hs.Drv.C04
