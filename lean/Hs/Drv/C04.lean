import Hs.Drv.Zinc
import Hs.Spec.ZincRead
namespace Hs.Drv.C04
open Hs Hs.Vx

/-- `read H(text)` → the reference reader's value: `ok V` | `err`; other requests: shared Zinc requests -/
def handle (ts : List String) : String :=
  match ts with
  | [cmd, h] =>
    if cmd = "read" then
      match bytesOfHex h with
      | some bs => match Hs.Spec.read bs with
        | some v => "ok " ++ showVal v
        | none => "err"
      | none => "bad-request"
    else Hs.Drv.Zinc.handle ts
  | _ => Hs.Drv.Zinc.handle ts

end Hs.Drv.C04
