import Hs.Model.Vx
namespace Hs.Drv.C17

/-- requests `C17 <cmd> ...` (tokens after the property id) -/
def handle (_ts : List String) : String := "bad-request"

end Hs.Drv.C17
