import Hs.Model.Vx
import Hs.Model.CApi
import Hs.Gen.CApi
/-
  Driver glue for C17 (not part of any theorem).

  `C17 hist <call>*`         a history of C calls from the empty state; every call is
                             `<extern "C" function name> <arguments in declaration order> [<ext results>]`
       pointer to Value/Filter : `@<id>` | `@-` (null)          C string : hex | `~` (null) | `!` (not UTF-8)
       out pointer (`*mut *const Value`), bool : `1` | `0`       f64 : `<bits> <hex of Display>`
       reply: per call the raw result, ` => <VX>` of the handle the call writes, then the final pool.
  `C17 inventory <names>`     the harness's call table must be exactly the translated inventory.
-/
namespace Hs.Drv.C17
open Hs Hs.Vx Hs.CApi

/-! plain VX writer (what `vx::show` of the harness prints for a `Value`; independent of the lexeme forms
`Hs.Vx.wVal` uses for other properties) -/
mutual
partial def wPlain : Val → List String
  | .null => ["N"] | .remove => ["R"] | .marker => ["M"] | .na => ["A"]
  | .bool b => [if b then "B1" else "B0"]
  | .num n => ["n", natHex n.v.bits 16, H n.v.txt, HO n.unit]
  | .str s => ["s", H s] | .uri s => ["u", H s] | .sym s => ["y", H s]
  | .ref id dis => ["r", H id, HO dis]
  | .xstr ty v => ["x", H ty, H v]
  | .date d => ["d", toString d.y, toString d.m, toString d.d, H d.txt]
  | .time t => ["t", toString t.h, toString t.mi, toString t.s, toString t.ns, H t.txt]
  | .dateTime t => ["T", toString t.secs, toString t.ns, toString t.off, H t.zone, H t.tzid, H t.txt]
  | .coord a b => ["c", natHex a.bits 16, H a.txt, natHex b.bits 16, H b.txt]
  | .list xs => ["[", toString xs.length] ++ (xs.toList.flatMap wPlain)
  | .dict d => wPlainTags d
  | .grid md cols rows ver =>
    ["G"] ++ wPlainOTags md ++ [toString cols.length]
      ++ (cols.toList.flatMap fun (n, m) => H n :: wPlainOTags m)
      ++ [toString rows.length] ++ (rows.toList.flatMap wPlainTags) ++ [H ver]
partial def wPlainTags (d : Tags) : List String :=
  ["{", toString d.length] ++ (d.toList.flatMap fun (k, v) => H k :: wPlain v)
partial def wPlainOTags : OTags → List String
  | .none => ["-"]
  | .some d => wPlainTags d
end

def showPlain (v : Val) : String := join (wPlain v)

def pPtr : P Ptr := fun ts => do
  let (t, ts) ← tok ts
  match t.toList with
  | ['@', '-'] => pure (none, ts)
  | '@' :: rest => do
    let n ← (String.ofList rest).toNat?
    pure (some n, ts)
  | _ => none

/-- string slots `$k` / `$-` -/
def pSPtr : P Ptr := fun ts => do
  let (t, ts) ← tok ts
  match t.toList with
  | ['$', '-'] => pure (none, ts)
  | '$' :: rest => do
    let n ← (String.ofList rest).toNat?
    pure (some n, ts)
  | _ => none

/-- filter handles `%k` / `%-` -/
def pFPtr : P Ptr := fun ts => do
  let (t, ts) ← tok ts
  match t.toList with
  | ['%', '-'] => pure (none, ts)
  | '%' :: rest => do
    let n ← (String.ofList rest).toNat?
    pure (some n, ts)
  | _ => none

def pCStr : P CStr := fun ts => do
  let (t, ts) ← tok ts
  if t = "~" then pure (.null, ts)
  else if t.startsWith "!" then pure (.bad, ts)
  else do
    let s ← unH t
    pure (.ok s, ts)

def pBool : P Bool := fun ts => do
  let (t, ts) ← tok ts
  if t = "1" then pure (true, ts) else if t = "0" then pure (false, ts) else none

def pOptVal : P (Option Val) := fun ts =>
  match ts with
  | "-" :: rest => some (none, rest)
  | _ => do
    let (v, ts) ← pVal ts
    pure (some v, ts)

def pOptText : P (Option (List Char)) := pHO

def pOp : P COp := fun ts => do
  let (name, ts) ← tok ts
  match K0.fnName <$> [K0.init, .marker, .na, .remove, .list, .dict, .grid] |>.idxOf? name with
  | some i => pure (.mk0 ([K0.init, .marker, .na, .remove, .list, .dict, .grid].getD i .init), ts)
  | none =>
  match Kind.all.find? (fun k => k.fnName == name) with
  | some k => do let (p, ts) ← pPtr ts; pure (.isKind k p, ts)
  | none =>
  match Getter.all.find? (fun g => g.fnName == name) with
  | some g => do let (p, ts) ← pPtr ts; pure (.get g p, ts)
  | none =>
  match [K1.str, .ref, .uri, .symbol].find? (fun k => k.fnName == name) with
  | some k => do let (c, ts) ← pCStr ts; pure (.mk1 k c, ts)
  | none =>
  match name with
  | "haystack_value_make_bool" => do let (b, ts) ← pBool ts; pure (.mkBool b, ts)
  | "haystack_value_make_number" => do let (x, ts) ← pFlt ts; pure (.mkNum x, ts)
  | "haystack_value_make_number_with_unit" => do
    let (x, ts) ← pFlt ts; let (u, ts) ← pCStr ts; let (e, ts) ← pHO ts
    pure (.mkNumUnit x u e, ts)
  | "haystack_value_make_coord" => do let (a, ts) ← pFlt ts; let (b, ts) ← pFlt ts; pure (.mkCoord a b, ts)
  | "haystack_value_make_ref_with_dis" => do let (a, ts) ← pCStr ts; let (b, ts) ← pCStr ts; pure (.mkRefDis a b, ts)
  | "haystack_value_make_xstr" => do let (a, ts) ← pCStr ts; let (b, ts) ← pCStr ts; pure (.mkXStr a b, ts)
  | "haystack_value_make_time" => do
    let (h, ts) ← pNat ts; let (m, ts) ← pNat ts; let (s, ts) ← pNat ts; pure (.mkTime h m s, ts)
  | "haystack_value_make_time_millis" => do
    let (h, ts) ← pNat ts; let (m, ts) ← pNat ts; let (s, ts) ← pNat ts; let (ms, ts) ← pNat ts
    pure (.mkTimeMs h m s ms, ts)
  | "haystack_value_make_date" => do
    let (y, ts) ← pInt ts; let (m, ts) ← pNat ts; let (d, ts) ← pNat ts; pure (.mkDate y m d, ts)
  | "haystack_value_make_utc_datetime" => do
    let (d, ts) ← pPtr ts; let (t, ts) ← pPtr ts; let (e, ts) ← pVal ts; pure (.mkUtc d t e, ts)
  | "haystack_value_make_tz_datetime" => do
    let (d, ts) ← pPtr ts; let (t, ts) ← pPtr ts; let (z, ts) ← pCStr ts; let (e, ts) ← pOptVal ts
    pure (.mkTz d t z e, ts)
  | "haystack_value_push_list_entry" => do let (l, ts) ← pPtr ts; let (e, ts) ← pPtr ts; pure (.lpush l e, ts)
  | "haystack_value_get_list_entry_at" => do
    let (l, ts) ← pPtr ts; let (i, ts) ← pNat ts; let (r, ts) ← pBool ts; pure (.lget l i r, ts)
  | "haystack_value_set_list_entry_at" => do
    let (l, ts) ← pPtr ts; let (i, ts) ← pNat ts; let (e, ts) ← pPtr ts; pure (.lset l i e, ts)
  | "haystack_value_remove_list_entry_at" => do let (l, ts) ← pPtr ts; let (i, ts) ← pNat ts; pure (.lrem l i, ts)
  | "haystack_value_insert_dict_entry" => do
    let (d, ts) ← pPtr ts; let (k, ts) ← pCStr ts; let (e, ts) ← pPtr ts; pure (.dins d k e, ts)
  | "haystack_value_get_dict_entry" => do
    let (d, ts) ← pPtr ts; let (k, ts) ← pCStr ts; let (r, ts) ← pBool ts; pure (.dget d k r, ts)
  | "haystack_value_remove_dict_entry" => do let (d, ts) ← pPtr ts; let (k, ts) ← pCStr ts; pure (.drem d k, ts)
  | "haystack_value_get_dict_keys" => do let (d, ts) ← pPtr ts; let (r, ts) ← pPtr ts; pure (.dkeys d r, ts)
  | "haystack_value_make_grid_from_rows" => do let (r, ts) ← pPtr ts; pure (.gfrom r, ts)
  | "haystack_value_make_grid_from_rows_with_meta" => do
    let (r, ts) ← pPtr ts; let (m, ts) ← pPtr ts; pure (.gfromMeta r m, ts)
  | "haystack_value_get_grid_row_at" => do
    let (g, ts) ← pPtr ts; let (i, ts) ← pNat ts; let (r, ts) ← pPtr ts; pure (.grow g i r, ts)
  | "haystack_value_get_datetime_date" => do
    let (p, ts) ← pPtr ts; let (u, ts) ← pBool ts; let (r, ts) ← pPtr ts; let (e, ts) ← pVal ts
    pure (.dtDate p u r e, ts)
  | "haystack_value_get_datetime_time" => do
    let (p, ts) ← pPtr ts; let (u, ts) ← pBool ts; let (r, ts) ← pPtr ts; let (e, ts) ← pVal ts
    pure (.dtTime p u r e, ts)
  | "haystack_value_to_zinc_string" => do let (p, ts) ← pPtr ts; let (e, ts) ← pOptText ts; pure (.toZinc p e, ts)
  | "haystack_value_from_zinc_string" => do let (c, ts) ← pCStr ts; let (e, ts) ← pOptVal ts; pure (.fromZinc c e, ts)
  | "haystack_value_to_json_string" => do let (p, ts) ← pPtr ts; let (e, ts) ← pOptText ts; pure (.toJson p e, ts)
  | "haystack_value_from_json_string" => do let (c, ts) ← pCStr ts; let (e, ts) ← pOptVal ts; pure (.fromJson c e, ts)
  | "haystack_filter_parse" => do let (c, ts) ← pCStr ts; let (e, ts) ← pBool ts; pure (.fparse c e, ts)
  | "haystack_filter_match_dict" => do
    let (f, ts) ← pFPtr ts; let (d, ts) ← pPtr ts; let (e, ts) ← pBool ts; pure (.fmatch f d e, ts)
  | "haystack_filter_first_match_in_grid" => do
    let (f, ts) ← pFPtr ts; let (g, ts) ← pPtr ts; let (r, ts) ← pPtr ts; let (e, ts) ← pOptVal ts
    pure (.ffirst f g r e, ts)
  | "haystack_filter_match_all_grid" => do
    let (f, ts) ← pFPtr ts; let (g, ts) ← pPtr ts; let (r, ts) ← pPtr ts; let (e, ts) ← pVal ts
    pure (.fall f g r e, ts)
  | "haystack_filter_destroy" => do let (f, ts) ← pFPtr ts; pure (.fdestroy f, ts)
  | "last_error_message" => pure (.takeErr, ts)
  | "haystack_value_destroy" => do let (p, ts) ← pPtr ts; pure (.destroy p, ts)
  | "haystack_string_destroy" => do let (p, ts) ← pSPtr ts; pure (.sdestroy p, ts)
  | _ => none

partial def pOps (ts : List String) (acc : List COp) : Option (List COp) :=
  match ts with
  | [] => some acc.reverse
  | _ =>
    match pOp ts with
    | some (op, rest) => pOps rest (op :: acc)
    | none => none

def showSentinel : Sentinel → String
  | .none => "v"
  | .null => "~"
  | .false => "b0"
  | .usizeMax => "n18446744073709551615"
  | .u32Max => "n4294967295"
  | .nan => "x7ff8000000000000:" ++ H "NaN".toList
  | .err => "r-1"

def showOk : COk → String
  | .unit => "v"
  | .handle k => s!"h{k}"
  | .filter k => s!"f{k}"
  | .bool b => if b then "b1" else "b0"
  | .usize n => s!"n{n}"
  | .u32 n => s!"n{n}"
  | .f64 x => "x" ++ natHex x.bits 16 ++ ":" ++ H x.txt
  | .result b => if b then "r1" else "r0"
  | .cstr s => "s" ++ H s
  | .noStr => "~"
  | .errMsg => "e"
  | .borrow v => "r1 & " ++ showPlain v

def showRes : CRes → String
  | .ok r => showOk r
  | .fail s => showSentinel s
  | .abort => "ABORT"

/-- the handle a call writes to (shown after the call) -/
def target : COp → Ptr
  | .lpush l _ | .lset l _ _ | .lrem l _ => l
  | .dins d _ _ | .drem d _ => d
  | .dkeys _ r | .grow _ _ r | .dtDate _ _ r _ | .dtTime _ _ r _ | .ffirst _ _ r _ | .fall _ _ r _ => r
  | _ => none

def insertSorted {α} (k : Nat) (x : α) : List (Nat × α) → List (Nat × α)
  | [] => [(k, x)]
  | (k', y) :: t => if k ≤ k' then (k, x) :: (k', y) :: t else (k', y) :: insertSorted k x t

def sortPool {α} (p : List (Nat × α)) : List (Nat × α) :=
  p.foldl (fun acc (k, v) => insertSorted k v acc) []

def runShow (s : CState) : List COp → List String → CState × List String
  | [], acc => (s, acc.reverse)
  | op :: ops, acc =>
    let (s', r) := cstep s op
    let line := showRes r ++
      (match target op with
       | some k => match pget s'.pool k with
         | some v => " => " ++ showPlain v
         | none => ""
       | none => "")
    runShow s' ops (line :: acc)

def histReq (ts : List String) : String :=
  match pOps ts [] with
  | none => "bad-request"
  | some ops =>
    let (s, lines) := runShow CState.init ops []
    let pool := (sortPool s.pool).map fun (k, v) => s!"{k}={showPlain v}"
    let fl := (sortPool s.fpool).map fun (k, _) => s!"{k}"
    " | ".intercalate lines ++ " || " ++ " , ".intercalate pool ++ " || f:" ++ ",".intercalate fl
      ++ " || e" ++ (if s.lastErr.isSome then "1" else "0")

/-- the harness's table of callable functions against the translated inventory -/
def inventoryReq (ts : List String) : String :=
  let inv := Gen.CApi.fns.map (·.name)
  let missing := inv.filter (fun n => !ts.contains n)
  let extra := ts.filter (fun n => !inv.contains n)
  if missing.isEmpty && extra.isEmpty then s!"ok {inv.length}"
  else "missing:" ++ ",".intercalate missing ++ " extra:" ++ ",".intercalate extra

def handle (ts : List String) : String :=
  match ts with
  | "hist" :: rest => histReq rest
  | "inventory" :: rest => inventoryReq rest
  | _ => "bad-request"

end Hs.Drv.C17
