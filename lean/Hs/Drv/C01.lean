import Hs.Model.Vx
namespace Hs.Drv.C01

/-- requests `C01 <cmd> ...` (tokens after the property id) -/
def handle (_ts : List String) : String := "bad-request"

end Hs.Drv.C01
