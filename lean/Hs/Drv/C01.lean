import Hs.Drv.Zinc
namespace Hs.Drv.C01

/-- requests `C01 <cmd> ...`: the shared Zinc requests (`enc`, `dec`, …) -/
def handle (ts : List String) : String := Hs.Drv.Zinc.handle ts

end Hs.Drv.C01
