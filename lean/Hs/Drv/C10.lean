import Hs.Drv.Zinc
namespace Hs.Drv.C10

/-- requests `C10 <cmd> ...`: the shared Zinc requests (`enc`, `dec`, …) -/
def handle (ts : List String) : String := Hs.Drv.Zinc.handle ts

end Hs.Drv.C10
