import Hs.Model.Vx
namespace Hs.Drv.C10

/-- requests `C10 <cmd> ...` (tokens after the property id) -/
def handle (_ts : List String) : String := "bad-request"

end Hs.Drv.C10
