import Hs.Model.Vx
import Hs.Model.Dis
namespace Hs.Drv.C20
open Hs Hs.Vx Hs.Dis

/-- `DV ::= s H(text) | r H(id) H(dis)|- H(to_string) | o H(to_string)` -/
def pDVal : P DVal := fun ts => do
  let (t, ts) ← tok ts
  if t = "s" then do
    let (s, ts) ← pH ts
    pure (.str s, ts)
  else if t = "r" then do
    let (i, ts) ← pH ts
    let (d, ts) ← pHO ts
    let (x, ts) ← pH ts
    pure (.ref i d x, ts)
  else if t = "o" then do
    let (x, ts) ← pH ts
    pure (.other x, ts)
  else none

/-- `REC ::= k (H(key) DV)*k` -/
def pRec : P Rec := fun ts => do
  let (k, ts) ← pNat ts
  pRep (fun ts => do
    let (key, ts) ← pH ts
    let (v, ts) ← pDVal ts
    pure ((key, v), ts)) k ts

/-- `LOC ::= k (H(key) H(text))*k` — the localisation callback as a finite map -/
def pLoc : P (List (List Char × List Char)) := fun ts => do
  let (k, ts) ← pNat ts
  pRep (fun ts => do
    let (key, ts) ← pH ts
    let (v, ts) ← pH ts
    pure ((key, v), ts)) k ts

def locOf (m : List (List Char × List Char)) : Loc := fun k =>
  match m.find? (fun e => e.1 = k) with
  | some e => some e.2
  | none => none

def reply : Res (List Char) → String
  | .ok s => "ok " ++ H s
  | r => r.tag

/-- requests `C20 <cmd> ...` (tokens after the property id):
`dis REC LOC DEF` = `dict_to_dis`, `disd REC` = `HaystackDict::dis`, `mac H(pattern) REC LOC` = `dis_macro` -/
def handle (ts : List String) : String :=
  match ts with
  | "dis" :: ts =>
    match pRec ts with
    | none => "bad-request"
    | some (r, ts) =>
      match pLoc ts with
      | none => "bad-request"
      | some (l, ts) =>
        match pHO ts with
        | none => "bad-request"
        | some (d, _) => reply (dictToDis r (locOf l) d)
  | "disd" :: ts =>
    match pRec ts with
    | none => "bad-request"
    | some (r, _) => reply (Dis.dis r)
  | "mac" :: ts =>
    match pH ts with
    | none => "bad-request"
    | some (p, ts) =>
      match pRec ts with
      | none => "bad-request"
      | some (r, ts) =>
        match pLoc ts with
        | none => "bad-request"
        | some (l, _) => reply (disMacro r (locOf l) p)
  | _ => "bad-request"

end Hs.Drv.C20
