import Hs.Model.Vx
namespace Hs.Drv.C20

/-- requests `C20 <cmd> ...` (tokens after the property id) -/
def handle (_ts : List String) : String := "bad-request"

end Hs.Drv.C20
