import Hs.Model.Vx
import Hs.Model.Units
namespace Hs.Drv.C15
open Hs Hs.Vx Hs.Units Hs.Gen.Units

def bytesOfH (t : String) : Option (List UInt8) := bytesOfHex t

/-- a float literal of the table as `nl H(literal) -` (evaluated by `hsverif canon` with Rust's own `f64`
parser) -/
def litTok (cs : List Char) : String := s!"nl {H cs} -"

def dimsTok : Option (List Int) → String
  | none => "-"
  | some ds => ",".intercalate (ds.map toString)

def showUnit (u : Row) : String :=
  s!"{H (name u)} {H (symbol u)} {u.ids.length} {" ".intercalate (u.ids.map H)} {HO u.quantity} {dimsTok u.dims} S {litTok u.scale} O {litTok u.offset}"

/-- `get H(s)` → the unit `get_unit(s)` returns, or `none` -/
def getReq (ts : List String) : String :=
  match pH ts with
  | none => "bad-request"
  | some (s, _) =>
    match getUnit s with
    | none => "none"
    | some u => "ok " ++ showUnit u

/-- `lex HEX(text)` → how `parse_number` splits the text: `ok nl H(decimal ++ exponent) H(symbol)|-` (the lexeme
is evaluated by `hsverif canon` exactly as `parse_number` does), `err` when the unit text is no id (or the
exponent test fails at end of input) -/
def lexReq (ts : List String) : String :=
  match ts with
  | t :: _ =>
    match bytesOfH t with
    | none => "bad-request"
    | some bs =>
      match lexNumber bs with
      | .ok (l, u) =>
        let us := match u with
          | none => "-"
          | some u => H (symbol u)
        s!"ok nl {hexOfBytes (l.dec ++ l.exp.getD [])} {us}"
      | _ => "err"
  | [] => "bad-request"

/-- `count` → number of unit statics and of `UNITS` entries -/
def countReq : String := s!"ok {units.length} {entries.length}"

/-- requests `C15 <cmd> ...` (tokens after the property id) -/
def handle (ts : List String) : String :=
  match ts with
  | cmd :: rest =>
    if cmd = "get" then getReq rest
    else if cmd = "lex" then lexReq rest
    else if cmd = "count" then countReq
    else "bad-request"
  | [] => "bad-request"

end Hs.Drv.C15
