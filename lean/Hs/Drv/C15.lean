import Hs.Model.Vx
namespace Hs.Drv.C15

/-- requests `C15 <cmd> ...` (tokens after the property id) -/
def handle (_ts : List String) : String := "bad-request"

end Hs.Drv.C15
