import Hs.Model.Vx
namespace Hs.Drv.C19

/-- requests `C19 <cmd> ...` (tokens after the property id) -/
def handle (_ts : List String) : String := "bad-request"

end Hs.Drv.C19
