import Hs.Model.Vx
import Hs.Model.Kinds
namespace Hs.Drv.C19
open Hs Hs.Vx Hs.Kinds Hs.Gen

def str (cs : List Char) : String := String.ofList cs

def bit (b : Bool) : String := if b then "1" else "0"

/-- `name=bit` items sorted by name (the harness sorts its items the same way) -/
def items (l : List (String × String)) : String :=
  let sorted := l.mergeSort fun a b => decide (a.1 ≤ b.1)
  " ".intercalate (sorted.map fun (n, b) => n ++ "=" ++ b)

def HO' (o : Option (List Char)) : String := HO o

/-- `preds V` → every variant test, then the kind of the value: code, variant, name, Display -/
def predsReq (ts : List String) : String :=
  match pVal ts with
  | none => "bad-request"
  | some (v, _) =>
    let ps := ValueShape.preds.map fun p => (str p.1, bit (matchesVariant p.2 v))
    let k := kindOfVal v
    let code := match k.bind kindCode with
      | some n => toString n
      | none => "-"
    s!"ok {items ps} K {code} {HO' k} {HO' (k.bind kindName)} {HO' (k.bind kindDisplay)}"

/-- `conv V` → which `T::try_from(&V)` succeed -/
def convReq (ts : List String) : String :=
  match pVal ts with
  | none => "bad-request"
  | some (v, _) =>
    let cs := Accessors.tryFroms.map fun e => (str e.1, bit ((tryFromOk e.1 v).getD false))
    s!"ok {items cs}"

/-- `get H(key) {dict}` → which typed getters answer for `key` -/
def getReq (ts : List String) : String :=
  match pH ts with
  | none => "bad-request"
  | some (key, ts) =>
    match pTags ts with
    | none => "bad-request"
    | some (d, _) =>
      let gs := Accessors.getters.map fun e => (str e.1, bit ((getterOk e.1 d key).getD false))
      let ks := Accessors.keyedGetters.map fun e => (str e.1, bit ((getterOk e.2.1 d e.2.2).getD false))
      s!"ok {items gs} | {items ks}"

/-- `code N` → `ok H(variant) H(name) H(display)` | `err` -/
def codeReq (ts : List String) : String :=
  match pNat ts with
  | none => "bad-request"
  | some (n, _) =>
    match kindOfCode n with
    | none => "err"
    | some k => s!"ok {H k} {HO' (kindName k)} {HO' (kindDisplay k)}"

/-- `name H(s)` → `ok H(variant) code` | `err` -/
def nameReq (ts : List String) : String :=
  match pH ts with
  | none => "bad-request"
  | some (s, _) =>
    match kindOfName s with
    | none => "err"
    | some k =>
      let code := match kindCode k with
        | some n => toString n
        | none => "-"
      s!"ok {H k} {code}"

/-- `kinds` → the declared kinds with their codes, sorted by variant name -/
def kindsReq : String :=
  "ok " ++ items (Kinds.kinds.map fun (k, n) => (str k, toString n))

def rowsOf : Vals → Option (List Tags)
  | .nil => some []
  | .cons (.dict d) rest => (rowsOf rest).map (d :: ·)
  | .cons _ _ => none

/-- `grid -|{meta} [ k {row}…` → `ok <VX of the grid>` -/
def gridReq (ts : List String) : String :=
  match pOptTags ts with
  | none => "bad-request"
  | some (md, ts) =>
    match pVal ts with
    | some (.list xs, _) =>
      match rowsOf xs with
      | none => "bad-request"
      | some rows =>
        match md with
        | .none => "ok " ++ showVal (makeFromDicts rows)
        | .some m => "ok " ++ showVal (makeFromDictsWithMeta rows m)
    | _ => "bad-request"

/-- requests `C19 <cmd> ...` (tokens after the property id) -/
def handle (ts : List String) : String :=
  match ts with
  | cmd :: rest =>
    if cmd = "preds" then predsReq rest
    else if cmd = "conv" then convReq rest
    else if cmd = "get" then getReq rest
    else if cmd = "code" then codeReq rest
    else if cmd = "name" then nameReq rest
    else if cmd = "kinds" then kindsReq
    else if cmd = "grid" then gridReq rest
    else "bad-request"
  | [] => "bad-request"

end Hs.Drv.C19
