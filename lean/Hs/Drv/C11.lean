import Hs.Drv.Zinc
namespace Hs.Drv.C11

/-- requests `C11 <cmd> ...`: the shared Zinc requests (`enc`, `dec`, …) -/
def handle (ts : List String) : String := Hs.Drv.Zinc.handle ts

end Hs.Drv.C11
