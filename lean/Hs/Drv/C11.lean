import Hs.Model.Vx
namespace Hs.Drv.C11

/-- requests `C11 <cmd> ...` (tokens after the property id) -/
def handle (_ts : List String) : String := "bad-request"

end Hs.Drv.C11
