import Hs.Model.Vx
namespace Hs.Drv.C05

/-- requests `C05 <cmd> ...` (tokens after the property id) -/
def handle (_ts : List String) : String := "bad-request"

end Hs.Drv.C05
