import Hs.Drv.Json
import Hs.Spec.HaysonRead
namespace Hs.Drv.C05
open Hs Hs.Vx

mutual
/-- `-0.0` and `0.0` are the same real: the conformance comparison does not distinguish them -/
partial def normZero : Val → Val
  | .num n => if n.v.bits = 2 ^ 63 then .num { n with v := { bits := 0, txt := ['0'] } } else .num n
  | .coord a b =>
    .coord (if a.bits = 2 ^ 63 then { bits := 0, txt := ['0'] } else a) (if b.bits = 2 ^ 63 then { bits := 0, txt := ['0'] } else b)
  | .list xs => .list (Vals.ofList (xs.toList.map normZero))
  | .dict d => .dict (normTags d)
  | .grid md cols rows ver =>
    .grid (match md with | .some t => .some (normTags t) | .none => .none)
      (Cols.ofList (cols.toList.map fun (n, m) => (n, match m with | .some t => OTags.some (normTags t) | .none => OTags.none)))
      (Rows.ofList (rows.toList.map normTags)) ver
  | v => v
partial def normTags (t : Tags) : Tags := Tags.ofList (t.toList.map fun (k, v) => (k, normZero v))
end

/-- `read J` → the reference reader's value (`ok V` | `err`); other requests: `jenc`, `jdec` -/
def handle (ts : List String) : String :=
  match ts with
  | cmd :: rest =>
    if cmd = "read" then
      match Hs.Drv.Json.pJ rest with
      | some (j, _) => match Hs.Spec.Hayson.readDoc j with
        | some v => "ok " ++ showVal (normZero v)
        | none => "err"
      | none => "bad-request"
    else Hs.Drv.Json.handle ts
  | [] => "bad-request"

end Hs.Drv.C05
