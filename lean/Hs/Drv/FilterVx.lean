/-
  Driver glue shared by C08 and C09: the exchange syntax of filter trees and the `print` / `parse`
  requests.  Not part of any theorem.

    F    ::= or k (and k TERM*k)*k
    TERM ::= par F | has P | miss P | isa H | weq P H(id) H(dis)|- | rel H H|- (- | r H(id) H(dis)|-)
           | cmp OP P V
    P    ::= k H*k            OP ::= eq | ne | lt | le | gt | ge            V = VX value
-/
import Hs.Model.Vx
import Hs.Model.FilterText
namespace Hs.Drv.FilterVx
open Hs Hs.Vx Hs.FText

def opS : CmpOp → String
  | .eq => "eq" | .ne => "ne" | .lt => "lt" | .le => "le" | .gt => "gt" | .ge => "ge"

def wPath (p : Path) : List String := toString p.length :: p.map H

mutual
partial def wTerm : Term → List String
  | .parens o => "par" :: wOrs o
  | .has p => "has" :: wPath p
  | .missing p => "miss" :: wPath p
  | .isA s => ["isa", H s]
  | .weq p r => "weq" :: wPath p ++ [H r.id, HO r.dis]
  | .rel r t ref => ["rel", H r, HO t] ++ (match ref with
      | some rv => ["r", H rv.id, HO rv.dis]
      | none => ["-"])
  | .cmp p op v => ["cmp", opS op] ++ wPath p ++ wVal v
partial def wAnds (a : Ands) : List String :=
  ["and", toString a.length] ++ a.toList.flatMap wTerm
partial def wOrs (o : Ors) : List String :=
  ["or", toString o.length] ++ o.toList.flatMap wAnds
end

def pPath : P Path := fun ts => do
  let (k, ts) ← pNat ts
  pRep pH k ts

def pOp : P CmpOp := fun ts => do
  let (t, ts) ← tok ts
  match t with
  | "eq" => pure (.eq, ts) | "ne" => pure (.ne, ts) | "lt" => pure (.lt, ts)
  | "le" => pure (.le, ts) | "gt" => pure (.gt, ts) | "ge" => pure (.ge, ts)
  | _ => none

mutual
partial def pTerm : P Term := fun ts => do
  let (t, ts) ← tok ts
  match t with
  | "par" => do
    let (o, ts) ← pOrs ts
    pure (.parens o, ts)
  | "has" => do
    let (p, ts) ← pPath ts
    pure (.has p, ts)
  | "miss" => do
    let (p, ts) ← pPath ts
    pure (.missing p, ts)
  | "isa" => do
    let (s, ts) ← pH ts
    pure (.isA s, ts)
  | "weq" => do
    let (p, ts) ← pPath ts
    let (i, ts) ← pH ts
    let (d, ts) ← pHO ts
    pure (.weq p { id := i, dis := d }, ts)
  | "rel" => do
    let (r, ts) ← pH ts
    let (t, ts) ← pHO ts
    let (m, ts) ← tok ts
    if m = "-" then pure (.rel r t none, ts)
    else if m = "r" then do
      let (i, ts) ← pH ts
      let (d, ts) ← pHO ts
      pure (.rel r t (some { id := i, dis := d }), ts)
    else none
  | "cmp" => do
    let (op, ts) ← pOp ts
    let (p, ts) ← pPath ts
    let (v, ts) ← pVal ts
    pure (.cmp p op v, ts)
  | _ => none
partial def pAnds : P Ands := fun ts => do
  let (t, ts) ← tok ts
  if t ≠ "and" then none else
  let (k, ts) ← pNat ts
  let (xs, ts) ← pRep pTerm k ts
  pure (Ands.ofList xs, ts)
partial def pOrs : P Ors := fun ts => do
  let (t, ts) ← tok ts
  if t ≠ "or" then none else
  let (k, ts) ← pNat ts
  let (xs, ts) ← pRep pAnds k ts
  pure (Ors.ofList xs, ts)
end

def resTag {α} (r : Res α) (f : α → String) : String :=
  match r with
  | .ok a => "ok " ++ f a
  | .err => "err"
  | .panic => "panic"
  | .diverge => "diverge"
  | .depth => "depth"

/-- `print F` → `ok H(text)`;  `parse H(text)` → `ok F` | `err` | `panic` | `diverge` | `depth` -/
def handle (ts : List String) : Option String :=
  match ts with
  | cmd :: rest =>
    if cmd = "print" then
      match pOrs rest with
      | some (f, _) => some ("ok " ++ hexOfBytes (printFilter f))
      | none => some "bad-request"
    else if cmd = "parse" then
      match rest with
      | [h] => match bytesOfHex h with
        | some bs => some (resTag (filterOfBytes bs) (fun o => join (wOrs o)))
        | none => some "bad-request"
      | _ => some "bad-request"
    else none
  | [] => none

end Hs.Drv.FilterVx
