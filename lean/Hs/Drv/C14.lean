import Hs.Model.Vx
namespace Hs.Drv.C14

/-- requests `C14 <cmd> ...` (tokens after the property id) -/
def handle (_ts : List String) : String := "bad-request"

end Hs.Drv.C14
