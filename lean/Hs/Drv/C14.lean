import Hs.Model.Vx
import Hs.Model.NsCache
import Hs.Drv.C13
/-
  Driver glue for C14.  Requests (tokens after `C14`), `G` as in C13:
    run <caches 0|1> G <nshards> <nthreads> {<nq> {query}*}* <nsched> {tid}*
        query = `sup k` | `asup k` | `inh k` | `fits a b` | `refl <rec>` | `rfits <rec> base`
              | `assoc p a` | `impl k` | `froot <0..3> k` | `rel <nrecs> {recx}* <rel> <term|-> <target|-> <recx>`
                (recx = `<key|-> <id|-> <ntags> {<tag> <ref|->}*`; these four read the full defs: use `runx`)
    runx ... / tracex ...  as `run` / `trace`, the graph given as `GX` (C13 part 2)
        The model starts from cold caches, runs the given schedule, then lets the unfinished threads run
        round-robin; reply `ok <answers of thread 0>;<thread 1>;..` and, when <caches> = 1, ` # <sup cache> # <inh cache>`
        (answers of one thread joined by `/`: `n:<names>` | `b:0|1` | `!<outcome>`; a cache as `key=names` joined by `+`).
    trace G <nshards> <nthreads> {<nq> {query}*}* <n> {tid}*
        every schedule entry lets that thread run until it has passed its next hook point (`<cache>.miss`,
        `<cache>.absent`, `<cache>.inserted`) or is done; reply `ok <tid>:<event>[:<hexkey>],.. | <answers> # <sup> # <inh>`
    inv G <nsup> {key <n> names..}* <ninh> {key <n> names..}*
        the snapshot of the REAL caches: reply `ok <nsup> <ninh>` when every entry is the value of the cache-free
        function for its key (as a set), else `bad <sup|inh> <hexkey>`.
-/
namespace Hs.Drv.C14
open Hs Hs.Vx Hs.Ns Hs.NsCache Hs.Drv.C13

def pQuery : P Query := fun ts => do
  let (cmd, ts) ← tok ts
  if cmd = "sup" then
    let (k, ts) ← pH ts
    pure (.sup k, ts)
  else if cmd = "asup" then
    let (k, ts) ← pH ts
    pure (.allSup k, ts)
  else if cmd = "inh" then
    let (k, ts) ← pH ts
    pure (.inh k, ts)
  else if cmd = "fits" then
    let (a, ts) ← pH ts
    let (b, ts) ← pH ts
    pure (.fits a b, ts)
  else if cmd = "refl" then
    let (r, ts) ← pRec ts
    pure (.reflect r, ts)
  else if cmd = "rfits" then
    let (r, ts) ← pRec ts
    let (b, ts) ← pH ts
    pure (.reflFits r b, ts)
  else if cmd = "assoc" then
    let (p, ts) ← pH ts
    let (a, ts) ← pH ts
    pure (.assoc p a, ts)
  else if cmd = "impl" then
    let (k, ts) ← pH ts
    pure (.impl k, ts)
  else if cmd = "froot" then
    let (w, ts) ← pNat ts
    let (k, ts) ← pH ts
    pure (.fitsRoot w k, ts)
  else if cmd = "rel" then
    let (n, ts) ← pNat ts
    let (recs, ts) ← pRep pRecX n ts
    let (r, ts) ← pH ts
    let (term, ts) ← pHO ts
    let (target, ts) ← pHO ts
    let (subj, ts) ← pRecX ts
    pure (.rel recs r term target subj, ts)
  else none

def pQueries : P (List Query) := fun ts => do
  let (k, ts) ← pNat ts
  pRep pQuery k ts

def pThreads : P (List (List Query)) := fun ts => do
  let (k, ts) ← pNat ts
  pRep pQueries k ts

def pSched : P (List Nat) := fun ts => do
  let (k, ts) ← pNat ts
  pRep pNat k ts

def showAns : Ans → String
  | .names (.ok l) => "n:" ++ showNames l
  | .names r => "!" ++ r.tag
  | .bool (.ok b) => if b then "b:1" else "b:0"
  | .bool r => "!" ++ r.tag
  | .pair (.ok (b, m)) => "n:" ++ showNames (b ++ m)
  | .pair r => "!" ++ r.tag

def allFinished (s : State) : Bool := s.thr.all fun th => th.prog.isRet

/-- after the schedule: round-robin over the enabled threads -/
def finish (cfg : Cfg) : Nat → State → State
  | 0, s => s
  | fuel + 1, s =>
    if allFinished s then s
    else finish cfg fuel ((List.range s.thr.length).foldl (fun s t => step cfg s t) s)

def dedupKeys : List (Name × V) → List (Name × V) → List (Name × V)
  | [], acc => acc
  | (k, v) :: m, acc => if acc.any (fun kv => kv.1 = k) then dedupKeys m acc else dedupKeys m (acc ++ [(k, v)])

def showCache (m : List (Name × V)) : String :=
  let entries := (dedupKeys m []).mergeSort (fun a b => nameLe a.1 b.1)
  "+".intercalate (entries.map fun kv => H kv.1 ++ "=" ++ showNames kv.2)

def threadAnswers (th : Thread) : String :=
  match th.prog with
  | .ret as => "/".intercalate (as.map showAns)
  | _ => "!unfinished"

def shardOf (n : Nat) (k : Name) : Nat := (k.foldl (fun a c => a * 31 + c.toNat) 7) % (n + 1)

def runReq (ts : List String) : String :=
  match pNat ts with
  | none => "bad-request"
  | some (withCaches, ts) =>
  match pRows ts with
  | none => "bad-request"
  | some (rows, ts) =>
  match pNat ts with
  | none => "bad-request"
  | some (nshards, ts) =>
  match pThreads ts with
  | none => "bad-request"
  | some (qss, ts) =>
  match pSched ts with
  | none => "bad-request"
  | some (sched, _) =>
    let ns := make rows
    let cfg : Cfg := { ns := ns, fuel := fuelFor ns.defs, shard := shardOf nshards }
    let s := run cfg (init cfg cold qss) sched
    let s := finish cfg 100000000 s
    let ans := ";".intercalate (s.thr.map threadAnswers)
    if withCaches = 1 then "ok " ++ ans ++ " # " ++ showCache s.c.sup ++ " # " ++ showCache s.c.inh
    else "ok " ++ ans

def runxReq (ts : List String) : String :=
  match pNat ts with
  | none => "bad-request"
  | some (withCaches, ts) =>
  match pRowsX ts with
  | none => "bad-request"
  | some (rows, ts) =>
  match pNat ts with
  | none => "bad-request"
  | some (nshards, ts) =>
  match pThreads ts with
  | none => "bad-request"
  | some (qss, ts) =>
  match pSched ts with
  | none => "bad-request"
  | some (sched, _) =>
    let x := NsA.makeX rows
    let cfg : Cfg := { ns := x.ns, fuel := fuelFor x.ns.defs, shard := shardOf nshards, xd := x.xd }
    let s := run cfg (init cfg cold qss) sched
    let s := finish cfg 100000000 s
    let ans := ";".intercalate (s.thr.map threadAnswers)
    if withCaches = 1 then "ok " ++ ans ++ " # " ++ showCache s.c.sup ++ " # " ++ showCache s.c.inh
    else "ok " ++ ans

def cacheName : CacheId → String
  | .sup => "sup"
  | .inh => "inh"

/-- let thread `t` run until it has passed its next hook point (`get` that misses, `contains_key` that says
absent, `insert`) or has finished; returns the event -/
def toBoundary (cfg : Cfg) (t : Nat) : Nat → State → State × String
  | 0, s => (s, s!"{t}:fuel")
  | fuel + 1, s =>
    match s.thr[t]? with
    | none => (s, s!"{t}:nothread")
    | some th =>
      match th.prog with
      | .ret _ => (s, s!"{t}:done")
      | .get c k _ =>
        let miss := (look c k s.c).isNone
        let s' := step cfg s t
        if miss then (s', s!"{t}:{cacheName c}.miss:{H k}") else toBoundary cfg t fuel s'
      | .has c k _ =>
        let absent := (look c k s.c).isNone
        let s' := step cfg s t
        if absent then (s', s!"{t}:{cacheName c}.absent:{H k}") else toBoundary cfg t fuel s'
      | .ins c k _ _ =>
        if blocked cfg s t then (s, s!"{t}:blocked")
        else (step cfg s t, s!"{t}:{cacheName c}.inserted:{H k}")
      | .drop _ => toBoundary cfg t fuel (step cfg s t)

def traceReq (ts : List String) : String :=
  match pRows ts with
  | none => "bad-request"
  | some (rows, ts) =>
  match pNat ts with
  | none => "bad-request"
  | some (nshards, ts) =>
  match pThreads ts with
  | none => "bad-request"
  | some (qss, ts) =>
  match pSched ts with
  | none => "bad-request"
  | some (sched, _) =>
    let ns := make rows
    let cfg : Cfg := { ns := ns, fuel := fuelFor ns.defs, shard := shardOf nshards }
    let (s, evs) := sched.foldl (fun (acc : State × List String) t =>
      let (s', e) := toBoundary cfg t 100000000 acc.1
      (s', acc.2 ++ [e])) (init cfg cold qss, [])
    "ok " ++ ",".intercalate evs ++ " | " ++ ";".intercalate (s.thr.map threadAnswers)
      ++ " # " ++ showCache s.c.sup ++ " # " ++ showCache s.c.inh

def tracexReq (ts : List String) : String :=
  match pRowsX ts with
  | none => "bad-request"
  | some (rows, ts) =>
  match pNat ts with
  | none => "bad-request"
  | some (nshards, ts) =>
  match pThreads ts with
  | none => "bad-request"
  | some (qss, ts) =>
  match pSched ts with
  | none => "bad-request"
  | some (sched, _) =>
    let x := NsA.makeX rows
    let cfg : Cfg := { ns := x.ns, fuel := fuelFor x.ns.defs, shard := shardOf nshards, xd := x.xd }
    let (s, evs) := sched.foldl (fun (acc : State × List String) t =>
      let (s', e) := toBoundary cfg t 100000000 acc.1
      (s', acc.2 ++ [e])) (init cfg cold qss, [])
    "ok " ++ ",".intercalate evs ++ " | " ++ ";".intercalate (s.thr.map threadAnswers)
      ++ " # " ++ showCache s.c.sup ++ " # " ++ showCache s.c.inh

def pEntry : P (Name × V) := fun ts => do
  let (k, ts) ← pH ts
  let (v, ts) ← pNames ts
  pure ((k, v), ts)

def pEntries : P (List (Name × V)) := fun ts => do
  let (k, ts) ← pNat ts
  pRep pEntry k ts

def sameSet (a b : List Name) : Bool := a.mergeSort nameLe = b.mergeSort nameLe

def invReq (ts : List String) : String :=
  match pRows ts with
  | none => "bad-request"
  | some (rows, ts) =>
  match pEntries ts with
  | none => "bad-request"
  | some (sup, ts) =>
  match pEntries ts with
  | none => "bad-request"
  | some (inh, _) =>
    let ns := make rows
    let fuel := fuelFor ns.defs
    match sup.find? (fun kv => !sameSet kv.2 (supertypesOf ns.defs kv.1)) with
    | some kv => "bad sup " ++ H kv.1
    | none =>
      match inh.find? (fun kv => match inheritance fuel ns kv.1 with
          | .ok v => !sameSet kv.2 v
          | _ => true) with
      | some kv => "bad inh " ++ H kv.1
      | none => s!"ok {sup.length} {inh.length}"

/-- requests `C14 <cmd> ...` (tokens after the property id) -/
def handle (ts : List String) : String :=
  match ts with
  | cmd :: rest =>
    if cmd = "run" then runReq rest
    else if cmd = "runx" then runxReq rest
    else if cmd = "inv" then invReq rest
    else if cmd = "trace" then traceReq rest
    else if cmd = "tracex" then tracexReq rest
    else "bad-request"
  | [] => "bad-request"

end Hs.Drv.C14
