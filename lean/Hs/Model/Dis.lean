/-
  Hs.Model.Dis — display names (C20): `dict_to_dis` / `HaystackDict::dis` (src/haystack/val/dict.rs)
  and `dis_macro` / `DisReplacer` (src/haystack/val/dis_macro.rs).

  The precedence chain, the shape of each of its blocks, the character classes and the quantifiers
  of the macro regex come from `Hs.Gen.Dis` (translated from the current sources on every run).
  The `regex` crate is external: its leftmost-first alternation and greedy repetition are modelled
  by the hand matcher below (`alt1`/`alt2`/`alt3`, `matchAt`, `lex`) and tied to the real crate by
  the correspondence check.  Greedy matching without backtracking is exact for this regex because
  alternative 1 ends with its class, and the closers `}` / `>` are outside the classes before them
  (asserted by the translator; `>` is excluded by construction).

  A tag value enters the model as what the code can see of it: a Str, a Ref (id, dis) or any other
  kind; the text `Value::to_string()` prints for a non-Str value is supplied by the harness (the
  Zinc writer is not part of this property).
  Core-only imports: linked into `hsdriver`.
-/
import Hs.Model.Val
import Hs.Gen.Dis
namespace Hs.Dis
open Hs

/-- a tag value as seen by the display code -/
inductive DVal where
  | str (s : List Char)
  | ref (id : List Char) (dis : Option (List Char)) (txt : List Char)
  | other (txt : List Char)
deriving Repr, DecidableEq, Inhabited

/-- `decode_str_from_value`: a Str gives its string, anything else `to_string()` -/
def DVal.text : DVal → List Char
  | .str s => s
  | .ref _ _ txt => txt
  | .other txt => txt

/-- the text `DisReplacer` substitutes for a tag (and the `id` block of `dict_to_dis`):
Ref -> `dis` or else the id, Str -> the string, anything else `to_string()` -/
def DVal.macroText : DVal → List Char
  | .str s => s
  | .ref id dis _ => dis.getD id
  | .other txt => txt

/-- a record: `BTreeMap<String, Value>` as an association list (keys distinct) -/
abbrev Rec := List (List Char × DVal)

def Rec.get : Rec → List Char → Option DVal
  | [], _ => none
  | (k, v) :: t, key => if k = key then some v else Rec.get t key

/-- the localisation callback -/
abbrev Loc := List Char → Option (List Char)

/-! ### the macro regex -/

def inRanges (rs : List (Nat × Nat)) (c : Char) : Bool :=
  rs.any fun r => r.1 ≤ c.toNat && c.toNat ≤ r.2

def isHead1 (c : Char) : Bool := inRanges Gen.Dis.head1 c
def isTail1 (c : Char) : Bool := inRanges Gen.Dis.tail1 c
def isHead2 (c : Char) : Bool := inRanges Gen.Dis.head2 c
def isTail2 (c : Char) : Bool := inRanges Gen.Dis.tail2 c
def keyStop : Char := Char.ofNat Gen.Dis.keyStop
def isKeyChar (c : Char) : Bool := c != keyStop

/-- what one match of the regex is: `$tag` (group 2), `${tag}` (group 4), `$<key>` (group 6) -/
inductive Tok where
  | tag (name : List Char)
  | brace (name : List Char)
  | key (k : List Char)
deriving Repr, DecidableEq, Inhabited

/-- the matched text (group 0) -/
def Tok.text : Tok → List Char
  | .tag n => '$' :: n
  | .brace n => '$' :: '{' :: (n ++ ['}'])
  | .key k => '$' :: '<' :: (k ++ [keyStop])

/-- alternative 1 after the `$`: HEAD, then the longest TAIL run, at least `tailMin1` long -/
def alt1 (rest : List Char) : Option (Tok × List Char) :=
  match rest with
  | [] => none
  | c :: cs =>
    if isHead1 c then
      if Gen.Dis.tailMin1 ≤ (cs.takeWhile isTail1).length then
        some (.tag (c :: cs.takeWhile isTail1), cs.dropWhile isTail1)
      else none
    else none

/-- alternative 2 after the `$`: `{`, HEAD, the longest TAIL run (≥ `tailMin2`), `}` -/
def alt2 (rest : List Char) : Option (Tok × List Char) :=
  match rest with
  | [] => none
  | b :: r1 =>
    if b = '{' then
      match r1 with
      | [] => none
      | c :: cs =>
        if isHead2 c then
          if Gen.Dis.tailMin2 ≤ (cs.takeWhile isTail2).length then
            match cs.dropWhile isTail2 with
            | [] => none
            | e :: after => if e = '}' then some (.brace (c :: cs.takeWhile isTail2), after) else none
          else none
        else none
    else none

/-- alternative 3 after the `$`: `<`, the longest run of characters other than the closer
(≥ `keyMin`), the closer -/
def alt3 (rest : List Char) : Option (Tok × List Char) :=
  match rest with
  | [] => none
  | b :: cs =>
    if b = '<' then
      if Gen.Dis.keyMin ≤ (cs.takeWhile isKeyChar).length then
        match cs.dropWhile isKeyChar with
        | [] => none
        | _ :: after => some (.key (cs.takeWhile isKeyChar), after)
      else none
    else none

/-- leftmost-first alternation at a `$` (argument: the text after the `$`) -/
def matchAt (rest : List Char) : Option (Tok × List Char) :=
  match alt1 rest with
  | some m => some m
  | none =>
    match alt2 rest with
    | some m => some m
    | none => alt3 rest

/-- a piece of the pattern: one character outside every match, or one match -/
inductive Seg where
  | lit (c : Char)
  | mac (t : Tok)
deriving Repr, DecidableEq, Inhabited

def Seg.src : Seg → List Char
  | .lit c => [c]
  | .mac t => t.text

/-- `Regex::replace_all`'s scan: at each position the leftmost match; after a match the scan
continues behind it; a character at which nothing matches is copied.  One unit of fuel per step. -/
def pushSeg (s : Seg) : Res (List Seg) → Res (List Seg)
  | .ok segs => .ok (s :: segs)
  | r => r

def lex : Nat → List Char → Res (List Seg)
  | 0, _ => .diverge
  | _ + 1, [] => .ok []
  | fuel + 1, c :: cs =>
    if c = '$' then
      match matchAt cs with
      | some (t, after) => pushSeg (.mac t) (lex fuel after)
      | none => pushSeg (.lit c) (lex fuel cs)
    else pushSeg (.lit c) (lex fuel cs)

/-- `DisReplacer::replace_append` -/
def replace (r : Rec) (loc : Loc) : Tok → List Char
  | .tag n =>
    match r.get n with
    | some v => v.macroText
    | none => (Tok.tag n).text
  | .brace n =>
    match r.get n with
    | some v => v.macroText
    | none => (Tok.brace n).text
  | .key k =>
    match loc k with
    | some t => t
    | none => (Tok.key k).text

def Seg.out (r : Rec) (loc : Loc) : Seg → List Char
  | .lit c => [c]
  | .mac t => replace r loc t

def render (r : Rec) (loc : Loc) : List Seg → List Char
  | [] => []
  | s :: ss => s.out r loc ++ render r loc ss

def fuelFor (s : List Char) : Nat := s.length + 1

/-- `dis_macro(pattern, |n| rec.get(n), loc)` -/
def disMacro (r : Rec) (loc : Loc) (s : List Char) : Res (List Char) :=
  match lex (fuelFor s) s with
  | .ok segs => .ok (render r loc segs)
  | .err => .err
  | .panic => .panic
  | .diverge => .diverge
  | .depth => .depth

/-! ### `dict_to_dis` -/

/-- the first tag of the chain that the record has -/
def firstPresent (r : Rec) : List (String × Nat) → Option (String × Nat × DVal)
  | [] => none
  | (t, shape) :: rest =>
    match r.get t.toList with
    | some v => some (t, shape, v)
    | none => firstPresent r rest

/-- the body of one `if let Some(val) = dict.get("…")` block, by its translated shape -/
def blockText (r : Rec) (loc : Loc) (shape : Nat) (v : DVal) : Res (List Char) :=
  if shape = 1 then
    match v with
    | .str s => disMacro r loc s
    | _ => .ok v.text
  else if shape = 2 then
    match v with
    | .str s =>
      match loc s with
      | some t => .ok t
      | none => .ok v.text
    | _ => .ok v.text
  else if shape = 3 then
    match v with
    | .ref id dis _ => .ok (dis.getD id)
    | _ => .ok v.text
  else .ok v.text

/-- `dict_to_dis(dict, get_localized, def)` over a chain -/
def dictToDisWith (chain : List (String × Nat)) (r : Rec) (loc : Loc) (dflt : Option (List Char)) :
    Res (List Char) :=
  match firstPresent r chain with
  | some (_, shape, v) => blockText r loc shape v
  | none => .ok (dflt.getD [])

def dictToDis (r : Rec) (loc : Loc) (dflt : Option (List Char)) : Res (List Char) :=
  dictToDisWith Gen.Dis.chain r loc dflt

/-- `HaystackDict::dis` -/
def dis (r : Rec) : Res (List Char) := dictToDis r (fun _ => none) none

end Hs.Dis
