/-
  Hs.Model.CApi — the C API (src/c_api/*.rs) as a state machine over a pool of value handles.

  `CState` = live `Box<Value>` handles (id ↦ value), live `Box<Filter>` handles, the allocation
  counters and the thread-local `LAST_ERROR` slot.  `cstep : CState → COp → CState × CRes` mirrors
  every `extern "C"` function: null checks, kind checks, bound checks in the order of the Rust code,
  `new_error(..)` + sentinel on every failing path.

  Not modelled here but supplied by the caller as the `ext` argument of an op (the harness computes
  it with the Rust API on the same values, i.e. those entry points are compared directly with the
  Rust API): unit lookup (`get_unit`), chrono / chrono-tz arithmetic behind the DateTime functions,
  the Zinc and JSON codecs, filter parsing and evaluation.

  Core-only imports (linked into `hsdriver`).
-/
import Hs.Model.Val
namespace Hs.CApi
open Hs

/-! ### arguments, results -/

/-- a `*const c_char` argument -/
inductive CStr where
  | null
  | bad                    -- bytes that are not UTF-8 (`CStr::to_str` fails)
  | ok (s : List Char)     -- text (a C string: no NUL inside)
deriving Repr, DecidableEq, Inhabited

def CStr.isNull : CStr → Bool
  | .null => true
  | _ => false

/-- a `*const Value` / `*mut Value` / `*const Filter` argument: `none` = null, `some k` = handle id `k` -/
abbrev Ptr := Option Nat

/-- the failure sentinel of a function (`none`: the function returns nothing / cannot fail through its result) -/
inductive Sentinel where
  | none | null | false | usizeMax | u32Max | nan | err
deriving Repr, DecidableEq, Inhabited

/-- classes of recorded errors (messages are never compared) -/
inductive CErr where
  | nullArg | badRef | wrongKind | bounds | badText | badUnit | badArgs | nulInText | noRows | noResult | ext
deriving Repr, DecidableEq, Inhabited

/-- what a successful call returns -/
inductive COk where
  | unit
  | handle (k : Nat)        -- a new `Box<Value>`
  | filter (k : Nat)        -- a new `Box<Filter>`
  | bool (b : Bool)
  | usize (n : Nat)
  | u32 (n : Nat)
  | f64 (x : Flt)
  | result (r : Bool)       -- `ResultType::TRUE` / `ResultType::FALSE`
  | cstr (s : List Char)    -- an owned C string
  | noStr                   -- null that is not an error (no unit, no display name, no pending error)
  | errMsg                  -- an owned C string holding the error message
  | borrow (v : Val)        -- `ResultType::TRUE` and `*result` points to an entry with this value

inductive CRes where
  | ok (r : COk)
  | fail (s : Sentinel)     -- failing path: `new_error(..)` and the sentinel
  | abort                   -- a panic would cross `extern "C"`

/-- why `cexec` stopped -/
inductive Stop where
  | err (e : CErr) (s : Sentinel)
  | abort

/-! ### kinds and getters (generic interpretation) -/

inductive Kind where
  | null | marker | na | remove | bool | number | coord | str | ref | uri | symbol | xstr
  | time | date | datetime | list | dict | grid
deriving Repr, DecidableEq, Inhabited

def Kind.all : List Kind :=
  [.null, .marker, .na, .remove, .bool, .number, .coord, .str, .ref, .uri, .symbol, .xstr,
   .time, .date, .datetime, .list, .dict, .grid]

/-- `Value::is_<kind>` -/
def Kind.test : Kind → Val → Bool
  | .null, .null => true
  | .marker, .marker => true
  | .na, .na => true
  | .remove, .remove => true
  | .bool, .bool _ => true
  | .number, .num _ => true
  | .coord, .coord _ _ => true
  | .str, .str _ => true
  | .ref, .ref _ _ => true
  | .uri, .uri _ => true
  | .symbol, .sym _ => true
  | .xstr, .xstr _ _ => true
  | .time, .time _ => true
  | .date, .date _ => true
  | .datetime, .dateTime _ => true
  | .list, .list _ => true
  | .dict, .dict _ => true
  | .grid, .grid _ _ _ _ => true
  | _, _ => false

inductive Getter where
  | numberValue | numberHasUnit | numberUnit
  | strLen | strValue
  | refValueLen | refValue | refDis
  | symbolValueLen | symbolValue
  | uriValueLen | uriValue
  | xstrType | xstrValue
  | coordLat | coordLong
  | dateYear | dateMonth | dateDay
  | timeHour | timeMinutes | timeSeconds | timeMillis
  | datetimeTimezone
  | listLen | dictLen | gridLen
deriving Repr, DecidableEq, Inhabited

def Getter.all : List Getter :=
  [.numberValue, .numberHasUnit, .numberUnit, .strLen, .strValue, .refValueLen, .refValue, .refDis,
   .symbolValueLen, .symbolValue, .uriValueLen, .uriValue, .xstrType, .xstrValue, .coordLat, .coordLong,
   .dateYear, .dateMonth, .dateDay, .timeHour, .timeMinutes, .timeSeconds, .timeMillis,
   .datetimeTimezone, .listLen, .dictLen, .gridLen]

/-- what a getter reads from a value of the right kind -/
inductive GVal where
  | f64 (x : Flt)
  | usize (n : Nat)
  | u32 (n : Nat)
  | result (b : Bool)
  | text (s : Option (List Char))     -- `None`: null without error

/-- UTF-8 length of a Rust `String` -/
def utf8Len (cs : List Char) : Nat := (cs.map Char.utf8Size).sum

/-- the field a getter returns; `none` = the value is of another kind -/
def Getter.read : Getter → Val → Option GVal
  | .numberValue, .num n => some (.f64 n.v)
  | .numberHasUnit, .num n => some (.result n.unit.isSome)
  | .numberUnit, .num n => some (.text n.unit)
  | .strLen, .str s => some (.usize (utf8Len s))
  | .strValue, .str s => some (.text (some s))
  | .refValueLen, .ref id _ => some (.usize (utf8Len id))
  | .refValue, .ref id _ => some (.text (some id))
  | .refDis, .ref _ dis => some (.text dis)
  | .symbolValueLen, .sym s => some (.usize (utf8Len s))
  | .symbolValue, .sym s => some (.text (some s))
  | .uriValueLen, .uri s => some (.usize (utf8Len s))
  | .uriValue, .uri s => some (.text (some s))
  | .xstrType, .xstr ty _ => some (.text (some ty))
  | .xstrValue, .xstr _ v => some (.text (some v))
  | .coordLat, .coord lat _ => some (.f64 lat)
  | .coordLong, .coord _ lng => some (.f64 lng)
  | .dateYear, .date d => if d.y < 0 then none else some (.u32 d.y.toNat)      -- `u32::try_from(date.year())`
  | .dateMonth, .date d => some (.u32 d.m)
  | .dateDay, .date d => some (.u32 d.d)
  | .timeHour, .time t => some (.u32 t.h)
  | .timeMinutes, .time t => some (.u32 t.mi)
  | .timeSeconds, .time t => some (.u32 t.s)
  | .timeMillis, .time t => some (.u32 (t.ns / 1000000))
  | .datetimeTimezone, .dateTime t => some (.text (some t.zone))
  | .listLen, .list xs => some (.usize xs.length)
  | .dictLen, .dict d => some (.usize d.length)
  | .gridLen, .grid _ _ rows _ => some (.usize rows.length)
  | _, _ => none

def Getter.sentinel : Getter → Sentinel
  | .numberValue | .coordLat | .coordLong => .nan
  | .numberHasUnit => .err
  | .numberUnit | .strValue | .refValue | .refDis | .symbolValue | .uriValue | .xstrType | .xstrValue
  | .datetimeTimezone => .null
  | .strLen | .refValueLen | .symbolValueLen | .uriValueLen | .listLen | .dictLen | .gridLen => .usizeMax
  | .dateYear | .dateMonth | .dateDay | .timeHour | .timeMinutes | .timeSeconds | .timeMillis => .u32Max

/-- `CString::new(bytes)` fails on an interior NUL -/
def hasNul (cs : List Char) : Bool := cs.any (fun c => c.toNat == 0)

/-! ### sequences (`Vec<Value>`) -/

def vGet? : Vals → Nat → Option Val
  | .nil, _ => none
  | .cons v _, 0 => some v
  | .cons _ vs, i + 1 => vGet? vs i

def vPush : Vals → Val → Vals
  | .nil, x => .cons x .nil
  | .cons v vs, x => .cons v (vPush vs x)

def vSet : Vals → Nat → Val → Vals
  | .nil, _, _ => .nil
  | .cons _ vs, 0, x => .cons x vs
  | .cons v vs, i + 1, x => .cons v (vSet vs i x)

def vRemoveAt : Vals → Nat → Vals
  | .nil, _ => .nil
  | .cons _ vs, 0 => vs
  | .cons v vs, i + 1 => .cons v (vRemoveAt vs i)

/-! ### maps (`BTreeMap<String, Value>`): entries in strictly ascending key order -/

/-- `String` order = lexicographic order of the code points -/
def ltKey : List Char → List Char → Bool
  | [], [] => false
  | [], _ :: _ => true
  | _ :: _, [] => false
  | a :: as, b :: bs => if a.toNat < b.toNat then true else if b.toNat < a.toNat then false else ltKey as bs

def tInsert : Tags → List Char → Val → Tags
  | .nil, k, v => .cons k v .nil
  | .cons k' v' t, k, v =>
    if k = k' then .cons k v t
    else if ltKey k k' then .cons k v (.cons k' v' t)
    else .cons k' v' (tInsert t k v)

def tRemove : Tags → List Char → Tags
  | .nil, _ => .nil
  | .cons k' v' t, k => if k = k' then t else .cons k' v' (tRemove t k)

/-! ### tables (`Grid`) -/

/-- insert a column name into an ascending duplicate-free list -/
def insertName : List (List Char) → List Char → List (List Char)
  | [], k => [k]
  | k' :: t, k =>
    if k = k' then k' :: t
    else if ltKey k k' then k :: k' :: t
    else k' :: insertName t k

/-- the distinct keys of all rows, ascending (`HashSet` of the names, then `sort_by` name) -/
def unionKeys (rows : List Tags) : List (List Char) :=
  rows.foldl (fun acc r => r.keys.foldl insertName acc) []

def colsOfNames : List (List Char) → Cols
  | [] => .nil
  | n :: ns => .cons n .none (colsOfNames ns)

/-- the `Dict` entries of a list, in order (`filter_map`) -/
def dictsOf : Vals → List Tags
  | .nil => []
  | .cons (.dict d) vs => d :: dictsOf vs
  | .cons _ vs => dictsOf vs

def verText : List Char := "3.0".toList

/-- `Grid::make_from_dicts` -/
def gridFromDicts (rows : List Tags) (md : OTags) : Val :=
  .grid md (colsOfNames (unionKeys rows)) (Rows.ofList rows) verText

/-- `Grid::make_empty` -/
def emptyGrid : Val := .grid .none (.cons "empty".toList .none .nil) .nil verText

def rGet? : Rows → Nat → Option Tags
  | .nil, _ => none
  | .cons r _, 0 => some r
  | .cons _ rs, i + 1 => rGet? rs i

def keysList : Tags → Vals
  | .nil => .nil
  | .cons k _ t => .cons (.str k) (keysList t)

/-! ### calendar checks and chrono's `Debug` texts -/

def pad (w : Nat) (n : Nat) : List Char :=
  let ds := Nat.toDigits 10 n
  List.replicate (w - ds.length) '0' ++ ds

/-- `NaiveTime::from_hms_nano_opt` -/
def timeOk (h m s nano : Nat) : Bool :=
  !(h ≥ 24 || m ≥ 60 || s ≥ 60) && !(nano ≥ 1000000000 && s != 59) && !(nano ≥ 2000000000)

/-- `impl Debug for NaiveTime` -/
def timeTxt (h m s nano : Nat) : List Char :=
  let s' := if nano ≥ 1000000000 then s + 1 else s
  let n := if nano ≥ 1000000000 then nano - 1000000000 else nano
  let base := pad 2 h ++ [':'] ++ pad 2 m ++ [':'] ++ pad 2 s'
  if n = 0 then base
  else if n % 1000000 = 0 then base ++ ['.'] ++ pad 3 (n / 1000000)
  else if n % 1000 = 0 then base ++ ['.'] ++ pad 6 (n / 1000)
  else base ++ ['.'] ++ pad 9 n

def mkTimeVal (h m s nano : Nat) : Val :=
  .time { h := h, mi := m, s := s, ns := nano, txt := timeTxt h m s nano }

def isLeap (y : Int) : Bool := (y % 4 == 0 && y % 100 != 0) || y % 400 == 0

def daysIn (y : Int) (m : Nat) : Nat :=
  if m = 2 then (if isLeap y then 29 else 28)
  else if m = 4 || m = 6 || m = 9 || m = 11 then 30
  else 31

def minYear : Int := -262143
def maxYear : Int := 262142

/-- `NaiveDate::from_ymd_opt` -/
def dateOk (y : Int) (m d : Nat) : Bool :=
  decide (minYear ≤ y) && decide (y ≤ maxYear) && decide (1 ≤ m) && decide (m ≤ 12) && decide (1 ≤ d)
    && decide (d ≤ daysIn y m)

/-- `impl Debug for NaiveDate` -/
def dateTxt (y : Int) (m d : Nat) : List Char :=
  let yt := if 0 ≤ y && y ≤ 9999 then pad 4 y.toNat
    else if y < 0 then '-' :: pad 4 (-y).toNat
    else '+' :: pad 4 y.toNat
  yt ++ ['-'] ++ pad 2 m ++ ['-'] ++ pad 2 d

def mkDateVal (y : Int) (m d : Nat) : Val :=
  .date { y := y, m := m, d := d, txt := dateTxt y m d }

/-! ### state -/

structure CState where
  pool : List (Nat × Val)            -- live `Box<Value>` handles
  fpool : List (Nat × List Char)     -- live `Box<Filter>` handles (source text)
  next : Nat
  fnext : Nat
  lastErr : Option CErr

def CState.init : CState := { pool := [], fpool := [], next := 0, fnext := 0, lastErr := none }

def pget {α} : List (Nat × α) → Nat → Option α
  | [], _ => none
  | (k, v) :: t, h => if k = h then some v else pget t h

def pset {α} : List (Nat × α) → Nat → α → List (Nat × α)
  | [], _, _ => []
  | (k, v) :: t, h, x => if k = h then (k, x) :: pset t h x else (k, v) :: pset t h x

def perase {α} : List (Nat × α) → Nat → List (Nat × α)
  | [], _ => []
  | (k, v) :: t, h => if k = h then perase t h else (k, v) :: perase t h

/-- the value a pointer refers to (`ptr.as_ref()`); null or not live: `none` -/
def CState.val? (s : CState) (p : Ptr) : Option Val :=
  match p with
  | none => none
  | some k => pget s.pool k

def CState.flt? (s : CState) (p : Ptr) : Option (List Char) :=
  match p with
  | none => none
  | some k => pget s.fpool k

/-- `Box::new(v)` handed to the caller -/
def CState.alloc (s : CState) (v : Val) : CState × COk :=
  ({ s with pool := (s.next, v) :: s.pool, next := s.next + 1 }, .handle s.next)

def CState.falloc (s : CState) (src : List Char) : CState × COk :=
  ({ s with fpool := (s.fnext, src) :: s.fpool, fnext := s.fnext + 1 }, .filter s.fnext)

/-- `*ptr = v` -/
def CState.write (s : CState) (k : Nat) (v : Val) : CState := { s with pool := pset s.pool k v }

/-! ### operations -/

inductive K0 where
  | init | marker | na | remove | list | dict | grid
deriving Repr, DecidableEq, Inhabited

def K0.val : K0 → Val
  | .init => .null | .marker => .marker | .na => .na | .remove => .remove
  | .list => .list .nil | .dict => .dict .nil | .grid => emptyGrid

inductive K1 where
  | str | ref | uri | symbol
deriving Repr, DecidableEq, Inhabited

def K1.val : K1 → List Char → Val
  | .str, s => .str s | .ref, s => .ref s none | .uri, s => .uri s | .symbol, s => .sym s

/-- one call of an `extern "C"` function.  `ext…` arguments are results of library code that is not
modelled here (see the header). -/
inductive COp where
  | mk0 (k : K0)
  | mkBool (b : Bool)
  | mkNum (x : Flt)
  | mkNumUnit (x : Flt) (unit : CStr) (extUnit : Option (List Char))
  | mkCoord (lat lng : Flt)
  | mk1 (k : K1) (s : CStr)
  | mkRefDis (v dis : CStr)
  | mkXStr (ty v : CStr)
  | mkTime (h m s : Nat)
  | mkTimeMs (h m s ms : Nat)
  | mkDate (y : Int) (m d : Nat)
  | mkUtc (date time : Ptr) (ext : Val)
  | mkTz (date time : Ptr) (tz : CStr) (ext : Option Val)
  | isKind (k : Kind) (p : Ptr)
  | get (g : Getter) (p : Ptr)
  | lpush (l e : Ptr)
  | lget (l : Ptr) (i : Nat) (res : Bool)            -- `res`: the `*mut *const Value` out pointer is non-null
  | lset (l : Ptr) (i : Nat) (e : Ptr)
  | lrem (l : Ptr) (i : Nat)
  | dins (d : Ptr) (key : CStr) (e : Ptr)
  | dget (d : Ptr) (key : CStr) (res : Bool)
  | drem (d : Ptr) (key : CStr)
  | dkeys (d res : Ptr)
  | gfrom (rows : Ptr)
  | gfromMeta (rows md : Ptr)
  | grow (g : Ptr) (i : Nat) (res : Ptr)
  | dtDate (p : Ptr) (utc : Bool) (res : Ptr) (ext : Val)
  | dtTime (p : Ptr) (utc : Bool) (res : Ptr) (ext : Val)
  | toZinc (p : Ptr) (ext : Option (List Char))
  | fromZinc (s : CStr) (ext : Option Val)
  | toJson (p : Ptr) (ext : Option (List Char))
  | fromJson (s : CStr) (ext : Option Val)
  | fparse (s : CStr) (ext : Bool)
  | fmatch (f d : Ptr) (ext : Bool)
  | ffirst (f g res : Ptr) (ext : Option Val)
  | fall (f g res : Ptr) (ext : Val)
  | fdestroy (f : Ptr)
  | takeErr
  | destroy (p : Ptr)
  | sdestroy (p : Ptr)

/-- text of a C string argument: null / invalid UTF-8 are errors -/
def CStr.text (c : CStr) (sen : Sentinel) : Except Stop (List Char) :=
  match c with
  | .null => .error (.err .nullArg sen)
  | .bad => .error (.err .badText sen)
  | .ok s => .ok s

def gridHasRows : Val → Bool
  | .grid _ _ (.cons _ _) _ => true
  | _ => false

/-- `haystack_value_make_grid_from_rows` without the allocation -/
def gridFromRows (s : CState) (rows : Ptr) : Except Stop (List Tags) :=
  match s.val? rows with
  | none => .error (.err .badRef .null)
  | some (.list xs) =>
    match dictsOf xs with
    | [] => .error (.err .noRows .null)
    | r :: rs => .ok (r :: rs)
  | some _ => .error (.err .wrongKind .null)

/-- `haystack_value_make_utc_datetime` without the allocation: null checks, the kind filter, the two `expect`s -/
def utcArgs (s : CState) (date time : Ptr) : Except Stop Unit :=
  match date, time with
  | some _, some _ =>
    -- `.filter_map(|e| e.as_ref())`, `.enumerate()`, `.filter(idx == 0 && is_date || idx == 1 && is_time)`,
    -- `args.len() != 2`
    match s.val? date, s.val? time with
    | some a, some b =>
      if Kind.test .date a && Kind.test .time b then
        -- `Date::try_from(args[0]).expect("Date")`, `Time::try_from(args[1]).expect("Time")`
        (if Kind.test .date a then (if Kind.test .time b then .ok () else .error .abort) else .error .abort)
      else .error (.err .badArgs .null)
    | _, _ => .error (.err .badArgs .null)
  | _, _ => .error (.err .nullArg .null)

/-- the body of every function: `ok` = the successful path, `error` = a failing path or an abort -/
def cexec (s : CState) : COp → Except Stop (CState × COk)
  | .mk0 k => .ok (s.alloc k.val)
  | .mkBool b => .ok (s.alloc (.bool b))
  | .mkNum x => .ok (s.alloc (.num { v := x, unit := none }))
  | .mkNumUnit x unit extUnit =>
    match unit with
    | .null => .error (.err .nullArg .null)
    | .bad => .error (.err .badText .null)
    | .ok _ =>
      match extUnit with
      | some sym => .ok (s.alloc (.num { v := x, unit := some sym }))
      | none => .error (.err .badUnit .null)
  | .mkCoord lat lng => .ok (s.alloc (.coord lat lng))
  | .mk1 k c =>
    match c.text .null with
    | .error e => .error e
    | .ok t => .ok (s.alloc (k.val t))
  | .mkRefDis v dis =>
    if v.isNull || dis.isNull then .error (.err .nullArg .null) else
    match v.text .null with
    | .error e => .error e
    | .ok id =>
      match dis.text .null with
      | .error e => .error e
      | .ok d => .ok (s.alloc (.ref id (some d)))
  | .mkXStr ty v =>
    if ty.isNull || v.isNull then .error (.err .nullArg .null) else
    match ty.text .null with
    | .error e => .error e
    | .ok t =>
      match v.text .null with
      | .error e => .error e
      | .ok x => .ok (s.alloc (.xstr t x))
  | .mkTime h m sec =>
    if timeOk h m sec 0 then .ok (s.alloc (mkTimeVal h m sec 0)) else .error (.err .badArgs .null)
  | .mkTimeMs h m sec ms =>
    -- `milli.checked_mul(1_000_000)` in `u32`
    if 1000000 * ms ≥ 4294967296 then .error (.err .badArgs .null)
    else if timeOk h m sec (1000000 * ms) then .ok (s.alloc (mkTimeVal h m sec (1000000 * ms)))
    else .error (.err .badArgs .null)
  | .mkDate y m d =>
    -- `year < 0` is rejected first: the unsigned year getter could not return it
    if decide (0 ≤ y) && dateOk y m d then .ok (s.alloc (mkDateVal y m d)) else .error (.err .badArgs .null)
  | .mkUtc date time ext =>
    match utcArgs s date time with
    | .error e => .error e
    | .ok () => .ok (s.alloc ext)
  | .mkTz date time tz ext =>
    -- the UTC value is built first (and dropped again); then `tz.is_null()`
    match utcArgs s date time with
    | .error e => .error e
    | .ok () =>
      match tz.text .null with
      | .error e => .error e
      | .ok _ =>
        match ext with
        | some v => .ok (s.alloc v)
        | none => .error (.err .ext .null)
  | .isKind k p =>
    match s.val? p with
    | none => .error (.err .badRef .false)
    | some v => .ok (s, .bool (k.test v))
  | .get g p =>
    match s.val? p with
    | none => .error (.err .badRef g.sentinel)
    | some v =>
      match g.read v with
      | none => .error (.err .wrongKind g.sentinel)
      | some (.f64 x) => .ok (s, .f64 x)
      | some (.usize n) => .ok (s, .usize n)
      | some (.u32 n) => .ok (s, .u32 n)
      | some (.result b) => .ok (s, .result b)
      | some (.text none) => .ok (s, .noStr)
      | some (.text (some t)) => if hasNul t then .error (.err .nulInText g.sentinel) else .ok (s, .cstr t)
  | .lpush l e =>
    match l, s.val? l with
    | some k, some (.list xs) =>
      match s.val? e with
      | some v => .ok (s.write k (.list (vPush xs v)), .result true)
      | none => .error (.err .badRef .err)
    | _, some _ => .error (.err .wrongKind .err)
    | _, none => .error (.err .badRef .err)
  | .lget l i res =>
    match s.val? l with
    | some (.list xs) =>
      match vGet? xs i with
      | some v => if res then .ok (s, .borrow v) else .error (.err .noResult .err)
      | none => .error (.err .bounds .err)
    | some _ => .error (.err .wrongKind .err)
    | none => .error (.err .badRef .err)
  | .lset l i e =>
    match l, s.val? l with
    | some k, some (.list xs) =>
      if i < xs.length then
        match s.val? e with
        | some v => .ok (s.write k (.list (vSet xs i v)), .result true)
        | none => .error (.err .badRef .err)
      else .error (.err .bounds .err)
    | _, some _ => .error (.err .wrongKind .err)
    | _, none => .error (.err .badRef .err)
  | .lrem l i =>
    match l, s.val? l with
    | some k, some (.list xs) =>
      if i < xs.length then .ok (s.write k (.list (vRemoveAt xs i)), .result true)
      else .error (.err .bounds .err)
    | _, some _ => .error (.err .wrongKind .err)
    | _, none => .error (.err .badRef .err)
  | .dins d key e =>
    if d.isNone || key.isNull || e.isNone then .error (.err .nullArg .err) else
    match key.text .err with
    | .error x => .error x
    | .ok kt =>
      match d, s.val? d with
      | some k, some (.dict t) =>
        match s.val? e with
        | some v => .ok (s.write k (.dict (tInsert t kt v)), .result true)
        | none => .error (.err .badRef .err)
      | _, some _ => .error (.err .wrongKind .err)
      | _, none => .error (.err .badRef .err)
  | .dget d key res =>
    if d.isNone || key.isNull || !res then .error (.err .nullArg .err) else
    match key.text .err with
    | .error x => .error x
    | .ok kt =>
      match s.val? d with
      | some (.dict t) =>
        match t.get? kt with
        | some v => .ok (s, .borrow v)
        | none => .ok (s, .result false)
      | _ => .error (.err .wrongKind .err)
  | .drem d key =>
    if d.isNone || key.isNull then .error (.err .nullArg .err) else
    match key.text .err with
    | .error x => .error x
    | .ok kt =>
      match d, s.val? d with
      | some k, some (.dict t) => .ok (s.write k (.dict (tRemove t kt)), .result true)
      | _, _ => .error (.err .wrongKind .err)
  | .dkeys d res =>
    match s.val? d with
    | some (.dict t) =>
      match res, s.val? res with
      | some r, some _ => .ok (s.write r (.list (keysList t)), .result true)
      | _, _ => .error (.err .noResult .err)
    | some _ => .error (.err .wrongKind .err)
    | none => .error (.err .badRef .err)
  | .gfrom rows =>
    match gridFromRows s rows with
    | .error e => .error e
    | .ok rs => .ok (s.alloc (gridFromDicts rs .none))
  | .gfromMeta rows md =>
    match gridFromRows s rows with
    | .error e => .error e
    | .ok rs =>
      match s.val? md with
      | some (.dict m) => .ok (s.alloc (gridFromDicts rs (.some m)))
      | _ => .error (.err .wrongKind .null)
  | .grow g i res =>
    match s.val? g with
    | some (.grid _ _ rows _) =>
      match rGet? rows i with
      | some r =>
        match res, s.val? res with
        | some k, some _ => .ok (s.write k (.dict r), .result true)
        | _, _ => .error (.err .noResult .err)
      | none => .error (.err .bounds .err)
    | some _ => .error (.err .wrongKind .err)
    | none => .error (.err .badRef .err)
  | .dtDate p _utc res ext =>
    if p.isNone || res.isNone then .error (.err .nullArg .err) else
    match s.val? p with
    | some (.dateTime _) =>
      match res, s.val? res with
      | some k, some _ => .ok (s.write k ext, .result true)
      | _, _ => .error (.err .noResult .err)
    | some _ => .error (.err .wrongKind .err)
    | none => .error (.err .badRef .err)
  | .dtTime p _utc res ext =>
    match s.val? p with
    | some (.dateTime _) =>
      match res, s.val? res with
      | some k, some _ => .ok (s.write k ext, .result true)
      | _, _ => .error (.err .noResult .err)
    | some _ => .error (.err .wrongKind .err)
    | none => .error (.err .badRef .err)
  | .toZinc p ext =>
    match s.val? p with
    | none => .error (.err .badRef .null)
    | some _ =>
      match ext with
      | some t => .ok (s, .cstr t)
      | none => .error (.err .ext .null)
  | .fromZinc c ext =>
    match c.text .null with
    | .error e => .error e
    | .ok _ =>
      match ext with
      | some v => .ok (s.alloc v)
      | none => .error (.err .ext .null)
  | .toJson p ext =>
    match s.val? p with
    | none => .error (.err .badRef .null)
    | some _ =>
      match ext with
      | some t => .ok (s, .cstr t)
      | none => .error (.err .ext .null)
  | .fromJson c ext =>
    match c.text .null with
    | .error e => .error e
    | .ok _ =>
      match ext with
      | some v => .ok (s.alloc v)
      | none => .error (.err .ext .null)
  | .fparse c ext =>
    match c.text .null with
    | .error e => .error e
    | .ok t => if ext then .ok (s.falloc t) else .error (.err .ext .null)
  | .fmatch f d ext =>
    if f.isNone || d.isNone then .error (.err .nullArg .err) else
    match s.flt? f with
    | none => .error (.err .badRef .err)
    | some _ =>
      match s.val? d with
      | some (.dict _) => .ok (s, .result ext)
      | _ => .error (.err .wrongKind .err)
  | .ffirst f g res ext =>
    if f.isNone || res.isNone || g.isNone then .error (.err .nullArg .err) else
    match s.flt? f with
    | none => .error (.err .badRef .err)
    | some _ =>
      match s.val? g with
      | some (.grid _ _ _ _) =>
        match ext with
        | some v =>
          match res, s.val? res with
          | some k, some _ => .ok (s.write k v, .result true)
          | _, _ => .error (.err .noResult .err)
        | none => .ok (s, .result false)
      | _ => .error (.err .wrongKind .err)
  | .fall f g res ext =>
    if f.isNone || g.isNone || res.isNone then .error (.err .nullArg .err) else
    match s.flt? f with
    | none => .error (.err .badRef .err)
    | some _ =>
      match s.val? g with
      | some (.grid _ _ _ _) =>
        match res, s.val? res with
        | some k, some _ => .ok (s.write k ext, .result (gridHasRows ext))
        | _, _ => .error (.err .noResult .err)
      | _ => .error (.err .wrongKind .err)
  | .fdestroy f =>
    match f with
    | none => .error (.err .nullArg .none)
    | some k => .ok ({ s with fpool := perase s.fpool k }, .unit)
  | .takeErr =>
    match s.lastErr with
    | some _ => .ok ({ s with lastErr := none }, .errMsg)
    | none => .ok (s, .noStr)
  | .destroy p =>
    match p with
    | none => .ok (s, .unit)          -- `Box::from_raw(null)`: outside the protocol (exempt)
    | some k => .ok ({ s with pool := perase s.pool k }, .unit)
  | .sdestroy _ => .ok (s, .unit)

/-- one call: a failing path records the error and returns the sentinel; nothing else changes -/
def cstep (s : CState) (op : COp) : CState × CRes :=
  match cexec s op with
  | .ok (s', r) => (s', .ok r)
  | .error (.err e sen) => ({ s with lastErr := some e }, .fail sen)
  | .error .abort => (s, .abort)

/-- a history of calls: final state and the results in order -/
def crun (s : CState) : List COp → CState × List CRes
  | [] => (s, [])
  | op :: ops =>
    let (s1, r) := cstep s op
    let (s2, rs) := crun s1 ops
    (s2, r :: rs)

/-! ### names: the `extern "C"` function behind every op -/

def K0.fnName : K0 → String
  | .init => "haystack_value_init" | .marker => "haystack_value_make_marker" | .na => "haystack_value_make_na"
  | .remove => "haystack_value_make_remove" | .list => "haystack_value_make_list"
  | .dict => "haystack_value_make_dict" | .grid => "haystack_value_make_grid"

def K1.fnName : K1 → String
  | .str => "haystack_value_make_str" | .ref => "haystack_value_make_ref"
  | .uri => "haystack_value_make_uri" | .symbol => "haystack_value_make_symbol"

def Kind.fnName : Kind → String
  | .null => "haystack_value_is_null" | .marker => "haystack_value_is_marker" | .na => "haystack_value_is_na"
  | .remove => "haystack_value_is_remove" | .bool => "haystack_value_is_bool" | .number => "haystack_value_is_number"
  | .coord => "haystack_value_is_coord" | .str => "haystack_value_is_str" | .ref => "haystack_value_is_ref"
  | .uri => "haystack_value_is_uri" | .symbol => "haystack_value_is_symbol" | .xstr => "haystack_value_is_xstr"
  | .time => "haystack_value_is_time" | .date => "haystack_value_is_date" | .datetime => "haystack_value_is_datetime"
  | .list => "haystack_value_is_list" | .dict => "haystack_value_is_dict" | .grid => "haystack_value_is_grid"

def Getter.fnName : Getter → String
  | .numberValue => "haystack_value_get_number_value" | .numberHasUnit => "haystack_value_number_has_unit"
  | .numberUnit => "haystack_value_get_number_unit" | .strLen => "haystack_value_get_str_len"
  | .strValue => "haystack_value_get_str_value" | .refValueLen => "haystack_value_get_ref_value_len"
  | .refValue => "haystack_value_get_ref_value" | .refDis => "haystack_value_get_ref_dis"
  | .symbolValueLen => "haystack_value_get_symbol_value_len" | .symbolValue => "haystack_value_get_symbol_value"
  | .uriValueLen => "haystack_value_get_uri_value_len" | .uriValue => "haystack_value_get_uri_value"
  | .xstrType => "haystack_value_get_xstr_type" | .xstrValue => "haystack_value_get_xstr_value"
  | .coordLat => "haystack_value_get_coord_lat" | .coordLong => "haystack_value_get_coord_long"
  | .dateYear => "haystack_value_get_date_year" | .dateMonth => "haystack_value_get_date_month"
  | .dateDay => "haystack_value_get_date_day" | .timeHour => "haystack_value_get_time_hour"
  | .timeMinutes => "haystack_value_get_time_minutes" | .timeSeconds => "haystack_value_get_time_seconds"
  | .timeMillis => "haystack_value_get_time_millis" | .datetimeTimezone => "haystack_value_get_datetime_timezone"
  | .listLen => "haystack_value_get_list_len" | .dictLen => "haystack_value_get_dict_len"
  | .gridLen => "haystack_value_get_grid_len"

def COp.fnName : COp → String
  | .mk0 k => k.fnName
  | .mkBool _ => "haystack_value_make_bool"
  | .mkNum _ => "haystack_value_make_number"
  | .mkNumUnit _ _ _ => "haystack_value_make_number_with_unit"
  | .mkCoord _ _ => "haystack_value_make_coord"
  | .mk1 k _ => k.fnName
  | .mkRefDis _ _ => "haystack_value_make_ref_with_dis"
  | .mkXStr _ _ => "haystack_value_make_xstr"
  | .mkTime _ _ _ => "haystack_value_make_time"
  | .mkTimeMs _ _ _ _ => "haystack_value_make_time_millis"
  | .mkDate _ _ _ => "haystack_value_make_date"
  | .mkUtc _ _ _ => "haystack_value_make_utc_datetime"
  | .mkTz _ _ _ _ => "haystack_value_make_tz_datetime"
  | .isKind k _ => k.fnName
  | .get g _ => g.fnName
  | .lpush _ _ => "haystack_value_push_list_entry"
  | .lget _ _ _ => "haystack_value_get_list_entry_at"
  | .lset _ _ _ => "haystack_value_set_list_entry_at"
  | .lrem _ _ => "haystack_value_remove_list_entry_at"
  | .dins _ _ _ => "haystack_value_insert_dict_entry"
  | .dget _ _ _ => "haystack_value_get_dict_entry"
  | .drem _ _ => "haystack_value_remove_dict_entry"
  | .dkeys _ _ => "haystack_value_get_dict_keys"
  | .gfrom _ => "haystack_value_make_grid_from_rows"
  | .gfromMeta _ _ => "haystack_value_make_grid_from_rows_with_meta"
  | .grow _ _ _ => "haystack_value_get_grid_row_at"
  | .dtDate _ _ _ _ => "haystack_value_get_datetime_date"
  | .dtTime _ _ _ _ => "haystack_value_get_datetime_time"
  | .toZinc _ _ => "haystack_value_to_zinc_string"
  | .fromZinc _ _ => "haystack_value_from_zinc_string"
  | .toJson _ _ => "haystack_value_to_json_string"
  | .fromJson _ _ => "haystack_value_from_json_string"
  | .fparse _ _ => "haystack_filter_parse"
  | .fmatch _ _ _ => "haystack_filter_match_dict"
  | .ffirst _ _ _ _ => "haystack_filter_first_match_in_grid"
  | .fall _ _ _ _ => "haystack_filter_match_all_grid"
  | .fdestroy _ => "haystack_filter_destroy"
  | .takeErr => "last_error_message"
  | .destroy _ => "haystack_value_destroy"
  | .sdestroy _ => "haystack_string_destroy"

/-- for every pointer parameter (in declaration order): is the argument null? -/
def COp.nullFlags : COp → List Bool
  | .mkNumUnit _ u _ => [u.isNull]
  | .mk1 _ c => [c.isNull]
  | .mkRefDis a b => [a.isNull, b.isNull]
  | .mkXStr a b => [a.isNull, b.isNull]
  | .mkUtc d t _ => [d.isNone, t.isNone]
  | .mkTz d t z _ => [d.isNone, t.isNone, z.isNull]
  | .isKind _ p => [p.isNone]
  | .get _ p => [p.isNone]
  | .lpush l e => [l.isNone, e.isNone]
  | .lget l _ r => [l.isNone, !r]
  | .lset l _ e => [l.isNone, e.isNone]
  | .lrem l _ => [l.isNone]
  | .dins d k e => [d.isNone, k.isNull, e.isNone]
  | .dget d k r => [d.isNone, k.isNull, !r]
  | .drem d k => [d.isNone, k.isNull]
  | .dkeys d r => [d.isNone, r.isNone]
  | .gfrom r => [r.isNone]
  | .gfromMeta r m => [r.isNone, m.isNone]
  | .grow g _ r => [g.isNone, r.isNone]
  | .dtDate p _ r _ => [p.isNone, r.isNone]
  | .dtTime p _ r _ => [p.isNone, r.isNone]
  | .toZinc p _ => [p.isNone]
  | .fromZinc c _ => [c.isNull]
  | .toJson p _ => [p.isNone]
  | .fromJson c _ => [c.isNull]
  | .fparse c _ => [c.isNull]
  | .fmatch f d _ => [f.isNone, d.isNone]
  | .ffirst f g r _ => [f.isNone, g.isNone, r.isNone]
  | .fall f g r _ => [f.isNone, g.isNone, r.isNone]
  | .fdestroy f => [f.isNone]
  | .destroy p => [p.isNone]
  | .sdestroy p => [p.isNone]
  | _ => []

/-- the two destroy functions the property exempts from the null clause -/
def COp.isExemptDestroy : COp → Bool
  | .destroy _ | .sdestroy _ => true
  | _ => false

end Hs.CApi
