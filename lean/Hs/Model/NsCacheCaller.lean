/-
  Hs.Model.NsCacheCaller — CALLERS of `Namespace::supertypes_of` / `inheritance` that KEEP the returned answer
  (C14, known finding GUARD).  Definitions only; nothing here is used by the driver or changes Hs.Model.NsCache.

  The two functions RETURN a `dashmap::mapref::one::Ref`, a read guard into the cache shard.  The library's own
  callers read the answer and drop the guard at once (`supG`, `inhG` and everything built from them in
  Hs.Model.NsCache).  A caller outside the library may write `let g = ns.supertypes_of(a); … ns.supertypes_of(b) …`:
  the guard `g` stays alive across the next query.  Here:

  * `supK` / `inhK`: the two functions exactly as written, the guard RETURNED (no `drop`);
  * `Call` / `callerP`: a caller as a script of `ask q` (any entry point of the library, answer owned),
    `keep c k` (`let g = …`, the answer stays alive), `release` (the most recent kept answer goes out of scope);
    what is still kept at the end of the script goes out of scope there;
  * `initP`: the concurrent system of Hs.Model.NsCache started with ARBITRARY thread programs;
  * `Stuck` / `Deadlock`: every unfinished thread waits for a write lock (and stays so for ever);
  * `hitRun` / `allHit`: the dry run of a program against given caches along which every `get` hits and every
    `contains_key` answers true - "every key the program asks for is already cached, no `insert` is reached".
-/
import Hs.Model.NsCache
namespace Hs.NsCache
open Hs Hs.Ns

/-! ### the public functions: the guard is returned -/

/-- `cache.get(k).expect("Cached value")` handed to the caller: NO drop -/
def readK (c : CacheId) (k : Name) : Prog (Res V) :=
  .get c k fun r =>
    match r with
    | some v => .ret (.ok v)
    | none => .ret .panic

/-- `if !cache.contains_key(k) { cache.insert(k, val) }  cache.get(k).expect(..)`, the guard returned -/
def storeK (c : CacheId) (k : Name) (val : V) : Prog (Res V) :=
  .has c k fun present =>
    if present then readK c k else .ins c k val (readK c k)

/-- `supertypes_of(k)` as the PUBLIC function: an `ok` result comes with a held read guard on `k`'s shard -/
def supK (g : Defs) (k : Name) : Prog (Res V) :=
  .get .sup k fun r =>
    match r with
    | some v => .ret (.ok v)
    | none => storeK .sup k (supertypesOf g k)

/-- `inheritance(k)` as the PUBLIC function -/
def inhK (fuel : Nat) (ns : Ns) (k : Name) : Prog (Res V) :=
  .get .inh k fun r =>
    match r with
    | some v => .ret (.ok v)
    | none =>
      (computeInhP fuel ns k).bind fun rv =>
        match rv with
        | .ok val => storeK .inh k val
        | e => .ret e

def keepP (cfg : Cfg) : CacheId → Name → Prog (Res V)
  | .sup, k => supK cfg.ns.defs k
  | .inh, k => inhK cfg.fuel cfg.ns k

/-! ### caller scripts -/

inductive Call where
  /-- any entry point of the library; the answer is owned (the library read and dropped its guards) -/
  | ask (q : Query)
  /-- `let g = ns.supertypes_of(k)` (`.sup`) / `ns.inheritance(k)` (`.inh`): the answer is kept alive -/
  | keep (c : CacheId) (k : Name)
  /-- the most recently kept answer goes out of scope -/
  | release
deriving Repr, Inhabited

abbrev Script := List Call

/-- `n` guards go out of scope, then `p` -/
def dropN {α : Type} : Nat → Prog α → Prog α
  | 0, p => p
  | n + 1, p => .drop (dropN n p)

/-- the program of a caller; `kept` = number of answers alive (= guards held).  A `keep` whose result is not `ok`
(model outcomes `panic` / `diverge`, which the theorems show unreachable from correct caches with enough fuel)
obtained no guard.  At the end of the script everything still kept goes out of scope. -/
def callerP (cfg : Cfg) : Script → Nat → Prog (List Ans)
  | [], kept => dropN kept (.ret [])
  | .ask q :: cs, kept =>
    (queryP cfg q).bind fun a => (callerP cfg cs kept).bind fun as => .ret (a :: as)
  | .keep c k :: cs, kept =>
    (keepP cfg c k).bind fun r =>
      match r with
      | .ok v => (callerP cfg cs (kept + 1)).bind fun as => .ret (.names (.ok v) :: as)
      | e => (callerP cfg cs kept).bind fun as => .ret (.names e :: as)
  | .release :: cs, 0 => callerP cfg cs 0
  | .release :: cs, kept + 1 => .drop (callerP cfg cs kept)

/-- `let g = ns.<c>(k); ns.<q>(..)`: keep one answer, then issue one more query (the shape of known finding GUARD) -/
def keepThen (cfg : Cfg) (c : CacheId) (k : Name) (q : Query) : Prog (List Ans) :=
  callerP cfg [.keep c k, .ask q] 0

/-- the cache-free answers a script must get -/
def scriptAns (cfg : Cfg) : Script → List Ans
  | [] => []
  | .ask q :: cs => pureAns cfg q :: scriptAns cfg cs
  | .keep .sup k :: cs => pureAns cfg (.sup k) :: scriptAns cfg cs
  | .keep .inh k :: cs => pureAns cfg (.inh k) :: scriptAns cfg cs
  | .release :: cs => scriptAns cfg cs

/-- THE DISCIPLINE of the library's own callers, decidable on scripts: a kept answer is released before the next
query (or is the last thing the caller does) -/
def dropsBeforeNext : Script → Bool
  | [] => true
  | .ask _ :: cs => dropsBeforeNext cs
  | [.keep _ _] => true
  | .keep _ _ :: .release :: cs => dropsBeforeNext cs
  | .keep _ _ :: _ => false
  | .release :: cs => dropsBeforeNext cs

/-! ### the system with arbitrary thread programs -/

/-- initial state: caches `c0`, one thread per program, no guard held -/
def initP (c0 : Caches) (progs : List (Prog (List Ans))) : State :=
  { c := c0, thr := progs.map fun p => { prog := p, held := [] } }

/-- one caller script per thread -/
def initC (cfg : Cfg) (c0 : Caches) (scripts : List Script) : State :=
  initP c0 (scripts.map fun sc => callerP cfg sc 0)

/-- some thread has not finished and every unfinished thread waits for a write lock -/
def Stuck (cfg : Cfg) (s : State) : Prop :=
  (∃ t, finished s t = false) ∧ ∀ t, finished s t = false → blocked cfg s t = true

/-- state `s` is a deadlock: whatever the scheduler does from here on, every unfinished thread is blocked -/
def Deadlock (cfg : Cfg) (s : State) : Prop := ∀ sched : List Nat, Stuck cfg (run cfg s sched)

/-- `Stuck`, executable -/
def stuckB (cfg : Cfg) (s : State) : Bool :=
  ((List.range s.thr.length).any fun t => !finished s t) &&
  ((List.range s.thr.length).all fun t => finished s t || blocked cfg s t)

/-! ### warm programs -/

/-- the dry run of `p` against caches `cs` as long as every `get` hits and every `contains_key` says yes; `none`
as soon as a key is missing or an `insert` is reached -/
def hitRun {α : Type} (cs : Caches) : Prog α → Option α
  | .ret a => some a
  | .get c k cont =>
    match look c k cs with
    | some v => hitRun cs (cont (some v))
    | none => none
  | .has c k cont => if (look c k cs).isSome then hitRun cs (cont true) else none
  | .ins _ _ _ _ => none
  | .drop cont => hitRun cs cont

/-- every key `p` asks for is cached in `cs` (so `p` reaches no `insert`) -/
def allHit {α : Type} (cs : Caches) (p : Prog α) : Bool := (hitRun cs p).isSome

/-- number of operations of the warm run -/
def hitLen {α : Type} (cs : Caches) : Prog α → Nat
  | .ret _ => 0
  | .get c k cont =>
    match look c k cs with
    | some v => hitLen cs (cont (some v)) + 1
    | none => 0
  | .has _ _ cont => hitLen cs (cont true) + 1
  | .ins _ _ _ _ => 0
  | .drop cont => hitLen cs cont + 1

end Hs.NsCache
