/-
  Hs.Model.Ns — the def namespace of src/haystack/defs/namespace.rs and reflection.rs as far as the
  taxonomy queries go (C13): `Namespace::make` with its `subtypes` and `conjuncts_keys` indexes, `get`,
  `supertypes_of`, `subtypes_of`, the two work-list traversals `all_supertypes_of` / `all_subtypes_of`,
  `inheritance`, `fits`, `choices_for`, `conjuncts_defs`, `reflect` (`find_conjuncts`,
  `find_supertypes_from_defs`) and `Reflection::fits` (= the filter term `^sym`).

  A def dict is reduced to what these functions read: its `def` symbol and the items of its `is` list.
  Results are lists of def NAMES (a `&Dict` of the namespace is identified by its `def` symbol: the keys
  of the `defs` map are distinct).  `HashSet<&Dict>` is a duplicate-free list (`insertSet`); the order in
  which a hash set is drained is not modelled - results are compared as sets.
  The caches of `supertypes_of` / `inheritance` are not modelled here: C14 (Hs.Model.NsCache) shows that
  the cached functions return exactly the values of the cache-free functions of this file.

  Core-only imports (linked into `hsdriver`).
-/
import Hs.Model.Val
namespace Hs.Ns

abbrev Name := List Char

/-- One row of the defs grid: `name` = the `def` tag when it is a Symbol (rows without one are dropped by
`make`), `isRaw` = the items of the `is` tag when it is a List (`some s` for a Symbol item, `none` for any
other value; `[]` when the tag is absent or not a list - `get_list("is")` is `None`). -/
structure Row where
  name  : Option Name
  isRaw : List (Option Name)
deriving Repr, DecidableEq, Inhabited

/-- A def of the namespace. -/
structure Def where
  name  : Name
  isRaw : List (Option Name)
deriving Repr, DecidableEq, Inhabited

/-- the Symbol items of the `is` list -/
def Def.is (d : Def) : List Name := d.isRaw.filterMap id

abbrev Defs := List Def

/-- `Namespace::get` / `get_by_name` -/
def get (g : Defs) (s : Name) : Option Def := g.find? (fun d => d.name = s)

/-- `Namespace::has` -/
def defined (g : Defs) (s : Name) : Bool := (get g s).isSome

/-- `BTreeMap::insert` on the `defs` map: a later row with the same `def` symbol replaces the earlier. -/
def upsert (d : Def) : Defs → Defs
  | [] => [d]
  | e :: g => if e.name = d.name then d :: g else e :: upsert d g

/-- `defs.into_iter().filter_map(|rec| rec.get_symbol("def").map(..)).collect()` -/
def rowStep (g : Defs) (r : Row) : Defs :=
  match r.name with
  | some n => upsert { name := n, isRaw := r.isRaw } g
  | none => g

def mkDefs (rows : List Row) : Defs := rows.foldl rowStep []

/-! ### indexes (`BTreeMap<_, Vec<_>>` as association lists, `entry(k).or_default().push(v)`) -/

def pushAt {β : Type} (k : Name) (v : β) : List (Name × List β) → List (Name × List β)
  | [] => [(k, [v])]
  | (k', vs) :: m => if k' = k then (k', vs ++ [v]) :: m else (k', vs) :: pushAt k v m

/-- `map.get(k).unwrap_or(&EMPTY_VEC)` -/
def lookup {β : Type} (k : Name) : List (Name × List β) → List β
  | [] => []
  | (k', vs) :: m => if k' = k then vs else lookup k m

/-- `compute_subtypes`: for every def, for every Symbol item of its `is` list, push the def under that symbol
(whether or not the symbol is itself defined). -/
def computeSubtypes (g : Defs) : List (Name × List Name) :=
  g.foldl (fun m d => d.is.foldl (fun m s => pushAt s d.name m) m) []

/-- `Namespace::is_conjunct` -/
def isConjunct (s : Name) : Bool := s.contains '-'
/-- `Namespace::is_feature` -/
def isFeature (s : Name) : Bool := s.contains ':'

/-- `str::split('-')` (always at least one part) -/
def splitDash : List Char → List (List Char)
  | [] => [[]]
  | c :: cs =>
    if c = '-' then [] :: splitDash cs
    else match splitDash cs with
      | p :: ps => (c :: p) :: ps
      | [] => [[c]]

/-- `parts.join("-")` -/
def joinDash : List (List Char) → List Char
  | [] => []
  | [p] => p
  | p :: q :: ps => p ++ '-' :: joinDash (q :: ps)

/-- `compute_conjuncts` + `compute_conjuncts_keys`: first part ↦ the remaining parts of every conjunct def -/
def conjStep (m : List (Name × List (List Name))) (d : Def) : List (Name × List (List Name)) :=
  if isConjunct d.name then
    match splitDash d.name with
    | [] => m
    | p :: ps => pushAt p ps m
  else m

def computeConjKeys (g : Defs) : List (Name × List (List Name)) := g.foldl conjStep []

/-- The namespace: the `defs` map and the two indexes the modelled queries read. -/
structure Ns where
  defs     : Defs
  subtypes : List (Name × List Name)
  conjKeys : List (Name × List (List Name))
deriving Repr, Inhabited

/-- `Namespace::make` -/
def make (rows : List Row) : Ns :=
  let g := mkDefs rows
  { defs := g, subtypes := computeSubtypes g, conjKeys := computeConjKeys g }

/-! ### direct queries -/

/-- `supertypes_of` (the value that is computed on a cache miss): the DEFINED Symbol items of `is`, in list
order, duplicates kept; empty for an undefined symbol. -/
def supertypesOf (g : Defs) (s : Name) : List Name :=
  match get g s with
  | none => []
  | some d => d.isRaw.filterMap (fun it =>
      match it with
      | some b => if defined g b then some b else none
      | none => none)

/-- `subtypes_of` -/
def subtypesOf (ns : Ns) (s : Name) : List Name := lookup s ns.subtypes

/-- `HashSet::insert` -/
def insertSet {α : Type} [DecidableEq α] (a : α) (l : List α) : List α := if a ∈ l then l else l ++ [a]

/-- `HashSet::extend` -/
def extendSet {α : Type} [DecidableEq α] (l : List α) (xs : List α) : List α := xs.foldl (fun acc x => insertSet x acc) l

/-! ### the work-list traversals

`all_supertypes_of` and `all_subtypes_of` are the same loop: a stack of vectors; pop one, and for each def in
it insert the def into the result set and - ONLY WHEN THE DEF WAS NEW (`if set.insert(def) { .. }`) - push the
vector of its direct super/subtypes (`all_supertypes_of` pushes only non-empty vectors, `all_subtypes_of`
pushes every vector: `pushEmpty`).  The result set doubles as the visited set: a def is expanded once, so the
loop ends on every `is` graph, cyclic or not, after at most (number of defs + 1) iterations. -/

/-- the `for def in defs { if set.insert(def) { .. } }` body -/
def forBody {α : Type} [DecidableEq α] (next : α → List α) (pushEmpty : Bool) :
    List α → List (List α) → List α → List (List α) × List α
  | [], st, acc => (st, acc)
  | d :: ds, st, acc =>
    -- `HashSet::insert` answers `false` for a value that is already present (and changes nothing)
    if d ∈ acc then forBody next pushEmpty ds st acc
    else
      let nx := next d
      forBody next pushEmpty ds (if nx.isEmpty && !pushEmpty then st else nx :: st) (insertSet d acc)

/-- `while !defs_stack.is_empty() { if let Some(defs) = defs_stack.pop() { for .. } }`, one unit of fuel per
iteration -/
def wl {α : Type} [DecidableEq α] (next : α → List α) (pushEmpty : Bool) :
    Nat → List (List α) → List α → Res (List α)
  | _, [], acc => .ok acc
  | 0, _ :: _, _ => .diverge
  | fuel + 1, v :: st, acc =>
    let r := forBody next pushEmpty v st acc
    wl next pushEmpty fuel r.1 r.2

/-- `all_supertypes_of` -/
def allSupertypesOf (fuel : Nat) (ns : Ns) (s : Name) : Res (List Name) :=
  wl (supertypesOf ns.defs) false fuel [supertypesOf ns.defs s] []

/-- `all_subtypes_of` -/
def allSubtypesOf (fuel : Nat) (ns : Ns) (s : Name) : Res (List Name) :=
  wl (subtypesOf ns) true fuel [subtypesOf ns s] []

/-- `inheritance` (the value that is computed on a cache miss) -/
def inheritance (fuel : Nat) (ns : Ns) (s : Name) : Res (List Name) :=
  if defined ns.defs s then
    match allSupertypesOf fuel ns s with
    | .ok all => .ok (extendSet [s] all)
    | .err => .err | .panic => .panic | .diverge => .diverge | .depth => .depth
  else .ok []

/-- `fits` -/
def fits (fuel : Nat) (ns : Ns) (a b : Name) : Res Bool :=
  if defined ns.defs b then
    match inheritance fuel ns a with
    | .ok l => .ok (l.contains b)
    | .err => .err | .panic => .panic | .diverge => .diverge | .depth => .depth
  else .ok false

/-- `fits a b` for every `b` of a list, the inheritance of `a` computed once (driver convenience;
`C13.fitsRow_spec`: it is `bs.filter (fits a ·)`) -/
def fitsRow (fuel : Nat) (ns : Ns) (a : Name) (bs : List Name) : Res (List Name) :=
  match inheritance fuel ns a with
  | .ok l => .ok (bs.filter (fun b => defined ns.defs b && l.contains b))
  | .err => .err | .panic => .panic | .diverge => .diverge | .depth => .depth

def choiceName : Name := ['c', 'h', 'o', 'i', 'c', 'e']

/-- `choices_for` (`is_choice`: some item of the `is` list equals the Symbol `choice`) -/
def choicesFor (ns : Ns) (s : Name) : List Name :=
  match get ns.defs s with
  | some d => if d.isRaw.any (fun it => it = some choiceName) then subtypesOf ns s else []
  | none => []

/-- `conjuncts_defs` -/
def conjunctsDefs (ns : Ns) (s : Name) : List Name :=
  (splitDash s).filterMap (fun p => if defined ns.defs p then some p else none)

/-! ### reflection -/

/-- a record as `reflect` sees it: its tag names (distinct) and whether the value is a Marker -/
abbrev Rec := List (Name × Bool)

/-- the tag names that have a def -/
def tagDefs (ns : Ns) (r : Rec) : List Name :=
  r.filterMap (fun kv => if defined ns.defs kv.1 then some kv.1 else none)

/-- `markers`: EVERY tag that carries a Marker (`subject.has_marker(key)`), whether or not the tag has a def of
its own (since the repair of `reflect`; before, a Marker tag without a def was left out and a conjunct with such
a part was never found) -/
def markerTags (r : Rec) : List Name :=
  extendSet [] (r.filterMap (fun kv => if kv.2 then some kv.1 else none))

/-- `find_conjuncts`: for every marker `m`, for every entry `parts` the `conjuncts_keys` index holds under `m`
(= the remaining parts of a conjunct def whose FIRST part is `m`): if all of `parts` are in `markers`, look
`m-parts..` up with `get_by_name` -/
def findConjuncts (ns : Ns) (markers : List Name) : List Name :=
  markers.flatMap (fun m =>
    (lookup m ns.conjKeys).filterMap (fun parts =>
      if parts.all (fun p => markers.contains p) then
        let nm := joinDash (m :: parts)
        if defined ns.defs nm then some nm else none
      else none))

/-- `find_supertypes_from_defs` -/
def findSupertypesFromDefs (fuel : Nat) (ns : Ns) : List Name → List Name → Res (List Name)
  | [], acc => .ok acc
  | d :: ds, acc =>
    match allSupertypesOf fuel ns d with
    | .ok all => findSupertypesFromDefs fuel ns ds (extendSet (insertSet d acc) all)
    | .err => .err | .panic => .panic | .diverge => .diverge | .depth => .depth

/-- `reflect(subject).defs` -/
def reflect (fuel : Nat) (ns : Ns) (r : Rec) : Res (List Name) :=
  findSupertypesFromDefs fuel ns (tagDefs ns r ++ findConjuncts ns (markerTags r)) []

/-- `defs.iter().any(|def| ns.fits(def, base))` -/
def anyFits (fuel : Nat) (ns : Ns) (base : Name) : List Name → Res Bool
  | [] => .ok false
  | d :: ds =>
    match fits fuel ns d base with
    | .ok true => .ok true
    | .ok false => anyFits fuel ns base ds
    | .err => .err | .panic => .panic | .diverge => .diverge | .depth => .depth

/-- `reflect(subject).fits(base)` - the evaluation of the filter term `^base` on `subject` -/
def reflFits (fuel : Nat) (ns : Ns) (r : Rec) (base : Name) : Res Bool :=
  match reflect fuel ns r with
  | .ok ds => anyFits fuel ns base ds
  | .err => .err | .panic => .panic | .diverge => .diverge | .depth => .depth

/-! ### fuel -/

/-- number of items of all `is` lists -/
def totalIs (g : Defs) : Nat := (g.map (fun d => d.isRaw.length)).sum

/-- Enough fuel for every traversal of EVERY graph, cyclic or not (theorem `C13.allSupertypes_spec`): every
iteration of the `while` loop pops one vector, and a vector is pushed only for a def that was not yet in the
result set, so there are at most (number of defs + 1) iterations. -/
def fuelFor (g : Defs) : Nat := g.length + 1

end Hs.Ns
