/-
  Hs.Model.ZincParse — model of the Zinc parser (decode/parser.rs, decode/complex/{list,dict,grid}.rs),
  including the lazy row iterator.  One global fuel, one unit per loop iteration / recursive call;
  `depth` mirrors `Parser::depth` (MAX_NESTING_DEPTH).
-/
import Hs.Model.ZincLex
namespace Hs.Zinc
open Hs Hs.Scan

def maxNestingDepth : Nat := 64

/-- parser state = lexer state (`Parser { lexer, depth }`; depth is passed separately) -/
abbrev PS := Lex

def PS.isEof (p : PS) : Bool := p.sc.eof
def PS.isChar (p : PS) (c : UInt8) : Bool :=
  match p.tok with
  | .ch d => d == c
  | _ => false
def PS.isId (p : PS) : Bool :=
  match p.tok with
  | .id _ => true
  | _ => false
def PS.tokNone (p : PS) : Bool :=
  match p.tok with
  | .none => true
  | _ => false

/-- `parser.lexer.read()?` -/
def PS.read (fuel : Nat) (p : PS) : Res PS := lexRead fuel p.sc

def tagsInsert (t : List (List Char × Val)) (k : List Char) (v : Val) : List (List Char × Val) :=
  if t.any (·.1 == k) then t.map (fun p => if p.1 == k then (k, v) else p) else t ++ [(k, v)]

/-- insertion sort of keys by code point order: the `BTreeMap` iteration order -/
def leChars : List Char → List Char → Bool
  | [], _ => true
  | _ :: _, [] => false
  | a :: as, b :: bs => if a.toNat < b.toNat then true else if a.toNat > b.toNat then false else leChars as bs

def insertSorted (k : List Char) (v : Val) : List (List Char × Val) → List (List Char × Val)
  | [] => [(k, v)]
  | (k', v') :: rest =>
    if k == k' then (k, v) :: rest
    else if leChars k k' then (k, v) :: (k', v') :: rest
    else (k', v') :: insertSorted k v rest

def dictOf (kvs : List (List Char × Val)) : Tags :=
  Tags.ofList (kvs.foldl (fun acc p => insertSorted p.1 p.2 acc) [])

structure RowState where
  p : PS
  nestedStart : Bool
  nestedEnd : Bool

mutual
/-- `Parser::parse_value` -/
def parseValue : Nat → Nat → PS → Res (Val × PS)
  | 0, _, _ => .diverge
  | fuel + 1, depth, p =>
    if depth ≥ maxNestingDepth then .err
    else
      match p.tok with
      | .id _ => parseGrid fuel (depth + 1) p
      | .val v => .ok (v, p)
      | .ch c =>
        if c == 91 then parseList fuel (depth + 1) p
        else if c == 123 then parseDict fuel (depth + 1) p
        else if c == 60 then parseGrid fuel (depth + 1) p
        else .err
      | .none => .ok (.null, p)

/-- `parse_list` -/
def parseList : Nat → Nat → PS → Res (Val × PS)
  | 0, _, _ => .diverge
  | fuel + 1, depth, p =>
    if !p.isChar 91 then .err else listLoop fuel depth p false []

/-- the `while !done` loop of `parse_list` -/
def listLoop : Nat → Nat → PS → Bool → List Val → Res (Val × PS)
  | 0, _, _, _, _ => .diverge
  | fuel + 1, depth, p, expectComma, acc =>
    match p.read fuel with
    | .ok p1 =>
      if p1.isChar 93 then .ok (.list (Vals.ofList acc), p1)
      else if expectComma then
        if p1.isChar 44 then listLoop fuel depth p1 false acc else .err
      else
        match parseValue fuel depth p1 with
        | .ok (v, p2) =>
          if p2.isEof then .err          -- `break` with `done == false`
          else listLoop fuel depth p2 true (acc ++ [v])
        | .err => .err | .panic => .panic | .diverge => .diverge | .depth => .depth
    | .err => .err | .panic => .panic | .diverge => .diverge | .depth => .depth

/-- `parse_dict` -/
def parseDict : Nat → Nat → PS → Res (Val × PS)
  | 0, _, _ => .diverge
  | fuel + 1, depth, p =>
    if !p.isChar 123 then .err else
    match p.read fuel with
    | .ok p1 =>
      match dictParts fuel depth p1 false [] with
      | .ok (kvs, p2) => if p2.isChar 125 then .ok (.dict (dictOf kvs), p2) else .err
      | .err => .err | .panic => .panic | .diverge => .diverge | .depth => .depth
    | .err => .err | .panic => .panic | .diverge => .diverge | .depth => .depth

/-- `parse_dict_parts` (`commaSep = true`) and `parse_grid_column_meta` (`commaSep = false`:
a comma ends the tags instead of separating them) -/
def dictParts : Nat → Nat → PS → Bool → List (List Char × Val) → Res (List (List Char × Val) × PS)
  | 0, _, _, _, _ => .diverge
  | fuel + 1, depth, p, expectComma, acc =>
    if p.isEof then .ok (acc, p)
    else if expectComma && p.isChar 44 then
      match p.read fuel with
      | .ok p1 => dictParts fuel depth p1 false acc
      | .err => .err | .panic => .panic | .diverge => .diverge | .depth => .depth
    else
      match p.tok with
      | .id key =>
        match p.read fuel with
        | .ok p1 =>
          if p1.isEof then .ok (acc ++ [(key, .marker)], p1)
          else if p1.isChar 58 then
            match p1.read fuel with
            | .ok p2 =>
              match parseValue fuel depth p2 with
              | .ok (v, p3) =>
                match p3.read fuel with
                | .ok p4 => dictParts fuel depth p4 true (acc ++ [(key, v)])
                | .err => .err | .panic => .panic | .diverge => .diverge | .depth => .depth
              | .err => .err | .panic => .panic | .diverge => .diverge | .depth => .depth
            | .err => .err | .panic => .panic | .diverge => .diverge | .depth => .depth
          else dictParts fuel depth p1 true (acc ++ [(key, .marker)])
        | .err => .err | .panic => .panic | .diverge => .diverge | .depth => .depth
      | _ => .ok (acc, p)

/-- `parse_grid_column_meta` -/
def colMeta : Nat → Nat → PS → List (List Char × Val) → Res (List (List Char × Val) × PS)
  | 0, _, _, _ => .diverge
  | fuel + 1, depth, p, acc =>
    if p.isEof then .ok (acc, p)
    else if p.isChar 44 then .ok (acc, p)
    else
      match p.tok with
      | .id key =>
        match p.read fuel with
        | .ok p1 =>
          if p1.isEof then .ok (acc ++ [(key, .marker)], p1)
          else if p1.isChar 58 then
            match p1.read fuel with
            | .ok p2 =>
              match parseValue fuel depth p2 with
              | .ok (v, p3) =>
                match p3.read fuel with
                | .ok p4 => colMeta fuel depth p4 (acc ++ [(key, v)])
                | .err => .err | .panic => .panic | .diverge => .diverge | .depth => .depth
              | .err => .err | .panic => .panic | .diverge => .diverge | .depth => .depth
            | .err => .err | .panic => .panic | .diverge => .diverge | .depth => .depth
          else colMeta fuel depth p1 (acc ++ [(key, .marker)])
        | .err => .err | .panic => .panic | .diverge => .diverge | .depth => .depth
      | _ => .ok (acc, p)

/-- `parse_grid_columns` -/
def gridColumns : Nat → Nat → PS → List (List Char × OTags) → Res (List (List Char × OTags) × PS)
  | 0, _, _, _ => .diverge
  | fuel + 1, depth, p, acc =>
    match p.read fuel with
    | .ok p1 =>
      match p1.tok with
      | .id name =>
        match p1.read fuel with
        | .ok p2 =>
          if p2.isChar 10 then .ok (acc ++ [(name, .none)], p2)
          else if p2.isChar 44 then gridColumns fuel depth p2 (acc ++ [(name, .none)])
          else if p2.isEof then .err
          else
            match colMeta fuel depth p2 [] with
            | .ok (kvs, p3) =>
              if !kvs.isEmpty then
                let acc' := acc ++ [(name, OTags.some (dictOf kvs))]
                if p3.isChar 10 then .ok (acc', p3)
                else if !p3.isEof then
                  if p3.isChar 44 then gridColumns fuel depth p3 acc' else .err
                else .err
              else gridColumns fuel depth p3 acc      -- column silently dropped, loop continues
            | .err => .err | .panic => .panic | .diverge => .diverge | .depth => .depth
        | .err => .err | .panic => .panic | .diverge => .diverge | .depth => .depth
      | _ => .err
    | .err => .err | .panic => .panic | .diverge => .diverge | .depth => .depth

/-- `consume_end` -/
def consumeEnd : Nat → RowState → Res RowState
  | 0, _ => .diverge
  | fuel + 1, r =>
    let step1 : Res PS :=
      if r.p.isChar 10 then
        match consumeWhiteSpaces (fuel + 1) r.p.sc with
        | .ok sc' =>
          let p' : PS := { r.p with sc := sc' }
          if !p'.isEof then p'.read fuel else .ok p'
        | .err => .err | .panic => .panic | .diverge => .diverge | .depth => .depth
      else .ok r.p
    match step1 with
    | .ok p1 =>
      if r.nestedStart && p1.isChar 62 then
        match p1.read fuel with
        | .ok p2 => if p2.isChar 62 then .ok { r with p := p2, nestedEnd := true } else .err
        | .err => .err | .panic => .panic | .diverge => .diverge | .depth => .depth
      else .ok { r with p := p1 }
    | .err => .err | .panic => .panic | .diverge => .diverge | .depth => .depth

/-- the cell loop of `parse_row` -/
def rowLoop : Nat → Nat → PS → List (List Char) → Nat → List (List Char × Val) → Res (List (List Char × Val) × PS)
  | 0, _, _, _, _, _ => .diverge
  | fuel + 1, depth, p, cols, colNum, acc =>
    if p.isChar 44 then
      match p.read fuel with
      | .ok p1 => rowLoop fuel depth p1 cols (colNum + 1) acc
      | .err => .err | .panic => .panic | .diverge => .diverge | .depth => .depth
    else if p.isChar 10 then .ok (acc, p)
    else if p.tokNone then .err                     -- end of input before the row's newline
    else
      match parseValue fuel depth p with
      | .ok (v, p1) =>
        match cols[colNum]? with
        | some name =>
          match p1.read fuel with
          | .ok p2 => rowLoop fuel depth p2 cols colNum (acc ++ [(name, v)])
          | .err => .err | .panic => .panic | .diverge => .diverge | .depth => .depth
        | Option.none => .err
      | .err => .err | .panic => .panic | .diverge => .diverge | .depth => .depth

/-- `RowIterator::next`: `none` = iterator finished -/
def rowNext : Nat → Nat → RowState → List (List Char) → Res (Option Tags × RowState)
  | 0, _, _, _ => .diverge
  | fuel + 1, depth, r, cols =>
    if r.p.isEof || r.nestedEnd then .ok (Option.none, r)
    else
      match consumeEnd fuel r with
      | .ok r1 =>
        if r1.nestedEnd || r1.p.isEof then .ok (Option.none, r1)
        else
          match rowLoop fuel depth r1.p cols 0 [] with
          | .ok (kvs, p2) =>
            match consumeEnd fuel { r1 with p := p2 } with
            | .ok r3 => .ok (some (dictOf kvs), r3)
            | .err => .err | .panic => .panic | .diverge => .diverge | .depth => .depth
          | .err => .err | .panic => .panic | .diverge => .diverge | .depth => .depth
      | .err => .err | .panic => .panic | .diverge => .diverge | .depth => .depth

/-- collect the lazy iterator -/
def rowsLoop : Nat → Nat → RowState → List (List Char) → List Tags → Res (List Tags × RowState)
  | 0, _, _, _, _ => .diverge
  | fuel + 1, depth, r, cols, acc =>
    match rowNext fuel depth r cols with
    | .ok (Option.none, r1) => .ok (acc, r1)
    | .ok (some row, r1) => rowsLoop fuel depth r1 cols (acc ++ [row])
    | .err => .err | .panic => .panic | .diverge => .diverge | .depth => .depth

/-- `parse_grid_content`: header (nested start, ver, meta, columns) -/
def gridHeader : Nat → Nat → PS → Res ((OTags × List (List Char × OTags) × List Char) × RowState)
  | 0, _, _ => .diverge
  | fuel + 1, depth, p =>
    -- parse_nested_grid_start
    let start : Res (Bool × PS) :=
      if p.isChar 60 then
        match p.read fuel with
        | .ok p1 =>
          if !p1.isChar 60 then .err else
          match consumeWhiteSpaces (fuel + 1) p1.sc with
          | .ok sc' =>
            match PS.read fuel { p1 with sc := sc' } with
            | .ok p2 => .ok (true, p2)
            | .err => .err | .panic => .panic | .diverge => .diverge | .depth => .depth
          | .err => .err | .panic => .panic | .diverge => .diverge | .depth => .depth
        | .err => .err | .panic => .panic | .diverge => .diverge | .depth => .depth
      else .ok (false, p)
    match start with
    | .ok (nested, p0) =>
      -- parse_grid_ver
      match p0.tok with
      | .id name =>
        if name != ['v', 'e', 'r'] then .err else
        match p0.read fuel with
        | .ok p1 => if !p1.isChar 58 then .err else
          match p1.read fuel with
          | .ok p2 =>
            match p2.tok with
            | .val (.str ver) =>
              match p2.read fuel with
              | .ok p3 =>
                match dictParts fuel depth p3 false [] with
                | .ok (mkvs, p4) =>
                  if !p4.isChar 10 then .err else
                  match gridColumns fuel depth p4 [] with
                  | .ok (cols, p5) =>
                    if !p5.isChar 10 then .err else
                    match p5.read fuel with
                    | .ok p6 =>
                      let md : OTags := if mkvs.isEmpty then .none else .some (dictOf mkvs)
                      .ok ((md, cols, ver), { p := p6, nestedStart := nested, nestedEnd := false })
                    | .err => .err | .panic => .panic | .diverge => .diverge | .depth => .depth
                  | .err => .err | .panic => .panic | .diverge => .diverge | .depth => .depth
                | .err => .err | .panic => .panic | .diverge => .diverge | .depth => .depth
              | .err => .err | .panic => .panic | .diverge => .diverge | .depth => .depth
            | _ => .err
          | .err => .err | .panic => .panic | .diverge => .diverge | .depth => .depth
        | .err => .err | .panic => .panic | .diverge => .diverge | .depth => .depth
      | _ => .err
    | .err => .err | .panic => .panic | .diverge => .diverge | .depth => .depth

/-- `parse_grid` = header + collected rows -/
def parseGrid : Nat → Nat → PS → Res (Val × PS)
  | 0, _, _ => .diverge
  | fuel + 1, depth, p =>
    match gridHeader fuel depth p with
    | .ok ((md, cols, ver), r) =>
      match rowsLoop fuel depth r (cols.map (·.1)) [] with
      | .ok (rows, r1) => .ok (.grid md (Cols.ofList cols) (Rows.ofList rows) ver, r1.p)
      | .err => .err | .panic => .panic | .diverge => .diverge | .depth => .depth
    | .err => .err | .panic => .panic | .diverge => .diverge | .depth => .depth
end

/-- fuel that suffices for any input of this length (see `Hs.Thm.C03`) -/
def fuelFor (n : Nat) : Nat := 8 * n + 64

/-- `decode::from_str` -/
def fromBytes (bs : List UInt8) : Res Val :=
  let fuel := fuelFor bs.length
  match lexRead fuel (Scan.make bs) with
  | .ok p =>
    match parseValue fuel 0 p with
    | .ok (v, _) => .ok v
    | .err => .err | .panic => .panic | .diverge => .diverge | .depth => .depth
  | .err => .err | .panic => .panic | .diverge => .diverge | .depth => .depth

end Hs.Zinc
