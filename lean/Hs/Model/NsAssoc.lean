/-
  Hs.Model.NsAssoc — the part of src/haystack/defs/namespace.rs that reads MORE of a def than its `is` list:
  the indexes `choices`, `features`, `libs`, `feature_names`, `tag_on_names`, `tag_on_defs` built by
  `Namespace::make`; `associations` with `find_reciprocal_associations` and its three named uses `is`,
  `tag_on`, `tags`; `implementation`; the four root tests `fits_marker/val/choice/entity`;
  `has_relationship` with everything it reads from the namespace (the loop itself is Hs.Model.FilterLoops);
  and `Reflection::compute_entity_type` (`def_of_dict`).

  A def dict is reduced to its `def` symbol and, per tag, what these functions can tell apart: a Marker, a
  Symbol, a List (items: `some s` for a Symbol item, `none` for anything else), or any other value.
  The taxonomy (`is` graph) is the model of Hs.Model.Ns on the projection `RowX.toRow`; results are lists of
  def names, compared as sets wherever the code drains a `HashSet`.

  `protos` and `core_type_defs` are Hs.Model.NsProtos.
  Core-only imports (linked into `hsdriver`).
-/
import Hs.Model.Ns
import Hs.Model.FilterLoops
namespace Hs.NsA
open Hs Hs.Ns

/-- what a tag of a def dict holds, as far as the namespace code distinguishes values -/
inductive TagV where
  | marker
  | sym (s : Name)
  | list (items : List (Option Name))
  | other
deriving Repr, DecidableEq, Inhabited

/-- one row of the defs grid: the `def` tag when it is a Symbol, and every other tag (distinct keys; `is`
among them) -/
structure RowX where
  name : Option Name
  tags : List (Name × TagV)
deriving Repr, DecidableEq, Inhabited

/-- a def of the namespace -/
structure DefX where
  name : Name
  tags : List (Name × TagV)
deriving Repr, DecidableEq, Inhabited

def nDef : Name := ['d', 'e', 'f']
def nIs : Name := ['i', 's']
def nAssociation : Name := ['a', 's', 's', 'o', 'c', 'i', 'a', 't', 'i', 'o', 'n']
def nRelationship : Name := ['r', 'e', 'l', 'a', 't', 'i', 'o', 'n', 's', 'h', 'i', 'p']
def nComputed : Name := ['c', 'o', 'm', 'p', 'u', 't', 'e', 'd', 'F', 'r', 'o', 'm', 'R', 'e', 'c', 'i', 'p', 'r', 'o', 'c', 'a', 'l']
def nReciprocalOf : Name := ['r', 'e', 'c', 'i', 'p', 'r', 'o', 'c', 'a', 'l', 'O', 'f']
def nTransitive : Name := ['t', 'r', 'a', 'n', 's', 'i', 't', 'i', 'v', 'e']
def nMandatory : Name := ['m', 'a', 'n', 'd', 'a', 't', 'o', 'r', 'y']
def nTagOn : Name := ['t', 'a', 'g', 'O', 'n']
def nTags : Name := ['t', 'a', 'g', 's']
def nLib : Name := ['l', 'i', 'b']
def nMarker : Name := ['m', 'a', 'r', 'k', 'e', 'r']
def nVal : Name := ['v', 'a', 'l']
def nChoice : Name := ['c', 'h', 'o', 'i', 'c', 'e']
def nEntity : Name := ['e', 'n', 't', 'i', 't', 'y']

/-- the raw look-up in the tag list -/
def rawTag (tags : List (Name × TagV)) (k : Name) : Option TagV :=
  match tags.find? (fun kv => kv.1 = k) with
  | some kv => some kv.2
  | none => none

/-- `def.get(k)`: the `def` tag of a def of the namespace is its Symbol -/
def DefX.tag (d : DefX) (k : Name) : Option TagV :=
  if k = nDef then some (.sym d.name) else rawTag d.tags k

/-- `def.has(k)` -/
def DefX.has (d : DefX) (k : Name) : Bool := (d.tag k).isSome

/-- `def.has_marker(k)` -/
def DefX.hasMarker (d : DefX) (k : Name) : Bool := d.tag k = some .marker

/-- `def.get_list(k)` -/
def DefX.getList (d : DefX) (k : Name) : Option (List (Option Name)) :=
  match d.tag k with
  | some (.list l) => some l
  | _ => none

/-- `def.get_symbol(k)` -/
def DefX.getSymbol (d : DefX) (k : Name) : Option Name :=
  match d.tag k with
  | some (.sym s) => some s
  | _ => none

/-- the row as Hs.Model.Ns reads it -/
def RowX.toRow (r : RowX) : Row :=
  { name := r.name
    isRaw := match rawTag r.tags nIs with
      | some (.list l) => l
      | _ => [] }

def DefX.toDef (d : DefX) : Def :=
  { name := d.name
    isRaw := match rawTag d.tags nIs with
      | some (.list l) => l
      | _ => [] }

abbrev DefsX := List DefX

def getX (g : DefsX) (s : Name) : Option DefX := g.find? (fun d => d.name = s)

def upsertX (d : DefX) : DefsX → DefsX
  | [] => [d]
  | e :: g => if e.name = d.name then d :: g else e :: upsertX d g

def rowStepX (g : DefsX) (r : RowX) : DefsX :=
  match r.name with
  | some n => upsertX { name := n, tags := r.tags } g
  | none => g

def mkDefsX (rows : List RowX) : DefsX := rows.foldl rowStepX []

/-- the namespace: the taxonomy model and the full defs -/
structure NsX where
  ns : Ns
  xd : DefsX
deriving Repr, Inhabited

/-- `Namespace::make` -/
def makeX (rows : List RowX) : NsX :=
  { ns := make (rows.map RowX.toRow), xd := mkDefsX rows }

/-- the Symbol items of a list that name a def: `filter_map(|v| match v { Symbol(sym) => self.get(sym), _ => None })` -/
def definedSyms (g : Defs) (l : List (Option Name)) : List Name :=
  l.filterMap (fun it =>
    match it with
    | some s => if defined g s then some s else none
    | none => none)

/-! ### indexes built by `make` -/

/-- `is_choice` -/
def isChoiceX (d : DefX) : Bool :=
  match d.getList nIs with
  | some l => l.any (fun it => it = some nChoice)
  | none => false

/-- the `choices` map: every def that lists `choice` in `is` ↦ its direct subtypes -/
def choicesIndex (x : NsX) : List (Name × List Name) :=
  x.xd.filterMap (fun d => if isChoiceX d then some (d.name, subtypesOf x.ns d.name) else none)

/-- `features` -/
def features (x : NsX) : List Name := (x.xd.filter (fun d => isFeature d.name)).map (·.name)

/-- `conjuncts` -/
def conjuncts (x : NsX) : List Name := (x.xd.filter (fun d => isConjunct d.name)).map (·.name)

/-- `libs` -/
def libs (x : NsX) : List Name := subtypesOf x.ns nLib

/-- `str::split_once(':')`, first half -/
def beforeColon : List Char → List Char
  | [] => []
  | c :: cs => if c = ':' then [] else c :: beforeColon cs

/-- `feature_names` (a set) -/
def featureNames (x : NsX) : List Name :=
  extendSet [] ((x.xd.filter (fun d => isFeature d.name)).map (fun d => beforeColon d.name))

/-- the Symbol items of a list -/
def symItems (l : List (Option Name)) : List Name := l.filterMap id

/-- `tag_on_names` (a set): every Symbol item of every `tagOn` list -/
def tagOnNames (x : NsX) : List Name :=
  extendSet [] (x.xd.flatMap (fun d => match d.getList nTagOn with | some l => symItems l | none => []))

/-- `tag_on_defs`: def ↦ the defs its `tagOn` list names -/
def tagOnDefs (x : NsX) : List (Name × List Name) :=
  x.xd.filterMap (fun d => match d.getList nTagOn with
    | some l => some (d.name, definedSyms x.ns.defs l)
    | none => none)

/-! ### associations -/

/-- `association_def.get_list("is").map(|l| l.contains(^association))` is `Some(true)` -/
def isAssoc (d : DefX) : Bool :=
  match d.getList nIs with
  | some l => l.contains (some nAssociation)
  | none => false

/-- `find_reciprocal_associations`: every def whose `reciprocal_of` list names a def in the parent's
inheritance -/
def findReciprocal (fuel : Nat) (x : NsX) (parent r : Name) : Res (List Name) :=
  match inheritance fuel x.ns parent with
  | .ok inh =>
    .ok ((x.xd.filter (fun d =>
      match d.tag r with
      | some (.list l) => (definedSyms x.ns.defs l).any (fun t => inh.contains t)
      | _ => false)).map (·.name))
  | .err => .err | .panic => .panic | .diverge => .diverge | .depth => .depth

/-- `associations(parent, association)` -/
def associations (fuel : Nat) (x : NsX) (parent assoc : Name) : Res (List Name) :=
  match getX x.xd assoc with
  | none => .ok []
  | some ad =>
    if !isAssoc ad then .ok []
    else if !ad.has nComputed then
      match getX x.xd parent with
      | some pd =>
        match pd.getList assoc with
        | some l => .ok (definedSyms x.ns.defs l)
        | none => .ok []
      | none => .ok []
    else
      match ad.getSymbol nReciprocalOf with
      | some r => if defined x.ns.defs r then findReciprocal fuel x parent r else .ok []
      | none => .ok []

/-- `Namespace::is` -/
def assocIs (fuel : Nat) (x : NsX) (p : Name) : Res (List Name) := associations fuel x p nIs
/-- `Namespace::tag_on` -/
def assocTagOn (fuel : Nat) (x : NsX) (p : Name) : Res (List Name) := associations fuel x p nTagOn
/-- `Namespace::tags` -/
def assocTags (fuel : Nat) (x : NsX) (p : Name) : Res (List Name) := associations fuel x p nTags

/-! ### implementation, root tests -/

/-- the union of `all_supertypes_of` over a list of defs -/
def supersOfAll (fuel : Nat) (ns : Ns) : List Name → List Name → Res (List Name)
  | [], acc => .ok acc
  | d :: ds, acc =>
    match allSupertypesOf fuel ns d with
    | .ok all => supersOfAll fuel ns ds (extendSet acc all)
    | .err => .err | .panic => .panic | .diverge => .diverge | .depth => .depth

def hasMarkerX (g : DefsX) (n k : Name) : Bool :=
  match getX g n with
  | some d => d.hasMarker k
  | none => false

/-- `implementation(def)`: the parts of the name that are defs and not feature keys (in order), then - in the
order a hash set is drained - every supertype of theirs that is `mandatory` -/
def implementation (fuel : Nat) (x : NsX) (s : Name) : Res (List Name × List Name) :=
  let base := (conjunctsDefs x.ns s).filter (fun n => !isFeature n)
  match supersOfAll fuel x.ns base [] with
  | .ok sup => .ok (base, sup.filter (fun n => hasMarkerX x.xd n nMandatory))
  | .err => .err | .panic => .panic | .diverge => .diverge | .depth => .depth

/-- `fits_marker`, `fits_val`, `fits_choice`, `fits_entity` -/
def rootName : Nat → Name
  | 0 => nMarker
  | 1 => nVal
  | 2 => nChoice
  | _ => nEntity

def fitsRoot (fuel : Nat) (x : NsX) (which : Nat) (s : Name) : Res Bool := fits fuel x.ns s (rootName which)

/-! ### `compute_entity_type` -/

/-- the reflected defs whose inheritance contains `entity` (`types_with_inheritance`), each with its inheritance -/
def entityTypes (fuel : Nat) (ns : Ns) : List Name → Res (List (Name × List Name))
  | [] => .ok []
  | d :: ds =>
    match inheritance fuel ns d with
    | .ok inh =>
      match entityTypes fuel ns ds with
      | .ok rest => .ok (if inh.contains nEntity then (d, inh) :: rest else rest)
      | e => e
    | .err => .err | .panic => .panic | .diverge => .diverge | .depth => .depth

/-- the candidates for the entity type: with exactly one entity def, that def; otherwise every entity def that
is in no OTHER entity def's inheritance.  (The code takes the first candidate in the order of `Dict::cmp`.) -/
def entityCandidates (fuel : Nat) (ns : Ns) (reflected : List Name) : Res (List Name) :=
  if !defined ns.defs nEntity then .ok []
  else
    match entityTypes fuel ns (extendSet [] reflected) with
    | .ok tw =>
      if tw.length = 1 then .ok (tw.map (·.1))
      else .ok ((tw.filter (fun di => !tw.any (fun ej => ej.1 ≠ di.1 && ej.2.contains di.1))).map (·.1))
    | .err => .err | .panic => .panic | .diverge => .diverge | .depth => .depth

/-- `entity_type`: the first candidate in `order` (the def names in the order of `Dict::cmp` on their dicts);
`none` = the empty dict -/
def entityType (fuel : Nat) (ns : Ns) (reflected order : List Name) : Res (Option Name) :=
  match entityCandidates fuel ns reflected with
  | .ok cands => .ok (order.find? (fun n => cands.contains n))
  | .err => .err | .panic => .panic | .diverge => .diverge | .depth => .depth

/-! ### `has_relationship`: what the loop of Hs.Model.FilterLoops reads from the namespace -/

/-- one tag of a record: its name and, when its value is a Ref, the id -/
structure SubjTag where
  key : Name
  ref : Option FLoops.RefId
deriving Repr, Inhabited

/-- a record: the name the resolver knows it under, its `id` tag, its tags in key order -/
structure RecX where
  key : Option FLoops.RefId
  id : Option FLoops.RefId
  tags : List SubjTag
deriving Repr, Inhabited

/-- `fits` as a Boolean (`C13.fits_total`: with `fuelFor` it always answers) -/
def fitsB (fuel : Nat) (ns : Ns) (a b : Name) : Bool :=
  match fits fuel ns a b with
  | .ok v => v
  | _ => false

/-- `subject_def.and_then(|def| def.get(name))`, classified as the loop uses it -/
def defVal (fuel : Nat) (x : NsX) (term : Option Name) (tagKey name : Name) : FLoops.DefVal :=
  match getX x.xd tagKey with
  | none => .absent
  | some d =>
    match d.tag name with
    | none => .absent
    | some (.sym s) =>
      match term with
      | some t => .sym (fitsB fuel x.ns s t)
      | none => .sym true
    | some _ => .other

def viewRec (fuel : Nat) (x : NsX) (term : Option Name) (rel : Name) (recip : Option Name) (r : RecX) : FLoops.Rec :=
  { key := r.key, id := r.id,
    entries := r.tags.map (fun t =>
      { ref := t.ref,
        rel := defVal fuel x term t.key rel,
        recip := match recip with
          | some rc => defVal fuel x term t.key rc
          | none => .absent }) }

/-- `has_relationship(subject, rel_name, rel_term, ref_target, resolve)`; `loopFuel` bounds the `'search` loop -/
def hasRelationship (fuel loopFuel : Nat) (x : NsX) (recs : List RecX) (rel : Name) (term : Option Name)
    (target : Option FLoops.RefId) (subject : RecX) : Res Bool :=
  match getX x.xd rel with
  | none => .ok false
  | some rd =>
    match inheritance fuel x.ns rel with
    | .ok inh =>
      let recip := rd.getSymbol nReciprocalOf
      FLoops.hasRelationship (recs.map (viewRec fuel x term rel recip)) (inh.contains nRelationship)
        (rd.hasMarker nTransitive) recip.isSome target (viewRec fuel x term rel recip subject) loopFuel
    | .err => .err | .panic => .panic | .diverge => .diverge | .depth => .depth

end Hs.NsA
