/-
  Hs.Model.Kinds — kinds of a `Value`, `HaystackKind` conversions, typed accessors and
  `Grid::make_from_dicts` (C19).

  Everything that is a table in the Rust sources is NOT written here: the functions below consume the
  tables regenerated from /repo on every run (`Hs.Gen.ValueShape`, `Hs.Gen.Kinds`, `Hs.Gen.Accessors`).
  Hand-written are only (a) the name of the Rust variant each constructor of `Val` stands for, (b) the
  lookup discipline of a Rust `match` (first arm that matches), (c) the grid constructor.
  Core-only imports (linked into `hsdriver`).
-/
import Hs.Model.Val
import Hs.Model.Cmp
import Hs.Gen.ValueShape
import Hs.Gen.Kinds
import Hs.Gen.Accessors
namespace Hs

open Lean in
/-- `cl! "abc"` is the list literal `['a', 'b', 'c']` (expanded at elaboration time, so that tables of names
stay plain `List Char` data the kernel can decide on) -/
macro "cl!" s:str : term => do
  let cs : Array (TSyntax `term) := s.getString.toList.toArray.map fun c => ⟨(Syntax.mkCharLit c).raw⟩
  `([ $cs,* ])

/-- The variant of `enum Value` a constructor of the model stands for (the VX reader/writer of both
sides use the same pairing). -/
def Val.ctorName : Val → List Char
  | .null => cl! "Null" | .remove => cl! "Remove" | .marker => cl! "Marker"
  | .bool _ => cl! "Bool" | .na => cl! "Na" | .num _ => cl! "Number"
  | .str _ => cl! "Str" | .uri _ => cl! "Uri" | .ref _ _ => cl! "Ref"
  | .sym _ => cl! "Symbol" | .date _ => cl! "Date" | .time _ => cl! "Time"
  | .dateTime _ => cl! "DateTime" | .coord _ _ => cl! "Coord" | .xstr _ _ => cl! "XStr"
  | .list _ => cl! "List" | .dict _ => cl! "Dict" | .grid _ _ _ _ => cl! "Grid"

namespace Kinds
open Hs.Gen

/-- A Rust `match` over literal patterns: the first arm whose pattern equals the scrutinee. -/
def lookup {β : Type} (k : List Char) : List (List Char × β) → Option β
  | [] => none
  | (a, b) :: rest => if a = k then some b else lookup k rest

/-! ### the `is_*` variant tests -/

/-- `matches!(self, Value::V…)` -/
def matchesVariant (variant : List Char) (v : Val) : Bool := variant == v.ctorName

/-- the `i`-th variant test of `impl Value` (source order) applied to `v` -/
def isPred (i : Nat) (v : Val) : Bool :=
  match ValueShape.preds[i]? with
  | some p => matchesVariant p.2 v
  | none => false

/-- the variant test called `name` -/
def isPredNamed (name : List Char) (v : Val) : Option Bool :=
  (lookup name ValueShape.preds).map fun variant => matchesVariant variant v

def predBits (v : Val) : List Bool := ValueShape.preds.map fun p => matchesVariant p.2 v

/-! ### `HaystackKind` -/

/-- a kind is named by its variant of `enum HaystackKind` -/
abbrev Kind := List Char

/-- `k as u8` -/
def kindCode (k : Kind) : Option Nat := lookup k Kinds.kinds

def firstArm (n : Nat) : List (List Char × List Char) → Option Kind
  | [] => none
  | (a, b) :: rest => if kindCode a = some n then some b else firstArm n rest

/-- `HaystackKind::try_from(n: u8)`: first arm `v if v == HaystackKind::A as u8 => Ok(B)`; `none` = `Err` -/
def kindOfCode (n : Nat) : Option Kind := firstArm n Kinds.fromU8

/-- `HaystackKind::from(&value)` -/
def kindOfVal (v : Val) : Option Kind := lookup v.ctorName Kinds.ofValue

/-- `<&'static str>::from(kind)` -/
def kindName (k : Kind) : Option (List Char) := lookup k Kinds.toStr

/-- `HaystackKind::try_from(name: &str)`; `none` = `Err` -/
def kindOfName (s : List Char) : Option Kind := lookup s Kinds.fromStr

/-- `format!("{kind}")` -/
def kindDisplay (k : Kind) : Option (List Char) := lookup k Kinds.display

/-! ### typed conversions and dict getters -/

def lookup3 (k : List Char) : List (List Char × List Char × List Char) → Option (List Char × List Char)
  | [] => none
  | (a, b, c) :: rest => if a = k then some (b, c) else lookup3 k rest

/-- `T::try_from(&value).is_ok()` for the target type called `target` (`none`: no such impl) -/
def tryFromOk (target : List Char) (v : Val) : Option Bool :=
  (lookup3 target Accessors.tryFroms).map fun e => matchesVariant e.1 v

/-- `dict.get_x(key).is_some()` / `dict.has_x(key)` for the `HaystackDict` method called `getter`:
`dict_get!`/`dict_has!` look the key up and test the variant of what they find -/
def getterOk (getter : List Char) (d : Tags) (key : List Char) : Option Bool :=
  (lookup3 getter Accessors.getters).map fun e =>
    match d.get? key with
    | some v => matchesVariant e.2 v
    | none => false

/-! ### `Grid::make_from_dicts` -/

/-- insert into a strictly ascending list of names (no effect when already present) -/
def insertKey (k : List Char) : List (List Char) → List (List Char)
  | [] => [k]
  | x :: xs =>
    match cmpChars k x with
    | .lt => k :: x :: xs
    | .eq => x :: xs
    | .gt => x :: insertKey k xs

/-- `HashSet` of names, then `sort_by(|a, b| a.name.cmp(&b.name))`: the distinct names in `String` order -/
def sortedUnion (ks : List (List Char)) : List (List Char) := ks.foldr insertKey []

/-- all keys of all rows, in iteration order -/
def rowKeys : List Tags → List (List Char)
  | [] => []
  | r :: rs => r.keys ++ rowKeys rs

def gridColumns (rows : List Tags) : List (List Char) := sortedUnion (rowKeys rows)

/-- `GRID_FORMAT_VERSION` -/
def gridVer : List Char := ['3', '.', '0']

def colsOfNames : List (List Char) → Cols
  | [] => .nil
  | n :: ns => .cons n .none (colsOfNames ns)

/-- `Grid::make_from_dicts(rows)` -/
def makeFromDicts (rows : List Tags) : Val :=
  .grid .none (colsOfNames (gridColumns rows)) (Rows.ofList rows) gridVer

/-- `Grid::make_from_dicts_with_meta(rows, meta)` -/
def makeFromDictsWithMeta (rows : List Tags) (md : Tags) : Val :=
  .grid (.some md) (colsOfNames (gridColumns rows)) (Rows.ofList rows) gridVer

end Kinds
end Hs
