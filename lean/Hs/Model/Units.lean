/-
  Hs.Model.Units — unit lookup and the Zinc lexing rules a Number's unit goes through (C15).

  The unit database, the `UNITS` map and the byte classes of zinc/decode/scalar/number.rs are NOT
  written here: they are regenerated from /repo on every run (`Hs.Gen.Units`).  Hand-written, in the
  code-mirroring style: `HashMap` lookup (a later entry with the same key replaces an earlier one),
  `Unit::name/symbol`, and the part of `parse_number` that decides where the decimal ends, whether an
  exponent follows and which bytes form the unit.  Wire text is `List UInt8`.
  Core-only imports (linked into `hsdriver`).
-/
import Hs.Model.Val
import Hs.Gen.Units
namespace Hs.Units
open Hs Hs.Gen.Units

/-! ### the database -/

/-- `Unit::name()` = `ids.first().map_or("", …)` -/
def name (u : Row) : List Char := u.ids.head?.getD []

/-- `Unit::symbol()` = `ids.last().map_or("", …)` -/
def symbol (u : Row) : List Char := u.ids.getLast?.getD []

/-- lookup in a `HashMap` collected from a list of pairs: a later pair with the same key wins -/
def findIdx (s : List Char) : List (List Char × Nat) → Option Nat
  | [] => none
  | (k, i) :: rest =>
    match findIdx s rest with
    | some j => some j
    | none => if k = s then some i else none

/-- `units::get_unit(s)` = `UNITS.get(s).copied()`; the answer is the static the entry points to -/
def getUnitIdx (s : List Char) : Option Nat := findIdx s entries
def getUnit (s : List Char) : Option Row := (getUnitIdx s).bind fun i => units[i]?

/-! ### UTF-8 -/

/-- the bytes of a Rust `String` -/
def utf8 (cs : List Char) : List UInt8 := cs.flatMap String.utf8EncodeChar

/-- what `impl ToZinc for Number` / `Display for Unit` write for the unit -/
def symbolBytes (u : Row) : List UInt8 := utf8 (symbol u)

/-- `get_unit(String::from_utf8_lossy(bytes))`: an id is found iff its UTF-8 bytes are `bytes` (lossy
decoding of invalid UTF-8 produces U+FFFD, which no id contains — table theorem) -/
def findIdxBytes (bs : List UInt8) : List (List Char × Nat) → Option Nat
  | [] => none
  | (k, i) :: rest =>
    match findIdxBytes bs rest with
    | some j => some j
    | none => if utf8 k = bs then some i else none

def getUnitOfBytes (bs : List UInt8) : Option Row := (findIdxBytes bs entries).bind fun i => units[i]?

/-! ### byte classes (scanner.rs; the `is_any_of` sets and the bound come from the generated file) -/

def isLower (b : UInt8) : Bool := decide (97 ≤ b) && decide (b ≤ 122)
def isUpper (b : UInt8) : Bool := decide (65 ≤ b) && decide (b ≤ 90)
def isAlpha (b : UInt8) : Bool := isLower b || isUpper b
def isDigit (b : UInt8) : Bool := decide (48 ≤ b) && decide (b ≤ 57)

/-- `is_unit_char`: `is_alpha() || is_any_of("$/%_") || cur > 128` -/
def isUnitChar (b : UInt8) : Bool := isAlpha b || unitAnyOf.contains b || decide (b > unitAbove)

/-- loop condition of `parse_decimal`: `is_digit() || is_any_of("_.-")` -/
def isDecChar (b : UInt8) : Bool := isDigit b || decAnyOf.contains b

/-! ### the lexing rules of `parse_number` -/

/-- `parse_unit`: the longest run of unit bytes -/
def parseUnit : List UInt8 → List UInt8 × List UInt8
  | [] => ([], [])
  | b :: rest =>
    if isUnitChar b then
      let r := parseUnit rest
      (b :: r.1, r.2)
    else ([], b :: rest)

/-- the scan of `parse_decimal`: the longest run of decimal bytes, `_` dropped from the collected text -/
def scanDecimal : List UInt8 → List UInt8 × List UInt8
  | [] => ([], [])
  | b :: rest =>
    if isDecChar b then
      let r := scanDecimal rest
      (if b = decSkip then r.1 else b :: r.1, r.2)
    else ([], b :: rest)

/-- The exponent rule: after the decimal, `e`/`E` is read as an exponent when the byte after it is `+`, `-`
or a digit (`scanner.peek()?` — an error at end of input); `parse_exponent` then takes an optional sign and
a decimal.  Result: the text `e{sign}{digits}` as collected (Rust re-prints the digits through `f64`) and
the remaining input. -/
def lexExponent : List UInt8 → Res (Option (List UInt8) × List UInt8)
  | [] => .ok (none, [])
  | b :: r =>
    if expLetters.contains b then
      match r with
      | [] => .err
      | c :: r' =>
        if expNext.contains c || isDigit c then
          if c = 43 || c = 45 then
            let d := scanDecimal r'
            .ok (some (101 :: c :: d.1), d.2)
          else
            let d := scanDecimal (c :: r')
            .ok (some (101 :: d.1), d.2)
        else .ok (none, b :: r)
    else .ok (none, b :: r)

/-- how `parse_number` splits its input -/
structure NumLex where
  dec  : List UInt8                 -- text handed to `str::parse::<f64>` by `parse_decimal`
  exp  : Option (List UInt8)        -- `e{sign}{digits}`
  unit : Option (List UInt8)        -- bytes collected by `parse_unit`
  rest : List UInt8                 -- unread input
deriving Repr, DecidableEq

def lexNumberText (t : List UInt8) : Res NumLex :=
  let d := scanDecimal t
  match lexExponent d.2 with
  | .ok (exp, r2) =>
    match r2 with
    | [] => .ok ⟨d.1, exp, none, []⟩
    | b :: r3 =>
      if isUnitChar b then
        let u := parseUnit (b :: r3)
        .ok ⟨d.1, exp, some u.1, u.2⟩
      else .ok ⟨d.1, exp, none, b :: r3⟩
  | _ => .err

/-- `parse_number` up to the two `str::parse::<f64>` calls: the lexemes and the resolved unit
(`Err` when the unit text is no id of the database) -/
def lexNumber (t : List UInt8) : Res (NumLex × Option Row) :=
  match lexNumberText t with
  | .ok l =>
    match l.unit with
    | none => .ok (l, none)
    | some bs =>
      match getUnitOfBytes bs with
      | some u => .ok (l, some u)
      | none => .err
  | _ => .err

/-! ### predicates used to state the framing of a number text -/

/-- the unread input is empty or starts with a byte that cannot continue a unit -/
def Delim (rest : List UInt8) : Prop := rest = [] ∨ ∃ b r, rest = b :: r ∧ isUnitChar b = false

/-- would be read as an exponent (or, for a lone `e`/`E`, decided by whatever follows) -/
def expPrefix : List UInt8 → Bool
  | b :: c :: _ => expLetters.contains b && (expNext.contains c || isDigit c)
  | [b] => expLetters.contains b
  | [] => false

/-- a decimal text as Rust prints a finite `f64` (digits, `-`, `.`): every byte continues the decimal scan and
none is the dropped `_` -/
def DecimalText (d : List UInt8) : Prop := ∀ b ∈ d, isDecChar b = true ∧ b ≠ decSkip

instance (d : List UInt8) : Decidable (DecimalText d) := by unfold DecimalText; infer_instance

/-! ### encode / decode of a Number with a unit, parametric in Rust's `f64` printing and parsing -/

/-- `f64` Display / FromStr of std (trusted base): finite values print as a decimal text and parse back -/
structure FloatIO (F : Type) where
  fmt : F → List UInt8
  parse : List UInt8 → Option F
  parse_fmt : ∀ x, parse (fmt x) = some x
  fmt_shape : ∀ x, DecimalText (fmt x)

/-- `impl ToZinc for Number`, finite value with a unit: `{value}{unit}` -/
def encodeNumber {F : Type} (P : FloatIO F) (x : F) (u : Row) : List UInt8 := P.fmt x ++ symbolBytes u

/-- `parse_number`: `decimal = dec.parse()`, then `format!("{decimal}{exp}").parse()`, with the resolved unit -/
def decodeNumber {F : Type} (P : FloatIO F) (t : List UInt8) : Option (F × Option Row) :=
  match lexNumber t with
  | .ok (l, u) =>
    match P.parse l.dec with
    | some d => (P.parse (P.fmt d ++ l.exp.getD [])).map fun x => (x, u)
    | none => none
  | _ => none

end Hs.Units
