/-
  Hs.Model.Val — the Haystack value space as modelled for every property.

  Rust `String` is `List Char` (Lean `Char` = Unicode scalar value = Rust `char`).
  `f64` payloads travel as their IEEE-754 bit pattern plus the text Rust's `Display`
  prints for them (std's float formatting is outside libhaystack: trusted base).
  chrono values travel as their fields plus the text chrono prints for them.
  Core-only imports: this file is linked into the `hsdriver` executable.
-/
namespace Hs

/-- An `f64`: bit pattern (`< 2^64`) and Rust `Display` text. -/
structure Flt where
  bits : Nat
  txt  : List Char
deriving Repr, DecidableEq, Inhabited

/-- `Number { value, unit }`; the unit is identified by its symbol (last id). -/
structure Num where
  v    : Flt
  unit : Option (List Char)
deriving Repr, DecidableEq, Inhabited

/-- `Date(NaiveDate)`: proleptic Gregorian fields + chrono `Debug` text. -/
structure Date where
  y   : Int
  m   : Nat
  d   : Nat
  txt : List Char
deriving Repr, DecidableEq, Inhabited

/-- `Time(NaiveTime)`: fields (ns may reach 1 999 999 999 on a leap second) + chrono `Debug` text. -/
structure Time where
  h   : Nat
  mi  : Nat
  s   : Nat
  ns  : Nat
  txt : List Char
deriving Repr, DecidableEq, Inhabited

/-- `DateTime(chrono::DateTime<Tz>)`: the instant (seconds since the epoch + nanos), the local
offset in seconds at that instant, the zone's short (city) name, the full IANA id and the
RFC 3339 `AutoSi` text chrono prints. -/
structure DateTime where
  secs  : Int
  ns    : Nat
  off   : Int
  zone  : List Char
  tzid  : List Char
  txt   : List Char
deriving Repr, DecidableEq, Inhabited

mutual
inductive Val where
  | null | remove | marker
  | bool (b : Bool)
  | na
  | num (n : Num)
  | str (s : List Char)
  | uri (s : List Char)
  | ref (id : List Char) (dis : Option (List Char))
  | sym (s : List Char)
  | date (d : Date)
  | time (t : Time)
  | dateTime (t : DateTime)
  | coord (lat lng : Flt)
  | xstr (ty v : List Char)
  | list (xs : Vals)
  | dict (d : Tags)
  | grid (md : OTags) (cols : Cols) (rows : Rows) (ver : List Char)
inductive Vals where
  | nil
  | cons (v : Val) (vs : Vals)
/-- A `Dict` (`BTreeMap<String, Value>`): entries in key order.  Sortedness is the separate
predicate `Tags.Sorted`. -/
inductive Tags where
  | nil
  | cons (k : List Char) (v : Val) (t : Tags)
/-- `Option<Dict>` (hand-rolled so that the family stays plainly mutual, not nested) -/
inductive OTags where
  | none
  | some (t : Tags)
inductive Cols where
  | nil
  | cons (name : List Char) (md : OTags) (c : Cols)
inductive Rows where
  | nil
  | cons (r : Tags) (rs : Rows)
end

instance : Inhabited Val := ⟨.null⟩
instance : Inhabited Vals := ⟨.nil⟩
instance : Inhabited Tags := ⟨.nil⟩
instance : Inhabited Cols := ⟨.nil⟩
instance : Inhabited OTags := ⟨.none⟩
instance : Inhabited Rows := ⟨.nil⟩

def Vals.toList : Vals → List Val
  | .nil => []
  | .cons v vs => v :: vs.toList

def Vals.ofList : List Val → Vals
  | [] => .nil
  | v :: vs => .cons v (Vals.ofList vs)

def Tags.toList : Tags → List (List Char × Val)
  | .nil => []
  | .cons k v t => (k, v) :: t.toList

def Tags.ofList : List (List Char × Val) → Tags
  | [] => .nil
  | (k, v) :: t => .cons k v (Tags.ofList t)

def Tags.keys : Tags → List (List Char)
  | .nil => []
  | .cons k _ t => k :: t.keys

def Tags.vals : Tags → Vals
  | .nil => .nil
  | .cons _ v t => .cons v t.vals

def Tags.length : Tags → Nat
  | .nil => 0
  | .cons _ _ t => t.length + 1

def Tags.isEmpty : Tags → Bool
  | .nil => true
  | _ => false

def Tags.get? : Tags → List Char → Option Val
  | .nil, _ => none
  | .cons k v t, key => if k = key then some v else t.get? key

def Vals.length : Vals → Nat
  | .nil => 0
  | .cons _ vs => vs.length + 1

def OTags.toOption : OTags → Option Tags
  | .none => .none
  | .some t => .some t

def OTags.ofOption : Option Tags → OTags
  | .none => .none
  | .some t => .some t

def Cols.toList : Cols → List (List Char × OTags)
  | .nil => []
  | .cons n md c => (n, md) :: c.toList

def Cols.ofList : List (List Char × OTags) → Cols
  | [] => .nil
  | (n, md) :: c => .cons n md (Cols.ofList c)

def Cols.names : Cols → List (List Char)
  | .nil => []
  | .cons n _ c => n :: c.names

def Cols.length : Cols → Nat
  | .nil => 0
  | .cons _ _ c => c.length + 1

def Rows.toList : Rows → List Tags
  | .nil => []
  | .cons r rs => r :: rs.toList

def Rows.ofList : List Tags → Rows
  | [] => .nil
  | r :: rs => .cons r (Rows.ofList rs)

def Rows.length : Rows → Nat
  | .nil => 0
  | .cons _ rs => rs.length + 1

/-- The kind index = position of the variant in `enum Value` (checked against the translated
variant list in `Hs.Gen.ValueShape`). -/
def Val.kindIdx : Val → Nat
  | .null => 0 | .remove => 1 | .marker => 2 | .bool _ => 3 | .na => 4 | .num _ => 5
  | .str _ => 6 | .uri _ => 7 | .ref _ _ => 8 | .sym _ => 9 | .date _ => 10 | .time _ => 11
  | .dateTime _ => 12 | .coord _ _ => 13 | .xstr _ _ => 14 | .list _ => 15 | .dict _ => 16
  | .grid _ _ _ _ => 17

/-- Outcome of a modelled Rust function: value, `Err`, a panic, non-termination (fuel ran out),
or recursion deeper than the stack budget. -/
inductive Res (α : Type) where
  | ok (a : α)
  | err
  | panic
  | diverge
  | depth
deriving Repr, DecidableEq, Inhabited

namespace Res
@[inline] def bind {α β} (r : Res α) (f : α → Res β) : Res β :=
  match r with
  | .ok a => f a
  | .err => .err
  | .panic => .panic
  | .diverge => .diverge
  | .depth => .depth
@[inline] def map {α β} (f : α → β) (r : Res α) : Res β := r.bind (fun a => .ok (f a))
instance : Monad Res where
  pure := .ok
  bind := bind
def isOk {α} : Res α → Bool | .ok _ => true | _ => false
def tag {α} : Res α → String
  | .ok _ => "ok" | .err => "err" | .panic => "panic" | .diverge => "diverge" | .depth => "depth"
end Res

end Hs
