/-
  Hs.Model.ZincLex — model of the Zinc scalar readers (decode/scalar/*.rs, decode/id.rs) and of
  the lexer (decode/lexer.rs), one byte at a time over `Hs.Scan`.

  What Rust std / chrono compute is kept lexical (trusted base, evaluated by `hsverif canon`):
  * a decoded Number carries the text handed to `str::parse::<f64>` (`Flt.bits = lexBits`);
  * a decoded DateTime carries the text span of the token (`DateTime.tzid = []`); how that
    text denotes an instant in a zone is C06's subject.
  Calendar validity of dates/times (chrono's `from_str` on `dddd-dd-dd` / `dd:dd:dd[.d+]`) is modelled.
-/
import Hs.Model.Scan
import Hs.Gen.UnitIds
import Hs.Gen.TzNames
namespace Hs.Zinc
open Hs Hs.Scan

/-- marker in `Flt.bits`: the value is the lexeme in `txt`, not an evaluated double -/
def lexBits : Nat := 2 ^ 64

def chr (b : UInt8) : Char := Char.ofNat b.toNat
def asciiChars (bs : List UInt8) : List Char := bs.map chr

inductive Tok where
  | none
  | id (s : List Char)
  | val (v : Val)
  | ch (c : UInt8)
deriving Inhabited

/-! ### ids and literals -/

/-- loop of `parse_literal` -/
def literalLoop : Nat → Scan → List UInt8 → Res (List UInt8 × Scan)
  | 0, _, _ => .diverge
  | fuel + 1, s, acc =>
    if !s.eof && (s.isAlphaNum || s.cur == 95) then literalLoop fuel s.advance (acc ++ [s.cur])
    else .ok (acc, s)

def parseLiteral (fuel : Nat) (s : Scan) : Res (List Char × Scan) :=
  match literalLoop fuel s [] with
  | .ok (acc, s') => if acc.isEmpty then .err else .ok (lossy acc, s')
  | .err => .err | .panic => .panic | .diverge => .diverge | .depth => .depth

def parseId (fuel : Nat) (s : Scan) : Res (List Char × Scan) :=
  if !s.isLower then .err else parseLiteral fuel s

/-! ### Str -/

def hexVal (b : UInt8) : Nat :=
  if isDigitB b then b.toNat - 48 else if 97 ≤ b && b ≤ 102 then b.toNat - 87 else b.toNat - 55

/-- `parse_str_unicode_escape` (cursor on `u`): the UTF-8 bytes of the decoded unit -/
def parseUnicodeEscape (s : Scan) : Res (List UInt8 × Scan) :=
  if s.cur != 117 then .err else
  match s.readQ with
  | .ok s1 => if !s1.isHexDigit then .err else
    match s1.readQ with
    | .ok s2 => if !s2.isHexDigit then .err else
      match s2.readQ with
      | .ok s3 => if !s3.isHexDigit then .err else
        match s3.readQ with
        | .ok s4 => if !s4.isHexDigit then .err else
          let u := hexVal s1.cur * 4096 + hexVal s2.cur * 256 + hexVal s3.cur * 16 + hexVal s4.cur
          -- `String::from_utf16_lossy(&[u])`: a lone surrogate becomes U+FFFD
          let c := if 0xD800 ≤ u && u ≤ 0xDFFF then Char.ofNat 0xFFFD else Char.ofNat u
          .ok (encChar c, s4)
        | _ => .err
      | _ => .err
    | _ => .err
  | _ => .err

/-- `parse_str_escape` (cursor on the backslash) -/
def parseStrEscape (s : Scan) : Res (List UInt8 × Scan) :=
  match s.readQ with
  | .ok s1 =>
    let c := s1.cur
    if c == 98 then .ok ([8], s1)            -- \b
    else if c == 102 then .ok ([12], s1)     -- \f
    else if c == 110 then .ok ([10], s1)     -- \n
    else if c == 114 then .ok ([13], s1)     -- \r
    else if c == 116 then .ok ([9], s1)      -- \t
    else if c == 34 then .ok ([34], s1)      -- \"
    else if c == 36 then .ok ([36], s1)      -- \$
    else if c == 39 then .ok ([39], s1)      -- \'
    else if c == 96 then .ok ([96], s1)      -- \`
    else if c == 92 then .ok ([92], s1)      -- \\
    else if c == 117 then parseUnicodeEscape s1
    else .err
  | _ => .err

/-- body loop of `parse_str` -/
def strLoop : Nat → Scan → List UInt8 → Res (List UInt8 × Scan)
  | 0, _, _ => .diverge
  | fuel + 1, s, acc =>
    if s.cur == 34 then .ok (acc, s)
    else if s.eof then .err
    else if s.cur == 92 then
      match parseStrEscape s with
      | .ok (bs, s') => strLoop fuel s'.advance (acc ++ bs)
      | .err => .err | .panic => .panic | .diverge => .diverge | .depth => .depth
    else strLoop fuel s.advance (acc ++ [s.cur])

def parseStr (fuel : Nat) (s : Scan) : Res (List Char × Scan) :=
  let start := s.pos
  if s.cur != 34 then .err else
  match strLoop fuel s.advance [] with
  | .ok (acc, s') => if start == s'.pos then .err else .ok (lossy acc, s'.advance)
  | .err => .err | .panic => .panic | .diverge => .diverge | .depth => .depth

/-! ### Uri -/

def uriLoop : Nat → Scan → List UInt8 → Res (List UInt8 × Scan)
  | 0, _, _ => .diverge
  | fuel + 1, s, acc =>
    if s.cur == 96 then .ok (acc, s)
    else if s.eof then .err
    else if s.cur == 92 then
      match s.peek with
      | (Option.none, _) => .err
      | (some nx, s1) =>
        if nx == 58 || nx == 47 || nx == 63 || nx == 35 then          -- : / ? #
          match s1.readQ with
          | .ok s2 => uriLoop fuel s2.advance (acc ++ [s.cur, nx])
          | _ => .err
        else if nx == 91 || nx == 93 || nx == 64 || nx == 96 || nx == 38 || nx == 61 || nx == 59
            || nx == 92 then                                          -- [ ] @ ` & = ; \
          match s1.readQ with
          | .ok s2 => uriLoop fuel s2.advance (acc ++ [nx])
          | _ => .err
        else
          match s1.readQ with
          | .ok s2 =>
            match parseUnicodeEscape s2 with
            | .ok (bs, s3) => uriLoop fuel s3.advance (acc ++ bs)
            | .err => .err | .panic => .panic | .diverge => .diverge | .depth => .depth
          | _ => .err
    else uriLoop fuel s.advance (acc ++ [s.cur])

def parseUri (fuel : Nat) (s : Scan) : Res (List Char × Scan) :=
  let start := s.pos
  if s.cur != 96 then .err else
  match uriLoop fuel s.advance [] with
  | .ok (acc, s') => if start == s'.pos then .err else .ok (lossy acc, s'.advance)
  | .err => .err | .panic => .panic | .diverge => .diverge | .depth => .depth

/-! ### Ref, Symbol -/

/-- `~ : - . _` -/
def isRefPunct (b : UInt8) : Bool := b == 126 || b == 58 || b == 45 || b == 46 || b == 95

def refLoop : Nat → Scan → List UInt8 → Res (List UInt8 × Scan)
  | 0, _, _ => .diverge
  | fuel + 1, s, acc =>
    if !s.eof && (s.isAlphaNum || isRefPunct s.cur) then refLoop fuel s.advance (acc ++ [s.cur])
    else .ok (acc, s)

def parseRef (fuel : Nat) (s : Scan) : Res (Val × Scan) :=
  if s.cur != 64 then .err else
  match refLoop fuel s.advance [] with
  | .ok (acc, s1) =>
    if acc.isEmpty then .err
    else if !s1.eof && s1.cur == 32 then
      match s1.peek with
      | (Option.none, s2) => .ok (.ref (lossy acc) Option.none, s2)   -- `safe_peek()` at the end of the input
      | (some nx, s2) =>
        if nx == 34 then
          match s2.readQ with
          | .ok s3 =>
            match parseStr fuel s3 with
            | .ok (dis, s4) => .ok (.ref (lossy acc) (some dis), s4)
            | .err => .err | .panic => .panic | .diverge => .diverge | .depth => .depth
          | _ => .err
        else .ok (.ref (lossy acc) Option.none, s2)
    else .ok (.ref (lossy acc) Option.none, s1)
  | .err => .err | .panic => .panic | .diverge => .diverge | .depth => .depth

def parseSymbol (fuel : Nat) (s : Scan) : Res (Val × Scan) :=
  if s.cur != 94 then .err else
  let s0 := s.advance
  if !s0.isLower then .err else
  match refLoop fuel s0 [] with
  | .ok (acc, s1) => if acc.isEmpty then .err else .ok (.sym (lossy acc), s1)
  | .err => .err | .panic => .panic | .diverge => .diverge | .depth => .depth

/-! ### Numbers -/

/-- loop of `parse_decimal`: digits and `_ . -`, dropping `_` -/
def decimalLoop : Nat → Scan → List UInt8 → Res (List UInt8 × Scan)
  | 0, _, _ => .diverge
  | fuel + 1, s, acc =>
    if !s.eof && (s.isDigit || s.cur == 95 || s.cur == 46 || s.cur == 45) then
      decimalLoop fuel s.advance (if s.cur != 95 then acc ++ [s.cur] else acc)
    else .ok (acc, s)

def allDigits (bs : List UInt8) : Bool := bs.all isDigitB

/-- Rust's `f64::from_str` on a text over `[0-9.-]`: `-?(d+ | d+.d* | .d+)` -/
def validDecimal (bs : List UInt8) : Bool :=
  let body := match bs with
    | 45 :: r => r
    | r => r
  let ip := body.takeWhile isDigitB
  let rest := body.dropWhile isDigitB
  match rest with
  | [] => !ip.isEmpty
  | 46 :: fr => allDigits fr && (!ip.isEmpty || !fr.isEmpty)
  | _ => false

def parseDecimal (fuel : Nat) (s : Scan) : Res (List UInt8 × Scan) :=
  match decimalLoop fuel s [] with
  | .ok (acc, s') => if validDecimal acc then .ok (acc, s') else .err
  | .err => .err | .panic => .panic | .diverge => .diverge | .depth => .depth

/-- does the Display text of the parsed exponent look like an integer?  (`5`, `5.`, `5.00`, `.0`) -/
def integralDecimal (bs : List UInt8) : Bool :=
  let body := match bs with
    | 45 :: r => r
    | r => r
  let rest := body.dropWhile isDigitB
  match rest with
  | [] => true
  | 46 :: fr => fr.all (· == 48)
  | _ => false

/-- `is_unit_char` -/
def isUnitChar (s : Scan) : Bool :=
  s.isAlpha || s.cur == 36 || s.cur == 47 || s.cur == 37 || s.cur == 95 || s.cur > 128

def unitLoop : Nat → Scan → List UInt8 → Res (List UInt8 × Scan)
  | 0, _, _ => .diverge
  | fuel + 1, s, acc =>
    if !s.eof && isUnitChar s then unitLoop fuel s.advance (acc ++ [s.cur])
    else .ok (acc, s)

/-- `get_unit(id).map(|u| u.symbol())` over the translated `UNITS` table -/
def unitSymbol (id : List Char) : Option (List Char) :=
  let key := String.ofList id
  match Hs.Gen.unitIds.find? (fun p => p.1 == key) with
  | some p => some p.2.toList
  | Option.none => Option.none

/-- `parse_exponent` (cursor on `e`/`E`): the text `e{sign}{exponent}` where `exponent` stands for
the Display of the parsed decimal; returns (sign bytes, exponent lexeme) -/
def parseExponent (fuel : Nat) (s : Scan) : Res ((List UInt8 × List UInt8) × Scan) :=
  if !(s.cur == 101 || s.cur == 69) then .err else
  let s1 := s.advance
  if s1.cur == 43 || s1.cur == 45 then
    match s1.readQ with
    | .ok s2 =>
      match parseDecimal fuel s2 with
      | .ok (ex, s3) => .ok (([s1.cur], ex), s3)
      | .err => .err | .panic => .panic | .diverge => .diverge | .depth => .depth
    | _ => .err
  else
    match parseDecimal fuel s1 with
    | .ok (ex, s3) => .ok (([], ex), s3)
    | .err => .err | .panic => .panic | .diverge => .diverge | .depth => .depth

def natOfDigits (bs : List UInt8) : Nat := bs.foldl (fun a b => a * 10 + (b.toNat - 48)) 0

/-- Is the double nearest to `n / 10^k` a finite integer?  Rust's `f64::from_str` is correctly rounded (round
to nearest, ties to even - documented by std, trusted), so this is exact arithmetic: with `e` the binary
exponent of the result's unit in the last place (at least -1074) and `m` the rounded significand, the double
is `m * 2^e`. -/
def roundsToInteger (n k : Nat) : Bool :=
  if n == 0 then true else
  let den := 10 ^ k
  let a := Nat.log2 n
  let b := Nat.log2 den
  let ge : Bool := if a ≥ b then n ≥ den * 2 ^ (a - b) else n * 2 ^ (b - a) ≥ den
  let p : Int := (a : Int) - (b : Int) - (if ge then 0 else 1)
  let e : Int := max (p - 52) (-1074)
  let num := if e ≥ 0 then n else n * 2 ^ (-e).toNat
  let d := if e ≥ 0 then den * 2 ^ e.toNat else den
  let m0 := num / d
  let r := num % d
  let m := if 2 * r > d then m0 + 1 else if 2 * r < d then m0 else (if m0 % 2 == 0 then m0 else m0 + 1)
  if e ≥ 0 then decide (m * 2 ^ e.toNat < 2 ^ 1024)
  else m % 2 ^ (-e).toNat == 0

/-- Does the exponent lexeme (a valid decimal), run through `f64` and printed with `Display`, come out without
a fraction?  `Display for f64` prints an integral double as its digits and any other finite double with a
`.`; so: no fraction written, or a fraction of zeros (`integralDecimal`), or a fraction so small (or so close
to one) that the nearest double is an integer - `3.00000000000000000000001`, `0.99999999999999999999999`.
A lexeme WITHOUT fraction is taken to print as an integer: that fails only beyond 1.8e308 (more than 308
digits, the double is infinite and prints `inf`), a case left to the evaluation of the lexical token like
the value of every number lexeme. -/
def exponentPrintsIntegral (bs : List UInt8) : Bool :=
  integralDecimal bs ||
    (let body := match bs with
      | 45 :: r => r
      | r => r
     let ip := body.takeWhile isDigitB
     match body.dropWhile isDigitB with
     | 46 :: fr => roundsToInteger (natOfDigits (ip ++ fr)) fr.length
     | _ => false)

/-- The final `number.parse::<f64>()` of `"{decimal}{exp}"` succeeds iff the exponent prints as an
integer and no second sign follows an explicit one. -/
def exponentOk (sign ex : List UInt8) : Bool :=
  exponentPrintsIntegral ex && !(!sign.isEmpty && ex.head? == some 45)

def mkNum (dec : List UInt8) (exp : Option (List UInt8 × List UInt8)) (unit : Option (List Char)) : Val :=
  let txt := match exp with
    | Option.none => asciiChars dec
    | some (sign, ex) => asciiChars dec ++ ['e'] ++ asciiChars sign ++ asciiChars ex
  .num { v := { bits := lexBits, txt := txt }, unit := unit }

/-- `parse_number` -/
def parseNumber (fuel : Nat) (s : Scan) : Res (Val × Scan) :=
  match parseDecimal fuel s with
  | .ok (dec, s1) =>
    -- exponent
    let afterExp : Res (Option (List UInt8 × List UInt8) × Scan) :=
      if !s1.eof && (s1.cur == 101 || s1.cur == 69) then
        match s1.peek with
        | (Option.none, _) => .err
        | (some nx, s2) =>
          if nx == 43 || nx == 45 || isDigitB nx then
            match parseExponent fuel s2 with
            | .ok (e, s3) => .ok (some e, s3)
            | .err => .err | .panic => .panic | .diverge => .diverge | .depth => .depth
          else .ok (Option.none, s2)
      else .ok (Option.none, s1)
    match afterExp with
    | .ok (exp, s3) =>
      let afterUnit : Res (Option (List Char) × Scan) :=
        if !s3.eof && isUnitChar s3 then
          match unitLoop fuel s3 [] with
          | .ok (ub, s4) =>
            match unitSymbol (lossy ub) with
            | some sym => .ok (some sym, s4)
            | Option.none => .err
          | .err => .err | .panic => .panic | .diverge => .diverge | .depth => .depth
        else .ok (Option.none, s3)
      match afterUnit with
      | .ok (unit, s4) =>
        match exp with
        | some (sign, ex) => if exponentOk sign ex then .ok (mkNum dec exp unit, s4) else .err
        | Option.none => .ok (mkNum dec exp unit, s4)
      | .err => .err | .panic => .panic | .diverge => .diverge | .depth => .depth
    | .err => .err | .panic => .panic | .diverge => .diverge | .depth => .depth
  | .err => .err | .panic => .panic | .diverge => .diverge | .depth => .depth

def negInfBits : Nat := 0xFFF0000000000000
def posInfBits : Nat := 0x7FF0000000000000
def nanBits : Nat := 0x7FF8000000000000

/-- `parse_neg_inf` -/
def parseNegInf (s : Scan) : Res (Val × Scan) :=
  if s.cur != 45 then .err else
  match expectAndConsumeSeq [73, 78, 70] s.advance with
  | .ok s' => .ok (.num { v := { bits := negInfBits, txt := "-inf".toList }, unit := Option.none }, s')
  | _ => .err

/-! ### Date, Time, DateTime -/

def digitsNat (bs : List UInt8) : Nat := bs.foldl (fun a b => a * 10 + (b.toNat - 48)) 0

def isLeap (y : Nat) : Bool := (y % 4 == 0 && y % 100 != 0) || y % 400 == 0
def daysIn (y m : Nat) : Nat :=
  if m == 2 then (if isLeap y then 29 else 28)
  else if m == 4 || m == 6 || m == 9 || m == 11 then 30 else 31

/-- consume `n` digits (`expect_and_consume_any_in_range(&DIGITS)` n times) -/
def takeDigits : Nat → Scan → List UInt8 → Res (List UInt8 × Scan)
  | 0, s, acc => .ok (acc, s)
  | n + 1, s, acc =>
    if isDigitB s.cur then takeDigits n s.advance (acc ++ [s.cur]) else .err

/-- `parse_date`: `dddd-dd-dd`, then chrono's calendar check -/
def parseDateRaw (s : Scan) : Res (List UInt8 × Scan) :=
  match takeDigits 4 s [] with
  | .ok (y, s1) => if s1.cur != 45 then .err else
    match takeDigits 2 s1.advance [] with
    | .ok (m, s2) => if s2.cur != 45 then .err else
      match takeDigits 2 s2.advance [] with
      | .ok (d, s3) => .ok (y ++ [45] ++ m ++ [45] ++ d, s3)
      | _ => .err
    | _ => .err
  | _ => .err

def mkDate (raw : List UInt8) : Option Date :=
  let y := digitsNat (raw.take 4)
  let m := digitsNat ((raw.drop 5).take 2)
  let d := digitsNat ((raw.drop 8).take 2)
  if 1 ≤ m && m ≤ 12 && 1 ≤ d && d ≤ daysIn y m then
    some { y := y, m := m, d := d, txt := asciiChars raw }
  else Option.none

def parseDate (s : Scan) : Res (Date × Scan) :=
  match parseDateRaw s with
  | .ok (raw, s') => match mkDate raw with
    | some d => .ok (d, s')
    | Option.none => .err
  | _ => .err

def fracLoop : Nat → Scan → List UInt8 → Res (List UInt8 × Scan)
  | 0, _, _ => .diverge
  | fuel + 1, s, acc =>
    if !s.eof && s.isDigit then fracLoop fuel s.advance (acc ++ [s.cur]) else .ok (acc, s)

/-- `parse_time` raw text: `dd:dd:dd` then `.d*` -/
def parseTimeRaw (fuel : Nat) (s : Scan) : Res ((List UInt8 × Option (List UInt8)) × Scan) :=
  match takeDigits 2 s [] with
  | .ok (h, s1) => if s1.cur != 58 then .err else
    match takeDigits 2 s1.advance [] with
    | .ok (m, s2) => if s2.cur != 58 then .err else
      match takeDigits 2 s2.advance [] with
      | .ok (sec, s3) =>
        let hms := h ++ [58] ++ m ++ [58] ++ sec
        if s3.cur == 46 then
          match s3.readQ with
          | .ok s4 =>
            match fracLoop fuel s4 [] with
            | .ok (fr, s5) => .ok ((hms, some fr), s5)
            | .err => .err | .panic => .panic | .diverge => .diverge | .depth => .depth
          | _ => .err
        else .ok ((hms, Option.none), s3)
      | _ => .err
    | _ => .err
  | _ => .err

/-- first 9 fractional digits, right padded -/
def fracNanos (fr : List UInt8) : Nat :=
  let ds := fr.take 9
  digitsNat ds * 10 ^ (9 - ds.length)

def pad (n width : Nat) : List Char :=
  let ds := (Nat.toDigits 10 n)
  List.replicate (width - ds.length) '0' ++ ds

/-- chrono's `Debug for NaiveTime` -/
def timeText (h mi s ns : Nat) : List Char :=
  let (sec, nano) := if ns ≥ 1000000000 then (s + 1, ns - 1000000000) else (s, ns)
  let base := pad h 2 ++ [':'] ++ pad mi 2 ++ [':'] ++ pad sec 2
  if nano == 0 then base
  else if nano % 1000000 == 0 then base ++ ['.'] ++ pad (nano / 1000000) 3
  else if nano % 1000 == 0 then base ++ ['.'] ++ pad (nano / 1000) 6
  else base ++ ['.'] ++ pad nano 9

/-- chrono's `NaiveTime::from_str` on `dd:dd:dd[.d*]` -/
def mkTime (hms : List UInt8) (fr : Option (List UInt8)) : Option Time :=
  let h := digitsNat (hms.take 2)
  let mi := digitsNat ((hms.drop 3).take 2)
  let sec := digitsNat ((hms.drop 6).take 2)
  let fracOk := match fr with
    | Option.none => true
    | some f => !f.isEmpty
  if h < 24 && mi < 60 && sec ≤ 60 && fracOk then
    let ns0 := match fr with
      | Option.none => 0
      | some f => fracNanos f
    let (s', ns) := if sec == 60 then (59, ns0 + 1000000000) else (sec, ns0)
    some { h := h, mi := mi, s := s', ns := ns, txt := timeText h mi s' ns }
  else Option.none

def parseTime (fuel : Nat) (s : Scan) : Res (Time × Scan) :=
  match parseTimeRaw fuel s with
  | .ok ((hms, fr), s') => match mkTime hms fr with
    | some t => .ok (t, s')
    | Option.none => .err
  | .err => .err | .panic => .panic | .diverge => .diverge | .depth => .depth

/-- `parse_time_zone_name` -/
def tzNameLoop : Nat → Scan → List UInt8 → Res (List UInt8 × Scan)
  | 0, _, _ => .diverge
  | fuel + 1, s, acc =>
    if !s.eof && (s.isAlphaNum || s.cur == 95 || s.cur == 47 || s.cur == 43 || s.cur == 45) then
      tzNameLoop fuel s.advance (acc ++ [s.cur])
    else .ok (acc, s)

def parseTzName (fuel : Nat) (s : Scan) : Res (List UInt8 × Scan) :=
  if !isUpperB s.cur then .err else
  match tzNameLoop fuel s.advance [s.cur] with
  | .ok (acc, s') => if acc.length == 1 then .err else .ok (acc, s')
  | .err => .err | .panic => .panic | .diverge => .diverge | .depth => .depth

/-- `parse_time_zone`: the zone part of the token text -/
def parseTimeZone (fuel : Nat) (s : Scan) : Res (List UInt8 × Scan) :=
  if s.cur == 90 then
    -- `safe_peek() == Some(b' ') && safe_peek().is_ascii_uppercase()` (short-circuit)
    let (p1, s1) := s.peek
    let (both, s2) := match p1 with
      | some 32 => match s1.peek with
        | (some c, s2) => (isUpperB c, s2)
        | (Option.none, s2) => (false, s2)
      | _ => (false, s1)
    if both then
      match advanceBy 2 s2 with
      | .ok s3 =>
        match parseTzName fuel s3 with
        | .ok (name, s4) => .ok ([90, 32] ++ name, s4)
        | .err => .err | .panic => .panic | .diverge => .diverge | .depth => .depth
      | _ => .err
    else
      if !s2.eof then
        match s2.readQ with
        | .ok s3 => .ok ([90], s3)
        | _ => .err
      else .ok ([90], s2)
  else
    if !(s.cur == 43 || s.cur == 45) then .err else
    let sign := s.cur
    match takeDigits 2 s.advance [] with
    | .ok (hh, s1) => if s1.cur != 58 then .err else
      match takeDigits 2 s1.advance [] with
      | .ok (mm, s2) => if s2.cur != 32 then .err else
        match parseTzName fuel s2.advance with
        | .ok (name, s3) => .ok ([sign] ++ hh ++ [58] ++ mm ++ [32] ++ name, s3)
        | .err => .err | .panic => .panic | .diverge => .diverge | .depth => .depth
      | _ => .err
    | _ => .err

/-- does `find_timezone` resolve the name?  (translated table) -/
def tzResolves (name : List UInt8) : Bool :=
  Hs.Gen.tzNames.contains (String.ofList (asciiChars name))

/-- the zone name inside the zone part of a timestamp token (`Z`, `Z Name`, `+hh:mm Name`) -/
def zoneNameOf (zone : List UInt8) : Option (List UInt8) :=
  match zone with
  | [90] => Option.none
  | 90 :: 32 :: name => some name
  | _ => some (zone.drop 7)

/-- `parse_datetime`: the token's text span; the calendar fields must be valid and the zone name must
resolve (`make_date_time_with_tz`).  Which instant the text denotes is evaluated outside the model
(`Tl` reply token). -/
def parseDateTime (fuel : Nat) (s : Scan) : Res (Val × Scan) :=
  match parseDateRaw s with
  | .ok (draw, s1) =>
    match mkDate draw with
    | Option.none => .err
    | some _ =>
      if s1.cur != 84 then .err else
      match parseTimeRaw fuel s1.advance with
      | .ok ((hms, fr), s2) =>
        match mkTime hms fr with
        | Option.none => .err
        | some _ =>
          match parseTimeZone fuel s2 with
          | .ok (zone, s3) =>
            if (match zoneNameOf zone with
                | Option.none => false
                | some name => name != [85, 84, 67] && !tzResolves name) then .err else
            let ftxt := match fr with
              | Option.none => []
              | some f => [46] ++ f
            let txt := draw ++ [84] ++ hms ++ ftxt ++ zone
            .ok (.dateTime { secs := 0, ns := 0, off := 0, zone := [], tzid := [], txt := asciiChars txt }, s3)
          | .err => .err | .panic => .panic | .diverge => .diverge | .depth => .depth
      | .err => .err | .panic => .panic | .diverge => .diverge | .depth => .depth
  | _ => .err

/-- `is_partial_date`: five peeks, short-circuit `&&`; `peek()?` propagates the end of input -/
def isPartialDate (s : Scan) : Res (Bool × Scan) :=
  match s.peek with
  | (Option.none, _) => .err
  | (some a, s1) => if !isDigitB a then .ok (false, s1) else
    match s1.peek with
    | (Option.none, _) => .err
    | (some b, s2) => if !isDigitB b then .ok (false, s2) else
      match s2.peek with
      | (Option.none, _) => .err
      | (some c, s3) => if c != 45 then .ok (false, s3) else
        match s3.peek with
        | (Option.none, _) => .err
        | (some d, s4) => if !isDigitB d then .ok (false, s4) else
          match s4.peek with
          | (Option.none, _) => .err
          | (some e, s5) => .ok (isDigitB e, s5)

/-- the up-to-four peeks at the start of `parse_number_date_time` -/
def ndtPeeks : Nat → UInt8 → Nat → Scan → (Nat × Scan)
  | 0, _, count, s => (count, s)
  | n + 1, cur, count, s =>
    if !isDigitB cur || s.eof then (count, s)
    else match s.peek with
      | (some v, s') => ndtPeeks n v (count + 1) s'
      | (Option.none, s') => ndtPeeks n cur (count + 1) s'   -- end of input: `cur` keeps its value

/-- `parse_number_date_time` -/
def parseNumberDateTime (fuel : Nat) (s : Scan) : Res (Val × Scan) :=
  if s.cur == 45 then
    match s.peek with
    | (Option.none, _) => .err
    | (some nx, s1) => if nx == 73 then parseNegInf s1 else parseNumber fuel s1
  else
    let (count, s1) := ndtPeeks 4 s.cur 0 s
    if s1.eof then
      parseNumber fuel { s1 with eof := false }
    else if count == 2 && s1.lastPeek == 58 then
      match parseTime fuel s1 with
      | .ok (t, s2) => .ok (.time t, s2)
      | .err => .err | .panic => .panic | .diverge => .diverge | .depth => .depth
    else if count == 4 && s1.lastPeek == 45 then
      match isPartialDate s1 with
      | .ok (true, s2) =>
        match s2.peek with
        | (some p, s3) =>
          if p != 84 then
            match parseDate s3 with
            | .ok (d, s4) => .ok (.date d, s4)
            | _ => .err
          else parseDateTime fuel s3
        | (Option.none, s3) =>
          -- `if scanner.is_eof` is true here (only end-of-input failures are modelled)
          match parseDate s3 with
          | .ok (d, s4) => .ok (.date d, s4)
          | _ => .err
      | .ok (false, s2) => parseNumber fuel s2
      | _ => .err
    else parseNumber fuel s1

/-! ### XStr body, Coord body -/

def parseXStrBody (fuel : Nat) (name : List Char) (s : Scan) : Res (Val × Scan) :=
  if s.cur != 40 then .err else
  match consumeSpaces fuel s.advance with
  | .ok s1 =>
    match parseStr fuel s1 with
    | .ok (v, s2) =>
      match consumeSpaces fuel s2 with
      | .ok s3 => if s3.cur != 41 then .err else .ok (.xstr name v, s3.advance)
      | .err => .err | .panic => .panic | .diverge => .diverge | .depth => .depth
    | .err => .err | .panic => .panic | .diverge => .diverge | .depth => .depth
  | .err => .err | .panic => .panic | .diverge => .diverge | .depth => .depth

def mkCoordFlt (dec : List UInt8) : Flt := { bits := lexBits, txt := asciiChars dec }

def parseCoordBody (fuel : Nat) (s : Scan) : Res (Val × Scan) :=
  if s.cur != 40 then .err else
  match consumeSpaces fuel s.advance with
  | .ok s1 =>
    match parseDecimal fuel s1 with
    | .ok (lat, s2) =>
      match consumeSpaces fuel s2 with
      | .ok s3 => if s3.cur != 44 then .err else
        match consumeSpaces fuel s3.advance with
        | .ok s4 =>
          match parseDecimal fuel s4 with
          | .ok (lng, s5) =>
            match consumeSpaces fuel s5 with
            | .ok s6 => if s6.cur != 41 then .err else
              .ok (.coord (mkCoordFlt lat) (mkCoordFlt lng), s6.advance)
            | .err => .err | .panic => .panic | .diverge => .diverge | .depth => .depth
          | .err => .err | .panic => .panic | .diverge => .diverge | .depth => .depth
        | .err => .err | .panic => .panic | .diverge => .diverge | .depth => .depth
      | .err => .err | .panic => .panic | .diverge => .diverge | .depth => .depth
    | .err => .err | .panic => .panic | .diverge => .diverge | .depth => .depth
  | .err => .err | .panic => .panic | .diverge => .diverge | .depth => .depth

/-! ### Lexer -/

structure Lex where
  sc : Scan
  tok : Tok
deriving Inhabited

def isSpecial (b : UInt8) : Bool :=
  b == 44 || b == 13 || b == 10 || b == 123 || b == 125 || b == 58 || b == 91 || b == 93 || b == 60 || b == 62

/-- keyword literals of `Lexer::read` -/
def keyword (lit : List Char) : Option Val :=
  if lit == ['M'] then some .marker
  else if lit == ['R'] then some .remove
  else if lit == ['T'] then some (.bool true)
  else if lit == ['F'] then some (.bool false)
  else if lit == ['N'] then some .null
  else if lit == ['N', 'A'] then some .na
  else if lit == ['N', 'a', 'N'] then
    some (.num { v := { bits := nanBits, txt := "NaN".toList }, unit := Option.none })
  else if lit == ['I', 'N', 'F'] then
    some (.num { v := { bits := posInfBits, txt := "inf".toList }, unit := Option.none })
  else Option.none

/-- `Lexer::read`.  Fuel: one unit per loop iteration (only runs of spaces iterate). -/
def lexRead : Nat → Scan → Res Lex
  | 0, _ => .diverge
  | fuel + 1, s =>
    if s.eof then .ok { sc := s, tok := .none }
    else
      let c := s.cur
      if c == 32 || c == 9 then
        match consumeSpaces (fuel + 1) s with
        | .ok s' => lexRead fuel s'
        | .err => .err | .panic => .panic | .diverge => .diverge | .depth => .depth
      else if c == 34 then
        match parseStr fuel s with
        | .ok (v, s') => .ok { sc := s', tok := .val (.str v) }
        | .err => .err | .panic => .panic | .diverge => .diverge | .depth => .depth
      else if c == 96 then
        match parseUri fuel s with
        | .ok (v, s') => .ok { sc := s', tok := .val (.uri v) }
        | .err => .err | .panic => .panic | .diverge => .diverge | .depth => .depth
      else if c == 64 then
        match parseRef fuel s with
        | .ok (v, s') => .ok { sc := s', tok := .val v }
        | .err => .err | .panic => .panic | .diverge => .diverge | .depth => .depth
      else if c == 94 then
        match parseSymbol fuel s with
        | .ok (v, s') => .ok { sc := s', tok := .val v }
        | .err => .err | .panic => .panic | .diverge => .diverge | .depth => .depth
      else if isSpecial c then
        let t : Tok := if c == 10 || c == 13 then .ch 10 else .ch c
        match s.read with
        | (some nx, s1) =>
          if c == 13 && nx == 10 then .ok { sc := s1.advance, tok := t }
          else .ok { sc := s1, tok := t }
        | (Option.none, s1) => .ok { sc := s1, tok := t }
      else if isDigitB c || c == 45 then
        match parseNumberDateTime fuel s with
        | .ok (v, s') => .ok { sc := s', tok := .val v }
        | .err => .err | .panic => .panic | .diverge => .diverge | .depth => .depth
      else if isUpperB c then
        match parseLiteral fuel s with
        | .ok (lit, s1) =>
          if s1.cur == 40 then
            if lit == ['C'] then
              match parseCoordBody fuel s1 with
              | .ok (v, s2) => .ok { sc := s2, tok := .val v }
              | .err => .err | .panic => .panic | .diverge => .diverge | .depth => .depth
            else
              match parseXStrBody fuel lit s1 with
              | .ok (v, s2) => .ok { sc := s2, tok := .val v }
              | .err => .err | .panic => .panic | .diverge => .diverge | .depth => .depth
          else
            match keyword lit with
            | some v => .ok { sc := s1, tok := .val v }
            | Option.none => .err
        | .err => .err | .panic => .panic | .diverge => .diverge | .depth => .depth
      else if isLowerB c then
        match parseId fuel s with
        | .ok (i, s1) => .ok { sc := s1, tok := .id i }
        | .err => .err | .panic => .panic | .diverge => .diverge | .depth => .depth
      else .err

end Hs.Zinc
