/-
  Hs.Model.NsProtos — `Namespace::protos` with `protos_from_def` and `find_flattened_children`, and
  `core_type_defs` (src/haystack/defs/namespace.rs), the last part of the namespace that reads more of a def than the tags of
  Hs.Model.NsAssoc.

  A dict is reduced to an association list from tag names to value TOKENS (equal tokens = equal values; token 0
  is Null).  Of a def only what `protos` reads is kept (`ChildSpec`): the dicts its `children` tag stands for
  (`none` when the tag is neither a Str nor a List, in which case the def contributes nothing; for a Str the
  lines that decode to non-empty dicts, for a List its Dict items) and the Symbol items of its `childrenFlatten`
  list.  `fits` is the function of Hs.Model.Ns.

  The code collects the prototypes in a `HashSet<Dict>` and hands them out in the set's order; the model returns
  the list before that step, and results are compared as sets.  `find_flattened_children` folds over the
  symbols and the parent's keys inserting into a fresh dict; since a dict has each key once, the result is the
  parent restricted to the keys that fit one of the symbols and hold a value other than Null, which is how the
  model states it (`flattened`); the loops as written are `flattenedLoop` / `mergeLoop`, proved to build the same
  dicts on distinct keys (Thm/C13: flattened_loop_eq, merge_loop_eq).
  Core-only imports (linked into `hsdriver`).
-/
import Hs.Model.NsAssoc
namespace Hs.NsA
open Hs Hs.Ns

/-- a dict: tag names and value tokens -/
abbrev PDict := List (Name × Nat)

/-- `dict.get(k)` -/
def pget (d : PDict) (k : Name) : Option Nat :=
  match d.find? (fun kv => kv.1 = k) with
  | some kv => some kv.2
  | none => none

/-- `dict.insert(k, v)`: the value of an existing key is replaced -/
def pinsert (k : Name) (v : Nat) : PDict → PDict
  | [] => [(k, v)]
  | kv :: r => if kv.1 = k then (k, v) :: r else kv :: pinsert k v r

/-- what `protos` reads of a def that has a `children` tag -/
structure ChildSpec where
  children : Option (List PDict)
  flatten : List Name
deriving Repr, Inhabited

/-- the defs that have a `children` tag, by name (each name once) -/
abbrev ProtoDefs := List (Name × ChildSpec)

def plookup (pd : ProtoDefs) (n : Name) : Option ChildSpec :=
  match pd.find? (fun e => e.1 = n) with
  | some e => some e.2
  | none => none

/-- `find_flattened_children` -/
def flattened (fuel : Nat) (ns : Ns) (flatten : List Name) (parent : PDict) : PDict :=
  parent.filter (fun kv => kv.2 != 0 && flatten.any (fun sym => fitsB fuel ns kv.1 sym))

/-- `find_flattened_children` as the code's two loops run it (`flattened_loop_eq`: the same dict) -/
def flatInner (fuel : Nat) (ns : Ns) (sym : Name) (parent : PDict) (acc : PDict) : PDict :=
  parent.foldl (fun acc kv => if fitsB fuel ns kv.1 sym && kv.2 != 0 then pinsert kv.1 kv.2 acc else acc) acc

def flattenedLoop (fuel : Nat) (ns : Ns) (flatten : List Name) (parent : PDict) : PDict :=
  flatten.foldl (fun acc sym => flatInner fuel ns sym parent acc) []

/-- `for (key, val) in flattened.iter() { dict.insert(key, val) }` (the keys of a dict are distinct: the direction of
the fold is immaterial) -/
def mergeInto (f : PDict) (c : PDict) : PDict :=
  f.foldr (fun kv d => pinsert kv.1 kv.2 d) c

/-- the same as the code's loop runs it: first to last (`mergeLoop_eq`: no difference on a dict) -/
def mergeLoop (f : PDict) (c : PDict) : PDict :=
  f.foldl (fun d kv => pinsert kv.1 kv.2 d) c

/-- `protos_from_def` -/
def protosFromDef (fuel : Nat) (ns : Ns) (pd : ProtoDefs) (parent : PDict) (name : Name) : List PDict :=
  match plookup pd name with
  | none => []
  | some spec =>
    match spec.children with
    | none => []
    | some cs => cs.map (mergeInto (flattened fuel ns spec.flatten parent))

/-- `protos`, before the `HashSet` -/
def protos (fuel : Nat) (ns : Ns) (pd : ProtoDefs) (parent : PDict) : List PDict :=
  parent.flatMap (fun kv => protosFromDef fuel ns pd parent kv.1)

/-- `protos_from_def` with the loops as the code writes them -/
def protosFromDefLoop (fuel : Nat) (ns : Ns) (pd : ProtoDefs) (parent : PDict) (name : Name) : List PDict :=
  match plookup pd name with
  | none => []
  | some spec =>
    match spec.children with
    | none => []
    | some cs => cs.map (mergeLoop (flattenedLoop fuel ns spec.flatten parent))

/-- `protos` with the loops as the code writes them (what the driver runs; `protosLoop_eq`: tag by tag the dicts of
`protos`) -/
def protosLoop (fuel : Nat) (ns : Ns) (pd : ProtoDefs) (parent : PDict) : List PDict :=
  parent.flatMap (fun kv => protosFromDefLoop fuel ns pd parent kv.1)

/-! ### `core_type_defs` -/

/-- the sixteen names `core_type_defs` looks up, in the order of the fields of `CoreTypeDefs`
(marker, na, bool, number, coord, str, symbol, reference, uri, xstr, date, time, datetime, dict, list, grid) -/
def coreTypeNames : List Name :=
  [ ['m','a','r','k','e','r'], ['n','a'], ['b','o','o','l'], ['n','u','m','b','e','r'], ['c','o','o','r','d'],
    ['s','t','r'], ['s','y','m','b','o','l'], ['r','e','f'], ['u','r','i'], ['x','s','t','r'], ['d','a','t','e'],
    ['t','i','m','e'], ['d','a','t','e','T','i','m','e'], ['d','i','c','t'], ['l','i','s','t'], ['g','r','i','d'] ]

/-- `core_type_defs`: per field the def of that name, `none` for the empty dict the code substitutes -/
def coreTypeDefs (g : Defs) : List (Option Name) :=
  coreTypeNames.map (fun n => if defined g n then some n else none)

/-! ### the small look-ups -/

/-- `has_subtype` -/
def hasSubtype (ns : Ns) (s : Name) : Bool := !(subtypesOf ns s).isEmpty

/-- `all_matching_names`: the names that have a def, in the order given (a name given twice comes out twice) -/
def allMatchingNames (g : Defs) (names : List Name) : List Name := names.filter (defined g)

end Hs.NsA
