/-
  Hs.Model.NsCache — the two lazy caches of `Namespace` (`supertypes_of_cache`, `inheritance_of_cache`, both
  `DashMap<Symbol, Vec<&Dict>>`) as a small-step concurrent system (C14).

  * Shared state: the two caches (key ↦ value).  A DashMap operation (`get`, `contains_key`, `insert`) is
    atomic; `get` that finds the key hands out a READ GUARD on the key's shard which the thread holds until
    it drops it; `insert` needs the shard's write lock and cannot proceed while ANY thread (the inserting
    thread included) holds a read guard on that shard.
  * A thread runs a program `Prog`: a tree of cache operations whose continuations contain the thread-local
    computation.  The programs below are the code of `supertypes_of` and `inheritance` exactly as written -
    `get` → hit: read through the guard, drop it / miss: compute WITHOUT a guard → `contains_key` → `insert`
    if absent → `get(..).expect(..)`, read, drop - and of their callers `all_supertypes_of`, `fits`,
    `reflect` (`find_supertypes_from_defs` + the `inheritance` loop of `compute_entity_type`) and
    `Reflection::fits`.  Every caller in the crate reads the returned vector (`clone`, `contains`, `iter`,
    `is_empty`) and drops the guard before its next cache operation, so the drop is placed right after the
    read (`readP`, the `some` branch of `supG` / `inhG`).
  * `step : Cfg → State → ThreadId → State` runs one operation of one thread (no-op for a finished or blocked
    thread); a schedule is a `List ThreadId`; any number of threads.

  The cache-free functions are those of Hs.Model.Ns.  Core-only imports (linked into `hsdriver`).
-/
import Hs.Model.Ns
import Hs.Model.NsAssoc
namespace Hs.NsCache
open Hs Hs.Ns

inductive CacheId where
  | sup | inh
deriving DecidableEq, Repr, Inhabited

abbrev V := List Name

/-- the remaining program of a thread -/
inductive Prog (α : Type) where
  | ret (a : α)
  /-- `cache.get(k)`: `some v` ⇒ the thread now holds a read guard on `k`'s shard -/
  | get (c : CacheId) (k : Name) (cont : Option V → Prog α)
  /-- `cache.contains_key(k)` -/
  | has (c : CacheId) (k : Name) (cont : Bool → Prog α)
  /-- `cache.insert(k, v)` (overwrites) -/
  | ins (c : CacheId) (k : Name) (v : V) (cont : Prog α)
  /-- the guard goes out of scope -/
  | drop (cont : Prog α)

namespace Prog
def bind {α β : Type} : Prog α → (α → Prog β) → Prog β
  | .ret a, f => f a
  | .get c k cont, f => .get c k (fun r => (cont r).bind f)
  | .has c k cont, f => .has c k (fun b => (cont b).bind f)
  | .ins c k v cont, f => .ins c k v (cont.bind f)
  | .drop cont, f => .drop (cont.bind f)

def isRet {α : Type} : Prog α → Bool
  | .ret _ => true
  | _ => false
end Prog

/-- re-type a non-`ok` outcome -/
def _root_.Hs.Res.cast {α β : Type} : Res α → Res β
  | .ok _ => .err
  | .err => .err | .panic => .panic | .diverge => .diverge | .depth => .depth

/-! ### the cached functions, as programs -/

/-- `cache.get(k).expect("Cached value")`, the caller's read, the drop of the guard -/
def readP (c : CacheId) (k : Name) : Prog (Res V) :=
  .get c k fun r =>
    match r with
    | some v => .drop (.ret (.ok v))
    | none => .ret .panic

/-- `if !cache.contains_key(k) { cache.insert(k, val) }  cache.get(k).expect(..)` -/
def storeP (c : CacheId) (k : Name) (val : V) : Prog (Res V) :=
  .has c k fun present =>
    if present then readP c k else .ins c k val (readP c k)

/-- `supertypes_of(k)` and the caller's read of the result -/
def supG (g : Defs) (k : Name) : Prog (Res V) :=
  .get .sup k fun r =>
    match r with
    | some v => .drop (.ret (.ok v))
    | none => storeP .sup k (supertypesOf g k)

/-- the `for def in defs` body of `all_supertypes_of`: `supertypes_of(def)` (a cache access) is only called for a
def that was not yet in the result set (`if super_types.insert(def) { .. }`) -/
def forBodyP (g : Defs) : List Name → List (List Name) → List Name → Prog (Res (List (List Name) × List Name))
  | [], st, acc => .ret (.ok (st, acc))
  | d :: ds, st, acc =>
    if d ∈ acc then forBodyP g ds st acc
    else
      (supG g d).bind fun r =>
        match r with
        | .ok nx => forBodyP g ds (if nx.isEmpty then st else nx :: st) (insertSet d acc)
        | e => .ret e.cast

/-- the `while` loop of `all_supertypes_of` -/
def wlP (g : Defs) : Nat → List (List Name) → List Name → Prog (Res (List Name))
  | _, [], acc => .ret (.ok acc)
  | 0, _ :: _, _ => .ret .diverge
  | fuel + 1, v :: st, acc =>
    (forBodyP g v st acc).bind fun r =>
      match r with
      | .ok p => wlP g fuel p.1 p.2
      | e => .ret e.cast

/-- `all_supertypes_of(s)` -/
def allSupP (fuel : Nat) (g : Defs) (s : Name) : Prog (Res (List Name)) :=
  (supG g s).bind fun r =>
    match r with
    | .ok v0 => wlP g fuel [v0] []
    | e => .ret e.cast

/-- the value `inheritance(k)` computes on a miss (calls `all_supertypes_of`, no guard held) -/
def computeInhP (fuel : Nat) (ns : Ns) (k : Name) : Prog (Res V) :=
  if defined ns.defs k then
    (allSupP fuel ns.defs k).bind fun r =>
      match r with
      | .ok all => .ret (.ok (extendSet [k] all))
      | e => .ret e
  else .ret (.ok [])

/-- `inheritance(k)` and the caller's read of the result -/
def inhG (fuel : Nat) (ns : Ns) (k : Name) : Prog (Res V) :=
  .get .inh k fun r =>
    match r with
    | some v => .drop (.ret (.ok v))
    | none =>
      (computeInhP fuel ns k).bind fun rv =>
        match rv with
        | .ok val => storeP .inh k val
        | e => .ret e

/-- `fits(a, b)` -/
def fitsP (fuel : Nat) (ns : Ns) (a b : Name) : Prog (Res Bool) :=
  if defined ns.defs b then
    (inhG fuel ns a).bind fun r =>
      match r with
      | .ok l => .ret (.ok (l.contains b))
      | e => .ret e.cast
  else .ret (.ok false)

/-- `find_supertypes_from_defs` -/
def findSupP (fuel : Nat) (g : Defs) : List Name → List Name → Prog (Res (List Name))
  | [], acc => .ret (.ok acc)
  | d :: ds, acc =>
    (allSupP fuel g d).bind fun r =>
      match r with
      | .ok all => findSupP fuel g ds (extendSet (insertSet d acc) all)
      | e => .ret e

def entityName : Name := ['e', 'n', 't', 'i', 't', 'y']

/-- the loop of `compute_entity_type`: `inheritance(def)` of every reflected def (read, dropped) -/
def entityP (fuel : Nat) (ns : Ns) : List Name → Prog (Res Unit)
  | [] => .ret (.ok ())
  | d :: ds =>
    (inhG fuel ns d).bind fun r =>
      match r with
      | .ok _ => entityP fuel ns ds
      | e => .ret e.cast

/-- `reflect(subject)` (the reflected defs; `compute_entity_type` only runs its loop when `entity` is a def) -/
def reflectP (fuel : Nat) (ns : Ns) (r : Rec) : Prog (Res (List Name)) :=
  (findSupP fuel ns.defs (tagDefs ns r ++ findConjuncts ns (markerTags r)) []).bind fun rv =>
    match rv with
    | .ok ds =>
      if defined ns.defs entityName then
        (entityP fuel ns ds).bind fun e =>
          match e with
          | .ok _ => .ret (.ok ds)
          | x => .ret x.cast
      else .ret (.ok ds)
    | e => .ret e

/-- `defs.iter().any(|def| ns.fits(def, base))` -/
def anyFitsP (fuel : Nat) (ns : Ns) (base : Name) : List Name → Prog (Res Bool)
  | [] => .ret (.ok false)
  | d :: ds =>
    (fitsP fuel ns d base).bind fun r =>
      match r with
      | .ok true => .ret (.ok true)
      | .ok false => anyFitsP fuel ns base ds
      | e => .ret e

/-- `reflect(subject).fits(base)` -/
def reflFitsP (fuel : Nat) (ns : Ns) (r : Rec) (base : Name) : Prog (Res Bool) :=
  (reflectP fuel ns r).bind fun rv =>
    match rv with
    | .ok ds => anyFitsP fuel ns base ds
    | e => .ret e.cast


/-! ### the association / implementation / relationship queries, as programs

Their only cache accesses are those of `inheritance`, `all_supertypes_of` and `fits`; everything else they read
is the immutable `defs` map. -/
section
open Hs.NsA

/-- `find_reciprocal_associations`: `inheritance(parent)` (read, dropped at the end of the function: no other
cache operation happens in between), then a scan of all defs -/
def findReciprocalP (fuel : Nat) (x : NsX) (parent r : Name) : Prog (Res (List Name)) :=
  (inhG fuel x.ns parent).bind fun ri =>
    match ri with
    | .ok inh =>
      .ret (.ok ((x.xd.filter (fun d =>
        match d.tag r with
        | some (.list l) => (definedSyms x.ns.defs l).any (fun t => inh.contains t)
        | _ => false)).map (·.name)))
    | .err => .ret .err | .panic => .ret .panic | .diverge => .ret .diverge | .depth => .ret .depth

/-- `associations` -/
def associationsP (fuel : Nat) (x : NsX) (parent assoc : Name) : Prog (Res (List Name)) :=
  match getX x.xd assoc with
  | none => .ret (.ok [])
  | some ad =>
    if !isAssoc ad then .ret (.ok [])
    else if !ad.has nComputed then
      match getX x.xd parent with
      | some pd =>
        match pd.getList assoc with
        | some l => .ret (.ok (definedSyms x.ns.defs l))
        | none => .ret (.ok [])
      | none => .ret (.ok [])
    else
      match ad.getSymbol nReciprocalOf with
      | some r => if defined x.ns.defs r then findReciprocalP fuel x parent r else .ret (.ok [])
      | none => .ret (.ok [])

/-- the `for def in &defs { super_types.extend(self.all_supertypes_of(..)) }` loop of `implementation` -/
def supersOfAllP (fuel : Nat) (ns : Ns) : List Name → List Name → Prog (Res (List Name))
  | [], acc => .ret (.ok acc)
  | d :: ds, acc =>
    (allSupP fuel ns.defs d).bind fun r =>
      match r with
      | .ok all => supersOfAllP fuel ns ds (extendSet acc all)
      | .err => .ret .err | .panic => .ret .panic | .diverge => .ret .diverge | .depth => .ret .depth

/-- `implementation` -/
def implementationP (fuel : Nat) (x : NsX) (s : Name) : Prog (Res (List Name × List Name)) :=
  (supersOfAllP fuel x.ns ((conjunctsDefs x.ns s).filter (fun n => !isFeature n)) []).bind fun r =>
    match r with
    | .ok sup => .ret (.ok ((conjunctsDefs x.ns s).filter (fun n => !isFeature n), sup.filter (fun n => hasMarkerX x.xd n nMandatory)))
    | .err => .ret .err | .panic => .ret .panic | .diverge => .ret .diverge | .depth => .ret .depth

/-- what a tag's def says under a name, before any `fits` -/
inductive RawVal where
  | absent
  | other
  | sym (s : Name)
deriving Inhabited, DecidableEq

def RawVal.isSome : RawVal → Bool
  | .absent => false
  | _ => true

/-- `subject_def.and_then(|def| def.get(name))` -/
def rawVal (xd : DefsX) (tagKey name : Name) : RawVal :=
  match getX xd tagKey with
  | none => .absent
  | some d =>
    match d.tag name with
    | none => .absent
    | some (.sym s) => .sym s
    | some _ => .other

def rawRecip (xd : DefsX) (tagKey : Name) : Option Name → RawVal
  | some rc => rawVal xd tagKey rc
  | none => .absent

def resolveRecX (recs : List RecX) (r : Name) : Option RecX := recs.find? (fun rc => rc.key == some r)

/-- outcome of one pass over the subject's tags -/
inductive StepX where
  | ret (b : Bool)
  | next (subject : RecX) (queried : List Name) (refTag : Option Name)
  | done

/-- `if let Some(rel_term) = rel_term { self.fits(rel_val, rel_term) } else { true }` -/
def fitsTermL (fuel : Nat) (ns : Ns) (term : Option Name) (s : Name) : Res Bool :=
  match term with
  | some tm => fits fuel ns s tm
  | none => .ok true

/-- the same, `fits` as a cache access -/
def fitsTermP (fuel : Nat) (ns : Ns) (term : Option Name) (s : Name) : Prog (Res Bool) :=
  match term with
  | some tm => fitsP fuel ns s tm
  | none => .ret (.ok true)

/-- what the loop does with a tag once it knows whether the relationship value fits the term -/
def relDecide (recs : List RecX) (transitive : Bool) (t : SubjTag) (q : List Name) (rt : Option Name) (fits : Bool) :
    StepX ⊕ (List Name × Option Name) :=
  if fits && rt.isSome then
    if t.ref.isSome && t.ref == rt then .inl (.ret true)
    else if transitive then
      match t.ref with
      | some sv =>
        if !q.contains sv then
          match resolveRecX recs sv with
          | some new => if !new.tags.isEmpty then .inl (.next new (sv :: q) rt) else .inr (sv :: q, rt)
          | none => .inr (sv :: q, rt)
        else .inr (q, rt)
      | none => .inr (q, rt)
    else .inr (q, rt)
  else if fits then .inl (.ret true)
  else .inr (q, rt)

/-- the `for (subject_key, subject_val) in cur_subject.iter()` body, `fits` called where the code calls it -/
def relInnerL (fuel : Nat) (x : NsX) (recs : List RecX) (rel : Name) (recip term : Option Name) (transitive : Bool)
    (id : Option Name) : List SubjTag → List Name → Option Name → Res StepX
  | [], _, _ => .ok .done
  | t :: rest, q, rt =>
    let relD := rawVal x.xd t.key rel
    let useRecip := !relD.isSome && rt == id && t.ref.isSome && recip.isSome
    let relVal := if useRecip then rawRecip x.xd t.key recip else relD
    let rt := if useRecip && (rawRecip x.xd t.key recip).isSome then t.ref else rt
    match relVal with
    | .sym s =>
      match fitsTermL fuel x.ns term s with
      | .ok f =>
        match relDecide recs transitive t q rt f with
        | .inl st => .ok st
        | .inr (q', rt') => relInnerL fuel x recs rel recip term transitive id rest q' rt'
      | .err => .err | .panic => .panic | .diverge => .diverge | .depth => .depth
    | _ => relInnerL fuel x recs rel recip term transitive id rest q rt

/-- the `'search` loop -/
def relLoopL (fuel : Nat) (x : NsX) (recs : List RecX) (rel : Name) (recip term : Option Name) (transitive : Bool) :
    Nat → RecX → List Name → Option Name → Res Bool
  | 0, _, _, _ => .diverge
  | lf + 1, subject, q, rt =>
    match relInnerL fuel x recs rel recip term transitive subject.id subject.tags q rt with
    | .ok (.ret b) => .ok b
    | .ok .done => .ok false
    | .ok (.next s q' rt') => relLoopL fuel x recs rel recip term transitive lf s q' rt'
    | .err => .err | .panic => .panic | .diverge => .diverge | .depth => .depth

/-- `has_relationship`, cache-free, `fits` evaluated where the code evaluates it -/
def hasRelationshipL (fuel lf : Nat) (x : NsX) (recs : List RecX) (rel : Name) (term target : Option Name)
    (subject : RecX) : Res Bool :=
  match getX x.xd rel with
  | none => .ok false
  | some rd =>
    match inheritance fuel x.ns rel with
    | .ok inh =>
      if !inh.contains nRelationship then .ok false
      else relLoopL fuel x recs rel (rd.getSymbol nReciprocalOf) term (rd.hasMarker nTransitive) lf subject [] target
    | .err => .err | .panic => .panic | .diverge => .diverge | .depth => .depth

/-- the same three functions as programs: `fits` and `inheritance` are cache accesses -/
def relInnerP (fuel : Nat) (x : NsX) (recs : List RecX) (rel : Name) (recip term : Option Name) (transitive : Bool)
    (id : Option Name) : List SubjTag → List Name → Option Name → Prog (Res StepX)
  | [], _, _ => .ret (.ok .done)
  | t :: rest, q, rt =>
    let relD := rawVal x.xd t.key rel
    let useRecip := !relD.isSome && rt == id && t.ref.isSome && recip.isSome
    let relVal := if useRecip then rawRecip x.xd t.key recip else relD
    let rt := if useRecip && (rawRecip x.xd t.key recip).isSome then t.ref else rt
    match relVal with
    | .sym s =>
      (fitsTermP fuel x.ns term s).bind fun fr =>
        match fr with
        | .ok f =>
          match relDecide recs transitive t q rt f with
          | .inl st => .ret (.ok st)
          | .inr (q', rt') => relInnerP fuel x recs rel recip term transitive id rest q' rt'
        | .err => .ret .err | .panic => .ret .panic | .diverge => .ret .diverge | .depth => .ret .depth
    | _ => relInnerP fuel x recs rel recip term transitive id rest q rt

def relLoopP (fuel : Nat) (x : NsX) (recs : List RecX) (rel : Name) (recip term : Option Name) (transitive : Bool) :
    Nat → RecX → List Name → Option Name → Prog (Res Bool)
  | 0, _, _, _ => .ret .diverge
  | lf + 1, subject, q, rt =>
    (relInnerP fuel x recs rel recip term transitive subject.id subject.tags q rt).bind fun r =>
      match r with
      | .ok (.ret b) => .ret (.ok b)
      | .ok .done => .ret (.ok false)
      | .ok (.next s q' rt') => relLoopP fuel x recs rel recip term transitive lf s q' rt'
      | .err => .ret .err | .panic => .ret .panic | .diverge => .ret .diverge | .depth => .ret .depth

def hasRelationshipP (fuel lf : Nat) (x : NsX) (recs : List RecX) (rel : Name) (term target : Option Name)
    (subject : RecX) : Prog (Res Bool) :=
  match getX x.xd rel with
  | none => .ret (.ok false)
  | some rd =>
    (inhG fuel x.ns rel).bind fun ri =>
      match ri with
      | .ok inh =>
        if !inh.contains nRelationship then .ret (.ok false)
        else relLoopP fuel x recs rel (rd.getSymbol nReciprocalOf) term (rd.hasMarker nTransitive) lf subject [] target
      | .err => .ret .err | .panic => .ret .panic | .diverge => .ret .diverge | .depth => .ret .depth
end

/-! ### queries, answers, the cache-free answers -/

inductive Query where
  | sup (k : Name)
  | allSup (k : Name)
  | inh (k : Name)
  | fits (a b : Name)
  | reflect (r : Rec)
  | reflFits (r : Rec) (base : Name)
  /-- `associations(parent, association)` (`is`, `tag_on`, `tags` are instances) -/
  | assoc (parent a : Name)
  /-- `implementation(def)` -/
  | impl (k : Name)
  /-- `fits_marker` / `fits_val` / `fits_choice` / `fits_entity` -/
  | fitsRoot (which : Nat) (k : Name)
  /-- `has_relationship(subject, rel, term, target, resolve)` with the resolver's records -/
  | rel (recs : List NsA.RecX) (rel : Name) (term : Option Name) (target : Option Name) (subject : NsA.RecX)
deriving Repr, Inhabited

inductive Ans where
  | names (r : Res (List Name))
  | bool (r : Res Bool)
  | pair (r : Res (List Name × List Name))
deriving Repr, DecidableEq, Inhabited

structure Cfg where
  ns    : Ns
  fuel  : Nat
  /-- the DashMap shard of a key -/
  shard : Name → Nat
  /-- the full def dicts (Hs.Model.NsAssoc), read by the association / implementation / relationship queries -/
  xd    : NsA.DefsX := []

/-- the namespace as Hs.Model.NsAssoc sees it -/
def Cfg.x (cfg : Cfg) : NsA.NsX := { ns := cfg.ns, xd := cfg.xd }

/-- the pure loop of `compute_entity_type` -/
def entityLoop (fuel : Nat) (ns : Ns) : List Name → Res Unit
  | [] => .ok ()
  | d :: ds =>
    match inheritance fuel ns d with
    | .ok _ => entityLoop fuel ns ds
    | e => e.cast

/-- cache-free `reflect` including the `compute_entity_type` loop -/
def reflectFull (fuel : Nat) (ns : Ns) (r : Rec) : Res (List Name) :=
  match reflect fuel ns r with
  | .ok ds =>
    if defined ns.defs entityName then
      match entityLoop fuel ns ds with
      | .ok _ => .ok ds
      | x => x.cast
    else .ok ds
  | e => e

def reflFitsFull (fuel : Nat) (ns : Ns) (r : Rec) (base : Name) : Res Bool :=
  match reflectFull fuel ns r with
  | .ok ds => anyFits fuel ns base ds
  | e => e.cast

/-- the answer of the cache-free functions -/
def pureAns (cfg : Cfg) : Query → Ans
  | .sup k => .names (.ok (supertypesOf cfg.ns.defs k))
  | .allSup k => .names (allSupertypesOf cfg.fuel cfg.ns k)
  | .inh k => .names (inheritance cfg.fuel cfg.ns k)
  | .fits a b => .bool (fits cfg.fuel cfg.ns a b)
  | .reflect r => .names (reflectFull cfg.fuel cfg.ns r)
  | .reflFits r b => .bool (reflFitsFull cfg.fuel cfg.ns r b)
  | .assoc p a => .names (NsA.associations cfg.fuel cfg.x p a)
  | .impl k => .pair (NsA.implementation cfg.fuel cfg.x k)
  | .fitsRoot w k => .bool (NsA.fitsRoot cfg.fuel cfg.x w k)
  | .rel recs r term target s => .bool (hasRelationshipL cfg.fuel (recs.length + 1) cfg.x recs r term target s)

/-- the program of one query -/
def queryP (cfg : Cfg) : Query → Prog Ans
  | .sup k => (supG cfg.ns.defs k).bind fun r => .ret (.names r)
  | .allSup k => (allSupP cfg.fuel cfg.ns.defs k).bind fun r => .ret (.names r)
  | .inh k => (inhG cfg.fuel cfg.ns k).bind fun r => .ret (.names r)
  | .fits a b => (fitsP cfg.fuel cfg.ns a b).bind fun r => .ret (.bool r)
  | .reflect r => (reflectP cfg.fuel cfg.ns r).bind fun x => .ret (.names x)
  | .reflFits r b => (reflFitsP cfg.fuel cfg.ns r b).bind fun x => .ret (.bool x)
  | .assoc p a => (associationsP cfg.fuel cfg.x p a).bind fun x => .ret (.names x)
  | .impl k => (implementationP cfg.fuel cfg.x k).bind fun x => .ret (.pair x)
  | .fitsRoot w k => (fitsP cfg.fuel cfg.ns k (NsA.rootName w)).bind fun x => .ret (.bool x)
  | .rel recs r term target s =>
    (hasRelationshipP cfg.fuel (recs.length + 1) cfg.x recs r term target s).bind fun x => .ret (.bool x)

/-- a thread issues its queries one after the other -/
def runQs (cfg : Cfg) : List Query → Prog (List Ans)
  | [] => .ret []
  | q :: qs => (queryP cfg q).bind fun a => (runQs cfg qs).bind fun as => .ret (a :: as)

/-! ### the concurrent system -/

structure Caches where
  sup : List (Name × V)
  inh : List (Name × V)
deriving Repr, Inhabited

def alook (k : Name) : List (Name × V) → Option V
  | [] => none
  | (k', v) :: m => if k' = k then some v else alook k m

def look (c : CacheId) (k : Name) (cs : Caches) : Option V :=
  match c with
  | .sup => alook k cs.sup
  | .inh => alook k cs.inh

/-- `insert`: the new binding shadows an older one -/
def put (c : CacheId) (k : Name) (v : V) (cs : Caches) : Caches :=
  match c with
  | .sup => { cs with sup := (k, v) :: cs.sup }
  | .inh => { cs with inh := (k, v) :: cs.inh }

structure Thread where
  prog : Prog (List Ans)
  /-- read guards held (cache, key), most recent first -/
  held : List (CacheId × Name)

structure State where
  c   : Caches
  thr : List Thread

/-- does some thread hold a read guard on the shard of `(c, k)` ? -/
def shardHeld (cfg : Cfg) (s : State) (c : CacheId) (k : Name) : Bool :=
  s.thr.any fun u => u.held.any fun ck => ck.1 = c && cfg.shard ck.2 = cfg.shard k

/-- thread `t` is waiting for a write lock -/
def blocked (cfg : Cfg) (s : State) (t : Nat) : Bool :=
  match s.thr[t]? with
  | some th =>
    match th.prog with
    | .ins c k _ _ => shardHeld cfg s c k
    | _ => false
  | none => false

def finished (s : State) (t : Nat) : Bool :=
  match s.thr[t]? with
  | some th => th.prog.isRet
  | none => true

/-- thread `t` exists, has not finished and is not waiting -/
def enabled (cfg : Cfg) (s : State) (t : Nat) : Bool := !finished s t && !blocked cfg s t

/-- one operation of thread `t` -/
def step (cfg : Cfg) (s : State) (t : Nat) : State :=
  match s.thr[t]? with
  | none => s
  | some th =>
    match th.prog with
    | .ret _ => s
    | .get c k cont =>
      let r := look c k s.c
      { s with thr := s.thr.set t { prog := cont r, held := if r.isSome then (c, k) :: th.held else th.held } }
    | .has c k cont =>
      { s with thr := s.thr.set t { prog := cont (look c k s.c).isSome, held := th.held } }
    | .ins c k v cont =>
      if shardHeld cfg s c k then s
      else { c := put c k v s.c, thr := s.thr.set t { prog := cont, held := th.held } }
    | .drop cont =>
      { s with thr := s.thr.set t { prog := cont, held := th.held.tail } }

/-- run a schedule -/
def run (cfg : Cfg) (s : State) (sched : List Nat) : State := sched.foldl (step cfg) s

/-- the initial state: caches `c0` (cold: both empty), one thread per query list -/
def init (cfg : Cfg) (c0 : Caches) (qss : List (List Query)) : State :=
  { c := c0, thr := qss.map fun qs => { prog := runQs cfg qs, held := [] } }

def cold : Caches := { sup := [], inh := [] }

end Hs.NsCache
