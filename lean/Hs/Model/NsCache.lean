/-
  Hs.Model.NsCache — the two lazy caches of `Namespace` (`supertypes_of_cache`, `inheritance_of_cache`, both
  `DashMap<Symbol, Vec<&Dict>>`) as a small-step concurrent system (C14).

  * Shared state: the two caches (key ↦ value).  A DashMap operation (`get`, `contains_key`, `insert`) is
    atomic; `get` that finds the key hands out a READ GUARD on the key's shard which the thread holds until
    it drops it; `insert` needs the shard's write lock and cannot proceed while ANY thread (the inserting
    thread included) holds a read guard on that shard.
  * A thread runs a program `Prog`: a tree of cache operations whose continuations contain the thread-local
    computation.  The programs below are the code of `supertypes_of` and `inheritance` exactly as written -
    `get` → hit: read through the guard, drop it / miss: compute WITHOUT a guard → `contains_key` → `insert`
    if absent → `get(..).expect(..)`, read, drop - and of their callers `all_supertypes_of`, `fits`,
    `reflect` (`find_supertypes_from_defs` + the `inheritance` loop of `compute_entity_type`) and
    `Reflection::fits`.  Every caller in the crate reads the returned vector (`clone`, `contains`, `iter`,
    `is_empty`) and drops the guard before its next cache operation, so the drop is placed right after the
    read (`readP`, the `some` branch of `supG` / `inhG`).
  * `step : Cfg → State → ThreadId → State` runs one operation of one thread (no-op for a finished or blocked
    thread); a schedule is a `List ThreadId`; any number of threads.

  The cache-free functions are those of Hs.Model.Ns.  Core-only imports (linked into `hsdriver`).
-/
import Hs.Model.Ns
namespace Hs.NsCache
open Hs Hs.Ns

inductive CacheId where
  | sup | inh
deriving DecidableEq, Repr, Inhabited

abbrev V := List Name

/-- the remaining program of a thread -/
inductive Prog (α : Type) where
  | ret (a : α)
  /-- `cache.get(k)`: `some v` ⇒ the thread now holds a read guard on `k`'s shard -/
  | get (c : CacheId) (k : Name) (cont : Option V → Prog α)
  /-- `cache.contains_key(k)` -/
  | has (c : CacheId) (k : Name) (cont : Bool → Prog α)
  /-- `cache.insert(k, v)` (overwrites) -/
  | ins (c : CacheId) (k : Name) (v : V) (cont : Prog α)
  /-- the guard goes out of scope -/
  | drop (cont : Prog α)

namespace Prog
def bind {α β : Type} : Prog α → (α → Prog β) → Prog β
  | .ret a, f => f a
  | .get c k cont, f => .get c k (fun r => (cont r).bind f)
  | .has c k cont, f => .has c k (fun b => (cont b).bind f)
  | .ins c k v cont, f => .ins c k v (cont.bind f)
  | .drop cont, f => .drop (cont.bind f)

def isRet {α : Type} : Prog α → Bool
  | .ret _ => true
  | _ => false
end Prog

/-- re-type a non-`ok` outcome -/
def _root_.Hs.Res.cast {α β : Type} : Res α → Res β
  | .ok _ => .err
  | .err => .err | .panic => .panic | .diverge => .diverge | .depth => .depth

/-! ### the cached functions, as programs -/

/-- `cache.get(k).expect("Cached value")`, the caller's read, the drop of the guard -/
def readP (c : CacheId) (k : Name) : Prog (Res V) :=
  .get c k fun r =>
    match r with
    | some v => .drop (.ret (.ok v))
    | none => .ret .panic

/-- `if !cache.contains_key(k) { cache.insert(k, val) }  cache.get(k).expect(..)` -/
def storeP (c : CacheId) (k : Name) (val : V) : Prog (Res V) :=
  .has c k fun present =>
    if present then readP c k else .ins c k val (readP c k)

/-- `supertypes_of(k)` and the caller's read of the result -/
def supG (g : Defs) (k : Name) : Prog (Res V) :=
  .get .sup k fun r =>
    match r with
    | some v => .drop (.ret (.ok v))
    | none => storeP .sup k (supertypesOf g k)

/-- the `for def in defs` body of `all_supertypes_of`: `supertypes_of(def)` (a cache access) is only called for a
def that was not yet in the result set (`if super_types.insert(def) { .. }`) -/
def forBodyP (g : Defs) : List Name → List (List Name) → List Name → Prog (Res (List (List Name) × List Name))
  | [], st, acc => .ret (.ok (st, acc))
  | d :: ds, st, acc =>
    if d ∈ acc then forBodyP g ds st acc
    else
      (supG g d).bind fun r =>
        match r with
        | .ok nx => forBodyP g ds (if nx.isEmpty then st else nx :: st) (insertSet d acc)
        | e => .ret e.cast

/-- the `while` loop of `all_supertypes_of` -/
def wlP (g : Defs) : Nat → List (List Name) → List Name → Prog (Res (List Name))
  | _, [], acc => .ret (.ok acc)
  | 0, _ :: _, _ => .ret .diverge
  | fuel + 1, v :: st, acc =>
    (forBodyP g v st acc).bind fun r =>
      match r with
      | .ok p => wlP g fuel p.1 p.2
      | e => .ret e.cast

/-- `all_supertypes_of(s)` -/
def allSupP (fuel : Nat) (g : Defs) (s : Name) : Prog (Res (List Name)) :=
  (supG g s).bind fun r =>
    match r with
    | .ok v0 => wlP g fuel [v0] []
    | e => .ret e.cast

/-- the value `inheritance(k)` computes on a miss (calls `all_supertypes_of`, no guard held) -/
def computeInhP (fuel : Nat) (ns : Ns) (k : Name) : Prog (Res V) :=
  if defined ns.defs k then
    (allSupP fuel ns.defs k).bind fun r =>
      match r with
      | .ok all => .ret (.ok (extendSet [k] all))
      | e => .ret e
  else .ret (.ok [])

/-- `inheritance(k)` and the caller's read of the result -/
def inhG (fuel : Nat) (ns : Ns) (k : Name) : Prog (Res V) :=
  .get .inh k fun r =>
    match r with
    | some v => .drop (.ret (.ok v))
    | none =>
      (computeInhP fuel ns k).bind fun rv =>
        match rv with
        | .ok val => storeP .inh k val
        | e => .ret e

/-- `fits(a, b)` -/
def fitsP (fuel : Nat) (ns : Ns) (a b : Name) : Prog (Res Bool) :=
  if defined ns.defs b then
    (inhG fuel ns a).bind fun r =>
      match r with
      | .ok l => .ret (.ok (l.contains b))
      | e => .ret e.cast
  else .ret (.ok false)

/-- `find_supertypes_from_defs` -/
def findSupP (fuel : Nat) (g : Defs) : List Name → List Name → Prog (Res (List Name))
  | [], acc => .ret (.ok acc)
  | d :: ds, acc =>
    (allSupP fuel g d).bind fun r =>
      match r with
      | .ok all => findSupP fuel g ds (extendSet (insertSet d acc) all)
      | e => .ret e

def entityName : Name := ['e', 'n', 't', 'i', 't', 'y']

/-- the loop of `compute_entity_type`: `inheritance(def)` of every reflected def (read, dropped) -/
def entityP (fuel : Nat) (ns : Ns) : List Name → Prog (Res Unit)
  | [] => .ret (.ok ())
  | d :: ds =>
    (inhG fuel ns d).bind fun r =>
      match r with
      | .ok _ => entityP fuel ns ds
      | e => .ret e.cast

/-- `reflect(subject)` (the reflected defs; `compute_entity_type` only runs its loop when `entity` is a def) -/
def reflectP (fuel : Nat) (ns : Ns) (r : Rec) : Prog (Res (List Name)) :=
  (findSupP fuel ns.defs (tagDefs ns r ++ findConjuncts ns (markerTags r)) []).bind fun rv =>
    match rv with
    | .ok ds =>
      if defined ns.defs entityName then
        (entityP fuel ns ds).bind fun e =>
          match e with
          | .ok _ => .ret (.ok ds)
          | x => .ret x.cast
      else .ret (.ok ds)
    | e => .ret e

/-- `defs.iter().any(|def| ns.fits(def, base))` -/
def anyFitsP (fuel : Nat) (ns : Ns) (base : Name) : List Name → Prog (Res Bool)
  | [] => .ret (.ok false)
  | d :: ds =>
    (fitsP fuel ns d base).bind fun r =>
      match r with
      | .ok true => .ret (.ok true)
      | .ok false => anyFitsP fuel ns base ds
      | e => .ret e

/-- `reflect(subject).fits(base)` -/
def reflFitsP (fuel : Nat) (ns : Ns) (r : Rec) (base : Name) : Prog (Res Bool) :=
  (reflectP fuel ns r).bind fun rv =>
    match rv with
    | .ok ds => anyFitsP fuel ns base ds
    | e => .ret e.cast

/-! ### queries, answers, the cache-free answers -/

inductive Query where
  | sup (k : Name)
  | allSup (k : Name)
  | inh (k : Name)
  | fits (a b : Name)
  | reflect (r : Rec)
  | reflFits (r : Rec) (base : Name)
deriving Repr, Inhabited

inductive Ans where
  | names (r : Res (List Name))
  | bool (r : Res Bool)
deriving Repr, DecidableEq, Inhabited

structure Cfg where
  ns    : Ns
  fuel  : Nat
  /-- the DashMap shard of a key -/
  shard : Name → Nat

/-- the pure loop of `compute_entity_type` -/
def entityLoop (fuel : Nat) (ns : Ns) : List Name → Res Unit
  | [] => .ok ()
  | d :: ds =>
    match inheritance fuel ns d with
    | .ok _ => entityLoop fuel ns ds
    | e => e.cast

/-- cache-free `reflect` including the `compute_entity_type` loop -/
def reflectFull (fuel : Nat) (ns : Ns) (r : Rec) : Res (List Name) :=
  match reflect fuel ns r with
  | .ok ds =>
    if defined ns.defs entityName then
      match entityLoop fuel ns ds with
      | .ok _ => .ok ds
      | x => x.cast
    else .ok ds
  | e => e

def reflFitsFull (fuel : Nat) (ns : Ns) (r : Rec) (base : Name) : Res Bool :=
  match reflectFull fuel ns r with
  | .ok ds => anyFits fuel ns base ds
  | e => e.cast

/-- the answer of the cache-free functions -/
def pureAns (cfg : Cfg) : Query → Ans
  | .sup k => .names (.ok (supertypesOf cfg.ns.defs k))
  | .allSup k => .names (allSupertypesOf cfg.fuel cfg.ns k)
  | .inh k => .names (inheritance cfg.fuel cfg.ns k)
  | .fits a b => .bool (fits cfg.fuel cfg.ns a b)
  | .reflect r => .names (reflectFull cfg.fuel cfg.ns r)
  | .reflFits r b => .bool (reflFitsFull cfg.fuel cfg.ns r b)

/-- the program of one query -/
def queryP (cfg : Cfg) : Query → Prog Ans
  | .sup k => (supG cfg.ns.defs k).bind fun r => .ret (.names r)
  | .allSup k => (allSupP cfg.fuel cfg.ns.defs k).bind fun r => .ret (.names r)
  | .inh k => (inhG cfg.fuel cfg.ns k).bind fun r => .ret (.names r)
  | .fits a b => (fitsP cfg.fuel cfg.ns a b).bind fun r => .ret (.bool r)
  | .reflect r => (reflectP cfg.fuel cfg.ns r).bind fun x => .ret (.names x)
  | .reflFits r b => (reflFitsP cfg.fuel cfg.ns r b).bind fun x => .ret (.bool x)

/-- a thread issues its queries one after the other -/
def runQs (cfg : Cfg) : List Query → Prog (List Ans)
  | [] => .ret []
  | q :: qs => (queryP cfg q).bind fun a => (runQs cfg qs).bind fun as => .ret (a :: as)

/-! ### the concurrent system -/

structure Caches where
  sup : List (Name × V)
  inh : List (Name × V)
deriving Repr, Inhabited

def alook (k : Name) : List (Name × V) → Option V
  | [] => none
  | (k', v) :: m => if k' = k then some v else alook k m

def look (c : CacheId) (k : Name) (cs : Caches) : Option V :=
  match c with
  | .sup => alook k cs.sup
  | .inh => alook k cs.inh

/-- `insert`: the new binding shadows an older one -/
def put (c : CacheId) (k : Name) (v : V) (cs : Caches) : Caches :=
  match c with
  | .sup => { cs with sup := (k, v) :: cs.sup }
  | .inh => { cs with inh := (k, v) :: cs.inh }

structure Thread where
  prog : Prog (List Ans)
  /-- read guards held (cache, key), most recent first -/
  held : List (CacheId × Name)

structure State where
  c   : Caches
  thr : List Thread

/-- does some thread hold a read guard on the shard of `(c, k)` ? -/
def shardHeld (cfg : Cfg) (s : State) (c : CacheId) (k : Name) : Bool :=
  s.thr.any fun u => u.held.any fun ck => ck.1 = c && cfg.shard ck.2 = cfg.shard k

/-- thread `t` is waiting for a write lock -/
def blocked (cfg : Cfg) (s : State) (t : Nat) : Bool :=
  match s.thr[t]? with
  | some th =>
    match th.prog with
    | .ins c k _ _ => shardHeld cfg s c k
    | _ => false
  | none => false

def finished (s : State) (t : Nat) : Bool :=
  match s.thr[t]? with
  | some th => th.prog.isRet
  | none => true

/-- thread `t` exists, has not finished and is not waiting -/
def enabled (cfg : Cfg) (s : State) (t : Nat) : Bool := !finished s t && !blocked cfg s t

/-- one operation of thread `t` -/
def step (cfg : Cfg) (s : State) (t : Nat) : State :=
  match s.thr[t]? with
  | none => s
  | some th =>
    match th.prog with
    | .ret _ => s
    | .get c k cont =>
      let r := look c k s.c
      { s with thr := s.thr.set t { prog := cont r, held := if r.isSome then (c, k) :: th.held else th.held } }
    | .has c k cont =>
      { s with thr := s.thr.set t { prog := cont (look c k s.c).isSome, held := th.held } }
    | .ins c k v cont =>
      if shardHeld cfg s c k then s
      else { c := put c k v s.c, thr := s.thr.set t { prog := cont, held := th.held } }
    | .drop cont =>
      { s with thr := s.thr.set t { prog := cont, held := th.held.tail } }

/-- run a schedule -/
def run (cfg : Cfg) (s : State) (sched : List Nat) : State := sched.foldl (step cfg) s

/-- the initial state: caches `c0` (cold: both empty), one thread per query list -/
def init (cfg : Cfg) (c0 : Caches) (qss : List (List Query)) : State :=
  { c := c0, thr := qss.map fun qs => { prog := runQs cfg qs, held := [] } }

def cold : Caches := { sup := [], inh := [] }

end Hs.NsCache
