/-
  Hs.Model.FilterLoops — the two evaluation loops of a filter that chase Refs through a resolver:
  `WildcardEq::eval` (filter/nodes.rs) and `Namespace::has_relationship` (defs/namespace.rs), each
  with its visited set (`resolved_refs`, `queried_refs`: a `HashSet<Ref>`, Refs compared by id).

  The resolver is a finite record list (`resolve_ref` = the first record with that id).  What the
  loops read besides the refs is abstracted to what they do with it:
  * wildcard: per record, whether it is empty and what the term's path resolves to in it;
  * relationship: per tag of a record, the Ref it holds (if any) and what the tag's def says for the
    relationship and for its reciprocal (absent / not a symbol / a symbol that fits the term or not).
  Loops take fuel and answer `diverge` when it runs out (C09: they never do).
  Core-only imports: linked into `hsdriver`.
-/
import Hs.Model.Val
namespace Hs.FLoops
open Hs

abbrev RefId := List Char

/-! ### `WildcardEq::eval` -/

/-- a record as the wildcard loop sees it -/
structure RecView where
  id : Option RefId
  empty : Bool
  /-- `context.resolve_for_dict(&dict, &self.id)` -/
  target : Val
deriving Inhabited

/-- `resolver.resolve_ref(r)` -/
def resolveView (recs : List RecView) (r : RefId) : Option RecView :=
  recs.find? (fun rv => rv.id == some r)

/-- the `while let Value::Ref(cur_ref) = &resolved_value` loop; `visited` = `resolved_refs` -/
def weqLoop (recs : List RecView) (target : RefId) : Nat → List RefId → Val → Res Bool
  | 0, _, _ => .diverge
  | fuel + 1, visited, v =>
    match v with
    | .ref cur _ =>
      if cur == target then .ok true
      else if visited.contains cur then .ok false
      else
        match resolveView recs cur with
        | some rv =>
          if !rv.empty then weqLoop recs target fuel (cur :: visited) rv.target
          else weqLoop recs target fuel (cur :: visited) v
        | none => .ok false
    | _ => .ok false

/-- `WildcardEq::eval`: `start` = `context.resolve(&self.id)` -/
def weqEval (recs : List RecView) (target : RefId) (start : Val) (fuel : Nat) : Res Bool :=
  weqLoop recs target fuel [] start

/-! ### `Namespace::has_relationship` -/

/-- `subject_def.and_then(|def| def.get(name))` as the loop uses it -/
inductive DefVal where
  | absent
  | other
  | sym (fits : Bool)
deriving Inhabited, DecidableEq

def DefVal.isSome : DefVal → Bool
  | .absent => false
  | _ => true

/-- one tag of a record -/
structure Entry where
  /-- the tag's value when it is a Ref -/
  ref : Option RefId
  /-- the tag's def entry for the relationship -/
  rel : DefVal
  /-- the tag's def entry for the reciprocal relationship -/
  recip : DefVal
deriving Inhabited

structure Rec where
  /-- the name the resolver knows the record under (`resolve(&ref)` answers it for that ref) -/
  key : Option RefId
  /-- the record's own `id` tag (`cur_subject.get_ref("id")`); nothing obliges a resolver to hand out records
  whose `id` is the ref they were asked for -/
  id : Option RefId
  entries : List Entry
deriving Inhabited

def resolveRec (recs : List Rec) (r : RefId) : Option Rec :=
  recs.find? (fun rc => rc.key == some r)

/-- outcome of one pass over the subject's tags -/
inductive Step where
  | ret (b : Bool)
  | next (subject : Rec) (queried : List RefId) (refTag : Option RefId)
  | done

/-- the `for (subject_key, subject_val) in cur_subject.iter()` body; `id` = `cur_subject.get_ref("id")` -/
def relInner (recs : List Rec) (transitive hasRecip : Bool) (id : Option RefId) :
    List Entry → List RefId → Option RefId → Step
  | [], _, _ => .done
  | e :: rest, q, rt =>
    let useRecip := !e.rel.isSome && rt == id && e.ref.isSome && hasRecip
    let relVal := if useRecip then e.recip else e.rel
    let rt := if useRecip && e.recip.isSome then e.ref else rt
    match relVal with
    | .sym fits =>
      if fits && rt.isSome then
        if e.ref.isSome && e.ref == rt then .ret true
        else if transitive then
          match e.ref with
          | some sv =>
            if !q.contains sv then
              match resolveRec recs sv with
              | some new =>
                if !new.entries.isEmpty then .next new (sv :: q) rt
                else relInner recs transitive hasRecip id rest (sv :: q) rt
              | none => relInner recs transitive hasRecip id rest (sv :: q) rt
            else relInner recs transitive hasRecip id rest q rt
          | none => relInner recs transitive hasRecip id rest q rt
        else relInner recs transitive hasRecip id rest q rt
      else if fits then .ret true
      else relInner recs transitive hasRecip id rest q rt
    | _ => relInner recs transitive hasRecip id rest q rt

/-- the `'search: loop` -/
def relLoop (recs : List Rec) (transitive hasRecip : Bool) : Nat → Rec → List RefId → Option RefId → Res Bool
  | 0, _, _, _ => .diverge
  | fuel + 1, subject, q, rt =>
    match relInner recs transitive hasRecip subject.id subject.entries q rt with
    | .ret b => .ok b
    | .done => .ok false
    | .next s q' rt' => relLoop recs transitive hasRecip fuel s q' rt'

/-- `has_relationship`: `isRel` = the relationship is defined and inherits from `relationship` -/
def hasRelationship (recs : List Rec) (isRel transitive hasRecip : Bool) (target : Option RefId)
    (subject : Rec) (fuel : Nat) : Res Bool :=
  if !isRel then .ok false else relLoop recs transitive hasRecip fuel subject [] target

def viewIds (recs : List RecView) : List RefId := recs.filterMap (·.id)
def recIds (recs : List Rec) : List RefId := recs.filterMap (·.key)

end Hs.FLoops
