/-
  Hs.Model.Filter — model of Haystack filter evaluation (src/haystack/filter/{nodes,eval,resolver,
  path}.rs, filter/filtered/{dict,grid}.rs).

  Mirrored one item at a time:
    * the AST of nodes.rs: `Or { ands }`, `And { terms }`, `Term` with its seven variants
      (`FOr` / `FAnd` are the two `Vec`s, hand-rolled so that the family is plainly mutual);
    * `impl Eval for Or/And/Term/Parens/Has/Missing/IsA/WildcardEq/Relation/Cmp`, `cmp_dispatch`,
      `same_kind_and` (the code AFTER the fixes b2483f0 / 13ecceb: a Null left-hand side matches no
      comparison; `< <= > >=` require equal `mem::discriminant`s);
    * `impl PathResolver for Dict` (walks nested dicts, `Null` when a segment is absent);
    * `impl Filtered for Dict`, `impl Filtered for Grid` (`find`), `impl ListFiltered for Grid`.
  A caller-supplied `PathResolver` is an abstract `Resolver`; the one the harness supplies
  (`Recs`: a finite record list keyed by the `id` tag, Refs are followed while walking a path)
  is `recsResolver`.  The namespace (`IsA`, `Relation`) is an abstract oracle of the context
  (C13 covers the namespace itself).
  Core-only imports: linked into `hsdriver`.
-/
import Hs.Model.Cmp
namespace Hs

/-- `Path { segments: Vec<Id> }` -/
abbrev FPath := List (List Char)

/-- `enum CmpOp` -/
inductive CmpOp where
  | eq | ne | lt | le | gt | ge
deriving Repr, DecidableEq, Inhabited

mutual
/-- `enum Term` -/
inductive FTerm where
  | parens (o : FOr)
  | has (p : FPath)
  | missing (p : FPath)
  | isA (sym : List Char)
  | wildcardEq (p : FPath) (refId : List Char)
  | relation (rel : List Char) (relTerm : Option (List Char)) (refId : Option (List Char))
  | cmp (p : FPath) (op : CmpOp) (v : Val)
/-- `And { terms: Vec<Term> }` -/
inductive FAnd where
  | nil
  | cons (t : FTerm) (ts : FAnd)
/-- `Or { ands: Vec<And> }` (a `Filter` is an `Or`) -/
inductive FOr where
  | nil
  | cons (a : FAnd) (as : FOr)
end

instance : Inhabited FOr := ⟨.nil⟩
instance : Inhabited FAnd := ⟨.nil⟩
instance : Inhabited FTerm := ⟨.parens .nil⟩

def FAnd.toList : FAnd → List FTerm
  | .nil => []
  | .cons t ts => t :: ts.toList
def FAnd.ofList : List FTerm → FAnd
  | [] => .nil
  | t :: ts => .cons t (FAnd.ofList ts)
def FOr.toList : FOr → List FAnd
  | .nil => []
  | .cons a as => a :: as.toList
def FOr.ofList : List FAnd → FOr
  | [] => .nil
  | a :: as => .cons a (FOr.ofList as)

def Val.isNull : Val → Bool
  | .null => true
  | _ => false
def Val.isList : Val → Bool
  | .list _ => true
  | _ => false

/-! ### the comparison closures handed to `cmp_dispatch` -/

/-- `PartialOrd::lt` (default method: `matches!(partial_cmp, Some(Less))`) -/
def ordLt : Option Ordering → Bool
  | some .lt => true
  | _ => false
def ordLe : Option Ordering → Bool
  | some .lt => true
  | some .eq => true
  | _ => false
def ordGt : Option Ordering → Bool
  | some .gt => true
  | _ => false
def ordGe : Option Ordering → Bool
  | some .gt => true
  | some .eq => true
  | _ => false

/-- `std::mem::discriminant(lhs) == std::mem::discriminant(rhs)` -/
def sameKind (a b : Val) : Bool := a.kindIdx == b.kindIdx

/-- The closure `Cmp::eval` selects for an operator: `PartialEq::eq`, `PartialEq::ne`,
`same_kind_and(PartialOrd::lt)` … -/
def CmpOp.apply (op : CmpOp) (a b : Val) : Bool :=
  match op with
  | .eq => Val.eqv a b
  | .ne => !Val.eqv a b
  | .lt => sameKind a b && ordLt (Val.pcmp a b)
  | .le => sameKind a b && ordLe (Val.pcmp a b)
  | .gt => sameKind a b && ordGt (Val.pcmp a b)
  | .ge => sameKind a b && ordGe (Val.pcmp a b)

mutual
/-- `cmp_dispatch(cmp, lhs, rhs)` -/
def cmpDispatch (op : CmpOp) : Val → Val → Bool
  | .null, _ => false
  | .list xs, rhs =>
    if !rhs.isList then cmpDispatchAny op xs rhs else op.apply (.list xs) rhs
  | lhs, rhs => op.apply lhs rhs
/-- `list.iter().any(|el| cmp_dispatch(cmp, el, rhs))` -/
def cmpDispatchAny (op : CmpOp) : Vals → Val → Bool
  | .nil, _ => false
  | .cons x xs, rhs => cmpDispatch op x rhs || cmpDispatchAny op xs rhs
end

/-! ### resolvers -/

/-- What `Eval` uses of a `PathResolver`: `resolve_for`, `resolve_ref`.  `wildFuel` bounds the
`while let` loop of `WildcardEq::eval` in the model (see `wildLoop`). -/
structure Resolver where
  resolveFor : Tags → FPath → Val
  resolveRef : List Char → Option Tags
  wildFuel : Nat

/-- The loop body shared by the path walkers: `for segment in path.iter() { cur_val = step(cur_val,
segment); if cur_val.is_null() { break; } }` -/
def walkPath (step : Val → List Char → Val) : Val → FPath → Val
  | cur, [] => cur
  | cur, seg :: rest =>
    let v := step cur seg
    if v.isNull then v else walkPath step v rest

/-- `dict.get(&segment.to_string()).map_or(Value::Null, |v| v.clone())` -/
def Tags.getOrNull (d : Tags) (seg : List Char) : Val :=
  match d.get? seg with
  | some v => v
  | none => .null

/-- one segment of `impl PathResolver for Dict` -/
def dictStep (cur : Val) (seg : List Char) : Val :=
  match cur with
  | .dict d => d.getOrNull seg
  | _ => .null

/-- `<Dict as PathResolver>::resolve_for` -/
def dictResolveFor (root : Tags) (path : FPath) : Val :=
  if path.isEmpty || root.isEmpty then .null
  else walkPath dictStep (.dict root) path

/-- `impl PathResolver for Dict`: `resolve_ref` is `None` -/
def dictResolver : Resolver :=
  { resolveFor := dictResolveFor, resolveRef := fun _ => none, wildFuel := 2 }

/-- the `id` tag of a record, when it is a Ref (`rec.get_ref("id")`) -/
def Tags.refId (r : Tags) : Option (List Char) :=
  match r.get? ['i', 'd'] with
  | some (.ref i _) => some i
  | _ => none

/-- harness `Recs::resolve_ref`: the first record whose `id` tag is that Ref (`Ref == Ref` compares
the id only) -/
def recsResolveRef (recs : List Tags) (id : List Char) : Option Tags :=
  recs.find? (fun r => r.refId == some id)

/-- one segment of harness `Recs::resolve_for`: a Dict is indexed, a Ref is dereferenced and the
record it names is indexed -/
def recsStep (recs : List Tags) (cur : Val) (seg : List Char) : Val :=
  match cur with
  | .dict d => d.getOrNull seg
  | .ref id _ =>
    match recsResolveRef recs id with
    | some d => d.getOrNull seg
    | none => .null
  | _ => .null

def recsResolveFor (recs : List Tags) (root : Tags) (path : FPath) : Val :=
  if path.isEmpty || root.isEmpty then .null
  else walkPath (recsStep recs) (.dict root) path

/-- the caller-supplied resolver of the harness -/
def recsResolver (recs : List Tags) : Resolver :=
  { resolveFor := recsResolveFor recs, resolveRef := recsResolveRef recs,
    wildFuel := recs.length + 2 }

/-! ### evaluation -/

/-- `EvalContext { dict, ns, resolver }`; of the namespace only the two queries `Eval` makes:
`ns.reflect(dict).fits(symbol)` and `ns.has_relationship(dict, rel, rel_term, ref_value, resolve)`. -/
structure Ctx where
  dict : Tags
  res : Resolver
  fits : Tags → List Char → Bool
  rel : Tags → List Char → Option (List Char) → Option (List Char) → Bool

/-- `EvalContext::resolve` -/
def Ctx.resolve (cx : Ctx) (p : FPath) : Val := cx.res.resolveFor cx.dict p

/-- The `while let Value::Ref(cur_ref) = &resolved_value` loop of `WildcardEq::eval`; `seen` is
`resolved_refs` (a `HashSet<Ref>`: Refs hash and compare by id).  `none`: the fuel ran out. -/
def wildLoop (res : Resolver) (p : FPath) (target : List Char) :
    Nat → List (List Char) → Val → Option Bool
  | 0, _, _ => none
  | fuel + 1, seen, cur =>
    match cur with
    | .ref id dis =>
      if id = target then some true
      else if seen.contains id then some false
      else
        match res.resolveRef id with
        | some d =>
          if !d.isEmpty then wildLoop res p target fuel (id :: seen) (res.resolveFor d p)
          else wildLoop res p target fuel (id :: seen) (.ref id dis)
        | none => some false
    | _ => some false

def wildcardEval (cx : Ctx) (p : FPath) (target : List Char) : Option Bool :=
  wildLoop cx.res p target cx.res.wildFuel [] (cx.resolve p)

mutual
/-- `impl Eval for Term` and the `impl Eval` of each variant's payload -/
def FTerm.evalImpl (cx : Ctx) : FTerm → Bool
  | .parens o => FOr.evalImpl cx o
  | .has p => !(cx.resolve p).isNull
  | .missing p => (cx.resolve p).isNull
  | .isA sym => cx.fits cx.dict sym
  | .wildcardEq p r => (wildcardEval cx p r).getD false
  | .relation rel t r => cx.rel cx.dict rel t r
  | .cmp p op v => cmpDispatch op (cx.resolve p) v
/-- `self.terms.iter().all(|term| term.eval(context))` -/
def FAnd.evalImpl (cx : Ctx) : FAnd → Bool
  | .nil => true
  | .cons t ts => FTerm.evalImpl cx t && FAnd.evalImpl cx ts
/-- `self.ands.iter().any(|and| and.eval(context))` -/
def FOr.evalImpl (cx : Ctx) : FOr → Bool
  | .nil => false
  | .cons a as => FAnd.evalImpl cx a || FOr.evalImpl cx as
end

mutual
/-- does some `WildcardEq` loop of the filter run out of model fuel (never, see
`Hs.wildLoop_terminates`; the driver reports it as `diverge`) -/
def FTerm.diverges (cx : Ctx) : FTerm → Bool
  | .parens o => FOr.diverges cx o
  | .wildcardEq p r => (wildcardEval cx p r).isNone
  | _ => false
def FAnd.diverges (cx : Ctx) : FAnd → Bool
  | .nil => false
  | .cons t ts => FTerm.diverges cx t || FAnd.diverges cx ts
def FOr.diverges (cx : Ctx) : FOr → Bool
  | .nil => false
  | .cons a as => FAnd.diverges cx a || FOr.diverges cx as
end

/-- the context `impl Filtered for Dict` builds: `EvalContext::make(self, &DEFAULT_NS, self)` -/
def dictCtx (fits : Tags → List Char → Bool)
    (rel : Tags → List Char → Option (List Char) → Option (List Char) → Bool) (d : Tags) : Ctx :=
  { dict := d, res := dictResolver, fits := fits, rel := rel }

/-- the context the harness builds around its resolver: `EvalContext::make(rec, ns, &recs)` -/
def recsCtx (recs : List Tags) (fits : Tags → List Char → Bool)
    (rel : Tags → List Char → Option (List Char) → Option (List Char) → Bool) (d : Tags) : Ctx :=
  { dict := d, res := recsResolver recs, fits := fits, rel := rel }

/-- `<Dict as Filtered>::filter` -/
def dictFilter (fits : Tags → List Char → Bool)
    (rel : Tags → List Char → Option (List Char) → Option (List Char) → Bool) (f : FOr) (d : Tags) : Bool :=
  FOr.evalImpl (dictCtx fits rel d) f

/-- `<Grid as Filtered>::filter`: `self.rows.iter().find(|&dict| dict.filter(filter))` -/
def filterFirst (flt : Tags → Bool) : Rows → Option Tags
  | .nil => none
  | .cons r rs => if flt r then some r else filterFirst flt rs

/-- the `for dict in &self.rows { if dict.filter(filter) { dicts.push(dict) } }` loop of
`<Grid as ListFiltered>::filter_all`; `acc` is `dicts` -/
def filterAllLoop (flt : Tags → Bool) : Rows → List Tags → List Tags
  | .nil, acc => acc
  | .cons r rs, acc => if flt r then filterAllLoop flt rs (acc ++ [r]) else filterAllLoop flt rs acc

/-- `<Grid as ListFiltered>::filter_all` -/
def filterAll (flt : Tags → Bool) (rows : Rows) : List Tags := filterAllLoop flt rows []

end Hs
