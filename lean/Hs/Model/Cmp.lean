/-
  Hs.Model.Cmp — model of `PartialEq`, `Hash`, `Ord` and `PartialOrd` for `Value` and every
  type it contains (src/haystack/val/*.rs, units/unit.rs).

  Hand-written impls mirrored: Number, Coord, Ref, Dict, Date, Time, DateTime, Value::eq/hash.
  Derived impls mirrored by their documented semantics (lexicographic in declaration order,
  enum variants by declaration index): Bool, Str, Uri, Symbol, XStr, Column, Grid, Value's
  PartialOrd/Ord, Option (None < Some), Vec and BTreeMap (lexicographic, shorter prefix first).
-/
import Hs.Model.Val
namespace Hs

/-! ### f64 comparisons -/

def Flt.isNaN (f : Flt) : Bool :=
  (f.bits / 2 ^ 52) % 2048 == 2047 && f.bits % 2 ^ 52 != 0

/-- Sign-magnitude key: for non-NaN doubles, IEEE `<`/`==` is `<`/`=` on keys (`±0 ↦ 0`). -/
def Flt.key (f : Flt) : Int :=
  if f.bits / 2 ^ 63 % 2 = 1 then - ((f.bits % 2 ^ 63 : Nat) : Int) else ((f.bits % 2 ^ 63 : Nat) : Int)

def Flt.flt (x y : Flt) : Bool := !x.isNaN && !y.isNaN && decide (x.key < y.key)
def Flt.feq (x y : Flt) : Bool := !x.isNaN && !y.isNaN && decide (x.key = y.key)
/-- `f64::partial_cmp` -/
def Flt.pcmp (x y : Flt) : Option Ordering :=
  if x.isNaN || y.isNaN then none else some (compare x.key y.key)
/-- bits of `x + 0.0`: maps `-0.0` to `+0.0`, quiets a signalling NaN (the addition sets the quiet
bit), leaves everything else unchanged.  Bit patterns are `< 2^64`, so `% 2^64` is the identity on real data. -/
def Flt.hashBits (x : Flt) : Nat :=
  if x.bits % 2 ^ 63 = 0 then 0
  else if x.isNaN then (if x.bits / 2 ^ 51 % 2 = 1 then x.bits % 2 ^ 64 else x.bits % 2 ^ 64 + 2 ^ 51)
  else x.bits % 2 ^ 64

/-! ### building blocks -/

def cmpChars : List Char → List Char → Ordering
  | [], [] => .eq
  | [], _ :: _ => .lt
  | _ :: _, [] => .gt
  | a :: as, b :: bs => (compare a.toNat b.toNat).then (cmpChars as bs)

def cmpOpt {α} (c : α → α → Ordering) : Option α → Option α → Ordering
  | none, none => .eq
  | none, some _ => .lt
  | some _, none => .gt
  | some a, some b => c a b

def cmpList {α} (c : α → α → Ordering) : List α → List α → Ordering
  | [], [] => .eq
  | [], _ :: _ => .lt
  | _ :: _, [] => .gt
  | a :: as, b :: bs => (c a b).then (cmpList c as bs)

def pThen (o : Option Ordering) (k : Unit → Option Ordering) : Option Ordering :=
  match o with
  | some .eq => k ()
  | other => other

def pcmpOpt {α} (c : α → α → Option Ordering) : Option α → Option α → Option Ordering
  | none, none => some .eq
  | none, some _ => some .lt
  | some _, none => some .gt
  | some a, some b => c a b

def eqOpt {α} (e : α → α → Bool) : Option α → Option α → Bool
  | none, none => true
  | some a, some b => e a b
  | _, _ => false

/-! ### scalars -/

def Num.eqv (a b : Num) : Bool := a.v.feq b.v && a.unit == b.unit
/-- `Ord for Number` (after the fix: equal magnitudes are ordered by unit symbol) -/
def Num.cmp (a b : Num) : Ordering :=
  if a.v.flt b.v then .lt
  else if a.v.feq b.v then cmpOpt cmpChars a.unit b.unit
  else .gt
def Num.pcmp (a b : Num) : Option Ordering :=
  if a.unit == b.unit then a.v.pcmp b.v else none

def Date.cmp (a b : Date) : Ordering :=
  (compare a.y b.y).then ((compare a.m b.m).then (compare a.d b.d))
def Time.secs (t : Time) : Nat := t.h * 3600 + t.mi * 60 + t.s
def Time.cmp (a b : Time) : Ordering := (compare a.secs b.secs).then (compare a.ns b.ns)
def DateTime.cmp (a b : DateTime) : Ordering := (compare a.secs b.secs).then (compare a.ns b.ns)

def coordEq (a1 a2 b1 b2 : Flt) : Bool := a1.feq b1 && a2.feq b2
def coordCmp (a1 a2 b1 b2 : Flt) : Ordering :=
  if a1.flt b1 then .lt else if b1.flt a1 then .gt
  else if a2.flt b2 then .lt else if b2.flt a2 then .gt else .eq
def coordPcmp (a1 a2 b1 b2 : Flt) : Option Ordering :=
  match a1.pcmp b1 with
  | none => none
  | some .eq => a2.pcmp b2
  | some o => some o

/-! ### Value -/

mutual
def Val.eqv : Val → Val → Bool
  | .null, .null => true
  | .remove, .remove => true
  | .marker, .marker => true
  | .na, .na => true
  | .bool a, .bool b => a == b
  | .num a, .num b => a.eqv b
  | .str a, .str b => a == b
  | .uri a, .uri b => a == b
  | .ref a _, .ref b _ => a == b
  | .sym a, .sym b => a == b
  | .date a, .date b => a.cmp b == .eq
  | .time a, .time b => a.cmp b == .eq
  | .dateTime a, .dateTime b => a.cmp b == .eq
  | .coord a1 a2, .coord b1 b2 => coordEq a1 a2 b1 b2
  | .xstr a1 a2, .xstr b1 b2 => a1 == b1 && a2 == b2
  | .list a, .list b => Vals.eqv a b
  | .dict a, .dict b => Tags.eqv a b
  | .grid am ac ar av, .grid bm bc br bv =>
      OTags.eqv am bm && Cols.eqv ac bc && Rows.eqv ar br && av == bv
  | _, _ => false
def Vals.eqv : Vals → Vals → Bool
  | .nil, .nil => true
  | .cons a as, .cons b bs => Val.eqv a b && Vals.eqv as bs
  | _, _ => false
def Tags.eqv : Tags → Tags → Bool
  | .nil, .nil => true
  | .cons k a as, .cons l b bs => k == l && Val.eqv a b && Tags.eqv as bs
  | _, _ => false
def OTags.eqv : OTags → OTags → Bool
  | .none, .none => true
  | .some a, .some b => Tags.eqv a b
  | _, _ => false
def Cols.eqv : Cols → Cols → Bool
  | .nil, .nil => true
  | .cons n m c, .cons n' m' c' => n == n' && OTags.eqv m m' && Cols.eqv c c'
  | _, _ => false
def Rows.eqv : Rows → Rows → Bool
  | .nil, .nil => true
  | .cons r rs, .cons r' rs' => Tags.eqv r r' && Rows.eqv rs rs'
  | _, _ => false
end

/- Payload comparison for two values of the same kind (`.eq` for mismatched kinds, which
`Val.cmp` never asks for). -/
mutual
def Val.cmpSame : Val → Val → Ordering
  | .bool a, .bool b => compare a.toNat b.toNat
  | .num a, .num b => a.cmp b
  | .str a, .str b => cmpChars a b
  | .uri a, .uri b => cmpChars a b
  | .ref a _, .ref b _ => cmpChars a b
  | .sym a, .sym b => cmpChars a b
  | .date a, .date b => a.cmp b
  | .time a, .time b => a.cmp b
  | .dateTime a, .dateTime b => a.cmp b
  | .coord a1 a2, .coord b1 b2 => coordCmp a1 a2 b1 b2
  | .xstr a1 a2, .xstr b1 b2 => (cmpChars a1 b1).then (cmpChars a2 b2)
  | .list a, .list b => Vals.cmp a b
  | .dict a, .dict b => Tags.cmp a b
  | .grid am ac ar av, .grid bm bc br bv =>
      (OTags.cmp am bm).then ((Cols.cmp ac bc).then ((Rows.cmp ar br).then (cmpChars av bv)))
  | _, _ => .eq
/-- derived `Ord for Value`: variant index first, then the payload -/
def Val.cmp (a b : Val) : Ordering :=
  (compare a.kindIdx b.kindIdx).then (Val.cmpSame a b)
def Vals.cmp : Vals → Vals → Ordering
  | .nil, .nil => .eq
  | .nil, .cons _ _ => .lt
  | .cons _ _, .nil => .gt
  | .cons a as, .cons b bs => (Val.cmp a b).then (Vals.cmp as bs)
/-- `Ord for Dict`: all keys first, then all values -/
def Tags.cmp (a b : Tags) : Ordering :=
  (cmpList cmpChars a.keys b.keys).then (Tags.cmpVals a b)
/-- `self.value.values().cmp(other.value.values())` -/
def Tags.cmpVals : Tags → Tags → Ordering
  | .nil, .nil => .eq
  | .nil, .cons _ _ _ => .lt
  | .cons _ _ _, .nil => .gt
  | .cons _ a as, .cons _ b bs => (Val.cmp a b).then (Tags.cmpVals as bs)
def OTags.cmp : OTags → OTags → Ordering
  | .none, .none => .eq
  | .none, .some _ => .lt
  | .some _, .none => .gt
  | .some a, .some b => Tags.cmp a b
def Cols.cmp : Cols → Cols → Ordering
  | .nil, .nil => .eq
  | .nil, .cons _ _ _ => .lt
  | .cons _ _ _, .nil => .gt
  | .cons n m c, .cons n' m' c' =>
      ((cmpChars n n').then (OTags.cmp m m')).then (Cols.cmp c c')
def Rows.cmp : Rows → Rows → Ordering
  | .nil, .nil => .eq
  | .nil, .cons _ _ => .lt
  | .cons _ _, .nil => .gt
  | .cons r rs, .cons r' rs' => (Tags.cmp r r').then (Rows.cmp rs rs')
end

mutual
def Val.pcmpSame : Val → Val → Option Ordering
  | .bool a, .bool b => some (compare a.toNat b.toNat)
  | .num a, .num b => a.pcmp b
  | .str a, .str b => some (cmpChars a b)
  | .uri a, .uri b => some (cmpChars a b)
  | .ref a _, .ref b _ => some (cmpChars a b)
  | .sym a, .sym b => some (cmpChars a b)
  | .date a, .date b => some (a.cmp b)
  | .time a, .time b => some (a.cmp b)
  | .dateTime a, .dateTime b => some (a.cmp b)
  | .coord a1 a2, .coord b1 b2 => coordPcmp a1 a2 b1 b2
  | .xstr a1 a2, .xstr b1 b2 => some ((cmpChars a1 b1).then (cmpChars a2 b2))
  | .list a, .list b => Vals.pcmp a b
  | .dict a, .dict b => Tags.pcmp a b
  | .grid am ac ar av, .grid bm bc br bv =>
      pThen (OTags.pcmp am bm) fun _ => pThen (Cols.pcmp ac bc) fun _ =>
        pThen (Rows.pcmp ar br) fun _ => some (cmpChars av bv)
  | _, _ => some .eq
/-- derived `PartialOrd for Value` -/
def Val.pcmp (a b : Val) : Option Ordering :=
  match compare a.kindIdx b.kindIdx with
  | .eq => Val.pcmpSame a b
  | o => some o
def Vals.pcmp : Vals → Vals → Option Ordering
  | .nil, .nil => some .eq
  | .nil, .cons _ _ => some .lt
  | .cons _ _, .nil => some .gt
  | .cons a as, .cons b bs => pThen (Val.pcmp a b) fun _ => Vals.pcmp as bs
/-- `PartialOrd for Dict` (after the fix): keys first, then values -/
def Tags.pcmp (a b : Tags) : Option Ordering :=
  match cmpList cmpChars a.keys b.keys with
  | .eq => Tags.pcmpVals a b
  | o => some o
def Tags.pcmpVals : Tags → Tags → Option Ordering
  | .nil, .nil => some .eq
  | .nil, .cons _ _ _ => some .lt
  | .cons _ _ _, .nil => some .gt
  | .cons _ a as, .cons _ b bs => pThen (Val.pcmp a b) fun _ => Tags.pcmpVals as bs
def OTags.pcmp : OTags → OTags → Option Ordering
  | .none, .none => some .eq
  | .none, .some _ => some .lt
  | .some _, .none => some .gt
  | .some a, .some b => Tags.pcmp a b
def Cols.pcmp : Cols → Cols → Option Ordering
  | .nil, .nil => some .eq
  | .nil, .cons _ _ _ => some .lt
  | .cons _ _ _, .nil => some .gt
  | .cons n m c, .cons n' m' c' =>
      pThen (pThen (some (cmpChars n n')) fun _ => OTags.pcmp m m') fun _ => Cols.pcmp c c'
def Rows.pcmp : Rows → Rows → Option Ordering
  | .nil, .nil => some .eq
  | .nil, .cons _ _ => some .lt
  | .cons _ _, .nil => some .gt
  | .cons r rs, .cons r' rs' => pThen (Tags.pcmp r r') fun _ => Rows.pcmp rs rs'
end

/-! ### Hash: the sequence of writes made to the `Hasher` (so statements hold for every hasher) -/

inductive HW where
  | typeId               -- `TypeId::of::<Value>().hash`
  | w8 (n : Int)         -- a 1-byte write
  | w32 (n : Int)        -- a 4-byte write
  | w64 (n : Int)        -- an 8-byte write (`u64`, `usize` length prefixes, `isize` discriminants)
  | str (s : List Char)  -- `str::hash` = bytes, then 0xff
  | unit (sym : List Char)  -- all the writes `Unit::hash` makes; the unit is a function of its symbol
deriving Repr, DecidableEq

mutual
def Val.hashSeq : Val → List HW
  | .null => [.typeId]
  | .marker => [] | .remove => [] | .na => []
  | .bool b => [.w8 b.toNat]
  | .num n => .w64 n.v.hashBits :: (match n.unit with
      | none => [.w64 0]
      | some u => [.w64 1, .unit u])
  | .str s => [.str s] | .uri s => [.str s] | .sym s => [.str s]
  | .ref id _ => [.str id]
  /- `NaiveDate` hashes its packed `i32`; `NaiveTime` its `secs` and `frac`; `DateTime<Tz>` its
     UTC `NaiveDateTime` (date, then time) -/
  | .date d => [.w32 (d.y * 512 + d.m * 32 + d.d)]
  | .time t => [.w32 t.secs, .w32 t.ns]
  | .dateTime t => [.w32 (t.secs / 86400), .w32 (t.secs % 86400), .w32 t.ns]
  | .coord a b => [.w64 a.hashBits, .w64 b.hashBits]
  | .xstr ty v => [.str ty, .str v]
  | .list xs => .w64 xs.length :: Vals.hashSeq xs
  | .dict d => .w64 d.length :: Tags.hashSeq d
  | .grid md cols rows ver =>
      OTags.hashSeq md ++ (.w64 cols.length :: Cols.hashSeq cols)
        ++ (.w64 rows.length :: Rows.hashSeq rows) ++ [.str ver]
def Vals.hashSeq : Vals → List HW
  | .nil => []
  | .cons v vs => Val.hashSeq v ++ Vals.hashSeq vs
def Tags.hashSeq : Tags → List HW
  | .nil => []
  | .cons k v t => .str k :: (Val.hashSeq v ++ Tags.hashSeq t)
def OTags.hashSeq : OTags → List HW
  | .none => [.w64 0]
  | .some d => .w64 1 :: .w64 d.length :: Tags.hashSeq d
def Cols.hashSeq : Cols → List HW
  | .nil => []
  | .cons n m c => .str n :: (OTags.hashSeq m ++ Cols.hashSeq c)
def Rows.hashSeq : Rows → List HW
  | .nil => []
  | .cons r rs => (.w64 r.length :: Tags.hashSeq r) ++ Rows.hashSeq rs
end

/-! ### NaN-freedom (the property's side condition) -/

mutual
def Val.nanFree : Val → Bool
  | .num n => !n.v.isNaN
  | .coord a b => !a.isNaN && !b.isNaN
  | .list xs => Vals.nanFree xs
  | .dict d => Tags.nanFree d
  | .grid md cols rows _ => OTags.nanFree md && Cols.nanFree cols && Rows.nanFree rows
  | _ => true
def Vals.nanFree : Vals → Bool
  | .nil => true
  | .cons v vs => Val.nanFree v && Vals.nanFree vs
def Tags.nanFree : Tags → Bool
  | .nil => true
  | .cons _ v t => Val.nanFree v && Tags.nanFree t
def OTags.nanFree : OTags → Bool
  | .none => true
  | .some d => Tags.nanFree d
def Cols.nanFree : Cols → Bool
  | .nil => true
  | .cons _ m c => OTags.nanFree m && Cols.nanFree c
def Rows.nanFree : Rows → Bool
  | .nil => true
  | .cons r rs => Tags.nanFree r && Rows.nanFree rs
end

end Hs
