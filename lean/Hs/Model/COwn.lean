/-
  Hs.Model.COwn — ownership bookkeeping of the C API (C18).

  Objects the caller can own: value handles (`Box<Value>`), C strings (`CString::into_raw`) and filter
  handles (`Box<Filter>`).  A call is seen as a short list of events: the objects it reads (`use`),
  modifies in place (`mutate`), hands out (`alloc`), takes back (`free`), and the entry pointers it
  returns into a container (`borrow`) / the caller reads through (`deref`).  Entries are *cloned* into
  containers, so putting `e` into `l` creates no tie between the two objects.
  `step` is the allocator's view (a set of live objects); `callEvents` derives the events of a call from
  the op and its result in the C17 model, i.e. from the per-function table: what the return type hands
  out, which parameters are pointers, which function destroys which class.

  Core-only imports (linked into `hsdriver`).
-/
import Hs.Model.CApi
namespace Hs.COwn
open Hs Hs.CApi

/-- class of an owned object = which destroy function takes it back -/
inductive Cls where
  | val   -- haystack_value_destroy
  | str   -- haystack_string_destroy
  | flt   -- haystack_filter_destroy
deriving Repr, DecidableEq, Inhabited

structure Obj where
  cls : Cls
  id : Nat
deriving Repr, DecidableEq, Inhabited

inductive Ev where
  | alloc (o : Obj)
  | free (c : Cls) (o : Obj)     -- the destroy function of class `c` called on `o`
  | use (o : Obj)                -- passed as a pointer argument
  | mutate (o : Obj)             -- modified in place (its entries may move or go away)
  | borrow (b : Nat) (o : Obj)   -- the call returned pointer number `b` to an entry inside `o`
  | deref (b : Nat)              -- the caller reads through pointer `b`
deriving Repr, DecidableEq, Inhabited

/-- what can go wrong in the allocator's view -/
inductive Bad where
  | doubleFree      -- destroy of an object that is not live (freed before, or never handed out)
  | useAfterFree    -- an argument that is not live
  | wrongDestroy    -- destroyed by the destroy function of another class
  | dangling        -- read through an entry pointer whose container was modified or destroyed
  | reissued        -- an object handed out while still live
deriving Repr, DecidableEq, Inhabited

structure Heap where
  live : List Obj
  borrows : List (Nat × Obj)
deriving Repr, Inhabited

def Heap.empty : Heap := { live := [], borrows := [] }

def dropBorrows (bs : List (Nat × Obj)) (o : Obj) : List (Nat × Obj) := bs.filter (fun p => p.2 != o)

def step (h : Heap) : Ev → Except Bad Heap
  | .alloc o => if o ∈ h.live then .error .reissued else .ok { h with live := o :: h.live }
  | .free c o =>
    if o.cls ≠ c then .error .wrongDestroy
    else if o ∈ h.live then .ok { live := h.live.erase o, borrows := dropBorrows h.borrows o }
    else .error .doubleFree
  | .use o => if o ∈ h.live then .ok h else .error .useAfterFree
  | .mutate o => if o ∈ h.live then .ok { h with borrows := dropBorrows h.borrows o } else .error .useAfterFree
  | .borrow b o => if o ∈ h.live then .ok { h with borrows := (b, o) :: h.borrows } else .error .useAfterFree
  | .deref b => if h.borrows.any (fun p => p.1 == b) then .ok h else .error .dangling

def run (h : Heap) : List Ev → Except Bad Heap
  | [] => .ok h
  | e :: t =>
    match step h e with
    | .ok h' => run h' t
    | .error b => .error b

/-! ### the events of a C call -/

def vobj (k : Nat) : Obj := ⟨.val, k⟩
def sobj (k : Nat) : Obj := ⟨.str, k⟩
def fobj (k : Nat) : Obj := ⟨.flt, k⟩

def useV : Ptr → List Ev
  | some k => [.use (vobj k)]
  | none => []

def useF : Ptr → List Ev
  | some k => [.use (fobj k)]
  | none => []

/-- the pointer arguments a call reads: every non-null pointer must be live -/
def argUses : COp → List Ev
  | .mkUtc d t _ => useV d ++ useV t
  | .mkTz d t _ _ => useV d ++ useV t
  | .isKind _ p | .get _ p | .toZinc p _ | .toJson p _ | .gfrom p => useV p
  | .lpush l e | .lset l _ e => useV l ++ useV e
  | .lget l _ _ | .lrem l _ => useV l
  | .dins d _ e => useV d ++ useV e
  | .dget d _ _ | .drem d _ => useV d
  | .dkeys d r | .gfromMeta d r => useV d ++ useV r
  | .grow g _ r => useV g ++ useV r
  | .dtDate p _ r _ | .dtTime p _ r _ => useV p ++ useV r
  | .fmatch f d _ => useF f ++ useV d
  | .ffirst f g r _ | .fall f g r _ => useF f ++ useV g ++ useV r
  | _ => []

/-- the handle a successful call modifies in place -/
def written : COp → Ptr
  | .lpush l _ | .lset l _ _ | .lrem l _ => l
  | .dins d _ _ | .drem d _ => d
  | .dkeys _ r | .grow _ _ r | .dtDate _ _ r _ | .dtTime _ _ r _ | .ffirst _ _ r _ | .fall _ _ r _ => r
  | _ => none

/-- the container an entry pointer points into -/
def container : COp → Ptr
  | .lget l _ _ => l
  | .dget d _ _ => d
  | _ => none

structure Ctr where
  snext : Nat     -- next string id
  bnext : Nat     -- next borrowed-pointer number
deriving Repr, Inhabited

/-- events of one call, from the op and the result the C17 model gives.  The harness reads through a
returned entry pointer right away (`deref` directly after `borrow`). -/
def callEvents (c : Ctr) (op : COp) (r : CRes) : List Ev × Ctr :=
  match op with
  | .destroy p =>
    match p with
    | some k => ([.free .val (vobj k)], c)
    | none => ([], c)
  | .sdestroy p =>
    match p with
    | some k => ([.free .str (sobj k)], c)
    | none => ([], c)
  | .fdestroy p =>
    match p with
    | some k => ([.free .flt (fobj k)], c)
    | none => ([], c)
  | _ =>
    let uses := argUses op
    match r with
    | .ok (.handle k) => (uses ++ [.alloc (vobj k)], c)
    | .ok (.filter k) => (uses ++ [.alloc (fobj k)], c)
    | .ok (.cstr _) => (uses ++ [.alloc (sobj c.snext)], { c with snext := c.snext + 1 })
    | .ok .errMsg => (uses ++ [.alloc (sobj c.snext)], { c with snext := c.snext + 1 })
    | .ok (.borrow _) =>
      match container op with
      | some k => (uses ++ [.borrow c.bnext (vobj k), .deref c.bnext], { c with bnext := c.bnext + 1 })
      | none => (uses, c)
    | .ok (.result true) =>
      match written op with
      | some k => (uses ++ [.mutate (vobj k)], c)
      | none => (uses, c)
    | .ok (.result false) =>
      -- `match_all_grid` writes the (empty) result grid also when it answers FALSE
      match op with
      | .fall _ _ (some k) _ => (uses ++ [.mutate (vobj k)], c)
      | _ => (uses, c)
    | _ => (uses, c)

/-- the event trace of a history of calls (run through the C17 model) -/
def traceOf (s : CState) (c : Ctr) : List COp → List Ev
  | [] => []
  | op :: ops =>
    let (s', r) := cstep s op
    let (evs, c') := callEvents c op r
    evs ++ traceOf s' c' ops

end Hs.COwn
