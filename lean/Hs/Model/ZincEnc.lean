/-
  Hs.Model.ZincEnc — model of the Zinc writer (src/haystack/encoding/zinc/encode.rs).
  The writer has no failing step left over a `Vec<u8>` (no index, no slice, no `len - 1` outside a
  non-empty iteration), so the model is a total function into bytes; that the real writer never
  panics is what the correspondence check observes (C10).
-/
import Hs.Model.Scan
namespace Hs.Zinc
open Hs

def bytesOfAscii (s : String) : List UInt8 := s.toList.map (fun c => UInt8.ofNat c.toNat)

def hexDigitLower (n : Nat) : UInt8 := if n < 10 then UInt8.ofNat (48 + n) else UInt8.ofNat (87 + n)

/-- `format!("\\u{:04x}", c as u32)` for `c < 0x10000` (only used for `c < ' '`) -/
def uEscape (n : Nat) : List UInt8 :=
  [92, 117, hexDigitLower (n / 4096 % 16), hexDigitLower (n / 256 % 16), hexDigitLower (n / 16 % 16),
   hexDigitLower (n % 16)]

/-- one character of `write_quoted_str` -/
def encStrChar (c : Char) : List UInt8 :=
  if c == '"' then [92, 34]
  else if c == '\t' then [92, 116]
  else if c == '\r' then [92, 114]
  else if c == '\n' then [92, 110]
  else if c == '\\' then [92, 92]
  else if c.toNat < 32 then uEscape c.toNat
  else if c == '$' then [92, 36]
  else encChar c

/-- `write_quoted_str` -/
def encQuoted (s : List Char) : List UInt8 := [34] ++ s.flatMap encStrChar ++ [34]

/-- one character of `impl ToZinc for Uri` -/
def encUriChar (c : Char) : List UInt8 :=
  if c == '`' then [92, 96]
  else if c == '\\' then [92, 92]
  else if c.toNat < 32 then uEscape c.toNat
  else encChar c

def encUri (s : List Char) : List UInt8 := [96] ++ s.flatMap encUriChar ++ [96]

def Flt.isNaNBits (bits : Nat) : Bool := (bits / 2 ^ 52) % 2048 == 2047 && bits % 2 ^ 52 != 0
def Flt.isInfBits (bits : Nat) : Bool := (bits / 2 ^ 52) % 2048 == 2047 && bits % 2 ^ 52 == 0
def Flt.signBit (bits : Nat) : Bool := bits / 2 ^ 63 % 2 == 1

/-- `impl ToZinc for Number` (finite values print through Rust's `Display for f64`: `n.v.txt`) -/
def encNum (n : Num) : List UInt8 :=
  if Flt.isNaNBits n.v.bits then bytesOfAscii "NaN"
  else if Flt.isInfBits n.v.bits then
    (if Flt.signBit n.v.bits then [45] else []) ++ bytesOfAscii "INF"
  else match n.unit with
    | some u => encChars n.v.txt ++ encChars u
    | none => encChars n.v.txt

/-- `to_uppercase` of the first character of an XStr type: exact for ASCII; other characters go
through Unicode tables outside the model (the harness supplies well-formed types only where it
compares bytes) -/
def upperFirst (s : List Char) : List Char :=
  match s with
  | [] => []
  | c :: r => (if 'a' ≤ c && c ≤ 'z' then Char.ofNat (c.toNat - 32) else c) :: r

def encDateTime (t : DateTime) : List UInt8 :=
  if t.tzid == "UTC".toList then encChars t.txt
  else encChars t.txt ++ [32] ++ encChars t.zone

/-- `row.get(&col.name)`: the encoded cell, or `N` for the missing cell of a single-column grid -/
def cellOf (cells : List (List Char × List UInt8)) (name : List Char) (single : Bool) : List UInt8 :=
  match cells.find? (·.1 == name) with
  | some p => p.2
  | none => if single then [78] else []

/-- the cells of one row in column order, separated by `,` -/
def rowLine (cells : List (List Char × List UInt8)) : List (List Char) → Bool → List UInt8
  | [], _ => []
  | [n], single => cellOf cells n single
  | n :: ns, single => cellOf cells n single ++ [44] ++ rowLine cells ns single

mutual
/-- `ZincEncode for Value` (`nested = InnerGrid::Yes`) -/
def enc : Val → Bool → List UInt8
  | .null, _ => [78]
  | .remove, _ => [82]
  | .marker, _ => [77]
  | .na, _ => [78, 65]
  | .bool b, _ => if b then [84] else [70]
  | .num n, _ => encNum n
  | .str s, _ => encQuoted s
  | .uri s, _ => encUri s
  | .ref id dis, _ =>
    match dis with
    | some d => [64] ++ encChars id ++ [32] ++ encQuoted d
    | none => [64] ++ encChars id
  | .sym s, _ => [94] ++ encChars s
  | .date d, _ => encChars d.txt
  | .time t, _ => encChars t.txt
  | .dateTime t, _ => encDateTime t
  | .coord a b, _ => [67, 40] ++ encChars a.txt ++ [44] ++ encChars b.txt ++ [41]
  | .xstr ty v, _ => encChars (upperFirst ty) ++ [40] ++ encQuoted v ++ [41]
  | .list xs, _ => [91] ++ encVals xs ++ [93]
  | .dict d, _ => [123] ++ encTags d 44 ++ [125]
  | .grid md cols rows _, nested =>
    (if nested then [60, 60, 10] else [])
      ++ bytesOfAscii "ver:\"3.0\""
      ++ (match md with
          | .none => []
          | .some t => if t.isEmpty then [] else [32] ++ encTags t 32)
      ++ [10]
      ++ (match cols with
          | .nil => bytesOfAscii "empty\n"
          | .cons _ _ _ => encCols cols ++ [10] ++ encRows rows cols.names (cols.length == 1))
      ++ (if nested then [62, 62] else [10])
/-- list elements separated by `,` -/
def encVals : Vals → List UInt8
  | .nil => []
  | .cons v .nil => enc v true
  | .cons v vs => enc v true ++ [44] ++ encVals vs
/-- `write_dict_tags` -/
def encTags : Tags → UInt8 → List UInt8
  | .nil, _ => []
  | .cons k v .nil, _ => encChars k ++ (match v with | .marker => [] | _ => [58] ++ enc v true)
  | .cons k v t, sep =>
    encChars k ++ (match v with | .marker => [] | _ => [58] ++ enc v true) ++ [sep] ++ encTags t sep
def encCols : Cols → List UInt8
  | .nil => []
  | .cons n md .nil => encChars n ++ (match md with
      | .none => []
      | .some t => if t.isEmpty then [] else [32] ++ encTags t 32)
  | .cons n md c => encChars n ++ (match md with
      | .none => []
      | .some t => if t.isEmpty then [] else [32] ++ encTags t 32) ++ [44] ++ encCols c
/-- every tag of a row with its encoded value (the writer looks cells up by column name) -/
def encCells : Tags → List (List Char × List UInt8)
  | .nil => []
  | .cons k v t => (k, enc v true) :: encCells t
/-- all rows, one line each -/
def encRows : Rows → List (List Char) → Bool → List UInt8
  | .nil, _, _ => []
  | .cons r rs, names, single => rowLine (encCells r) names single ++ [10] ++ encRows rs names single
end

/-- `to_zinc_string` -/
def encode (v : Val) : List UInt8 := enc v false

end Hs.Zinc
