/-
  Hs.Model.Tz — timestamps, offsets and zone names (C06):
    src/haystack/timezone/mod.rs   `fixed_timezone`
    src/haystack/timezone/iana.rs  `make_date_time`, `make_date_time_with_tz`, `make_date_time_from_text`,
                                   `find_timezone`, `timezone_short_name`, `is_utc`
    src/haystack/val/datetime.rs   `parse_from_rfc3339`, `parse_from_rfc3339_with_timezone`
    encoding/zinc/decode/scalar/date_time.rs  `parse_datetime`, `parse_time_zone`, `parse_time_zone_name`
    encoding/zinc/encode.rs        `impl ToZinc for DateTime`
    encoding/json/{encode,decode}.rs  DateTime
    c_api/value.rs, c_api/datetime.rs  `haystack_value_make_utc_datetime`, `_tz_datetime`, getters

  chrono and chrono-tz are external.  What enters the model of them:
  * a timestamp is (seconds since the epoch, nanoseconds, zone id); local wall-clock times are
    "local seconds" = instant + offset (chrono's calendar arithmetic and the RFC 3339 text layer map
    them to and from date/time fields: not modelled, the harness does that conversion with chrono);
  * the zone id list of the compiled database (`Hs.Gen.Zones`, dumped by the harness), `str::parse::<Tz>`
    = membership in that list;
  * the zone offset function is a PARAMETER `TzDb` of everything that needs it;
  * `FixedOffset`'s Display text (`offsetText`, seconds printed when not zero), the offset text of
    `to_rfc3339_opts(_, use_z = true)` (`rfcOffsetText`: `Z` for the zero offset, else `±hh:mm` with the
    seconds ROUNDED to the nearest minute), `FixedOffset::east_opt`'s range (|secs| < 86400).
  Core-only imports: linked into `hsdriver`.
-/
import Hs.Model.Val
import Hs.Gen.Zones
namespace Hs.Tz
open Hs Hs.Gen.Zones

/-! ### zone ids -/

/-- the key of an id: its bytes as one base-256 number behind a leading 1 (ids are ASCII; a
non-ASCII character makes a key no id has, see `parseTz`, which compares the id itself) -/
def key (s : List Char) : Nat := s.foldl (fun a c => a * 256 + c.toNat) 1

def ZTree.find : ZTree → Nat → Option (List Char)
  | .leaf, _ => none
  | .node l k id r, q => if q = k then some id else if q < k then ZTree.find l q else ZTree.find r q

def ZTree.ids : ZTree → List (List Char)
  | .leaf => []
  | .node l _ id r => ZTree.ids l ++ id :: ZTree.ids r

/-- `name.parse::<Tz>()`: the zone with exactly this id (the zone is represented by its id) -/
def parseTz (name : List Char) : Option (List Char) :=
  match ZTree.find zoneTree (key name) with
  | some id => if id = name then some id else none
  | none => none

/-- `prefixes.into_iter().find_map(|prefix| format!("{prefix}/{name}").parse().ok())` -/
def findPrefixed (name : List Char) : List (List Char) → Option (List Char)
  | [] => none
  | p :: ps =>
    match parseTz (p ++ '/' :: name) with
    | some z => some z
    | none => findPrefixed name ps

/-- `find_timezone`: the exact id, else the first region prefix under which the name is a zone -/
def findTimezone (name : List Char) : Option (List Char) :=
  match parseTz name with
  | some z => some z
  | none => findPrefixed name prefixes

/-- the text after the first '/' (`tz_id.find('/')`), if there is one -/
def afterSlash : List Char → Option (List Char)
  | [] => none
  | c :: cs => if c = '/' then some cs else afterSlash cs

/-- `timezone_short_name`: the id after its first '/' (the whole id when there is none) -/
def shortName (z : List Char) : List Char := (afterSlash z).getD z

/-- the zone's city name names no other zone of the database -/
def Unambiguous (z : List Char) : Prop := ∀ w ∈ zones, shortName w = shortName z → w = z

/-- `parse_time_zone_name`'s lexing class: `[A-Z][A-Za-z0-9_/+-]*`, at least two characters -/
def isAsciiAlnum (c : Char) : Bool :=
  ('a' ≤ c && c ≤ 'z') || ('A' ≤ c && c ≤ 'Z') || ('0' ≤ c && c ≤ '9')
def tzNameChar (c : Char) : Bool := isAsciiAlnum c || tzNameExtra.contains c
def lexable : List Char → Bool
  | [] => false
  | c :: cs => tzNameFirstLo ≤ c && c ≤ tzNameFirstHi && cs.all tzNameChar && (c :: cs).length != tzNameBadLen

/-! ### offsets -/

/-- the zone offset function of the database: zone id → instant (UTC seconds) → local − UTC, in seconds -/
structure TzDb where
  offsetAt : List Char → Int → Int

def digit (n : Nat) : Char :=
  match n with
  | 0 => '0' | 1 => '1' | 2 => '2' | 3 => '3' | 4 => '4' | 5 => '5' | 6 => '6' | 7 => '7' | 8 => '8' | _ => '9'

def digitVal (c : Char) : Option Nat :=
  if c = '0' then some 0 else if c = '1' then some 1 else if c = '2' then some 2 else if c = '3' then some 3
  else if c = '4' then some 4 else if c = '5' then some 5 else if c = '6' then some 6 else if c = '7' then some 7
  else if c = '8' then some 8 else if c = '9' then some 9 else none

def d2 (n : Nat) : List Char := [digit (n / 10 % 10), digit (n % 10)]

/-- `FixedOffset`'s Display: `+hh:mm`, and `:ss` only when the seconds are not zero (chrono) -/
def offsetText (off : Int) : List Char :=
  let a := off.natAbs
  (if off < 0 then '-' else '+') :: (d2 (a / 3600) ++ ':' :: d2 (a % 3600 / 60)
    ++ (if a % 60 = 0 then [] else ':' :: d2 (a % 60)))

/-- position of the first ':' (`str::find`) -/
def findColon : List Char → Option Nat
  | [] => none
  | c :: cs => if c = ':' then some 0 else (findColon cs).map (· + 1)

/-- `fixed_timezone(offset)`: the zone name for an offset text.  All hour digits are read
(`offset[1..colon]` without leading zeros); `UTC` when they are zero or when anything but `0`
follows the colon; else `Etc/GMT` + inverted sign + hours.  A slice out of range panics. -/
def fixedTimezone (offset : List Char) : Res (List Char) :=
  let colon := (findColon offset).getD colonDefault
  if colon < hourStart ∨ offset.length < colon then .panic
  else
    let gmt := ((offset.take colon).drop hourStart).dropWhile (· == '0')
    if gmt.isEmpty || (offset.drop colon).any (fun c => c != ':' && c != '0') then .ok utcName
    else
      match offset with
      | [] => .panic
      | s :: _ => .ok (etcPrefix ++ (if s = '-' then '+' else '-') :: gmt)

/-- a timestamp: instant and zone (the local offset is `db.offsetAt tzid secs`) -/
structure DT where
  secs : Int
  ns   : Nat
  tzid : List Char
deriving Repr, DecidableEq, Inhabited

def DT.offset (db : TzDb) (d : DT) : Int := db.offsetAt d.tzid d.secs
def DT.localSecs (db : TzDb) (d : DT) : Int := d.secs + d.offset db
def DT.short (d : DT) : List Char := shortName d.tzid
/-- `is_utc`: the zone IS `UTC` (not an alias of it) -/
def DT.isUtc (d : DT) : Bool := d.tzid == utcName

/-- the zone `make_date_time` derives from an offset -/
def rfcZone (off : Int) : Res (List Char) :=
  match fixedTimezone (offsetText off) with
  | .ok name =>
    match findTimezone name with
    | some z => .ok z
    | none => .err
  | .err => .err
  | .panic => .panic
  | .diverge => .diverge
  | .depth => .depth

/-- `make_date_time(date)` for `date` = local seconds `loc` at offset `off`
(= `DateTime::parse_from_rfc3339` after chrono has parsed the text) -/
def makeDateTime (loc : Int) (ns : Nat) (off : Int) : Res DT :=
  match rfcZone off with
  | .ok z => .ok ⟨loc - off, ns, z⟩
  | .err => .err
  | .panic => .panic
  | .diverge => .diverge
  | .depth => .depth

/-- `make_date_time_with_tz(datetime, tz)` (= `parse_from_rfc3339_with_timezone`) -/
def makeDateTimeWithTz (secs : Int) (ns : Nat) (name : List Char) : Res DT :=
  match findTimezone name with
  | some z => .ok ⟨secs, ns, z⟩
  | none => .err

/-- the offset as a text of minute precision carries it: rounded to the nearest minute, half away from
zero — `zone_secs.signum() * ((zone_secs.abs() + 30) / 60) * 60` (i32; no overflow below 24 h) -/
def roundMin (off : Int) : Int := off.sign * (((off.natAbs : Int) + 30) / 60) * 60

/-- `make_date_time_from_text(datetime, tz)` for `datetime` = the instant `secs` (+ `ns`) written with the
offset `written` (= `parse_from_rfc3339_with_timezone`, and the readers' path for a text with an offset):
the instant converted to the zone as `make_date_time_with_tz` does; when the zone's offset there has
seconds and, rounded to the minute, is the written offset, the wall-clock time of the text is exact: the
result is the converted instant minus those seconds, provided the zone's offset is the same there.
(`converted - Duration::seconds(..)` cannot overflow for a timestamp read from text: years 0000–9999.) -/
def makeDateTimeFromText (db : TzDb) (secs : Int) (ns : Nat) (written : Int) (name : List Char) : Res DT :=
  match makeDateTimeWithTz secs ns name with
  | .ok converted =>
    let zoneSecs := converted.offset db
    let rounded := roundMin zoneSecs
    let seconds := zoneSecs - rounded
    if seconds ≠ 0 ∧ rounded = written then
      let exact : DT := ⟨converted.secs - seconds, converted.ns, converted.tzid⟩
      if exact.offset db = zoneSecs then .ok exact
      else .ok converted
    else .ok converted
  | .err => .err
  | .panic => .panic
  | .diverge => .diverge
  | .depth => .depth

/-! ### Zinc, at the level of fields -/

/-- the fields of a Zinc / RFC 3339 timestamp: local seconds, nanoseconds, the offset text
(`Z` or `±hh:mm`), the zone name after the blank if any -/
structure ZFields where
  loc    : Int
  ns     : Nat
  offTxt : List Char
  name   : Option (List Char)
deriving Repr, DecidableEq, Inhabited

/-- chrono's `OffsetFormat` with `OffsetPrecision::Minutes`: the sign of the offset, then
`(|off| + 30) / 60` minutes (the seconds are rounded to the nearest minute) as `hh:mm` -/
def minuteOffsetText (off : Int) : List Char :=
  let minutes := (off.natAbs + 30) / 60
  (if off < 0 then '-' else '+') :: (d2 (minutes / 60) ++ ':' :: d2 (minutes % 60))

/-- the offset text `to_rfc3339_opts(_, use_z = true)` prints: `Z` only for the offset 0 itself
(an offset of 20 s is written `+00:00`, of −20 s `-00:00`) -/
def rfcOffsetText (off : Int) : List Char := if off = 0 then ['Z'] else minuteOffsetText off

/-- `impl ToZinc for DateTime` -/
def zincEnc (db : TzDb) (d : DT) : ZFields :=
  ⟨d.localSecs db, d.ns, rfcOffsetText (d.offset db), if d.isUtc then none else some d.short⟩

/-- `parse_time_zone`: `Z` or sign, two hour digits, ':', two minute digits -/
inductive OffTok where
  | z
  | fixed (plus : Bool) (dur : Nat)

def parseOffTxt : List Char → Option OffTok
  | ['Z'] => some .z
  | [s, h1, h2, c, m1, m2] =>
    if (s = '+' ∨ s = '-') ∧ c = ':' then
      match digitVal h1, digitVal h2, digitVal m1, digitVal m2 with
      | some a, some b, some x, some y => some (.fixed (s = '+') ((a * 10 + b) * 3600 + (x * 10 + y) * 60))
      | _, _, _, _ => none
    else none
  | _ => none

/-- `parse_datetime` after the date and time have been read: `Z` (with or without a name) takes the
fields as UTC; a text with an offset `±hh:mm` (`FixedOffset::east_opt` / `west_opt` of the duration)
goes through `make_date_time_from_text` with that offset as the written one -/
def zincDec (db : TzDb) (f : ZFields) : Res DT :=
  match parseOffTxt f.offTxt with
  | none => .err
  | some .z =>
    match f.name with
    | none => .ok ⟨f.loc, f.ns, utcName⟩
    | some n =>
      if lexable n then
        if n = utcName then .ok ⟨f.loc, f.ns, utcName⟩
        else makeDateTimeWithTz f.loc f.ns n
      else .err
  | some (.fixed plus dur) =>
    match f.name with
    | none => .err
    | some n =>
      if lexable n then
        if n = utcName then .ok ⟨f.loc, f.ns, utcName⟩
        else if dur < 86400 then
          makeDateTimeFromText db (if plus then f.loc - dur else f.loc + dur) f.ns (if plus then (dur : Int) else -(dur : Int)) n
        else makeDateTimeWithTz f.loc f.ns n
      else .err

/-! ### Hayson -/

/-- `Serialize for DateTime`: `val` (the RFC 3339 text, as fields: exact local time, and the offset the
text carries, which is the zone's offset rounded to the minute) and `tz` unless the zone is UTC -/
structure JFields where
  loc : Int
  ns  : Nat
  off : Int
  tz  : Option (List Char)
deriving Repr, DecidableEq, Inhabited

def jsonEnc (db : TzDb) (d : DT) : JFields :=
  ⟨d.localSecs db, d.ns, roundMin (d.offset db), if d.isUtc then none else some d.short⟩

/-- json `parse_datetime`: `DateTime::parse_from_rfc3339(val)` must succeed; when there is a `tz`,
`val` is parsed again by chrono (instant = local − offset, the offset as written) and goes through
`make_date_time_from_text` -/
def jsonDec (db : TzDb) (f : JFields) : Res DT :=
  match makeDateTime f.loc f.ns f.off with
  | .ok d =>
    match f.tz with
    | none => .ok d
    | some n => makeDateTimeFromText db (f.loc - f.off) f.ns f.off n
  | .err => .err
  | .panic => .panic
  | .diverge => .diverge
  | .depth => .depth

/-! ### C API -/

/-- `haystack_value_make_utc_datetime(date, time)`: the fields are UTC -/
def capiMakeUtc (secs : Int) (ns : Nat) : DT := ⟨secs, ns, utcName⟩

/-- `haystack_value_make_tz_datetime(date, time, tz)`: the fields are UTC, the zone is looked up -/
def capiMakeTz (secs : Int) (ns : Nat) (name : List Char) : Res DT := makeDateTimeWithTz secs ns name

/-- the getters: date+time with `utc = true` / `false`, zone name -/
def capiGetUtc (d : DT) : Int × Nat := (d.secs, d.ns)
def capiGetLocal (db : TzDb) (d : DT) : Int × Nat := (d.localSecs db, d.ns)
def capiGetZone (d : DT) : List Char := d.short

end Hs.Tz
