/-
  Hs.Model.FilterAst — the filter expression tree of src/haystack/filter/nodes.rs as the filter
  *text* properties (C08, C09) need it: every field the parser fills in and every field a `Display`
  impl reads, the display name of a Ref operand included (`WildcardEq::ref_value`,
  `Relation::ref_value` are `Ref { value, dis }`).

  `Or { ands: Vec<And> }` and `And { terms: Vec<Term> }` are hand-rolled lists (`Ors`, `Ands`) so
  that the family is plainly mutual (structural recursion, mutual induction).
  Core-only imports: linked into `hsdriver`.
-/
import Hs.Model.Val
namespace Hs.FText
open Hs

/-- `Path { segments: Vec<Id> }` -/
abbrev Path := List (List Char)

/-- `enum CmpOp` -/
inductive CmpOp where
  | eq | ne | lt | le | gt | ge
deriving Repr, DecidableEq, Inhabited

/-- `Ref { value, dis }` -/
structure RefV where
  id : List Char
  dis : Option (List Char)
deriving Repr, DecidableEq, Inhabited

mutual
/-- `enum Term` -/
inductive Term where
  | parens (o : Ors)
  | has (p : Path)
  | missing (p : Path)
  | isA (sym : List Char)
  | weq (p : Path) (r : RefV)
  | rel (rel : List Char) (term : Option (List Char)) (ref : Option RefV)
  | cmp (p : Path) (op : CmpOp) (v : Val)
/-- `And { terms }` -/
inductive Ands where
  | nil
  | cons (t : Term) (ts : Ands)
/-- `Or { ands }`; a `Filter` is an `Or` -/
inductive Ors where
  | nil
  | cons (a : Ands) (as : Ors)
end

instance : Inhabited Ors := ⟨.nil⟩
instance : Inhabited Ands := ⟨.nil⟩
instance : Inhabited Term := ⟨.parens .nil⟩

def Ands.toList : Ands → List Term
  | .nil => []
  | .cons t ts => t :: ts.toList
def Ands.ofList : List Term → Ands
  | [] => .nil
  | t :: ts => .cons t (Ands.ofList ts)
def Ors.toList : Ors → List Ands
  | .nil => []
  | .cons a as => a :: as.toList
def Ors.ofList : List Ands → Ors
  | [] => .nil
  | a :: as => .cons a (Ors.ofList as)

/-- `vec.push(x)` -/
def Ands.snoc : Ands → Term → Ands
  | .nil, t => .cons t .nil
  | .cons u us, t => .cons u (us.snoc t)
def Ors.snoc : Ors → Ands → Ors
  | .nil, a => .cons a .nil
  | .cons b bs, a => .cons b (bs.snoc a)

def Ands.length : Ands → Nat
  | .nil => 0
  | .cons _ ts => ts.length + 1
def Ors.length : Ors → Nat
  | .nil => 0
  | .cons _ as => as.length + 1

end Hs.FText
