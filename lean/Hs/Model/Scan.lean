/-
  Hs.Model.Scan — model of `Scanner` (src/haystack/encoding/zinc/decode/scanner.rs) over an
  in-memory input.  State mirrors the struct field by field: `cur`, the peek stash `next`,
  `last_peek`, `is_eof`, the unread input and `pos`.  `is_eof` is set whenever a `read_byte`
  hits the end of the reader — also by a `peek` — and `cur` keeps its last (stale) byte after the
  end of input; both facts are visible to the lexer and are modelled as they are.
  Only end-of-input read failures are modelled (I/O errors are exercised by the harness).
-/
import Hs.Model.Val
namespace Hs

structure Scan where
  cur : UInt8
  stash : List UInt8
  lastPeek : UInt8
  eof : Bool
  inp : List UInt8
  pos : Nat
deriving Repr, DecidableEq, Inhabited

namespace Scan

/-- `Scanner::make` -/
def make (inp : List UInt8) : Scan :=
  match inp with
  | [] => { cur := 0, stash := [], lastPeek := 0xFF, eof := true, inp := [], pos := 0 }
  | b :: r => { cur := b, stash := [], lastPeek := 0xFF, eof := false, inp := r, pos := 0 }

/-- `read_byte`: `none` is `Err(UnexpectedEof)` -/
def readByte (s : Scan) : Option UInt8 × Scan :=
  match s.inp with
  | [] => (none, { s with eof := true })
  | b :: r => (some b, { s with inp := r })

/-- `read` -/
def read (s : Scan) : Option UInt8 × Scan :=
  match s.stash with
  | b :: r => (some b, { s with cur := b, stash := r, pos := s.pos + 1 })
  | [] =>
    match s.readByte with
    | (some b, s') => (some b, { s' with cur := b, pos := s'.pos + 1 })
    | (none, s') => (none, s')

/-- `read()?` -/
def readQ (s : Scan) : Res Scan :=
  match s.read with
  | (some _, s') => .ok s'
  | (none, _) => .err

/-- `advance`: a failed read at end of input is ignored -/
def advance (s : Scan) : Scan := s.read.2

/-- `peek`: `none` is `Err` -/
def peek (s : Scan) : Option UInt8 × Scan :=
  match s.readByte with
  | (some b, s') => (some b, { s' with stash := s'.stash ++ [b], lastPeek := b })
  | (none, s') => (none, s')

def isSpace (s : Scan) : Bool := s.cur == 32 || s.cur == 9
def isNewline (s : Scan) : Bool := s.cur == 13 || s.cur == 10
def isWhiteSpace (s : Scan) : Bool := s.isSpace || s.isNewline
def isDigitB (b : UInt8) : Bool := 48 ≤ b && b ≤ 57
def isUpperB (b : UInt8) : Bool := 65 ≤ b && b ≤ 90
def isLowerB (b : UInt8) : Bool := 97 ≤ b && b ≤ 122
def isHexB (b : UInt8) : Bool := isDigitB b || (65 ≤ b && b ≤ 70) || (97 ≤ b && b ≤ 102)
def isDigit (s : Scan) : Bool := isDigitB s.cur
def isUpper (s : Scan) : Bool := isUpperB s.cur
def isLower (s : Scan) : Bool := isLowerB s.cur
def isAlpha (s : Scan) : Bool := s.isLower || s.isUpper
def isAlphaNum (s : Scan) : Bool := s.isDigit || s.isLower || s.isUpper
def isHexDigit (s : Scan) : Bool := isHexB s.cur
def isAnyOf (s : Scan) (cs : List UInt8) : Bool := cs.contains s.cur

/-- `consume_spaces` (fuel: one unit per byte consumed) -/
def consumeSpaces : Nat → Scan → Res Scan
  | 0, _ => .diverge
  | fuel + 1, s =>
    if !s.isSpace then .ok s
    else match s.read with
      | (some _, s') => consumeSpaces fuel s'
      | (none, s') => .ok s'

/-- `consume_white_spaces` -/
def consumeWhiteSpaces : Nat → Scan → Res Scan
  | 0, _ => .diverge
  | fuel + 1, s =>
    if !s.isWhiteSpace then .ok s
    else match s.read with
      | (some _, s') => consumeWhiteSpaces fuel s'
      | (none, s') => .ok s'

/-- `expect_and_consume(expect)`: returns the byte -/
def expectAndConsume (s : Scan) (c : UInt8) : Res (UInt8 × Scan) :=
  if s.cur == c then .ok (s.cur, s.advance) else .err

def expectAndConsumeAnyOf (s : Scan) (cs : List UInt8) : Res (UInt8 × Scan) :=
  if s.isAnyOf cs then .ok (s.cur, s.advance) else .err

def expectAndConsumeInRange (s : Scan) (lo hi : UInt8) : Res (UInt8 × Scan) :=
  if lo ≤ s.cur && s.cur ≤ hi then .ok (s.cur, s.advance) else .err

/-- `expect_and_consume_seq`: a failed read is forgiven only after the last byte of `seq` -/
def expectAndConsumeSeq : List UInt8 → Scan → Res Scan
  | [], s => .ok s
  | c :: rest, s =>
    if c != s.cur then .err
    else match s.read with
      | (some _, s') => expectAndConsumeSeq rest s'
      | (none, s') => if rest.isEmpty then .ok s' else .err

/-- `advance_by(n)` -/
def advanceBy : Nat → Scan → Res Scan
  | 0, s => .ok s
  | n + 1, s => match s.read with
    | (some _, s') => advanceBy n s'
    | (none, _) => .err

/-- bytes not yet consumed by `read` (stash first, then the reader) — used for fuel -/
def remaining (s : Scan) : Nat := s.stash.length + s.inp.length

end Scan

/-! ### `String::from_utf8_lossy` (maximal-subpart replacement, as std documents it) -/

def isCont (b : UInt8) : Bool := 0x80 ≤ b && b ≤ 0xBF

def utf8Lossy : Nat → List UInt8 → List Char
  | 0, _ => []
  | _, [] => []
  | fuel + 1, b0 :: rest =>
    let bad (r : List UInt8) := Char.ofNat 0xFFFD :: utf8Lossy fuel r
    if b0 < 0x80 then Char.ofNat b0.toNat :: utf8Lossy fuel rest
    else if 0xC2 ≤ b0 && b0 ≤ 0xDF then
      match rest with
      | b1 :: r1 => if isCont b1 then
          Char.ofNat ((b0.toNat - 0xC0) * 64 + (b1.toNat - 0x80)) :: utf8Lossy fuel r1
        else bad rest
      | [] => bad []
    else if 0xE0 ≤ b0 && b0 ≤ 0xEF then
      let lo : UInt8 := if b0 == 0xE0 then 0xA0 else 0x80
      let hi : UInt8 := if b0 == 0xED then 0x9F else 0xBF
      match rest with
      | b1 :: r1 =>
        if lo ≤ b1 && b1 ≤ hi then
          match r1 with
          | b2 :: r2 => if isCont b2 then
              Char.ofNat ((b0.toNat - 0xE0) * 4096 + (b1.toNat - 0x80) * 64 + (b2.toNat - 0x80))
                :: utf8Lossy fuel r2
            else bad r1
          | [] => bad []
        else bad rest
      | [] => bad []
    else if 0xF0 ≤ b0 && b0 ≤ 0xF4 then
      let lo : UInt8 := if b0 == 0xF0 then 0x90 else 0x80
      let hi : UInt8 := if b0 == 0xF4 then 0x8F else 0xBF
      match rest with
      | b1 :: r1 =>
        if lo ≤ b1 && b1 ≤ hi then
          match r1 with
          | b2 :: r2 =>
            if isCont b2 then
              match r2 with
              | b3 :: r3 => if isCont b3 then
                  Char.ofNat ((b0.toNat - 0xF0) * 262144 + (b1.toNat - 0x80) * 4096
                    + (b2.toNat - 0x80) * 64 + (b3.toNat - 0x80)) :: utf8Lossy fuel r3
                else bad r2
              | [] => bad []
            else bad r1
          | [] => bad []
        else bad rest
      | [] => bad []
    else bad rest

def lossy (bs : List UInt8) : List Char := utf8Lossy (bs.length + 1) bs

/-- UTF-8 encoding of one scalar value (core's `String.utf8EncodeChar`) -/
def encChar (c : Char) : List UInt8 := String.utf8EncodeChar c
def encChars (cs : List Char) : List UInt8 := cs.flatMap encChar

end Hs
