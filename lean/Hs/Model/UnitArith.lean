/-
  Hs.Model.UnitArith — model of unit conversion, unit products/quotients and the unit rules of
  `Number + − × ÷`  (property C16), over EXACT rationals.

  Mirrors
    src/haystack/units/unit.rs            `Unit::convert_to`, `Unit::is_byte_unit`, `impl Mul/Div for &Unit`, `PartialEq`
    src/haystack/units/unit_dimension.rs  `impl Add/Sub for UnitDimensions`
    src/haystack/units/mod.rs             `match_units`, `approx_eq`, `DEFAULT_UNIT`
    src/haystack/val/number.rs            `Number::make_with_unit`, `impl Add/Sub/Mul/Div for Number`

  What is abstracted
  * `f64` is replaced by `Rat` (core).  Scale and offset of a database unit are the exact values of the
    decimal literals in units_generated.rs, not the doubles the compiler makes of them; `+ − × ÷` are
    exact.  Rounding is therefore NOT modelled (the check exercises it on the real code, see harness/src/c16.rs).
    `x / 0` is `0` in `Rat` and `±inf`/`NaN` in `f64`: the two agree only where the divisor is not zero —
    no database unit has scale 0 (table theorem `scale_ne_zero`), `DEFAULT_UNIT` has.
  * `i8` exponents are `Int`s.  `i8 + i8` panics on overflow in a debug build and wraps in a release build;
    the table theorem `dims_add_sub_in_i8` shows that no sum or difference of two database dimension vectors
    leaves the `i8` range, so neither happens on database units.
  * `match_units` walks `UNITS`, a `HashMap<&str, &Unit>` with one entry PER ID (a unit with two ids is
    found twice) in an unspecified order.  The functions below take the list of entry units `es` as a
    parameter: the theorems hold for every list (every order), the driver runs them on the order of the
    `UNITS` array literal.  The implementation looks at the result only through `len() == 1`, `[0]` of a
    one-element vector and `find` by name, so the order matters only if two different matching units
    had the same name.
  Core-only imports (linked into the driver).
-/
import Hs.Model.Val
namespace Hs.UnitArith
open Hs

/-- `UnitDimensions` (seven `i8` exponents, modelled as `Int`) -/
structure Dims where
  kg : Int
  m : Int
  sec : Int
  k : Int
  a : Int
  mol : Int
  cd : Int
deriving DecidableEq, Repr, Inhabited

/-- `impl Add for UnitDimensions` -/
def Dims.add (x y : Dims) : Dims :=
  ⟨x.kg + y.kg, x.m + y.m, x.sec + y.sec, x.k + y.k, x.a + y.a, x.mol + y.mol, x.cd + y.cd⟩
/-- `impl Sub for UnitDimensions` -/
def Dims.sub (x y : Dims) : Dims :=
  ⟨x.kg - y.kg, x.m - y.m, x.sec - y.sec, x.k - y.k, x.a - y.a, x.mol - y.mol, x.cd - y.cd⟩

/-- an exponent that fits `i8` -/
def inI8 (z : Int) : Bool := decide (-128 ≤ z) && decide (z ≤ 127)
def Dims.inI8 (d : Dims) : Bool :=
  UnitArith.inI8 d.kg && UnitArith.inI8 d.m && UnitArith.inI8 d.sec && UnitArith.inI8 d.k &&
  UnitArith.inI8 d.a && UnitArith.inI8 d.mol && UnitArith.inI8 d.cd

/-- an exponent in −64 … 63: two of them add and subtract inside `i8` -/
def small (z : Int) : Bool := decide (-64 ≤ z) && decide (z ≤ 63)
def Dims.small (d : Dims) : Bool :=
  UnitArith.small d.kg && UnitArith.small d.m && UnitArith.small d.sec && UnitArith.small d.k &&
  UnitArith.small d.a && UnitArith.small d.mol && UnitArith.small d.cd

/-- `struct Unit` with exact scale and offset -/
structure QUnit where
  quantity : Option String
  ids : List String
  dims : Option Dims
  scale : Rat
  offset : Rat
deriving DecidableEq, Inhabited

/-- `Unit::default()` = `DEFAULT_UNIT` -/
def defaultUnit : QUnit := ⟨none, [], none, 0, 0⟩

/-- `Unit::name`: the first id, `""` without ids -/
def QUnit.name (u : QUnit) : String := u.ids.head?.getD ""
/-- `Unit::symbol`: the last id -/
def QUnit.symbol (u : QUnit) : String := u.ids.getLast?.getD ""

/-- `Unit::is_byte_unit` -/
def QUnit.isByte (u : QUnit) : Bool :=
  u.quantity == some "bytes" || u.name == "byte" || u.name == "kilobyte" || u.name == "megabyte"
    || u.name == "gigabyte" || u.name == "terabyte" || u.name == "petabyte"

/-- the guard of `convert_to`: `!(self.is_byte_unit() && to.is_byte_unit()) && self.dimensions != to.dimensions` -/
def inconvertible (a b : QUnit) : Bool :=
  !(a.isByte && b.isByte) && decide (a.dims ≠ b.dims)

/-- `Unit::convert_to(&self = a, scalar = x, to = b)` -/
def convertTo (a b : QUnit) (x : Rat) : Res Rat :=
  if inconvertible a b then .err
  else .ok (((x * a.scale + a.offset) - b.offset) / b.scale)

def qabs (x : Rat) : Rat := if x < 0 then -x else x
def qmin (x y : Rat) : Rat := if x ≤ y then x else y

/-- `approx_eq` of units/mod.rs: equal, or closer than a thousandth of the smaller magnitude -/
def approxEq (a b : Rat) : Bool :=
  if a = b then true
  else
    let minPrecision := qmin (qabs (a / 1000)) (qabs (b / 1000))
    decide (qabs (a - b) ≤ minPrecision)

/-- `match_units(dim, scale)` over the entry units `es` (one per id of the `UNITS` map, any order) -/
def matchUnits (es : List QUnit) (dim : Dims) (scale : Rat) : List QUnit :=
  es.filter fun u => decide (u.dims = some dim) && approxEq u.scale scale

/-- `impl Mul<&'static Unit> for &Unit` -/
def mulUnits (es : List QUnit) (a b : QUnit) : Res QUnit :=
  match a.dims, b.dims with
  | some dim1, some dim2 =>
    let dim := dim1.add dim2
    let scale := a.scale * b.scale
    let units := matchUnits es dim scale
    match units with
    | [u] => .ok u                       -- `units.len() == 1` ⇒ `units[0]`
    | _ =>
      let expectedName := a.name ++ "_" ++ b.name
      match units.find? (fun u => u.name == expectedName) with
      | some u => .ok u
      | none => .err
  | _, _ => .err                         -- "Can't multiply dimensionless units"

/-- `impl Div<&'static Unit> for &Unit` -/
def divUnits (es : List QUnit) (a b : QUnit) : Res QUnit :=
  match a.dims, b.dims with
  | some dim1, some dim2 =>
    let dim := dim1.sub dim2
    let scale := a.scale / b.scale
    let units := matchUnits es dim scale
    match units with
    | [u] => .ok u
    | _ =>
      let singular := a.name ++ "_per_" ++ b.name
      let plural := a.name ++ "s_per_" ++ b.name
      match units.find? (fun u => u.name == singular || u.name == plural) with
      | some u => .ok u
      | none => .err
  | _, _ => .err                         -- "Can't divide dimensionless units"

/-- `struct Number { value, unit: Option<&'static Unit> }` -/
structure QNum where
  value : Rat
  unit : Option QUnit
deriving DecidableEq, Inhabited

/-- `Number::make_with_unit`: the default unit means "no unit" -/
def makeWithUnit (value : Rat) (unit : QUnit) : QNum :=
  ⟨value, if unit ≠ defaultUnit then some unit else none⟩

/-- the unit chosen by `impl Add/Sub for Number` (`none` = the `return Err(…)` arm) -/
def addUnit (a b : QNum) : Option (Option QUnit) :=
  if a.unit = b.unit then some a.unit
  else if a.unit.isNone then some b.unit
  else if b.unit.isNone then some a.unit
  else none

/-- `impl Add<Number> for Number` -/
def numAdd (a b : QNum) : Res QNum :=
  match addUnit a b with
  | none => .err
  | some unit => .ok (makeWithUnit (a.value + b.value) (unit.getD defaultUnit))

/-- `impl Sub<Number> for Number` -/
def numSub (a b : QNum) : Res QNum :=
  match addUnit a b with
  | none => .err
  | some unit => .ok (makeWithUnit (a.value - b.value) (unit.getD defaultUnit))

/-- `impl Mul<Number> for Number` -/
def numMul (es : List QUnit) (a b : QNum) : Res QNum :=
  let unit : Res (Option QUnit) :=
    if a.unit.isNone then .ok b.unit
    else if b.unit.isNone then .ok a.unit
    else match mulUnits es (a.unit.getD defaultUnit) (b.unit.getD defaultUnit) with
      | .ok u => .ok (some u)
      | _ => .err
  match unit with
  | .ok unit => .ok (makeWithUnit (a.value * b.value) (unit.getD defaultUnit))
  | _ => .err

/-- `impl Div<Number> for Number` (a unit-less dividend takes the divisor's unit: `1 / 2s = 0.5s`) -/
def numDiv (es : List QUnit) (a b : QNum) : Res QNum :=
  let unit : Res (Option QUnit) :=
    if a.unit.isNone then .ok b.unit
    else if b.unit.isNone then .ok a.unit
    else match divUnits es (a.unit.getD defaultUnit) (b.unit.getD defaultUnit) with
      | .ok u => .ok (some u)
      | _ => .err
  match unit with
  | .ok unit => .ok (makeWithUnit (a.value / b.value) (unit.getD defaultUnit))
  | _ => .err

/-- the units behind the entries of the `UNITS` literal (`idx` into `units`) -/
def entryUnits (units : List QUnit) (entries : List (String × Nat)) : List QUnit :=
  entries.map fun e => units.getD e.2 defaultUnit

/-- exact value of the double with bit pattern `bits` (finite doubles only; `none` for ±inf / NaN) -/
def ratOfBits (bits : Nat) : Option Rat :=
  let sign : Nat := bits / 2 ^ 63
  let e : Nat := (bits / 2 ^ 52) % 2048
  let f : Nat := bits % 2 ^ 52
  if e = 2047 then none else
  let m : Nat := if e = 0 then f else f + 2 ^ 52
  let ex : Int := (if e = 0 then (1 : Int) else Int.ofNat e) - 1075
  let mag : Rat := if ex ≥ 0 then ((m * 2 ^ ex.toNat : Nat) : Rat) else mkRat m (2 ^ (-ex).toNat)
  some (if sign = 1 then -mag else mag)

end Hs.UnitArith
