/-
  Hs.Model.FilterSpec — what property C07 demands of filter evaluation, written from the property
  text and independently of how nodes.rs / resolver.rs are coded.

    "'or' holds iff some operand holds, 'and' iff all do, … parentheses group; 'tag' / 'not tag'
     test whether the path resolves to a value; a comparison holds only if the path resolves to a
     value that stands in the stated relation to the literal - equal or unequal for ==/!=, and for
     < <= > >= a value of the same kind ordered as stated (how Numbers with different units are
     ordered is left open) - or, when it resolves to a list, if some element does.  'a->b' looks b
     up in the dict (or resolver-supplied record) that a resolves to …"

  Reading fixed here (and in the Rust oracle of harness/src/c07.rs):
    * "resolves to a value": the look-up succeeds with something other than Null (`lookupSpec`
      answers with an `Option`, never `some .null`);
    * a list value is searched element-wise (an element that is itself a list likewise; a Null
      element is no value); the list as a whole is compared only with a list literal, which the
      filter language cannot spell;
    * "left open": the order of two Numbers with different units is the parameter `mixed` of the
      environment — the theorems hold for every choice of it and say nothing where it is consulted
      (`noMixed`).
  `^sym` and `rel?` are answered by the namespace oracle of the environment (C13).
  `path *== @ref`: the Ref chain that starts at the path's value — each Ref names the record in
  which the path is looked up next — reaches `@ref`.
-/
import Hs.Model.Filter
namespace Hs

/-- What a filter is evaluated against, besides the record itself. -/
structure SpecEnv where
  /-- the resolver-supplied record for a Ref id (`fun _ => none` without a resolver) -/
  deref : List Char → Option Tags
  /-- number of hops after which a Ref chain has necessarily repeated itself -/
  hops : Nat
  fits : Tags → List Char → Bool
  rel : Tags → List Char → Option (List Char) → Option (List Char) → Bool
  /-- left open by the property: does `a op b` hold for Numbers with different units -/
  mixed : CmpOp → Num → Num → Bool

/-- a value other than Null -/
def Val.asValue : Val → Option Val
  | .null => none
  | v => some v

/-- `a->b->c`: look `a` up in the record; for every further segment the value so far must be a
dict, or a Ref to a record the resolver supplies, in which the segment is looked up. -/
def lookupSpec (deref : List Char → Option Tags) : Tags → FPath → Option Val
  | _, [] => none
  | d, seg :: rest =>
    match d.get? seg with
    | none => none
    | some v =>
      match rest with
      | [] => v.asValue
      | _ :: _ =>
        match v with
        | .dict d' => lookupSpec deref d' rest
        | .ref id _ =>
          match deref id with
          | some d' => lookupSpec deref d' rest
          | none => none
        | _ => none

/-- "ordered as stated" -/
def CmpOp.ordered (op : CmpOp) (o : Option Ordering) : Bool :=
  match op, o with
  | .lt, some .lt => true
  | .le, some .lt => true
  | .le, some .eq => true
  | .gt, some .gt => true
  | .ge, some .gt => true
  | .ge, some .eq => true
  | _, _ => false

def CmpOp.isOrder : CmpOp → Bool
  | .eq => false
  | .ne => false
  | _ => true

/-- `v` and `lit` are of the same kind: are they ordered as stated -/
def orderedSame (env : SpecEnv) (op : CmpOp) (v lit : Val) : Bool :=
  match v with
  | .num a =>
    match lit with
    | .num b => if a.unit = b.unit then op.ordered (a.v.pcmp b.v) else env.mixed op a b
    | _ => false
  | _ => op.ordered (Val.pcmpSame v lit)

/-- "stands in the stated relation to the literal": equal / unequal, or of the literal's kind and
ordered as stated. -/
def stands (env : SpecEnv) (op : CmpOp) (v lit : Val) : Bool :=
  match op with
  | .eq => Val.eqv v lit
  | .ne => !Val.eqv v lit
  | _ => v.kindIdx == lit.kindIdx && orderedSame env op v lit

mutual
/-- the comparison holds of a value the path resolved to -/
def holdsOf (env : SpecEnv) (op : CmpOp) (lit : Val) : Val → Bool
  | .null => false
  | .list xs => if lit.isList then stands env op (.list xs) lit else holdsSome env op lit xs
  | v => stands env op v lit
/-- some element does -/
def holdsSome (env : SpecEnv) (op : CmpOp) (lit : Val) : Vals → Bool
  | .nil => false
  | .cons x xs => holdsOf env op lit x || holdsSome env op lit xs
end

def cmpSpec (env : SpecEnv) (op : CmpOp) (lit : Val) : Option Val → Bool
  | none => false
  | some v => holdsOf env op lit v

/-- `path *== @target` within `n` hops -/
def chaseSpec (env : SpecEnv) (p : FPath) (target : List Char) : Nat → Tags → Bool
  | 0, _ => false
  | n + 1, d =>
    match lookupSpec env.deref d p with
    | some (.ref id _) =>
      id == target ||
        (match env.deref id with
         | some d' => chaseSpec env p target n d'
         | none => false)
    | _ => false

mutual
def FTerm.evalSpec (env : SpecEnv) (r : Tags) : FTerm → Bool
  | .parens o => FOr.evalSpec env r o
  | .has p => (lookupSpec env.deref r p).isSome
  | .missing p => (lookupSpec env.deref r p).isNone
  | .isA sym => env.fits r sym
  | .wildcardEq p t => chaseSpec env p t env.hops r
  | .relation rel t rf => env.rel r rel t rf
  | .cmp p op lit => cmpSpec env op lit (lookupSpec env.deref r p)
/-- 'and' holds iff all operands hold -/
def FAnd.evalSpec (env : SpecEnv) (r : Tags) : FAnd → Bool
  | .nil => true
  | .cons t ts => FTerm.evalSpec env r t && FAnd.evalSpec env r ts
/-- 'or' holds iff some operand holds -/
def FOr.evalSpec (env : SpecEnv) (r : Tags) : FOr → Bool
  | .nil => false
  | .cons a as => FAnd.evalSpec env r a || FOr.evalSpec env r as
end

/-! ### the excluded class: ordering comparisons between Numbers with different units -/

mutual
/-- evaluating `v op lit` (op an ordering operator, `lit` a Number) would have to order two Numbers
with different units -/
def mixedIn (lit : Num) : Val → Bool
  | .num a => a.unit != lit.unit
  | .list xs => mixedInSome lit xs
  | _ => false
def mixedInSome (lit : Num) : Vals → Bool
  | .nil => false
  | .cons x xs => mixedIn lit x || mixedInSome lit xs
end

def mixedVal (op : CmpOp) (lit : Val) (v : Val) : Bool :=
  match lit with
  | .num n => op.isOrder && mixedIn n v
  | _ => false

def mixedCmp (op : CmpOp) (lit : Val) : Option Val → Bool
  | none => false
  | some v => mixedVal op lit v

mutual
/-- no comparison of the filter consults the open point on this record -/
def FTerm.noMixed (deref : List Char → Option Tags) (r : Tags) : FTerm → Bool
  | .parens o => FOr.noMixed deref r o
  | .cmp p op lit => !mixedCmp op lit (lookupSpec deref r p)
  | _ => true
def FAnd.noMixed (deref : List Char → Option Tags) (r : Tags) : FAnd → Bool
  | .nil => true
  | .cons t ts => FTerm.noMixed deref r t && FAnd.noMixed deref r ts
def FOr.noMixed (deref : List Char → Option Tags) (r : Tags) : FOr → Bool
  | .nil => true
  | .cons a as => FAnd.noMixed deref r a && FOr.noMixed deref r as
end

end Hs
