/-
  Hs.Model.FilterText — filter text ⇄ filter tree.

  * `printFilter` mirrors every `impl Display` of filter/nodes.rs, filter/path.rs and
    `impl Display for Value` (val/value.rs: scalars other than Null/Remove/Marker/Na/Bool print
    through the Zinc writer, `Hs.Zinc.encode`).
  * `lexRead` mirrors `Lexer::read` of filter/lexer.rs one byte at a time over `Hs.Scan`, calling the
    Zinc scalar readers of `Hs.Zinc` exactly where the Rust calls `parse_str`, `parse_uri`,
    `parse_ref`, `parse_symbol`, `parse_number_date_time`, `parse_id`; `parse_path` is the code after
    fix 1b980b2 (a path continues only after an explicit `->`).
  * `parseFilter` mirrors filter/parser.rs (`parse`, `parse_or`, `parse_and`, `parse_term`,
    `parse_cmp_or_wildcard_eq`, `parse_parens` with the nesting counter of fix 8030c9f,
    `parse_not`, `parse_cmp`, `parse_wildcard_eq`, `parse_rel`).  Lexer errors the parser swallows
    (`.ok()`, `if let Ok(..)`) are modelled as such: the current token stays what it was and the
    scanner stays where the failed reader left it (`Hs.Model.FilterLexErr`).
    `Vec::push` accumulation is written as "first element, then the rest": the same list.

  Numbers and timestamps stay lexical exactly as in ZincLex (a literal number carries the text
  handed to `str::parse::<f64>`); the filter lexer's `is_infinite()` test on that number is decided
  on the lexeme (`lexIsInf`).
  Core-only imports: linked into `hsdriver`.
-/
import Hs.Model.FilterAst
import Hs.Model.FilterLexErr
import Hs.Model.ZincEnc
namespace Hs.FText
open Hs Hs.Scan Hs.Zinc

/-! ### printing -/

def arrow : List UInt8 := [45, 62]

/-- `impl Display for Path` -/
def printPath : Path → List UInt8
  | [] => []
  | [seg] => encChars seg
  | seg :: rest => encChars seg ++ arrow ++ printPath rest

/-- `impl Display for Value` -/
def printVal : Val → List UInt8
  | .null => bytesOfAscii "Null"
  | .remove => bytesOfAscii "Remove"
  | .marker => bytesOfAscii "Marker"
  | .bool b => if b then bytesOfAscii "true" else bytesOfAscii "false"
  | .na => bytesOfAscii "Na"
  | v => encode v

def printOp : CmpOp → List UInt8
  | .eq => [61, 61]
  | .ne => [33, 61]
  | .lt => [60]
  | .le => [60, 61]
  | .gt => [62]
  | .ge => [62, 61]

/-- `impl Display for Ref` (val/reference.rs): the display name is not printed -/
def printRef (r : RefV) : List UInt8 := [64] ++ encChars r.id

def sepAnd : List UInt8 := bytesOfAscii " and "
def sepOr : List UInt8 := bytesOfAscii " or "

mutual
/-- `impl Display for Term` and for each node -/
def printTerm : Term → List UInt8
  | .parens o => [40, 32] ++ printOrs o ++ [32, 41]
  | .has p => printPath p
  | .missing p => bytesOfAscii "not " ++ printPath p
  | .isA s => [94] ++ encChars s
  | .weq p r => printPath p ++ bytesOfAscii " *== " ++ printRef r
  | .rel r t ref =>
    encChars r ++ [63]
      ++ (match t with
          | some t => [32, 94] ++ encChars t
          | Option.none => [])
      ++ (match ref with
          | some rv => [32] ++ printRef rv
          | Option.none => [])
  | .cmp p op v => printPath p ++ [32] ++ printOp op ++ [32] ++ printVal v
/-- `impl Display for And` -/
def printAnds : Ands → List UInt8
  | .nil => []
  | .cons t ts =>
    match ts with
    | .nil => printTerm t
    | .cons _ _ => printTerm t ++ sepAnd ++ printAnds ts
/-- `impl Display for Or` -/
def printOrs : Ors → List UInt8
  | .nil => []
  | .cons a as =>
    match as with
    | .nil => printAnds a
    | .cons _ _ => printAnds a ++ sepOr ++ printOrs as
end

/-- `Filter::to_string` -/
def printFilter (f : Ors) : List UInt8 := printOrs f

/-! ### tokens -/

/-- `LexerToken { value: Option<TokenValue> }` -/
inductive FTok where
  | none
  | val (v : Val)
  | path (p : Path)
  | rel (s : List Char)
  | eq | ne | lt | le | gt | ge
  | lparen | rparen
  | weq
deriving Inhabited

/-- outcome of `Lexer::read`: `Ok` with the scanner and the new current token, or `Err` with the
scanner where the failed reader left it (the current token is unchanged) -/
inductive TokR where
  | ok (s : Scan) (t : FTok)
  | err (s : Scan)
  | panic | diverge | depth
deriving Inhabited

/-! ### `num.value.is_infinite()` on a number lexeme -/

/-- `2^1024 − 2^970`: the least magnitude that `f64::from_str` rounds to infinity -/
def infThreshold : Nat := 2 ^ 1024 - 2 ^ 970

def digitVal (c : Char) : Nat := c.toNat - 48
def isDigitC (c : Char) : Bool := 48 ≤ c.toNat && c.toNat ≤ 57
def natOfDigits (cs : List Char) : Nat := cs.foldl (fun a c => a * 10 + digitVal c) 0

/-- A decimal lexeme `-?d*(.d*)?` as (all digits read as one natural number, number of fraction
digits) -/
def decParts (cs : List Char) : Nat × Nat :=
  let body := match cs with
    | '-' :: r => r
    | r => r
  let ip := body.takeWhile isDigitC
  let rest := body.dropWhile isDigitC
  let fr := match rest with
    | '.' :: f => f.takeWhile isDigitC
    | _ => []
  (natOfDigits (ip ++ fr), fr.length)

/-- the exponent part `sign? d+(.0*)?` as an integer (its fraction is zero when the number was accepted) -/
def expValue (cs : List Char) : Int :=
  let (neg, body) := match cs with
    | '-' :: r => (true, r)
    | '+' :: r => (false, r)
    | r => (false, r)
  let (neg, body) := match body with
    | '-' :: r => (!neg, r)
    | r => (neg, r)
  let n : Nat := natOfDigits (body.takeWhile isDigitC)
  if neg then - (n : Int) else (n : Int)

/-- Does the text `dec[e exp]` denote a magnitude that `str::parse::<f64>` rounds to ±infinity?
Exact rational comparison `m·10^e ≥ (2^1024 − 2^970)·10^k`.  (`parse_number` parses the decimal part
to an f64 and prints it again before it appends the exponent; that intermediate rounding can
change the answer only for texts within 2⁻⁵² relative distance of the threshold.) -/
def lexIsInf (txt : List Char) : Bool :=
  let dec := txt.takeWhile (· != 'e')
  let ex := (txt.dropWhile (· != 'e')).drop 1
  let (m, k) := decParts dec
  let e := expValue ex
  let len := dec.length
  if m == 0 then false
  else if e > (400 + len : Nat) then true
  else if e < - ((400 + len : Nat) : Int) then false
  else
    let up := e.toNat
    let down := (-e).toNat
    decide (m * 10 ^ up ≥ infThreshold * 10 ^ (k + down))

/-- `num.value.is_infinite()` -/
def numIsInf (n : Num) : Bool :=
  if n.v.bits == lexBits then lexIsInf n.v.txt else Flt.isInfBits n.v.bits

/-! ### lexer -/

def kwNot : Path := [['n', 'o', 't']]
def kwAnd : Path := [['a', 'n', 'd']]
def kwOr : Path := [['o', 'r']]
def kwTrue : Path := [['t', 'r', 'u', 'e']]
def kwFalse : Path := [['f', 'a', 'l', 's', 'e']]

/-- `greater_or_less` -/
def greaterOrLess (s : Scan) (t0 t1 : FTok) : TokR :=
  match s.peek with
  | (some ch, s1) =>
    if ch == 61 then
      match s1.read with
      | (some _, s2) => .ok s2.advance t1
      | (Option.none, s2) => .err s2
    else .ok s1.advance t0
  | (Option.none, s1) => .ok s1.advance t0

/-- `parse_path` (after fix 1b980b2); `acc` = the segments read so far -/
def pathLoop : Nat → Scan → Path → TokR
  | 0, _, _ => .diverge
  | fuel + 1, s, acc =>
    if s.eof then .ok s (.path acc)
    else
      match parseId fuel s with
      | .ok (seg, s1) =>
        match consumeWhiteSpaces fuel s1 with
        | .ok s2 =>
          if s2.cur == 45 then
            match s2.read with
            | (Option.none, s3) => .err s3
            | (some _, s3) =>
              if s3.cur != 62 then .err s3
              else
                match consumeWhiteSpaces fuel s3.advance with
                | .ok s5 => if !s5.isLower then .err s5 else pathLoop fuel s5 (acc ++ [seg])
                | .err => .err s3 | .panic => .panic | .diverge => .diverge | .depth => .depth
          else .ok s2 (.path (acc ++ [seg]))
        | .err => .err s1 | .panic => .panic | .diverge => .diverge | .depth => .depth
      | .err => .err s | .panic => .panic | .diverge => .diverge | .depth => .depth

/-- the `b'a'..=b'z'` arm of `Lexer::read` -/
def lexId (fuel : Nat) (s : Scan) : TokR :=
  match parseId fuel s with
  | .ok (seg, s1) =>
    if s1.eof then .ok s1 (.path [seg])
    else
      match consumeWhiteSpaces fuel s1 with
      | .ok s2 =>
        if s2.cur == 63 then .ok s2.advance (.rel seg)
        else if s2.cur == 45 then
          match s2.read with
          | (Option.none, s3) => .err s3
          | (some _, s3) =>
            if s3.cur == 62 then
              match s3.read with
              | (Option.none, s4) => .err s4
              | (some _, s4) =>
                match consumeWhiteSpaces fuel s4 with
                | .ok s5 => pathLoop fuel s5 [seg]
                | .err => .err s4 | .panic => .panic | .diverge => .diverge | .depth => .depth
            else .err s3
        else .ok s2 (.path [seg])
      | .err => .err s1 | .panic => .panic | .diverge => .diverge | .depth => .depth
  | .err => .err s | .panic => .panic | .diverge => .diverge | .depth => .depth

/-- `Lexer::read`.  Fuel: one unit per loop iteration (only runs of white space iterate). -/
def lexRead : Nat → Scan → TokR
  | 0, _ => .diverge
  | fuel + 1, s =>
    if s.eof then .ok s .none
    else
      let c := s.cur
      if c == 10 || c == 13 || c == 9 || c == 32 then
        match consumeWhiteSpaces (fuel + 1) s with
        | .ok s' => lexRead fuel s'
        | .err => .err s | .panic => .panic | .diverge => .diverge | .depth => .depth
      else if c == 34 then
        match parseStr fuel s with
        | .ok (v, s') => .ok s' (.val (.str v))
        | .err => .err (strErr fuel s) | .panic => .panic | .diverge => .diverge | .depth => .depth
      else if c == 96 then
        match parseUri fuel s with
        | .ok (v, s') => .ok s' (.val (.uri v))
        | .err => .err (uriErr fuel s) | .panic => .panic | .diverge => .diverge | .depth => .depth
      else if c == 64 then
        match parseRef fuel s with
        | .ok (v, s') => .ok s' (.val v)
        | .err => .err (refErr fuel s) | .panic => .panic | .diverge => .diverge | .depth => .depth
      else if c == 94 then
        match parseSymbol fuel s with
        | .ok (v, s') => .ok s' (.val v)
        | .err => .err (symErr fuel s) | .panic => .panic | .diverge => .diverge | .depth => .depth
      else if isDigitB c || c == 45 then
        match parseNumberDateTime fuel s with
        | .ok (v, s') =>
          match v with
          | .num n => if numIsInf n then .err s' else .ok s' (.val v)
          | _ => .ok s' (.val v)
        | .err => .err (ndtErr fuel s) | .panic => .panic | .diverge => .diverge | .depth => .depth
      else if c == 40 then .ok s.advance .lparen
      else if c == 41 then .ok s.advance .rparen
      else if c == 61 then
        match s.read with
        | (Option.none, s1) => .err s1
        | (some _, s1) => if s1.cur == 61 then .ok s1.advance .eq else .err s1
      else if c == 33 then
        match s.read with
        | (Option.none, s1) => .err s1
        | (some _, s1) => if s1.cur == 61 then .ok s1.advance .ne else .err s1
      else if c == 60 then greaterOrLess s .lt .le
      else if c == 62 then greaterOrLess s .gt .ge
      else if c == 42 then
        match s.read with
        | (Option.none, s1) => .err s1
        | (some _, s1) =>
          match expectAndConsumeSeq [61, 61] s1 with
          | .ok s2 => .ok s2 .weq
          | _ => .err (seqErr [61, 61] s1)
      else if isLowerB c then lexId fuel s
      else .err s

/-! ### parser -/

/-- `Lexer { scanner, cur }` -/
structure FLex where
  sc : Scan
  cur : FTok
deriving Inhabited

/-- `self.lexer.read()?` -/
def FLex.read (fuel : Nat) (l : FLex) : Res FLex :=
  match lexRead fuel l.sc with
  | .ok s t => .ok { sc := s, cur := t }
  | .err _ => .err
  | .panic => .panic | .diverge => .diverge | .depth => .depth

/-- `self.lexer.read()` with the `Result` kept: `true` = `Ok`.  After an `Err` the current token is
unchanged and the scanner is where the reader stopped. -/
def FLex.readTry (fuel : Nat) (l : FLex) : Res (Bool × FLex) :=
  match lexRead fuel l.sc with
  | .ok s t => .ok (true, { sc := s, cur := t })
  | .err s => .ok (false, { sc := s, cur := l.cur })
  | .panic => .panic | .diverge => .diverge | .depth => .depth

/-- `self.lexer.read().ok()` -/
def FLex.readOk (fuel : Nat) (l : FLex) : Res FLex :=
  match l.readTry fuel with
  | .ok (_, l') => .ok l'
  | .err => .err | .panic => .panic | .diverge => .diverge | .depth => .depth

def FTok.isPath (t : FTok) (p : Path) : Bool :=
  match t with
  | .path q => q == p
  | _ => false
def FTok.isNone : FTok → Bool
  | .none => true
  | _ => false
def FTok.isRParen : FTok → Bool
  | .rparen => true
  | _ => false

/-- `MAX_NESTING_DEPTH` of filter/parser.rs -/
def maxNestingDepth : Nat := 64

/-- `parse_cmp` (`to_cmp_op` cannot fail on the six operator tokens it is called with) -/
def parseCmp (fuel : Nat) (l : FLex) (p : Path) (op : CmpOp) : Res (Term × FLex) :=
  match l.read fuel with
  | .ok l1 =>
    match l1.cur with
    | .val v => .ok (.cmp p op v, l1)
    | .path q =>
      if q == kwTrue then .ok (.cmp p op (.bool true), l1)
      else if q == kwFalse then .ok (.cmp p op (.bool false), l1)
      else .err
    | _ => .err
  | .err => .err | .panic => .panic | .diverge => .diverge | .depth => .depth

/-- `parse_wildcard_eq` -/
def parseWeq (fuel : Nat) (l : FLex) (p : Path) : Res (Term × FLex) :=
  match l.read fuel with
  | .ok l1 =>
    match l1.cur with
    | .val (.ref id dis) => .ok (.weq p { id := id, dis := dis }, l1)
    | _ => .err
  | .err => .err | .panic => .panic | .diverge => .diverge | .depth => .depth

def FTok.cmpOp : FTok → Option CmpOp
  | .eq => some .eq | .ne => some .ne | .lt => some .lt | .le => some .le
  | .gt => some .gt | .ge => some .ge
  | _ => Option.none

/-- `parse_cmp_or_wildcard_eq(next_token, path)`; `l.cur = next` -/
def parseCmpOrWeq (fuel : Nat) (l : FLex) (next : FTok) (p : Path) : Res (Term × FLex) :=
  match next.cmpOp with
  | some op =>
    match parseCmp fuel l p op with
    | .ok (t, l1) =>
      match l1.readOk fuel with
      | .ok l2 => .ok (t, l2)
      | .err => .err | .panic => .panic | .diverge => .diverge | .depth => .depth
    | .err => .err | .panic => .panic | .diverge => .diverge | .depth => .depth
  | Option.none =>
    match next with
    | .weq =>
      match parseWeq fuel l p with
      | .ok (t, l1) =>
        match l1.readOk fuel with
        | .ok l2 => .ok (t, l2)
        | .err => .err | .panic => .panic | .diverge => .diverge | .depth => .depth
      | .err => .err | .panic => .panic | .diverge => .diverge | .depth => .depth
    | _ => .ok (.has p, l)

/-- `parse_not` -/
def parseNot (fuel : Nat) (l : FLex) : Res (Term × FLex) :=
  match l.read fuel with
  | .ok l1 =>
    match l1.cur with
    | .path q =>
      match l1.readOk fuel with
      | .ok l2 => .ok (.missing q, l2)
      | .err => .err | .panic => .panic | .diverge => .diverge | .depth => .depth
    | _ => .err
  | .err => .err | .panic => .panic | .diverge => .diverge | .depth => .depth

/-- `parse_rel` -/
def parseRel (fuel : Nat) (l : FLex) (rel : List Char) : Res (Term × FLex) :=
  match l.read fuel with
  | .ok l1 =>
    match l1.cur with
    | .val (.ref id dis) =>
      match l1.readOk fuel with
      | .ok l2 => .ok (.rel rel Option.none (some { id := id, dis := dis }), l2)
      | .err => .err | .panic => .panic | .diverge => .diverge | .depth => .depth
    | .val (.sym t) =>
      match l1.read fuel with
      | .ok l2 =>
        match l2.cur with
        | .val (.ref id dis) =>
          match l2.readOk fuel with
          | .ok l3 => .ok (.rel rel (some t) (some { id := id, dis := dis }), l3)
          | .err => .err | .panic => .panic | .diverge => .diverge | .depth => .depth
        | _ => .ok (.rel rel (some t) Option.none, l2)
      | .err => .err | .panic => .panic | .diverge => .diverge | .depth => .depth
    | _ => .ok (.rel rel Option.none Option.none, l1)
  | .err => .err | .panic => .panic | .diverge => .diverge | .depth => .depth

mutual
/-- `parse_or`: the first `And`, then the `while cur == OR_TOKEN` loop -/
def parseOr : Nat → Nat → FLex → Res (Ors × FLex)
  | 0, _, _ => .diverge
  | fuel + 1, depth, l =>
    match parseAnd fuel depth l with
    | .ok (a, l1) =>
      match orLoop fuel depth l1 with
      | .ok (rest, l2) => .ok (.cons a rest, l2)
      | .err => .err | .panic => .panic | .diverge => .diverge | .depth => .depth
    | .err => .err | .panic => .panic | .diverge => .diverge | .depth => .depth

def orLoop : Nat → Nat → FLex → Res (Ors × FLex)
  | 0, _, _ => .diverge
  | fuel + 1, depth, l =>
    if l.cur.isPath kwOr then
      if l.sc.eof then .err
      else
        match l.read fuel with
        | .ok l1 =>
          match parseAnd fuel depth l1 with
          | .ok (a, l2) =>
            match orLoop fuel depth l2 with
            | .ok (rest, l3) => .ok (.cons a rest, l3)
            | .err => .err | .panic => .panic | .diverge => .diverge | .depth => .depth
          | .err => .err | .panic => .panic | .diverge => .diverge | .depth => .depth
        | .err => .err | .panic => .panic | .diverge => .diverge | .depth => .depth
    else .ok (.nil, l)

/-- `parse_and` -/
def parseAnd : Nat → Nat → FLex → Res (Ands × FLex)
  | 0, _, _ => .diverge
  | fuel + 1, depth, l =>
    match parseTerm fuel depth l with
    | .ok (t, l1) =>
      match andLoop fuel depth l1 with
      | .ok (rest, l2) => .ok (.cons t rest, l2)
      | .err => .err | .panic => .panic | .diverge => .diverge | .depth => .depth
    | .err => .err | .panic => .panic | .diverge => .diverge | .depth => .depth

def andLoop : Nat → Nat → FLex → Res (Ands × FLex)
  | 0, _, _ => .diverge
  | fuel + 1, depth, l =>
    if l.cur.isPath kwAnd then
      if l.sc.eof then .err
      else
        match l.read fuel with
        | .ok l1 =>
          match parseTerm fuel depth l1 with
          | .ok (t, l2) =>
            match andLoop fuel depth l2 with
            | .ok (rest, l3) => .ok (.cons t rest, l3)
            | .err => .err | .panic => .panic | .diverge => .diverge | .depth => .depth
          | .err => .err | .panic => .panic | .diverge => .diverge | .depth => .depth
        | .err => .err | .panic => .panic | .diverge => .diverge | .depth => .depth
    else .ok (.nil, l)

/-- `parse_term` -/
def parseTerm : Nat → Nat → FLex → Res (Term × FLex)
  | 0, _, _ => .diverge
  | fuel + 1, depth, l =>
    match l.cur with
    | .lparen =>
      match parseParens fuel depth l with
      | .ok (o, l1) => .ok (.parens o, l1)
      | .err => .err | .panic => .panic | .diverge => .diverge | .depth => .depth
    | .path p =>
      if p == kwNot then parseNot fuel l
      else
        match l.readTry fuel with
        | .ok (true, l1) =>
          if l1.cur.isNone then .ok (.has p, l1) else parseCmpOrWeq fuel l1 l1.cur p
        | .ok (false, l1) => .ok (.has p, l1)
        | .err => .err | .panic => .panic | .diverge => .diverge | .depth => .depth
    | .val (.sym s) =>
      match l.readOk fuel with
      | .ok l1 => .ok (.isA s, l1)
      | .err => .err | .panic => .panic | .diverge => .diverge | .depth => .depth
    | .rel r => parseRel fuel l r
    | _ => .err

/-- `parse_parens` (with the nesting counter) and `parse_nested_parens` -/
def parseParens : Nat → Nat → FLex → Res (Ors × FLex)
  | 0, _, _ => .diverge
  | fuel + 1, depth, l =>
    if depth ≥ maxNestingDepth then .err
    else
      match l.read fuel with
      | .ok l1 =>
        match parseOr fuel (depth + 1) l1 with
        | .ok (o, l2) =>
          if !l2.cur.isRParen then .err
          else
            match l2.readOk fuel with
            | .ok l3 => .ok (o, l3)
            | .err => .err | .panic => .panic | .diverge => .diverge | .depth => .depth
        | .err => .err | .panic => .panic | .diverge => .diverge | .depth => .depth
      | .err => .err | .panic => .panic | .diverge => .diverge | .depth => .depth
end

/-- fuel that suffices for any input of this length -/
def fuelFor (n : Nat) : Nat := 8 * n + 64

/-- `Parser::make` + `Parser::parse` with an explicit fuel -/
def parseFilter (fuel : Nat) (bs : List UInt8) : Res Ors :=
  let l0 : FLex := { sc := Scan.make bs, cur := .none }
  match l0.read fuel with
  | .ok l1 =>
    match parseOr fuel 0 l1 with
    | .ok (o, l2) => if l2.cur.isNone then .ok o else .err
    | .err => .err | .panic => .panic | .diverge => .diverge | .depth => .depth
  | .err => .err | .panic => .panic | .diverge => .diverge | .depth => .depth

/-- `Filter::try_from(&str)` -/
def filterOfBytes (bs : List UInt8) : Res Ors := parseFilter (fuelFor bs.length) bs

end Hs.FText
