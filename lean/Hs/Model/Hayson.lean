/-
  Hs.Model.Hayson — model of the Hayson codec at the level of the JSON tree
  (src/haystack/encoding/json/encode.rs `impl Serialize for *`, json/decode.rs
  `JsonValueDecoderVisitor` + `parse_*`).  serde_json's text layer is outside the model: a JSON
  number token carries what serde_json and Rust std make of it (its i64/u64 integer text when it is
  one, the bits and Display text of the f64 it converts to).  Object members are in document order.
  Dates/times/timestamps read from JSON stay lexical (chrono evaluates them: `dl`/`tl`/`Tj` reply tokens).
-/
import Hs.Model.Val
import Hs.Model.ZincLex
namespace Hs.Hayson
open Hs

mutual
inductive Json where
  | null
  | bool (b : Bool)
  /-- an integer token (fits i64 or u64): its value, and the f64 it converts to -/
  | int (i : Int) (f : Flt)
  /-- any other number token -/
  | flt (f : Flt)
  | str (s : List Char)
  | arr (xs : Jsons)
  | obj (ms : Members)
inductive Jsons where
  | nil
  | cons (j : Json) (js : Jsons)
inductive Members where
  | nil
  | cons (k : List Char) (j : Json) (ms : Members)
end

instance : Inhabited Json := ⟨.null⟩

def Jsons.ofList : List Json → Jsons
  | [] => .nil
  | j :: js => .cons j (Jsons.ofList js)
def Jsons.toList : Jsons → List Json
  | .nil => []
  | .cons j js => j :: js.toList
def Members.ofList : List (List Char × Json) → Members
  | [] => .nil
  | (k, j) :: ms => .cons k j (Members.ofList ms)
def Members.toList : Members → List (List Char × Json)
  | .nil => []
  | .cons k j ms => (k, j) :: ms.toList

/-! ### encode -/

def s (x : String) : List Char := x.toList

def isNaN (f : Flt) : Bool := (f.bits / 2 ^ 52) % 2048 == 2047 && f.bits % 2 ^ 52 != 0
def isInf (f : Flt) : Bool := (f.bits / 2 ^ 52) % 2048 == 2047 && f.bits % 2 ^ 52 == 0
def isNeg (f : Flt) : Bool := f.bits / 2 ^ 63 % 2 == 1

/-- `serialize_f64`: serde_json turns a non-finite double into `null` -/
def jF64 (f : Flt) : Json := if isNaN f || isInf f then .null else .flt f

/-- the exact integer value of a finite double, when it is one (`value.fract() == 0.0`, then
`value as i64` in range): from the IEEE-754 fields -/
def exactInt (f : Flt) : Option Int :=
  let e := (f.bits / 2 ^ 52) % 2048
  let m := f.bits % 2 ^ 52
  let neg := isNeg f
  let mag : Option Nat :=
    if e == 0 then (if m == 0 then some 0 else none)        -- zero / subnormal
    else if e == 2047 then none
    else
      let sig := 2 ^ 52 + m
      if e ≥ 1075 then some (sig * 2 ^ (e - 1075))
      else
        let sh := 1075 - e
        if sh > 52 then none
        else if sig % 2 ^ sh == 0 then some (sig / 2 ^ sh) else none
  mag.map fun n => if neg then - (n : Int) else (n : Int)

/-- `impl Serialize for Number` -/
def encNumber (n : Num) : Json :=
  let special : Option (List Char) :=
    if isNaN n.v then some (s "NaN")
    else if isInf n.v then some (if isNeg n.v then s "-INF" else s "INF")
    else none
  if n.unit.isSome || special.isSome then
    let valJ : Json := match special with
      | some t => .str t
      | none => jF64 n.v
    let tail : Members := match n.unit with
      | some u => .cons (s "unit") (.str u) .nil
      | none => .nil
    .obj (.cons (s "_kind") (.str (s "number")) (.cons (s "val") valJ tail))
  else
    match exactInt n.v with
    | some i =>
      if -9223372036854775808 ≤ i && i < 9223372036854775808 then
        -- the token is the integer; read back it is `i as f64` (so `-0.0` comes back as `0.0`)
        .int i (if i == 0 then { bits := 0, txt := ['0'] } else n.v)
      else .flt n.v
    | none => .flt n.v

def kindObj (kind : String) (rest : Members) : Json := .obj (.cons (s "_kind") (.str (s kind)) rest)

mutual
/-- `impl Serialize for Value` -/
def toJson : Val → Json
  | .null => .null
  | .remove => kindObj "remove" .nil
  | .marker => kindObj "marker" .nil
  | .na => kindObj "na" .nil
  | .bool b => .bool b
  | .num n => encNumber n
  | .str x => .str x
  | .ref id dis =>
    kindObj "ref" (.cons (s "val") (.str id) (match dis with
      | some d => .cons (s "dis") (.str d) .nil
      | none => .nil))
  | .uri x => kindObj "uri" (.cons (s "val") (.str x) .nil)
  | .sym x => kindObj "symbol" (.cons (s "val") (.str x) .nil)
  | .date d => kindObj "date" (.cons (s "val") (.str d.txt) .nil)
  | .time t => kindObj "time" (.cons (s "val") (.str t.txt) .nil)
  | .dateTime t =>
    kindObj "dateTime" (.cons (s "val") (.str t.txt)
      (if t.tzid == s "UTC" then .nil else .cons (s "tz") (.str t.zone) .nil))
  | .coord a b => kindObj "coord" (.cons (s "lat") (jF64 a) (.cons (s "lng") (jF64 b) .nil))
  | .xstr ty v => kindObj "xstr" (.cons (s "type") (.str ty) (.cons (s "val") (.str v) .nil))
  | .list xs => .arr (listJson xs)
  | .dict d => .obj (tagsJson d)
  | .grid md cols rows _ =>
    kindObj "grid" (.cons (s "meta") (.obj (match md with
        | .some t => tagsJson t
        | .none => .nil))
      (.cons (s "cols") (.arr (colsJson cols)) (.cons (s "rows") (.arr (rowsJson rows)) .nil)))
def listJson : Vals → Jsons
  | .nil => .nil
  | .cons v vs => .cons (toJson v) (listJson vs)
def tagsJson : Tags → Members
  | .nil => .nil
  | .cons k v t => .cons k (toJson v) (tagsJson t)
def colsJson : Cols → Jsons
  | .nil => .nil
  | .cons n md c =>
    .cons (.obj (.cons (s "name") (.str n) (match md with
      | .some t => .cons (s "meta") (.obj (tagsJson t)) .nil
      | .none => .nil))) (colsJson c)
def rowsJson : Rows → Jsons
  | .nil => .nil
  | .cons r rs => .cons (.obj (tagsJson r)) (rowsJson rs)
end

/-! ### decode -/

/-- `BTreeMap::insert` on the entries collected so far (kept sorted by code point) -/
def leChars : List Char → List Char → Bool
  | [], _ => true
  | _ :: _, [] => false
  | a :: as, b :: bs => if a.toNat < b.toNat then true else if a.toNat > b.toNat then false else leChars as bs

def insertTag (k : List Char) (v : Val) : List (List Char × Val) → List (List Char × Val)
  | [] => [(k, v)]
  | (k', v') :: rest =>
    if k == k' then (k, v) :: rest
    else if leChars k k' then (k, v) :: (k', v') :: rest
    else (k', v') :: insertTag k v rest

def getTag (d : List (List Char × Val)) (k : String) : Option Val :=
  (d.find? (fun p => p.1 == s k)).map (·.2)
def getStr (d : List (List Char × Val)) (k : String) : Option (List Char) :=
  match getTag d k with
  | some (.str x) => some x
  | _ => none
def getNum (d : List (List Char × Val)) (k : String) : Option Num :=
  match getTag d k with
  | some (.num n) => some n
  | _ => none
def removeTag (d : List (List Char × Val)) (k : String) : List (List Char × Val) :=
  d.filter (fun p => p.1 != s k)

def knownKinds : List String :=
  ["number", "ref", "symbol", "uri", "date", "time", "dateTime", "coord", "xstr", "grid", "dict"]

def mkFlt (bits : Nat) (txt : String) : Flt := { bits := bits, txt := txt.toList }

/-- marker values in the lexical fields: `Date.y = -1` = the text in `txt` still has to be parsed by
chrono (`str::parse::<Date>`), likewise `Time.h = 99`; a `DateTime` with `tzid = ['?']` carries
`txt = val` and `zone = tz` (or `[]` when absent). -/
def lexDate (t : List Char) : Val := .date { y := -1, m := 0, d := 0, txt := t }
def lexTime (t : List Char) : Val := .time { h := 99, mi := 0, s := 0, ns := 0, txt := t }
def lexDateTime (v : List Char) (tz : Option (List Char)) : Val :=
  .dateTime { secs := 0, ns := 0, off := (if tz.isSome then 1 else 0), zone := tz.getD [], tzid := ['?'], txt := v }

def valsOfDicts (l : List Val) : Option (List Tags) :=
  l.mapM fun v => match v with
    | .dict d => some d
    | _ => none

/-- `parse_grid`'s columns -/
def colOf (v : Val) : Option (List Char × OTags) :=
  match v with
  | .dict d =>
    let l := d.toList
    match getStr l "name" with
    | some name =>
      match getTag l "meta" with
      | some (.dict m) => some (name, .some m)
      | some _ => none
      | none => some (name, .none)
    | none => none
  | _ => none

/-- after the members were collected: dispatch on the remembered `_kind` -/
def finish (kind : List Char) (d : List (List Char × Val)) : Res Val :=
  if kind == s "number" then
    let special : Option Num := match getStr d "val" with
      | some t =>
        if t == s "INF" then some { v := mkFlt 0x7FF0000000000000 "inf", unit := none }
        else if t == s "-INF" then some { v := mkFlt 0xFFF0000000000000 "-inf", unit := none }
        else if t == s "NaN" then some { v := mkFlt 0x7FF8000000000000 "NaN", unit := none }
        else none
      | none => none
    match (match special with | some n => some n | none => getNum d "val") with
    | some n =>
      match getStr d "unit" with
      | some u => match Hs.Zinc.unitSymbol u with
        | some sym => .ok (.num { v := n.v, unit := some sym })
        | none => .err
      | none => .ok (.num n)
    | none => .err
  else if kind == s "ref" then
    match getStr d "val" with
    | some v => .ok (.ref v (getStr d "dis"))
    | none => .err
  else if kind == s "symbol" then
    match getStr d "val" with
    | some v => .ok (.sym v)
    | none => .err
  else if kind == s "uri" then
    match getStr d "val" with
    | some v => .ok (.uri v)
    | none => .err
  else if kind == s "date" then
    match getStr d "val" with
    | some v => .ok (lexDate v)
    | none => .err
  else if kind == s "time" then
    match getStr d "val" with
    | some v => .ok (lexTime v)
    | none => .err
  else if kind == s "dateTime" then
    match getStr d "val" with
    | some v => .ok (lexDateTime v (getStr d "tz"))
    | none => .err
  else if kind == s "coord" then
    match getNum d "lat", getNum d "lng" with
    | some a, some b => .ok (.coord a.v b.v)
    | _, _ => .err
  else if kind == s "xstr" then
    match getStr d "type", getStr d "val" with
    | some t, some v => .ok (.xstr t v)
    | _, _ => .err
  else if kind == s "grid" then
    match getTag d "rows", getTag d "cols" with
    | some (.list rows), some (.list cols) =>
      let (md, ver) : OTags × List Char := match getTag d "meta" with
        | some (.dict m) =>
          let l := m.toList
          let ver := (getStr l "ver").getD (s "3.0")
          (.some (Tags.ofList (removeTag l "ver")), ver)
        | _ => (.none, s "3.0")
      match cols.toList.mapM colOf with
      | some cs =>
        match valsOfDicts rows.toList with
        | some rs => .ok (.grid md (Cols.ofList cs) (Rows.ofList rs) ver)
        | none => .err
      | none => .err
    | _, _ => .err
  else .ok (.dict (Tags.ofList d))

/-- `return Ok(HVal::make_marker())` (likewise remove, na) out of the `while let … next_entry()` loop: the
visitor leaves `visit_map` without having consumed the map.  serde_json then refuses the map unless nothing
was left in it: `from_str`/`from_slice` (`Deserializer::end_map`) find `,` where `}` must follow
("trailing comma"), `from_value` (`visit_object`) finds `remaining != 0` ("invalid length … fewer elements in
map").  So the singleton is the answer only when the `_kind` member was the LAST member visited (document
order for the text entry points, key order for `from_value`); members visited BEFORE it were inserted into
the dict and are dropped.  Measured on the pinned tree, 2026-09-29: `{"_kind":"marker","x":1}` Err/Err,
`{"x":1,"_kind":"marker"}` Ok(Marker) from text, Err from_value, `{"A":1,"_kind":"marker"}` Ok/Ok. -/
def earlyReturn (rest : Members) (v : Val) : Res Val :=
  match rest with
  | .nil => .ok v
  | .cons _ _ _ => .err

mutual
/-- `JsonValueDecoderVisitor` -/
def fromJson : Json → Res Val
  | .null => .ok .null
  | .bool b => .ok (.bool b)
  | .int _ f => .ok (.num { v := f, unit := none })
  | .flt f => .ok (.num { v := f, unit := none })
  | .str x => .ok (.str x)
  | .arr xs => match seq xs with
    | .ok vs => .ok (.list (Vals.ofList vs))
    | .err => .err | .panic => .panic | .diverge => .diverge | .depth => .depth
  | .obj ms => visitMap ms [] []
/-- `visit_seq` -/
def seq : Jsons → Res (List Val)
  | .nil => .ok []
  | .cons j js =>
    match fromJson j with
    | .ok v => match seq js with
      | .ok vs => .ok (v :: vs)
      | .err => .err | .panic => .panic | .diverge => .diverge | .depth => .depth
    | .err => .err | .panic => .panic | .diverge => .diverge | .depth => .depth
/-- the `while let Some((key, value)) = access.next_entry()?` loop of `visit_map`; `ms` are the members not
yet visited, in the order the `MapAccess` delivers them -/
def visitMap : Members → List Char → List (List Char × Val) → Res Val
  | .nil, kind, d => finish kind d
  | .cons k j ms, kind, d =>
    match fromJson j with
    | .ok v =>
      if k == s "_kind" then
        match v with
        | .str kd =>
          if kd == s "marker" then earlyReturn ms .marker
          else if kd == s "remove" then earlyReturn ms .remove
          else if kd == s "na" then earlyReturn ms .na
          else if knownKinds.any (fun x => s x == kd) then visitMap ms kd d
          else .err
        | _ => .err
      else visitMap ms kind (insertTag k v d)
    | .err => .err | .panic => .panic | .diverge => .diverge | .depth => .depth
end

end Hs.Hayson
