/-
  Hs.Model.FilterLexErr — where the scanner stands when a Zinc scalar reader returns `Err`.

  The filter parser swallows lexer errors in several places (`self.lexer.read().ok()`,
  `if let Ok(..) = self.lexer.read()`) and then goes on with the *stale* current token and with the
  scanner wherever the failed reader left it (`and ! x` is accepted as the two terms `and`, `x`;
  `((a)!` as `((a))`).  The scalar readers of `Hs.Zinc` (ZincLex.lean) report a plain `.err`; the
  functions here compute the scanner state at that error.  Each `…Err` function is meaningful only
  when the corresponding reader returned `.err` on the same arguments; it follows the reader's
  control flow, re-using the reader's own sub-functions for every part that succeeded.
  Core-only imports: linked into `hsdriver`.
-/
import Hs.Model.ZincLex
namespace Hs.FText
open Hs Hs.Scan Hs.Zinc

/-- `expect_and_consume_seq` failed: mismatch (cursor unchanged) or end of input before the last byte -/
def seqErr : List UInt8 → Scan → Scan
  | [], s => s
  | c :: rest, s =>
    if c != s.cur then s
    else match s.read with
      | (some _, s') => seqErr rest s'
      | (Option.none, s') => s'

/-- `parse_str_unicode_escape` failed (cursor on `u`) -/
def unicodeErr (s : Scan) : Scan :=
  if s.cur != 117 then s else
  match s.read with
  | (Option.none, s1) => s1
  | (some _, s1) => if !s1.isHexDigit then s1 else
    match s1.read with
    | (Option.none, s2) => s2
    | (some _, s2) => if !s2.isHexDigit then s2 else
      match s2.read with
      | (Option.none, s3) => s3
      | (some _, s3) => if !s3.isHexDigit then s3 else
        match s3.read with
        | (Option.none, s4) => s4
        | (some _, s4) => s4

/-- `parse_str_escape` failed (cursor on the backslash) -/
def strEscapeErr (s : Scan) : Scan :=
  match s.read with
  | (Option.none, s1) => s1
  | (some _, s1) => if s1.cur == 117 then unicodeErr s1 else s1

def strLoopErr : Nat → Scan → Scan
  | 0, s => s
  | fuel + 1, s =>
    if s.cur == 34 then s          -- the loop ended: the error is the `start == pos` check
    else if s.eof then s
    else if s.cur == 92 then
      match parseStrEscape s with
      | .ok (_, s') => strLoopErr fuel s'.advance
      | _ => strEscapeErr s
    else strLoopErr fuel s.advance

/-- `parse_str` failed -/
def strErr (fuel : Nat) (s : Scan) : Scan :=
  if s.cur != 34 then s else strLoopErr fuel s.advance

def uriLoopErr : Nat → Scan → Scan
  | 0, s => s
  | fuel + 1, s =>
    if s.cur == 96 then s
    else if s.eof then s
    else if s.cur == 92 then
      match s.peek with
      | (Option.none, s1) => s1
      | (some nx, s1) =>
        if nx == 58 || nx == 47 || nx == 63 || nx == 35 || nx == 91 || nx == 93 || nx == 64 || nx == 96
            || nx == 38 || nx == 61 || nx == 59 || nx == 92 then
          match s1.read with
          | (some _, s2) => uriLoopErr fuel s2.advance
          | (Option.none, s2) => s2
        else
          match s1.read with
          | (Option.none, s2) => s2
          | (some _, s2) =>
            match parseUnicodeEscape s2 with
            | .ok (_, s3) => uriLoopErr fuel s3.advance
            | _ => unicodeErr s2
    else uriLoopErr fuel s.advance

/-- `parse_uri` failed -/
def uriErr (fuel : Nat) (s : Scan) : Scan :=
  if s.cur != 96 then s else uriLoopErr fuel s.advance

/-- `parse_ref` failed -/
def refErr (fuel : Nat) (s : Scan) : Scan :=
  if s.cur != 64 then s else
  match refLoop fuel s.advance [] with
  | .ok (acc, s1) =>
    if acc.isEmpty then s1
    else if !s1.eof && s1.cur == 32 then
      match s1.peek with
      | (Option.none, s2) => s2
      | (some nx, s2) =>
        if nx == 34 then
          match s2.read with
          | (some _, s3) => strErr fuel s3
          | (Option.none, s3) => s3
        else s2
    else s1
  | _ => s

/-- `parse_symbol` failed -/
def symErr (fuel : Nat) (s : Scan) : Scan :=
  if s.cur != 94 then s else
  let s0 := s.advance
  if !s0.isLower then s0 else
  match refLoop fuel s0 [] with
  | .ok (_, s1) => s1
  | _ => s0

/-- where `parse_decimal` stops (it consumes its whole alphabet before it validates) -/
def decimalEnd (fuel : Nat) (s : Scan) : List UInt8 × Scan :=
  match decimalLoop fuel s [] with
  | .ok (acc, s') => (acc, s')
  | _ => ([], s)

/-- `parse_exponent` failed (cursor on `e`/`E`) -/
def exponentErr (fuel : Nat) (s : Scan) : Scan :=
  if !(s.cur == 101 || s.cur == 69) then s else
  let s1 := s.advance
  if s1.cur == 43 || s1.cur == 45 then
    match s1.read with
    | (Option.none, s2) => s2
    | (some _, s2) => (decimalEnd fuel s2).2
  else (decimalEnd fuel s1).2

/-- after the exponent: "unit not found" and "invalid number format" are both raised once the unit
characters have been consumed -/
def numberTailErr (fuel : Nat) (s3 : Scan) : Scan :=
  if !s3.eof && isUnitChar s3 then
    match unitLoop fuel s3 [] with
    | .ok (_, s4) => s4
    | _ => s3
  else s3

/-- `parse_number` failed -/
def numberErr (fuel : Nat) (s : Scan) : Scan :=
  let (dec, s1) := decimalEnd fuel s
  if !validDecimal dec then s1 else
  if !s1.eof && (s1.cur == 101 || s1.cur == 69) then
    match s1.peek with
    | (Option.none, s2) => s2
    | (some nx, s2) =>
      if nx == 43 || nx == 45 || isDigitB nx then
        match parseExponent fuel s2 with
        | .ok (_, s3) => numberTailErr fuel s3
        | _ => exponentErr fuel s2
      else numberTailErr fuel s2
  else numberTailErr fuel s1

/-- `parse_neg_inf` failed -/
def negInfErr (s : Scan) : Scan :=
  if s.cur != 45 then s else seqErr [73, 78, 70] s.advance

/-- `n` digits were expected: stops on the first byte that is not one -/
def takeDigitsErr : Nat → Scan → Scan
  | 0, s => s
  | n + 1, s => if isDigitB s.cur then takeDigitsErr n s.advance else s

/-- `parse_date` failed: the scanner after the raw text when only the calendar check failed -/
def dateRawErr (s : Scan) : Scan :=
  match takeDigits 4 s [] with
  | .ok (_, s1) => if s1.cur != 45 then s1 else
    match takeDigits 2 s1.advance [] with
    | .ok (_, s2) => if s2.cur != 45 then s2 else
      match takeDigits 2 s2.advance [] with
      | .ok (_, s3) => s3
      | _ => takeDigitsErr 2 s2.advance
    | _ => takeDigitsErr 2 s1.advance
  | _ => takeDigitsErr 4 s

/-- `parse_time` failed: the scanner after the raw text when only chrono's check failed -/
def timeRawErr (fuel : Nat) (s : Scan) : Scan :=
  match takeDigits 2 s [] with
  | .ok (_, s1) => if s1.cur != 58 then s1 else
    match takeDigits 2 s1.advance [] with
    | .ok (_, s2) => if s2.cur != 58 then s2 else
      match takeDigits 2 s2.advance [] with
      | .ok (_, s3) =>
        if s3.cur == 46 then
          match s3.read with
          | (Option.none, s4) => s4
          | (some _, s4) =>
            match fracLoop fuel s4 [] with
            | .ok (_, s5) => s5
            | _ => s4
        else s3
      | _ => takeDigitsErr 2 s2.advance
    | _ => takeDigitsErr 2 s1.advance
  | _ => takeDigitsErr 2 s

/-- `parse_time_zone_name` failed -/
def tzNameErr (fuel : Nat) (s : Scan) : Scan :=
  if !isUpperB s.cur then s else
  match tzNameLoop fuel s.advance [s.cur] with
  | .ok (_, s') => s'
  | _ => s

def advanceByErr : Nat → Scan → Scan
  | 0, s => s
  | n + 1, s => match s.read with
    | (some _, s') => advanceByErr n s'
    | (Option.none, s') => s'

/-- `parse_time_zone` failed -/
def timeZoneErr (fuel : Nat) (s : Scan) : Scan :=
  if s.cur == 90 then
    let (p1, s1) := s.peek
    let (both, s2) := match p1 with
      | some 32 => match s1.peek with
        | (some c, s2) => (isUpperB c, s2)
        | (Option.none, s2) => (false, s2)
      | _ => (false, s1)
    if both then
      match advanceBy 2 s2 with
      | .ok s3 => tzNameErr fuel s3
      | _ => advanceByErr 2 s2
    else
      if !s2.eof then s2.read.2 else s2
  else
    if !(s.cur == 43 || s.cur == 45) then s else
    match takeDigits 2 s.advance [] with
    | .ok (_, s1) => if s1.cur != 58 then s1 else
      match takeDigits 2 s1.advance [] with
      | .ok (_, s2) => if s2.cur != 32 then s2 else tzNameErr fuel s2.advance
      | _ => takeDigitsErr 2 s1.advance
    | _ => takeDigitsErr 2 s.advance

/-- `parse_datetime` failed; zone resolution / chrono errors are raised after the zone was read -/
def dateTimeErr (fuel : Nat) (s : Scan) : Scan :=
  match parseDateRaw s with
  | .ok (draw, s1) =>
    match mkDate draw with
    | Option.none => s1
    | some _ =>
      if s1.cur != 84 then s1 else
      match parseTimeRaw fuel s1.advance with
      | .ok ((hms, fr), s2) =>
        match mkTime hms fr with
        | Option.none => s2
        | some _ =>
          match parseTimeZone fuel s2 with
          | .ok (_, s3) => s3
          | _ => timeZoneErr fuel s2
      | _ => timeRawErr fuel s1.advance
  | _ => dateRawErr s

/-- `is_partial_date` failed: one of its `peek()?` hit the end of input -/
def isPartialDateErr (s : Scan) : Scan :=
  match s.peek with
  | (Option.none, s1) => s1
  | (some _, s1) =>
    match s1.peek with
    | (Option.none, s2) => s2
    | (some _, s2) =>
      match s2.peek with
      | (Option.none, s3) => s3
      | (some _, s3) =>
        match s3.peek with
        | (Option.none, s4) => s4
        | (some _, s4) => s4.peek.2

/-- `parse_number_date_time` failed -/
def ndtErr (fuel : Nat) (s : Scan) : Scan :=
  if s.cur == 45 then
    match s.peek with
    | (Option.none, s1) => s1
    | (some nx, s1) => if nx == 73 then negInfErr s1 else numberErr fuel s1
  else
    let (count, s1) := ndtPeeks 4 s.cur 0 s
    if s1.eof then numberErr fuel { s1 with eof := false }
    else if count == 2 && s1.lastPeek == 58 then timeRawErr fuel s1
    else if count == 4 && s1.lastPeek == 45 then
      match isPartialDate s1 with
      | .ok (true, s2) =>
        match s2.peek with
        | (some p, s3) => if p != 84 then dateRawErr s3 else dateTimeErr fuel s3
        | (Option.none, s3) => dateRawErr s3
      | .ok (false, s2) => numberErr fuel s2
      | _ => isPartialDateErr s1
    else numberErr fuel s1

end Hs.FText
