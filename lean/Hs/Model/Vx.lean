/-
  Hs.Model.Vx — the "VX" exchange format between the Rust harness and the Lean driver
  (DESIGN.md Appendix A).  One request per line, space separated tokens; every string is the
  lower-case hex of its UTF-8 bytes (`=` for the empty string, `-` for an absent option).
  Driver glue only: nothing here is used in a theorem.
-/
import Hs.Model.Val
namespace Hs.Vx

def hexDigit (n : Nat) : Char :=
  if n < 10 then Char.ofNat (48 + n) else Char.ofNat (87 + n)

def hexVal (c : Char) : Option Nat :=
  if '0' ≤ c ∧ c ≤ '9' then some (c.toNat - 48)
  else if 'a' ≤ c ∧ c ≤ 'f' then some (c.toNat - 87)
  else if 'A' ≤ c ∧ c ≤ 'F' then some (c.toNat - 55)
  else none

def hexOfBytes (bs : List UInt8) : String :=
  if bs.isEmpty then "=" else
  String.ofList (bs.flatMap fun b => [hexDigit (b.toNat / 16), hexDigit (b.toNat % 16)])

def bytesOfHex (s : String) : Option (List UInt8) :=
  if s = "=" then some [] else
  let rec go : List Char → List UInt8 → Option (List UInt8)
    | [], acc => some acc.reverse
    | [_], _ => none
    | a :: b :: rest, acc =>
      match hexVal a, hexVal b with
      | some x, some y => go rest (UInt8.ofNat (x * 16 + y) :: acc)
      | _, _ => none
  go s.toList []

def utf8 (cs : List Char) : List UInt8 := (String.ofList cs).toUTF8.toList

/-- Decode bytes as UTF-8 (the harness only sends valid UTF-8 here). -/
def charsOfBytes (bs : List UInt8) : List Char :=
  match String.fromUTF8? (ByteArray.mk bs.toArray) with
  | some s => s.toList
  | none => []

def H (cs : List Char) : String := hexOfBytes (utf8 cs)
def HO : Option (List Char) → String
  | none => "-"
  | some cs => H cs

def unH (s : String) : Option (List Char) := (bytesOfHex s).map charsOfBytes

def natHex (n : Nat) (width : Nat) : String :=
  let rec go (n : Nat) (w : Nat) (acc : List Char) : List Char :=
    match w with
    | 0 => acc
    | w + 1 => go (n / 16) w (hexDigit (n % 16) :: acc)
  String.ofList (go n width [])

def natOfHex (s : String) : Option Nat :=
  s.toList.foldlM (fun acc c => (hexVal c).map (acc * 16 + ·)) 0

/-! ### Writer -/

mutual
partial def wVal : Val → List String
  | .null => ["N"] | .remove => ["R"] | .marker => ["M"] | .na => ["A"]
  | .bool b => [if b then "B1" else "B0"]
  | .num n =>
    -- decoded numbers carry the lexeme handed to `str::parse::<f64>` (bits = 2^64): `hsverif canon` evaluates it
    if n.v.bits = 2 ^ 64 then ["nl", H n.v.txt, HO n.unit]
    else if n.v.bits = 2 ^ 64 + 1 then ["ns", H n.v.txt, HO n.unit]   -- reference reader: the decimal text itself
    else ["n", natHex n.v.bits 16, H n.v.txt, HO n.unit]
  | .str s => ["s", H s] | .uri s => ["u", H s] | .sym s => ["y", H s]
  | .ref id dis => ["r", H id, HO dis]
  | .xstr ty v => ["x", H ty, H v]
  | .date d =>
    -- Hayson: the text still has to go through chrono (`dl`)
    if d.y = -1 then ["dl", H d.txt] else ["d", toString d.y, toString d.m, toString d.d, H d.txt]
  | .time t =>
    if t.h = 99 then ["tl", H t.txt]
    else ["t", toString t.h, toString t.mi, toString t.s, toString t.ns, H t.txt]
  | .dateTime t =>
    -- Hayson: `val` (RFC 3339) and optional `tz`, evaluated by chrono / chrono-tz in `hsverif canon`
    if t.tzid = ['?'] then ["Tj", H t.txt, if t.off = 1 then H t.zone else "-"] else
    -- a decoded timestamp carries the token text (tzid empty): chrono / chrono-tz evaluate it in `hsverif canon`
    if t.tzid.isEmpty then ["Tl", H t.txt]
    else ["T", toString t.secs, toString t.ns, toString t.off, H t.zone, H t.tzid, H t.txt]
  | .coord a b =>
    if a.bits = 2 ^ 64 then ["cl", H a.txt, H b.txt]
    else if a.bits = 2 ^ 64 + 1 then ["cl", H a.txt, H b.txt]
    else ["c", natHex a.bits 16, H a.txt, natHex b.bits 16, H b.txt]
  | .list xs => ["[", toString xs.length] ++ (xs.toList.flatMap wVal)
  | .dict d => wTags d
  | .grid md cols rows ver =>
    ["G"] ++ wOptTags md ++ [toString cols.length]
      ++ (cols.toList.flatMap fun (n, m) => H n :: wOptTags m)
      ++ [toString rows.length] ++ (rows.toList.flatMap wTags) ++ [H ver]
partial def wTags (d : Tags) : List String :=
  ["{", toString d.length] ++ (d.toList.flatMap fun (k, v) => H k :: wVal v)
partial def wOptTags : OTags → List String
  | .none => ["-"]
  | .some d => wTags d
end

def join (ts : List String) : String := " ".intercalate ts
def showVal (v : Val) : String := join (wVal v)

/-! ### Reader -/

abbrev P (α : Type) := List String → Option (α × List String)

def tok : P String
  | [] => none
  | t :: ts => some (t, ts)

def pNat : P Nat := fun ts => do
  let (t, ts) ← tok ts
  let n ← t.toNat?
  pure (n, ts)

def pInt : P Int := fun ts => do
  let (t, ts) ← tok ts
  let n ← t.toInt?
  pure (n, ts)

def pH : P (List Char) := fun ts => do
  let (t, ts) ← tok ts
  let s ← unH t
  pure (s, ts)

def pHO : P (Option (List Char)) := fun ts => do
  let (t, ts) ← tok ts
  if t = "-" then pure (none, ts) else
  let s ← unH t
  pure (some s, ts)

def pBits : P Nat := fun ts => do
  let (t, ts) ← tok ts
  let n ← natOfHex t
  pure (n, ts)

def pFlt : P Flt := fun ts => do
  let (b, ts) ← pBits ts
  let (x, ts) ← pH ts
  pure ({ bits := b, txt := x }, ts)

def pRep {α} (p : P α) : Nat → P (List α)
  | 0, ts => some ([], ts)
  | k + 1, ts => do
    let (a, ts) ← p ts
    let (as, ts) ← pRep p k ts
    pure (a :: as, ts)

mutual
partial def pVal : P Val := fun ts => do
  let (t, ts) ← tok ts
  match t with
  | "N" => pure (.null, ts) | "R" => pure (.remove, ts) | "M" => pure (.marker, ts)
  | "A" => pure (.na, ts) | "B0" => pure (.bool false, ts) | "B1" => pure (.bool true, ts)
  | "n" => do
    let (f, ts) ← pFlt ts
    let (u, ts) ← pHO ts
    pure (.num { v := f, unit := u }, ts)
  | "s" => do let (s, ts) ← pH ts; pure (.str s, ts)
  | "u" => do let (s, ts) ← pH ts; pure (.uri s, ts)
  | "y" => do let (s, ts) ← pH ts; pure (.sym s, ts)
  | "r" => do
    let (i, ts) ← pH ts
    let (d, ts) ← pHO ts
    pure (.ref i d, ts)
  | "x" => do
    let (a, ts) ← pH ts
    let (b, ts) ← pH ts
    pure (.xstr a b, ts)
  | "d" => do
    let (y, ts) ← pInt ts
    let (m, ts) ← pNat ts
    let (d, ts) ← pNat ts
    let (x, ts) ← pH ts
    pure (.date { y := y, m := m, d := d, txt := x }, ts)
  | "t" => do
    let (h, ts) ← pNat ts
    let (m, ts) ← pNat ts
    let (s, ts) ← pNat ts
    let (n, ts) ← pNat ts
    let (x, ts) ← pH ts
    pure (.time { h := h, mi := m, s := s, ns := n, txt := x }, ts)
  | "T" => do
    let (s, ts) ← pInt ts
    let (n, ts) ← pNat ts
    let (o, ts) ← pInt ts
    let (z, ts) ← pH ts
    let (i, ts) ← pH ts
    let (x, ts) ← pH ts
    pure (.dateTime { secs := s, ns := n, off := o, zone := z, tzid := i, txt := x }, ts)
  | "c" => do
    let (a, ts) ← pFlt ts
    let (b, ts) ← pFlt ts
    pure (.coord a b, ts)
  | "[" => do
    let (k, ts) ← pNat ts
    let (xs, ts) ← pRep pVal k ts
    pure (.list (Vals.ofList xs), ts)
  | "{" => do
    let (d, ts) ← pTagsBody ts
    pure (.dict d, ts)
  | "G" => do
    let (md, ts) ← pOptTags ts
    let (nc, ts) ← pNat ts
    let (cols, ts) ← pRep (fun ts => do
      let (n, ts) ← pH ts
      let (m, ts) ← pOptTags ts
      pure ((n, m), ts)) nc ts
    let (nr, ts) ← pNat ts
    let (rows, ts) ← pRep pTags nr ts
    let (ver, ts) ← pH ts
    pure (.grid md (Cols.ofList cols) (Rows.ofList rows) ver, ts)
  | _ => none
/-- after the `{` token -/
partial def pTagsBody : P Tags := fun ts => do
  let (k, ts) ← pNat ts
  let (kvs, ts) ← pRep (fun ts => do
    let (key, ts) ← pH ts
    let (v, ts) ← pVal ts
    pure ((key, v), ts)) k ts
  pure (Tags.ofList kvs, ts)
partial def pTags : P Tags := fun ts => do
  let (t, ts) ← tok ts
  if t = "{" then pTagsBody ts else none
partial def pOptTags : P OTags := fun ts => do
  let (t, ts) ← tok ts
  if t = "-" then pure (OTags.none, ts)
  else if t = "{" then do
    let (d, ts) ← pTagsBody ts
    pure (OTags.some d, ts)
  else none
end

def tokens (line : String) : List String :=
  (line.trimAscii.toString.splitOn " ").filter (· ≠ "")

end Hs.Vx
