/-
  C08 — filter text and filter tree correspond: print-then-parse is the identity.

  Model (`Hs.Model.FilterText`): `printFilter` (every `Display` impl of filter/nodes.rs, path.rs and
  of `Value`), `parseFilter` (filter/lexer.rs over the concrete scanner model, calling the Zinc
  scalar readers of `Hs.Zinc`; filter/parser.rs with its swallowed lexer errors and the nesting
  counter).  What Rust std / chrono compute stays lexical exactly as in C01: a parsed literal number
  is the text handed to `f64::from_str`, a parsed timestamp is its token text; the statement reads
  "parsing the printed text yields the lexical image of the tree".
-/
import Hs.Lemmas.FilterParseSk
import Hs.Thm.C01
namespace Hs.C08
open Hs Hs.FText

/-! ### the property at full strength -/

mutual
/-- lexical image of a filter: literals as the reader returns them for the printed text (`C01.lexImage`);
the Ref operand of `*==` and of a relation without its display name, which `Display for Ref` does
not print (and which `==` on Ref ignores) -/
def lexImageT : Term → Term
  | .parens o => .parens (lexImageO o)
  | .weq p r => .weq p { id := r.id, dis := none }
  | .rel r t (some rv) => .rel r t (some { id := rv.id, dis := none })
  | .cmp p op v => .cmp p op (Hs.C01.lexImage v)
  | t => t
def lexImageA : Ands → Ands
  | .nil => .nil
  | .cons t ts => .cons (lexImageT t) (lexImageA ts)
def lexImageO : Ors → Ors
  | .nil => .nil
  | .cons a as => .cons (lexImageA a) (lexImageO as)
end

/-- The property at full strength, for a well-formedness predicate `WFf` on trees (the property's
list: non-empty `or`/`and` lists, identifier path segments and relation names with a lone `not`
excluded as a path, id-alphabet Refs and Symbols, literals of the kinds the syntax admits — Bool,
finite Number with a database unit, Str, Uri, Ref, Symbol, Date, Time, DateTime with a resolvable
unambiguous zone — and at most 64 nested groups): printing and parsing returns the tree. -/
def C08_full (WFf : Ors → Prop) : Prop :=
  ∀ f, WFf f → filterOfBytes (printFilter f) = .ok (lexImageO f)

/-! ### proved: the skeleton of the grammar, for all trees -/

/-- Skeleton trees: every term is `tag`, `not tag` or a parenthesised group, over paths of one or
more identifier segments (`a->b->c`); any number of `and` / `or` operands, any nesting up to the
parser's limit. -/
def Skeleton (f : Ors) : Prop := f ≠ .nil ∧ AllO f ∧ nestO f ≤ 64

mutual
theorem lexImageT_skel : (t : Term) → SkT t → lexImageT t = t
  | .parens o, h => by simp [lexImageT, lexImageO_skel o h.2]
  | .has _, _ => rfl
  | .missing _, _ => rfl
  | .isA _, h => absurd h (by simp [SkT])
  | .weq _ _, h => absurd h (by simp [SkT])
  | .rel _ _ _, h => absurd h (by simp [SkT])
  | .cmp _ _ _, h => absurd h (by simp [SkT])
theorem lexImageA_skel : (a : Ands) → AllA a → lexImageA a = a
  | .nil, _ => rfl
  | .cons t ts, h => by simp [lexImageA, lexImageT_skel t h.1, lexImageA_skel ts h.2]
theorem lexImageO_skel : (o : Ors) → AllO o → lexImageO o = o
  | .nil, _ => rfl
  | .cons a as, h => by simp [lexImageO, lexImageA_skel a h.1.2, lexImageO_skel as h.2]
end

/-- **print-then-parse is the identity on every skeleton tree** — unbounded in the number of
operands, the length of paths and identifiers, and (up to the limit of 64) the nesting.
This is `C08_full` restricted to `Skeleton`.  Missing for the full statement: the terms with
literals and sigils (`^sym`, `*==`, `rel?`, comparisons) — each needs the framing lemma of the Zinc
reader it calls (`parse_symbol`, `parse_ref`, `parse_str`, `parse_uri`, `parse_number_date_time`),
which are exercised by the correspondence runs on every kind instead. -/
theorem C08_skeleton_partial : C08_full Skeleton := by
  intro f ⟨hne, hall, hd⟩
  rw [lexImageO_skel f hall]
  exact print_parse_skel f hne hall hd

/-! ### consequences spelled out -/

def seg (s : String) : List Char := s.toList
def tag (s : String) : Term := .has [seg s]

/-- precedence: `and` binds tighter than `or` — `a or b and c` is `a or (b and c)`, for all
identifiers -/
theorem precedence (a b c : List Char) (ha : IdSeg a) (hb : IdSeg b) (hc : IdSeg c)
    (na : [a] ≠ kwNot) (nb : [b] ≠ kwNot) (nc : [c] ≠ kwNot) :
    filterOfBytes (printPath [a] ++ sepOr ++ (printPath [b] ++ sepAnd ++ printPath [c]))
      = .ok (.cons (.cons (.has [a]) .nil) (.cons (.cons (.has [b]) (.cons (.has [c]) .nil)) .nil)) := by
  have h := C08_skeleton_partial
    (.cons (.cons (.has [a]) .nil) (.cons (.cons (.has [b]) (.cons (.has [c]) .nil)) .nil))
    ⟨by simp, by simp [AllO, AllA, SkT, WFPath, ha, hb, hc, na, nb, nc], by simp [nestO, nestA, nestT]⟩
  simpa [printFilter, printOrs, printAnds, printTerm, lexImageO, lexImageA, lexImageT] using h

/-- a parenthesised group is one term: `( a or b ) and c` keeps the `or` below the `and` -/
theorem grouping (a b c : List Char) (ha : IdSeg a) (hb : IdSeg b) (hc : IdSeg c)
    (na : [a] ≠ kwNot) (nb : [b] ≠ kwNot) (nc : [c] ≠ kwNot) :
    filterOfBytes ([40, 32] ++ (printPath [a] ++ sepOr ++ printPath [b]) ++ [32, 41] ++ sepAnd ++ printPath [c])
      = .ok (.cons (.cons (.parens (.cons (.cons (.has [a]) .nil) (.cons (.cons (.has [b]) .nil) .nil)))
               (.cons (.has [c]) .nil)) .nil) := by
  have h := C08_skeleton_partial
    (.cons (.cons (.parens (.cons (.cons (.has [a]) .nil) (.cons (.cons (.has [b]) .nil) .nil)))
               (.cons (.has [c]) .nil)) .nil)
    ⟨by simp, by simp [AllO, AllA, SkT, WFPath, ha, hb, hc, na, nb, nc], by simp [nestO, nestA, nestT]⟩
  simpa [printFilter, printOrs, printAnds, printTerm, lexImageO, lexImageA, lexImageT] using h

/-- a path ends at the first token that is not `->`: a multi-segment path followed by `and` and
another term is two terms (the pinned tree read `d->b and c` as the one path `d->b->and->c`) -/
theorem path_ends (p q : Path) (hp : WFPath p) (hq : WFPath q) (np : p ≠ kwNot) (nq : q ≠ kwNot) :
    filterOfBytes (printPath p ++ sepAnd ++ printPath q)
      = .ok (.cons (.cons (.has p) (.cons (.has q) .nil)) .nil) := by
  have h := C08_skeleton_partial (.cons (.cons (.has p) (.cons (.has q) .nil)) .nil)
    ⟨by simp, by simp [AllO, AllA, SkT, hp, hq, np, nq], by simp [nestO, nestA, nestT]⟩
  simpa [printFilter, printOrs, printAnds, printTerm, lexImageO, lexImageA, lexImageT] using h

/-! ### non-vacuity -/

def bytes (s : String) : List UInt8 := s.toUTF8.toList

/-- `a->b or not c and ( d or e )` is a skeleton tree … -/
def sample : Ors :=
  .cons (.cons (.has [seg "a", seg "b"]) .nil)
    (.cons (.cons (.missing [seg "c"]) (.cons (.parens (.cons (.cons (tag "d") .nil) (.cons (.cons (tag "e") .nil) .nil))) .nil)) .nil)

example : Skeleton sample := by
  refine ⟨by simp [sample], ?_, by simp [sample, nestO, nestA, nestT, tag]⟩
  have ids : ∀ x ∈ [seg "a", seg "b", seg "c", seg "d", seg "e"], IdSeg x := by decide
  have nots : [seg "d"] ≠ kwNot ∧ [seg "e"] ≠ kwNot ∧ [seg "a", seg "b"] ≠ kwNot := by decide
  simp only [sample, tag, AllO, AllA, SkT, WFPath]
  simp [ids, nots]
/-- … that prints as expected -/
example : printFilter sample = bytes "a->b or not c and ( d or e )" := by decide +kernel
example : WFPath [seg "d", seg "b"] ∧ [seg "d", seg "b"] ≠ kwNot := by simp only [WFPath]; decide
example : IdSeg (seg "siteRef") ∧ [seg "siteRef"] ≠ kwNot := by decide

def printsAs (r : Res Ors) (s : String) : Bool :=
  match r with
  | .ok o => printFilter o == bytes s
  | _ => false

/-- the formerly failing input, evaluated -/
theorem p1_path_ends : printsAs (filterOfBytes (bytes "d->b and c")) "d->b and c" = true := by decide +kernel
/-- literals of the kinds the proofs do not reach yet, evaluated on examples -/
theorem ex_literals : printsAs (filterOfBytes (bytes
    "a == true and b != \"x\\n\\u00e9\" and c < 5kW and d >= 2021-03-04 and e *== @r and ^sym and rel? ^t @x and u == `http://x`"))
    "a == true and b != \"x\\né\" and c < 5kW and d >= 2021-03-04 and e *== @r and ^sym and rel? ^t @x and u == `http://x`" = true := by
  decide +kernel

end Hs.C08
