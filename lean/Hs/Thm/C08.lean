/-
  C08 — filter text and filter tree correspond: print-then-parse is the identity.

  Model (`Hs.Model.FilterText`): `printFilter` (every `Display` impl of filter/nodes.rs, path.rs and
  of `Value`), `parseFilter` (filter/lexer.rs over the concrete scanner model, calling the Zinc
  scalar readers of `Hs.Zinc`; filter/parser.rs with its swallowed lexer errors and the nesting
  counter).  What Rust std / chrono compute stays lexical exactly as in C01: a parsed literal number
  is the text handed to `f64::from_str`, a parsed timestamp is its token text; the statement reads
  "parsing the printed text yields the lexical image of the tree".
-/
import Hs.Lemmas.FilterParse
import Hs.Thm.C01
namespace Hs.C08
open Hs Hs.FText

/-! ### the property at full strength -/

mutual
/-- lexical image of a filter: literals as the reader returns them for the printed text (`C01.lexImage`);
the Ref operand of `*==` and of a relation without its display name, which `Display for Ref` does
not print (and which `==` on Ref ignores) -/
def lexImageT : Term → Term
  | .parens o => .parens (lexImageO o)
  | .weq p r => .weq p { id := r.id, dis := none }
  | .rel r t (some rv) => .rel r t (some { id := rv.id, dis := none })
  | .cmp p op v => .cmp p op (Hs.C01.lexImage v)
  | t => t
def lexImageA : Ands → Ands
  | .nil => .nil
  | .cons t ts => .cons (lexImageT t) (lexImageA ts)
def lexImageO : Ors → Ors
  | .nil => .nil
  | .cons a as => .cons (lexImageA a) (lexImageO as)
end

/-- The property at full strength, for a well-formedness predicate `WFf` on trees (the property's
list: non-empty `or`/`and` lists, identifier path segments and relation names with a lone `not`
excluded as a path, id-alphabet Refs and Symbols, literals of the kinds the syntax admits — Bool,
finite Number with a database unit, Str, Uri, Ref, Symbol, Date, Time, DateTime with a resolvable
unambiguous zone — and at most 64 nested groups): printing and parsing returns the tree. -/
def C08_full (WFf : Ors → Prop) : Prop :=
  ∀ f, WFf f → filterOfBytes (printFilter f) = .ok (lexImageO f)

/-! ### proved: a fragment of the grammar, for all of its trees -/

/-- The proved fragment: terms `tag`, `not tag`, `^symbol`, `path *== @ref`,
`rel? [^symbol] [@ref]`, `path op literal` for the six operators with a Bool, Symbol, Ref (with or
without display name), Str or Uri literal, and parenthesised groups — over paths of one or more
identifier segments (`a->b->c`, a lone `not` excluded), id-alphabet Refs and Symbols, Str, Uri and
display names over all 128 ASCII characters (every escape the writer produces: `\"`, `\\`, `\$`, `\n`,
`\r`, `\t`, `\u00XX`); any number of `and` / `or` operands, any nesting up to the parser's limit. -/
def Fragment (f : Ors) : Prop := f ≠ .nil ∧ AllO f ∧ nestO f ≤ 64

theorem lexImage_lit (v : Val) (h : OkLit v) : Hs.C01.lexImage v = v := by
  cases v <;> simp [OkLit] at h <;> simp [Hs.C01.lexImage]

mutual
theorem lexImageT_ok : (t : Term) → OkT t → lexImageT t = imgT t
  | .parens o, h => by simp [lexImageT, imgT, lexImageO_ok o h.2]
  | .has _, _ => rfl
  | .missing _, _ => rfl
  | .isA _, _ => rfl
  | .weq _ _, _ => rfl
  | .rel _ _ Option.none, _ => rfl
  | .rel _ _ (some _), _ => rfl
  | .cmp p op v, h => by simp [lexImageT, imgT, lexImage_lit v h.2]
theorem lexImageA_ok : (a : Ands) → AllA a → lexImageA a = imgA a
  | .nil, _ => rfl
  | .cons t ts, h => by simp [lexImageA, imgA, lexImageT_ok t h.1, lexImageA_ok ts h.2]
theorem lexImageO_ok : (o : Ors) → AllO o → lexImageO o = imgO o
  | .nil, _ => rfl
  | .cons a as, h => by simp [lexImageO, imgO, lexImageA_ok a h.1.2, lexImageO_ok as h.2]
end

/-- **print-then-parse is the identity on every tree of the fragment** — unbounded in the number of
operands, the length of paths, identifiers, Ref ids and Symbols, and (up to the limit of 64) the
nesting.  This is `C08_full` restricted to `Fragment`.  Missing for the full statement: comparison
literals of the kinds Number, Date, Time, DateTime (a framing lemma for `parse_number_date_time`
with its look-ahead) and characters beyond ASCII inside Str / Uri literals and display names (UTF-8
decode ∘ encode = id for the lossy decoder); the correspondence runs exercise all of these on every
kind instead. -/
theorem C08_fragment_partial : C08_full Fragment := by
  intro f ⟨hne, hall, hd⟩
  rw [lexImageO_ok f hall]
  exact print_parse f hne hall hd

mutual
/-- only `tag`, `not tag` and groups -/
def tagsOnlyT : Term → Bool
  | .parens o => tagsOnlyO o
  | .has _ => true
  | .missing _ => true
  | _ => false
def tagsOnlyA : Ands → Bool
  | .nil => true
  | .cons t ts => tagsOnlyT t && tagsOnlyA ts
def tagsOnlyO : Ors → Bool
  | .nil => true
  | .cons a as => tagsOnlyA a && tagsOnlyO as
end

/-- Skeleton trees: every term is `tag`, `not tag` or a parenthesised group. -/
def Skeleton (f : Ors) : Prop := Fragment f ∧ tagsOnlyO f = true

/-- the skeleton level of the grammar: precedence, grouping, where a path ends -/
theorem C08_skeleton_partial : C08_full Skeleton := fun f h => C08_fragment_partial f h.1

/-! ### consequences spelled out -/

def seg (s : String) : List Char := s.toList
def tag (s : String) : Term := .has [seg s]

/-- each literal with its exact value: a comparison with a Bool, Symbol, Ref, (ASCII) Str or Uri literal,
printed, parses to that comparison — for every operator, every identifier path, every such literal -/
theorem literal_exact (p : Path) (op : CmpOp) (v : Val) (hp : WFPath p) (np : p ≠ kwNot) (hv : OkLit v) :
    filterOfBytes (printPath p ++ [32] ++ printOp op ++ [32] ++ printVal v)
      = .ok (.cons (.cons (.cmp p op v) .nil) .nil) := by
  have h := C08_fragment_partial (.cons (.cons (.cmp p op v) .nil) .nil)
    ⟨by simp, by simp [AllO, AllA, OkT, hp, np, hv], by simp [nestO, nestA, nestT]⟩
  simpa [printFilter, printOrs, printAnds, printTerm, lexImageO, lexImageA, lexImageT, lexImage_lit v hv] using h

/-- precedence: `and` binds tighter than `or` — `a or b and c` is `a or (b and c)`, for all
identifiers -/
theorem precedence (a b c : List Char) (ha : IdSeg a) (hb : IdSeg b) (hc : IdSeg c)
    (na : [a] ≠ kwNot) (nb : [b] ≠ kwNot) (nc : [c] ≠ kwNot) :
    filterOfBytes (printPath [a] ++ sepOr ++ (printPath [b] ++ sepAnd ++ printPath [c]))
      = .ok (.cons (.cons (.has [a]) .nil) (.cons (.cons (.has [b]) (.cons (.has [c]) .nil)) .nil)) := by
  have h := C08_fragment_partial
    (.cons (.cons (.has [a]) .nil) (.cons (.cons (.has [b]) (.cons (.has [c]) .nil)) .nil))
    ⟨by simp, by simp [AllO, AllA, OkT, WFPath, ha, hb, hc, na, nb, nc], by simp [nestO, nestA, nestT]⟩
  simpa [printFilter, printOrs, printAnds, printTerm, lexImageO, lexImageA, lexImageT] using h

/-- a parenthesised group is one term: `( a or b ) and c` keeps the `or` below the `and` -/
theorem grouping (a b c : List Char) (ha : IdSeg a) (hb : IdSeg b) (hc : IdSeg c)
    (na : [a] ≠ kwNot) (nb : [b] ≠ kwNot) (nc : [c] ≠ kwNot) :
    filterOfBytes ([40, 32] ++ (printPath [a] ++ sepOr ++ printPath [b]) ++ [32, 41] ++ sepAnd ++ printPath [c])
      = .ok (.cons (.cons (.parens (.cons (.cons (.has [a]) .nil) (.cons (.cons (.has [b]) .nil) .nil)))
               (.cons (.has [c]) .nil)) .nil) := by
  have h := C08_fragment_partial
    (.cons (.cons (.parens (.cons (.cons (.has [a]) .nil) (.cons (.cons (.has [b]) .nil) .nil)))
               (.cons (.has [c]) .nil)) .nil)
    ⟨by simp, by simp [AllO, AllA, OkT, WFPath, ha, hb, hc, na, nb, nc], by simp [nestO, nestA, nestT]⟩
  simpa [printFilter, printOrs, printAnds, printTerm, lexImageO, lexImageA, lexImageT] using h

/-- a path ends at the first token that is not `->`: a multi-segment path followed by `and` and
another term is two terms (the pinned tree read `d->b and c` as the one path `d->b->and->c`) -/
theorem path_ends (p q : Path) (hp : WFPath p) (hq : WFPath q) (np : p ≠ kwNot) (nq : q ≠ kwNot) :
    filterOfBytes (printPath p ++ sepAnd ++ printPath q)
      = .ok (.cons (.cons (.has p) (.cons (.has q) .nil)) .nil) := by
  have h := C08_fragment_partial (.cons (.cons (.has p) (.cons (.has q) .nil)) .nil)
    ⟨by simp, by simp [AllO, AllA, OkT, hp, hq, np, nq], by simp [nestO, nestA, nestT]⟩
  simpa [printFilter, printOrs, printAnds, printTerm, lexImageO, lexImageA, lexImageT] using h

/-! ### non-vacuity -/

def bytes (s : String) : List UInt8 := s.toUTF8.toList

/-- `a->b or not c and ( d or e )` is a skeleton tree … -/
def sample : Ors :=
  .cons (.cons (.has [seg "a", seg "b"]) .nil)
    (.cons (.cons (.missing [seg "c"]) (.cons (.parens (.cons (.cons (tag "d") .nil) (.cons (.cons (tag "e") .nil) .nil))) .nil)) .nil)

example : Skeleton sample := by
  refine ⟨⟨by simp [sample], ?_, by simp [sample, nestO, nestA, nestT, tag]⟩, by decide⟩
  have ids : ∀ x ∈ [seg "a", seg "b", seg "c", seg "d", seg "e"], IdSeg x := by decide
  have nots : [seg "d"] ≠ kwNot ∧ [seg "e"] ≠ kwNot ∧ [seg "a", seg "b"] ≠ kwNot := by decide
  simp only [sample, tag, AllO, AllA, OkT, WFPath]
  simp [ids, nots]
/-- … that prints as expected -/
example : printFilter sample = bytes "a->b or not c and ( d or e )" := by decide +kernel

/-- a tree with a Str literal with escapes, a Symbol term, a wildcard term whose Ref has a display
name (not printed), a relation and a Ref literal with display name is in the fragment … -/
def sample2 : Ors :=
  .cons (.cons (.cmp [seg "siteRef", seg "dis"] .eq (.str (seg "a \"q\"\n$")))
          (.cons (.isA (seg "hot-water")) (.cons (.weq [seg "equipRef"] { id := seg "p:demo:r:1", dis := some (seg "Dis") }) .nil)))
    (.cons (.cons (.rel (seg "inputs") (some (seg "air")) (some { id := seg "ahu-1", dis := none }))
          (.cons (.cmp [seg "id"] .ne (.ref (seg "x") (some (seg "Dis \\ x")))) .nil)) .nil)

example : Fragment sample2 := by
  refine ⟨by simp [sample2], ?_, by simp [sample2, nestO, nestA, nestT]⟩
  have ids : ∀ x ∈ [seg "siteRef", seg "dis", seg "equipRef", seg "inputs", seg "id"], IdSeg x := by decide
  have syms : SymSeg (seg "hot-water") ∧ SymSeg (seg "air") := by decide
  have refs : RefSeg (seg "p:demo:r:1") ∧ RefSeg (seg "ahu-1") ∧ RefSeg (seg "x") := by decide
  have strs : AsciiStr (seg "a \"q\"\n$") ∧ AsciiStr (seg "Dis \\ x") := by decide
  have nots : [seg "siteRef", seg "dis"] ≠ kwNot ∧ [seg "equipRef"] ≠ kwNot ∧ [seg "id"] ≠ kwNot := by decide
  simp only [sample2, AllO, AllA, OkT, OkLit, WFPath]
  simp [ids, syms, refs, nots, strs]
example : printFilter sample2 =
    bytes "siteRef->dis == \"a \\\"q\\\"\\n\\$\" and ^hot-water and equipRef *== @p:demo:r:1 or inputs? ^air @ahu-1 and id != @x \"Dis \\\\ x\"" := by
  decide +kernel
example : WFPath [seg "d", seg "b"] ∧ [seg "d", seg "b"] ≠ kwNot := by simp only [WFPath]; decide
example : IdSeg (seg "siteRef") ∧ [seg "siteRef"] ≠ kwNot := by decide

def printsAs (r : Res Ors) (s : String) : Bool :=
  match r with
  | .ok o => printFilter o == bytes s
  | _ => false

/-- the formerly failing input, evaluated -/
theorem p1_path_ends : printsAs (filterOfBytes (bytes "d->b and c")) "d->b and c" = true := by decide +kernel
/-- literals of the kinds the proofs do not reach yet, evaluated on examples -/
theorem ex_literals : printsAs (filterOfBytes (bytes
    "a == true and b != \"x\\n\\u00e9\" and c < 5kW and d >= 2021-03-04 and e *== @r and ^sym and rel? ^t @x and u == `http://x`"))
    "a == true and b != \"x\\né\" and c < 5kW and d >= 2021-03-04 and e *== @r and ^sym and rel? ^t @x and u == `http://x`" = true := by
  decide +kernel

end Hs.C08
