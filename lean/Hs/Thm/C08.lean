/-
  C08 — filter text and filter tree correspond: print-then-parse is the identity.

  Model (`Hs.Model.FilterText`): `printFilter` (every `Display` impl of filter/nodes.rs, path.rs and
  of `Value`), `parseFilter` (filter/lexer.rs over the concrete scanner model, calling the Zinc
  scalar readers of `Hs.Zinc`; filter/parser.rs with its swallowed lexer errors and the nesting
  counter).  What Rust std / chrono compute stays lexical exactly as in C01: a parsed literal number
  is the text handed to `f64::from_str`, a parsed timestamp is its token text; the statement reads
  "parsing the printed text yields the lexical image of the tree".

  Proved: `C08_holds` — the property at full strength for the explicit decidable well-formedness
  predicate `WFf` (every literal kind the syntax admits, all characters in Str / Uri / display names,
  any number of operands, nesting up to the parser's limit).  Helper lemmas: `Hs/Lemmas/Filter{Scan,Lex,
  Parse}.lean` (tokens, the mutual induction over the tree) and `Hs/Lemmas/FilterRt{Delim,Lit,Parse,Wf}.lean`
  (literals: the framing lemmas of the Zinc ladder `Hs/Lemmas/ZincRt*.lean` re-used for what follows a
  literal in filter text; the induction with all literal kinds; the executable check).
-/
import Hs.Lemmas.FilterParse
import Hs.Lemmas.FilterRtWf
import Hs.Thm.C01
namespace Hs.C08
open Hs Hs.FText

/-! ### the property at full strength -/

mutual
/-- lexical image of a filter: literals as the reader returns them for the printed text (`C01.lexImage`);
the Ref operand of `*==` and of a relation without its display name, which `Display for Ref` does
not print (and which `==` on Ref ignores) -/
def lexImageT : Term → Term
  | .parens o => .parens (lexImageO o)
  | .weq p r => .weq p { id := r.id, dis := none }
  | .rel r t (some rv) => .rel r t (some { id := rv.id, dis := none })
  | .cmp p op v => .cmp p op (Hs.C01.lexImage v)
  | t => t
def lexImageA : Ands → Ands
  | .nil => .nil
  | .cons t ts => .cons (lexImageT t) (lexImageA ts)
def lexImageO : Ors → Ors
  | .nil => .nil
  | .cons a as => .cons (lexImageA a) (lexImageO as)
end

/-- The property at full strength, for a well-formedness predicate `WFf` on trees (the property's
list: non-empty `or`/`and` lists, identifier path segments and relation names with a lone `not`
excluded as a path, id-alphabet Refs and Symbols, literals of the kinds the syntax admits — Bool,
finite Number with a database unit, Str, Uri, Ref, Symbol, Date, Time, DateTime with a resolvable
unambiguous zone — and at most 64 nested groups): printing and parsing returns the tree. -/
def C08_full (WFf : Ors → Prop) : Prop :=
  ∀ f, WFf f → filterOfBytes (printFilter f) = .ok (lexImageO f)

/-! ### proved: a fragment of the grammar, for all of its trees -/

/-- The proved fragment: terms `tag`, `not tag`, `^symbol`, `path *== @ref`,
`rel? [^symbol] [@ref]`, `path op literal` for the six operators with a Bool, Symbol, Ref (with or
without display name), Str or Uri literal, and parenthesised groups — over paths of one or more
identifier segments (`a->b->c`, a lone `not` excluded), id-alphabet Refs and Symbols, Str, Uri and
display names over all 128 ASCII characters (every escape the writer produces: `\"`, `\\`, `\$`, `\n`,
`\r`, `\t`, `\u00XX`); any number of `and` / `or` operands, any nesting up to the parser's limit. -/
def Fragment (f : Ors) : Prop := f ≠ .nil ∧ AllO f ∧ nestO f ≤ 64

theorem lexImage_lit (v : Val) (h : OkLit v) : Hs.C01.lexImage v = v := by
  cases v <;> simp [OkLit] at h <;> simp [Hs.C01.lexImage]

mutual
theorem lexImageT_ok : (t : Term) → OkT t → lexImageT t = imgT t
  | .parens o, h => by simp [lexImageT, imgT, lexImageO_ok o h.2]
  | .has _, _ => rfl
  | .missing _, _ => rfl
  | .isA _, _ => rfl
  | .weq _ _, _ => rfl
  | .rel _ _ Option.none, _ => rfl
  | .rel _ _ (some _), _ => rfl
  | .cmp p op v, h => by simp [lexImageT, imgT, lexImage_lit v h.2]
theorem lexImageA_ok : (a : Ands) → AllA a → lexImageA a = imgA a
  | .nil, _ => rfl
  | .cons t ts, h => by simp [lexImageA, imgA, lexImageT_ok t h.1, lexImageA_ok ts h.2]
theorem lexImageO_ok : (o : Ors) → AllO o → lexImageO o = imgO o
  | .nil, _ => rfl
  | .cons a as, h => by simp [lexImageO, imgO, lexImageA_ok a h.1.2, lexImageO_ok as h.2]
end

/-- **print-then-parse is the identity on every tree of the fragment** — unbounded in the number of
operands, the length of paths, identifiers, Ref ids and Symbols, and (up to the limit of 64) the
nesting.  This is `C08_full` restricted to `Fragment` (no Number, Date, Time, DateTime literals, ASCII
text only); `C08_holds` below removes both restrictions. -/
theorem C08_fragment_partial : C08_full Fragment := by
  intro f ⟨hne, hall, hd⟩
  rw [lexImageO_ok f hall]
  exact print_parse f hne hall hd

/-! ### proved: the property in full -/

mutual
/-- `lexImageT` is the function the lemma files use (`imgT2`, over `Hs.Zinc.lexImg`) -/
theorem lexImageT_eq : (t : Term) → lexImageT t = imgT2 t
  | .parens o => by simp [lexImageT, imgT2, lexImageO_eq o]
  | .has _ => rfl
  | .missing _ => rfl
  | .isA _ => rfl
  | .weq _ _ => rfl
  | .rel _ _ Option.none => rfl
  | .rel _ _ (some _) => rfl
  | .cmp p op v => by simp [lexImageT, imgT2, Hs.C01.lexImage_eq v]
theorem lexImageA_eq : (a : Ands) → lexImageA a = imgA2 a
  | .nil => rfl
  | .cons t ts => by simp [lexImageA, imgA2, lexImageT_eq t, lexImageA_eq ts]
theorem lexImageO_eq : (o : Ors) → lexImageO o = imgO2 o
  | .nil => rfl
  | .cons a as => by simp [lexImageO, imgO2, lexImageA_eq a, lexImageO_eq as]
end

/-- **The well-formedness predicate of the property**, explicit and decidable (`Hs.FText.WF2`, evaluated by
`Hs.FText.wfO`; `Hs/Lemmas/FilterRt{Parse,Wf,Lit}.lean`):

* the `Or` and each of its `And`s is non-empty (an empty list prints as the empty text);
* paths are non-empty lists of identifiers `[a-z][A-Za-z0-9_]*` (`WFPath`, `IdSeg`); the path of `tag`,
  `path op literal` and `path *== @ref` is not the lone segment `not` (which the grammar reads as the operator);
  relation names are identifiers;
* Symbols are `[a-z][A-Za-z0-9~:._-]*` (`SymSeg`), Ref ids non-empty over `[A-Za-z0-9~:._-]` (`RefSeg`);
* literals (`OkLit2`): Bool; Symbol; Ref with or without a display name, the display name ANY text; ANY Str; ANY
  Uri; a finite Number whose text is a decimal `f64::from_str` accepts (`-?d+(.d+)?`, what `Display for f64`
  prints) that does not round to infinity (`lexIsInf`, the filter lexer's `is_infinite()` test), with no unit or a
  unit symbol of the unit table (`finiteNumOk`); Date, Time and DateTime whose texts chrono accepts and whose zone
  name the zone table resolves (`dateOk`, `timeOk`, `dtOk` — the predicates of C01);
* at most 64 nested groups (`nestO`, the parser's `MAX_NESTING_DEPTH`). -/
def WFf (f : Ors) : Prop := WF2 f

instance (f : Ors) : Decidable (WFf f) := inferInstanceAs (Decidable (WF2 f))

/-- **C08 for the model, in full**: printing any well-formed filter tree and parsing the text returns the tree
(its lexical image: a Number literal is re-read as exactly the text that was printed for it, a DateTime as its
token text, and the Ref operand of `*==` / of a relation comes back without the display name `Display` does not
print).  Unbounded in the number of operands, the length of paths, names, ids and texts; every literal kind the
syntax admits; every character (non-ASCII text in Str, Uri and display names goes through the UTF-8 lemmas
`lossy (encChars s) = s` of C01); nesting up to the parser's limit of 64.

The hypotheses of `WFf` beyond the property's own list are lexical side conditions the real writer always meets
(number text = what `Display for f64` prints for a finite value, date/time text = what chrono prints) and the
nesting bound of the repaired parser; `cex_*` below show with kernel-checked witnesses that none of the
hypotheses can be dropped. -/
theorem C08_holds : C08_full WFf := by
  intro f ⟨hne, hall, hd⟩
  rw [lexImageO_eq f]
  exact print_parse2 f hne hall hd

mutual
/-- only `tag`, `not tag` and groups -/
def tagsOnlyT : Term → Bool
  | .parens o => tagsOnlyO o
  | .has _ => true
  | .missing _ => true
  | _ => false
def tagsOnlyA : Ands → Bool
  | .nil => true
  | .cons t ts => tagsOnlyT t && tagsOnlyA ts
def tagsOnlyO : Ors → Bool
  | .nil => true
  | .cons a as => tagsOnlyA a && tagsOnlyO as
end

/-- Skeleton trees: every term is `tag`, `not tag` or a parenthesised group. -/
def Skeleton (f : Ors) : Prop := Fragment f ∧ tagsOnlyO f = true

/-- the skeleton level of the grammar: precedence, grouping, where a path ends -/
theorem C08_skeleton_partial : C08_full Skeleton := fun f h => C08_fragment_partial f h.1

/-! ### consequences spelled out -/

def seg (s : String) : List Char := s.toList
def tag (s : String) : Term := .has [seg s]

/-- each literal with its exact value: a comparison with a Bool, Symbol, Ref, (ASCII) Str or Uri literal,
printed, parses to that comparison — for every operator, every identifier path, every such literal -/
theorem literal_exact (p : Path) (op : CmpOp) (v : Val) (hp : WFPath p) (np : p ≠ kwNot) (hv : OkLit v) :
    filterOfBytes (printPath p ++ [32] ++ printOp op ++ [32] ++ printVal v)
      = .ok (.cons (.cons (.cmp p op v) .nil) .nil) := by
  have h := C08_fragment_partial (.cons (.cons (.cmp p op v) .nil) .nil)
    ⟨by simp, by simp [AllO, AllA, OkT, hp, np, hv], by simp [nestO, nestA, nestT]⟩
  simpa [printFilter, printOrs, printAnds, printTerm, lexImageO, lexImageA, lexImageT, lexImage_lit v hv] using h

/-- … and the same for EVERY literal kind: Number, Date, Time, DateTime, Str / Uri / display names over all
characters (the literal comes back as its lexical image) -/
theorem literal_exact_all (p : Path) (op : CmpOp) (v : Val) (hp : WFPath p) (np : p ≠ kwNot) (hv : OkLit2 v) :
    filterOfBytes (printPath p ++ [32] ++ printOp op ++ [32] ++ printVal v)
      = .ok (.cons (.cons (.cmp p op (Hs.C01.lexImage v)) .nil) .nil) := by
  have h := C08_holds (.cons (.cons (.cmp p op v) .nil) .nil)
    ⟨by simp, by simp [AllO2, AllA2, OkT2, hp, np, hv], by simp [nestO, nestA, nestT]⟩
  simpa [printFilter, printOrs, printAnds, printTerm, lexImageO, lexImageA, lexImageT] using h

/-- precedence: `and` binds tighter than `or` — `a or b and c` is `a or (b and c)`, for all
identifiers -/
theorem precedence (a b c : List Char) (ha : IdSeg a) (hb : IdSeg b) (hc : IdSeg c)
    (na : [a] ≠ kwNot) (nb : [b] ≠ kwNot) (nc : [c] ≠ kwNot) :
    filterOfBytes (printPath [a] ++ sepOr ++ (printPath [b] ++ sepAnd ++ printPath [c]))
      = .ok (.cons (.cons (.has [a]) .nil) (.cons (.cons (.has [b]) (.cons (.has [c]) .nil)) .nil)) := by
  have h := C08_fragment_partial
    (.cons (.cons (.has [a]) .nil) (.cons (.cons (.has [b]) (.cons (.has [c]) .nil)) .nil))
    ⟨by simp, by simp [AllO, AllA, OkT, WFPath, ha, hb, hc, na, nb, nc], by simp [nestO, nestA, nestT]⟩
  simpa [printFilter, printOrs, printAnds, printTerm, lexImageO, lexImageA, lexImageT] using h

/-- a parenthesised group is one term: `( a or b ) and c` keeps the `or` below the `and` -/
theorem grouping (a b c : List Char) (ha : IdSeg a) (hb : IdSeg b) (hc : IdSeg c)
    (na : [a] ≠ kwNot) (nb : [b] ≠ kwNot) (nc : [c] ≠ kwNot) :
    filterOfBytes ([40, 32] ++ (printPath [a] ++ sepOr ++ printPath [b]) ++ [32, 41] ++ sepAnd ++ printPath [c])
      = .ok (.cons (.cons (.parens (.cons (.cons (.has [a]) .nil) (.cons (.cons (.has [b]) .nil) .nil)))
               (.cons (.has [c]) .nil)) .nil) := by
  have h := C08_fragment_partial
    (.cons (.cons (.parens (.cons (.cons (.has [a]) .nil) (.cons (.cons (.has [b]) .nil) .nil)))
               (.cons (.has [c]) .nil)) .nil)
    ⟨by simp, by simp [AllO, AllA, OkT, WFPath, ha, hb, hc, na, nb, nc], by simp [nestO, nestA, nestT]⟩
  simpa [printFilter, printOrs, printAnds, printTerm, lexImageO, lexImageA, lexImageT] using h

/-- a path ends at the first token that is not `->`: a multi-segment path followed by `and` and
another term is two terms (the pinned tree read `d->b and c` as the one path `d->b->and->c`) -/
theorem path_ends (p q : Path) (hp : WFPath p) (hq : WFPath q) (np : p ≠ kwNot) (nq : q ≠ kwNot) :
    filterOfBytes (printPath p ++ sepAnd ++ printPath q)
      = .ok (.cons (.cons (.has p) (.cons (.has q) .nil)) .nil) := by
  have h := C08_fragment_partial (.cons (.cons (.has p) (.cons (.has q) .nil)) .nil)
    ⟨by simp, by simp [AllO, AllA, OkT, hp, hq, np, nq], by simp [nestO, nestA, nestT]⟩
  simpa [printFilter, printOrs, printAnds, printTerm, lexImageO, lexImageA, lexImageT] using h

/-! ### non-vacuity -/

def bytes (s : String) : List UInt8 := s.toUTF8.toList

/-- `a->b or not c and ( d or e )` is a skeleton tree … -/
def sample : Ors :=
  .cons (.cons (.has [seg "a", seg "b"]) .nil)
    (.cons (.cons (.missing [seg "c"]) (.cons (.parens (.cons (.cons (tag "d") .nil) (.cons (.cons (tag "e") .nil) .nil))) .nil)) .nil)

example : Skeleton sample := by
  refine ⟨⟨by simp [sample], ?_, by simp [sample, nestO, nestA, nestT, tag]⟩, by decide⟩
  have ids : ∀ x ∈ [seg "a", seg "b", seg "c", seg "d", seg "e"], IdSeg x := by decide
  have nots : [seg "d"] ≠ kwNot ∧ [seg "e"] ≠ kwNot ∧ [seg "a", seg "b"] ≠ kwNot := by decide
  simp only [sample, tag, AllO, AllA, OkT, WFPath]
  simp [ids, nots]
/-- … that prints as expected -/
example : printFilter sample = bytes "a->b or not c and ( d or e )" := by decide +kernel

/-- a tree with a Str literal with escapes, a Symbol term, a wildcard term whose Ref has a display
name (not printed), a relation and a Ref literal with display name is in the fragment … -/
def sample2 : Ors :=
  .cons (.cons (.cmp [seg "siteRef", seg "dis"] .eq (.str (seg "a \"q\"\n$")))
          (.cons (.isA (seg "hot-water")) (.cons (.weq [seg "equipRef"] { id := seg "p:demo:r:1", dis := some (seg "Dis") }) .nil)))
    (.cons (.cons (.rel (seg "inputs") (some (seg "air")) (some { id := seg "ahu-1", dis := none }))
          (.cons (.cmp [seg "id"] .ne (.ref (seg "x") (some (seg "Dis \\ x")))) .nil)) .nil)

example : Fragment sample2 := by
  refine ⟨by simp [sample2], ?_, by simp [sample2, nestO, nestA, nestT]⟩
  have ids : ∀ x ∈ [seg "siteRef", seg "dis", seg "equipRef", seg "inputs", seg "id"], IdSeg x := by decide
  have syms : SymSeg (seg "hot-water") ∧ SymSeg (seg "air") := by decide
  have refs : RefSeg (seg "p:demo:r:1") ∧ RefSeg (seg "ahu-1") ∧ RefSeg (seg "x") := by decide
  have strs : AsciiStr (seg "a \"q\"\n$") ∧ AsciiStr (seg "Dis \\ x") := by decide
  have nots : [seg "siteRef", seg "dis"] ≠ kwNot ∧ [seg "equipRef"] ≠ kwNot ∧ [seg "id"] ≠ kwNot := by decide
  simp only [sample2, AllO, AllA, OkT, OkLit, WFPath]
  simp [ids, syms, refs, nots, strs]
example : printFilter sample2 =
    bytes "siteRef->dis == \"a \\\"q\\\"\\n\\$\" and ^hot-water and equipRef *== @p:demo:r:1 or inputs? ^air @ahu-1 and id != @x \"Dis \\\\ x\"" := by
  decide +kernel
example : WFPath [seg "d", seg "b"] ∧ [seg "d", seg "b"] ≠ kwNot := by simp only [WFPath]; decide
example : IdSeg (seg "siteRef") ∧ [seg "siteRef"] ≠ kwNot := by decide

/-- a tree with every newly covered literal kind: a negative Number with a non-ASCII unit of the table, a
unit-less Number, a Date, a Time with a fraction, a UTC DateTime (`…Z`, followed by ` )`: the zone reader's
two-byte look-ahead), a DateTime with offset and zone name, a Str, a Uri and a Ref display name with
characters of 2, 3 and 4 UTF-8 bytes -/
def sample3 : Ors :=
  .cons (.cons (.cmp [seg "temp"] .ge (.num ⟨⟨0, seg "-21.5"⟩, some (seg "°C")⟩))
          (.cons (.cmp [seg "n"] .lt (.num ⟨⟨0, seg "1000000"⟩, none⟩))
          (.cons (.cmp [seg "d"] .eq (.date ⟨2024, 2, 29, seg "2024-02-29"⟩))
          (.cons (.parens (.cons (.cons (.cmp [seg "t"] .le (.time ⟨1, 2, 3, 500000000, seg "01:02:03.500"⟩)) .nil)
               (.cons (.cons (.cmp [seg "ts"] .gt
                  (.dateTime ⟨0, 0, 0, seg "UTC", seg "UTC", seg "2024-02-29T12:34:56Z"⟩)) .nil) .nil))) .nil))))
    (.cons (.cons (.cmp [seg "ts"] .ne
            (.dateTime ⟨0, 0, -18000, seg "New_York", seg "America/New_York", seg "2024-02-29T12:34:56.789-05:00"⟩))
          (.cons (.cmp [seg "dis"] .eq (.str (seg "Büro é€😀 \"x\"")))
          (.cons (.cmp [seg "u"] .eq (.uri (seg "http://x/ä`b")))
          (.cons (.cmp [seg "id"] .eq (.ref (seg "a-1") (some (seg "Raum 1 – Süd")))) .nil)))) .nil)

/-- it satisfies the hypothesis of `C08_holds` (by evaluation of the decidable predicate) … -/
theorem sample3_wf : WFf sample3 := by decide +kernel
/-- … prints as expected … -/
example : printFilter sample3 = bytes ("temp >= -21.5°C and n < 1000000 and d == 2024-02-29 and " ++
    "( t <= 01:02:03.500 or ts > 2024-02-29T12:34:56Z ) or ts != 2024-02-29T12:34:56.789-05:00 New_York and " ++
    "dis == \"Büro é€😀 \\\"x\\\"\" and u == `http://x/ä\\`b` and id == @a-1 \"Raum 1 – Süd\"") := by
  decide +kernel
/-- … and round-trips, by the theorem -/
example : filterOfBytes (printFilter sample3) = .ok (lexImageO sample3) := C08_holds sample3 sample3_wf

/-- one filter per newly covered literal kind -/
example : OkLit2 (.num ⟨⟨0, seg "-12.5"⟩, some (seg "°F")⟩) := by decide +kernel
example : OkLit2 (.num ⟨⟨0, seg "0.000001"⟩, some (seg "kW/m²")⟩) := by decide +kernel
example : OkLit2 (.date ⟨2024, 2, 29, seg "2024-02-29"⟩) := by decide +kernel
example : OkLit2 (.time ⟨23, 59, 59, 1000000000, seg "23:59:60"⟩) := by decide +kernel
example : OkLit2 (.dateTime ⟨0, 0, 0, seg "London", seg "Europe/London", seg "2024-01-01T00:00:00Z"⟩) := by
  decide +kernel
example : OkLit2 (.str (seg "日本語 \u0001 😀")) ∧ OkLit2 (.uri (seg "http://x/é\n")) ∧
    OkLit2 (.ref (seg "r") (some (seg "Ünïcode"))) := by decide +kernel
example : filterOfBytes (bytes "since >= 2024-02-29") =
    .ok (.cons (.cons (.cmp [seg "since"] .ge (.date ⟨2024, 2, 29, seg "2024-02-29"⟩)) .nil) .nil) := by
  have h := literal_exact_all [seg "since"] .ge (.date ⟨2024, 2, 29, seg "2024-02-29"⟩)
    (by simp only [WFPath]; decide) (by decide) (by decide +kernel)
  have e : printPath [seg "since"] ++ [32] ++ printOp .ge ++ [32] ++ printVal (.date ⟨2024, 2, 29, seg "2024-02-29"⟩)
      = bytes "since >= 2024-02-29" := by decide +kernel
  rw [e] at h
  exact h

/-! ### the hypotheses of `WFf` cannot be dropped (kernel-checked witnesses on the model of the code as it is) -/

def one (t : Term) : Ors := .cons (.cons t .nil) .nil

def deepF : Nat → Ors
  | 0 => one (tag "a")
  | n + 1 => one (.parens (deepF n))

/-- 64 nested groups round-trip (by `C08_holds`) … -/
theorem deep64_ok : filterOfBytes (printFilter (deepF 64)) = .ok (lexImageO (deepF 64)) :=
  C08_holds _ (by decide +kernel)
/-- … the 65th does not: the parser's `MAX_NESTING_DEPTH` -/
theorem cex_depth : (filterOfBytes (printFilter (deepF 65))).isOk = false := by decide +kernel

/-- a Number whose decimal text is accepted by `f64::from_str` but denotes a magnitude that rounds to
infinity (1 followed by 309 zeros; `Display for f64` never prints such a text for a finite value) is rejected by
the filter lexer's `is_infinite()` test; with one zero less it is accepted -/
def bigNum (zeros : Nat) : Num := ⟨⟨0, '1' :: List.replicate zeros '0'⟩, none⟩
theorem cex_number_rounds_to_inf : Hs.Zinc.finiteNumOk (bigNum 309) = true ∧
    (filterOfBytes (printFilter (one (.cmp [seg "a"] .eq (.num (bigNum 309)))))).isOk = false := by decide +kernel
example : OkLit2 (.num (bigNum 308)) := by decide +kernel

/-- NaN and the infinities print as `NaN`, `INF`, `-INF`, which the filter grammar does not admit -/
theorem cex_nan : (filterOfBytes (printFilter (one (.cmp [seg "a"] .eq
    (.num ⟨⟨Hs.Zinc.nanBits, seg "NaN"⟩, none⟩))))).isOk = false := by decide +kernel
theorem cex_neg_inf : (filterOfBytes (printFilter (one (.cmp [seg "a"] .eq
    (.num ⟨⟨Hs.Zinc.negInfBits, seg "-inf"⟩, none⟩))))).isOk = false := by decide +kernel
/-- a unit outside the unit table -/
theorem cex_unit : (filterOfBytes (printFilter (one (.cmp [seg "a"] .eq
    (.num ⟨⟨0, seg "5"⟩, some (seg "foo")⟩))))).isOk = false := by decide +kernel
/-- a zone name the zone table does not resolve -/
theorem cex_zone : (filterOfBytes (printFilter (one (.cmp [seg "a"] .eq
    (.dateTime ⟨0, 0, 0, seg "Nowhere", seg "Nowhere", seg "2024-02-29T12:34:56Z"⟩))))).isOk = false := by
  decide +kernel
/-- a calendar date chrono rejects -/
theorem cex_date : (filterOfBytes (printFilter (one (.cmp [seg "a"] .eq
    (.date ⟨2023, 2, 29, seg "2023-02-29"⟩))))).isOk = false := by decide +kernel
/-- the lone path `not` is the operator; an empty `Or` prints as the empty text -/
theorem cex_not : (filterOfBytes (printFilter (one (.has kwNot)))).isOk = false := by decide +kernel
theorem cex_empty : (filterOfBytes (printFilter .nil)).isOk = false := by decide +kernel
/-- a Ref id outside the id alphabet ends at the first foreign byte: `@a b` is read as the Ref `a` -/
theorem cex_ref_id : (filterOfBytes (printFilter (one (.cmp [seg "x"] .eq (.ref (seg "a b") none))))).isOk = false := by
  decide +kernel

def printsAs (r : Res Ors) (s : String) : Bool :=
  match r with
  | .ok o => printFilter o == bytes s
  | _ => false

/-- the formerly failing input, evaluated -/
theorem p1_path_ends : printsAs (filterOfBytes (bytes "d->b and c")) "d->b and c" = true := by decide +kernel
/-- a text with literals of several kinds, evaluated -/
theorem ex_literals : printsAs (filterOfBytes (bytes
    "a == true and b != \"x\\n\\u00e9\" and c < 5kW and d >= 2021-03-04 and e *== @r and ^sym and rel? ^t @x and u == `http://x`"))
    "a == true and b != \"x\\né\" and c < 5kW and d >= 2021-03-04 and e *== @r and ^sym and rel? ^t @x and u == `http://x`" = true := by
  decide +kernel

end Hs.C08
