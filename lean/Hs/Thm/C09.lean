/-
  C09 — the filter parser is total; evaluation terminates.

  Model: `Hs.FText.parseFilter` (filter/lexer.rs + filter/parser.rs over the concrete scanner model,
  with the nesting counter of fix 8030c9f) and the two Ref-chasing evaluation loops
  `Hs.FLoops.weqLoop` (`WildcardEq::eval`) and `Hs.FLoops.relLoop` (`Namespace::has_relationship`).
  Outcomes `panic` / `diverge` (fuel ran out) / `depth` are what the property forbids.

  Proof structure of the parser's totality (`C09_parse_total_holds`; helper lemmas in
  `Hs/Lemmas/FilterTotal2*.lean`, built on the scanner and scalar-reader lemmas of C03, `Hs/Lemmas/ZincTotal*.lean`):
  * `Scan.mu s` = stash + unread input + 1 while `eof` is false (the `unread` of `Hs.Lemmas.FilterTotal`).
    Every scanner primitive and every scalar reader is non-increasing in `mu` and needs fuel `> mu`;
    `parse_number_date_time`'s reset `eof := false` merely restores the value `mu` had on entry.
  * The parser swallows lexer errors and goes on with the scanner where the failed reader stopped
    (`Hs.Model.FilterLexErr`): for every `…Err` function `mu` is no larger than at the reader's start
    (`FilterTotal2Err`).
  * `Lexer::read` (`lexRead`, with `greater_or_less`, `parse_path` and the identifier arm): no `panic`/`depth`,
    `diverge` only when `fuel ≤ mu + 1`, `mu` does not grow on `Ok` or `Err`, a token read away from the end of
    the input consumes at least one byte, the token `none` only comes with `eof`
    (`FilterTotal2Lex`; here `filterLexRead_total`, `filterLexRead_progress`).
  * parser: `FLex.M l = mu + [cur ≠ none]`.  A `read` never increases it (the token is paid for by the bytes it
    consumed; after a swallowed error the token is unchanged).  By mutual induction on the fuel every function
    of the parser's `mutual` block needs fuel at most `8 * M + c`, `c ≤ 13` — an `or`/`and` iteration consumes
    the operator token, a group consumes its `(` — so `fuelFor n = 8 n + 64` suffices
    (`FilterTotal2Parse`: `Specs`, `specsAll`, `parseFilter_spec`).
-/
import Hs.Model.FilterText
import Hs.Lemmas.FilterLoops
import Hs.Lemmas.FilterTotal
import Hs.Lemmas.FilterTotal2Parse
namespace Hs.C09
open Hs Hs.FText Hs.FLoops

/-- The property's first sentence at full strength: for every byte string the parser's outcome is
a filter or an error.  Proved in full as `C09_parse_total_holds` below: no function of the lexer or of
the parser has a `panic` or `depth` outcome for any fuel and any state (`parse_never_panic`,
`parse_never_depth`, `filterLexRead_total`), every token read away from the end of the input consumes at
least one byte and a failed read never moves the scanner back (`filterLexRead_progress`), and from that
the parser's fuel `fuelFor n = 8n + 64` suffices for every input of `n` bytes (`parse_never_diverge`).
The nesting bound is `parse_depth_bound` / `parse_depth_step`. -/
def C09_parse_total : Prop :=
  ∀ bs : List UInt8,
    filterOfBytes bs ≠ .panic ∧ filterOfBytes bs ≠ .diverge ∧ filterOfBytes bs ≠ .depth

/-- Nesting is bounded: whatever the tokens, a group nested deeper than `maxNestingDepth` is an
error, not a deeper recursion (this is what keeps the native stack bounded). -/
theorem parse_depth_bound (fuel depth : Nat) (l : FLex) (h : maxNestingDepth ≤ depth) :
    parseParens (fuel + 1) depth l = .err := by
  simp [parseParens, h]

/-- the only place where the parser recurses into a sub-expression is `parse_parens`, and it does so
with the depth counter raised by exactly one: a group that parses at depth `d` has its inside
parsed by `parse_or` at depth `d + 1`, and `d` is below the limit -/
theorem parse_depth_step (fuel depth : Nat) (l l3 : FLex) (o : Ors)
    (h : parseParens (fuel + 1) depth l = .ok (o, l3)) :
    depth < maxNestingDepth ∧ ∃ l1 l2, l.read fuel = .ok l1 ∧ parseOr fuel (depth + 1) l1 = .ok (o, l2) := by
  unfold parseParens at h
  split at h
  · simp at h
  · rename_i hd
    refine ⟨Nat.not_le.1 hd, ?_⟩
    split at h
    · rename_i l1 hl1
      split at h
      · rename_i o' l2 hl2
        split at h
        · simp at h
        · split at h
          · simp only [Res.ok.injEq, Prod.mk.injEq] at h
            exact ⟨l1, l2, hl1, by rw [hl2, h.1]⟩
          all_goals simp at h
      all_goals simp at h
    all_goals simp at h

/-- every byte loop the filter lexer runs — white space, identifiers, Ref/Symbol bodies, decimals,
units, fractions, zone names, Str and Uri bodies with their escapes — ends with a value or an error
once the fuel exceeds the unread bytes, for every scanner state and accumulator -/
theorem lexer_loops_total (fuel : Nat) (s : Scan) (acc : List UInt8) (h : unread s < fuel) :
    (∃ s', Scan.consumeWhiteSpaces fuel s = .ok s') ∧ (∃ s', Scan.consumeSpaces fuel s = .ok s') ∧
    (∃ r, Hs.Zinc.literalLoop fuel s acc = .ok r) ∧ (∃ r, Hs.Zinc.refLoop fuel s acc = .ok r) ∧
    (∃ r, Hs.Zinc.decimalLoop fuel s acc = .ok r) ∧ (∃ r, Hs.Zinc.unitLoop fuel s acc = .ok r) ∧
    (∃ r, Hs.Zinc.fracLoop fuel s acc = .ok r) ∧ (∃ r, Hs.Zinc.tzNameLoop fuel s acc = .ok r) ∧
    Fine (Hs.Zinc.strLoop fuel s acc) ∧ Fine (Hs.Zinc.uriLoop fuel s acc) := by
  obtain ⟨s1, h1, _⟩ := cws_total fuel s h
  obtain ⟨s2, h2, _⟩ := css_total fuel s h
  obtain ⟨a3, s3, h3, _⟩ := literalLoop_total fuel s acc h
  obtain ⟨a4, s4, h4, _⟩ := refLoop_total fuel s acc h
  obtain ⟨a5, s5, h5, _⟩ := decimalLoop_total fuel s acc h
  obtain ⟨a6, s6, h6, _⟩ := unitLoop_total fuel s acc h
  obtain ⟨a7, s7, h7, _⟩ := fracLoop_total fuel s acc h
  obtain ⟨a8, s8, h8, _⟩ := tzNameLoop_total fuel s acc h
  exact ⟨⟨s1, h1⟩, ⟨s2, h2⟩, ⟨_, h3⟩, ⟨_, h4⟩, ⟨_, h5⟩, ⟨_, h6⟩, ⟨_, h7⟩, ⟨_, h8⟩,
    (strLoop_fine fuel s acc h).fine, (uriLoop_fine fuel s acc h).fine⟩

/-- the scalar readers the filter lexer calls for Str, Uri, Ref (with its display name), Symbol and
identifiers, and the decimal / exponent parts of a number, end with a value or an error and leave
the scanner no further back than they found it -/
theorem scalar_readers_total (fuel : Nat) (s : Scan) (h : unread s < fuel) :
    FineLe s (Hs.Zinc.parseStr fuel s) ∧ FineLe s (Hs.Zinc.parseUri fuel s) ∧ FineLe s (Hs.Zinc.parseRef fuel s) ∧
    FineLe s (Hs.Zinc.parseSymbol fuel s) ∧ FineLe s (Hs.Zinc.parseId fuel s) ∧
    FineLe s (Hs.Zinc.parseDecimal fuel s) ∧ FineLe s (Hs.Zinc.parseExponent fuel s) :=
  ⟨parseStr_fine fuel s h, parseUri_fine fuel s h, parseRef_fine fuel s h, parseSymbol_fine fuel s h,
   parseId_fine fuel s h, parseDecimal_fine fuel s h, parseExponent_fine fuel s h⟩

/-! ### the lexer: total, and it makes progress -/

/-- the measure of this file's earlier lemmas is the scanner measure of the totality proof -/
theorem unread_eq_mu (s : Scan) : unread s = s.mu := by
  simp [unread, Scan.mu, Scan.remaining]

/-- `Lexer::read` never panics and never exceeds a depth limit, for any fuel and any scanner state; it does
not run out of fuel once the fuel exceeds the unread bytes by two -/
theorem filterLexRead_total (fuel : Nat) (s : Scan) :
    lexRead fuel s ≠ .panic ∧ lexRead fuel s ≠ .depth ∧ (s.mu + 1 < fuel → lexRead fuel s ≠ .diverge) :=
  ⟨(lexRead_spec fuel s).ne_panic, (lexRead_spec fuel s).ne_depth, fun h => (lexRead_spec fuel s).ne_diverge h⟩

/-- the same with the fuel bound stated on the scanner's fields (stash + unread input) -/
theorem filterLexRead_total_remaining (fuel : Nat) (s : Scan) (h : s.remaining + 2 < fuel) :
    lexRead fuel s ≠ .panic ∧ lexRead fuel s ≠ .depth ∧ lexRead fuel s ≠ .diverge := by
  have hm := Scan.mu_le_remaining s
  exact ⟨(filterLexRead_total fuel s).1, (filterLexRead_total fuel s).2.1,
    (filterLexRead_total fuel s).2.2 (by omega)⟩

/-- progress of `Lexer::read`: a returned token leaves no more unread bytes than before, strictly fewer when
the scanner was not at the end of the input; the token `none` is only returned at the end of the input; and a
failed read (whose scanner state the parser keeps when it swallows the error) does not move the scanner back -/
theorem filterLexRead_progress (fuel : Nat) (s : Scan) :
    (∀ s' t, lexRead fuel s = .ok s' t →
      s'.mu ≤ s.mu ∧ (s.eof = false → s'.mu < s.mu) ∧ (t = .none → s'.eof = true)) ∧
    (∀ s', lexRead fuel s = .err s' → s'.mu ≤ s.mu) :=
  ⟨fun _ _ e => (lexRead_spec fuel s).post_ok e, fun _ e => (lexRead_spec fuel s).post_err e⟩

/-- at the end of the input the lexer returns the token `none` and leaves the scanner alone -/
theorem filterLexRead_at_eof (fuel : Nat) (s : Scan) (he : s.eof = true) : lexRead (fuel + 1) s = .ok s .none :=
  lexRead_at_eof fuel s he

/-- the fuel hypotheses are satisfiable: the scanner `Parser::make` builds over `bs`, with the fuel the model
uses for `bs` -/
theorem fuel_make (bs : List UInt8) :
    (Scan.make bs).mu + 1 < fuelFor bs.length ∧ (Scan.make bs).remaining + 2 < fuelFor bs.length := by
  have h1 := Scan.mu_make bs
  have h2 := Scan.remaining_le_mu (Scan.make bs)
  have hf : fuelFor bs.length = 8 * bs.length + 64 := rfl
  omega

example : (Scan.make [97, 32, 61, 61, 32, 49]).mu + 1 < fuelFor 6 := by decide
example : (Scan.make [97, 32, 61, 61, 32, 49]).eof = false := by decide

/-! ### the parser: total -/

/-- no `panic` outcome, for any fuel -/
theorem parse_never_panic (fuel : Nat) (bs : List UInt8) : parseFilter fuel bs ≠ .panic :=
  (parseFilter_fuel_spec fuel bs).ne_panic
/-- no `depth` outcome, for any fuel (over-deep nesting is an ordinary error, `parse_depth_bound`) -/
theorem parse_never_depth (fuel : Nat) (bs : List UInt8) : parseFilter fuel bs ≠ .depth :=
  (parseFilter_fuel_spec fuel bs).ne_depth
/-- fuel above `8 * length + 12` never runs out -/
theorem parse_never_diverge (fuel : Nat) (bs : List UInt8) (h : 8 * bs.length + 12 < fuel) :
    parseFilter fuel bs ≠ .diverge :=
  (parseFilter_fuel_spec fuel bs).ne_diverge h

example : 8 * (List.replicate 65 (40 : UInt8)).length + 12 < fuelFor (List.replicate 65 (40 : UInt8)).length := by
  decide

/-- the same for `parse_or` entered in any parser state at any depth: never `panic`/`depth`, the measure
`FLex.M` (unread bytes + pending token) does not grow, and fuel above `8 * M + 12` never runs out -/
theorem parseOr_total (fuel depth : Nat) (l : FLex) :
    parseOr fuel depth l ≠ .panic ∧ parseOr fuel depth l ≠ .depth ∧
    (8 * l.M + 12 < fuel → parseOr fuel depth l ≠ .diverge) ∧
    (∀ o l', parseOr fuel depth l = .ok (o, l') → l'.M ≤ l.M) :=
  ⟨(parseOr_spec fuel depth l).ne_panic, (parseOr_spec fuel depth l).ne_depth,
   fun h => (parseOr_spec fuel depth l).ne_diverge h, fun _ _ e => (parseOr_spec fuel depth l).post e⟩

/-- **C09, parser part**: `Filter::try_from` yields a filter or an error on every byte string. -/
theorem C09_parse_total_holds : C09_parse_total := fun bs =>
  ⟨(parseFilter_spec bs).ne_panic, (parseFilter_spec bs).ne_diverge Nat.zero_lt_one, (parseFilter_spec bs).ne_depth⟩

/-- the hypothesis is satisfiable with the fuel the model uses: a fresh scanner over `bs` has at most
`bs.length` unread bytes -/
theorem unread_make (bs : List UInt8) : unread (Scan.make bs) ≤ bs.length ∧ bs.length < fuelFor bs.length := by
  constructor
  · cases bs <;> simp [Scan.make, unread]
  · simp [fuelFor]; omega

/-- `WildcardEq::eval` terminates against every finite record set, cyclic ref graphs included:
with fuel above the number of record ids the loop never runs out of fuel. -/
theorem wildcard_terminates (recs : List RecView) (target : RefId) (start : Val) (fuel : Nat)
    (h : (viewIds recs).length + 1 ≤ fuel) : weqEval recs target start fuel ≠ .diverge := by
  unfold weqEval
  apply weqLoop_terminates
  have := unvisited_le_length (viewIds recs) []
  omega

/-- `Namespace::has_relationship` terminates against every finite record set -/
theorem relationship_terminates (recs : List Rec) (isRel tr hr : Bool) (target : Option RefId)
    (subject : Rec) (fuel : Nat) (h : (recIds recs).length + 1 ≤ fuel) :
    hasRelationship recs isRel tr hr target subject fuel ≠ .diverge := by
  unfold hasRelationship
  split
  · simp
  · apply relLoop_terminates
    have := unvisited_le_length (recIds recs) []
    omega

/-- the loops have no panicking or depth-limited step either -/
theorem wildcard_ok (recs : List RecView) (target : RefId) (start : Val) (fuel : Nat)
    (h : (viewIds recs).length + 1 ≤ fuel) : ∃ b, weqEval recs target start fuel = .ok b := by
  have hd := wildcard_terminates recs target start fuel h
  have hp : ∀ (f : Nat) (vis : List RefId) (v : Val) (r : Res Bool),
      weqLoop recs target f vis v = r → r = .diverge ∨ ∃ b, r = .ok b := by
    intro f
    induction f with
    | zero => intro vis v r hr; left; simpa [weqLoop] using hr.symm
    | succ n ih =>
      intro vis v r hr
      unfold weqLoop at hr
      repeat' split at hr
      all_goals first
        | exact ih _ _ _ hr
        | (right; exact ⟨_, hr.symm⟩)
  rcases hp fuel [] start _ rfl with h1 | h1
  · exact absurd h1 hd
  · exact h1

/-! ### non-vacuity: a cyclic record set -/

/-- three records whose `a` tags point round in a circle; the wanted ref is not on it -/
def cyc : List RecView :=
  [ { id := some ['r', '0'], empty := false, target := .ref ['r', '1'] none },
    { id := some ['r', '1'], empty := false, target := .ref ['r', '2'] none },
    { id := some ['r', '2'], empty := false, target := .ref ['r', '0'] none } ]

example : weqEval cyc ['x'] (.ref ['r', '0'] none) ((viewIds cyc).length + 1) = .ok false := by decide
example : weqEval cyc ['r', '2'] (.ref ['r', '0'] none) ((viewIds cyc).length + 1) = .ok true := by decide
/-- with less fuel than records the model does report `diverge`: the bound is not vacuous -/
example : weqEval cyc ['x'] (.ref ['r', '0'] none) 2 = .diverge := by decide

def cycRecs : List Rec :=
  [ { key := some ['r', '0'], id := some ['r', '0'], entries := [{ ref := some ['r', '1'], rel := .sym true, recip := .absent }] },
    { key := some ['r', '1'], id := none, entries := [{ ref := some ['r', '0'], rel := .sym true, recip := .absent }] } ]

example : hasRelationship cycRecs true true false (some ['x']) cycRecs.head! ((recIds cycRecs).length + 1) = .ok false := by
  decide
example : hasRelationship cycRecs true true false (some ['x']) cycRecs.head! 1 = .diverge := by decide

/-! ### the inputs on which the pinned tree overflowed the stack are errors of the model -/

def bytes (s : String) : List UInt8 := s.toUTF8.toList

def outcome (r : Res Ors) : Nat :=
  match r with
  | .ok _ => 0 | .err => 1 | .panic => 2 | .diverge => 3 | .depth => 4

/-- 65 nested groups (was: unbounded recursion) -/
theorem deep_parens : outcome (filterOfBytes (List.replicate 65 40)) = 1 := by decide +kernel
theorem deep_parens_closed :
    outcome (filterOfBytes (List.replicate 65 40 ++ [97] ++ List.replicate 65 41)) = 1 := by decide +kernel
/-- 64 levels are accepted when they are closed again -/
theorem deep_parens_ok :
    outcome (filterOfBytes (List.replicate 64 40 ++ [97] ++ List.replicate 64 41)) = 0 := by decide +kernel
/-- operators without operands, unbalanced parentheses: errors, not crashes -/
theorem dangling_and : outcome (filterOfBytes (bytes "a and")) = 1 := by decide +kernel
theorem dangling_or : outcome (filterOfBytes (bytes "or or")) = 1 := by decide +kernel
theorem dangling_not : outcome (filterOfBytes (bytes "not")) = 1 := by decide +kernel
theorem dangling_cmp : outcome (filterOfBytes (bytes "a ==")) = 1 := by decide +kernel
theorem unbalanced_open : outcome (filterOfBytes (bytes "((a)")) = 1 := by decide +kernel
theorem unbalanced_close : outcome (filterOfBytes (bytes "(a))")) = 1 := by decide +kernel
theorem empty_input : outcome (filterOfBytes []) = 1 := by decide +kernel
/-- with too little fuel the model does report `diverge`: the fuel bound is not vacuous -/
theorem small_fuel_diverges : outcome (parseFilter 3 (bytes "a and b")) = 3 := by decide +kernel

end Hs.C09
