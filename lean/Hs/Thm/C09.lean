/-
  C09 — the filter parser is total; evaluation terminates.

  Model: `Hs.FText.parseFilter` (filter/lexer.rs + filter/parser.rs over the concrete scanner model,
  with the nesting counter of fix 8030c9f) and the two Ref-chasing evaluation loops
  `Hs.FLoops.weqLoop` (`WildcardEq::eval`) and `Hs.FLoops.relLoop` (`Namespace::has_relationship`).
  Outcomes `panic` / `diverge` (fuel ran out) / `depth` are what the property forbids.
-/
import Hs.Model.FilterText
import Hs.Lemmas.FilterLoops
namespace Hs.C09
open Hs Hs.FText Hs.FLoops

/-- The property's first sentence at full strength: for every byte string the parser's outcome is
a filter or an error.  (Proved below: the nesting bound, and that no fuel-independent outcome other
than `ok`/`err` exists for the formerly crashing inputs.  Not yet proved for all inputs: that the
fuel `fuelFor n = 8n + 64` always suffices — it needs a "consumes at least one byte per token"
lemma for every Zinc scalar reader the lexer calls; on this point the claim rests on the
correspondence runs, where the model's outcome is compared with the implementation's.) -/
def C09_parse_total : Prop :=
  ∀ bs : List UInt8,
    filterOfBytes bs ≠ .panic ∧ filterOfBytes bs ≠ .diverge ∧ filterOfBytes bs ≠ .depth

/-- Nesting is bounded: whatever the tokens, a group nested deeper than `maxNestingDepth` is an
error, not a deeper recursion (this is what keeps the native stack bounded). -/
theorem parse_depth_bound (fuel depth : Nat) (l : FLex) (h : maxNestingDepth ≤ depth) :
    parseParens (fuel + 1) depth l = .err := by
  simp [parseParens, h]

/-- the only place where the parser recurses into a sub-expression is `parse_parens`, and it does so
with the depth counter raised by exactly one: a group that parses at depth `d` has its inside
parsed by `parse_or` at depth `d + 1`, and `d` is below the limit -/
theorem parse_depth_step (fuel depth : Nat) (l l3 : FLex) (o : Ors)
    (h : parseParens (fuel + 1) depth l = .ok (o, l3)) :
    depth < maxNestingDepth ∧ ∃ l1 l2, l.read fuel = .ok l1 ∧ parseOr fuel (depth + 1) l1 = .ok (o, l2) := by
  unfold parseParens at h
  split at h
  · simp at h
  · rename_i hd
    refine ⟨Nat.not_le.1 hd, ?_⟩
    split at h
    · rename_i l1 hl1
      split at h
      · rename_i o' l2 hl2
        split at h
        · simp at h
        · split at h
          · simp only [Res.ok.injEq, Prod.mk.injEq] at h
            exact ⟨l1, l2, hl1, by rw [hl2, h.1]⟩
          all_goals simp at h
      all_goals simp at h
    all_goals simp at h

/-- `WildcardEq::eval` terminates against every finite record set, cyclic ref graphs included:
with fuel above the number of record ids the loop never runs out of fuel. -/
theorem wildcard_terminates (recs : List RecView) (target : RefId) (start : Val) (fuel : Nat)
    (h : (viewIds recs).length + 1 ≤ fuel) : weqEval recs target start fuel ≠ .diverge := by
  unfold weqEval
  apply weqLoop_terminates
  have := unvisited_le_length (viewIds recs) []
  omega

/-- `Namespace::has_relationship` terminates against every finite record set -/
theorem relationship_terminates (recs : List Rec) (isRel tr hr : Bool) (target : Option RefId)
    (subject : Rec) (fuel : Nat) (h : (recIds recs).length + 1 ≤ fuel) :
    hasRelationship recs isRel tr hr target subject fuel ≠ .diverge := by
  unfold hasRelationship
  split
  · simp
  · apply relLoop_terminates
    have := unvisited_le_length (recIds recs) []
    omega

/-- the loops have no panicking or depth-limited step either -/
theorem wildcard_ok (recs : List RecView) (target : RefId) (start : Val) (fuel : Nat)
    (h : (viewIds recs).length + 1 ≤ fuel) : ∃ b, weqEval recs target start fuel = .ok b := by
  have hd := wildcard_terminates recs target start fuel h
  have hp : ∀ (f : Nat) (vis : List RefId) (v : Val) (r : Res Bool),
      weqLoop recs target f vis v = r → r = .diverge ∨ ∃ b, r = .ok b := by
    intro f
    induction f with
    | zero => intro vis v r hr; left; simpa [weqLoop] using hr.symm
    | succ n ih =>
      intro vis v r hr
      unfold weqLoop at hr
      repeat' split at hr
      all_goals first
        | exact ih _ _ _ hr
        | (right; exact ⟨_, hr.symm⟩)
  rcases hp fuel [] start _ rfl with h1 | h1
  · exact absurd h1 hd
  · exact h1

/-! ### non-vacuity: a cyclic record set -/

/-- three records whose `a` tags point round in a circle; the wanted ref is not on it -/
def cyc : List RecView :=
  [ { id := some ['r', '0'], empty := false, target := .ref ['r', '1'] none },
    { id := some ['r', '1'], empty := false, target := .ref ['r', '2'] none },
    { id := some ['r', '2'], empty := false, target := .ref ['r', '0'] none } ]

example : weqEval cyc ['x'] (.ref ['r', '0'] none) ((viewIds cyc).length + 1) = .ok false := by decide
example : weqEval cyc ['r', '2'] (.ref ['r', '0'] none) ((viewIds cyc).length + 1) = .ok true := by decide
/-- with less fuel than records the model does report `diverge`: the bound is not vacuous -/
example : weqEval cyc ['x'] (.ref ['r', '0'] none) 2 = .diverge := by decide

def cycRecs : List Rec :=
  [ { id := some ['r', '0'], entries := [{ ref := some ['r', '1'], rel := .sym true, recip := .absent }] },
    { id := some ['r', '1'], entries := [{ ref := some ['r', '0'], rel := .sym true, recip := .absent }] } ]

example : hasRelationship cycRecs true true false (some ['x']) cycRecs.head! ((recIds cycRecs).length + 1) = .ok false := by
  decide
example : hasRelationship cycRecs true true false (some ['x']) cycRecs.head! 1 = .diverge := by decide

/-! ### the inputs on which the pinned tree overflowed the stack are errors of the model -/

def bytes (s : String) : List UInt8 := s.toUTF8.toList

def outcome (r : Res Ors) : Nat :=
  match r with
  | .ok _ => 0 | .err => 1 | .panic => 2 | .diverge => 3 | .depth => 4

/-- 65 nested groups (was: unbounded recursion) -/
theorem deep_parens : outcome (filterOfBytes (List.replicate 65 40)) = 1 := by decide +kernel
theorem deep_parens_closed :
    outcome (filterOfBytes (List.replicate 65 40 ++ [97] ++ List.replicate 65 41)) = 1 := by decide +kernel
/-- 64 levels are accepted when they are closed again -/
theorem deep_parens_ok :
    outcome (filterOfBytes (List.replicate 64 40 ++ [97] ++ List.replicate 64 41)) = 0 := by decide +kernel
/-- operators without operands, unbalanced parentheses: errors, not crashes -/
theorem dangling_and : outcome (filterOfBytes (bytes "a and")) = 1 := by decide +kernel
theorem dangling_or : outcome (filterOfBytes (bytes "or or")) = 1 := by decide +kernel
theorem dangling_not : outcome (filterOfBytes (bytes "not")) = 1 := by decide +kernel
theorem dangling_cmp : outcome (filterOfBytes (bytes "a ==")) = 1 := by decide +kernel
theorem unbalanced_open : outcome (filterOfBytes (bytes "((a)")) = 1 := by decide +kernel
theorem unbalanced_close : outcome (filterOfBytes (bytes "(a))")) = 1 := by decide +kernel
theorem empty_input : outcome (filterOfBytes []) = 1 := by decide +kernel

end Hs.C09
