/-
  C19 — kinds, typed accessors and grid construction are coherent.

  The tables (`Hs.Gen.ValueShape`, `Hs.Gen.Kinds`, `Hs.Gen.Accessors`) are regenerated from
  /repo/src/haystack/val/*.rs on every run; the `table_*` theorems below are decided over the WHOLE
  tables by the kernel and are re-checked whenever a table changes.  They are lifted to all values
  (`Val` of any size), all strings, all dicts and keys by the general lemmas of `Hs.Lemmas.Kinds`.
  The grid theorems are general: every list of rows, of any length, with any keys.
-/
import Hs.Lemmas.Kinds
namespace Hs.C19
open Hs Hs.Kinds Hs.Gen

/-! ## hand-written expectations the translated tables are checked against -/

/-- names of the variants of `HaystackKind`, declaration order -/
def kindNames : List Kind := Kinds.kinds.map (·.1)

/-- the variant a `TryFrom<&Value>` target type stands for: the three Rust primitives stand for the
kind whose payload they are, every other target type is named like its variant -/
def targetVariant (t : List Char) : List Char :=
  if t = cl! "bool" then cl! "Bool"
  else if t = cl! "f64" then cl! "Number"
  else if t = cl! "String" then cl! "Str"
  else t

/-- the variant each typed `HaystackDict` method is documented to look for -/
def getterSpec : List (List Char × List Char) :=
  [(cl! "has_marker", cl! "Marker"), (cl! "has_na", cl! "Na"), (cl! "has_remove", cl! "Remove"),
   (cl! "get_bool", cl! "Bool"), (cl! "get_num", cl! "Number"), (cl! "get_str", cl! "Str"),
   (cl! "get_xstr", cl! "XStr"), (cl! "get_ref", cl! "Ref"), (cl! "get_uri", cl! "Uri"),
   (cl! "get_symbol", cl! "Symbol"), (cl! "get_date", cl! "Date"), (cl! "get_time", cl! "Time"),
   (cl! "get_date_time", cl! "DateTime"), (cl! "get_coord", cl! "Coord"), (cl! "get_dict", cl! "Dict"),
   (cl! "get_list", cl! "List"), (cl! "get_grid", cl! "Grid")]

def getterVariant (g : List Char) : List Char := (lookup g getterSpec).getD []

/-! ## table theorems (decided over the whole generated tables) -/

/-- `enum Value` declares exactly the 18 variants of the model, in the order of `Val.kindIdx` -/
theorem table_variants : ValueShape.variants.map (·.1) = ctorNames := by decide

/-- each variant is tested by exactly one `is_*` method, and there is no further variant test -/
theorem table_preds :
    (∀ n ∈ ctorNames, (ValueShape.preds.filter fun p => p.2 == n).length = 1) ∧
    ValueShape.preds.length = ctorNames.length := by decide

/-- discriminants fit a `u8`; `kind as u8` followed by `try_from(u8)` is the identity -/
theorem table_code_of_kind :
    ∀ k ∈ kindNames, ∃ n, n < 256 ∧ kindCode k = some n ∧ kindOfCode n = some k := by
  have h : ∀ k ∈ kindNames, ((kindCode k).any fun n => decide (n < 256) && kindOfCode n == some k) = true := by
    decide
  intro k hk
  have := h k hk
  cases hc : kindCode k with
  | none => simp [hc] at this
  | some n =>
    simp only [hc, Option.any_some, Bool.and_eq_true, decide_eq_true_eq, beq_iff_eq] at this
    exact ⟨n, this.1, rfl, this.2⟩

/-- all 256 codes: `try_from(u8)` answers only with a declared kind whose code is that number -/
theorem table_kind_of_code :
    ∀ n, n < 256 → ∀ k, kindOfCode n = some k → k ∈ kindNames ∧ kindCode k = some n := by
  have h : ∀ n, n < 256 → ((kindOfCode n).all fun k => decide (k ∈ kindNames) && kindCode k == some n) = true := by
    decide +kernel
  intro n hn k hk
  have := h n hn
  simpa [hk] using this

/-- kind names: `&str::from(kind)`, `Display` and `try_from(&str)` agree on every kind -/
theorem table_name_of_kind :
    ∀ k ∈ kindNames, ∃ s, kindName k = some s ∧ kindDisplay k = some s ∧ kindOfName s = some k := by
  have h : ∀ k ∈ kindNames, ((kindName k).any fun s => kindDisplay k == some s && kindOfName s == some k) = true := by
    decide
  intro k hk
  have := h k hk
  cases hc : kindName k with
  | none => simp [hc] at this
  | some s =>
    simp only [hc, Option.any_some, Bool.and_eq_true, beq_iff_eq] at this
    exact ⟨s, rfl, this.1, this.2⟩

/-- every arm of `try_from(&str)` names a declared kind whose name is the arm's pattern -/
theorem table_fromStr : ∀ e ∈ Kinds.fromStr, e.2 ∈ kindNames ∧ kindName e.2 = some e.1 := by decide

/-- `HaystackKind::from(&Value)` is total on the 18 variants, lands in the declared kinds, never maps
two variants to one kind, and reaches every kind -/
theorem table_ofValue :
    (∀ a ∈ ctorNames, ∃ k, lookup a Kinds.ofValue = some k ∧ k ∈ kindNames) ∧
    (∀ a ∈ ctorNames, ∀ b ∈ ctorNames, lookup a Kinds.ofValue = lookup b Kinds.ofValue → a = b) ∧
    (∀ k ∈ kindNames, ∃ a ∈ ctorNames, lookup a Kinds.ofValue = some k) := by
  refine ⟨?_, by decide, by decide⟩
  have h : ∀ a ∈ ctorNames, ((lookup a Kinds.ofValue).any fun k => decide (k ∈ kindNames)) = true := by decide
  intro a ha
  have := h a ha
  cases hc : lookup a Kinds.ofValue with
  | none => simp [hc] at this
  | some k => exact ⟨k, rfl, by simpa [hc] using this⟩

/-- every `impl TryFrom<&Value> for T` accepts the variant `T` stands for, and hands out the payload in
the expected way: the field `value` for the three primitives, the unit struct for a payload-free
variant, the stored payload itself otherwise -/
theorem table_tryFroms :
    ∀ e ∈ Accessors.tryFroms,
      e.2.1 = targetVariant e.1 ∧ e.2.1 ∈ ctorNames ∧
      e.2.2 = (if e.1 ≠ e.2.1 then cl! "value"
               else if lookup e.2.1 ValueShape.variants = some false then cl! "unit" else cl! "whole") := by
  decide

/-- every `dict_get!`/`dict_has!` method tests the variant it is documented to look for -/
theorem table_getters :
    ∀ e ∈ Accessors.getters, e.2.2 = getterVariant e.1 ∧ e.2.2 ∈ ctorNames := by decide

/-- the getters with a fixed key are built on a `dict_get!` getter of the table -/
theorem table_keyedGetters :
    ∀ e ∈ Accessors.keyedGetters, (lookup3 e.2.1 Accessors.getters).isSome = true := by decide

/-! ## lifted to all values -/

/-- `Val.kindIdx` is the position of the value's variant in the translated `enum Value` -/
theorem kindIdx_agrees (v : Val) : (ValueShape.variants.map (·.1))[v.kindIdx]? = some v.ctorName := by
  rw [table_variants]; exact ctorNames_get v

theorem variants_count : ValueShape.variants.length = 18 := by
  have := congrArg List.length table_variants
  simpa [ctorNames] using this

/-- Exactly one `is_*` variant test is true of any value. -/
theorem exactly_one_pred (v : Val) : (predBits v).count true = 1 := by
  have h := table_preds.1 v.ctorName (ctorName_mem v)
  rw [← h, predBits, List.count_eq_countP, List.countP_map, List.countP_eq_length_filter]
  refine congrArg List.length (List.filter_congr ?_)
  intro p _
  simp [matchesVariant]

/-- … in terms of the indexed tests: there is exactly one index below the number of tests whose test holds. -/
theorem exactly_one_pred_idx (v : Val) :
    ∃ i, i < ValueShape.preds.length ∧ isPred i v = true ∧
      ∀ j, j < ValueShape.preds.length → isPred j v = true → j = i := by
  have h := exactly_one_pred v
  have hlen : (predBits v).length = ValueShape.preds.length := by simp [predBits]
  have hget : ∀ j, j < ValueShape.preds.length → (predBits v)[j]? = some (isPred j v) := by
    intro j hj
    simp [predBits, isPred, List.getElem?_map, List.getElem?_eq_getElem hj]
  -- a list of Booleans with exactly one `true`
  have key : ∀ l : List Bool, l.count true = 1 →
      ∃ i, i < l.length ∧ l[i]? = some true ∧ ∀ j, l[j]? = some true → j = i := by
    intro l
    induction l with
    | nil => simp
    | cons b bs ih =>
      intro hc
      cases b with
      | true =>
        have hz : bs.count true = 0 := by simpa [List.count_cons] using hc
        refine ⟨0, by simp, by simp, ?_⟩
        intro j hj
        cases j with
        | zero => rfl
        | succ j =>
          have : true ∈ bs := List.mem_of_getElem? (by simpa using hj)
          exact absurd (List.count_pos_iff.2 this) (by omega)
      | false =>
        have hz : bs.count true = 1 := by simpa [List.count_cons] using hc
        obtain ⟨i, hi, hgi, huniq⟩ := ih hz
        refine ⟨i + 1, by simp; omega, by simpa using hgi, ?_⟩
        intro j hj
        cases j with
        | zero => simp at hj
        | succ j => rw [huniq j (by simpa using hj)]
  obtain ⟨i, hi, hgi, huniq⟩ := key _ h
  rw [hlen] at hi
  refine ⟨i, hi, ?_, ?_⟩
  · have := hget i hi; rw [hgi] at this; exact (Option.some.inj this).symm
  · intro j hj hjt
    exact huniq j (by rw [hget j hj, hjt])

/-- `kind as u8` and `HaystackKind::try_from(u8)` are inverse bijections between the declared kinds and
the accepted codes, over all 256 codes. -/
theorem kind_code_bij :
    (∀ k ∈ kindNames, ∃ n, n < 256 ∧ kindCode k = some n ∧ kindOfCode n = some k) ∧
    (∀ n, n < 256 → ∀ k, kindOfCode n = some k → k ∈ kindNames ∧ kindCode k = some n) :=
  ⟨table_code_of_kind, table_kind_of_code⟩

/-- kind ↔ name is a bijection: every kind has a name that parses back to it (and `Display` prints that
name); ANY string that parses as a kind is that kind's name. -/
theorem kind_name_bij :
    (∀ k ∈ kindNames, ∃ s, kindName k = some s ∧ kindDisplay k = some s ∧ kindOfName s = some k) ∧
    (∀ (s : List Char) (k : Kind), kindOfName s = some k → k ∈ kindNames ∧ kindName k = some s) := by
  refine ⟨table_name_of_kind, ?_⟩
  intro s k h
  exact table_fromStr (s, k) (lookup_some_mem h)

/-- Every value has a kind; values of different variants have different kinds; every kind is the kind of
some value. -/
theorem kind_of_val_bij :
    (∀ v : Val, ∃ k, kindOfVal v = some k ∧ k ∈ kindNames) ∧
    (∀ v w : Val, kindOfVal v = kindOfVal w → v.kindIdx = w.kindIdx) ∧
    (∀ k ∈ kindNames, ∃ v : Val, kindOfVal v = some k) := by
  refine ⟨fun v => table_ofValue.1 _ (ctorName_mem v), ?_, ?_⟩
  · intro v w h
    have hn : v.ctorName = w.ctorName := table_ofValue.2.1 _ (ctorName_mem v) _ (ctorName_mem w) h
    have hinj : ∀ i, i < 18 → ∀ j, j < 18 → ctorNames[i]? = ctorNames[j]? → i = j := by decide
    have hv := ctorNames_get v
    have hw := ctorNames_get w
    rw [hn] at hv
    have hlv : v.kindIdx < 18 := (List.getElem?_eq_some_iff.1 hv).1
    have hlw : w.kindIdx < 18 := (List.getElem?_eq_some_iff.1 hw).1
    exact hinj _ hlv _ hlw (hv.trans hw.symm)
  · intro k hk
    obtain ⟨a, ha, hl⟩ := table_ofValue.2.2 k hk
    obtain ⟨v, rfl⟩ := ctorNames_tight a ha
    exact ⟨v, hl⟩

/-- A typed conversion `T::try_from(&value)` succeeds exactly when the value is of the variant `T` stands for. -/
theorem tryfrom_iff_kind (t : List Char) (v : Val) (ok : Bool) (h : tryFromOk t v = some ok) :
    ok = true ↔ v.ctorName = targetVariant t := by
  unfold tryFromOk at h
  cases hl : lookup3 t Accessors.tryFroms with
  | none => simp [hl] at h
  | some e =>
    obtain ⟨variant, cls⟩ := e
    have hm := table_tryFroms (t, variant, cls) (lookup3_some_mem hl)
    simp only [hl, Option.map_some, Option.some.injEq] at h
    subst h
    simp only [matchesVariant, beq_iff_eq]
    rw [← hm.1]
    exact eq_comm

/-- A typed dict getter answers (`Some` / `true`) exactly when the dict has the key and the value stored
there is of the getter's kind — for every dict and every key. -/
theorem getter_iff_kind (g : List Char) (d : Tags) (key : List Char) (ok : Bool)
    (h : getterOk g d key = some ok) :
    ok = true ↔ ∃ v, d.get? key = some v ∧ v.ctorName = getterVariant g := by
  unfold getterOk at h
  cases hl : lookup3 g Accessors.getters with
  | none => simp [hl] at h
  | some e =>
    obtain ⟨mode, variant⟩ := e
    have hm := table_getters (g, mode, variant) (lookup3_some_mem hl)
    simp only [hl, Option.map_some, Option.some.injEq] at h
    subst h
    cases hg : d.get? key with
    | none => simp
    | some v =>
      simp only [matchesVariant, beq_iff_eq, Option.some.injEq, exists_eq_left']
      rw [← hm.1]
      exact eq_comm

/-! ## grid construction: every list of rows -/

/-- the model's grid components -/
def gridOf (rows : List Tags) : Val := makeFromDicts rows

/-- rows are the records, in order -/
theorem from_dicts_rows (rows : List Tags) :
    ∃ md cols rs ver, makeFromDicts rows = .grid md cols rs ver ∧ rs.toList = rows ∧
      cols.names = gridColumns rows ∧ md = .none ∧ cols.toList = (gridColumns rows).map fun n => (n, OTags.none) :=
  ⟨_, _, _, _, rfl, toList_ofList rows, names_colsOfNames _, rfl, colsOfNames_toList _⟩

theorem from_dicts_with_meta_rows (rows : List Tags) (m : Tags) :
    ∃ cols rs ver, makeFromDictsWithMeta rows m = .grid (.some m) cols rs ver ∧ rs.toList = rows ∧
      cols.names = gridColumns rows :=
  ⟨_, _, _, rfl, toList_ofList rows, names_colsOfNames _⟩

/-- column names are strictly ascending in `String` order, hence without duplicates -/
theorem from_dicts_cols_sorted_nodup (rows : List Tags) :
    (gridColumns rows).Pairwise (fun a b => cmpChars a b = .lt) ∧ (gridColumns rows).Nodup :=
  ⟨asc_sortedUnion _, (asc_sortedUnion _).nodup⟩

/-- the columns are exactly the union of the row keys -/
theorem from_dicts_cols_eq_union (rows : List Tags) (k : List Char) :
    k ∈ gridColumns rows ↔ ∃ r ∈ rows, k ∈ r.keys := by
  rw [gridColumns, mem_sortedUnion, mem_rowKeys]

/-- every key of every row is a column -/
theorem row_keys_subset_cols (rows : List Tags) (r : Tags) (hr : r ∈ rows) (k : List Char) (hk : k ∈ r.keys) :
    k ∈ gridColumns rows :=
  (from_dicts_cols_eq_union rows k).2 ⟨r, hr, hk⟩

/-! ## the property at full strength -/

def C19_full : Prop :=
  -- every value has exactly one kind
  (∀ v : Val, (predBits v).count true = 1) ∧
  (∀ v : Val, (ValueShape.variants.map (·.1))[v.kindIdx]? = some v.ctorName) ∧
  ((∀ v : Val, ∃ k, kindOfVal v = some k ∧ k ∈ kindNames) ∧
    (∀ v w : Val, kindOfVal v = kindOfVal w → v.kindIdx = w.kindIdx) ∧
    (∀ k ∈ kindNames, ∃ v : Val, kindOfVal v = some k)) ∧
  -- kind ↔ code ↔ name one-to-one
  ((∀ k ∈ kindNames, ∃ n, n < 256 ∧ kindCode k = some n ∧ kindOfCode n = some k) ∧
    (∀ n, n < 256 → ∀ k, kindOfCode n = some k → k ∈ kindNames ∧ kindCode k = some n)) ∧
  ((∀ k ∈ kindNames, ∃ s, kindName k = some s ∧ kindDisplay k = some s ∧ kindOfName s = some k) ∧
    (∀ (s : List Char) (k : Kind), kindOfName s = some k → k ∈ kindNames ∧ kindName k = some s)) ∧
  -- typed conversions and getters succeed exactly for the matching kind
  (∀ t v ok, tryFromOk t v = some ok → (ok = true ↔ v.ctorName = targetVariant t)) ∧
  (∀ g d key ok, getterOk g d key = some ok →
    (ok = true ↔ ∃ v, d.get? key = some v ∧ v.ctorName = getterVariant g)) ∧
  -- grid from records
  (∀ rows : List Tags,
    (∃ md cols rs ver, makeFromDicts rows = .grid md cols rs ver ∧ rs.toList = rows ∧
      cols.names = gridColumns rows ∧ md = .none ∧ cols.toList = (gridColumns rows).map fun n => (n, OTags.none)) ∧
    (gridColumns rows).Pairwise (fun a b => cmpChars a b = .lt) ∧ (gridColumns rows).Nodup ∧
    (∀ k, k ∈ gridColumns rows ↔ ∃ r ∈ rows, k ∈ r.keys))

theorem C19_holds : C19_full :=
  ⟨exactly_one_pred, kindIdx_agrees, kind_of_val_bij, kind_code_bij, kind_name_bij,
   tryfrom_iff_kind, getter_iff_kind,
   fun rows => ⟨from_dicts_rows rows, (from_dicts_cols_sorted_nodup rows).1, (from_dicts_cols_sorted_nodup rows).2,
     from_dicts_cols_eq_union rows⟩⟩

/-! ## non-vacuity -/

/-- the tables are not empty and the accessors are defined on them -/
example : tryFromOk (cl! "f64") (sampleOf 5) = some true ∧ tryFromOk (cl! "f64") (sampleOf 6) = some false ∧
    tryFromOk (cl! "Marker") (sampleOf 2) = some true := by decide
example : getterOk (cl! "get_ref") (.cons (cl! "id") (sampleOf 8) .nil) (cl! "id") = some true ∧
    getterOk (cl! "get_ref") (.cons (cl! "id") (sampleOf 6) .nil) (cl! "id") = some false ∧
    getterOk (cl! "has_marker") (.cons (cl! "id") (sampleOf 2) .nil) (cl! "nope") = some false := by decide
example : kindOfCode 4 = some (cl! "Bool") ∧ kindOfCode 3 = some (cl! "Na") ∧ kindOfCode 18 = none ∧
    kindOfVal (sampleOf 3) = some (cl! "Bool") ∧ (sampleOf 3).kindIdx = 3 := by decide
example : kindOfName (cl! "dateTime") = some (cl! "DateTime") ∧ kindOfName (cl! "datetime") = none := by decide
/-- two rows sharing a key, keys out of order across rows -/
example : gridColumns [.cons (cl! "site") .marker (.cons (cl! "dis") .null .nil),
                       .cons (cl! "equip") .marker (.cons (cl! "dis") .na .nil)]
    = [cl! "dis", cl! "equip", cl! "site"] := by decide
example : gridColumns [] = [] := rfl

end Hs.C19
