/-
  C12 — Value equality, hashing and ordering are mutually consistent.

  Statements are about the model `Hs.Model.Cmp` of `PartialEq`/`Hash`/`Ord`/`PartialOrd` for
  `Value`; they quantify over ALL values (any nesting, any size) without NaN.  The model is tied
  to src/haystack/val/*.rs by the correspondence check (`cmp` requests) and by the translated
  variant order of `enum Value` (Hs.Gen.ValueShape, C19).
-/
import Hs.Lemmas.CmpHash
namespace Hs.C12
open Hs

/-- equality is reflexive (so a clone equals its original) -/
theorem eqv_refl (a : Val) (ha : NF a) : a.eqv a = true := by
  rw [eqv_iff_val a a ha ha]
  have h := (ordAt_val a ha).swap a ha
  cases hc : Val.cmp a a <;> rw [hc] at h <;> simp [Ordering.swap] at h ⊢

theorem eqv_symm (a b : Val) (ha : NF a) (hb : NF b) (h : a.eqv b = true) : b.eqv a = true := by
  rw [eqv_iff_val b a hb ha, (ordAt_val a ha).swap b hb, (eqv_iff_val a b ha hb).1 h]; rfl

theorem eqv_trans (a b c : Val) (ha : NF a) (hb : NF b) (hc : NF c)
    (h1 : a.eqv b = true) (h2 : b.eqv c = true) : a.eqv c = true := by
  rw [eqv_iff_val a c ha hc, (ordAt_val a ha).eq_l b c hb hc ((eqv_iff_val a b ha hb).1 h1)]
  exact (eqv_iff_val b c hb hc).1 h2

/-- equal values make the same sequence of writes to any `Hasher` -/
theorem hash_of_eqv (a b : Val) (h : a.eqv b = true) : a.hashSeq = b.hashSeq := hash_val a b h

/-- the total order is antisymmetric: swapping the arguments swaps the answer -/
theorem cmp_antisymm (a b : Val) (ha : NF a) (hb : NF b) : Val.cmp b a = (Val.cmp a b).swap :=
  (ordAt_val a ha).swap b hb

theorem cmp_trans_lt (a b c : Val) (ha : NF a) (hb : NF b) (hc : NF c)
    (h1 : Val.cmp a b = .lt) (h2 : Val.cmp b c = .lt) : Val.cmp a c = .lt :=
  (ordAt_val a ha).lt_lt b c hb hc h1 h2

theorem cmp_trans_gt (a b c : Val) (ha : NF a) (hb : NF b) (hc : NF c)
    (h1 : Val.cmp a b = .gt) (h2 : Val.cmp b c = .gt) : Val.cmp a c = .gt :=
  (ordAt_val a ha).gt_gt b c hb hc h1 h2

/-- `Equal` is a congruence for the order -/
theorem cmp_congr_left (a b c : Val) (ha : NF a) (hb : NF b) (hc : NF c)
    (h : Val.cmp a b = .eq) : Val.cmp a c = Val.cmp b c :=
  (ordAt_val a ha).eq_l b c hb hc h

/-- the total order calls two values equal exactly when equality does -/
theorem cmp_eq_iff_eqv (a b : Val) (ha : NF a) (hb : NF b) : Val.cmp a b = .eq ↔ a.eqv b = true :=
  (eqv_iff_val a b ha hb).symm

/-- whenever the partial order gives an answer it is the total order's answer -/
theorem pcmp_some_eq_cmp (a b : Val) (ha : NF a) (hb : NF b) (o : Ordering)
    (h : Val.pcmp a b = some o) : Val.cmp a b = o := pcmp_val a b ha hb o h

/-- The property at full strength. -/
def C12_full : Prop :=
  ∀ a b c : Val, NF a → NF b → NF c →
    a.eqv a = true ∧ (a.eqv b = true → b.eqv a = true) ∧
    (a.eqv b = true → b.eqv c = true → a.eqv c = true) ∧
    (a.eqv b = true → a.hashSeq = b.hashSeq) ∧
    Val.cmp b a = (Val.cmp a b).swap ∧
    (Val.cmp a b = .lt → Val.cmp b c = .lt → Val.cmp a c = .lt) ∧
    (Val.cmp a b = .eq ↔ a.eqv b = true) ∧
    (∀ o, Val.pcmp a b = some o → Val.cmp a b = o)

theorem C12_holds : C12_full := fun a b c ha hb hc =>
  ⟨eqv_refl a ha, eqv_symm a b ha hb, eqv_trans a b c ha hb hc, hash_of_eqv a b,
   cmp_antisymm a b ha hb, cmp_trans_lt a b c ha hb hc, cmp_eq_iff_eqv a b ha hb,
   pcmp_some_eq_cmp a b ha hb⟩

/-! Non-vacuity: concrete NaN-free values with the near-collisions the property names. -/
def negZero : Val := .num { v := { bits := 2 ^ 63, txt := ['-', '0'] }, unit := none }
def posZero : Val := .num { v := { bits := 0, txt := ['0'] }, unit := none }
def oneM : Val := .num { v := { bits := 0x3FF0000000000000, txt := ['1'] }, unit := some ['m'] }
def oneS : Val := .num { v := { bits := 0x3FF0000000000000, txt := ['1'] }, unit := some ['s'] }
example : NF negZero ∧ NF posZero ∧ negZero.eqv posZero = true ∧ negZero.hashSeq = posZero.hashSeq := by
  decide +kernel
example : NF oneM ∧ NF oneS ∧ oneM.eqv oneS = false ∧ Val.cmp oneM oneS = .lt ∧ Val.pcmp oneM oneS = none := by
  simp [oneM, oneS, NF, Val.nanFree, Val.eqv, Num.eqv, Val.cmp, Val.cmpSame, Val.kindIdx, Num.cmp, Val.pcmp,
    Val.pcmpSame, Num.pcmp, Flt.isNaN, Flt.flt, Flt.feq, Flt.key, cmpOpt, cmpChars, Ordering.then]
  decide
/-- `{a:2,b:1}` vs `{a:1,c:1}`: keys decide, for `cmp` and `partial_cmp` alike -/
def d1 : Val := .dict (.cons ['a'] (.bool true) (.cons ['b'] (.bool false) .nil))
def d2 : Val := .dict (.cons ['a'] (.bool false) (.cons ['c'] (.bool false) .nil))
example : Val.cmp d1 d2 = .lt ∧ Val.pcmp d1 d2 = some .lt := by
  simp [d1, d2, Val.cmp, Val.cmpSame, Val.kindIdx, Tags.cmp, Tags.keys, cmpList, cmpChars,
    Val.pcmp, Val.pcmpSame, Tags.pcmp, Ordering.then]
  decide

end Hs.C12
