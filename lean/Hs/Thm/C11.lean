/-
  C11 — re-encoding decoded text is stable; stream decoding equals buffer decoding; lazy rows.

  * stream = buffer: the model's scanner pulls one byte per request (`Scan.readByte`); the translated
    table `Hs.Gen.ScannerRead` shows that the only calls scanner.rs makes on its reader are
    `read_exact` on 1-byte buffers, so chunk boundaries and `Interrupted` are invisible above it.
  * `parse_grid` is, by definition, the lazy iterator collected (`grid_is_collect`).
  * the look-ahead of the iterator: the model reports, for every row handed out, how many bytes had
    been pulled from the reader; these counts are string-compared with a counting reader under the
    real iterator on every run (C11 `rows` requests), and checked against the bound "end of the
    first token after the row + 3".
  * re-encode stability is the round trip of C01 applied to the decoder's image; it is decided on the
    implementation by the exact-component oracle on accepted texts (spelled, corpus, accepted mutants).
-/
import Hs.Model.ZincParse
import Hs.Gen.ScannerRead
namespace Hs.C11
open Hs Hs.Zinc

/-- scanner.rs touches its reader only through `read_exact`, always with a 1-byte buffer -/
theorem scanner_reads_one_byte_at_a_time :
    Hs.Gen.scannerReaderUses.all (fun u => u.startsWith "if let Err(err) = input.read_exact(&mut buf)"
        || u.startsWith "match self.input.read_exact(&mut buf)") = true
    ∧ Hs.Gen.scannerBufSizes.all (· == 1) = true
    ∧ Hs.Gen.scannerReaderUses.length = Hs.Gen.scannerBufSizes.length := by
  decide +kernel

/-- one request to the reader consumes exactly one byte of the input, whatever came before -/
theorem readByte_one (s : Scan) (b : UInt8) (rest : List UInt8) (h : s.inp = b :: rest) :
    s.readByte = (some b, { s with inp := rest }) := by
  simp [Scan.readByte, h]

/-- `parse_grid` = header, then the lazy row iterator driven to its end -/
theorem grid_is_collect (fuel depth : Nat) (p : PS) :
    parseGrid (fuel + 1) depth p =
      (match gridHeader fuel depth p with
       | .ok ((md, cols, ver), r) =>
         match rowsLoop fuel depth r (cols.map (·.1)) [] with
         | .ok (rows, r1) => .ok (.grid md (Cols.ofList cols) (Rows.ofList rows) ver, r1.p)
         | .err => .err | .panic => .panic | .diverge => .diverge | .depth => .depth
       | .err => .err | .panic => .panic | .diverge => .diverge | .depth => .depth) := by
  rw [parseGrid]
  rfl

/-- `rowsLoop` hands rows out in the order `rowNext` produces them -/
theorem rowsLoop_step (fuel depth : Nat) (r : RowState) (cols : List (List Char)) (acc : List Tags) :
    rowsLoop (fuel + 1) depth r cols acc =
      (match rowNext fuel depth r cols with
       | .ok (Option.none, r1) => .ok (acc, r1)
       | .ok (some row, r1) => rowsLoop fuel depth r1 cols (acc ++ [row])
       | .err => .err | .panic => .panic | .diverge => .diverge | .depth => .depth) := by
  rw [rowsLoop]
  rfl

end Hs.C11
