/-
  C11 — re-encoding decoded text is stable; stream decoding equals buffer decoding; lazy rows.

  * stream = buffer: the model's scanner pulls one byte per request (`Scan.readByte`); the translated
    table `Hs.Gen.ScannerRead` shows that the only calls scanner.rs makes on its reader are
    `read_exact` on 1-byte buffers, so chunk boundaries and `Interrupted` are invisible above it.
  * `parse_grid` is, by definition, the lazy iterator collected (`grid_is_collect`); on the writer's output the rows
    `rowNext` hands out one by one are the rows of the parsed grid, in order (`C11_iterator_rows_eq_grid_rows`).
  * the look-ahead of the iterator: the model reports, for every row handed out, how many bytes had
    been pulled from the reader; these counts are string-compared with a counting reader under the
    real iterator on every run (C11 `rows` requests), and checked against the bound "end of the
    first token after the row + 3".  PROVED here for the writer's own output (`C11_lookahead`, `C11_lookahead_bound`,
    `C11_token_ends`): for every well-formed top-level grid the count is exactly `min (e + 1) |text|`, `e` the end of
    the first token of the line after the row; and for ARBITRARY input the structural half
    (`C11_next_reads_one_token`): after a row's newline a `next()` call skips white space and reads one token
    (two for `>>`).  "Still-arriving grid" (`C11_rows_available_on_prefix`): the writer's text cut one byte after the
    first token of a row line and continued by ANY bytes still yields the rows in front of that line, with the same
    byte counts.
  * re-encode stability is the round trip of C01 applied to the decoder's image; it is decided on the
    implementation by the exact-component oracle on accepted texts (spelled, corpus, accepted mutants).
    PROVED here in the model: on the writer's image (`C11_stable_on_writer_image`: one normalisation pass is a fixed
    point); the IMAGE INVARIANT of the reader for ALL accepted texts (`C11_decoder_image`: ids over their alphabets,
    identifier keys strictly ascending, grid shape, nesting at most 64 — lemma files `Hs/Lemmas/ZincImage*.lean`); from
    it re-encode stability for ALL accepted texts whose value has no Number / Date / Time / DateTime / Coord leaf
    (`C11_stable_struct`), up to an explicit exclusion list (`excluded`: grid `ver` other than "3.0", known finding Z4;
    both needed: `C11_excluded_ver_needed`, `C11_excluded_Z4_needed`) and one shape the proof does not reach
    (nesting exactly 64; a kernel-checked example shows it stable); with Date and Coord leaves outright and with
    Number / Time / DateTime leaves under the hypothesis that each is a lexeme C01 covers (`C11_stable_full_partial`); for every decoded value that passes
    an executable certificate (`C11_stable_partial`, `C11_stable_cert_partial`); the unrestricted statement
    `C11_stable` is false on the pinned tree (`C11_stable_fails_Z4`, `C11_stable_fails_ver`).
-/
import Hs.Model.ZincParse
import Hs.Gen.ScannerRead
import Hs.Thm.C01
import Hs.Thm.C04
import Hs.Lemmas.ZincLazyMain
import Hs.Lemmas.ZincLazyReenc
import Hs.Lemmas.ZincLazyBeq
import Hs.Lemmas.ZincLazyShape
import Hs.Lemmas.ZincLazyAvail
import Hs.Lemmas.ZincImageTop
namespace Hs.C11
open Hs Hs.Zinc Hs.C01

/-- scanner.rs hands its reader 1-byte buffers only, and fills them completely (table from the text of scanner.rs —
every use of `input` is `read_exact(&mut buf)` on a `[u8; 1]` — or, after a rewrite, measured on the real decoder) -/
theorem scanner_reads_one_byte_at_a_time :
    Hs.Gen.scannerBufSizes = [1] ∧ Hs.Gen.scannerReadsExact = true ∧ 0 < Hs.Gen.scannerReadObservations := by
  decide

/-- one request to the reader consumes exactly one byte of the input, whatever came before -/
theorem readByte_one (s : Scan) (b : UInt8) (rest : List UInt8) (h : s.inp = b :: rest) :
    s.readByte = (some b, { s with inp := rest }) := by
  simp [Scan.readByte, h]

/-- `parse_grid` = header, then the lazy row iterator driven to its end -/
theorem grid_is_collect (fuel depth : Nat) (p : PS) :
    parseGrid (fuel + 1) depth p =
      (match gridHeader fuel depth p with
       | .ok ((md, cols, ver), r) =>
         match rowsLoop fuel depth r (cols.map (·.1)) [] with
         | .ok (rows, r1) => .ok (.grid md (Cols.ofList cols) (Rows.ofList rows) ver, r1.p)
         | .err => .err | .panic => .panic | .diverge => .diverge | .depth => .depth
       | .err => .err | .panic => .panic | .diverge => .diverge | .depth => .depth) := by
  rw [parseGrid]
  rfl

/-- `rowsLoop` hands rows out in the order `rowNext` produces them -/
theorem rowsLoop_step (fuel depth : Nat) (r : RowState) (cols : List (List Char)) (acc : List Tags) :
    rowsLoop (fuel + 1) depth r cols acc =
      (match rowNext fuel depth r cols with
       | .ok (Option.none, r1) => .ok (acc, r1)
       | .ok (some row, r1) => rowsLoop fuel depth r1 cols (acc ++ [row])
       | .err => .err | .panic => .panic | .diverge => .diverge | .depth => .depth) := by
  rw [rowsLoop]
  rfl

/-! ## The lazy row iterator on the writer's output: rows, order, look-ahead

Helper lemmas: `Hs/Lemmas/ZincLazy{Tok,Row,Grid,Count,Layout,Main}.lean`, on top of the C01 ladder.
Vocabulary:
* `pulls F D names total n r0` (`ZincLazyCount`) drives `rowNext` from the iterator state `r0` until it reports
  the end (at most `n` calls) and returns every row handed out together with `total - r.p.sc.inp.length` for the
  state `r` returned with that row: the number of bytes pulled from the reader so far.  This is the number the
  driver prints (`Hs.Drv.Zinc.rowsTrace`) and that is string-compared on every run with a counting reader under
  the real `RowIterator`.
* `headerBytes md cols` is the text in front of the first row line; `rowBytes r names single` is the text of a
  row line without its newline; `rowFirstLen r names` is the length of the FIRST TOKEN of that line: the whole
  first cell when it is a scalar, its opening bracket when it is a list / dict / nested grid, the `,` when the
  first cell is missing.
* `tokEnds names single off rows` lists, for every row, the offset (in the whole text) at which the first token of
  the FOLLOWING line ends; the line after the last row is the blank line that ends the grid and its newline is the
  token.  `Layout` (`ZincLazyLayout`, theorem `C11_token_ends`) ties these offsets to the text and to the lexer.
-/

/-- **C11 look-ahead, general form.**  `g` a top-level grid satisfying C01's `wfV`, `t = encode g`, any recursion
depth `D` the reader admits and any fuel `F ≥ 4·|t| + 44`.  `gridHeader` returns the header (meta, columns,
version: the lexical image) and the iterator state `r0`; driving `rowNext` from `r0` hands out exactly the rows of
`lexImage g`, in order, then the end; and when row `i` is handed out the number of bytes pulled from the reader
is `min (e_i + 1) |t|`, where `e_i` is the offset of the end of the first token of the line after row `i`
(`+ 1`: the scanner's current byte; the `min` only matters after the last row, where `e + 1 = |t| + 1`). -/
theorem C11_lookahead_general (md : OTags) (cols : Cols) (rows : Rows) (ver : List Char)
    (hwf : wfV (.grid md cols rows ver) = true) (D F : Nat)
    (hD : D + nestV (.grid md cols rows ver) ≤ 64)
    (hF : 4 * (encode (.grid md cols rows ver)).length + 44 ≤ F) :
    ∃ p0 r0,
      lexRead F (Scan.make (encode (.grid md cols rows ver))) = .ok p0 ∧
      gridHeader F D p0 = .ok ((lexOTags md, (lexCols cols).toList, ver), r0) ∧
      ∀ n, rows.length < n →
        pulls F D cols.names (encode (.grid md cols rows ver)).length n r0 =
          .ok (List.zip (lexRows rows).toList
            ((tokEnds cols.names (cols.length == 1) (headerBytes md cols).length rows).map
              (fun e => min (e + 1) (encode (.grid md cols rows ver)).length))) := by
  obtain ⟨p0, r0, _, e0, eh, hp, _, _⟩ := lazy_of_wf md cols rows ver hwf D F hD hF
  rw [lexOTags_eq, lexCols_eq, lexRows_eq]
  exact ⟨p0, r0, e0, eh, hp⟩

/-- **C11 look-ahead, with the parameters of `parse_grid_iterator` as the driver runs it** (`Hs.Drv.Zinc.rowsTrace`:
depth 0, fuel `fuelFor |t|`, at most `|t| + 3` calls).  The property's sentence "the iterator hands out each row
having consumed the stream no further than the first token after that row" reads here: the `i`-th entry of the
result is (row `i` of `lexImage g`, `min (e_i + 1) |t|`) with `e_i` = `(tokEnds …)[i]` = end of the first token of
the line after row `i`; see `C11_lookahead_bound` for the inequality and `C11_token_ends` for what `e_i` is. -/
theorem C11_lookahead (md : OTags) (cols : Cols) (rows : Rows) (ver : List Char)
    (hwf : wfV (.grid md cols rows ver) = true) (hdep : depthOk (.grid md cols rows ver) = true) :
    ∃ p0 r0,
      lexRead (fuelFor (encode (.grid md cols rows ver)).length) (Scan.make (encode (.grid md cols rows ver))) = .ok p0 ∧
      gridHeader (fuelFor (encode (.grid md cols rows ver)).length) 0 p0
        = .ok ((lexOTags md, (lexCols cols).toList, ver), r0) ∧
      pulls (fuelFor (encode (.grid md cols rows ver)).length) 0 cols.names (encode (.grid md cols rows ver)).length
          ((encode (.grid md cols rows ver)).length + 3) r0 =
        .ok (List.zip (lexRows rows).toList
          ((tokEnds cols.names (cols.length == 1) (headerBytes md cols).length rows).map
            (fun e => min (e + 1) (encode (.grid md cols rows ver)).length))) := by
  have hn : nestV (.grid md cols rows ver) < 64 := by simpa [depthOk] using hdep
  obtain ⟨p0, r0, e0, eh, hp⟩ := C11_lookahead_general md cols rows ver hwf 0
    (fuelFor (encode (.grid md cols rows ver)).length) (by omega) (by unfold fuelFor; omega)
  refine ⟨p0, r0, e0, eh, hp _ ?_⟩
  obtain ⟨n, cm, c, rfl, _, _⟩ := gridOk_of_wf md cols rows ver hwf
  have h1 := rows_length_le (Cols.names (.cons n cm c)) (Cols.length (.cons n cm c) == 1) rows
  have h2 := encode_grid_split md n cm c rows ver
  rw [h2]
  simp only [List.length_append]
  omega

/-- **the bound**: whatever `pulls` reports at position `i` is row `i` of the image together with a byte count
`k ≤ e_i + 1` (and `k ≤ |t|`), `e_i` the end of the first token of the line after row `i` -/
theorem C11_lookahead_bound (md : OTags) (cols : Cols) (rows : Rows) (ver : List Char)
    (hwf : wfV (.grid md cols rows ver) = true) (hdep : depthOk (.grid md cols rows ver) = true) :
    ∃ p0 r0 l,
      lexRead (fuelFor (encode (.grid md cols rows ver)).length) (Scan.make (encode (.grid md cols rows ver))) = .ok p0 ∧
      gridHeader (fuelFor (encode (.grid md cols rows ver)).length) 0 p0
        = .ok ((lexOTags md, (lexCols cols).toList, ver), r0) ∧
      pulls (fuelFor (encode (.grid md cols rows ver)).length) 0 cols.names (encode (.grid md cols rows ver)).length
          ((encode (.grid md cols rows ver)).length + 3) r0 = .ok l ∧
      l.length = rows.length ∧
      ∀ (i : Nat) (row : Tags) (k : Nat), l[i]? = some (row, k) →
        (lexRows rows).toList[i]? = some row ∧
        ∃ e, (tokEnds cols.names (cols.length == 1) (headerBytes md cols).length rows)[i]? = some e ∧
          k ≤ e + 1 ∧ k ≤ (encode (.grid md cols rows ver)).length := by
  obtain ⟨p0, r0, e0, eh, hp⟩ := C11_lookahead md cols rows ver hwf hdep
  refine ⟨p0, r0, _, e0, eh, hp, ?_, ?_⟩
  · rw [List.length_zip, List.length_map, rows_length_tokEnds, lexRows_eq, lexImgR_length]; simp
  · intro i row k hi
    obtain ⟨e, he, hrow, hk⟩ := zip_min_bound _ _ _ i (row, k) hi
    simp only at hrow hk
    exact ⟨hrow, e, he, by rw [hk]; exact Nat.min_le_left _ _, by rw [hk]; exact Nat.min_le_right _ _⟩

/-- **what the offsets are** (`Layout`, unfolded along the rows): at offset `|headerBytes md cols|` of the text the
first row line begins; every row line `rowBytes r …` is followed by its newline and then by the next line; after
the last row comes the blank line `[10]` that ends the text; and ONE `lexRead` by a clean scanner positioned at the
start of a row line leaves the scanner positioned `rowFirstLen r names` bytes further: that prefix of the line is
its first token, as the model's lexer itself delimits it.  `tokEnds` adds exactly these lengths:
`e_i = start of line (i+1) + rowFirstLen r_{i+1} names`, and `e_last = start of the blank line + 1`. -/
theorem C11_token_ends (md : OTags) (cols : Cols) (rows : Rows) (ver : List Char)
    (hwf : wfV (.grid md cols rows ver) = true) (hdep : depthOk (.grid md cols rows ver) = true) :
    Layout (encode (.grid md cols rows ver)) cols.names (cols.length == 1) (headerBytes md cols).length rows := by
  have hn : nestV (.grid md cols rows ver) < 64 := by simpa [depthOk] using hdep
  obtain ⟨_, _, _, _, _, _, _, hl⟩ := lazy_of_wf md cols rows ver hwf 0
    (4 * (encode (.grid md cols rows ver)).length + 44) (by omega) (Nat.le_refl _)
  exact hl

/-! ### `parse_grid` = the collected iterator, on the writer's output -/

/-- **the rows handed out one by one are the rows of the parsed grid, in order.**  From the SAME iterator state
`r0`: calling `rowNext` until the end (`pulls`) hands out the list `l`; collecting the iterator (`rowsLoop`, which
is what `parse_grid` does — `grid_is_collect`) yields the same rows; `parseGrid` builds the grid from them; and
that grid is what `fromBytes` returns for the text (`C01_wf`). -/
theorem C11_iterator_rows_eq_grid_rows (md : OTags) (cols : Cols) (rows : Rows) (ver : List Char)
    (hwf : wfV (.grid md cols rows ver) = true) (hdep : depthOk (.grid md cols rows ver) = true) :
    ∃ p0 r0 r' l,
      lexRead (fuelFor (encode (.grid md cols rows ver)).length) (Scan.make (encode (.grid md cols rows ver))) = .ok p0 ∧
      gridHeader (fuelFor (encode (.grid md cols rows ver)).length) 0 p0
        = .ok ((lexOTags md, (lexCols cols).toList, ver), r0) ∧
      pulls (fuelFor (encode (.grid md cols rows ver)).length) 0 cols.names (encode (.grid md cols rows ver)).length
          ((encode (.grid md cols rows ver)).length + 3) r0 = .ok l ∧
      rowsLoop (fuelFor (encode (.grid md cols rows ver)).length) 0 r0 cols.names [] = .ok (l.map Prod.fst, r') ∧
      parseGrid (fuelFor (encode (.grid md cols rows ver)).length + 1) 0 p0
        = .ok (.grid (lexOTags md) (lexCols cols) (Rows.ofList (l.map Prod.fst)) ver, r'.p) ∧
      fromBytes (encode (.grid md cols rows ver))
        = .ok (.grid (lexOTags md) (lexCols cols) (Rows.ofList (l.map Prod.fst)) ver) := by
  have hn : nestV (.grid md cols rows ver) < 64 := by simpa [depthOk] using hdep
  obtain ⟨p0, r0, r', e0, eh, _, el, _⟩ := lazy_of_wf md cols rows ver hwf 0
    (fuelFor (encode (.grid md cols rows ver)).length) (by omega) (by unfold fuelFor; omega)
  obtain ⟨p0', r0', e0', eh', hp⟩ := C11_lookahead md cols rows ver hwf hdep
  have hp0 : p0' = p0 := by rw [e0] at e0'; cases e0'; rfl
  subst hp0
  have hr0 : r0' = r0 := by
    rw [lexOTags_eq, lexCols_eq, eh] at eh'; cases eh'; rfl
  subst hr0
  have hfst : (List.zip (lexRows rows).toList
      ((tokEnds cols.names (cols.length == 1) (headerBytes md cols).length rows).map
        (fun e => min (e + 1) (encode (.grid md cols rows ver)).length))).map Prod.fst = (lexRows rows).toList := by
    apply List.map_fst_zip
    rw [List.length_map, rows_length_tokEnds, lexRows_eq]; exact Nat.le_refl _
  have hnames : (lexImgC cols).toList.map (·.1) = cols.names := lexImgC_names cols
  refine ⟨p0', r0', r', _, e0, eh', hp, ?_, ?_, ?_⟩
  · rw [hfst, lexRows_eq]; exact el
  · rw [hfst, grid_is_collect, eh]
    simp only [hnames, el, Cols.ofList_toList, Rows.ofList_toList, lexOTags_eq, lexCols_eq, lexRows_eq]
  · rw [hfst, Rows.ofList_toList]
    have := C01_wf (.grid md cols rows ver) ⟨hwf, hdep⟩
    simpa [lexImage] using this

/-! ### rows of a still-arriving grid -/

/-- offset at which the first token of the line of `rn` ends, when the rows `rowsP` precede it -/
def firstTokEnd (md : OTags) (cols : Cols) (rowsP : Rows) (rn : Tags) : Nat :=
  (headerBytes md cols).length + (encRows rowsP cols.names (cols.length == 1)).length + rowFirstLen rn cols.names

/-- **rows are available as soon as they have been received.**  `g` a well-formed top-level grid whose rows are
`rowsP`, then `rn`, then `more`; `e = firstTokEnd …` the end of the first token of the line of `rn`.  Take the first
`e + 1` bytes of the writer's text (`+ 1`: the byte that ends the token) and let ANY bytes follow — nothing (the
stream has not delivered more yet), the rest of the grid, garbage.  The header is parsed and the first
`rowsP.length` calls of `rowNext` hand out exactly the rows `rowsP` (their images), in order, the `j`-th having
pulled exactly `e_j + 1` bytes (`e_j` = end of the first token of the line after row `j`; `pullsN` = the first calls
of the iterator with the count `total - inp.length`, as `pulls`).  The right-hand side does not depend on `junk`:
in particular it is what happens on the complete text (`junk := the rest of it`), so each row is handed out after
exactly the bytes up to the first token after it, whether or not the rest of the grid has arrived and whatever it
will turn out to be. -/
theorem C11_rows_available_on_prefix (md : OTags) (cols : Cols) (rowsP : Rows) (rn : Tags) (more : Rows)
    (ver : List Char) (hwf : wfV (.grid md cols (Rows.app rowsP (.cons rn more)) ver) = true)
    (hdep : depthOk (.grid md cols (Rows.app rowsP (.cons rn more)) ver) = true) (junk : List UInt8) :
    firstTokEnd md cols rowsP rn + 1 ≤ (encode (.grid md cols (Rows.app rowsP (.cons rn more)) ver)).length ∧
    ∃ p0 r0,
      lexRead (fuelFor (firstTokEnd md cols rowsP rn + 1 + junk.length))
        (Scan.make ((encode (.grid md cols (Rows.app rowsP (.cons rn more)) ver)).take
          (firstTokEnd md cols rowsP rn + 1) ++ junk)) = .ok p0 ∧
      gridHeader (fuelFor (firstTokEnd md cols rowsP rn + 1 + junk.length)) 0 p0
        = .ok ((lexOTags md, (lexCols cols).toList, ver), r0) ∧
      pullsN (fuelFor (firstTokEnd md cols rowsP rn + 1 + junk.length)) 0 cols.names
          (firstTokEnd md cols rowsP rn + 1 + junk.length) rowsP.length r0 =
        .ok (List.zip (lexRows rowsP).toList
          ((tokEndsP cols.names (cols.length == 1) rn (headerBytes md cols).length rowsP).map (· + 1))) := by
  have hn : nestV (.grid md cols (Rows.app rowsP (.cons rn more)) ver) < 64 := by simpa [depthOk] using hdep
  obtain ⟨hle, h⟩ := avail_of_wf md cols rowsP rn more ver hwf 0 (by omega)
  refine ⟨hle, ?_⟩
  obtain ⟨p0, r0, e0, eh, hp⟩ := h junk (fuelFor (firstTokEnd md cols rowsP rn + 1 + junk.length))
    (by unfold fuelFor firstTokEnd; omega)
  rw [lexOTags_eq, lexCols_eq, lexRows_eq]
  exact ⟨p0, r0, e0, eh, hp⟩

/-- the cut text has the length the fuel and the count above are computed from -/
theorem C11_cut_length (t junk : List UInt8) (k : Nat) (h : k ≤ t.length) : (t.take k ++ junk).length = k + junk.length := by
  simp [List.length_take, Nat.min_eq_left h]

/-! ### the look-ahead of one `next()` call on ARBITRARY input

No hypothesis on the text: this is the structural half of the property ("`RowIterator::next` parses exactly one row
and reads one token ahead to detect the end of the grid"), for every state the iterator can be in. -/

/-- **any input, any iterator state**: when `rowNext` hands out a row, (1) the row's cells were read up to the row's
newline token (`p2`), (2) the row is the dict of those cells, and (3) all that is read after that newline is: the
white space that follows (`consume_white_spaces`: blank lines are skipped too), and then — unless the input ends
there — exactly ONE token; a second token is read only when the first one is `>` inside a nested grid (`>>`).
The byte bound of `C11_lookahead` is this statement with the positions made explicit, which needs the text to be
known (there: the writer's output, where no white space follows a row's newline). -/
theorem C11_next_reads_one_token (f d : Nat) (r : RowState) (cols : List (List Char)) (row : Tags) (r3 : RowState)
    (h : rowNext (f + 2) d r cols = .ok (some row, r3)) :
    ∃ (r1 : RowState) (kvs : List (List Char × Val)) (p2 : PS) (sc' : Scan),
      consumeEnd (f + 1) r = .ok r1 ∧ rowLoop (f + 1) d r1.p cols 0 [] = .ok (kvs, p2) ∧ p2.isChar 10 = true ∧
      row = dictOf kvs ∧ Scan.consumeWhiteSpaces (f + 1) p2.sc = .ok sc' ∧
      ((sc'.eof = true ∧ r3.p = { p2 with sc := sc' }) ∨
       (sc'.eof = false ∧ ∃ p1, lexRead f sc' = .ok p1 ∧
          (r3.p = p1 ∨
           (r1.nestedStart = true ∧ PS.isChar p1 62 = true ∧ lexRead f p1.sc = .ok r3.p ∧ r3.nestedEnd = true)))) := by
  obtain ⟨r1, kvs, p2, e1, e2, h10, hrow, e3⟩ := rowNext_shape (f + 1) d r cols row r3 h
  obtain ⟨sc', ew, hcase⟩ := consumeEnd_reads f { r1 with p := p2 } r3 h10 e3
  exact ⟨r1, kvs, p2, sc', e1, e2, h10, hrow, ew, hcase⟩

/-! ## Re-encode stability (model side)

In the model a decoded number / coordinate / timestamp IS the text of its token (`lexImage`; what `f64::from_str`
and chrono make of that text, and what they print for the result, is the trusted base the harness validates on
every run with the exact-component oracle `decode (encode (decode t)) = decode t` on accepted texts).  The model's
writer prints numbers and coordinates from their text; for a timestamp it prints `txt`, a space and `zone` unless
`tzid` is "UTC", whereas the reader's timestamp carries the whole token in `txt` and empty `tzid` / `zone`.
`asRead` (`ZincLazyReenc`) marks every timestamp of a decoded value "print the text as read" (`tzid := "UTC"`) and
changes nothing else; on values without timestamps (`noDT`) it is the identity. -/

/-- the writer prints the reader's image of ANY value exactly like the value itself -/
theorem C11_encode_lexImage (v : Val) : encode (asRead (lexImage v)) = encode v := by
  rw [lexImage_eq]; exact enc_image v false

/-- … literally `encode (lexImage v) = encode v` when no timestamp occurs in `v` -/
theorem C11_encode_lexImage_noDT (v : Val) (h : noDT v = true) : encode (lexImage v) = encode v := by
  have := C11_encode_lexImage v
  rwa [lexImage_eq, asRead_noDT v h, ← lexImage_eq] at this

/-- the timestamp caveat is a property of the MODEL's lexical timestamps, not of the code: without `asRead` the
model's writer appends the (empty) zone name after a space -/
theorem C11_lexical_timestamp_needs_asRead :
    encode (lexImage (.dateTime ⟨0, 0, 0, "UTC".toList, "UTC".toList, "2024-02-29T12:34:56Z".toList⟩))
      = encode (.dateTime ⟨0, 0, 0, "UTC".toList, "UTC".toList, "2024-02-29T12:34:56Z".toList⟩) ++ [32] := by
  decide +kernel

/-- **one normalisation pass is a fixed point, on the writer's image**: for every well-formed `v`, the value the
reader returns for the writer's text (`lexImage v`, by `C01_wf`) re-encodes to a text that decodes to itself -/
theorem C11_stable_on_writer_image (v : Val) (h : wfV v = true ∧ depthOk v = true) :
    fromBytes (encode v) = .ok (lexImage v) ∧
    fromBytes (encode (asRead (lexImage v))) = .ok (lexImage v) := by
  refine ⟨C01_wf v h, ?_⟩
  rw [C11_encode_lexImage]; exact C01_wf v h

/-- **whatever spelling arrived, one normalisation pass reaches a fixed point** - for EVERY sentence of the Zinc
grammar (`Hs.Spell.SpellsTop`, the relation of C04: any blanks, LF/CRLF/CR, any escapes, trailing commas, tag
separators, `:M`, grid layout) that denotes a well-formed value: the text is accepted, and encoding the decoded
value and decoding again yields the decoded value.  (`wfV` fixes the numerals to the writer's spelling: what a
non-canonical numeral such as `1_000.5e+3` re-encodes to is a question about `f64`'s printer, decided on the
implementation; every other freedom of the grammar is covered.) -/
theorem C11_stable_on_sentences (v : Val) (bs : List UInt8) (hwf : wfV v = true) (hd : depthOk v = true)
    (hs : Hs.Spell.SpellsTop v bs) :
    ∃ w, fromBytes bs = .ok w ∧ fromBytes (encode (asRead w)) = .ok w :=
  ⟨lexImage v, Hs.C04.C04_read_wfV v bs hwf hd hs, (C11_stable_on_writer_image v ⟨hwf, hd⟩).2⟩

/-- non-vacuity: a grid document written with lone CRs, a tab and a blank before line endings, blank lines at
the end (`Hs.C04.exOuterB`, not the writer's spelling) is such a sentence of a well-formed value -/
example : ∃ w, fromBytes Hs.C04.exOuterB = .ok w ∧ fromBytes (encode (asRead w)) = .ok w :=
  C11_stable_on_sentences Hs.C04.exOuterG Hs.C04.exOuterB (by decide +kernel) (by decide +kernel) Hs.C04.exOuter_sp

theorem C11_stable_on_writer_image_noDT (v : Val) (h : wfV v = true ∧ depthOk v = true) (hdt : noDT v = true) :
    fromBytes (encode (lexImage v)) = .ok (lexImage v) := by
  rw [C11_encode_lexImage_noDT v hdt]; exact C01_wf v h

/-- Re-encode stability for the decoder's values that satisfy `P`: for any text the decoder accepts, encoding the
decoded value and decoding again yields the same value -/
def C11_stable_on (P : Val → Prop) : Prop :=
  ∀ (t : List UInt8) (v : Val), fromBytes t = .ok v → P v → fromBytes (encode (asRead v)) = .ok v

/-- **the property at full strength (model side)**: all accepted texts.  FALSE on the pinned tree: known finding
Z4, `C11_stable_fails_Z4`.  (Known finding INFUNIT — `1e999kW` overflows to an infinity that keeps its unit, the
writer prints `INF` without one — is NOT visible in this statement: a decoded number is lexical in the model, its
value under `f64::from_str` belongs to the trusted base; that finding is decided on the implementation only.) -/
def C11_stable : Prop := C11_stable_on (fun _ => True)

/-- PARTIAL: stability for every decoded value that is well-formed (`wfV`, `depthOk`) and lexical (a fixed point of
the reader's image).  These three facts are the reader's IMAGE INVARIANT; `C11_stable_full_partial` below derives
them for ALL accepted texts from the analysis of the lexer and parser on arbitrary input (`C11_decoder_image`: ids
come from the id alphabets, `dictOf` yields ascending keys, the header parser yields identifier column names and
non-empty metas, rows carry only column names, the depth counter bounds the nesting), leaving as hypotheses only
(a) the exclusion list on which the statement is false (Z4, `ver`), (b) the lexical leaves (number / time /
timestamp lexemes must be ones C01 covers; dates and coordinates always are) and (c) one shape C01's round trip does not cover
(nesting exactly 64).  On the implementation the statement is decided for accepted texts
(spelled, corpus, accepted mutants) by the exact-component oracle on every run. -/
theorem C11_stable_partial :
    C11_stable_on (fun v => wfV (asRead v) = true ∧ depthOk (asRead v) = true ∧ lexImage (asRead v) = v) := by
  intro t v _ ⟨hwf, hd, hlex⟩
  have := C01_wf (asRead v) ⟨hwf, hd⟩
  rwa [hlex] at this

/-- the three hypotheses of `C11_stable_partial` as one executable test on a decoded value: a certificate that can
be evaluated (in the kernel, or by the driver) for every accepted text of a run -/
def stableCert (v : Val) : Bool :=
  wfV (asRead v) && depthOk (asRead v) && beqV (lexImage (asRead v)) v

/-- PARTIAL (same gap as `C11_stable_partial`): a decoded value that passes the executable certificate is stable -/
theorem C11_stable_cert_partial : C11_stable_on (fun v => stableCert v = true) := by
  intro t v ht hc
  simp only [stableCert, Bool.and_eq_true] at hc
  exact C11_stable_partial t v ht ⟨hc.1.1, hc.1.2, beqV_sound _ _ hc.2⟩

/-- values built from the kinds on which the reader and the writer impose no condition: Null, Remove, Marker, NA,
Bool, Str (any text), Uri (any text), and lists of such -/
def plainV : Val → Bool
  | .null => true | .remove => true | .marker => true | .na => true | .bool _ => true
  | .str _ => true | .uri _ => true
  | .list xs => plainVs xs
  | _ => false
where plainVs : Vals → Bool
  | .nil => true
  | .cons v vs => plainV v && plainVs vs

mutual
theorem plain_facts : ∀ v : Val, plainV v = true → wfV v = true ∧ asRead v = v ∧ lexImg v = v
  | .null, _ => ⟨rfl, rfl, rfl⟩
  | .remove, _ => ⟨rfl, rfl, rfl⟩
  | .marker, _ => ⟨rfl, rfl, rfl⟩
  | .na, _ => ⟨rfl, rfl, rfl⟩
  | .bool _, _ => ⟨rfl, rfl, rfl⟩
  | .str _, _ => ⟨rfl, rfl, rfl⟩
  | .uri _, _ => ⟨rfl, rfl, rfl⟩
  | .list xs, h => by
    simp only [plainV] at h
    obtain ⟨h1, h2, h3⟩ := plains_facts xs h
    exact ⟨by simpa [wfV] using h1, by simp [asRead, h2], by simp [lexImg, h3]⟩
  | .num _, h | .ref _ _, h | .sym _, h | .date _, h | .time _, h | .dateTime _, h | .coord _ _, h
  | .xstr _ _, h | .dict _, h | .grid _ _ _ _, h => by simp [plainV] at h
theorem plains_facts : ∀ xs : Vals, plainV.plainVs xs = true → wfVs xs = true ∧ asReads xs = xs ∧ lexImgs xs = xs
  | .nil, _ => ⟨rfl, rfl, rfl⟩
  | .cons v vs, h => by
    simp only [plainV.plainVs, Bool.and_eq_true] at h
    obtain ⟨a1, a2, a3⟩ := plain_facts v h.1
    obtain ⟨b1, b2, b3⟩ := plains_facts vs h.2
    exact ⟨by simp [wfVs, a1, b1], by simp [asReads, a2, b2], by simp [lexImgs, a3, b3]⟩
end

/-- PARTIAL: re-encode stability for ALL accepted texts whose value is plain (no hypothesis on the text or on the
payloads: any Str, any Uri, nested lists up to the reader's depth limit).  Superseded by `C11_stable_struct`, which
adds Ref, Symbol, XStr, Dict and Grid. -/
theorem C11_stable_plain_partial : C11_stable_on (fun v => plainV v = true ∧ depthOk v = true) := by
  intro t v _ ⟨hp, hd⟩
  obtain ⟨hwf, ha, hl⟩ := plain_facts v hp
  rw [ha]
  have := C01_wf v ⟨hwf, hd⟩
  rwa [lexImage_eq, hl] at this

/-! ### known finding Z4: the unrestricted statement is false on the pinned tree -/

/-- `ver:"3.0"`, one column `a`, one row line `,` (no cell), blank line -/
def z4Text : List UInt8 := bytesOfAscii "ver:\"3.0\"\na\n,\n\n"
/-- what the reader returns for it: a row without its cell -/
def z4Val : Val := .grid .none (.cons ['a'] .none .nil) (.cons .nil .nil) ['3', '.', '0']
/-- what comes back after one re-encode: the missing cell of a single-column grid is written `N` -/
def z4Val' : Val := .grid .none (.cons ['a'] .none .nil) (.cons (.cons ['a'] .null .nil) .nil) ['3', '.', '0']

theorem z4_accepted : fromBytes z4Text = .ok z4Val := isOkEq_sound (by decide +kernel)
theorem z4_reencoded : encode (asRead z4Val) = bytesOfAscii "ver:\"3.0\"\na\nN\n\n" := by decide +kernel
theorem z4_redecoded : fromBytes (encode (asRead z4Val)) = .ok z4Val' := isOkEq_sound (by decide +kernel)

/-- **Z4 is a counterexample to the unrestricted statement** (kernel-checked witness) -/
theorem C11_stable_fails_Z4 : ¬ C11_stable := by
  intro h
  have h1 := h z4Text z4Val z4_accepted trivial
  rw [z4_redecoded] at h1
  simp [z4Val, z4Val'] at h1


/-! ### the reader's image invariant and what follows from it, for ALL accepted texts

Lemma files `Hs/Lemmas/ZincImage{Ids,Lex,Dict,Base,Wf,Parse1,Parse2,Top}.lean`.  No hypothesis on the text anywhere:
the lexer lemmas speak about what `parse_literal`, `parse_id`, the Ref / Symbol readers and `Lexer::read` RETURN on
any scanner state, the parser lemmas are one induction on the fuel over the twelve functions of the mutual block. -/

/-- **the image invariant of the Zinc reader.**  Whatever the bytes, when `decode::from_str` accepts them the value
has the reader's shape `decV`: Ref ids non-empty over the id alphabet, Symbol bodies a lower-case letter followed
by id characters, XStr types capitalised names other than `C`; dict, meta and row keys strictly ascending (`dictOf` =
`BTreeMap`, also when a key is repeated in the text); dict / meta keys and column names identifiers; every grid has
at least one column, grid and column meta absent or NON-empty, row keys among the column names; numbers,
coordinates and timestamps in the reader's lexical normal form, dates and coordinate components lexemes that re-lex
to themselves (`dateOk`, `decTextOk`); and the value is nested at most 64 deep (`nestV`
counts a tag as a level even when its value is the implicit Marker, read without a recursive call: 64 is reached
only by such a tag at the reader's depth limit, see `deep64_*`). -/
theorem C11_decoder_image (t : List UInt8) (v : Val) (h : fromBytes t = .ok v) : decV v = true ∧ nestV v ≤ 64 :=
  fromBytes_image t v h

/-- PARTIAL: **re-encode stability for ALL accepted texts, every kind**, under
* `lexLeavesOk v` — each Number / Time / DateTime leaf of the decoded value is a lexeme the round trip of C01 covers
  (`numOk`, `timeOk`, `dtOk`: a decidable test on the value, evaluated by the certificate of every run).  This is
  where the model stops: a decoded number is the text handed to `f64::from_str` and what `Display` prints for the
  result belongs to std; the lexemes NOT covered are the legal but non-canonical ones (`5e+3`, which the model's
  writer would print back verbatim while the real one prints `5000`).  Date and Coord leaves need NO hypothesis: every
  date and every coordinate the reader returns is a covered lexeme (`parseDate_img`, `parseDecimal_img`; part of
  `decV`);
* `excluded v = false` — the exclusion list: the statement is FALSE on these (`C11_excluded_ver_needed`,
  `C11_excluded_Z4_needed`);
* `depthOk v = true` (`nestV v < 64`) — NOT a counterexample (`deep64_stable` below): the reader guarantees
  `nestV v ≤ 64` (`C11_decoder_image`), and 64 is reached only by a tag with the implicit Marker at the reader's depth
  limit, which lies outside the depth hypothesis of C01's round trip, through which this proof goes.
Everything else is PROVED from `fromBytes t = .ok v` alone (`C11_decoder_image`, `image_good`, and C01's ladder
repeated for grids that name a column twice: the reader keeps both columns, `ZincImageDup*`, `dup_stable`). -/
theorem C11_stable_full_partial :
    C11_stable_on (fun v => lexLeavesOk v = true ∧ excluded v = false ∧ depthOk v = true) := by
  intro t v ht ⟨hl, hx, hn⟩
  exact fromBytes_stable t v ht hl hx hn

/-- **re-encode stability for ALL accepted texts whose value has no lexical leaf** (`structV`: built from Null,
Remove, Marker, NA, Bool, Str, Uri, Ref with or without display name, Symbol, XStr, List, Dict, Grid with meta /
column meta / Null and missing cells / nested grids / repeated column names): encoding the decoded value and
decoding again yields the decoded value, unless the value is on the exclusion list (`excluded`: a grid `ver` other
than "3.0", Z4) or is nested exactly 64 deep (see `C11_stable_full_partial` for the status of the latter). -/
theorem C11_stable_struct :
    C11_stable_on (fun v => structV v = true ∧ excluded v = false ∧ depthOk v = true) := by
  intro t v ht ⟨hs, hx, hn⟩
  exact C11_stable_full_partial t v ht ⟨lexLeaves_of_struct v hs, hx, hn⟩

/-! #### the exclusion list is sharp: one kernel-checked witness text per member -/

/-- `ver` ≠ "3.0": the FORMAT VERSION of the document, not a component of the value in the property's sense (the
property's list of components — kind, payloads, elements, tags, grid meta tags, columns, rows — does not name it, the
round-trip oracle `same.rs` deliberately does not compare it, C01 / C02 carry `ver = "3.0"` as a stated hypothesis).
The reader keeps whatever string follows `ver:` (`Grid::ver`), the writer always writes 3.0.  The model's `Val`
does carry `ver`, so the LITERAL statement `fromBytes (encode (asRead v)) = .ok v` needs the exclusion: this is the
kernel-checked witness (`ver:"2.0"`, one column, no row). -/
def verText : List UInt8 := bytesOfAscii "ver:\"2.0\"\na\n\n"
def verVal : Val := .grid .none (.cons ['a'] .none .nil) .nil ['2', '.', '0']
def verVal' : Val := .grid .none (.cons ['a'] .none .nil) .nil ['3', '.', '0']

theorem ver_accepted : fromBytes verText = .ok verVal := isOkEq_sound (by decide +kernel)
theorem ver_reencoded : encode (asRead verVal) = bytesOfAscii "ver:\"3.0\"\na\n\n" := by decide +kernel
theorem ver_redecoded : fromBytes (encode (asRead verVal)) = .ok verVal' := isOkEq_sound (by decide +kernel)

/-- **`ver` must be on the list**: without it the literal statement is false (all other hypotheses hold of the
witness); not a defect of the code, see `verText` -/
theorem C11_excluded_ver_needed :
    ¬ C11_stable_on (fun v => structV v = true ∧ hasZ4 v = false ∧ depthOk v = true) := by
  intro h
  have h1 := h verText verVal ver_accepted (by decide +kernel)
  rw [ver_redecoded] at h1
  simp [verVal, verVal'] at h1

/-- the literal unrestricted statement also fails on the format version alone (see `verText`: not a finding) -/
theorem C11_stable_fails_ver : ¬ C11_stable := by
  intro h
  have h1 := h verText verVal ver_accepted trivial
  rw [ver_redecoded] at h1
  simp [verVal, verVal'] at h1

/-- **Z4 must be on the list** (witness `z4Text` above) -/
theorem C11_excluded_Z4_needed :
    ¬ C11_stable_on (fun v => structV v = true ∧ hasVer v = false ∧ depthOk v = true) := by
  intro h
  have h1 := h z4Text z4Val z4_accepted (by decide +kernel)
  rw [z4_redecoded] at h1
  simp [z4Val, z4Val'] at h1

example : excluded verVal = true ∧ hasZ4 verVal = false := by decide +kernel
example : excluded z4Val = true ∧ hasVer z4Val = false := by decide +kernel

/-! #### repeated column names are covered; the one shape outside C01's hypotheses is NOT a counterexample -/

/-- two columns `a`: the reader keeps both, a row gets ONE cell `a` (the last one read); re-encoded, that cell is
written under both columns and read back as the same row -/
def dupText : List UInt8 := bytesOfAscii "ver:\"3.0\"\na,a,b\n\"x\",,\"z\"\n,\"y\",\n\n"
def dupVal : Val :=
  .grid .none (.cons ['a'] .none (.cons ['a'] .none (.cons ['b'] .none .nil)))
    (.cons (.cons ['a'] (.str ['x']) (.cons ['b'] (.str ['z']) .nil)) (.cons (.cons ['a'] (.str ['y']) .nil) .nil))
    ['3', '.', '0']
theorem dup_accepted : fromBytes dupText = .ok dupVal := isOkEq_sound (by decide +kernel)
theorem dup_is_dup : dupCols dupVal = true ∧ structV dupVal = true ∧ excluded dupVal = false ∧ depthOk dupVal = true := by
  decide +kernel
/-- by the theorem (no evaluation of the second decode) … -/
theorem dup_stable : fromBytes (encode (asRead dupVal)) = .ok dupVal :=
  C11_stable_struct dupText dupVal dup_accepted ⟨dup_is_dup.2.1, dup_is_dup.2.2.1, dup_is_dup.2.2.2⟩
/-- … and by running the model -/
example : fromBytes (encode (asRead dupVal)) = .ok dupVal := isOkEq_sound (by decide +kernel)

/-- 63 lists around a dict with one Marker tag: accepted (the tag's implicit Marker needs no recursive call),
`nestV = 64`, and stable -/
def deep64 : Nat → Val
  | 0 => .dict (.cons ['a'] .marker .nil)
  | n + 1 => .list (.cons (deep64 n) .nil)
theorem deep64_nest : nestV (deep64 63) = 64 ∧ depthOk (deep64 63) = false := by decide +kernel
theorem deep64_accepted :
    fromBytes (List.replicate 63 91 ++ bytesOfAscii "{a}" ++ List.replicate 63 93) = .ok (deep64 63) :=
  isOkEq_sound (by decide +kernel)
theorem deep64_stable : fromBytes (encode (asRead (deep64 63))) = .ok (deep64 63) := isOkEq_sound (by decide +kernel)

/-! ## The hypotheses are satisfiable: concrete non-trivial inputs -/

section examples

def exMd : OTags := .some (.cons "dis".toList (.str "Site é".toList) (.cons "hisRef".toList (.ref "h".toList none)
  (.cons "m".toList .marker .nil)))
def exCols : Cols :=
  .cons "a".toList (.some (.cons "dis".toList (.str "A".toList) (.cons "unitRef".toList (.ref "u".toList none) .nil)))
    (.cons "b".toList .none (.cons "c".toList (.some (.cons "x".toList .marker .nil)) .nil))
/-- first cells: a nested grid (first token `<`), a Ref with display name (first token `@r "Room 1"`, a space
inside), a missing cell (first token `,`), a timestamp with zone name, an empty row -/
def exRows : Rows :=
  .cons (.cons "a".toList exInner (.cons "c".toList
      (.list (.cons (.dict (.cons "k".toList (.uri "http://x/`".toList) .nil)) (.cons (.coord ⟨0, "-1.5".toList⟩ ⟨0, "3".toList⟩)
        (.cons (.xstr "Bin".toList "a\"b".toList) .nil)))) .nil))
  (.cons (.cons "a".toList (.ref "r".toList (some "Room 1".toList)) (.cons "b".toList exNum .nil))
  (.cons (.cons "b".toList .na .nil)
  (.cons (.cons "a".toList (.dateTime ⟨0, 0, -18000, "New_York".toList, "America/New_York".toList,
      "2024-02-29T12:34:56.789-05:00".toList⟩) (.cons "c".toList (.str "x,\ny".toList) .nil))
  (.cons .nil .nil))))
def exVer : List Char := "3.0".toList
def exG : Val := .grid exMd exCols exRows exVer

/-- the text: 293 bytes, header 63 bytes -/
example : (encode exG).length = 293 ∧ (headerBytes exMd exCols).length = 63 := by decide +kernel

theorem exG_wf : wfV exG = true ∧ depthOk exG = true := by decide +kernel
example : 1 + nestV exG ≤ 64 := by decide +kernel

/-- `C11_lookahead` on the example … -/
example := C11_lookahead exMd exCols exRows exVer exG_wf.1 exG_wf.2
example := C11_lookahead_general exMd exCols exRows exVer exG_wf.1 1 5000 (by decide +kernel) (by decide +kernel)
example := C11_lookahead_bound exMd exCols exRows exVer exG_wf.1 exG_wf.2
example := C11_token_ends exMd exCols exRows exVer exG_wf.1 exG_wf.2
example := C11_iterator_rows_eq_grid_rows exMd exCols exRows exVer exG_wf.1 exG_wf.2

/-- … the ends of the first tokens of the lines after rows 0‥4, … -/
example : tokEnds exCols.names (exCols.length == 1) (headerBytes exMd exCols).length exRows
    = [226, 237, 279, 290, 293] := by decide +kernel
/-- … and the byte counts the theorem gives (the last one is capped by the length of the text) -/
example : (tokEnds exCols.names (exCols.length == 1) (headerBytes exMd exCols).length exRows).map
    (fun e => min (e + 1) (encode exG).length) = [227, 238, 280, 291, 293] := by decide +kernel

/-- the same numbers by running the model's iterator on the text in the kernel (no theorem involved) -/
example :
    (match lexRead (fuelFor (encode exG).length) (Scan.make (encode exG)) with
     | .ok p0 =>
       match gridHeader (fuelFor (encode exG).length) 0 p0 with
       | .ok (_, r0) =>
         match pulls (fuelFor (encode exG).length) 0 exCols.names (encode exG).length ((encode exG).length + 3) r0 with
         | .ok l => l.map Prod.snd
         | _ => []
       | _ => []
     | _ => []) = [227, 238, 280, 291, 293] := by decide +kernel

/-- `C11_rows_available_on_prefix`: the example grid split after its second row; the text is cut one byte after
the first token (`,`) of the third line and continued by an unterminated string … -/
def exP : Rows := .cons (.cons "a".toList exInner (.cons "c".toList
      (.list (.cons (.dict (.cons "k".toList (.uri "http://x/`".toList) .nil)) (.cons (.coord ⟨0, "-1.5".toList⟩ ⟨0, "3".toList⟩)
        (.cons (.xstr "Bin".toList "a\"b".toList) .nil)))) .nil))
  (.cons (.cons "a".toList (.ref "r".toList (some "Room 1".toList)) (.cons "b".toList exNum .nil)) .nil)
def exN : Tags := .cons "b".toList .na .nil
def exMore : Rows :=
  .cons (.cons "a".toList (.dateTime ⟨0, 0, -18000, "New_York".toList, "America/New_York".toList,
      "2024-02-29T12:34:56.789-05:00".toList⟩) (.cons "c".toList (.str "x,\ny".toList) .nil))
  (.cons .nil .nil)
example : Rows.app exP (.cons exN exMore) = exRows := rfl
def exJunk : List UInt8 := "\"never closed".toUTF8.toList
example := C11_rows_available_on_prefix exMd exCols exP exN exMore exVer exG_wf.1 exG_wf.2 exJunk
example : firstTokEnd exMd exCols exP exN = 237 ∧
    (tokEndsP exCols.names (exCols.length == 1) exN (headerBytes exMd exCols).length exP).map (· + 1) = [227, 238] := by
  decide +kernel
/-- … the same by running the model on the cut text in the kernel: two rows after 227 and 238 bytes (the third
call then fails on the unterminated string: that row has not arrived) -/
example :
    (match lexRead (fuelFor (238 + exJunk.length)) (Scan.make ((encode exG).take 238 ++ exJunk)) with
     | .ok p0 =>
       match gridHeader (fuelFor (238 + exJunk.length)) 0 p0 with
       | .ok (_, r0) =>
         match pullsN (fuelFor (238 + exJunk.length)) 0 exCols.names (238 + exJunk.length) 2 r0 with
         | .ok l => l.map Prod.snd
         | _ => []
       | _ => []
     | _ => []) = [227, 238] := by decide +kernel

/-- re-encode stability on the writer's image of the example (it contains timestamps: `asRead`) … -/
example := C11_stable_on_writer_image exG exG_wf
/-- … and without `asRead` on a grid without timestamps -/
example : noDT exInner = false := by decide +kernel
example : noDT exZeroRows = true := by decide +kernel
example := C11_stable_on_writer_image_noDT exZeroRows (by decide +kernel) (by decide +kernel)
example := C11_encode_lexImage_noDT exZeroRows (by decide +kernel)

/-- `C11_stable_partial` on a text that is NOT writer output (spaces around separators, a trailing comma in a
list, `Z UTC`, a number with a trailing zero): the decoded value satisfies the three hypotheses -/
def exSpelled : List UInt8 :=
  "ver:\"3.0\"   dis:\"x\" m\nid , n,t\n@a \"A\" , 1.50kW ,  [1, 2 ,T,]\n  ,2024-02-29T12:34:56Z UTC,`u`\n\n".toUTF8.toList
def exSpelledVal : Val :=
  match fromBytes exSpelled with
  | .ok v => v
  | _ => .null
example : (fromBytes exSpelled).isOk = true := by decide +kernel
theorem exSpelled_ok : fromBytes exSpelled = .ok exSpelledVal := by
  have h : (fromBytes exSpelled).isOk = true := by decide +kernel
  unfold exSpelledVal
  cases hx : fromBytes exSpelled <;> simp_all [Res.isOk]
example : wfV (asRead exSpelledVal) = true ∧ depthOk (asRead exSpelledVal) = true := by decide +kernel
example : lexImage (asRead exSpelledVal) = exSpelledVal := beqV_sound _ _ (by decide +kernel)
example : fromBytes (encode (asRead exSpelledVal)) = .ok exSpelledVal :=
  C11_stable_partial exSpelled exSpelledVal exSpelled_ok
    ⟨by decide +kernel, by decide +kernel, beqV_sound _ _ (by decide +kernel)⟩

example : fromBytes (encode (asRead exSpelledVal)) = .ok exSpelledVal :=
  C11_stable_cert_partial exSpelled exSpelledVal exSpelled_ok (by decide +kernel)

/-- `C11_next_reads_one_token` on a text that is not writer output: spaces around the comma, a blank line and a
line of spaces between the rows (skipped by `consume_end`), no blank line at the end -/
def exLoose : List UInt8 := "ver:\"3.0\"\na,b\n1 , 2\n\n  \n3,4\n".toUTF8.toList
theorem exLoose_next : ∃ r row r3, rowNext (398 + 2) 0 r [['a'], ['b']] = .ok (some row, r3) := by
  have hdec : (match lexRead 400 (Scan.make exLoose) with
     | .ok p0 =>
       match gridHeader 400 0 p0 with
       | .ok (_, r0) =>
         match rowNext (398 + 2) 0 r0 [['a'], ['b']] with
         | .ok (some _, r1) =>
           (match rowNext (398 + 2) 0 r1 [['a'], ['b']] with
            | .ok (some _, _) => true
            | _ => false)
         | _ => false
       | _ => false
     | _ => false) = true := by decide +kernel
  cases h1 : lexRead 400 (Scan.make exLoose) with
  | ok p0 =>
    rw [h1] at hdec
    simp only at hdec
    cases h2 : gridHeader 400 0 p0 with
    | ok x =>
      obtain ⟨hd, r0⟩ := x
      rw [h2] at hdec
      simp only at hdec
      cases h3 : rowNext (398 + 2) 0 r0 [['a'], ['b']] with
      | ok y =>
        obtain ⟨o, r1⟩ := y
        cases o with
        | some row => exact ⟨r0, row, r1, h3⟩
        | none => rw [h3] at hdec; simp at hdec
      | err => rw [h3] at hdec; simp at hdec
      | panic => rw [h3] at hdec; simp at hdec
      | diverge => rw [h3] at hdec; simp at hdec
      | depth => rw [h3] at hdec; simp at hdec
    | err => rw [h2] at hdec; simp at hdec
    | panic => rw [h2] at hdec; simp at hdec
    | diverge => rw [h2] at hdec; simp at hdec
    | depth => rw [h2] at hdec; simp at hdec
  | err => rw [h1] at hdec; simp at hdec
  | panic => rw [h1] at hdec; simp at hdec
  | diverge => rw [h1] at hdec; simp at hdec
  | depth => rw [h1] at hdec; simp at hdec
example : True := by
  obtain ⟨r, row, r3, h⟩ := exLoose_next
  have := C11_next_reads_one_token 398 0 r [['a'], ['b']] row r3 h
  trivial

/-- `C11_stable_plain_partial`: a list with a Str containing every kind of escape and a Uri with a backquote,
written with extra spaces and a trailing comma -/
def exPlainText : List UInt8 := "[ \"a\\t\\\"\\\\\\$\\u00e9\" , `http://x/\\`y`,[N,T, ],M ,]".toUTF8.toList
def exPlainVal : Val :=
  .list (.cons (.str "a\t\"\\$é".toList) (.cons (.uri "http://x/`y".toList)
    (.cons (.list (.cons .null (.cons (.bool true) .nil))) (.cons .marker .nil))))
theorem exPlain_ok : fromBytes exPlainText = .ok exPlainVal := isOkEq_sound (by decide +kernel)
example : fromBytes (encode (asRead exPlainVal)) = .ok exPlainVal :=
  C11_stable_plain_partial exPlainText exPlainVal exPlain_ok ⟨by decide +kernel, by decide +kernel⟩

/-- `C11_stable_struct` on a text that is NOT writer output: two blanks between the header tags, a `\u00e9` and a
`\u0031` escape, blanks around commas, a Ref with display name, a list with a trailing comma, a dict with its tags
out of order and separated by blanks and commas, a nested grid with column meta, a Symbol and an XStr in it, a missing
and a Null cell, a row indented by a blank, an empty list, a missing last cell, no blank line at the end -/
def exStructText : List UInt8 :=
  "ver:\"3.0\"  dis:\"Caf\\u00e9\"  site\nid  dis:\"Id\" ,  tags foo bar:`u` , g\n@a-1 \"Room \\u0031\" , [ \"x\" , M ,{ b , a:T } , ] , <<\nver:\"3.0\"\nk  doc:\"K\" x,w\n^sym, Bin(\"q\")\n,N\n>>\n @b  , [], \n".toUTF8.toList
def exStructVal : Val :=
  match fromBytes exStructText with
  | .ok v => v
  | _ => .null
theorem exStruct_ok : fromBytes exStructText = .ok exStructVal := by
  have h : (fromBytes exStructText).isOk = true := by decide +kernel
  unfold exStructVal
  cases hx : fromBytes exStructText <;> simp_all [Res.isOk]
/-- the text is not what the writer prints for its value -/
example : (encode (asRead exStructVal) == exStructText) = false := by decide +kernel
example : structV exStructVal = true ∧ excluded exStructVal = false ∧ depthOk exStructVal = true := by decide +kernel
example : fromBytes (encode (asRead exStructVal)) = .ok exStructVal :=
  C11_stable_struct exStructText exStructVal exStruct_ok (by decide +kernel)
/-- `C11_decoder_image` on the same text and on `exSpelled` (numbers, a timestamp) -/
example := C11_decoder_image exStructText exStructVal exStruct_ok
example := C11_decoder_image exSpelled exSpelledVal exSpelled_ok
/-- `C11_stable_full_partial` on `exSpelled`: its lexical leaves (`1.50kW`, `1`, `2`, `2024-02-29T12:34:56Z UTC`) are
covered -/
example : fromBytes (encode (asRead exSpelledVal)) = .ok exSpelledVal :=
  C11_stable_full_partial exSpelled exSpelledVal exSpelled_ok (by decide +kernel)

/-- dates and coordinates need no hypothesis: a text with odd spacing inside `C( … )`, a trailing `.` and a sign -/
def exDateCoordText : List UInt8 := "[ 2024-02-29 ,C( -33.8688 ,151. ) , {d:1999-12-31} ,]".toUTF8.toList
def exDateCoordVal : Val :=
  match fromBytes exDateCoordText with
  | .ok v => v
  | _ => .null
theorem exDateCoord_ok : fromBytes exDateCoordText = .ok exDateCoordVal := by
  have h : (fromBytes exDateCoordText).isOk = true := by decide +kernel
  unfold exDateCoordVal
  cases hx : fromBytes exDateCoordText <;> simp_all [Res.isOk]
example : fromBytes (encode (asRead exDateCoordVal)) = .ok exDateCoordVal :=
  C11_stable_full_partial exDateCoordText exDateCoordVal exDateCoord_ok (by decide +kernel)

end examples

end Hs.C11
