/-
  C04 — Zinc text conforms to the Project Haystack grammar in both directions.

  The independent implementation written from the specification is the reference reader
  `Hs.Spec.read` (Lean) and the reference writer harness/src/spell.rs (Rust).  On every run the
  reference reader reads the library's output for thousands of generated values and the library
  reads the reference writer's random spellings (both compared component by component).
  Theorems here: the escape tables of the library's reader and writer, regenerated from the
  source, agree with the grammar's table and with each other; the byte-exact model of the reader
  maps every grammar escape to the code point the grammar assigns; the reference reader and the
  model of the library's reader agree on the scalar sentences below (exhaustive for the finite kinds).
  The write direction is proved for the model (second half of this file): `C04_write_holds` — the reference
  reader reads `encode v` back as `specImage v` for every well-formed `v` with grammar decimals, at any
  nesting depth (ladder `spec_str` … `spec_rows`; helper lemmas in `Hs/Lemmas/SpecRt*.lean`).
  The read direction is proved for the model (last part of this file): `C04_read_holds` — the grammar is the
  relation `Hs.Spell.SpellsTop v bs` ("the text `bs` is a sentence that denotes `v`", Hs/Spec/ZincSpell.lean: every
  legal choice of blanks, LF/CRLF, Str/Uri escape, number spelling, trailing list comma, dict separator and grid
  layout) and the byte-exact model of the library's reader decodes every such sentence of a well-formed value to
  the lexical image of that value (helper lemmas in `Hs/Lemmas/ZincSpell*.lean`).
-/
import Hs.Spec.ZincRead
import Hs.Model.ZincEnc
import Hs.Model.ZincParse
import Hs.Gen.ZincEscapes
import Hs.Lemmas.SpecRtTop
import Hs.Lemmas.ZincSpellEnc
import Hs.Thm.C01
namespace Hs.C04
open Hs Hs.Zinc

/-- the grammar's Str escapes: `\b \f \n \r \t \" \\ \$` (byte after the backslash, code point) -/
def grammarEscapes : List (Nat × Nat) :=
  [(98, 8), (102, 12), (110, 10), (114, 13), (116, 9), (34, 34), (92, 92), (36, 36)]

/-- every grammar escape is read by the library, as the code point the grammar assigns -/
theorem reader_escapes_conform :
    grammarEscapes.all (fun e => Hs.Gen.strEscapesRead.contains e) = true := by decide

/-- the library reads no escape byte with two meanings -/
theorem reader_escapes_functional :
    Hs.Gen.strEscapesRead.all (fun e =>
      Hs.Gen.strEscapesRead.all (fun f => e.1 != f.1 || e.2 == f.2)) = true := by decide

/-- every escape the writer emits is a grammar escape denoting the character it was written for -/
theorem writer_escapes_conform :
    Hs.Gen.strEscapesWrite.all (fun w => grammarEscapes.contains (w.2, w.1)) = true := by decide

/-- writer and reader tables are inverse on what the writer emits -/
theorem writer_reader_inverse :
    Hs.Gen.strEscapesWrite.all (fun w => Hs.Gen.strEscapesRead.contains (w.2, w.1)) = true := by decide

/-- The model of `parse_str_escape` realises the translated reader table: for each row, the escape
`\x` at the start of any text yields exactly the row's code point (as UTF-8). -/
theorem model_realises_reader_table :
    Hs.Gen.strEscapesRead.all (fun e =>
      match parseStrEscape (Scan.make [92, UInt8.ofNat e.1, 34]) with
      | .ok (bs, _) => bs == encChar (Char.ofNat e.2)
      | _ => false) = true := by decide +kernel

/-- The model of the writer realises the translated writer table. -/
theorem model_realises_writer_table :
    Hs.Gen.strEscapesWrite.all (fun w => encStrChar (Char.ofNat w.1) == [92, UInt8.ofNat w.2]) = true := by
  decide +kernel

/-- control characters without a short escape are written as `\u00XX`, which the reference reader
and the model of the library's reader both read back (all 27 of them) -/
theorem control_chars_round_trip :
    (List.range 32).all (fun n =>
      let c := Char.ofNat n
      let t := encQuoted [c]
      (match Hs.Spec.read t with
       | some (.str s) => s == [c]
       | _ => false) &&
      (match fromBytes t with
       | .ok (.str s) => s == [c]
       | _ => false)) = true := by decide +kernel

/-- The property's write direction, full strength: the reference reader reads the library's text
for `v` as (the lexical image of) `v`.  `SameLex` compares modulo the lexical representation of
numbers.  Stated here; proved for the model as `C04_write_wf` below; decided on the implementation on every run
(requests `C04 read`). -/
def C04_write (WF : Val → Prop) (SameLex : Val → Val → Prop) : Prop :=
  ∀ v, WF v → ∃ v', Hs.Spec.read (encode v) = some v' ∧ SameLex v v'

/-- finite kinds: both readers agree with the writer -/
theorem literals_conform :
    [Val.null, .marker, .remove, .na, .bool true, .bool false].all (fun v =>
      (match Hs.Spec.read (encode v), fromBytes (encode v) with
       | some a, .ok b => a.kindIdx == v.kindIdx && b.kindIdx == v.kindIdx &&
           (match a, b with
            | .bool x, .bool y => x == y && (match v with | .bool z => x == z | _ => false)
            | _, _ => true)
       | _, _ => false)) = true := by decide +kernel


/-! ## The write direction for the model: a proof

Helper lemmas live in `Hs/Lemmas/SpecRt*.lean`.  Parsers of the reference reader are plain functions
`In → Option (α × In)` that consume a prefix, so every framing lemma reads `p (text ++ rest) = some (x, rest)`.
Vocabulary (shared with C01, `Hs/Lemmas/ZincRt*.lean`): `Delim rest` — what follows a value in writer output:
nothing, `,` `]` `}` newline, or a space followed by the lower-case first letter of a tag name; `wfV` — the decidable
well-formedness predicate of C01 (`Hs/Lemmas/ZincRtWf.lean`).
-/

/-- the image of a finite number: what the reference reader returns for the printed text -/
def specNum (n : Num) : Num :=
  if Flt.isNaNBits n.v.bits then { v := { bits := nanBits, txt := "NaN".toList }, unit := none }
  else if Flt.isInfBits n.v.bits then
    (if Flt.signBit n.v.bits then { v := { bits := negInfBits, txt := "-inf".toList }, unit := none }
     else { v := { bits := posInfBits, txt := "inf".toList }, unit := none })
  else { v := { bits := Hs.Spec.specBits, txt := n.v.txt }, unit := n.unit }

mutual
/-- what the reference reader returns for the writer's text of a value: every string, name, tag, cell, row and
nesting identical; numbers and coordinates as the decimal text the writer printed (`Flt.bits = specBits`: "the
double this text denotes"); timestamps as their token text; dates and times as fields -/
def specImage : Val → Val
  | .num n => .num (specNum n)
  | .coord a b => .coord { bits := Hs.Spec.specBits, txt := a.txt } { bits := Hs.Spec.specBits, txt := b.txt }
  | .dateTime t =>
    .dateTime { secs := 0, ns := 0, off := 0, zone := [], tzid := [],
                txt := if t.tzid == "UTC".toList then t.txt else t.txt ++ [' '] ++ t.zone }
  | .list xs => .list (specVals xs)
  | .dict d => .dict (specTags d)
  | .grid md cols rows ver => .grid (specOTags md) (specCols cols) (specRows rows) ver
  | v => v
def specVals : Vals → Vals
  | .nil => .nil
  | .cons v vs => .cons (specImage v) (specVals vs)
def specTags : Tags → Tags
  | .nil => .nil
  | .cons k v t => .cons k (specImage v) (specTags t)
def specOTags : OTags → OTags
  | .none => .none
  | .some t => .some (specTags t)
def specCols : Cols → Cols
  | .nil => .nil
  | .cons n m c => .cons n (specOTags m) (specCols c)
def specRows : Rows → Rows
  | .nil => .nil
  | .cons r rs => .cons (specTags r) (specRows rs)
end

/-! ### `specImage` is the function the lemma files use -/

mutual
theorem specImage_eq : ∀ v : Val, specImage v = Hs.Spec.specImg v
  | .num n => by simp [specImage, Hs.Spec.specImg, specNum, Hs.Spec.specNumI]
  | .coord a b => by simp [specImage, Hs.Spec.specImg]
  | .dateTime t => by simp [specImage, Hs.Spec.specImg]
  | .list xs => by simp [specImage, Hs.Spec.specImg, specVals_eq xs]
  | .dict d => by simp [specImage, Hs.Spec.specImg, specTags_eq d]
  | .grid md cols rows ver => by
    simp [specImage, Hs.Spec.specImg, specOTags_eq md, specCols_eq cols, specRows_eq rows]
  | .null => by simp [specImage, Hs.Spec.specImg]
  | .remove => by simp [specImage, Hs.Spec.specImg]
  | .marker => by simp [specImage, Hs.Spec.specImg]
  | .bool _ => by simp [specImage, Hs.Spec.specImg]
  | .na => by simp [specImage, Hs.Spec.specImg]
  | .str _ => by simp [specImage, Hs.Spec.specImg]
  | .uri _ => by simp [specImage, Hs.Spec.specImg]
  | .ref _ _ => by simp [specImage, Hs.Spec.specImg]
  | .sym _ => by simp [specImage, Hs.Spec.specImg]
  | .date _ => by simp [specImage, Hs.Spec.specImg]
  | .time _ => by simp [specImage, Hs.Spec.specImg]
  | .xstr _ _ => by simp [specImage, Hs.Spec.specImg]
theorem specVals_eq : ∀ xs : Vals, specVals xs = Hs.Spec.specImgs xs
  | .nil => rfl
  | .cons v vs => by simp [specVals, Hs.Spec.specImgs, specImage_eq v, specVals_eq vs]
theorem specTags_eq : ∀ t : Tags, specTags t = Hs.Spec.specImgT t
  | .nil => rfl
  | .cons k v t => by simp [specTags, Hs.Spec.specImgT, specImage_eq v, specTags_eq t]
theorem specOTags_eq : ∀ o : OTags, specOTags o = Hs.Spec.specImgO o
  | .none => rfl
  | .some t => by simp [specOTags, Hs.Spec.specImgO, specTags_eq t]
theorem specCols_eq : ∀ c : Cols, specCols c = Hs.Spec.specImgC c
  | .nil => rfl
  | .cons n m c => by simp [specCols, Hs.Spec.specImgC, specOTags_eq m, specCols_eq c]
theorem specRows_eq : ∀ r : Rows, specRows r = Hs.Spec.specImgR r
  | .nil => rfl
  | .cons r rs => by simp [specRows, Hs.Spec.specImgR, specTags_eq r, specRows_eq rs]
end

/-! ### rung 1 — Str, Uri: every payload, any following input -/

/-- **spec_str**: every `s : List Char` (controls, quotes, backslash, `$`, astral planes), whatever follows -/
theorem spec_str (s : List Char) (rest : List UInt8) : Hs.Spec.str (encQuoted s ++ rest) = some (s, rest) :=
  Hs.Spec.spec_str s rest

/-- **spec_uri**: every text: the writer escapes `` ` ``, `\` and control characters; the grammar's reader undoes
exactly these -/
theorem spec_uri (s : List Char) (rest : List UInt8) : Hs.Spec.uri (encUri s ++ rest) = some (s, rest) :=
  Hs.Spec.spec_uri s rest

/-! ### rung 2 — Ref, Symbol, XStr, the literal kinds (through `scalar`, any fuel ≥ 1) -/

theorem spec_ref_nodis (f : Nat) (id : List Char) (hid : isRefId id = true) (rest : List UInt8) (hend : RefEnd rest) :
    Hs.Spec.scalar (f + 1) (64 :: encChars id ++ rest) = some (.ref id none, rest) :=
  Hs.Spec.scalar_ref_nodis f id hid rest hend

theorem spec_ref_dis (f : Nat) (id : List Char) (hid : isRefId id = true) (dis : List Char) (rest : List UInt8) :
    Hs.Spec.scalar (f + 1) (64 :: encChars id ++ 32 :: encQuoted dis ++ rest) = some (.ref id (some dis), rest) :=
  Hs.Spec.scalar_ref_dis f id hid dis rest

theorem spec_symbol (f : Nat) (s : List Char) (hs : isSymBody s = true) (rest : List UInt8) (hst : Stop isRefB rest) :
    Hs.Spec.scalar (f + 1) (94 :: encChars s ++ rest) = some (.sym s, rest) :=
  Hs.Spec.scalar_sym f s hs rest hst

theorem spec_xstr (f : Nat) (ty : List Char) (hty : isXStrType ty = true) (v : List Char) (rest : List UInt8) :
    Hs.Spec.scalar (f + 1) (enc (.xstr ty v) true ++ rest) = some (.xstr ty v, rest) :=
  Hs.Spec.scalar_xstr f ty hty v rest

/-- the literal kinds `N M R T F NA`, after any delimiter -/
theorem spec_literals (f : Nat) (rest : List UInt8) (hd : Delim rest) :
    Hs.Spec.scalar (f + 1) (enc .null true ++ rest) = some (.null, rest) ∧
    Hs.Spec.scalar (f + 1) (enc .marker true ++ rest) = some (.marker, rest) ∧
    Hs.Spec.scalar (f + 1) (enc .remove true ++ rest) = some (.remove, rest) ∧
    Hs.Spec.scalar (f + 1) (enc .na true ++ rest) = some (.na, rest) ∧
    Hs.Spec.scalar (f + 1) (enc (.bool true) true ++ rest) = some (.bool true, rest) ∧
    Hs.Spec.scalar (f + 1) (enc (.bool false) true ++ rest) = some (.bool false, rest) := by
  simp only [enc]
  exact ⟨Hs.Spec.scalar_null f rest hd.kwEnd, Hs.Spec.scalar_marker f rest hd.kwEnd,
    Hs.Spec.scalar_remove f rest hd.kwEnd, Hs.Spec.scalar_na f rest hd.kwEnd,
    Hs.Spec.scalar_true f rest hd.kwEnd, Hs.Spec.scalar_false f rest hd.kwEnd⟩

/-! ### rung 3 — numbers, coordinates; rung 4 — dates, times, timestamps -/

/-- **spec_decimal**: the grammar's decimal `["-"] digits ["." digits]` (`strictDec`), followed by anything that
does not continue it (`Stop isDecCont`: not a digit, `_`, `.`; with exponents allowed: not an exponent) -/
theorem spec_decimal (allowExp : Bool) (tb : List UInt8) (h : Hs.Spec.strictDec tb = true) (rest : List UInt8)
    (hst : Stop Hs.Spec.isDecCont rest) (hexp : allowExp = true → Hs.Spec.NoExp rest) :
    Hs.Spec.decimal allowExp (tb ++ rest) = some (tb, rest) :=
  Hs.Spec.decimal_rt allowExp tb h rest hst hexp

/-- **spec_number**: finite number = strict decimal text + optional symbol of the unit table + delimiter;
the text is not taken for a date or a time, a unit starting with `e`/`E` is not taken for an exponent -/
theorem spec_number (f : Nat) (tb : List UInt8) (hs : Hs.Spec.strictDec tb = true) (uo : Option (List Char))
    (hu : unitOk uo = true) (rest : List UInt8) (hd : Delim rest) :
    Hs.Spec.scalar (f + 1) (tb ++ (unitBytes uo ++ rest)) =
      some (.num { v := { bits := Hs.Spec.specBits, txt := Hs.Spec.chars tb }, unit := uo }, rest) :=
  Hs.Spec.scalar_num_finite f tb hs uo hu rest hd

theorem spec_coord (f : Nat) (la lo : List UInt8) (hla : Hs.Spec.strictDec la = true)
    (hlo : Hs.Spec.strictDec lo = true) (rest : List UInt8) :
    Hs.Spec.scalar (f + 1) (67 :: 40 :: (la ++ 44 :: (lo ++ 41 :: rest))) =
      some (.coord { bits := Hs.Spec.specBits, txt := Hs.Spec.chars la }
                   { bits := Hs.Spec.specBits, txt := Hs.Spec.chars lo }, rest) :=
  Hs.Spec.scalar_coord f la lo hla hlo rest

theorem spec_date (f : Nat) (d : Date) (hok : dateOk d = true) (rest : List UInt8) (hd : Delim rest) :
    Hs.Spec.scalar (f + 1) (encChars d.txt ++ rest) = some (.date d, rest) :=
  Hs.Spec.scalar_date f d hok rest hd

theorem spec_time (f : Nat) (t : Time) (hok : timeOk t = true) (rest : List UInt8) (hd : Delim rest) :
    Hs.Spec.scalar (f + 1) (encChars t.txt ++ rest) = some (.time t, rest) :=
  Hs.Spec.scalar_time f t hok rest hd

/-- **spec_datetime**: date `T` time [fraction] `Z` | `Z Name` | `±hh:mm Name` comes back as its token text -/
theorem spec_datetime (f : Nat) (t : DateTime) (hok : dtOk t = true) (rest : List UInt8) (hd : Delim rest) :
    Hs.Spec.scalar (f + 1) (encDateTime t ++ rest) = some (specImage (.dateTime t), rest) := by
  rw [Hs.Spec.scalar_datetime f t hok rest hd]
  simp [specImage, dtVal, dtText]

/-! ### rung 5 — composites by mutual induction on `Val`

`Hs.Spec.Rd v`: the text of `v` starts with a byte of the value alphabet and, for every `rest` with `Delim rest`
and every `fuel ≥ |enc v| + 2`, `value fuel (enc v true ++ rest) = some (specImg v, rest)`.  The linear fuel
bound is related to the reader's own `4·|text| + 16` in `Hs.Spec.read_of_Rd` / `read_grid`. -/

/-- **spec_value**: every well-formed value with grammar decimals, nested anywhere (list element, tag value, cell):
`value` reads its text back and leaves what follows -/
theorem spec_value (v : Val) (hwf : wfV v = true) (hs : Hs.Spec.strictV v = true) (fuel : Nat) (rest : List UInt8)
    (hd : Delim rest) (hf : (enc v true).length + 2 ≤ fuel) :
    Hs.Spec.value fuel (enc v true ++ rest) = some (specImage v, rest) := by
  rw [specImage_eq]
  exact (Hs.Spec.rdV v hwf hs).2 fuel rest hd hf

/-- **spec_list_items**: the elements of a non-empty list up to and including `]` -/
theorem spec_list_items (v : Val) (vs : Vals) (hwf : wfVs (.cons v vs) = true) (hs : Hs.Spec.strictVs (.cons v vs) = true)
    (fuel : Nat) (rest : List UInt8) (acc : List Val) (hf : (encVals (.cons v vs)).length + 3 ≤ fuel) :
    Hs.Spec.listItems fuel (encVals (.cons v vs) ++ 93 :: rest) acc =
      some (.list (Vals.ofList (acc ++ (specVals (.cons v vs)).toList)), rest) := by
  rw [specVals_eq]
  exact Hs.Spec.listItems_rt v vs (Hs.Spec.rdVs _ hwf hs) fuel rest acc hf

/-- **spec_tags**: the tags of a dict (`,`-separated, up to `}`) -/
theorem spec_tags (k : List Char) (v : Val) (t : Tags) (hk : keysIdent (.cons k v t) = true)
    (hwf : wfT (.cons k v t) = true) (hs : Hs.Spec.strictT (.cons k v t) = true)
    (fuel : Nat) (rest : List UInt8) (acc : List (List Char × Val))
    (hf : (encTags (.cons k v t) 44).length + 3 ≤ fuel) :
    Hs.Spec.tags fuel (encTags (.cons k v t) 44 ++ 125 :: rest) true acc =
      some (acc ++ (specTags (.cons k v t)).toList, 125 :: rest) := by
  rw [specTags_eq]
  exact Hs.Spec.tags_rt Hs.Spec.ctx_dict k v t hk (Hs.Spec.rdT _ hwf hs) fuel rest acc hf

/-- **spec_meta_tags**: grid meta / column meta (space-separated, up to the newline) -/
theorem spec_meta_tags (k : List Char) (v : Val) (t : Tags) (hk : keysIdent (.cons k v t) = true)
    (hwf : wfT (.cons k v t) = true) (hs : Hs.Spec.strictT (.cons k v t) = true)
    (fuel : Nat) (rest : List UInt8) (acc : List (List Char × Val))
    (hf : (encTags (.cons k v t) 32).length + 3 ≤ fuel) :
    Hs.Spec.tags fuel (encTags (.cons k v t) 32 ++ 10 :: rest) false acc =
      some (acc ++ (specTags (.cons k v t)).toList, 10 :: rest) := by
  rw [specTags_eq]
  exact Hs.Spec.tags_rt Hs.Spec.ctx_meta k v t hk (Hs.Spec.rdT _ hwf hs) fuel rest acc hf

/-- **spec_cols**: the column line (names, metas on the first, middle and last column) including its newline -/
theorem spec_cols (n : List Char) (md : OTags) (c : Cols) (hshape : colsShapeAux (.cons n md c) = true)
    (hwf : wfC (.cons n md c) = true) (hs : Hs.Spec.strictC (.cons n md c) = true)
    (fuel : Nat) (rest : List UInt8) (acc : List (List Char × OTags)) (hf : colsLen (.cons n md c) + 3 ≤ fuel) :
    Hs.Spec.cols fuel (encCols (.cons n md c) ++ 10 :: rest) acc =
      some (acc ++ (specCols (.cons n md c)).toList, rest) := by
  rw [specCols_eq]
  exact Hs.Spec.cols_rt n md c (Hs.Spec.colsOkS_of_shape _ hshape) (Hs.Spec.rdC _ hwf hs) fuel rest acc hf

/-- **spec_cells**: one row line (present, Null and missing cells) including its newline -/
theorem spec_cells (r : Tags) (names : List (List Char)) (single : Bool) (hne : names ≠ [])
    (hshape : rowShape names single r = true) (hwf : wfT r = true) (hs : Hs.Spec.strictT r = true)
    (fuel : Nat) (rest : List UInt8) (acc : List (List Char × Val)) (hf : (rowBytes r names single).length + 3 ≤ fuel) :
    Hs.Spec.cells fuel (rowBytes r names single ++ 10 :: rest) names acc =
      some (acc ++ Hs.Spec.cellsOfS r names, rest) :=
  Hs.Spec.cells_rt r single names hne (Hs.Spec.rowOkS_of_shape names single r hshape (Hs.Spec.rdT r hwf hs)).cells
    fuel rest acc hf

/-- **spec_rows**: all rows up to the grid's end (`>>` nested, the blank line at top level); each row dict is
rebuilt from the cells in column order -/
theorem spec_rows (names : List (List Char)) (single nested : Bool) (rest : List UInt8) (hne : names ≠ [])
    (hsingle : names.length = 1 → single = true) (hnd : names.Nodup) (rws : Rows)
    (hshape : rowsShape names single rws = true) (hwf : wfR rws = true) (hs : Hs.Spec.strictR rws = true)
    (fuel : Nat) (acc : List Tags) (hf : (encRows rws names single).length + 3 ≤ fuel) :
    Hs.Spec.rows fuel (encRows rws names single ++ tailR nested rest) names acc =
      some (acc ++ (specRows rws).toList, Hs.Spec.afterRows nested rest) := by
  rw [specRows_eq]
  exact Hs.Spec.rows_rt names single nested rest hne hsingle hnd rws
    (Hs.Spec.rowsOkS_of_shape names single rws hshape (Hs.Spec.rdR rws hwf hs)) fuel acc hf

/-! ### the property for the model -/

/-- **C04, write direction, for the model**: for every value that is well-formed in the sense of C01 (`wfV`: identifier
names, id alphabets, capitalised XStr types other than `C`, database units, unit-less non-finite numbers, valid
calendar fields and resolvable zones, grids with `ver` 3.0, at least one column, distinct identifier column names,
meta absent or non-empty, row keys among the column names, no missing cell in a single-column grid) and whose
finite numbers and coordinates print as the grammar's decimal `-?d+(.d+)?` (`strictV`; Rust's `Display for f64`
prints exactly this shape, `wfV` alone also allows `5.` and `.5`), **at any nesting depth**, the reference reader
written from the grammar reads the writer's text back as the image of the value.

Numbers, coordinates and timestamps are compared lexically (`specImage`): `parse (fmt x) = x` for `f64` and chrono's
text round trip are trusted-base assumptions validated by the harness on every run. -/
theorem C04_write_holds (v : Val) (hwf : wfV v = true) (hs : Hs.Spec.strictV v = true) :
    Hs.Spec.read (encode v) = some (specImage v) := by
  rw [specImage_eq]
  exact Hs.Spec.read_of_wf v hwf hs

/-- the stated property `C04_write`, for the explicit decidable predicates -/
theorem C04_write_wf :
    C04_write (fun v => wfV v = true ∧ Hs.Spec.strictV v = true) (fun v v' => v' = specImage v) :=
  fun v h => ⟨specImage v, C04_write_holds v h.1 h.2, rfl⟩

/-! ### the hypotheses cannot be dropped; the nesting bound of C01 is not needed -/

def optIs (r : Option Val) (p : Val → Bool) : Bool :=
  match r with
  | some v => p v
  | none => false

/-- `wfV` allows the decimal text `5.` (accepted by `f64::from_str`); the grammar requires a digit after the point -/
theorem C04_cex_strict_num :
    wfV (.num ⟨⟨0, ['5', '.']⟩, none⟩) = true ∧ (Hs.Spec.read (encode (.num ⟨⟨0, ['5', '.']⟩, none⟩))).isSome = false := by
  decide +kernel
/-- … and a digit before it -/
theorem C04_cex_strict_coord :
    wfV (.coord ⟨0, ['.', '5']⟩ ⟨0, ['1']⟩) = true ∧
      (Hs.Spec.read (encode (.coord ⟨0, ['.', '5']⟩ ⟨0, ['1']⟩))).isSome = false := by
  decide +kernel

/-- the writer always prints `ver:"3.0"`: another version string does not come back -/
theorem C04_cex_ver :
    optIs (Hs.Spec.read (encode (.grid .none (.cons ['a'] .none .nil) .nil ['2', '.', '0'])))
      (fun v => match v with | .grid _ _ _ ver => ver == ['3', '.', '0'] | _ => false) = true := by decide +kernel

/-- known finding Z4: in a single-column grid a missing cell is written `N` and comes back as a Null cell -/
theorem C04_cex_single_missing :
    optIs (Hs.Spec.read (encode (.grid .none (.cons ['a'] .none .nil) (.cons .nil .nil) ['3', '.', '0'])))
      (fun v => match v with | .grid _ _ (.cons (.cons _ .null .nil) .nil) _ => true | _ => false) = true := by
  decide +kernel

/-- a grid without columns is written `empty`, which the grammar reads as a column named `empty` -/
theorem C04_cex_no_cols :
    optIs (Hs.Spec.read (encode (.grid .none .nil .nil ['3', '.', '0'])))
      (fun v => match v with | .grid _ (.cons _ _ .nil) _ _ => true | _ => false) = true := by decide +kernel

def deepList : Nat → Val
  | 0 => .list .nil
  | n + 1 => .list (.cons (deepList n) .nil)

/-- the reference reader has no nesting limit: 64 levels (which libhaystack's own reader refuses, see
`Hs.C01.C01_cex_depth`) are read back; the writer's text is a sentence of the grammar at any depth -/
theorem deep64_ok : Hs.Spec.read (encode (deepList 64)) = some (specImage (deepList 64)) :=
  C04_write_holds _ (by decide +kernel) (by decide +kernel)

/-! ### the hypotheses are satisfiable: concrete non-trivial inputs -/

section examples

/-- Str: controls, quote, backslash, `$`, BMP and astral characters -/
example : Hs.Spec.str (encQuoted "a\t\"\\$\x01é€😀".toList ++ [44, 49]) = some ("a\t\"\\$\x01é€😀".toList, [44, 49]) :=
  spec_str _ _
/-- Uri with a control character, a backquote, a backslash and non-ASCII text -/
example : Hs.Spec.uri (encUri "http://x/`a\\b\n é😀".toList ++ [93]) = some ("http://x/`a\\b\n é😀".toList, [93]) :=
  spec_uri _ _

example : isRefId "p:demo:r:2a.b-c~d_E".toList = true := by decide
/-- a Ref followed by a space and a tag name (grid meta): `RefEnd` -/
example : RefEnd [32, 97, 58] := Or.inr (Or.inr ⟨97, [58], rfl, by decide⟩)
example : Hs.Spec.scalar 1 (64 :: encChars "a-1".toList ++ [32, 97, 58]) = some (.ref "a-1".toList none, [32, 97, 58]) :=
  spec_ref_nodis 0 _ (by decide) _ (Or.inr (Or.inr ⟨97, [58], rfl, by decide⟩))
example : isSymBody "lib:ph.a-b".toList = true := by decide
example : Stop isRefB [44] := Stop_cons (by decide)
example : isXStrType "Bin".toList = true := by decide
example : Delim [32, 100, 105, 115] := Or.inr (Or.inr ⟨100, [105, 115], rfl, by decide⟩)
example : Delim [10, 62, 62] := Or.inr (Or.inl ⟨10, [62, 62], rfl, by decide⟩)

/-- decimals: negative fraction, integer; what may follow: a unit starting with `E` is not an exponent -/
example : Hs.Spec.strictDec [45, 49, 50, 46, 53] = true := by decide
example : Hs.Spec.strictDec [49, 48, 48] = true ∧ Stop Hs.Spec.isDecCont [69, 69, 82] ∧ Hs.Spec.NoExp [69, 69, 82] :=
  ⟨by decide, Stop_cons (by decide), by
    intro e r he _ c r' hr
    cases he; cases hr; decide⟩
example : unitOk (some "°F".toList) = true ∧ unitOk (some "EER".toList) = true ∧ unitOk (some "kW/m²".toList) = true := by
  decide +kernel
/-- `100EER,` : number 100 with unit EER -/
example : Hs.Spec.scalar 1 ([49, 48, 48] ++ (unitBytes (some "EER".toList) ++ [44])) =
    some (.num ⟨⟨Hs.Spec.specBits, "100".toList⟩, some "EER".toList⟩, [44]) :=
  spec_number 0 _ (by decide) _ (by decide +kernel) _ (Or.inr (Or.inl ⟨44, [], rfl, by simp⟩))

example : dateOk ⟨2024, 2, 29, "2024-02-29".toList⟩ = true := by decide +kernel
example : timeOk ⟨1, 2, 3, 500000000, "01:02:03.500".toList⟩ = true := by decide +kernel
/-- a leap second -/
example : timeOk ⟨23, 59, 59, 1000000000, "23:59:60".toList⟩ = true := by decide +kernel
/-- timestamps: UTC, an offset zone with a fraction, a zone with offset zero, an `Etc/GMT-3` style name -/
example : dtOk ⟨0, 0, 0, "UTC".toList, "UTC".toList, "2024-02-29T12:34:56Z".toList⟩ = true := by decide +kernel
example : dtOk ⟨0, 0, -18000, "New_York".toList, "America/New_York".toList,
    "2024-02-29T12:34:56.789-05:00".toList⟩ = true := by decide +kernel
example : dtOk ⟨0, 0, 0, "London".toList, "Europe/London".toList, "2024-01-01T00:00:00Z".toList⟩ = true := by
  decide +kernel
example : dtOk ⟨0, 0, 10800, "GMT-3".toList, "Etc/GMT-3".toList, "2024-01-01T00:00:00.123456789+03:00".toList⟩ = true := by
  decide +kernel

def exNum : Val := .num ⟨⟨0, "21.5".toList⟩, some "°C".toList⟩
def exRow1 : Tags := .cons "id".toList (.ref "a-1".toList (some "Room \"1\"".toList))
  (.cons "temp".toList exNum (.cons "ts".toList (.date ⟨2024, 2, 29, "2024-02-29".toList⟩) .nil))
def exRow2 : Tags := .cons "temp".toList .null (.cons "ts".toList
  (.dateTime ⟨0, 0, -18000, "New_York".toList, "America/New_York".toList, "2024-02-29T12:34:56.789-05:00".toList⟩) .nil)
def exRow3 : Tags := .nil
def exInner : Val :=
  .grid .none (.cons "id".toList .none (.cons "temp".toList .none (.cons "ts".toList .none .nil)))
    (.cons exRow1 (.cons exRow2 (.cons exRow3 .nil))) "3.0".toList
/-- a grid with meta (Marker, Str, Ref followed by the next tag), column meta on the first and the last
column, a nested grid and a list of dicts in cells, Null and missing cells -/
def exGrid : Val :=
  .grid (.some (.cons "dis".toList (.str "Site é".toList) (.cons "hisRef".toList (.ref "h".toList none)
      (.cons "m".toList .marker .nil))))
    (.cons "a".toList (.some (.cons "dis".toList (.str "A".toList) (.cons "unitRef".toList (.ref "u".toList none) .nil)))
      (.cons "b".toList .none (.cons "c".toList (.some (.cons "x".toList .marker .nil)) .nil)))
    (.cons (.cons "a".toList exInner (.cons "c".toList
        (.list (.cons (.dict (.cons "k".toList (.uri "http://x/`".toList) (.cons "t".toList
          (.time ⟨1, 2, 3, 0, "01:02:03".toList⟩) .nil))) (.cons (.coord ⟨0, "-1.5".toList⟩ ⟨0, "3".toList⟩)
          (.cons (.xstr "Bin".toList "a\"b".toList) (.cons (.sym "ph-lib".toList) .nil))))) .nil))
      (.cons (.cons "b".toList .na .nil) (.cons .nil .nil)))
    "3.0".toList
def exZeroRows : Val := .grid .none (.cons "only".toList .none .nil) .nil "3.0".toList

example : wfV exGrid = true ∧ Hs.Spec.strictV exGrid = true := by decide +kernel
example : wfV exZeroRows = true ∧ Hs.Spec.strictV exZeroRows = true := by decide +kernel
example : wfVs (.cons exNum (.cons exInner .nil)) = true ∧ Hs.Spec.strictVs (.cons exNum (.cons exInner .nil)) = true := by
  decide +kernel
example : keysIdent exRow1 = true ∧ wfT exRow1 = true ∧ Hs.Spec.strictT exRow1 = true := by decide +kernel
example : rowShape ["id".toList, "temp".toList, "ts".toList] false exRow2 = true := by decide +kernel

/-- the nested grid as a list element: `value` leaves the `]` -/
example : Hs.Spec.value 400 (enc exInner true ++ [93]) = some (specImage exInner, [93]) :=
  spec_value exInner (by decide +kernel) (by decide +kernel) 400 [93] (Or.inr (Or.inl ⟨93, [], rfl, by simp⟩))
    (by decide +kernel)

/-- the example grids through the reference reader, via `C04_write_holds` -/
example : Hs.Spec.read (encode exGrid) = some (specImage exGrid) :=
  C04_write_holds exGrid (by decide +kernel) (by decide +kernel)
example : Hs.Spec.read (encode exZeroRows) = some (specImage exZeroRows) :=
  C04_write_holds exZeroRows (by decide +kernel) (by decide +kernel)

end examples

/-! ## The read direction for the model: a proof

`Hs.Spell.Spells v bs` / `Hs.Spell.SpellsTop v bs` (Hs/Spec/ZincSpell.lean, written from the grammar and from the reference
writer harness/src/spell.rs) say that the text `bs` is a sentence of the Zinc grammar denoting `v` (nested resp. as a
whole document).  The freedoms of the relation are those the property lists: blanks (space, tab) after
`[` `{` `,` `:` and before `,` `]` `}`, inside `C( , )` and `Type( )`, before every line ending, before a document;
line endings LF, CRLF or a lone CR, chosen line by line; every Str / Uri character raw when legal, by its short
escape, or as `\uXXXX` with upper- or lower-case hex digits; the Uri escapes of the library's full table (`` \` ``
`\\` `\[ \] \@ \& \= \;` denote the character, `\: \/ \? \#` are kept verbatim: they denote backslash + character);
numbers with sign, fraction, exponent (`e`/`E`, optional sign) and `_` after any digit of any digit run; trailing
list comma; dict tags separated by blanks (space or tab, at least one) or by a comma (with blanks around); Marker
tags with or without `:M`; grid meta on the `ver` line, column meta, empty cells, nested grids in `<<` … `>>`;
after a grid document any number of further (blank) lines, after any other document blanks and line endings;
time fractions with 1–9 digits.

Numbers, coordinates and timestamps are lexical, as in C01: the value carries the numeral / token text (`Flt.txt`:
the sentence's numeral without `_`, exponent letter `e`; `DateTime.txt`: the token, so `…Z` and `…Z UTC` are two
lexical values), and the theorem says the reader returns exactly that numeral / token.  `wfS` is C01's `wfV`
without the conditions on the numeral (which the spelling relation itself fixes).

Not in the relation: one single blank as the only text after a document that is not a grid (the library reads it;
the scanner's end-of-input flag is raised one byte early there, which the framing lemmas do not follow), blank lines
between rows or before `>>` (the library skips them; the grammar has none).  A lone CR that ends a grid document's
last line, directly followed by an LF, is the CRLF line ending and not two line endings (`SpellsTop.gridNl`).
Residual hypotheses as in C01: nesting ≤ 63, `ver` 3.0, meta not `Some(empty)`, single-column grids without missing
cell, XStr type other than `C`. -/

open Hs.Spell in
/-- The property's read direction, full strength: every sentence is decoded to (the lexical image of) the value it
denotes. -/
def C04_read (WF : Val → Prop) : Prop :=
  ∀ v bs, WF v → SpellsTop v bs → fromBytes bs = .ok (Hs.C01.lexImage v)

/-- … "at any nesting depth" -/
def C04_read_full : Prop := C04_read (fun v => wfS v = true)

open Hs.Spell in
/-- **C04, read direction, for the model**: every sentence of the grammar that denotes a well-formed value `v` (`wfS`:
identifier names, id alphabets, capitalised XStr types other than `C`, database units, valid calendar fields and
resolvable zones, sorted dict keys, grids with `ver` 3.0, at least one column, distinct column names, meta absent
or non-empty, row keys among the column names, no missing cell in a single-column grid) nested at most 63 deep
(`depthOk`: the reader refuses more, see `Hs.C01.C01_cex_depth`) — with ANY legal choice of blanks, line endings,
escapes, number spellings, trailing comma, dict separators and grid layout — is decoded by the model of
`decode::from_str` to the lexical image of `v`. -/
theorem C04_read_holds (v : Val) (bs : List UInt8) (hwf : wfS v = true) (hd : depthOk v = true)
    (h : SpellsTop v bs) : fromBytes bs = .ok (Hs.C01.lexImage v) := by
  rw [Hs.C01.lexImage_eq]
  exact read_of_spells v bs hwf (by simpa [depthOk] using hd) h

/-- the stated property `C04_read`, for the explicit decidable predicates -/
theorem C04_read_partial : C04_read (fun v => wfS v = true ∧ depthOk v = true) :=
  fun v bs h hs => C04_read_holds v bs h.1 h.2 hs

/-- C01's well-formedness implies `wfS`: the theorem covers every value C01 covers -/
theorem C04_read_wfV (v : Val) (bs : List UInt8) (hwf : wfV v = true) (hd : depthOk v = true)
    (h : Hs.Spell.SpellsTop v bs) : fromBytes bs = .ok (Hs.C01.lexImage v) :=
  C04_read_holds v bs (wfS_of_wfV v hwf) hd h

open Hs.Spell in
/-- nested position (list element, tag value, cell): after any text that may legally follow a value (`DelimW`:
nothing, `,` `]` `}`, a line ending, or blanks followed by one of these or by a tag name) the reader returns the
image of `v` and stops right behind the sentence -/
theorem C04_read_nested (v : Val) (bs : List UInt8) (hwf : wfS v = true) (h : Spells v bs)
    (depth f1 f2 : Nat) (s : Scan) (rest : List UInt8) (hat : At s (bs ++ rest)) (hs : s.stash = [])
    (hdl : DelimW rest) (hf1 : 4 * bs.length + 8 ≤ f1) (hf2 : 4 * bs.length + 8 ≤ f2) (hn : depth + nestV v < 64) :
    ∃ p p', lexRead f1 s = .ok p ∧ parseValue f2 depth p = .ok (Hs.C01.lexImage v, p') ∧ At p'.sc rest := by
  obtain ⟨p, p', e1, _, _, e2, hp⟩ := (spV v bs hwf h).rd depth f1 f2 s rest hat hs hdl hf1 hf2 hn
  exact ⟨p, p', e1, by rw [Hs.C01.lexImage_eq]; exact e2, hp.1⟩

/-- **the writer's document is one of the sentences** (non-vacuity of the relation; numbers printed as
`-?d+(.d+)?`, i.e. what Rust's `Display for f64` prints) -/
theorem C04_writer_spells (v : Val) (hwf : wfV v = true) (hs : Hs.Spec.strictV v = true) :
    Hs.Spell.SpellsTop v (encode v) :=
  spellsTop_encode v hwf hs

/-- C01 for strict values is a corollary of the read direction -/
theorem C04_read_implies_C01 (v : Val) (hwf : wfV v = true) (hs : Hs.Spec.strictV v = true) (hd : depthOk v = true) :
    fromBytes (encode v) = .ok (Hs.C01.lexImage v) :=
  C04_read_wfV v (encode v) hwf hd (C04_writer_spells v hwf hs)

/-- the nesting bound cannot be dropped: 64 nested lists are a sentence (the writer's), and the reader refuses it -/
theorem C04_read_cex_depth : ¬ C04_read_full := by
  intro h
  have hsp := C04_writer_spells (deepList 64) (by decide +kernel) (by decide +kernel)
  have := h (deepList 64) _ (by decide +kernel) hsp
  have hno : (fromBytes (encode (deepList 64))).isOk = false := by decide +kernel
  rw [this] at hno
  cases hno

/-! ### sentences beyond the writer's image -/

section spellings
open Hs.Spell

abbrev B (s : String) : List UInt8 := bytesOfAscii s

theorem digitsOf (ds bs : List UInt8) (h1 : ds.all digitB = true) (h2 : bs.filter (· != 95) = ds)
    (h3 : (match bs with | d :: _ => digitB d | [] => false) = true) : Digits ds bs := by
  refine ⟨by simpa using h1, h2, ?_⟩
  cases bs with
  | nil => simp at h3
  | cons d r => exact ⟨d, r, rfl, h3⟩

theorem blanksOf (ws : List UInt8) (h : ws.all (fun b => b == 32 || b == 9) = true) : Blanks ws := by
  intro b hb
  have := List.all_eq_true.mp h b hb
  simpa using this

/-- `1_000.5e+3kW`: the numeral is `1000.5e+3` -/
def nKw : Num := ⟨⟨0, "1000.5e+3".toList⟩, some "kW".toList⟩
theorem nKw_sp : NumSp nKw (B "1_000.5e+3kW") :=
  (by decide : B "1_000.5" ++ 101 :: ([43] ++ B "3") ++ unitText nKw.unit = B "1_000.5e+3kW") ▸
  NumSp.exp nKw (by decide) (by decide) (B "1000.5") (B "1_000.5")
    ((by decide : (if false then [45] else []) ++ B "1000" ++ 46 :: B "5" = B "1000.5") ▸
     (by decide : (if false then [45] else []) ++ B "1_000" ++ 46 :: B "5" = B "1_000.5") ▸
      Decimal.frac false (B "1000") (B "1_000") (B "5") (B "5")
      (digitsOf _ _ (by decide) (by decide) (by decide)) (digitsOf _ _ (by decide) (by decide) (by decide)))
    101 (Or.inl rfl) [43] (Or.inr (Or.inl rfl)) (B "3") (B "3") (digitsOf _ _ (by decide) (by decide) (by decide))
    (by decide)

/-- `-2_5E-07`: upper-case exponent letter, sign, `_`, leading zero -/
def nNeg : Num := ⟨⟨0, "-25e-07".toList⟩, none⟩
theorem nNeg_sp : NumSp nNeg (B "-2_5E-0_7") :=
  (by decide : B "-2_5" ++ 69 :: ([45] ++ B "0_7") ++ unitText nNeg.unit = B "-2_5E-0_7") ▸
  NumSp.exp nNeg (by decide) (by decide) (B "-25") (B "-2_5")
    ((by decide : (if true then [45] else []) ++ B "25" = B "-25") ▸
     (by decide : (if true then [45] else []) ++ B "2_5" = B "-2_5") ▸
      Decimal.int true (B "25") (B "2_5") (digitsOf _ _ (by decide) (by decide) (by decide)))
    69 (Or.inr rfl) [45] (Or.inr (Or.inr rfl)) (B "07") (B "0_7") (digitsOf _ _ (by decide) (by decide) (by decide))
    (by decide)

/-- `"aéé😀\$\n"`: raw ASCII, `\u` with an upper-case hex digit, raw two- and four-byte characters, short escapes -/
def sTxt : List Char := "aéé😀$\n".toList
def sBytes : List UInt8 :=
  [34, 97, 92, 117, 48, 48, 69, 57, 195, 169, 240, 159, 152, 128, 92, 36, 92, 110, 34]
theorem sTxt_sp : Quoted sTxt sBytes :=
  (by decide +kernel : 34 :: (([97] ++ ([92, 117, 48, 48, 69, 57] ++ (encChar 'é' ++ (encChar '😀' ++ ([92, 36] ++
      ([92, 110] ++ [])))))) ++ [34]) = sBytes) ▸
  Quoted.mk sTxt _
    (StrBody.cons 'a' _ _ _ ((by decide +kernel : encChar 'a' = [97]) ▸ StrCh.raw 'a' (by decide) (by decide) (by decide) (by decide))
    (StrBody.cons 'é' _ _ _ (StrCh.u 'é' _ (UEsc.mk 'é' 48 48 69 57 (by decide) ⟨by decide, Or.inl (by decide)⟩
        ⟨by decide, Or.inl (by decide)⟩ ⟨by decide, Or.inr (by decide)⟩ ⟨by decide, Or.inl (by decide)⟩))
    (StrBody.cons 'é' _ _ _ (StrCh.raw 'é' (by decide) (by decide) (by decide) (by decide))
    (StrBody.cons '😀' _ _ _ (StrCh.raw '😀' (by decide) (by decide) (by decide) (by decide))
    (StrBody.cons '$' _ _ _ StrCh.dollar
    (StrBody.cons '\n' _ _ _ StrCh.n StrBody.nil))))))

/-- ``[ 1_000.5e+3kW ,"aéé😀\$\n",\t-2_5E-0_7, ]``: blanks after `[`, before and after `,`, a tab, a trailing
comma with a blank before `]` -/
def exListV : Val := .list (.cons (.num nKw) (.cons (.str sTxt) (.cons (.num nNeg) .nil)))
def exListB : List UInt8 := B "[ 1_000.5e+3kW ," ++ sBytes ++ [44, 9] ++ B "-2_5E-0_7, ]"
theorem exList_sp : Spells exListV exListB :=
  (by decide +kernel : 91 :: ([32] ++ (B "1_000.5e+3kW" ++ [32] ++ 44 :: ([] ++ (sBytes ++ [] ++ 44 :: ([9] ++
      (B "-2_5E-0_7" ++ [] ++ 44 :: [32]))))) ++ [93]) = exListB) ▸
  Spells.list _ [32] _ (blanksOf _ (by decide))
    (SpItems.cons _ _ _ _ [32] [] _ (Spells.num nKw _ nKw_sp) (blanksOf _ (by decide)) (blanksOf _ (by decide))
      (SpItems.cons _ _ _ _ [] [9] _ (Spells.str sTxt _ sTxt_sp) (blanksOf _ (by decide)) (blanksOf _ (by decide))
        (SpItems.lastComma _ _ [] [32] (Spells.num nNeg _ nNeg_sp) (blanksOf _ (by decide)) (blanksOf _ (by decide)))))

theorem trailer_nil : Trailer [] := ⟨(by intro b hb; cases hb), (by intro b e; cases e)⟩
theorem spells_cast {v : Val} {a b : List UInt8} (h : Spells v a) (e : a = b) : Spells v b := e ▸ h
theorem spellsTop_cast {v : Val} {a b : List UInt8} (h : SpellsTop v a) (e : a = b) : SpellsTop v b := e ▸ h

example : wfS exListV = true ∧ depthOk exListV = true := by decide +kernel
/-- the reader decodes that sentence — here with a blank before and a line ending after the document: numerals
`1000.5e+3` (unit kW) and `-25e-07`, the string `aéé😀$\n` -/
example : fromBytes ([32] ++ exListB ++ [10]) = .ok (Hs.C01.lexImage exListV) :=
  C04_read_holds exListV _ (by decide +kernel) (by decide +kernel)
    (SpellsTop.other _ [32] _ [10] (by intro _ _ _ _ e; cases e) (blanksOf _ (by decide)) exList_sp
      ⟨by intro b hb; simp at hb; simp [hb], by intro b e; simp at e; simp [← e]⟩)

/-- `{ a:M<TAB>b , c: [ ],d }`: explicit `:M`, a tab as tag separator, a comma with blanks, blanks after `:` and inside `[ ]` -/
def exDictV : Val := .dict (.cons ['a'] .marker (.cons ['b'] .marker (.cons ['c'] (.list .nil) (.cons ['d'] .marker .nil))))
def exDictB : List UInt8 := B "{ a:M\tb , c: [ ],d }"
theorem exDict_sp : Spells exDictV exDictB :=
  spells_cast
  (Spells.dict _ [32] _ [32] (blanksOf _ (by decide))
    (SpTags.space true _ _ _ _ _ _ [9] _ (SpTag.val ['a'] .marker [] [77] (blanksOf _ (by decide)) Spells.marker)
      (blanksOf _ (by decide)) (by decide)
      (SpTags.comma _ _ _ _ _ _ [32] [32] _ (SpTag.marker ['b']) (blanksOf _ (by decide)) (blanksOf _ (by decide))
        (SpTags.comma _ _ _ _ _ _ [] [] _
          (SpTag.val ['c'] (.list .nil) [32] _ (blanksOf _ (by decide))
            (Spells.list .nil [32] [] (blanksOf _ (by decide)) SpItems.nil))
          (blanksOf _ (by decide)) (blanksOf _ (by decide))
          (SpTags.one true _ _ _ (SpTag.marker ['d'])))))
    (blanksOf _ (by decide)))
  (by decide +kernel)

example : fromBytes exDictB = .ok (Hs.C01.lexImage exDictV) :=
  C04_read_holds exDictV exDictB (by decide +kernel) (by decide +kernel)
    (spellsTop_cast (SpellsTop.other _ [] _ [] (by intro _ _ _ _ e; cases e) (blanksOf _ (by decide)) exDict_sp
      trailer_nil) (by decide +kernel))

/-- a grid document with blanks before it, LF, CRLF and lone-CR line endings mixed, blanks (and a tab) before line
endings, a tab before the meta, column meta, blanks after the commas, an empty cell, a nested grid in `<<` … `>>`
written with lone CRs, and two further blank lines after the document:
```
  ver:"3.0"<TAB>dis:"G" m \r\n
a,  b foo\r\n
1,\n
, <<<TAB>\r ver:"3.0"\r x \r N\r >> \r\n
\n
 \n
```  -/
def exInnerG : Val := .grid .none (.cons ['x'] .none .nil) (.cons (.cons ['x'] .null .nil) .nil) "3.0".toList
def exOuterG : Val :=
  .grid (.some (.cons "dis".toList (.str ['G']) (.cons ['m'] .marker .nil)))
    (.cons ['a'] .none (.cons ['b'] (.some (.cons "foo".toList .marker .nil)) .nil))
    (.cons (.cons ['a'] (.num ⟨⟨0, ['1']⟩, none⟩) .nil) (.cons (.cons ['b'] exInnerG .nil) .nil))
    "3.0".toList
def exInnerB : List UInt8 := B "<<\t\rver:\"3.0\"\rx \rN\r>>"
def exOuterB : List UInt8 :=
  B "  ver:\"3.0\"\tdis:\"G\" m \r\na,  b foo\r\n1,\n, " ++ exInnerB ++ B " \r\n\n \n"

theorem exInner_sp : Spells exInnerG exInnerB :=
  spells_cast
  (Spells.grid _ _ _ _ [9] [13] _ (blanksOf _ (by decide)) Nl.cr
    (SpGrid.mk _ _ _ _ [] [] [13] _ [32] [13] _ SpMeta.none (blanksOf _ (by decide)) Nl.cr
      (SpCols.one ['x'] .none [] SpMeta.none) (blanksOf _ (by decide)) Nl.cr
      (SpRows.cons _ _ _ [(['x'], [78])] _ [] [13] [] (SpCells.cons ['x'] .null .nil [78] [] Spells.null SpCells.nil)
        (RowLine.one _ ['x']) (blanksOf _ (by decide)) Nl.cr (SpRows.nil _))))
  (by decide +kernel)

theorem one_sp : Spells (.num ⟨⟨0, ['1']⟩, none⟩) [49] :=
  Spells.num _ _ ((by decide : ((if false then [45] else []) ++ [49]) ++ unitText (none : Option (List Char)) = [49]) ▸
    NumSp.dec ⟨⟨0, ['1']⟩, none⟩ (by decide) (by decide) _ _
      (Decimal.int false [49] [49] (digitsOf _ _ (by decide) (by decide) (by decide))) (by decide))

theorem exOuter_sp : SpellsTop exOuterG exOuterB :=
  spellsTop_cast
  (SpellsTop.gridNl _ _ _ _ [32, 32] _ [] [10] [32, 10] (blanksOf _ (by decide))
    (SpGrid.mk _ _ _ _ _ [32] [13, 10] _ [] [13, 10] _
      (SpMeta.some _ [9] _ (blanksOf _ (by decide)) (by decide) (SpTags.space false _ _ _ _ _ _ [32] _
        (SpTag.val "dis".toList (.str ['G']) [] [34, 71, 34] (blanksOf _ (by decide))
          (Spells.str ['G'] _ ((by decide +kernel : 34 :: ((encChar 'G' ++ []) ++ [34]) = [34, 71, 34]) ▸
            Quoted.mk ['G'] _ (StrBody.cons 'G' _ _ _ (StrCh.raw 'G' (by decide) (by decide) (by decide) (by decide)) StrBody.nil))))
        (blanksOf _ (by decide)) (by decide) (SpTags.one false _ _ _ (SpTag.marker ['m']))))
      (blanksOf _ (by decide)) Nl.crlf
      (SpCols.cons ['a'] .none ['b'] _ .nil [] [32, 32] _ SpMeta.none (blanksOf _ (by decide))
        (SpCols.one ['b'] _ _ (SpMeta.some _ [32] _ (blanksOf _ (by decide)) (by decide)
          (SpTags.one false _ _ _ (SpTag.marker "foo".toList)))))
      (blanksOf _ (by decide)) Nl.crlf
      (SpRows.cons _ _ _ [(['a'], [49])] _ [] [10] _ (SpCells.cons ['a'] _ .nil [49] [] one_sp SpCells.nil)
        (RowLine.cons _ ['a'] ['b'] [] [] _ (blanksOf _ (by decide)) (RowLine.one _ ['b'])) (blanksOf _ (by decide)) Nl.lf
        (SpRows.cons _ _ _ [(['b'], exInnerB)] _ [32] [13, 10] [] (SpCells.cons ['b'] _ .nil exInnerB [] exInner_sp SpCells.nil)
          (RowLine.cons _ ['a'] ['b'] [] [32] _ (blanksOf _ (by decide)) (RowLine.one _ ['b'])) (blanksOf _ (by decide)) Nl.crlf
          (SpRows.nil _))))
    (blanksOf _ (by decide)) Nl.lf (by intro b hb; simp at hb; rcases hb with rfl | rfl <;> simp)
    (by intro _ _; decide +kernel))
  (by decide +kernel)

example : wfS exOuterG = true ∧ depthOk exOuterG = true := by decide +kernel
example : fromBytes exOuterB = .ok (Hs.C01.lexImage exOuterG) :=
  C04_read_holds exOuterG exOuterB (by decide +kernel) (by decide +kernel) exOuter_sp

/-- a document written with lone CRs throughout, and one more CR after it: `ver:"3.0"\rx\rN\r\r` -/
def exCrB : List UInt8 := B "ver:\"3.0\"\rx\rN\r\r"
theorem exCr_sp : SpellsTop exInnerG exCrB :=
  spellsTop_cast
  (SpellsTop.gridNl _ _ _ _ [] _ [] [13] [] (blanksOf _ (by decide))
    (SpGrid.mk _ _ _ _ [] [] [13] _ [] [13] _ SpMeta.none (blanksOf _ (by decide)) Nl.cr
      (SpCols.one ['x'] .none [] SpMeta.none) (blanksOf _ (by decide)) Nl.cr
      (SpRows.cons _ _ _ [(['x'], [78])] _ [] [13] [] (SpCells.cons ['x'] .null .nil [78] [] Spells.null SpCells.nil)
        (RowLine.one _ ['x']) (blanksOf _ (by decide)) Nl.cr (SpRows.nil _)))
    (blanksOf _ (by decide)) Nl.cr (by intro b hb; cases hb) (by intro _ e; cases e))
  (by decide +kernel)
example : fromBytes exCrB = .ok (Hs.C01.lexImage exInnerG) :=
  C04_read_holds exInnerG exCrB (by decide +kernel) (by decide +kernel) exCr_sp

/-- a Uri with the library's escapes: `` `a\:b\[cé` `` denotes `a\:b[cé` (the backslash of `\:` is kept) -/
def exUriB : List UInt8 := 96 :: ([97, 92, 58, 98, 92, 91, 99, 92, 117, 48, 48, 101, 57] ++ [96])
example : fromBytes exUriB = .ok (.uri "a\\:b[cé".toList) :=
  C04_read_holds (.uri "a\\:b[cé".toList) exUriB (by decide +kernel) (by decide +kernel)
    (spellsTop_cast (SpellsTop.other _ [] _ [] (by intro _ _ _ _ e; cases e) (blanksOf _ (by decide))
      (Spells.uri _ _ uriBody_example) trailer_nil) (by decide +kernel))

/-- a Time with its fraction written with one digit (`12:00:00.5`) and padded (`12:00:00.5000`) -/
def exTime : Time := ⟨12, 0, 0, 500000000, "12:00:00.500".toList⟩
example : timeOk exTime = true := by decide +kernel
example : TimeSp exTime (B "12:00:00.5") :=
  TimeSp.unpad _ _ (TimeSp.unpad _ (B "12:00:00.50") ((by decide +kernel : encChars exTime.txt = B "12:00:00.50" ++ [48]) ▸ TimeSp.canon exTime)
    (by decide)) (by decide)
example : TimeSp exTime (B "12:00:00.5000") :=
  TimeSp.pad _ _ ((by decide +kernel : encChars exTime.txt = B "12:00:00.500") ▸ TimeSp.canon exTime) (by decide) (by decide)

end spellings

end Hs.C04
