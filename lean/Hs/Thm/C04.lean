/-
  C04 — Zinc text conforms to the Project Haystack grammar in both directions.

  The independent implementation written from the specification is the reference reader
  `Hs.Spec.read` (Lean) and the reference writer harness/src/spell.rs (Rust).  On every run the
  reference reader reads the library's output for thousands of generated values and the library
  reads the reference writer's random spellings (both compared component by component).
  Theorems here: the escape tables of the library's reader and writer, regenerated from the
  source, agree with the grammar's table and with each other; the byte-exact model of the reader
  maps every grammar escape to the code point the grammar assigns; the reference reader and the
  model of the library's reader agree on the scalar sentences below (exhaustive for the finite kinds).
-/
import Hs.Spec.ZincRead
import Hs.Model.ZincEnc
import Hs.Model.ZincParse
import Hs.Gen.ZincEscapes
namespace Hs.C04
open Hs Hs.Zinc

/-- the grammar's Str escapes: `\b \f \n \r \t \" \\ \$` (byte after the backslash, code point) -/
def grammarEscapes : List (Nat × Nat) :=
  [(98, 8), (102, 12), (110, 10), (114, 13), (116, 9), (34, 34), (92, 92), (36, 36)]

/-- every grammar escape is read by the library, as the code point the grammar assigns -/
theorem reader_escapes_conform :
    grammarEscapes.all (fun e => Hs.Gen.strEscapesRead.contains e) = true := by decide

/-- the library reads no escape byte with two meanings -/
theorem reader_escapes_functional :
    Hs.Gen.strEscapesRead.all (fun e =>
      Hs.Gen.strEscapesRead.all (fun f => e.1 != f.1 || e.2 == f.2)) = true := by decide

/-- every escape the writer emits is a grammar escape denoting the character it was written for -/
theorem writer_escapes_conform :
    Hs.Gen.strEscapesWrite.all (fun w => grammarEscapes.contains (w.2, w.1)) = true := by decide

/-- writer and reader tables are inverse on what the writer emits -/
theorem writer_reader_inverse :
    Hs.Gen.strEscapesWrite.all (fun w => Hs.Gen.strEscapesRead.contains (w.2, w.1)) = true := by decide

/-- The model of `parse_str_escape` realises the translated reader table: for each row, the escape
`\x` at the start of any text yields exactly the row's code point (as UTF-8). -/
theorem model_realises_reader_table :
    Hs.Gen.strEscapesRead.all (fun e =>
      match parseStrEscape (Scan.make [92, UInt8.ofNat e.1, 34]) with
      | .ok (bs, _) => bs == encChar (Char.ofNat e.2)
      | _ => false) = true := by decide +kernel

/-- The model of the writer realises the translated writer table. -/
theorem model_realises_writer_table :
    Hs.Gen.strEscapesWrite.all (fun w => encStrChar (Char.ofNat w.1) == [92, UInt8.ofNat w.2]) = true := by
  decide +kernel

/-- control characters without a short escape are written as `\u00XX`, which the reference reader
and the model of the library's reader both read back (all 27 of them) -/
theorem control_chars_round_trip :
    (List.range 32).all (fun n =>
      let c := Char.ofNat n
      let t := encQuoted [c]
      (match Hs.Spec.read t with
       | some (.str s) => s == [c]
       | _ => false) &&
      (match fromBytes t with
       | .ok (.str s) => s == [c]
       | _ => false)) = true := by decide +kernel

/-- The property's write direction, full strength: the reference reader reads the library's text
for `v` as (the lexical image of) `v`.  `SameLex` compares modulo the lexical representation of
numbers.  Stated; decided on the implementation on every run (requests `C04 read`). -/
def C04_write (WF : Val → Prop) (SameLex : Val → Val → Prop) : Prop :=
  ∀ v, WF v → ∃ v', Hs.Spec.read (encode v) = some v' ∧ SameLex v v'

/-- finite kinds: both readers agree with the writer -/
theorem literals_conform :
    [Val.null, .marker, .remove, .na, .bool true, .bool false].all (fun v =>
      (match Hs.Spec.read (encode v), fromBytes (encode v) with
       | some a, .ok b => a.kindIdx == v.kindIdx && b.kindIdx == v.kindIdx &&
           (match a, b with
            | .bool x, .bool y => x == y && (match v with | .bool z => x == z | _ => false)
            | _, _ => true)
       | _, _ => false)) = true := by decide +kernel

end Hs.C04
