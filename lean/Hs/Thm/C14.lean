/-
  C14 — namespace caches are invisible: answers ignore query history and thread schedule.

  Model: Hs.Model.NsCache - the two DashMap caches of `Namespace` as shared state, every thread a program of
  atomic cache operations (`get` with read guard, `contains_key`, `insert`, drop of the guard) that is the code
  of `supertypes_of` / `inheritance` and their callers as written; `step` runs one operation of one thread;
  ANY number of threads, ANY schedule (`List ThreadId`), ANY initial caches satisfying the invariant (cold
  caches do), any per-thread query sequence.  The cache-free functions `pureAns` are those of Hs.Model.Ns (C13).

  What is proved is about this model.  That the Rust code performs exactly these operations in this order, that
  it holds at most one DashMap guard and drops it before the next cache operation, is read off the call sites
  (`supertypes_of`, `inheritance`, `all_supertypes_of`, `fits`, `find_reciprocal_associations`,
  `compute_entity_type`, `has_relationship`) by hand, and OS schedules are sampled by the harness, not
  enumerated: the property is claimed PARTIAL.
-/
import Hs.Lemmas.NsCacheSys
import Hs.Lemmas.NsSpec
namespace Hs.C14
open Hs Hs.Ns Hs.NsCache

variable {cfg : Cfg} {qss : List (List Query)}

/-- `Inv`: every cached value is the value of the cache-free function for its key (part of `GInv`, which also
says that every thread's remaining program is correct against any invariant-preserving environment and obeys
the guard discipline). -/
theorem inv_step {s : State} (h : GInv cfg qss s) (t : Nat) : GInv cfg qss (step cfg s t) := ginv_step h t

/-- induction over any schedule of any number of threads, from any invariant-satisfying caches -/
theorem inv_reachable (c0 : Caches) (h0 : Inv cfg c0) (sched : List Nat) :
    GInv cfg qss (run cfg (init cfg c0 qss) sched) := ginv_run sched _ (ginv_init cfg c0 h0 qss)

theorem cold_inv : Inv cfg cold := inv_cold cfg

/-- the caches of every reachable state hold only values of the cache-free functions -/
theorem cache_inv_reachable (c0 : Caches) (h0 : Inv cfg c0) (sched : List Nat) :
    ∀ c k v, look c k (run cfg (init cfg c0 qss) sched).c = some v → Correct cfg c k v :=
  (inv_reachable (qss := qss) c0 h0 sched).inv

/-- every completed thread returned, for each of its queries in order, the answer of the cache-free function -/
theorem answer_eq_pure (c0 : Caches) (h0 : Inv cfg c0) (sched : List Nat) (t : Nat) (th : Thread)
    (as : List Ans) (ht : (run cfg (init cfg c0 qss) sched).thr[t]? = some th) (hp : th.prog = .ret as) :
    as = (qss.getD t []).map (pureAns cfg) := by
  have hg := (inv_reachable (qss := qss) c0 h0 sched).good t th ht
  rw [hp] at hg
  cases hg with
  | ret h => exact h

/-- History and schedule independence: two runs of the same namespace - different initial cache contents,
different other threads, different schedules, different positions of the thread - give a thread with the same
query list the same answers. -/
theorem answers_independent {qss' : List (List Query)} (c0 c0' : Caches) (h0 : Inv cfg c0) (h0' : Inv cfg c0')
    (sched sched' : List Nat) (t t' : Nat) (th th' : Thread) (as as' : List Ans)
    (hq : qss.getD t [] = qss'.getD t' [])
    (ht : (run cfg (init cfg c0 qss) sched).thr[t]? = some th) (hp : th.prog = .ret as)
    (ht' : (run cfg (init cfg c0' qss') sched').thr[t']? = some th') (hp' : th'.prog = .ret as') :
    as = as' := by
  rw [answer_eq_pure c0 h0 sched t th as ht hp, answer_eq_pure c0' h0' sched' t' th' as' ht' hp', hq]

/-- only complete, correct values are ever inserted -/
theorem no_partial_value (c0 : Caches) (h0 : Inv cfg c0) (sched : List Nat) (t : Nat) (th : Thread)
    (c : CacheId) (k : Name) (v : V) (cont : Prog (List Ans))
    (ht : (run cfg (init cfg c0 qss) sched).thr[t]? = some th) (hp : th.prog = .ins c k v cont) :
    Correct cfg c k v := by
  have hg := (inv_reachable (qss := qss) c0 h0 sched).good t th ht
  rw [hp] at hg
  cases hg with
  | ins hc _ => exact hc

/-- a thread holds at most one guard, and a thread that holds one is about to drop it -/
theorem one_guard (c0 : Caches) (h0 : Inv cfg c0) (sched : List Nat) (t : Nat) (th : Thread)
    (ht : (run cfg (init cfg c0 qss) sched).thr[t]? = some th) :
    th.held.length ≤ 1 ∧ (th.held ≠ [] → ∃ cont, th.prog = .drop cont) :=
  ⟨((inv_reachable (qss := qss) c0 h0 sched).safe t th ht).2,
   fun hh => holder_drops (inv_reachable (qss := qss) c0 h0 sched) ht hh⟩

/-- no hold-and-wait: in every reachable state a thread that holds a guard can take its next step -/
theorem no_hold_and_wait (c0 : Caches) (h0 : Inv cfg c0) (sched : List Nat) (t : Nat) (th : Thread)
    (ht : (run cfg (init cfg c0 qss) sched).thr[t]? = some th) (hh : th.held ≠ []) :
    enabled cfg (run cfg (init cfg c0 qss) sched) t = true :=
  holder_enabled (inv_reachable (qss := qss) c0 h0 sched) ht hh

/-- a thread that waits for a write lock holds no guard -/
theorem waiting_holds_nothing (c0 : Caches) (h0 : Inv cfg c0) (sched : List Nat) (t : Nat)
    (hb : blocked cfg (run cfg (init cfg c0 qss) sched) t = true) :
    ∃ th, (run cfg (init cfg c0 qss) sched).thr[t]? = some th ∧ th.held = [] :=
  blocked_holds_nothing (inv_reachable (qss := qss) c0 h0 sched) hb

/-- deadlock freedom: in every reachable state, if some thread has not finished, some thread is enabled -/
theorem deadlock_free (c0 : Caches) (h0 : Inv cfg c0) (sched : List Nat) (t : Nat)
    (hf : finished (run cfg (init cfg c0 qss) sched) t = false) :
    ∃ u, enabled cfg (run cfg (init cfg c0 qss) sched) u = true :=
  some_enabled (inv_reachable (qss := qss) c0 h0 sched) t hf

/-- On EVERY namespace (cyclic `is` graphs included, C13) with the fuel of C13 the `compute_entity_type` loop
always completes, so the answer to a `reflect` query is C13's `reflect`. -/
theorem reflectFull_eq_reflect (rows : List Row) (fuel : Nat)
    (hf : fuelFor (make rows).defs ≤ fuel) (r : Rec) :
    reflectFull fuel (make rows) r = reflect fuel (make rows) r := by
  have hloop : ∀ ds : List Name, entityLoop fuel (make rows) ds = .ok () := by
    intro ds
    induction ds with
    | nil => rfl
    | cons d ds ih =>
      obtain ⟨res, h1, _⟩ := Ns.inheritance_spec rows fuel hf d
      simp only [entityLoop, h1, ih]
  obtain ⟨res, h1, _⟩ := Ns.reflect_spec rows fuel hf r
  unfold reflectFull
  rw [h1]
  simp only [hloop]
  split <;> rfl

/-- The property at full strength (for the model). -/
def C14_full : Prop :=
  ∀ (cfg : Cfg) (qss : List (List Query)) (c0 : Caches), Inv cfg c0 → ∀ sched : List Nat,
    let s := run cfg (init cfg c0 qss) sched
    (∀ c k v, look c k s.c = some v → Correct cfg c k v) ∧
    (∀ (t : Nat) (th : Thread) (as : List Ans), s.thr[t]? = some th → th.prog = .ret as →
      as = (qss.getD t []).map (pureAns cfg)) ∧
    (∀ (t : Nat) (th : Thread) (c : CacheId) (k : Name) (v : V) (cont : Prog (List Ans)),
      s.thr[t]? = some th → th.prog = .ins c k v cont → Correct cfg c k v) ∧
    (∀ (t : Nat) (th : Thread), s.thr[t]? = some th →
      th.held.length ≤ 1 ∧ (th.held ≠ [] → enabled cfg s t = true)) ∧
    (∀ t, finished s t = false → ∃ u, enabled cfg s u = true)

theorem C14_holds : C14_full := fun _ _ c0 h0 sched =>
  ⟨cache_inv_reachable c0 h0 sched,
   fun t th as ht hp => answer_eq_pure c0 h0 sched t th as ht hp,
   fun t th c k v cont ht hp => no_partial_value c0 h0 sched t th c k v cont ht hp,
   fun t th ht => ⟨(one_guard c0 h0 sched t th ht).1, fun hh => no_hold_and_wait c0 h0 sched t th ht hh⟩,
   fun t hf => deadlock_free c0 h0 sched t hf⟩

/-! Non-vacuity.  The example namespace of C13 (diamond, undefined supertype, conjunct), one shard for all
keys (the most blocking choice), two threads asking overlapping queries against cold caches. -/
def exRows : List Row :=
  [ { name := some ['m'], isRaw := [] },
    { name := some ['a'], isRaw := [some ['m']] },
    { name := some ['b'], isRaw := [some ['m'], some ['z', 'z'], none] },
    { name := some ['d'], isRaw := [some ['a'], some ['b']] },
    { name := some ['a', '-', 'b'], isRaw := [some ['d']] } ]
def exCfg : Cfg := { ns := make exRows, fuel := fuelFor (make exRows).defs, shard := fun _ => 0 }
def exQss : List (List Query) :=
  [ [.inh ['d'], .fits ['a', '-', 'b'] ['m']], [.allSup ['d'], .inh ['d'], .reflFits [(['a'], true), (['b'], true)] ['d']] ]

def answers (s : State) (t : Nat) : Option (List Ans) :=
  match s.thr[t]? with
  | some th => match th.prog with
    | .ret as => some as
    | _ => none
  | none => none

/-- strict alternation until both are done: both threads get the cache-free answers -/
example : let s := run exCfg (init exCfg cold exQss) (List.replicate 200 [0, 1]).flatten
    answers s 0 = some (exQss[0]!.map (pureAns exCfg)) ∧ answers s 1 = some (exQss[1]!.map (pureAns exCfg)) ∧
    finished s 0 = true ∧ finished s 1 = true := by decide +kernel

/-- thread 1 first, then thread 0 on warm caches: same answers -/
example : let s := run exCfg (init exCfg cold exQss) (List.replicate 300 1 ++ List.replicate 300 0)
    answers s 0 = some (exQss[0]!.map (pureAns exCfg)) ∧ answers s 1 = some (exQss[1]!.map (pureAns exCfg)) := by
  decide +kernel

/-- a state in which a thread waits: thread 0 has missed `inh d`, computed the value and is about to insert
when thread 1 (on caches warmed by itself) holds a guard of the same shard; thread 1 is enabled, and after its
drop thread 0 proceeds. -/
def exQss2 : List (List Query) := [[.sup ['d']], [.sup ['a'], .sup ['a']]]
def exWait : State := run exCfg (init exCfg cold exQss2) [1, 1, 1, 1, 1, 0, 0, 1]
example : blocked exCfg exWait 0 = true ∧ enabled exCfg exWait 0 = false ∧ enabled exCfg exWait 1 = true ∧
    blocked exCfg (step exCfg exWait 1) 0 = false := by decide +kernel

end Hs.C14
