/-
  C14 — namespace caches are invisible: answers ignore query history and thread schedule.

  Model: Hs.Model.NsCache - the two DashMap caches of `Namespace` as shared state, every thread a program of
  atomic cache operations (`get` with read guard, `contains_key`, `insert`, drop of the guard) that is the code
  of `supertypes_of` / `inheritance` and their callers as written; `step` runs one operation of one thread;
  ANY number of threads, ANY schedule (`List ThreadId`), ANY initial caches satisfying the invariant (cold
  caches do), any per-thread query sequence.  The cache-free functions `pureAns` are those of Hs.Model.Ns (C13).

  What is proved is about this model.  That the Rust code performs exactly these operations in this order, that
  it holds at most one DashMap guard and drops it before the next cache operation, is read off the call sites
  (`supertypes_of`, `inheritance`, `all_supertypes_of`, `fits`, `find_reciprocal_associations`,
  `compute_entity_type`, `has_relationship`) by hand, and OS schedules are sampled by the harness, not
  enumerated: the property is claimed PARTIAL.

  CALLERS THAT KEEP AN ANSWER (second half of the file; known finding GUARD, known/C14.json).  `supertypes_of` /
  `inheritance` RETURN the DashMap read guard.  The theorems of the first half are about the programs the library
  itself runs, which drop every guard before their next cache operation.  For callers of the public functions
  (Hs.Model.NsCacheCaller: scripts of `ask` / `keep` / `release`, or arbitrary `Prog`s) the second half proves
    - the counterexample: `C14_kept_answer_deadlocks_one_thread`, `C14_kept_answers_deadlock_two_threads`,
      `C14_deadlock_free_fails_for_keeping_callers` (kernel-checked, two defs in one shard);
    - the boundary, for ALL configurations and schedules: `C14_deadlock_free_disciplined` (drop before the next
      query: deadlock free, the library's programs are of this kind), `C14_kept_answer_warm_ok` (a kept answer
      followed by warm queries only never waits), `C14_kept_answer_answers_unchanged` (a kept answer never changes
      an answer).
-/
import Hs.Lemmas.NsRelLazy
import Hs.Lemmas.NsCacheSys
import Hs.Lemmas.NsCacheKept
import Hs.Lemmas.NsSpec
namespace Hs.C14
open Hs Hs.Ns Hs.NsCache

variable {cfg : Cfg} {qss : List (List Query)}

/-- `Inv`: every cached value is the value of the cache-free function for its key (part of `GInv`, which also
says that every thread's remaining program is correct against any invariant-preserving environment and obeys
the guard discipline). -/
theorem inv_step {s : State} (h : GInv cfg qss s) (t : Nat) : GInv cfg qss (step cfg s t) := ginv_step h t

/-- induction over any schedule of any number of threads, from any invariant-satisfying caches -/
theorem inv_reachable (c0 : Caches) (h0 : Inv cfg c0) (sched : List Nat) :
    GInv cfg qss (run cfg (init cfg c0 qss) sched) := ginv_run sched _ (ginv_init cfg c0 h0 qss)

theorem cold_inv : Inv cfg cold := inv_cold cfg

/-- the caches of every reachable state hold only values of the cache-free functions -/
theorem cache_inv_reachable (c0 : Caches) (h0 : Inv cfg c0) (sched : List Nat) :
    ∀ c k v, look c k (run cfg (init cfg c0 qss) sched).c = some v → Correct cfg c k v :=
  (inv_reachable (qss := qss) c0 h0 sched).inv

/-- every completed thread returned, for each of its queries in order, the answer of the cache-free function -/
theorem answer_eq_pure (c0 : Caches) (h0 : Inv cfg c0) (sched : List Nat) (t : Nat) (th : Thread)
    (as : List Ans) (ht : (run cfg (init cfg c0 qss) sched).thr[t]? = some th) (hp : th.prog = .ret as) :
    as = (qss.getD t []).map (pureAns cfg) := by
  have hg := (inv_reachable (qss := qss) c0 h0 sched).good t th ht
  rw [hp] at hg
  cases hg with
  | ret h => exact h

/-- History and schedule independence: two runs of the same namespace - different initial cache contents,
different other threads, different schedules, different positions of the thread - give a thread with the same
query list the same answers. -/
theorem answers_independent {qss' : List (List Query)} (c0 c0' : Caches) (h0 : Inv cfg c0) (h0' : Inv cfg c0')
    (sched sched' : List Nat) (t t' : Nat) (th th' : Thread) (as as' : List Ans)
    (hq : qss.getD t [] = qss'.getD t' [])
    (ht : (run cfg (init cfg c0 qss) sched).thr[t]? = some th) (hp : th.prog = .ret as)
    (ht' : (run cfg (init cfg c0' qss') sched').thr[t']? = some th') (hp' : th'.prog = .ret as') :
    as = as' := by
  rw [answer_eq_pure c0 h0 sched t th as ht hp, answer_eq_pure c0' h0' sched' t' th' as' ht' hp', hq]

/-- only complete, correct values are ever inserted -/
theorem no_partial_value (c0 : Caches) (h0 : Inv cfg c0) (sched : List Nat) (t : Nat) (th : Thread)
    (c : CacheId) (k : Name) (v : V) (cont : Prog (List Ans))
    (ht : (run cfg (init cfg c0 qss) sched).thr[t]? = some th) (hp : th.prog = .ins c k v cont) :
    Correct cfg c k v := by
  have hg := (inv_reachable (qss := qss) c0 h0 sched).good t th ht
  rw [hp] at hg
  cases hg with
  | ins hc _ => exact hc

/-- a thread holds at most one guard, and a thread that holds one is about to drop it -/
theorem one_guard (c0 : Caches) (h0 : Inv cfg c0) (sched : List Nat) (t : Nat) (th : Thread)
    (ht : (run cfg (init cfg c0 qss) sched).thr[t]? = some th) :
    th.held.length ≤ 1 ∧ (th.held ≠ [] → ∃ cont, th.prog = .drop cont) :=
  ⟨((inv_reachable (qss := qss) c0 h0 sched).safe t th ht).2,
   fun hh => holder_drops (inv_reachable (qss := qss) c0 h0 sched) ht hh⟩

/-- no hold-and-wait: in every reachable state a thread that holds a guard can take its next step -/
theorem no_hold_and_wait (c0 : Caches) (h0 : Inv cfg c0) (sched : List Nat) (t : Nat) (th : Thread)
    (ht : (run cfg (init cfg c0 qss) sched).thr[t]? = some th) (hh : th.held ≠ []) :
    enabled cfg (run cfg (init cfg c0 qss) sched) t = true :=
  holder_enabled (inv_reachable (qss := qss) c0 h0 sched) ht hh

/-- a thread that waits for a write lock holds no guard -/
theorem waiting_holds_nothing (c0 : Caches) (h0 : Inv cfg c0) (sched : List Nat) (t : Nat)
    (hb : blocked cfg (run cfg (init cfg c0 qss) sched) t = true) :
    ∃ th, (run cfg (init cfg c0 qss) sched).thr[t]? = some th ∧ th.held = [] :=
  blocked_holds_nothing (inv_reachable (qss := qss) c0 h0 sched) hb

/-- deadlock freedom: in every reachable state, if some thread has not finished, some thread is enabled -/
theorem deadlock_free (c0 : Caches) (h0 : Inv cfg c0) (sched : List Nat) (t : Nat)
    (hf : finished (run cfg (init cfg c0 qss) sched) t = false) :
    ∃ u, enabled cfg (run cfg (init cfg c0 qss) sched) u = true :=
  some_enabled (inv_reachable (qss := qss) c0 h0 sched) t hf

/-- On EVERY namespace (cyclic `is` graphs included, C13) with the fuel of C13 the `compute_entity_type` loop
always completes, so the answer to a `reflect` query is C13's `reflect`. -/
theorem reflectFull_eq_reflect (rows : List Row) (fuel : Nat)
    (hf : fuelFor (make rows).defs ≤ fuel) (r : Rec) :
    reflectFull fuel (make rows) r = reflect fuel (make rows) r := by
  have hloop : ∀ ds : List Name, entityLoop fuel (make rows) ds = .ok () := by
    intro ds
    induction ds with
    | nil => rfl
    | cons d ds ih =>
      obtain ⟨res, h1, _⟩ := Ns.inheritance_spec rows fuel hf d
      simp only [entityLoop, h1, ih]
  obtain ⟨res, h1, _⟩ := Ns.reflect_spec rows fuel hf r
  unfold reflectFull
  rw [h1]
  simp only [hloop]
  split <;> rfl

/-- The property at full strength (for the model). -/
def C14_full : Prop :=
  ∀ (cfg : Cfg) (qss : List (List Query)) (c0 : Caches), Inv cfg c0 → ∀ sched : List Nat,
    let s := run cfg (init cfg c0 qss) sched
    (∀ c k v, look c k s.c = some v → Correct cfg c k v) ∧
    (∀ (t : Nat) (th : Thread) (as : List Ans), s.thr[t]? = some th → th.prog = .ret as →
      as = (qss.getD t []).map (pureAns cfg)) ∧
    (∀ (t : Nat) (th : Thread) (c : CacheId) (k : Name) (v : V) (cont : Prog (List Ans)),
      s.thr[t]? = some th → th.prog = .ins c k v cont → Correct cfg c k v) ∧
    (∀ (t : Nat) (th : Thread), s.thr[t]? = some th →
      th.held.length ≤ 1 ∧ (th.held ≠ [] → enabled cfg s t = true)) ∧
    (∀ t, finished s t = false → ∃ u, enabled cfg s u = true)

theorem C14_holds : C14_full := fun _ _ c0 h0 sched =>
  ⟨cache_inv_reachable c0 h0 sched,
   fun t th as ht hp => answer_eq_pure c0 h0 sched t th as ht hp,
   fun t th c k v cont ht hp => no_partial_value c0 h0 sched t th c k v cont ht hp,
   fun t th ht => ⟨(one_guard c0 h0 sched t th ht).1, fun hh => no_hold_and_wait c0 h0 sched t th ht hh⟩,
   fun t hf => deadlock_free c0 h0 sched t hf⟩

/-! Non-vacuity.  The example namespace of C13 (diamond, undefined supertype, conjunct), one shard for all
keys (the most blocking choice), two threads asking overlapping queries against cold caches. -/
def exRows : List Row :=
  [ { name := some ['m'], isRaw := [] },
    { name := some ['a'], isRaw := [some ['m']] },
    { name := some ['b'], isRaw := [some ['m'], some ['z', 'z'], none] },
    { name := some ['d'], isRaw := [some ['a'], some ['b']] },
    { name := some ['a', '-', 'b'], isRaw := [some ['d']] } ]
def exCfg : Cfg := { ns := make exRows, fuel := fuelFor (make exRows).defs, shard := fun _ => 0 }
def exQss : List (List Query) :=
  [ [.inh ['d'], .fits ['a', '-', 'b'] ['m']], [.allSup ['d'], .inh ['d'], .reflFits [(['a'], true), (['b'], true)] ['d']] ]

def answers (s : State) (t : Nat) : Option (List Ans) :=
  match s.thr[t]? with
  | some th => match th.prog with
    | .ret as => some as
    | _ => none
  | none => none

/-- strict alternation until both are done: both threads get the cache-free answers -/
example : let s := run exCfg (init exCfg cold exQss) (List.replicate 200 [0, 1]).flatten
    answers s 0 = some (exQss[0]!.map (pureAns exCfg)) ∧ answers s 1 = some (exQss[1]!.map (pureAns exCfg)) ∧
    finished s 0 = true ∧ finished s 1 = true := by decide +kernel

/-- thread 1 first, then thread 0 on warm caches: same answers -/
example : let s := run exCfg (init exCfg cold exQss) (List.replicate 300 1 ++ List.replicate 300 0)
    answers s 0 = some (exQss[0]!.map (pureAns exCfg)) ∧ answers s 1 = some (exQss[1]!.map (pureAns exCfg)) := by
  decide +kernel

/-- a state in which a thread waits: thread 0 has missed `inh d`, computed the value and is about to insert
when thread 1 (on caches warmed by itself) holds a guard of the same shard; thread 1 is enabled, and after its
drop thread 0 proceeds. -/
def exQss2 : List (List Query) := [[.sup ['d']], [.sup ['a'], .sup ['a']]]
def exWait : State := run exCfg (init exCfg cold exQss2) [1, 1, 1, 1, 1, 0, 0, 1]
example : blocked exCfg exWait 0 = true ∧ enabled exCfg exWait 0 = false ∧ enabled exCfg exWait 1 = true ∧
    blocked exCfg (step exCfg exWait 1) 0 = false := by decide +kernel


/-! ## Callers that KEEP an answer (formal counterpart of known finding GUARD)

`Namespace::supertypes_of` / `inheritance` return a read guard into the cache shard.  Everything above is about
programs that drop it before their next cache operation (`Safe`); the library's own code is of that kind.  The
system itself (`step`, `run`, `blocked`, `enabled`) runs ANY thread program: `initP c0 progs`. -/

/-- THE DISCIPLINE, on arbitrary programs: every `get` / `contains_key` / `insert` is performed while NO answer is
alive, i.e. every answer is dropped before the next query (`Safe false`, Hs.Lemmas.NsCacheSys).  `Prog` is
higher-order (a continuation is a function of the cached vector), so on `Prog` this is an inductive predicate; on
caller SCRIPTS it is the decidable `dropsBeforeNext` (`script_disciplined`). -/
def DropsBeforeNext {α : Type} (p : Prog α) : Prop := Safe false p

/-- Deadlock freedom for the thread programs of a class `P`: from any caches satisfying the invariant, under any
schedule, for any number of threads - if some thread has not finished, some thread can take a step. -/
def DeadlockFreeFor (P : Cfg → Prog (List Ans) → Prop) : Prop :=
  ∀ (cfg : Cfg) (progs : List (Prog (List Ans))) (c0 : Caches), Inv cfg c0 → (∀ p ∈ progs, P cfg p) →
    ∀ (sched : List Nat) (t : Nat), finished (run cfg (initP c0 progs) sched) t = false →
      ∃ u, enabled cfg (run cfg (initP c0 progs) sched) u = true

/-- the programs callers of the public API can write: scripts of `ask` / `keep` / `release` -/
def IsCaller (cfg : Cfg) (p : Prog (List Ans)) : Prop := ∃ sc : Script, p = callerP cfg sc 0

/-! ### (a) the discipline gives deadlock freedom, and the library obeys it -/

/-- **Positive boundary (a).**  Threads that drop every answer before their next query never deadlock: ALL
configurations, shard functions, thread counts, schedules, and (not even needed) all initial caches. -/
theorem C14_deadlock_free_disciplined : DeadlockFreeFor (fun _ p => DropsBeforeNext p) :=
  fun _ _ c0 _ hP sched t hf => sinv_some_enabled (sinv_run sched _ (sinv_initP c0 hP)) t hf

/-- the same without the hypothesis on the caches, with the guard facts: no reachable state is a deadlock, a thread
holds at most one guard, a guard holder is enabled -/
theorem C14_disciplined_never_deadlocks (cfg : Cfg) (progs : List (Prog (List Ans))) (c0 : Caches)
    (hP : ∀ p ∈ progs, DropsBeforeNext p) (sched : List Nat) :
    let s := run cfg (initP c0 progs) sched
    ¬ Deadlock cfg s ∧
    ∀ (t : Nat) (th : Thread), s.thr[t]? = some th → th.held.length ≤ 1 ∧ (th.held ≠ [] → enabled cfg s t = true) := by
  have hs : SInv (run cfg (initP c0 progs) sched) := sinv_run sched _ (sinv_initP c0 hP)
  refine ⟨fun hd => ?_, fun t th ht => ⟨(hs t th ht).2, fun hh => sinv_holder_enabled hs ht hh⟩⟩
  obtain ⟨⟨t, hf⟩, _⟩ := deadlock_stuck hd
  obtain ⟨u, hu⟩ := sinv_some_enabled (cfg := cfg) hs t hf
  rw [stuck_no_enabled (deadlock_stuck hd) u] at hu
  cases hu

/-- every program the library itself runs obeys the discipline: `supertypes_of` + read, `all_supertypes_of`,
`inheritance` + read, `fits`, `reflect` (with the `compute_entity_type` loop), `Reflection::fits` … -/
theorem library_disciplined (cfg : Cfg) :
    (∀ k, DropsBeforeNext (supG cfg.ns.defs k)) ∧
    (∀ k, DropsBeforeNext (allSupP cfg.fuel cfg.ns.defs k)) ∧
    (∀ k, DropsBeforeNext (inhG cfg.fuel cfg.ns k)) ∧
    (∀ a b, DropsBeforeNext (fitsP cfg.fuel cfg.ns a b)) ∧
    (∀ r, DropsBeforeNext (reflectP cfg.fuel cfg.ns r)) ∧
    (∀ r b, DropsBeforeNext (reflFitsP cfg.fuel cfg.ns r b)) ∧
    (∀ q, DropsBeforeNext (queryP cfg q)) ∧
    (∀ qs, DropsBeforeNext (runQs cfg qs)) :=
  ⟨safe_supG _, safe_allSupP _ _, safe_inhG _ _, safe_fitsP _ _, safe_reflectP _ _, safe_reflFitsP _ _,
   safe_queryP cfg, safe_runQs cfg⟩

/-- … and so does every caller script that passes the decidable test `dropsBeforeNext`: each `keep` is followed at
once by its `release` (or ends the script) -/
theorem script_disciplined (cfg : Cfg) (sc : Script) (h : dropsBeforeNext sc = true) :
    DropsBeforeNext (callerP cfg sc 0) := safe_callerP cfg sc h

theorem init_eq_initP (cfg : Cfg) (c0 : Caches) (qss : List (List Query)) :
    init cfg c0 qss = initP c0 (qss.map (runQs cfg)) := by
  simp [init, initP, List.map_map, Function.comp_def]

/-- `deadlock_free` above is the instance "threads run the library's programs" - for ANY initial caches -/
theorem C14_deadlock_free_library (cfg : Cfg) (qss : List (List Query)) (c0 : Caches) (sched : List Nat) (t : Nat)
    (hf : finished (run cfg (init cfg c0 qss) sched) t = false) :
    ∃ u, enabled cfg (run cfg (init cfg c0 qss) sched) u = true := by
  rw [init_eq_initP] at hf ⊢
  refine sinv_some_enabled (sinv_run sched _ (sinv_initP c0 ?_)) t hf
  intro p hp
  obtain ⟨qs, _, rfl⟩ := List.mem_map.1 hp
  exact safe_runQs cfg qs

/-! ## The association / implementation / relationship queries (C13 part 2)

`Query` also has `assoc p a` (`associations`; `is`, `tag_on`, `tags` are instances), `impl k` (`implementation`),
`fitsRoot w k` (`fits_marker/val/choice/entity`) and `rel ..` (`has_relationship` with the resolver's records, `fits`
called where the code calls it).  Their programs touch the caches only through `inheritance`, `all_supertypes_of`
and `fits`, so everything above - `C14_holds` for every interleaving of any number of threads, the discipline,
deadlock freedom - covers them without a further word.  What their cache-free answers ARE: -/

theorem part2_answers_are_C13 (cfg : Cfg) :
    (∀ p a, pureAns cfg (.assoc p a) = .names (NsA.associations cfg.fuel cfg.x p a)) ∧
    (∀ k, pureAns cfg (.impl k) = .pair (NsA.implementation cfg.fuel cfg.x k)) ∧
    (∀ w k, pureAns cfg (.fitsRoot w k) = .bool (NsA.fitsRoot cfg.fuel cfg.x w k)) ∧
    (∀ recs r term target s, pureAns cfg (.rel recs r term target s)
        = .bool (hasRelationshipL cfg.fuel (recs.length + 1) cfg.x recs r term target s)) :=
  ⟨fun _ _ => rfl, fun _ => rfl, fun _ _ => rfl, fun _ _ _ _ _ => rfl⟩

/-- the configuration of a namespace built by `makeX` -/
def cfgOf (rows : List NsA.RowX) (shard : Name → Nat) : Cfg :=
  { ns := (NsA.makeX rows).ns, fuel := fuelFor (NsA.makeX rows).ns.defs, shard := shard, xd := (NsA.makeX rows).xd }

/-- `has_relationship`, under every interleaving with any other queries of any number of threads: it answers (no
endless walk over the resolver's records, whatever cycles their Refs form), and its answer is the function of
C13 part 2 - the abstract loop of C09 over records classified up front -/
theorem has_relationship_answer (rows : List NsA.RowX) (shard : Name → Nat) (recs : List NsA.RecX) (r : Name)
    (term target : Option Name) (s : NsA.RecX) :
    pureAns (cfgOf rows shard) (.rel recs r term target s)
      = .bool (NsA.hasRelationship (fuelFor (NsA.makeX rows).ns.defs) (recs.length + 1) (NsA.makeX rows) recs r term target s) ∧
    ∃ b, pureAns (cfgOf rows shard) (.rel recs r term target s) = .bool (.ok b) := by
  have h1 : pureAns (cfgOf rows shard) (.rel recs r term target s)
      = .bool (NsA.hasRelationship (fuelFor (NsA.makeX rows).ns.defs) (recs.length + 1) (NsA.makeX rows) recs r term target s) := by
    show Ans.bool (hasRelationshipL (fuelFor (NsA.makeX rows).ns.defs) _ (NsA.makeX rows) recs r term target s) = _
    rw [hasRelationshipL_eq rows _ (Nat.le_refl _)]
  refine ⟨h1, ?_⟩
  obtain ⟨b, hb⟩ := NsA.hasRelationship_total rows _ (Nat.le_refl _) recs (recs.length + 1) (Nat.lt_succ_self _) r term target s
  exact ⟨b, by rw [h1, hb]⟩

/-- the programs of these queries obey the guard discipline like the others -/
theorem library_disciplined_part2 (cfg : Cfg) :
    (∀ p a, DropsBeforeNext (associationsP cfg.fuel cfg.x p a)) ∧
    (∀ k, DropsBeforeNext (implementationP cfg.fuel cfg.x k)) ∧
    (∀ lf recs r term target s, DropsBeforeNext (hasRelationshipP cfg.fuel lf cfg.x recs r term target s)) :=
  ⟨safe_associationsP _ _, safe_implementationP _ _, fun lf recs r term target s => safe_hasRelationshipP _ lf _ recs r term target s⟩

/-! Non-vacuity: a miniature library (`tags` computed from `tagOn`; `containedBy` transitive), two threads asking
`tags`, `implementation`, `fits_entity` and a transitive `has_relationship` over records whose Refs form a cycle,
against cold caches under strict alternation: the cache-free answers. -/
section
open Hs.NsA
def xRows : List RowX :=
  [ { name := some nAssociation, tags := [] },
    { name := some nRelationship, tags := [] },
    { name := some nTagOn, tags := [(nIs, .list [some nAssociation])] },
    { name := some nTags, tags := [(nIs, .list [some nAssociation]), (nComputed, .marker), (nReciprocalOf, .sym nTagOn)] },
    { name := some nEntity, tags := [] },
    { name := some ['e','q'], tags := [(nIs, .list [some nEntity]), (nMandatory, .marker)] },
    { name := some ['a','h'], tags := [(nIs, .list [some ['e','q']])] },
    { name := some ['f'], tags := [(nTagOn, .list [some ['e','q']])] },
    { name := some ['c','b'], tags := [(nIs, .list [some nRelationship]), (nTransitive, .marker)] },
    { name := some ['e','R'], tags := [(['c','b'], .sym ['e','q'])] } ]
def xCfg : Cfg := cfgOf xRows (fun _ => 0)
def xRecs : List RecX :=
  [ { key := some ['1'], id := some ['1'], tags := [{ key := ['e','R'], ref := some ['2'] }, { key := ['i','d'], ref := some ['1'] }] },
    { key := some ['2'], id := some ['2'], tags := [{ key := ['e','R'], ref := some ['1'] }, { key := ['i','d'], ref := some ['2'] }] } ]
def xQss : List (List Query) :=
  [ [.assoc ['a','h'] nTags, .rel xRecs ['c','b'] (some ['e','q']) (some ['2']) xRecs[0]!],
    [.impl ['a','h'], .fitsRoot 3 ['a','h'], .rel xRecs ['c','b'] none (some ['9']) xRecs[0]!] ]

example : pureAns xCfg (.assoc ['a','h'] nTags) = .names (.ok [['f']]) ∧
    pureAns xCfg (.impl ['a','h']) = .pair (.ok ([['a','h']], [['e','q']])) ∧
    pureAns xCfg (.fitsRoot 3 ['a','h']) = .bool (.ok true) ∧
    pureAns xCfg (.rel xRecs ['c','b'] (some ['e','q']) (some ['2']) xRecs[0]!) = .bool (.ok true) ∧
    pureAns xCfg (.rel xRecs ['c','b'] none (some ['9']) xRecs[0]!) = .bool (.ok false) := by decide +kernel

example : let s := run xCfg (init xCfg cold xQss) (List.replicate 400 [0, 1]).flatten
    answers s 0 = some (xQss[0]!.map (pureAns xCfg)) ∧ answers s 1 = some (xQss[1]!.map (pureAns xCfg)) ∧
    finished s 0 = true ∧ finished s 1 = true := by decide +kernel
end


/-! ### the counterexample: two defs in one shard -/

/-- five defs; two DashMap shards, the shard of a symbol is the parity of its length: `x`, `y`, `m` share shard 1,
`xx`, `yy` share shard 0 -/
def kRows : List Row :=
  [ { name := some ['m'], isRaw := [] },
    { name := some ['x'], isRaw := [some ['m']] },
    { name := some ['y'], isRaw := [some ['m']] },
    { name := some ['x', 'x'], isRaw := [some ['m']] },
    { name := some ['y', 'y'], isRaw := [some ['m']] } ]
def kCfg : Cfg := { ns := make kRows, fuel := fuelFor (make kRows).defs, shard := fun k => k.length % 2 }

/-- `let g = ns.supertypes_of(^x); ns.supertypes_of(^y);` -/
def kSelf : Script := [.keep .sup ['x'], .ask (.sup ['y'])]

theorem kSelf_is_keepThen : callerP kCfg kSelf 0 = keepThen kCfg .sup ['x'] (.sup ['y']) := rfl

/-- after six steps (miss, absent, insert, get = the kept answer; miss, absent) the thread waits for the write lock
of the shard its own kept answer read-locks -/
theorem kSelf_stuck : Stuck kCfg (run kCfg (initC kCfg cold [kSelf]) (List.replicate 6 0)) :=
  stuckB_sound (by decide +kernel)

/-- **GUARD, one thread.**  A caller that keeps `supertypes_of(x)` alive and asks the cold `supertypes_of(y)`,
`y` in the shard of `x`, never finishes under ANY schedule; after its sixth step the state is a deadlock. -/
theorem C14_kept_answer_deadlocks_one_thread :
    ∃ (cfg : Cfg) (c : CacheId) (k : Name) (q : Query),
      (∀ sched : List Nat, finished (run cfg (initP cold [keepThen cfg c k q]) sched) 0 = false) ∧
      (∃ pre : List Nat, Deadlock cfg (run cfg (initP cold [keepThen cfg c k q]) pre)) := by
  refine ⟨kCfg, .sup, ['x'], .sup ['y'], fun sched => ?_, List.replicate 6 0, stuck_deadlock kSelf_stuck⟩
  exact never_finishes_single (s := initC kCfg cold [kSelf]) rfl 6 (by decide +kernel) kSelf_stuck sched

/-- the same with `inheritance`: `let g = ns.inheritance(^x); ns.inheritance(^y);` is stuck after 23 steps (the
`supertypes_of` inserts of the computation pass - another DashMap -, the `inheritance` insert does not) -/
def kSelfInh : Script := [.keep .inh ['x'], .ask (.inh ['y'])]
theorem kSelfInh_stuck : Stuck kCfg (run kCfg (initC kCfg cold [kSelfInh]) (List.replicate 23 0)) :=
  stuckB_sound (by decide +kernel)
example (sched : List Nat) : finished (run kCfg (initC kCfg cold [kSelfInh]) sched) 0 = false :=
  never_finishes_single rfl 23 (by decide +kernel) kSelfInh_stuck sched

/-- `let g = ns.supertypes_of(^x); ns.supertypes_of(^yy);` and `let g = ns.supertypes_of(^xx); ns.supertypes_of(^y);`
- each keeps an answer in the shard the other's cold query must write -/
def kT0 : Script := [.keep .sup ['x'], .ask (.sup ['y', 'y'])]
def kT1 : Script := [.keep .sup ['x', 'x'], .ask (.sup ['y'])]
/-- thread 0 obtains and keeps its answer (4 steps), thread 1 likewise, then each runs into its insert -/
def kPre : List Nat := [0, 0, 0, 0, 1, 1, 1, 1, 0, 0, 1, 1]

theorem kMutual_stuck : Stuck kCfg (run kCfg (initC kCfg cold [kT0, kT1]) kPre) :=
  stuckB_sound (by decide +kernel)

/-- **GUARD, two threads.**  Neither caller blocks itself (alone, or one after the other, both complete with the
cache-free answers), but after the schedule prefix `kPre` both wait for the other's kept answer for ever: under
every extension of the schedule both stay blocked and unfinished. -/
theorem C14_kept_answers_deadlock_two_threads :
    ∃ (cfg : Cfg) (sc0 sc1 : Script) (pre : List Nat),
      (∃ n, finished (run cfg (initC cfg cold [sc0]) (List.replicate n 0)) 0 = true) ∧
      (∃ n, finished (run cfg (initC cfg cold [sc1]) (List.replicate n 0)) 0 = true) ∧
      (∃ sched, finished (run cfg (initC cfg cold [sc0, sc1]) sched) 0 = true ∧
                finished (run cfg (initC cfg cold [sc0, sc1]) sched) 1 = true) ∧
      Deadlock cfg (run cfg (initC cfg cold [sc0, sc1]) pre) ∧
      ∀ ext : List Nat,
        let s := run cfg (run cfg (initC cfg cold [sc0, sc1]) pre) ext
        finished s 0 = false ∧ finished s 1 = false ∧ blocked cfg s 0 = true ∧ blocked cfg s 1 = true := by
  refine ⟨kCfg, kT0, kT1, kPre, ⟨12, by decide +kernel⟩, ⟨12, by decide +kernel⟩,
    ⟨List.replicate 12 0 ++ List.replicate 12 1, by decide +kernel⟩, stuck_deadlock kMutual_stuck, fun ext => ?_⟩
  simp only
  rw [stuck_run kMutual_stuck ext]
  decide +kernel

/-- **Deadlock freedom does NOT extend to callers of the public API that keep an answer** … -/
theorem C14_deadlock_free_fails_for_keeping_callers : ¬ DeadlockFreeFor IsCaller := by
  intro h
  obtain ⟨u, hu⟩ := h kCfg [callerP kCfg kSelf 0] cold cold_inv
    (fun p hp => ⟨kSelf, by simpa using hp⟩) (List.replicate 6 0) 0 (by decide +kernel)
  have := stuck_no_enabled kSelf_stuck u
  simp only [initC, List.map_cons, List.map_nil] at this
  rw [this] at hu
  cases hu

/-- … hence not to arbitrary thread programs -/
theorem C14_deadlock_free_fails_for_arbitrary_programs : ¬ DeadlockFreeFor (fun _ _ => True) :=
  fun h => C14_deadlock_free_fails_for_keeping_callers (fun cfg progs c0 h0 _ => h cfg progs c0 h0 (fun _ _ => trivial))

/-- the counterexample scripts fail the decidable test, the repaired callers (`release` before the next query)
pass it and complete -/
example : dropsBeforeNext kSelf = false ∧ dropsBeforeNext kT0 = false ∧ dropsBeforeNext kT1 = false := by decide
def kSelfOk : Script := [.keep .sup ['x'], .release, .ask (.sup ['y'])]
example : dropsBeforeNext kSelfOk = true := by decide
example : let s := run kCfg (initC kCfg cold [kSelfOk]) (List.replicate 12 0)
    finished s 0 = true ∧ answers s 0 = some (scriptAns kCfg kSelfOk) := by decide +kernel
example := C14_deadlock_free_disciplined kCfg [callerP kCfg kSelfOk 0] cold cold_inv
  (fun p hp => by rw [List.mem_singleton.1 hp]; exact script_disciplined kCfg kSelfOk (by decide))

/-! ### (b) a kept answer followed by warm queries only -/

/-- **Positive boundary (b).**  ANY configuration, ANY caller scripts in the other threads (keeping what they like),
ANY schedule prefix `pre`: if in the state reached the remaining program of thread `t` is WARM - every key it will
ask for is cached (`allHit`: the dry run meets hits only, no `insert` is reached) - then, whatever answers `t` or
anybody else keeps alive and whatever the rest `ext` of the schedule, `t` is never blocked, and it has finished as
soon as it was scheduled `hitLen` times. -/
theorem C14_kept_answer_warm_ok (cfg : Cfg) (scripts : List Script) (c0 : Caches) (h0 : Inv cfg c0)
    (pre : List Nat) (t : Nat) (th : Thread)
    (ht : (run cfg (initC cfg c0 scripts) pre).thr[t]? = some th)
    (hw : allHit (run cfg (initC cfg c0 scripts) pre).c th.prog = true) (ext : List Nat) :
    blocked cfg (run cfg (run cfg (initC cfg c0 scripts) pre) ext) t = false ∧
    (hitLen (run cfg (initC cfg c0 scripts) pre).c th.prog ≤ ext.count t →
      finished (run cfg (run cfg (initC cfg c0 scripts) pre) ext) t = true) :=
  warm_never_blocked (ainv_run pre _ (ainv_initC h0 scripts)) ht hw ext

/-- the same for arbitrary thread programs that insert only correct values (`Good`, any post-conditions) -/
theorem C14_kept_answer_warm_ok_progs (cfg : Cfg) (post : Nat → List Ans → Prop) (progs : List (Prog (List Ans)))
    (c0 : Caches) (h0 : Inv cfg c0) (hg : ∀ t p, progs[t]? = some p → Good cfg (post t) c0 p)
    (pre : List Nat) (t : Nat) (th : Thread)
    (ht : (run cfg (initP c0 progs) pre).thr[t]? = some th)
    (hw : allHit (run cfg (initP c0 progs) pre).c th.prog = true) (ext : List Nat) :
    blocked cfg (run cfg (run cfg (initP c0 progs) pre) ext) t = false ∧
    (hitLen (run cfg (initP c0 progs) pre).c th.prog ≤ ext.count t →
      finished (run cfg (run cfg (initP c0 progs) pre) ext) t = true) :=
  warm_never_blocked (ainv_run pre _ (ainv_initP h0 hg)) ht hw ext

/-- `supertypes_of(k)` / `inheritance(k)` as a query -/
def directQ : CacheId → Name → Query
  | .sup, k => .sup k
  | .inh, k => .inh k

/-- (b) for the very shape of GUARD, `let g = ns.<c>(k); ns.<c'>(k')`, with BOTH keys cached: whatever the shards,
the caller never waits and is done after four steps of its own (hit, hit, drop, end of scope) -/
theorem C14_keepThen_warm_ok (cfg : Cfg) (c0 : Caches) (h0 : Inv cfg c0) (c c' : CacheId) (k k' : Name)
    (hk : (look c k c0).isSome = true) (hk' : (look c' k' c0).isSome = true) (sched : List Nat) :
    blocked cfg (run cfg (initP c0 [keepThen cfg c k (directQ c' k')]) sched) 0 = false ∧
    (4 ≤ sched.count 0 → finished (run cfg (initP c0 [keepThen cfg c k (directQ c' k')]) sched) 0 = true) := by
  obtain ⟨v, hv⟩ := Option.isSome_iff_exists.1 hk
  obtain ⟨v', hv'⟩ := Option.isSome_iff_exists.1 hk'
  have hw : allHit c0 (keepThen cfg c k (directQ c' k')) = true := by
    cases c <;> cases c' <;>
      simp [keepThen, callerP, keepP, supK, inhK, directQ, queryP, supG, inhG, Prog.bind, allHit, hitRun, hv, hv', dropN]
  have hl : hitLen c0 (keepThen cfg c k (directQ c' k')) = 4 := by
    cases c <;> cases c' <;>
      simp [keepThen, callerP, keepP, supK, inhK, directQ, queryP, supG, inhG, Prog.bind, hitLen, hv, hv', dropN]
  have h : blocked cfg (run cfg (initP c0 [keepThen cfg c k (directQ c' k')]) sched) 0 = false ∧
      (hitLen c0 (keepThen cfg c k (directQ c' k')) ≤ sched.count 0 →
        finished (run cfg (initP c0 [keepThen cfg c k (directQ c' k')]) sched) 0 = true) :=
    C14_kept_answer_warm_ok cfg [[.keep c k, .ask (directQ c' k')]] c0 h0 [] 0
      { prog := keepThen cfg c k (directQ c' k'), held := [] } rfl hw sched
  rw [hl] at h
  exact h

/-- non-vacuity: the one-thread counterexample `kSelf` (`x`, `y` in one shard) started on caches in which both keys
are present - the caches a thread asking `supertypes_of(x)`, `supertypes_of(y)` leaves behind - never waits -/
def kWarmCaches : Caches := (run kCfg (init kCfg cold [[.sup ['x'], .sup ['y']]]) (List.replicate 10 0)).c
theorem kWarmCaches_inv : Inv kCfg kWarmCaches :=
  cache_inv_reachable (qss := [[.sup ['x'], .sup ['y']]]) cold cold_inv _
example (sched : List Nat) := C14_keepThen_warm_ok kCfg kWarmCaches kWarmCaches_inv .sup .sup ['x'] ['y']
  (by decide +kernel) (by decide +kernel) sched

/-- non-vacuity: `all_supertypes_of(y)` (cold: inserts `y`, `m`), then `let g = supertypes_of(x)` (cold, same
shard 1, kept), then `all_supertypes_of(y)` and `supertypes_of(m)` again: after the first 14 steps the thread HOLDS
a guard on shard 1 and its remaining program is warm; it completes with the cache-free answers.  The same caller
with a cold last query (`yy`, other shard: fine; `y` not asked before: stuck) is the counterexample above. -/
def kWarm : Script := [.ask (.allSup ['y']), .keep .sup ['x'], .ask (.allSup ['y']), .ask (.sup ['m'])]
def kWarmAt : State := run kCfg (initC kCfg cold [kWarm]) (List.replicate 14 0)
/-- guards held by thread `t`, is its remaining program warm, length of the warm run -/
def warmAt (s : State) (t : Nat) : Option (List (CacheId × Name) × Bool × Nat) :=
  (s.thr[t]?).map fun th => (th.held, allHit s.c th.prog, hitLen s.c th.prog)
example : warmAt kWarmAt 0 = some ([(.sup, ['x'])], true, 7) := by decide +kernel
/-- the theorem applied: whatever the rest of the schedule, the thread never waits -/
example (ext : List Nat) : blocked kCfg (run kCfg kWarmAt ext) 0 = false := by
  have hw0 : warmAt kWarmAt 0 = some ([(.sup, ['x'])], true, 7) := by decide +kernel
  cases ht : kWarmAt.thr[0]? with
  | none => simp [warmAt, ht] at hw0
  | some th =>
    have hw : allHit kWarmAt.c th.prog = true := by
      simp only [warmAt, ht, Option.map_some, Option.some.injEq, Prod.mk.injEq] at hw0
      exact hw0.2.1
    exact (C14_kept_answer_warm_ok kCfg [kWarm] cold cold_inv (List.replicate 14 0) 0 th ht hw ext).1
example : let s := run kCfg kWarmAt (List.replicate 7 0)
    finished s 0 = true ∧ answers s 0 = some (scriptAns kCfg kWarm) := by decide +kernel

/-! ### (c) a kept answer never changes an answer -/

/-- **Positive boundary (c).**  History and schedule independence hold for keeping callers whenever they
terminate: in ANY configuration, from ANY caches satisfying the invariant, under ANY schedule, a caller that has
finished got, for each `ask` and each `keep` in order, the answer of the cache-free function - whatever it or the
other threads kept alive meanwhile. -/
theorem C14_kept_answer_answers_unchanged (cfg : Cfg) (scripts : List Script) (c0 : Caches) (h0 : Inv cfg c0)
    (sched : List Nat) (t : Nat) (th : Thread) (as : List Ans)
    (ht : (run cfg (initC cfg c0 scripts) sched).thr[t]? = some th) (hp : th.prog = .ret as) :
    as = scriptAns cfg (scripts.getD t []) :=
  ainv_answer (ainv_run sched _ (ainv_initC h0 scripts)) ht hp

/-- … and the caches of every state such callers reach hold only values of the cache-free functions, only such
values are inserted -/
theorem C14_kept_answer_cache_inv (cfg : Cfg) (scripts : List Script) (c0 : Caches) (h0 : Inv cfg c0)
    (sched : List Nat) :
    let s := run cfg (initC cfg c0 scripts) sched
    (∀ c k v, look c k s.c = some v → Correct cfg c k v) ∧
    (∀ (t : Nat) (th : Thread) (c : CacheId) (k : Name) (v : V) (cont : Prog (List Ans)),
      s.thr[t]? = some th → th.prog = .ins c k v cont → Correct cfg c k v) := by
  have h := ainv_run sched _ (ainv_initC h0 scripts)
  refine ⟨h.inv, fun t th c k v cont ht hp => ?_⟩
  have hg := h.good t th ht
  rw [hp] at hg
  cases hg with
  | ins hc _ => exact hc

/-- a script of `ask`s is a query list of the first half: the statements above extend `answer_eq_pure` -/
theorem scripts_extend_queries (cfg : Cfg) (c0 : Caches) (qss : List (List Query)) :
    initC cfg c0 (qss.map (List.map .ask)) = init cfg c0 qss := by
  simp [initC, init_eq_initP, List.map_map, Function.comp_def, callerP_ask]

/-- non-vacuity of (c): the two keeping callers of the two-thread counterexample under the schedule "thread 0
first" both finish, with the cache-free answers -/
example : let s := run kCfg (initC kCfg cold [kT0, kT1]) (List.replicate 12 0 ++ List.replicate 12 1)
    answers s 0 = some (scriptAns kCfg kT0) ∧ answers s 1 = some (scriptAns kCfg kT1) := by decide +kernel

end Hs.C14
