/-
  C16 — unit conversion and Number arithmetic are dimensionally sound.

  Statements are about the model `Hs.Model.UnitArith` (convert_to, is_byte_unit, match_units/approx_eq,
  `&Unit * &Unit`, `&Unit / &Unit`, `Number + − × ÷`) run on the unit table REGENERATED from
  units_generated.rs (`Hs.Gen.UnitsQ`), over EXACT rationals: scale and offset are the values of the decimal
  literals, arithmetic is exact.  What the theorems therefore do NOT cover is floating-point rounding
  ("converting back returns the original WITHIN ROUNDING" is exact equality here); rounding is exercised on
  the real code by harness/src/c16.rs (all ordered pairs, a spread of magnitudes), not proved.  In that
  sense the claim is PARTIAL.  The model is tied to the Rust code by the correspondence check: for every
  ordered pair of database units the model's decisions (Ok/Err of the conversion, name of the product and
  quotient unit, unit of `Number ± × ÷`) are string-equal to the implementation's, and every conversion
  result of the implementation lies within 1e-14 (relative to the magnitude of the intermediate terms) of
  the model's exact value.

  `match_units` iterates a HashMap: the product/quotient theorems hold for EVERY list of entries `es`
  (`mul_sound`, `div_sound`), in particular for every permutation of the `UNITS` entries (`C16_full`).
-/
import Hs.Lemmas.UnitArithTable
namespace Hs.C16
open Hs Hs.UnitArith Hs.Gen.UnitsQ

/-! ### conversion -/

/-- `convert_to` succeeds exactly when the dimensions are equal or both are byte units (all units) -/
theorem convert_guard (a b : QUnit) (x : Rat) :
    (∃ y, convertTo a b x = .ok y) ↔ (a.dims = b.dims ∨ (a.isByte = true ∧ b.isByte = true)) := by
  rw [convertTo_ok_iff, inconvertible_eq_false]

/-- … and between database units exactly when they have the same dimension (byte units all have none) -/
theorem convert_guard_db (a b : QUnit) (ha : a ∈ units) (hb : b ∈ units) (x : Rat) :
    (∃ y, convertTo a b x = .ok y) ↔ a.dims = b.dims := by
  rw [convert_guard]
  constructor
  · rintro (h | ⟨h1, h2⟩)
    · exact h
    · rw [byte_dims ha h1, byte_dims hb h2]
  · exact Or.inl

/-- the result is the physical conversion: to the base unit with `a`'s scale and offset, from it with `b`'s -/
theorem convert_formula (a b : QUnit) (x y : Rat) (h : convertTo a b x = .ok y) :
    y = ((x * a.scale + a.offset) - b.offset) / b.scale :=
  (convertTo_ok a b x y h).2

/-- converting back returns the original (exactly, over ℚ), for all units with non-zero scales and all `x` -/
theorem convert_inverse (a b : QUnit) (x y : Rat) (ha : a.scale ≠ 0) (hb : b.scale ≠ 0)
    (h : convertTo a b x = .ok y) : convertTo b a y = .ok x := by
  obtain ⟨hg, hy⟩ := convertTo_ok a b x y h
  unfold convertTo
  rw [inconvertible_comm, hg, hy]
  simp only [Bool.false_eq_true, if_false]
  rw [convert_roundtrip_alg x a.scale a.offset b.scale b.offset ha hb]

/-- table theorem: no database unit has scale 0 -/
theorem no_zero_scale (u : QUnit) (h : u ∈ units) : u.scale ≠ 0 := scale_ne_zero h

/-- converting back returns the original, for all database units -/
theorem convert_inverse_db (a b : QUnit) (ha : a ∈ units) (hb : b ∈ units) (x y : Rat)
    (h : convertTo a b x = .ok y) : convertTo b a y = .ok x :=
  convert_inverse a b x y (scale_ne_zero ha) (scale_ne_zero hb) h

/-! ### products and quotients of units -/

/-- whatever `&a * b` yields is one of the entries, has the sum of the exponent vectors and a scale that
`approx_eq` accepts for the product of the scales — for every list of entries (every HashMap order) -/
theorem mul_sound (es : List QUnit) (a b u : QUnit) (h : mulUnits es a b = .ok u) :
    u ∈ es ∧ ∃ d1 d2, a.dims = some d1 ∧ b.dims = some d2 ∧ u.dims = some (d1.add d2) ∧
      approxEq u.scale (a.scale * b.scale) = true := by
  obtain ⟨d1, d2, h1, h2, hm⟩ := mulUnits_ok es a b u h
  rw [mem_matchUnits] at hm
  exact ⟨hm.1, d1, d2, h1, h2, hm.2.1, hm.2.2⟩

theorem div_sound (es : List QUnit) (a b u : QUnit) (h : divUnits es a b = .ok u) :
    u ∈ es ∧ ∃ d1 d2, a.dims = some d1 ∧ b.dims = some d2 ∧ u.dims = some (d1.sub d2) ∧
      approxEq u.scale (a.scale / b.scale) = true := by
  obtain ⟨d1, d2, h1, h2, hm⟩ := divUnits_ok es a b u h
  rw [mem_matchUnits] at hm
  exact ⟨hm.1, d1, d2, h1, h2, hm.2.1, hm.2.2⟩

/-- what `approx_eq` accepts: equal, or closer than a thousandth of either magnitude -/
theorem approx_meaning (p q : Rat) (h : approxEq p q = true) :
    p = q ∨ (qabs (p - q) ≤ qabs (p / 1000) ∧ qabs (p - q) ≤ qabs (q / 1000)) :=
  (approxEq_iff p q).mp h

/-- every entry of the `UNITS` map refers to a unit of the table -/
theorem entries_are_units : ∀ u ∈ dbEntries, u ∈ units := dbEntries_subset

/-- the exponent arithmetic of `Mul`/`Div` never leaves `i8` on database units (no debug-build overflow
panic, no release-build wrap-around) -/
theorem dims_in_i8 (a b : QUnit) (ha : a ∈ units) (hb : b ∈ units) (d1 d2 : Dims)
    (h1 : a.dims = some d1) (h2 : b.dims = some d2) :
    (d1.add d2).inI8 = true ∧ (d1.sub d2).inI8 = true :=
  dims_add_sub_in_i8 ha hb h1 h2

/-! ### Numbers -/

/-- adding or subtracting Numbers of one unit keeps that unit -/
theorem add_sub_same_unit (x y : Rat) (u : QUnit) (hu : u ≠ defaultUnit) :
    numAdd ⟨x, some u⟩ ⟨y, some u⟩ = .ok ⟨x + y, some u⟩ ∧
    numSub ⟨x, some u⟩ ⟨y, some u⟩ = .ok ⟨x - y, some u⟩ := by
  simp [numAdd, numSub, addUnit, makeWithUnit_of_ne _ u hu]

/-- … of two different units fails -/
theorem add_sub_diff_units (x y : Rat) (u v : QUnit) (h : u ≠ v) :
    numAdd ⟨x, some u⟩ ⟨y, some v⟩ = .err ∧ numSub ⟨x, some u⟩ ⟨y, some v⟩ = .err := by
  simp [numAdd, numSub, addUnit_diff x y u v h]

/-- … of two unit-less Numbers is unit-less -/
theorem add_sub_unitless (x y : Rat) :
    numAdd ⟨x, none⟩ ⟨y, none⟩ = .ok ⟨x + y, none⟩ ∧ numSub ⟨x, none⟩ ⟨y, none⟩ = .ok ⟨x - y, none⟩ := by
  simp [numAdd, numSub, addUnit, makeWithUnit_default]

/-- behaviour of the code the property is silent about: a unit-less operand adopts the other operand's unit -/
theorem add_sub_adopts_unit (x y : Rat) (u : QUnit) (hu : u ≠ defaultUnit) :
    numAdd ⟨x, some u⟩ ⟨y, none⟩ = .ok ⟨x + y, some u⟩ ∧ numAdd ⟨x, none⟩ ⟨y, some u⟩ = .ok ⟨x + y, some u⟩ ∧
    numSub ⟨x, some u⟩ ⟨y, none⟩ = .ok ⟨x - y, some u⟩ ∧ numSub ⟨x, none⟩ ⟨y, some u⟩ = .ok ⟨x - y, some u⟩ := by
  simp [numAdd, numSub, addUnit, makeWithUnit_of_ne _ u hu]

/-- the common statement of the three theorems above, as the property puts it -/
theorem add_sub_units (x y : Rat) (u v : QUnit) (hu : u ≠ defaultUnit) :
    (u = v → numAdd ⟨x, some u⟩ ⟨y, some v⟩ = .ok ⟨x + y, some u⟩ ∧
             numSub ⟨x, some u⟩ ⟨y, some v⟩ = .ok ⟨x - y, some u⟩) ∧
    (u ≠ v → numAdd ⟨x, some u⟩ ⟨y, some v⟩ = .err ∧ numSub ⟨x, some u⟩ ⟨y, some v⟩ = .err) := by
  constructor
  · rintro rfl; exact add_sub_same_unit x y u hu
  · exact add_sub_diff_units x y u v

/-- `Number × Number` over two units: the unit of the result is the product of the units -/
theorem num_mul_unit (es : List QUnit) (x y : Rat) (a b : QUnit) (n : QNum)
    (h : numMul es ⟨x, some a⟩ ⟨y, some b⟩ = .ok n) :
    ∃ u, mulUnits es a b = .ok u ∧ n = makeWithUnit (x * y) u := by
  simp only [numMul, Option.isNone_some, Bool.false_eq_true, if_false, Option.getD_some] at h
  cases hm : mulUnits es a b <;> simp [hm] at h
  exact ⟨_, rfl, h.symm⟩

theorem num_div_unit (es : List QUnit) (x y : Rat) (a b : QUnit) (n : QNum)
    (h : numDiv es ⟨x, some a⟩ ⟨y, some b⟩ = .ok n) :
    ∃ u, divUnits es a b = .ok u ∧ n = makeWithUnit (x / y) u := by
  simp only [numDiv, Option.isNone_some, Bool.false_eq_true, if_false, Option.getD_some] at h
  cases hm : divUnits es a b <;> simp [hm] at h
  exact ⟨_, rfl, h.symm⟩

/-- behaviour of the code outside the property's wording: with one unit-less operand `×` and `÷` keep the
other operand's unit — also for a unit-less DIVIDEND (`1 / 2s = 0.5s`, not `0.5Hz`) -/
theorem num_mul_div_unitless (es : List QUnit) (x y : Rat) (u : QUnit) (hu : u ≠ defaultUnit) :
    numMul es ⟨x, some u⟩ ⟨y, none⟩ = .ok ⟨x * y, some u⟩ ∧ numMul es ⟨x, none⟩ ⟨y, some u⟩ = .ok ⟨x * y, some u⟩ ∧
    numDiv es ⟨x, some u⟩ ⟨y, none⟩ = .ok ⟨x / y, some u⟩ ∧ numDiv es ⟨x, none⟩ ⟨y, some u⟩ = .ok ⟨x / y, some u⟩ := by
  simp [numMul, numDiv, makeWithUnit_of_ne _ u hu]

/-! ### the property -/

/-- C16 at full strength for the exact-rational model, over the regenerated table.
`es` ranges over all permutations of the `UNITS` entries (= all iteration orders of the HashMap). -/
def C16_full : Prop :=
  -- conversion: succeeds exactly for equal dimensions, is the physical formula, and inverts
  (∀ a ∈ units, ∀ b ∈ units, ∀ x : Rat, (∃ y, convertTo a b x = .ok y) ↔ a.dims = b.dims) ∧
  (∀ a ∈ units, ∀ b ∈ units, ∀ x y : Rat, convertTo a b x = .ok y →
      y = ((x * a.scale + a.offset) - b.offset) / b.scale ∧ convertTo b a y = .ok x) ∧
  -- products and quotients: a database unit with the summed / subtracted exponents (inside i8) and the
  -- product / quotient scale (as `approx_eq` judges it)
  (∀ es : List QUnit, es.Perm dbEntries → ∀ a ∈ units, ∀ b ∈ units, ∀ u : QUnit,
      (mulUnits es a b = .ok u → u ∈ units ∧ ∃ d1 d2, a.dims = some d1 ∧ b.dims = some d2 ∧
          (d1.add d2).inI8 = true ∧ u.dims = some (d1.add d2) ∧ approxEq u.scale (a.scale * b.scale) = true) ∧
      (divUnits es a b = .ok u → u ∈ units ∧ ∃ d1 d2, a.dims = some d1 ∧ b.dims = some d2 ∧
          (d1.sub d2).inI8 = true ∧ u.dims = some (d1.sub d2) ∧ approxEq u.scale (a.scale / b.scale) = true)) ∧
  -- Numbers: + and − keep the common unit and fail for different units
  (∀ a ∈ units, ∀ b ∈ units, ∀ x y : Rat,
      (a = b → numAdd ⟨x, some a⟩ ⟨y, some b⟩ = .ok ⟨x + y, some a⟩ ∧
               numSub ⟨x, some a⟩ ⟨y, some b⟩ = .ok ⟨x - y, some a⟩) ∧
      (a ≠ b → numAdd ⟨x, some a⟩ ⟨y, some b⟩ = .err ∧ numSub ⟨x, some a⟩ ⟨y, some b⟩ = .err)) ∧
  (∀ x y : Rat, numAdd ⟨x, none⟩ ⟨y, none⟩ = .ok ⟨x + y, none⟩ ∧ numSub ⟨x, none⟩ ⟨y, none⟩ = .ok ⟨x - y, none⟩) ∧
  -- Numbers: × and ÷ over two units carry the product / quotient unit (sound as above) or fail
  (∀ es : List QUnit, es.Perm dbEntries → ∀ a ∈ units, ∀ b ∈ units, ∀ x y : Rat, ∀ n : QNum,
      (numMul es ⟨x, some a⟩ ⟨y, some b⟩ = .ok n → ∃ u, mulUnits es a b = .ok u ∧ n = ⟨x * y, some u⟩) ∧
      (numDiv es ⟨x, some a⟩ ⟨y, some b⟩ = .ok n → ∃ u, divUnits es a b = .ok u ∧ n = ⟨x / y, some u⟩))

theorem C16_holds : C16_full := by
  refine ⟨?_, ?_, ?_, ?_, ?_, ?_⟩
  · intro a ha b hb x
    exact convert_guard_db a b ha hb x
  · intro a ha b hb x y h
    exact ⟨convert_formula a b x y h, convert_inverse_db a b ha hb x y h⟩
  · intro es hp a ha b hb u
    have hsub : ∀ v ∈ es, v ∈ units := fun v hv => dbEntries_subset v (hp.mem_iff.mp hv)
    constructor
    · intro h
      obtain ⟨hu, d1, d2, h1, h2, hd, hs⟩ := mul_sound es a b u h
      exact ⟨hsub u hu, d1, d2, h1, h2, (dims_in_i8 a b ha hb d1 d2 h1 h2).1, hd, hs⟩
    · intro h
      obtain ⟨hu, d1, d2, h1, h2, hd, hs⟩ := div_sound es a b u h
      exact ⟨hsub u hu, d1, d2, h1, h2, (dims_in_i8 a b ha hb d1 d2 h1 h2).2, hd, hs⟩
  · intro a ha b _ x y
    exact add_sub_units x y a b (ne_default ha)
  · exact add_sub_unitless
  · intro es hp a _ b _ x y n
    have hsub : ∀ v ∈ es, v ∈ units := fun v hv => dbEntries_subset v (hp.mem_iff.mp hv)
    constructor
    · intro h
      obtain ⟨u, hu, hn⟩ := num_mul_unit es x y a b n h
      refine ⟨u, hu, ?_⟩
      rw [hn, makeWithUnit_of_ne _ u (ne_default (hsub u (mul_sound es a b u hu).1))]
    · intro h
      obtain ⟨u, hu, hn⟩ := num_div_unit es x y a b n h
      refine ⟨u, hu, ?_⟩
      rw [hn, makeWithUnit_of_ne _ u (ne_default (hsub u (div_sound es a b u hu).1))]

/-! ### non-vacuity: concrete database units satisfy the hypotheses and exercise every clause -/

/-- the database unit with this name (first id) -/
def unitNamed (n : String) : QUnit := (units.find? (fun u => u.name == n)).getD defaultUnit

/-- a name that is found names a unit of the table -/
theorem unitNamed_mem (n : String) (hn : n ≠ "") (h : (unitNamed n).name = n) : unitNamed n ∈ units := by
  unfold unitNamed at h ⊢
  cases hf : units.find? (fun u => u.name == n) with
  | none => rw [hf] at h; exact absurd h.symm hn
  | some u => exact List.mem_of_find?_eq_some hf

/-- the units used in the examples below exist in the regenerated table -/
theorem sample_units_in_table :
    ∀ n ∈ ["celsius", "fahrenheit", "kelvin", "kilobyte", "megabyte", "meter", "foot", "megawatt", "hour",
           "megawatt_hour", "kilogram", "kilograms_per_hour", "percent"], unitNamed n ∈ units := by
  have h : ["celsius", "fahrenheit", "kelvin", "kilobyte", "megabyte", "meter", "foot", "megawatt", "hour",
      "megawatt_hour", "kilogram", "kilograms_per_hour", "percent"].all
      (fun n => decide (n ≠ "") && decide ((unitNamed n).name = n)) = true := by decide +kernel
  intro n hn
  have := List.all_eq_true.mp h n hn
  simp only [Bool.and_eq_true, decide_eq_true_eq] at this
  exact unitNamed_mem n this.1 this.2

/-- the value of a successful conversion (0 otherwise) -/
def valueOf : Res Rat → Rat
  | .ok y => y
  | _ => 0

-- offsets: 100 °C = 373.15 K exactly; 100 °C is between 211 and 213 °F with the table's rounded 5/9; and back
example : convertTo (unitNamed "celsius") (unitNamed "kelvin") 100 = .ok (mkRat 37315 100) := by decide +kernel
example : (convertTo (unitNamed "celsius") (unitNamed "fahrenheit") 100).isOk = true ∧
    211 < valueOf (convertTo (unitNamed "celsius") (unitNamed "fahrenheit") 100) ∧
    valueOf (convertTo (unitNamed "celsius") (unitNamed "fahrenheit") 100) < 213 ∧
    convertTo (unitNamed "fahrenheit") (unitNamed "celsius")
      (valueOf (convertTo (unitNamed "celsius") (unitNamed "fahrenheit") 100)) = .ok 100 := by
  decide +kernel
-- scale only: 1 ft = 0.3048 m
example : convertTo (unitNamed "foot") (unitNamed "meter") 1 = .ok (mkRat 3048 10000) := by decide +kernel
-- byte units (no dimensions at all, quantity "bytes")
example : (unitNamed "kilobyte").isByte = true ∧ convertTo (unitNamed "megabyte") (unitNamed "kilobyte") 2 = .ok 2048 := by
  decide +kernel
-- different dimensions are refused; so is a dimension-less unit against a dimensioned one
example : convertTo (unitNamed "meter") (unitNamed "hour") 1 = .err ∧
    convertTo (unitNamed "percent") (unitNamed "meter") 1 = .err := by decide +kernel
-- The hypothesis of `mul_sound` / `div_sound` is satisfiable: MW × h = MWh (name rule `a_b`), kg ÷ h =
-- kilograms_per_hour (plural name rule).  "When it yields anything": m × m finds `square_meter` once per id
-- (two candidates), none is named `meter_meter`, so the product fails; ft ÷ h matches no unit at all.
-- Numbers: the product carries the product unit.  (One kernel evaluation over the 946 entries.)
example :
    mulUnits dbEntries (unitNamed "megawatt") (unitNamed "hour") = .ok (unitNamed "megawatt_hour") ∧
    divUnits dbEntries (unitNamed "kilogram") (unitNamed "hour") = .ok (unitNamed "kilograms_per_hour") ∧
    mulUnits dbEntries (unitNamed "meter") (unitNamed "meter") = .err ∧
    divUnits dbEntries (unitNamed "foot") (unitNamed "hour") = .err ∧
    numMul dbEntries ⟨2, some (unitNamed "megawatt")⟩ ⟨3, some (unitNamed "hour")⟩
      = .ok ⟨6, some (unitNamed "megawatt_hour")⟩ := by
  decide +kernel
-- Numbers: + keeps the common unit, fails for different units
example : numAdd ⟨1, some (unitNamed "meter")⟩ ⟨2, some (unitNamed "meter")⟩ = .ok ⟨3, some (unitNamed "meter")⟩ ∧
    numAdd ⟨1, some (unitNamed "meter")⟩ ⟨2, some (unitNamed "foot")⟩ = .err := by decide +kernel

end Hs.C16
