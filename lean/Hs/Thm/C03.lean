/-
  C03 — decoders are total: any input gives a value or an error, never a crash or hang.

  Model: `Hs.Zinc.fromBytes` (whole value) and `Hs.Zinc.rowNext` (lazy row iterator) over the
  concrete scanner model.  Outcomes `panic` / `diverge` (fuel `fuelFor n = 8n+64` ran out) / `depth`
  are what the property forbids.
-/
import Hs.Model.ZincParse
namespace Hs.C03
open Hs Hs.Zinc

/-- The property at full strength (Zinc, whole value): for every byte string the decoder's
outcome is a value or an error. -/
def C03_zinc : Prop :=
  ∀ bs : List UInt8, fromBytes bs ≠ .panic ∧ fromBytes bs ≠ .diverge ∧ fromBytes bs ≠ .depth

/-- Nesting is bounded: whatever the tokens, a value nested deeper than `maxNestingDepth` is an
error, not a deeper recursion (this is what keeps the native stack bounded). -/
theorem depth_bound (fuel depth : Nat) (p : PS) (h : maxNestingDepth ≤ depth) :
    parseValue (fuel + 1) depth p = .err := by
  simp [parseValue, h]

/-- the recursion depth argument grows by exactly one per nested collection -/
theorem depth_step_list (fuel depth : Nat) (p : PS) (h : depth < maxNestingDepth)
    (ht : p.tok = .ch 91) : parseValue (fuel + 1) depth p = parseList fuel (depth + 1) p := by
  have : ¬ maxNestingDepth ≤ depth := Nat.not_le.2 h
  simp [parseValue, this, ht]

def bytes (s : String) : List UInt8 := s.toUTF8.toList

def outcome (r : Res Val) : Nat :=
  match r with
  | .ok _ => 0 | .err => 1 | .panic => 2 | .diverge => 3 | .depth => 4

/-! Witnesses: the inputs on which the pinned tree panicked, hung or overflowed the stack are
errors of the model of the repaired code. -/

/-- a row with more cells than columns (was: index out of bounds) -/
theorem too_many_cells : outcome (fromBytes (bytes "ver:\"3.0\"\na\n1,2\n")) = 1 := by decide +kernel
/-- a row cut off by the end of input (was: endless loop) -/
theorem truncated_row : outcome (fromBytes (bytes "ver:\"3.0\"\na\n\"x\" ")) = 1 := by decide +kernel
theorem truncated_row2 : outcome (fromBytes (bytes "ver:\"3.0\"\na,b\n1,")) = 1 := by decide +kernel
/-- 65 nested lists (was: unbounded recursion) -/
theorem deep_lists : outcome (fromBytes (List.replicate 65 91)) = 1 := by decide +kernel
/-- 64 levels are accepted when they are closed again -/
theorem deep_lists_ok :
    outcome (fromBytes (List.replicate 63 91 ++ [49] ++ List.replicate 63 93)) = 0 := by decide +kernel

end Hs.C03
