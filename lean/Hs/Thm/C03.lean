/-
  C03 — decoders are total: any input gives a value or an error, never a crash or hang.

  Model: `Hs.Zinc.fromBytes` (whole value) and `Hs.Zinc.rowNext` (lazy row iterator) over the
  concrete scanner model.  Outcomes `panic` / `diverge` (fuel `fuelFor n = 8n+64` ran out) / `depth`
  are what the property forbids.

  Proof structure (helper lemmas in `Hs/Lemmas/ZincTotal*.lean`):
  * `Scan.mu s` = stash + unread input + 1 while `eof` is false.  Every scanner primitive and every
    scalar reader is non-increasing in `mu` and needs fuel `> mu` (`…_spec` lemmas, predicate `Res.Sat`);
    `parseNumberDateTime`'s reset `eof := false` merely restores the value `mu` had on entry.
  * a `lexRead` away from the end of the input strictly decreases `mu`; `Tok.none` only comes with `eof`.
  * parser: `PS.M p = mu + [tok ≠ none]`; `RowState.K r = M + [¬ eof]`.  By mutual induction on the fuel
    every function of the parser's `mutual` block needs fuel at most `8 * measure + c`, `c ≤ 43`
    (`Zinc.Specs`, `Zinc.specsAll`), so `fuelFor` suffices.
-/
import Hs.Model.ZincParse
import Hs.Lemmas.ZincTotalGood
import Hs.Lemmas.ZincTotalRows
namespace Hs.C03
open Hs Hs.Zinc Hs.Scan

/-! ## Statements -/

/-- The property at full strength (Zinc, whole value): for every byte string the decoder's
outcome is a value or an error. -/
def C03_zinc : Prop :=
  ∀ bs : List UInt8, fromBytes bs ≠ .panic ∧ fromBytes bs ≠ .diverge ∧ fromBytes bs ≠ .depth

/-- The property for the lazy row iterator (`parse_grid_iterator` + `RowIterator::next`): whenever the
header parses, no call of `next()` panics, hangs or overflows, and the iterator is finished (`None`, or an
`Err` item) after at most `bs.length + 1` successful rows.  `rowsStart` / `nextN` are spelled out by
`rowsStart_def` / `nextN_zero` / `nextN_succ` below. -/
def C03_rows : Prop :=
  ∀ bs : List UInt8,
    rowsStart bs ≠ .panic ∧ rowsStart bs ≠ .diverge ∧ rowsStart bs ≠ .depth ∧
    ∀ hdr r0, rowsStart bs = .ok (hdr, r0) →
      let cols := hdr.2.1.map (·.1)
      (∀ k, nextN (fuelFor bs.length) cols k r0 ≠ .panic ∧ nextN (fuelFor bs.length) cols k r0 ≠ .diverge ∧
            nextN (fuelFor bs.length) cols k r0 ≠ .depth) ∧
      (∀ k, bs.length + 1 ≤ k → ∀ row r, nextN (fuelFor bs.length) cols k r0 ≠ .ok (some row, r))

/-! ## 1. No function of the model ever yields `panic` or `depth` -/

theorem never_panic (bs : List UInt8) : fromBytes bs ≠ .panic := (fromBytes_spec bs).ne_panic
theorem never_depth (bs : List UInt8) : fromBytes bs ≠ .depth := (fromBytes_spec bs).ne_depth

theorem lexRead_never_panic (fuel : Nat) (s : Scan) : lexRead fuel s ≠ .panic := (lexRead_spec fuel s).ne_panic
theorem lexRead_never_depth (fuel : Nat) (s : Scan) : lexRead fuel s ≠ .depth := (lexRead_spec fuel s).ne_depth

/-- for any fuel, depth and state — not only the ones `fromBytes` reaches -/
theorem parseValue_never_panic (fuel d : Nat) (p : PS) : parseValue fuel d p ≠ .panic :=
  ((goodAll fuel).parseValue d p).ne_panic
theorem parseValue_never_depth (fuel d : Nat) (p : PS) : parseValue fuel d p ≠ .depth :=
  ((goodAll fuel).parseValue d p).ne_depth
theorem gridHeader_never_panic (fuel d : Nat) (p : PS) : gridHeader fuel d p ≠ .panic :=
  ((goodAll fuel).gridHeader d p).ne_panic
theorem gridHeader_never_depth (fuel d : Nat) (p : PS) : gridHeader fuel d p ≠ .depth :=
  ((goodAll fuel).gridHeader d p).ne_depth
theorem rowNext_never_panic (fuel d : Nat) (r : RowState) (cols : List (List Char)) :
    rowNext fuel d r cols ≠ .panic := ((goodAll fuel).rowNext d r cols).ne_panic
theorem rowNext_never_depth (fuel d : Nat) (r : RowState) (cols : List (List Char)) :
    rowNext fuel d r cols ≠ .depth := ((goodAll fuel).rowNext d r cols).ne_depth

/-! ## 2. Scanner and lexer loops terminate -/

private theorem total_of {α} {r : Res α} {fuel : Nat} {s : Scan} {Q : α → Prop}
    (h : r.Sat fuel s.mu Q) (hf : s.remaining + 2 ≤ fuel) : r ≠ .diverge :=
  h.ne_diverge (Nat.lt_of_lt_of_le (Nat.lt_succ_of_le (mu_le_remaining s)) hf)

theorem consumeSpaces_total {fuel s} (h : s.remaining + 2 ≤ fuel) : consumeSpaces fuel s ≠ .diverge :=
  total_of (consumeSpaces_spec fuel s) h
theorem consumeWhiteSpaces_total {fuel s} (h : s.remaining + 2 ≤ fuel) : consumeWhiteSpaces fuel s ≠ .diverge :=
  total_of (consumeWhiteSpaces_spec fuel s) h
theorem literalLoop_total {fuel s acc} (h : s.remaining + 2 ≤ fuel) : literalLoop fuel s acc ≠ .diverge :=
  total_of (literalLoop_spec fuel s acc) h
theorem strLoop_total {fuel s acc} (h : s.remaining + 2 ≤ fuel) : strLoop fuel s acc ≠ .diverge :=
  total_of (strLoop_spec fuel s acc) h
theorem uriLoop_total {fuel s acc} (h : s.remaining + 2 ≤ fuel) : uriLoop fuel s acc ≠ .diverge :=
  total_of (uriLoop_spec fuel s acc) h
theorem refLoop_total {fuel s acc} (h : s.remaining + 2 ≤ fuel) : refLoop fuel s acc ≠ .diverge :=
  total_of (refLoop_spec fuel s acc) h
theorem decimalLoop_total {fuel s acc} (h : s.remaining + 2 ≤ fuel) : decimalLoop fuel s acc ≠ .diverge :=
  total_of (decimalLoop_spec fuel s acc) h
theorem unitLoop_total {fuel s acc} (h : s.remaining + 2 ≤ fuel) : unitLoop fuel s acc ≠ .diverge :=
  total_of (unitLoop_spec fuel s acc) h
theorem fracLoop_total {fuel s acc} (h : s.remaining + 2 ≤ fuel) : fracLoop fuel s acc ≠ .diverge :=
  total_of (fracLoop_spec fuel s acc) h
theorem tzNameLoop_total {fuel s acc} (h : s.remaining + 2 ≤ fuel) : tzNameLoop fuel s acc ≠ .diverge :=
  total_of (tzNameLoop_spec fuel s acc) h

/-- the hypothesis is satisfiable by a non-trivial scanner state: three bytes left, fuel 5 -/
example : (Scan.make [32, 32, 120, 121]).remaining + 2 ≤ 5 := by decide

/-- `Lexer::read` terminates -/
theorem lexRead_total {fuel s} (h : s.remaining + 3 ≤ fuel) : lexRead fuel s ≠ .diverge :=
  (lexRead_spec fuel s).ne_diverge (by have := mu_le_remaining s; omega)

example : (Scan.make [34, 120, 34, 44]).remaining + 3 ≤ fuelFor 4 := by decide

/-- What a successful `read` consumes, in terms of `mu` (= unconsumed bytes, the current one included
while `eof` is false): never an increase; a strict decrease unless the scanner already was at the end of
the input, in which case the token is `none` and the scanner is unchanged; and `none` is only ever
returned together with `eof`. -/
theorem lexRead_progress {fuel s l} (h : lexRead fuel s = .ok l) :
    l.sc.mu ≤ s.mu ∧ (s.eof = false → l.sc.mu < s.mu) ∧
    (s.eof = true → l.sc = s ∧ PS.tokNone l = true) ∧ (PS.tokNone l = true → l.sc.eof = true) := by
  refine ⟨(lexRead_spec fuel s).post h, fun he => (lexRead_strict fuel s he).post h, ?_, ?_⟩
  · intro he
    cases fuel with
    | zero => rw [lexRead] at h; cases h
    | succ n => rw [lexRead_at_eof n s he] at h; cases h; exact ⟨rfl, rfl⟩
  · intro ht
    apply (lexRead_tokNone fuel s).post h
    unfold PS.tokNone at ht
    split at ht
    · assumption
    · cases ht

/-! ## 3. The decoder is total -/

theorem never_diverge (bs : List UInt8) : fromBytes bs ≠ .diverge :=
  (fromBytes_spec bs).ne_diverge (Nat.lt_succ_self 0)

/-- **C03 (Zinc, whole value), in full.** -/
theorem C03_zinc_holds : C03_zinc :=
  fun bs => ⟨never_panic bs, never_diverge bs, never_depth bs⟩

/-- fuel sufficiency of the parser for *any* parser state, not only the initial one: `8 * M + 41` units
are enough, where `M` counts the unconsumed bytes and the pending token -/
theorem parseValue_total {fuel d : Nat} {p : PS} (h : 8 * p.M + 41 ≤ fuel) : parseValue fuel d p ≠ .diverge :=
  (parseValue_spec fuel d p).ne_diverge h

example : 8 * (PS.M { sc := Scan.make [91, 49, 93], tok := .ch 91 }) + 41 ≤ fuelFor 4 := by decide

/-! ## 4. Row iterator protocol -/

theorem rowsStart_def (bs : List UInt8) : rowsStart bs =
    match lexRead (fuelFor bs.length) (Scan.make bs) with
    | .ok p => gridHeader (fuelFor bs.length) 0 p
    | .err => .err | .panic => .panic | .diverge => .diverge | .depth => .depth := rfl
theorem nextN_zero (fuel cols r) : nextN fuel cols 0 r = rowNext fuel 0 r cols := rfl
theorem nextN_succ (fuel cols k r) : nextN fuel cols (k + 1) r =
    match rowNext fuel 0 r cols with
    | .ok (some _, r1) => nextN fuel cols k r1
    | .ok (Option.none, r1) => .ok (Option.none, r1)
    | .err => .err | .panic => .panic | .diverge => .diverge | .depth => .depth := rfl

/-- one call of `next()` in any state whose measure the fuel covers -/
theorem rowNext_total {fuel d : Nat} {r : RowState} {cols : List (List Char)} (h : 8 * r.p.M + 43 ≤ fuel) :
    rowNext fuel d r cols ≠ .diverge := (rowNext_spec fuel d r cols).ne_diverge h

/-- **C03 (lazy row iterator), in full.** -/
theorem C03_rows_holds : C03_rows := by
  intro bs
  have hs := rowsStart_spec bs
  refine ⟨hs.ne_panic, hs.ne_diverge (Nat.lt_succ_self 0), hs.ne_depth, ?_⟩
  intro hdr r0 h0 cols
  have hK : r0.K + 1 ≤ bs.length := hs.post h0
  have hn := fun k => nextN_spec bs.length cols k r0 (by omega)
  refine ⟨fun k => ⟨(hn k).ne_panic, (hn k).ne_diverge (Nat.lt_succ_self 0), (hn k).ne_depth⟩, ?_⟩
  intro k hk row r h
  have := (hn k).post h
  simp only [Option.isSome_some, if_true] at this
  omega

/-- the hypothesis of `C03_rows` is satisfiable: a two-row grid starts an iterator … -/
example : (rowsStart (("ver:\"3.0\"\na,b\n1,2\n3,4\n").toUTF8.toList)).isOk = true := by decide +kernel

/-! ## Nesting depth -/

/-- Nesting is bounded: whatever the tokens, a value nested deeper than `maxNestingDepth` is an
error, not a deeper recursion (this is what keeps the native stack bounded). -/
theorem depth_bound (fuel depth : Nat) (p : PS) (h : maxNestingDepth ≤ depth) :
    parseValue (fuel + 1) depth p = .err := by
  simp [parseValue, h]

/-- the recursion depth argument grows by exactly one per nested collection -/
theorem depth_step_list (fuel depth : Nat) (p : PS) (h : depth < maxNestingDepth)
    (ht : p.tok = .ch 91) : parseValue (fuel + 1) depth p = parseList fuel (depth + 1) p := by
  have : ¬ maxNestingDepth ≤ depth := Nat.not_le.2 h
  simp [parseValue, this, ht]

def bytes (s : String) : List UInt8 := s.toUTF8.toList

def outcome (r : Res Val) : Nat :=
  match r with
  | .ok _ => 0 | .err => 1 | .panic => 2 | .diverge => 3 | .depth => 4

/-! Witnesses: the inputs on which the pinned tree panicked, hung or overflowed the stack are
errors of the model of the repaired code. -/

/-- a row with more cells than columns (was: index out of bounds) -/
theorem too_many_cells : outcome (fromBytes (bytes "ver:\"3.0\"\na\n1,2\n")) = 1 := by decide +kernel
/-- a row cut off by the end of input (was: endless loop) -/
theorem truncated_row : outcome (fromBytes (bytes "ver:\"3.0\"\na\n\"x\" ")) = 1 := by decide +kernel
theorem truncated_row2 : outcome (fromBytes (bytes "ver:\"3.0\"\na,b\n1,")) = 1 := by decide +kernel
/-- 65 nested lists (was: unbounded recursion) -/
theorem deep_lists : outcome (fromBytes (List.replicate 65 91)) = 1 := by decide +kernel
/-- 64 levels are accepted when they are closed again -/
theorem deep_lists_ok :
    outcome (fromBytes (List.replicate 63 91 ++ [49] ++ List.replicate 63 93)) = 0 := by decide +kernel

end Hs.C03
