/-
  C17 — the C API behaves exactly like the Rust API on the same values.

  About the model `Hs.CApi.cstep` (tied to src/c_api/*.rs by the translated inventory `Hs.Gen.CApi`
  and by differential execution of random call histories, harness/src/c17.rs):

  * `list_refines_seq`   any history of list calls on a handle answers like the sequence it wraps
  * `dict_refines_map`   any history of dict calls on a handle answers like the finite map it wraps
  * `dict_keys_spec`     `get_dict_keys` writes the ascending enumeration of the map's domain
  * `grid_refines_table` a grid built from rows has those rows, in order; row access / length agree
  * `ctor_then_getter`   what a constructor was given is what the getters return
  * `codec_passthrough`  encode/decode/filter entry points return what the Rust library call returned
  * `error_preserves_pool` a sentinel result leaves every handle unchanged and sets the error; the
                          sentinel is the one of the translated inventory
  * `last_error_take`    the message is returned once; the second call returns nothing
-/
import Hs.Model.CApi
import Hs.Gen.CApi
import Hs.Lemmas.CApiSeq
import Hs.Lemmas.CApiMap
import Hs.Lemmas.CApiStep
import Hs.Lemmas.CApiTable
set_option linter.unusedSimpArgs false
namespace Hs.C17
open Hs Hs.CApi

/-! ## failing calls -/

def ErrorPreservesPool : Prop :=
  ∀ (s : CState) (op : COp) (sen : Sentinel), (cstep s op).2 = .fail sen →
    (cstep s op).1.pool = s.pool ∧ (cstep s op).1.fpool = s.fpool ∧
    (cstep s op).1.next = s.next ∧ (cstep s op).1.fnext = s.fnext ∧
    (cstep s op).1.lastErr.isSome = true ∧
    -- the sentinel is the one the translated inventory lists for the function
    op.row.sentinel = toGen sen

theorem error_preserves_pool : ErrorPreservesPool := by
  intro s op sen h
  rcases cstep_cases s op with ⟨s', r, _, hs⟩ | ⟨e, _, hs⟩
  · rw [hs] at h; cases h
  · rw [hs] at h ⊢
    cases h
    exact ⟨rfl, rfl, rfl, rfl, rfl, sentinel_table op⟩

/-- successful calls neither set nor clear the pending error (only `last_error_message` takes it) -/
theorem success_keeps_error (s : CState) (op : COp) (r : COk) (h : (cstep s op).2 = .ok r)
    (hop : op.fnName ≠ "last_error_message") : (cstep s op).1.lastErr = s.lastErr := by
  rcases cstep_cases s op with ⟨s', r', hx, hs⟩ | ⟨e, _, hs⟩
  · rw [hs]
    cases op <;> simp only [cexec] at hx
    all_goals (repeat' (split at hx))
    all_goals first
      | (cases hx; done)
      | (cases (Except.ok.inj hx); rfl)
      | (exact absurd rfl hop)
  · rw [hs] at h; cases h

/-! ## the error slot -/

def LastErrorTake : Prop :=
  ∀ (s : CState),
    -- the first call returns the message iff an error is pending, and clears it
    ((cstep s .takeErr).2 = (if s.lastErr.isSome then .ok .errMsg else .ok .noStr)) ∧
    (cstep s .takeErr).1.lastErr = none ∧ (cstep s .takeErr).1.pool = s.pool ∧
    -- the second call returns nothing
    (cstep (cstep s .takeErr).1 .takeErr).2 = .ok .noStr

theorem last_error_take : LastErrorTake := by
  intro s
  cases h : s.lastErr <;> simp [cstep, cexec, h]

/-! ## lists -/

/-- the list calls on the handle `h` -/
inductive LOp where
  | len
  | push (e : Ptr)
  | get (i : Nat)
  | set (i : Nat) (e : Ptr)
  | remove (i : Nat)

def LOp.toC (h : Nat) : LOp → COp
  | .len => .get .listLen (some h)
  | .push e => .lpush (some h) e
  | .get i => .lget (some h) i true
  | .set i e => .lset (some h) i e
  | .remove i => .lrem (some h) i

/-- the sequence specification: core `List` operations.  `env` resolves an entry pointer to the value
it points to (entries are cloned into the list). -/
def lspec (env : Ptr → Option Val) (xs : List Val) : LOp → List Val × CRes
  | .len => (xs, .ok (.usize xs.length))
  | .push e =>
    match env e with
    | some v => (xs ++ [v], .ok (.result true))
    | none => (xs, .fail .err)
  | .get i =>
    match xs[i]? with
    | some v => (xs, .ok (.borrow v))
    | none => (xs, .fail .err)
  | .set i e =>
    if i < xs.length then
      match env e with
      | some v => (xs.set i v, .ok (.result true))
      | none => (xs, .fail .err)
    else (xs, .fail .err)
  | .remove i => if i < xs.length then (xs.eraseIdx i, .ok (.result true)) else (xs, .fail .err)

/-- entry pointers: the handle itself refers to the current list, any other pointer to its pooled value -/
def lenv (s : CState) (h : Nat) (xs : List Val) (e : Ptr) : Option Val :=
  if e = some h then some (.list (Vals.ofList xs)) else s.val? e

def lspecRun (s : CState) (h : Nat) : List Val → List LOp → List Val × List CRes
  | xs, [] => (xs, [])
  | xs, op :: ops =>
    let (ys, r) := lspec (lenv s h xs) xs op
    let (zs, rs) := lspecRun s h ys ops
    (zs, r :: rs)

theorem val?_write_same (s : CState) (h : Nat) (v : Val) (hl : (pget s.pool h).isSome) :
    pget (s.write h v).pool h = some v := by
  simp [CState.write, pget_pset_same _ _ _ hl]

theorem val?_write_other (s : CState) (h h' : Nat) (v : Val) (hne : h' ≠ h) :
    pget (s.write h v).pool h' = pget s.pool h' := by
  simp [CState.write, pget_pset_other _ _ _ _ hne]

/-- one list call: the handle afterwards holds the specification's sequence, the answer is the
specification's, no other handle changes -/
theorem list_step (s : CState) (h : Nat) (xs : Vals) (op : LOp) (hh : pget s.pool h = some (.list xs)) :
    ∃ ys : Vals,
      pget (cstep s (op.toC h)).1.pool h = some (.list ys) ∧
      ys.toList = (lspec (lenv s h xs.toList) xs.toList op).1 ∧
      (cstep s (op.toC h)).2 = (lspec (lenv s h xs.toList) xs.toList op).2 ∧
      (∀ h', h' ≠ h → pget (cstep s (op.toC h)).1.pool h' = pget s.pool h') := by
  have hsome : (pget s.pool h).isSome := by rw [hh]; rfl
  have hv : s.val? (some h) = some (.list xs) := by simp [CState.val?, hh]
  have henv : ∀ e, lenv s h xs.toList e = s.val? e := by
    intro e
    unfold lenv
    split
    · rename_i he; subst he; simp [CState.val?, hh, ofList_toList]
    · rfl
  cases op with
  | len =>
    refine ⟨xs, ?_, rfl, ?_, ?_⟩
    · simp [LOp.toC, cstep, cexec, hv, hh, Getter.read]
    · simp [LOp.toC, cstep, cexec, hv, hh, Getter.read, lspec, length_toList]
    · intro h' _; simp [LOp.toC, cstep, cexec, hv, hh, Getter.read]
  | push e =>
    cases he : s.val? e with
    | none =>
      refine ⟨xs, ?_, ?_, ?_, ?_⟩ <;> simp [LOp.toC, cstep, cexec, hv, hh, lspec, henv, he]
    | some v =>
      refine ⟨vPush xs v, ?_, ?_, ?_, ?_⟩
      · simp [LOp.toC, cstep, cexec, hv, hh, he, val?_write_same s h _ hsome]
      · simp [lspec, henv, he, toList_vPush]
      · simp [LOp.toC, cstep, cexec, hv, hh, he, lspec, henv]
      · intro h' hne
        simp [LOp.toC, cstep, cexec, hv, hh, he, val?_write_other s h h' _ hne]
  | get i =>
    cases hg : xs.toList[i]? with
    | none =>
      refine ⟨xs, ?_, ?_, ?_, ?_⟩ <;> simp [LOp.toC, cstep, cexec, hv, hh, lspec, vGet?_eq, hg]
    | some v =>
      refine ⟨xs, ?_, ?_, ?_, ?_⟩ <;> simp [LOp.toC, cstep, cexec, hv, hh, lspec, vGet?_eq, hg]
  | set i e =>
    by_cases hi : i < xs.length
    · have hi' : i < xs.toList.length := by rw [length_toList]; exact hi
      cases he : s.val? e with
      | none =>
        refine ⟨xs, ?_, ?_, ?_, ?_⟩ <;> simp [LOp.toC, cstep, cexec, hv, hh, lspec, henv, he, hi, hi']
      | some v =>
        refine ⟨vSet xs i v, ?_, ?_, ?_, ?_⟩
        · simp [LOp.toC, cstep, cexec, hv, hh, he, hi, val?_write_same s h _ hsome]
        · simp [lspec, henv, he, hi', toList_vSet]
        · simp [LOp.toC, cstep, cexec, hv, hh, he, hi, hi', lspec, henv]
        · intro h' hne
          simp [LOp.toC, cstep, cexec, hv, hh, he, hi, val?_write_other s h h' _ hne]
    · have hi' : ¬ i < xs.toList.length := by rw [length_toList]; exact hi
      refine ⟨xs, ?_, ?_, ?_, ?_⟩ <;> simp [LOp.toC, cstep, cexec, hv, hh, lspec, hi, hi']
  | remove i =>
    by_cases hi : i < xs.length
    · have hi' : i < xs.toList.length := by rw [length_toList]; exact hi
      refine ⟨vRemoveAt xs i, ?_, ?_, ?_, ?_⟩
      · simp [LOp.toC, cstep, cexec, hv, hh, hi, val?_write_same s h _ hsome]
      · simp [lspec, hi', toList_vRemoveAt]
      · simp [LOp.toC, cstep, cexec, hv, hh, hi, hi', lspec]
      · intro h' hne
        simp [LOp.toC, cstep, cexec, hv, hh, hi, val?_write_other s h h' _ hne]
    · have hi' : ¬ i < xs.toList.length := by rw [length_toList]; exact hi
      refine ⟨xs, ?_, ?_, ?_, ?_⟩ <;> simp [LOp.toC, cstep, cexec, hv, hh, lspec, hi, hi']

def ListRefinesSeq : Prop :=
  ∀ (ops : List LOp) (s : CState) (h : Nat) (xs : Vals), pget s.pool h = some (.list xs) →
    ∃ ys : Vals,
      pget (crun s (ops.map (LOp.toC h))).1.pool h = some (.list ys) ∧
      ys.toList = (lspecRun s h xs.toList ops).1 ∧
      (crun s (ops.map (LOp.toC h))).2 = (lspecRun s h xs.toList ops).2 ∧
      (∀ h', h' ≠ h → pget (crun s (ops.map (LOp.toC h))).1.pool h' = pget s.pool h')

theorem lenv_congr (s s' : CState) (h : Nat) (hs : ∀ h', h' ≠ h → pget s'.pool h' = pget s.pool h') :
    lenv s' h = lenv s h := by
  funext xs e
  unfold lenv
  split
  · rfl
  · rename_i hne
    cases e with
    | none => rfl
    | some k =>
      have : k ≠ h := fun e => hne (by rw [e])
      simp [CState.val?, hs k this]

theorem lspecRun_congr (s s' : CState) (h : Nat) (he : lenv s' h = lenv s h) :
    ∀ (ops : List LOp) (xs : List Val), lspecRun s' h xs ops = lspecRun s h xs ops := by
  intro ops
  induction ops with
  | nil => intro xs; rfl
  | cons op ops ih => intro xs; simp [lspecRun, he, ih]

/-- histories of any length: by induction on the history -/
theorem list_refines_seq : ListRefinesSeq := by
  intro ops
  induction ops with
  | nil =>
    intro s h xs hh
    exact ⟨xs, by simpa [crun] using hh, rfl, rfl, fun _ _ => rfl⟩
  | cons op ops ih =>
    intro s h xs hh
    obtain ⟨ys, h1, h2, h3, h4⟩ := list_step s h xs op hh
    obtain ⟨zs, g1, g2, g3, g4⟩ := ih (cstep s (op.toC h)).1 h ys h1
    have hc := lspecRun_congr s (cstep s (op.toC h)).1 h (lenv_congr s _ h h4) ops
    refine ⟨zs, ?_, ?_, ?_, ?_⟩
    · simpa [crun] using g1
    · simp only [lspecRun]; rw [g2, h2, hc]
    · simp only [crun, lspecRun, List.map]; rw [g3, h3, h2, hc]
    · intro h' hne
      simp only [crun, List.map]
      rw [g4 h' hne, h4 h' hne]

/-! ## dicts -/

/-- a finite map as its lookup function -/
abbrev KMap := List Char → Option Val

def KMap.set (m : KMap) (k : List Char) (v : Option Val) : KMap := fun q => if q = k then v else m q

/-- the dict calls on the handle `h` -/
inductive DOp where
  | len
  | insert (key : CStr) (e : Ptr)
  | get (key : CStr)
  | remove (key : CStr)

def DOp.toC (h : Nat) : DOp → COp
  | .len => .get .dictLen (some h)
  | .insert k e => .dins (some h) k e
  | .get k => .dget (some h) k true
  | .remove k => .drem (some h) k

/-- entries come from other handles (a dict is not inserted into itself in these histories) -/
def DOp.entryOk (h : Nat) : DOp → Prop
  | .insert _ e => e ≠ some h
  | _ => True

/-- the map after a call -/
def dnext (env : Ptr → Option Val) (m : KMap) : DOp → KMap
  | .insert (.ok k) e =>
    match env e with
    | some v => m.set k (some v)
    | none => m
  | .remove (.ok k) => m.set k none
  | _ => m

/-- the answer the finite map gives to a call -/
def DAnswer (env : Ptr → Option Val) (m : KMap) (op : DOp) (r : CRes) : Prop :=
  match op with
  | .len => ∃ ks : List (List Char), Asc ks ∧ (∀ q, q ∈ ks ↔ (m q).isSome = true) ∧ r = .ok (.usize ks.length)
  | .insert key e =>
    match key, env e with
    | .ok _, some _ => r = .ok (.result true)
    | _, _ => r = .fail .err
  | .get key =>
    match key with
    | .ok k =>
      match m k with
      | some v => r = .ok (.borrow v)
      | none => r = .ok (.result false)
    | _ => r = .fail .err
  | .remove key =>
    match key with
    | .ok _ => r = .ok (.result true)
    | _ => r = .fail .err

/-- a history against the map: every answer is the map's answer at that point -/
def DRun (env : Ptr → Option Val) : KMap → List DOp → List CRes → KMap → Prop
  | m, [], rs, m' => rs = [] ∧ m' = m
  | m, op :: ops, rs, m' => ∃ r rs', rs = r :: rs' ∧ DAnswer env m op r ∧ DRun env (dnext env m op) ops rs' m'

theorem dict_step (s : CState) (h : Nat) (t : Tags) (op : DOp) (hh : pget s.pool h = some (.dict t))
    (hs : Sorted t) (hop : op.entryOk h) :
    ∃ t' : Tags,
      pget (cstep s (op.toC h)).1.pool h = some (.dict t') ∧ Sorted t' ∧
      t'.get? = dnext s.val? t.get? op ∧
      DAnswer s.val? t.get? op (cstep s (op.toC h)).2 ∧
      (∀ h', h' ≠ h → pget (cstep s (op.toC h)).1.pool h' = pget s.pool h') := by
  have hsome : (pget s.pool h).isSome := by rw [hh]; rfl
  have hv : s.val? (some h) = some (.dict t) := by simp [CState.val?, hh]
  cases op with
  | len =>
    refine ⟨t, ?_, hs, rfl, ?_, ?_⟩
    · simp [DOp.toC, cstep, cexec, hv, hh, Getter.read]
    · refine ⟨t.keys, asc_keys t hs, fun q => mem_keys_iff q t, ?_⟩
      simp [DOp.toC, cstep, cexec, hv, Getter.read, length_keys]
    · intro h' _; simp [DOp.toC, cstep, cexec, hv, Getter.read]
  | insert key e =>
    cases key with
    | null =>
      refine ⟨t, ?_, hs, rfl, ?_, ?_⟩ <;> simp [DOp.toC, cstep, cexec, hh, CStr.isNull, DAnswer]
    | bad =>
      cases e with
      | none => refine ⟨t, ?_, hs, rfl, ?_, ?_⟩ <;> simp [DOp.toC, cstep, cexec, hh, CStr.isNull, DAnswer]
      | some ke =>
        refine ⟨t, ?_, hs, rfl, ?_, ?_⟩ <;> simp [DOp.toC, cstep, cexec, hh, CStr.isNull, CStr.text, DAnswer]
    | ok k =>
      cases e with
      | none =>
        refine ⟨t, ?_, hs, ?_, ?_, ?_⟩ <;> simp [DOp.toC, cstep, cexec, hh, CStr.isNull, DAnswer, dnext, CState.val?]
      | some ke =>
        cases he : s.val? (some ke) with
        | none =>
          refine ⟨t, ?_, hs, ?_, ?_, ?_⟩ <;>
            simp [DOp.toC, cstep, cexec, hh, hv, he, CStr.isNull, CStr.text, DAnswer, dnext]
        | some v =>
          refine ⟨tInsert t k v, ?_, sorted_tInsert k v t hs, ?_, ?_, ?_⟩
          · simp [DOp.toC, cstep, cexec, hv, he, CStr.isNull, CStr.text, val?_write_same s h _ hsome]
          · funext q
            simp [dnext, he, KMap.set, get?_tInsert]
          · simp [DOp.toC, cstep, cexec, hv, he, CStr.isNull, CStr.text, DAnswer]
          · intro h' hne
            simp [DOp.toC, cstep, cexec, hv, he, CStr.isNull, CStr.text, val?_write_other s h h' _ hne]
  | get key =>
    cases key with
    | null => refine ⟨t, ?_, hs, rfl, ?_, ?_⟩ <;> simp [DOp.toC, cstep, cexec, hh, CStr.isNull, DAnswer]
    | bad => refine ⟨t, ?_, hs, rfl, ?_, ?_⟩ <;> simp [DOp.toC, cstep, cexec, hh, CStr.isNull, CStr.text, DAnswer]
    | ok k =>
      cases hg : t.get? k with
      | none =>
        refine ⟨t, ?_, hs, rfl, ?_, ?_⟩ <;> simp [DOp.toC, cstep, cexec, hh, hv, hg, CStr.isNull, CStr.text, DAnswer]
      | some v =>
        refine ⟨t, ?_, hs, rfl, ?_, ?_⟩ <;> simp [DOp.toC, cstep, cexec, hh, hv, hg, CStr.isNull, CStr.text, DAnswer]
  | remove key =>
    cases key with
    | null => refine ⟨t, ?_, hs, rfl, ?_, ?_⟩ <;> simp [DOp.toC, cstep, cexec, hh, CStr.isNull, DAnswer]
    | bad => refine ⟨t, ?_, hs, rfl, ?_, ?_⟩ <;> simp [DOp.toC, cstep, cexec, hh, CStr.isNull, CStr.text, DAnswer]
    | ok k =>
      refine ⟨tRemove t k, ?_, sorted_tRemove k t hs, ?_, ?_, ?_⟩
      · simp [DOp.toC, cstep, cexec, hv, CStr.isNull, CStr.text, val?_write_same s h _ hsome]
      · funext q
        simp [dnext, KMap.set, get?_tRemove k q t hs]
      · simp [DOp.toC, cstep, cexec, hv, CStr.isNull, CStr.text, DAnswer]
      · intro h' hne
        simp [DOp.toC, cstep, cexec, hv, CStr.isNull, CStr.text, val?_write_other s h h' _ hne]

def DictRefinesMap : Prop :=
  ∀ (ops : List DOp) (s : CState) (h : Nat) (t : Tags), pget s.pool h = some (.dict t) → Sorted t →
    (∀ op ∈ ops, op.entryOk h) →
    ∃ t' : Tags,
      pget (crun s (ops.map (DOp.toC h))).1.pool h = some (.dict t') ∧ Sorted t' ∧
      DRun s.val? t.get? ops (crun s (ops.map (DOp.toC h))).2 t'.get? ∧
      (∀ h', h' ≠ h → pget (crun s (ops.map (DOp.toC h))).1.pool h' = pget s.pool h')

theorem dnext_congr (env env' : Ptr → Option Val) (h : Nat) (op : DOp) (hop : op.entryOk h)
    (he : ∀ e, e ≠ some h → env' e = env e) (m : KMap) : dnext env' m op = dnext env m op := by
  cases op with
  | insert key e =>
    cases key <;> simp [dnext]
    rw [he e hop]
  | remove key => cases key <;> rfl
  | _ => rfl

theorem danswer_congr (env env' : Ptr → Option Val) (h : Nat) (op : DOp) (hop : op.entryOk h)
    (he : ∀ e, e ≠ some h → env' e = env e) (m : KMap) (r : CRes) :
    DAnswer env' m op r ↔ DAnswer env m op r := by
  cases op with
  | insert key e => simp only [DAnswer]; rw [he e hop]
  | _ => rfl

theorem drun_congr (env env' : Ptr → Option Val) (h : Nat) (he : ∀ e, e ≠ some h → env' e = env e) :
    ∀ (ops : List DOp), (∀ op ∈ ops, op.entryOk h) → ∀ (m : KMap) (rs : List CRes) (m' : KMap),
      DRun env' m ops rs m' → DRun env m ops rs m' := by
  intro ops
  induction ops with
  | nil => intro _ m rs m' hr; exact hr
  | cons op ops ih =>
    intro hops m rs m' hr
    obtain ⟨r, rs', h1, h2, h3⟩ := hr
    have hop := hops op (List.mem_cons_self)
    refine ⟨r, rs', h1, (danswer_congr env env' h op hop he m r).mp h2, ?_⟩
    rw [← dnext_congr env env' h op hop he m]
    exact ih (fun o ho => hops o (List.mem_cons_of_mem _ ho)) _ _ _ h3

/-- histories of any length: by induction on the history -/
theorem dict_refines_map : DictRefinesMap := by
  intro ops
  induction ops with
  | nil =>
    intro s h t hh hs _
    exact ⟨t, by simpa [crun] using hh, hs, ⟨rfl, rfl⟩, fun _ _ => rfl⟩
  | cons op ops ih =>
    intro s h t hh hs hops
    have hop := hops op (List.mem_cons_self)
    obtain ⟨t1, h1, h2, h3, h4, h5⟩ := dict_step s h t op hh hs hop
    obtain ⟨t2, g1, g2, g3, g4⟩ := ih (cstep s (op.toC h)).1 h t1 h1 h2 (fun o ho => hops o (List.mem_cons_of_mem _ ho))
    have henv : ∀ e, e ≠ some h → (cstep s (op.toC h)).1.val? e = s.val? e := by
      intro e hne
      cases e with
      | none => rfl
      | some k =>
        have : k ≠ h := fun x => hne (by rw [x])
        simp [CState.val?, h5 k this]
    refine ⟨t2, ?_, g2, ?_, ?_⟩
    · simpa [crun] using g1
    · refine ⟨_, _, rfl, h4, ?_⟩
      rw [← h3]
      exact drun_congr s.val? _ h henv ops (fun o ho => hops o (List.mem_cons_of_mem _ ho)) _ _ _ g3
    · intro h' hne
      simp only [crun, List.map]
      rw [g4 h' hne, h5 h' hne]

/-- `get_dict_keys` writes the ascending enumeration of the map's domain into the result handle -/
def DictKeysSpec : Prop :=
  ∀ (s : CState) (h r : Nat) (t : Tags) (v : Val), pget s.pool h = some (.dict t) → Sorted t →
    pget s.pool r = some v →
    ∃ ks : Vals, ∃ names : List (List Char),
      (cstep s (.dkeys (some h) (some r))).2 = .ok (.result true) ∧
      pget (cstep s (.dkeys (some h) (some r))).1.pool r = some (.list ks) ∧
      ks.toList = names.map Val.str ∧ Asc names ∧ (∀ q, q ∈ names ↔ (t.get? q).isSome = true)

theorem dict_keys_spec : DictKeysSpec := by
  intro s h r t v hh hs hr
  have hsome : (pget s.pool r).isSome := by rw [hr]; rfl
  refine ⟨keysList t, t.keys, ?_, ?_, toList_keysList t, asc_keys t hs, fun q => mem_keys_iff q t⟩
  · simp [cstep, cexec, CState.val?, hh, hr]
  · simp [cstep, cexec, CState.val?, hh, hr, val?_write_same s r _ hsome]

/-! ## grids -/

/-- a grid built from a list handle: its rows are the `Dict` entries of the list in order, its columns
the ascending duplicate-free union of their keys; length and row access answer like that table -/
def GridRefinesTable : Prop :=
  ∀ (s : CState) (h : Nat) (xs : Vals), pget s.pool h = some (.list xs) → dictsOf xs ≠ [] →
    ∃ cols : Cols,
      (cstep s (.gfrom (some h))).2 = .ok (.handle s.next) ∧
      pget (cstep s (.gfrom (some h))).1.pool s.next
        = some (.grid .none cols (Rows.ofList (dictsOf xs)) verText) ∧
      Asc cols.names ∧ (∀ q, q ∈ cols.names ↔ ∃ r ∈ dictsOf xs, q ∈ r.keys) ∧
      (cstep (cstep s (.gfrom (some h))).1 (.get .gridLen (some s.next))).2 = .ok (.usize (dictsOf xs).length) ∧
      (∀ (i r : Nat) (v : Val), pget (cstep s (.gfrom (some h))).1.pool r = some v →
        match (dictsOf xs)[i]? with
        | some row =>
          (cstep (cstep s (.gfrom (some h))).1 (.grow (some s.next) i (some r))).2 = .ok (.result true) ∧
          pget (cstep (cstep s (.gfrom (some h))).1 (.grow (some s.next) i (some r))).1.pool r = some (.dict row)
        | none =>
          (cstep (cstep s (.gfrom (some h))).1 (.grow (some s.next) i (some r))).2 = .fail .err)

theorem grow_spec (s1 : CState) (g r i : Nat) (md : OTags) (cols : Cols) (rows : Rows) (ver : List Char) (v : Val)
    (hg : s1.val? (some g) = some (.grid md cols rows ver)) (hr : s1.val? (some r) = some v) :
    match rGet? rows i with
    | some row => cstep s1 (.grow (some g) i (some r)) = (s1.write r (.dict row), .ok (.result true))
    | none => (cstep s1 (.grow (some g) i (some r))).2 = .fail .err := by
  cases hi : rGet? rows i with
  | none => simp [cstep, cexec, hg, hi]
  | some row => simp [cstep, cexec, hg, hr, hi]

theorem grid_refines_table : GridRefinesTable := by
  intro s h xs hh hne
  have hv : s.val? (some h) = some (.list xs) := by simp [CState.val?, hh]
  obtain ⟨r0, rs0, hd⟩ : ∃ r rs, dictsOf xs = r :: rs := by
    cases hd : dictsOf xs with
    | nil => exact absurd hd hne
    | cons r rs => exact ⟨r, rs, rfl⟩
  have hg : gridFromRows s (some h) = .ok (dictsOf xs) := by simp [gridFromRows, hv, hd]
  have hstep : cstep s (.gfrom (some h)) =
      ((s.alloc (gridFromDicts (dictsOf xs) .none)).1, .ok (.handle s.next)) := by
    simp [cstep, cexec, hg, CState.alloc]
  obtain ⟨hasc, hmem⟩ := unionKeys_spec (dictsOf xs)
  have hgv : (s.alloc (gridFromDicts (dictsOf xs) .none)).1.val? (some s.next)
      = some (.grid .none (colsOfNames (unionKeys (dictsOf xs))) (Rows.ofList (dictsOf xs)) verText) := by
    simp [CState.alloc, CState.val?, pget, gridFromDicts]
  refine ⟨colsOfNames (unionKeys (dictsOf xs)), ?_, ?_, ?_, ?_, ?_, ?_⟩
  · rw [hstep]
  · rw [hstep]; simpa [CState.val?] using hgv
  · rw [names_colsOfNames]; exact hasc
  · intro q; rw [names_colsOfNames]; exact hmem q
  · rw [hstep]
    simp [cstep, cexec, hgv, Getter.read, length_rows_ofList]
  · intro i r v hr
    rw [hstep] at hr ⊢
    have hr' : (s.alloc (gridFromDicts (dictsOf xs) .none)).1.val? (some r) = some v := by
      simpa [CState.val?] using hr
    have hsome : (pget (s.alloc (gridFromDicts (dictsOf xs) .none)).1.pool r).isSome := by
      simp only at hr; rw [hr]; rfl
    have hspec := grow_spec _ s.next r i _ _ _ _ v hgv hr'
    rw [rGet?_ofList] at hspec
    cases hi : (dictsOf xs)[i]? with
    | none => rw [hi] at hspec; exact hspec
    | some row =>
      rw [hi] at hspec
      simp only at hspec ⊢
      rw [hspec]
      exact ⟨rfl, val?_write_same _ r _ hsome⟩

/-! ## constructors then getters -/

/-- result of the constructor call and of the query on the handle it returned (the next free id) -/
def after (s : CState) (ctor : COp) (q : Ptr → COp) : CRes × CRes :=
  ((cstep s ctor).2, (cstep (cstep s ctor).1 (q (some s.next))).2)

theorem val_alloc (s : CState) (v : Val) : (s.alloc v).1.val? (some s.next) = some v := by
  simp [CState.alloc, CState.val?, pget]

/-- the kind of the value an argument-free constructor makes -/
def k0Kind : K0 → Kind
  | .init => .null | .marker => .marker | .na => .na | .remove => .remove
  | .list => .list | .dict => .dict | .grid => .grid

def k1Kind : K1 → Kind
  | .str => .str | .ref => .ref | .uri => .uri | .symbol => .symbol

/-- what was put in comes out: for every constructor with valid arguments, on any state -/
def CtorThenGetter : Prop :=
  ∀ (s : CState),
    let H : CRes := .ok (.handle s.next)
    (∀ (k0 : K0) (k : Kind), after s (.mk0 k0) (.isKind k) = (H, .ok (.bool (decide (k = k0Kind k0))))) ∧
    (∀ (b : Bool) (k : Kind), after s (.mkBool b) (.isKind k) = (H, .ok (.bool (decide (k = .bool))))) ∧
    (∀ x, after s (.mkNum x) (.get .numberValue) = (H, .ok (.f64 x))) ∧
    (∀ x, after s (.mkNum x) (.get .numberHasUnit) = (H, .ok (.result false))) ∧
    (∀ x, after s (.mkNum x) (.get .numberUnit) = (H, .ok .noStr)) ∧
    (∀ x u sym, after s (.mkNumUnit x (.ok u) (some sym)) (.get .numberValue) = (H, .ok (.f64 x))) ∧
    (∀ x u sym, after s (.mkNumUnit x (.ok u) (some sym)) (.get .numberHasUnit) = (H, .ok (.result true))) ∧
    (∀ x u sym, hasNul sym = false →
      after s (.mkNumUnit x (.ok u) (some sym)) (.get .numberUnit) = (H, .ok (.cstr sym))) ∧
    (∀ a b, after s (.mkCoord a b) (.get .coordLat) = (H, .ok (.f64 a))) ∧
    (∀ a b, after s (.mkCoord a b) (.get .coordLong) = (H, .ok (.f64 b))) ∧
    (∀ (k1 : K1) t (k : Kind), after s (.mk1 k1 (.ok t)) (.isKind k) = (H, .ok (.bool (decide (k = k1Kind k1))))) ∧
    (∀ t, hasNul t = false → after s (.mk1 .str (.ok t)) (.get .strValue) = (H, .ok (.cstr t))) ∧
    (∀ t, after s (.mk1 .str (.ok t)) (.get .strLen) = (H, .ok (.usize (utf8Len t)))) ∧
    (∀ t, hasNul t = false → after s (.mk1 .ref (.ok t)) (.get .refValue) = (H, .ok (.cstr t))) ∧
    (∀ t, after s (.mk1 .ref (.ok t)) (.get .refValueLen) = (H, .ok (.usize (utf8Len t)))) ∧
    (∀ t, after s (.mk1 .ref (.ok t)) (.get .refDis) = (H, .ok .noStr)) ∧
    (∀ t, hasNul t = false → after s (.mk1 .uri (.ok t)) (.get .uriValue) = (H, .ok (.cstr t))) ∧
    (∀ t, after s (.mk1 .uri (.ok t)) (.get .uriValueLen) = (H, .ok (.usize (utf8Len t)))) ∧
    (∀ t, hasNul t = false → after s (.mk1 .symbol (.ok t)) (.get .symbolValue) = (H, .ok (.cstr t))) ∧
    (∀ t, after s (.mk1 .symbol (.ok t)) (.get .symbolValueLen) = (H, .ok (.usize (utf8Len t)))) ∧
    (∀ a b, hasNul a = false → after s (.mkRefDis (.ok a) (.ok b)) (.get .refValue) = (H, .ok (.cstr a))) ∧
    (∀ a b, hasNul b = false → after s (.mkRefDis (.ok a) (.ok b)) (.get .refDis) = (H, .ok (.cstr b))) ∧
    (∀ a b, hasNul a = false → after s (.mkXStr (.ok a) (.ok b)) (.get .xstrType) = (H, .ok (.cstr a))) ∧
    (∀ a b, hasNul b = false → after s (.mkXStr (.ok a) (.ok b)) (.get .xstrValue) = (H, .ok (.cstr b))) ∧
    (∀ h m sec, timeOk h m sec 0 = true →
      after s (.mkTime h m sec) (.get .timeHour) = (H, .ok (.u32 h)) ∧
      after s (.mkTime h m sec) (.get .timeMinutes) = (H, .ok (.u32 m)) ∧
      after s (.mkTime h m sec) (.get .timeSeconds) = (H, .ok (.u32 sec)) ∧
      after s (.mkTime h m sec) (.get .timeMillis) = (H, .ok (.u32 0))) ∧
    (∀ h m sec ms, 1000000 * ms < 4294967296 → timeOk h m sec (1000000 * ms) = true →
      after s (.mkTimeMs h m sec ms) (.get .timeHour) = (H, .ok (.u32 h)) ∧
      after s (.mkTimeMs h m sec ms) (.get .timeMinutes) = (H, .ok (.u32 m)) ∧
      after s (.mkTimeMs h m sec ms) (.get .timeSeconds) = (H, .ok (.u32 sec)) ∧
      after s (.mkTimeMs h m sec ms) (.get .timeMillis) = (H, .ok (.u32 ms))) ∧
    (∀ (y : Nat) m d, dateOk y m d = true →
      after s (.mkDate y m d) (.get .dateYear) = (H, .ok (.u32 y)) ∧
      after s (.mkDate y m d) (.get .dateMonth) = (H, .ok (.u32 m)) ∧
      after s (.mkDate y m d) (.get .dateDay) = (H, .ok (.u32 d)))

theorem ctor_then_getter : CtorThenGetter := by
  intro s
  refine ⟨?_, ?_, ?_, ?_, ?_, ?_, ?_, ?_, ?_, ?_, ?_, ?_, ?_, ?_, ?_, ?_, ?_, ?_, ?_, ?_, ?_, ?_, ?_, ?_, ?_, ?_, ?_⟩
  · intro k0 k; cases k0 <;> cases k <;> simp [after, cstep, cexec, CState.val?, pget, K0.val, Kind.test, k0Kind, emptyGrid, CState.alloc]
  · intro b k; cases k <;> simp [after, cstep, cexec, CState.val?, pget, Kind.test, CState.alloc]
  · intro x; simp [after, cstep, cexec, CState.val?, pget, Getter.read, CState.alloc]
  · intro x; simp [after, cstep, cexec, CState.val?, pget, Getter.read, CState.alloc]
  · intro x; simp [after, cstep, cexec, CState.val?, pget, Getter.read, CState.alloc]
  · intro x u sym; simp [after, cstep, cexec, CState.val?, pget, Getter.read, CState.alloc]
  · intro x u sym; simp [after, cstep, cexec, CState.val?, pget, Getter.read, CState.alloc]
  · intro x u sym hn; simp [after, cstep, cexec, CState.val?, pget, Getter.read, CState.alloc, hn]
  · intro a b; simp [after, cstep, cexec, CState.val?, pget, Getter.read, CState.alloc]
  · intro a b; simp [after, cstep, cexec, CState.val?, pget, Getter.read, CState.alloc]
  · intro k1 t k; cases k1 <;> cases k <;> simp [after, cstep, cexec, CState.val?, pget, K1.val, Kind.test, k1Kind, CStr.text, CState.alloc]
  · intro t hn; simp [after, cstep, cexec, CState.val?, pget, Getter.read, K1.val, CStr.text, CState.alloc, hn]
  · intro t; simp [after, cstep, cexec, CState.val?, pget, Getter.read, K1.val, CStr.text, CState.alloc]
  · intro t hn; simp [after, cstep, cexec, CState.val?, pget, Getter.read, K1.val, CStr.text, CState.alloc, hn]
  · intro t; simp [after, cstep, cexec, CState.val?, pget, Getter.read, K1.val, CStr.text, CState.alloc]
  · intro t; simp [after, cstep, cexec, CState.val?, pget, Getter.read, K1.val, CStr.text, CState.alloc]
  · intro t hn; simp [after, cstep, cexec, CState.val?, pget, Getter.read, K1.val, CStr.text, CState.alloc, hn]
  · intro t; simp [after, cstep, cexec, CState.val?, pget, Getter.read, K1.val, CStr.text, CState.alloc]
  · intro t hn; simp [after, cstep, cexec, CState.val?, pget, Getter.read, K1.val, CStr.text, CState.alloc, hn]
  · intro t; simp [after, cstep, cexec, CState.val?, pget, Getter.read, K1.val, CStr.text, CState.alloc]
  · intro a b hn; simp [after, cstep, cexec, CState.val?, pget, Getter.read, CStr.text, CStr.isNull, CState.alloc, hn]
  · intro a b hn; simp [after, cstep, cexec, CState.val?, pget, Getter.read, CStr.text, CStr.isNull, CState.alloc, hn]
  · intro a b hn; simp [after, cstep, cexec, CState.val?, pget, Getter.read, CStr.text, CStr.isNull, CState.alloc, hn]
  · intro a b hn; simp [after, cstep, cexec, CState.val?, pget, Getter.read, CStr.text, CStr.isNull, CState.alloc, hn]
  · intro h m sec hok
    simp [after, cstep, cexec, CState.val?, pget, Getter.read, CState.alloc, hok, mkTimeVal]
  · intro h m sec ms hlt hok
    have : ¬ 4294967296 ≤ 1000000 * ms := Nat.not_le.mpr hlt
    simp [after, cstep, cexec, CState.val?, pget, Getter.read, CState.alloc, hok, mkTimeVal, this]
  · intro y m d hok
    have h0 : (0 : Int) ≤ (y : Int) := Int.natCast_nonneg y
    have hneg : ¬ ((y : Int) < 0) := by omega
    simp [after, cstep, cexec, CState.val?, pget, Getter.read, CState.alloc, hok, mkDateVal, h0, hneg]

/-! ## codec and filter entry points -/

/-- the entry points whose work is done by library code outside the model return exactly what that
code returned (`ext…`), after the pointer / text checks; the harness computes `ext…` with the Rust API
on the same values and compares the C answer with it directly -/
def CodecPassthrough : Prop :=
  ∀ (s : CState) (k : Nat) (v : Val), pget s.pool k = some v →
    (∀ t, (cstep s (.toZinc (some k) (some t))).2 = .ok (.cstr t)) ∧
    (∀ t, (cstep s (.toJson (some k) (some t))).2 = .ok (.cstr t)) ∧
    (cstep s (.toZinc (some k) none)).2 = .fail .null ∧
    (cstep s (.toJson (some k) none)).2 = .fail .null ∧
    (∀ txt w, (cstep s (.fromZinc (.ok txt) (some w))).2 = .ok (.handle s.next) ∧
      pget (cstep s (.fromZinc (.ok txt) (some w))).1.pool s.next = some w) ∧
    (∀ txt w, (cstep s (.fromJson (.ok txt) (some w))).2 = .ok (.handle s.next) ∧
      pget (cstep s (.fromJson (.ok txt) (some w))).1.pool s.next = some w) ∧
    (∀ txt, (cstep s (.fromZinc (.ok txt) none)).2 = .fail .null ∧ (cstep s (.fromJson (.ok txt) none)).2 = .fail .null) ∧
    (∀ f src (b : Bool) t, pget s.fpool f = some src → v = .dict t →
      (cstep s (.fmatch (some f) (some k) b)).2 = .ok (.result b))

theorem codec_passthrough : CodecPassthrough := by
  intro s k v hk
  have hv : s.val? (some k) = some v := by simp [CState.val?, hk]
  refine ⟨?_, ?_, ?_, ?_, ?_, ?_, ?_, ?_⟩
  · intro t; simp [cstep, cexec, hv]
  · intro t; simp [cstep, cexec, hv]
  · simp [cstep, cexec, hv]
  · simp [cstep, cexec, hv]
  · intro txt w; simp [cstep, cexec, CStr.text, CState.alloc, pget]
  · intro txt w; simp [cstep, cexec, CStr.text, CState.alloc, pget]
  · intro txt; simp [cstep, cexec, CStr.text]
  · intro f src b t hf hd
    subst hd
    simp [cstep, cexec, hv, CState.flt?, hf]

/-! ## the property -/

/-- C17 at full strength (for the model): every clause of the statement -/
def C17_full : Prop :=
  ListRefinesSeq ∧ DictRefinesMap ∧ DictKeysSpec ∧ GridRefinesTable ∧ CtorThenGetter ∧ CodecPassthrough ∧
  ErrorPreservesPool ∧ LastErrorTake

theorem C17_holds : C17_full :=
  ⟨list_refines_seq, dict_refines_map, dict_keys_spec, grid_refines_table, ctor_then_getter, codec_passthrough,
   error_preserves_pool, last_error_take⟩

/-! ## non-vacuity: concrete states and calls satisfying the hypotheses -/

/-- a state with a list handle `0` holding `[M]`, a dict handle `1` holding `{a: M}` and a marker `2` -/
def exState : CState :=
  { pool := [(0, .list (.cons .marker .nil)), (1, .dict (.cons ['a'] .marker .nil)), (2, .marker)],
    fpool := [], next := 3, fnext := 0, lastErr := none }

example : pget exState.pool 0 = some (.list (.cons .marker .nil)) := rfl
example : pget exState.pool 1 = some (.dict (.cons ['a'] .marker .nil)) ∧ Sorted (.cons ['a'] .marker .nil) :=
  ⟨rfl, trivial, trivial⟩
example : ∀ op ∈ [DOp.insert (.ok ['b']) (some 2), .get (.ok ['b']), .remove (.ok ['a']), .len], op.entryOk 1 := by
  intro op hop
  simp at hop
  rcases hop with h | h | h | h <;> subst h <;> simp [DOp.entryOk]
example : dictsOf (.cons (.dict (.cons ['a'] .marker .nil)) .nil) ≠ [] := by simp [dictsOf]
example : timeOk 23 59 59 0 = true ∧ timeOk 23 59 59 (1000000 * 1999) = true ∧ 1000000 * 1999 < 4294967296 := by decide
example : dateOk 2024 2 29 = true ∧ dateOk 2023 2 29 = false := by decide
example : hasNul ['a', 'b'] = false := by decide
/-- a failing call exists (so `ErrorPreservesPool` is not vacuous): wrong kind -/
example : (cstep exState (.lpush (some 2) (some 2))).2 = .fail .err := rfl
/-- a history on the list handle: push, set, get, remove, out-of-range get -/
example : (crun exState ([LOp.push (some 2), .set 0 (some 1), .get 1, .remove 0, .get 5].map (LOp.toC 0))).2.length = 5 := rfl

end Hs.C17
