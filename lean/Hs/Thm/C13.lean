/-
  C13 — def namespace queries agree with the subtype graph.

  Model: Hs.Model.Ns (`Namespace::make` with its indexes, `supertypes_of`, `subtypes_of`, the work-list loops
  `all_supertypes_of` / `all_subtypes_of`, `inheritance`, `fits`, `choices_for`, `conjuncts_defs`, `reflect`,
  `Reflection::fits` = the filter term `^sym`), tied to src/haystack/defs/{namespace,reflection}.rs and
  filter/nodes.rs by the correspondence check.

  Specification graph (Hs.Lemmas.NsGraph): `RawEdge g a b` = "`a` is a def and `b` is a Symbol item of its `is`
  list", `Edge g a b` = `RawEdge g a b` and `b` is a def.  Closures are `Relation.TransGen` / `ReflTransGen`.
  `Acyclic g` = a topological numbering of the `is` items bounded by the number of defs.

  The theorems hold for EVERY defs grid `rows` (any size, duplicates of a `def` symbol, rows without `def`,
  non-Symbol items in `is`, undefined supertypes, conjuncts, feature keys) whose `is` graph is acyclic, with
  every fuel `≥ fuelFor g`; results are compared as sets.  Two observations the statements make explicit:
  * `subtypes_of` / `all_subtypes_of` of an UNDEFINED symbol that is mentioned in `is` lists are not empty
    (the index is keyed by the mentioned symbol): the subtype side is stated with `RawEdge`, and with `Edge` for
    defined symbols;
  * `reflect` only looks for conjuncts among the tags that HAVE A DEF and carry a Marker: `Seed`.  For a
    normalised namespace (every part of a conjunct def is itself a def) this is the statement's "every conjunct
    whose parts are all marker tags of the record" (`reflect_spec_normalised`).
  The loops have no visited check, so the fuel bound is exponential (`fuelFor`); without acyclicity the
  loops still return the exact closure whenever they end (`allSupertypes_exact_of_ok`).
-/
import Hs.Lemmas.NsSpec
namespace Hs.C13
open Hs Hs.Ns Relation

/-- `make` keeps one def per symbol -/
theorem make_names_distinct (rows : List Row) : (Names (make rows).defs).Nodup := nodup_mkDefs rows

/-- direct supertypes = the defined `is` items -/
theorem supertypes_spec (rows : List Row) (s b : Name) :
    b ∈ supertypesOf (make rows).defs s ↔ Edge (make rows).defs s b := mem_supertypesOf

/-- direct subtypes = the defs that list the symbol -/
theorem subtypes_spec (rows : List Row) (s x : Name) :
    x ∈ subtypesOf (make rows) s ↔ RawEdge (make rows).defs x s := mem_subtypesOf rows s x

/-- transitive supertypes: the work-list loop ends within `fuelFor` and returns the transitive closure -/
theorem allSupertypes_spec (rows : List Row) (hac : Acyclic (make rows).defs) (fuel : Nat)
    (hf : fuelFor (make rows).defs ≤ fuel) (s : Name) :
    ∃ res, allSupertypesOf fuel (make rows) s = .ok res ∧ res.Nodup ∧
      ∀ x, x ∈ res ↔ TransGen (Edge (make rows).defs) s x := allSupertypesOf_spec rows hac fuel hf s

/-- transitive subtypes -/
theorem allSubtypes_spec (rows : List Row) (hac : Acyclic (make rows).defs) (fuel : Nat)
    (hf : fuelFor (make rows).defs ≤ fuel) (s : Name) :
    ∃ res, allSubtypesOf fuel (make rows) s = .ok res ∧ res.Nodup ∧
      ∀ x, x ∈ res ↔ TransGen (RawEdge (make rows).defs) x s := allSubtypesOf_spec rows hac fuel hf s

theorem allSubtypes_spec_defined (rows : List Row) (hac : Acyclic (make rows).defs) (fuel : Nat)
    (hf : fuelFor (make rows).defs ≤ fuel) (s : Name) (hs : defined (make rows).defs s = true) :
    ∃ res, allSubtypesOf fuel (make rows) s = .ok res ∧
      ∀ x, x ∈ res ↔ TransGen (Edge (make rows).defs) x s := allSubtypesOf_spec_defined rows hac fuel hf s hs

/-- whatever the graph (cycles included) and the fuel: IF the loop ends, its answer is the closure -/
theorem allSupertypes_exact_of_ok (ns : Ns) (fuel : Nat) (s : Name) (res : List Name)
    (h : allSupertypesOf fuel ns s = .ok res) : ∀ x, x ∈ res ↔ TransGen (Edge ns.defs) s x := by
  intro x
  rw [wl_exact_of_ok (supertypesOf ns.defs) false fuel s res h x]
  exact transGen_congr (fun a b => mem_supertypesOf) s x

/-- inheritance = the def and all its supertypes (nothing for an undefined symbol) -/
theorem inheritance_spec (rows : List Row) (hac : Acyclic (make rows).defs) (fuel : Nat)
    (hf : fuelFor (make rows).defs ≤ fuel) (s : Name) :
    ∃ res, inheritance fuel (make rows) s = .ok res ∧
      ∀ x, x ∈ res ↔ (defined (make rows).defs s = true ∧ ReflTransGen (Edge (make rows).defs) s x) :=
  Ns.inheritance_spec rows hac fuel hf s

theorem inheritance_is_def_cons_supertypes (fuel : Nat) (ns : Ns) (s : Name) (all : List Name)
    (hs : defined ns.defs s = true) (h : allSupertypesOf fuel ns s = .ok all) :
    inheritance fuel ns s = .ok (extendSet [s] all) := inheritance_eq fuel ns s all hs h

/-- fits a b ⇔ both exist and b is a, or a transitive supertype of a -/
theorem fits_spec (rows : List Row) (hac : Acyclic (make rows).defs) (fuel : Nat)
    (hf : fuelFor (make rows).defs ≤ fuel) (a b : Name) :
    ∃ v, fits fuel (make rows) a b = .ok v ∧
      (v = true ↔ (defined (make rows).defs a = true ∧ defined (make rows).defs b = true ∧
        ReflTransGen (Edge (make rows).defs) a b)) := Ns.fits_spec rows hac fuel hf a b

/-- the driver's `fitsRow` is `fits` element-wise -/
theorem fitsRow_spec (fuel : Nat) (ns : Ns) (a : Name) (bs r : List Name)
    (h : fitsRow fuel ns a bs = .ok r) (b : Name) :
    b ∈ r ↔ (b ∈ bs ∧ fits fuel ns a b = .ok true) := mem_fitsRow fuel ns a bs r h b

/-- reflect = the seeds (defs of the record's tags; conjunct defs all of whose parts are defined Marker tags
of the record) and all their supertypes -/
theorem reflect_spec (rows : List Row) (hac : Acyclic (make rows).defs) (fuel : Nat)
    (hf : fuelFor (make rows).defs ≤ fuel) (r : Rec) :
    ∃ res, reflect fuel (make rows) r = .ok res ∧
      ∀ x, x ∈ res ↔ ∃ t, Seed (make rows).defs r t ∧ ReflTransGen (Edge (make rows).defs) t x :=
  Ns.reflect_spec rows hac fuel hf r

/-- every part of a conjunct def is itself a def (Haystack normalisation) -/
def ConjunctPartsDefined (g : Defs) : Prop :=
  ∀ c, defined g c = true → isConjunct c = true → ∀ p ∈ splitDash c, defined g p = true

/-- the statement's wording of the seeds -/
def SeedN (g : Defs) (r : Rec) (t : Name) : Prop :=
  defined g t = true ∧ ((∃ m, (t, m) ∈ r) ∨ (isConjunct t = true ∧ ∀ p ∈ splitDash t, (p, true) ∈ r))

theorem seed_iff_seedN (g : Defs) (hn : ConjunctPartsDefined g) (r : Rec) (t : Name) :
    Seed g r t ↔ SeedN g r t := by
  unfold Seed SeedN
  constructor
  · rintro (⟨h1, h2⟩ | ⟨h1, h2, h3⟩)
    · exact ⟨h1, Or.inl h2⟩
    · exact ⟨h1, Or.inr ⟨h2, fun p hp => (h3 p hp).2⟩⟩
  · rintro ⟨h1, h2 | ⟨h2, h3⟩⟩
    · exact Or.inl ⟨h1, h2⟩
    · exact Or.inr ⟨h1, h2, fun p hp => ⟨hn t h1 h2 p hp, h3 p hp⟩⟩

theorem reflect_spec_normalised (rows : List Row) (hac : Acyclic (make rows).defs)
    (hn : ConjunctPartsDefined (make rows).defs) (fuel : Nat)
    (hf : fuelFor (make rows).defs ≤ fuel) (r : Rec) :
    ∃ res, reflect fuel (make rows) r = .ok res ∧
      ∀ x, x ∈ res ↔ ∃ t, SeedN (make rows).defs r t ∧ ReflTransGen (Edge (make rows).defs) t x := by
  obtain ⟨res, h1, h2⟩ := Ns.reflect_spec rows hac fuel hf r
  refine ⟨res, h1, fun x => ?_⟩
  rw [h2 x]
  constructor
  · rintro ⟨t, ht, h⟩; exact ⟨t, (seed_iff_seedN _ hn r t).1 ht, h⟩
  · rintro ⟨t, ht, h⟩; exact ⟨t, (seed_iff_seedN _ hn r t).2 ht, h⟩

/-- the filter term `^base` matches a record exactly when one of its seeds fits `base` -/
theorem isA_spec (rows : List Row) (hac : Acyclic (make rows).defs) (fuel : Nat)
    (hf : fuelFor (make rows).defs ≤ fuel) (r : Rec) (base : Name) :
    ∃ v, reflFits fuel (make rows) r base = .ok v ∧
      (v = true ↔ ∃ t, Seed (make rows).defs r t ∧ defined (make rows).defs base = true ∧
        ReflTransGen (Edge (make rows).defs) t base) := reflFits_spec rows hac fuel hf r base

/-- `choices_for`: the direct subtypes of a def that lists the Symbol `choice` in `is` -/
theorem choices_spec (rows : List Row) (s x : Name) :
    x ∈ choicesFor (make rows) s ↔
      ((∃ d, get (make rows).defs s = some d ∧ some choiceName ∈ d.isRaw) ∧ RawEdge (make rows).defs x s) :=
  mem_choicesFor rows s x

/-- `conjuncts_defs`: the defined parts of the name -/
theorem conjuncts_spec (ns : Ns) (s x : Name) :
    x ∈ conjunctsDefs ns s ↔ (x ∈ splitDash s ∧ defined ns.defs x = true) := mem_conjunctsDefs ns s x

/-- The property at full strength. -/
def C13_full : Prop :=
  ∀ rows : List Row, Acyclic (make rows).defs → ∀ fuel, fuelFor (make rows).defs ≤ fuel →
    (∀ s b, b ∈ supertypesOf (make rows).defs s ↔ Edge (make rows).defs s b) ∧
    (∀ s x, x ∈ subtypesOf (make rows) s ↔ RawEdge (make rows).defs x s) ∧
    (∀ s, ∃ res, allSupertypesOf fuel (make rows) s = .ok res ∧
        ∀ x, x ∈ res ↔ TransGen (Edge (make rows).defs) s x) ∧
    (∀ s, ∃ res, allSubtypesOf fuel (make rows) s = .ok res ∧
        ∀ x, x ∈ res ↔ TransGen (RawEdge (make rows).defs) x s) ∧
    (∀ s, ∃ res, inheritance fuel (make rows) s = .ok res ∧
        ∀ x, x ∈ res ↔ (defined (make rows).defs s = true ∧ ReflTransGen (Edge (make rows).defs) s x)) ∧
    (∀ a b, ∃ v, fits fuel (make rows) a b = .ok v ∧
        (v = true ↔ (defined (make rows).defs a = true ∧ defined (make rows).defs b = true ∧
          ReflTransGen (Edge (make rows).defs) a b))) ∧
    (∀ r, ∃ res, reflect fuel (make rows) r = .ok res ∧
        ∀ x, x ∈ res ↔ ∃ t, Seed (make rows).defs r t ∧ ReflTransGen (Edge (make rows).defs) t x) ∧
    (∀ r base, ∃ v, reflFits fuel (make rows) r base = .ok v ∧
        (v = true ↔ ∃ t, Seed (make rows).defs r t ∧ defined (make rows).defs base = true ∧
          ReflTransGen (Edge (make rows).defs) t base))

theorem C13_holds : C13_full := fun rows hac fuel hf =>
  ⟨fun s b => supertypes_spec rows s b, fun s x => subtypes_spec rows s x,
   fun s => let ⟨res, h1, _, h3⟩ := allSupertypes_spec rows hac fuel hf s; ⟨res, h1, h3⟩,
   fun s => let ⟨res, h1, _, h3⟩ := allSubtypes_spec rows hac fuel hf s; ⟨res, h1, h3⟩,
   fun s => inheritance_spec rows hac fuel hf s, fun a b => fits_spec rows hac fuel hf a b,
   fun r => reflect_spec rows hac fuel hf r, fun r base => isA_spec rows hac fuel hf r base⟩

/-! Non-vacuity: a grid with a diamond (`d` is `a` and `b`, both are `m`), an undefined supertype (`zz`), a
conjunct (`a-b`), a duplicate row and a row without `def` is acyclic, and the model computes on it. -/
def exRows : List Row :=
  [ { name := some ['m'], isRaw := [] },
    { name := some ['a'], isRaw := [some ['m']] },
    { name := none, isRaw := [some ['a']] },
    { name := some ['b'], isRaw := [some ['a']] },
    { name := some ['b'], isRaw := [some ['m'], some ['z', 'z'], none] },
    { name := some ['d'], isRaw := [some ['a'], some ['b']] },
    { name := some ['a', '-', 'b'], isRaw := [some ['d']] } ]

def exRank (x : Name) : Nat :=
  if x = ['m'] then 1 else if x = ['a'] then 2 else if x = ['b'] then 2 else if x = ['d'] then 3
  else if x = ['a', '-', 'b'] then 4 else 0

theorem exDefs : (make exRows).defs =
    [ { name := ['m'], isRaw := [] }, { name := ['a'], isRaw := [some ['m']] },
      { name := ['b'], isRaw := [some ['m'], some ['z', 'z'], none] },
      { name := ['d'], isRaw := [some ['a'], some ['b']] },
      { name := ['a', '-', 'b'], isRaw := [some ['d']] } ] := by decide

example : Acyclic (make exRows).defs := by
  refine ⟨exRank, ?_, ?_⟩
  · rintro a b ⟨d, hd, hb⟩
    obtain ⟨hmem, rfl⟩ := get_some hd
    rw [exDefs] at hmem
    simp only [List.mem_cons, List.not_mem_nil, or_false] at hmem
    rcases hmem with rfl | rfl | rfl | rfl | rfl <;>
      simp only [Def.is, List.filterMap_cons, List.filterMap_nil, id, List.mem_cons, List.not_mem_nil,
        or_false] at hb
    · rcases hb with rfl; decide
    · rcases hb with rfl | rfl <;> decide
    · rcases hb with rfl | rfl <;> decide
    · rcases hb with rfl; decide
  · intro a
    rw [exDefs]
    unfold exRank
    split <;> (try split) <;> (try split) <;> (try split) <;> (try split) <;> decide

example : allSupertypesOf (fuelFor (make exRows).defs) (make exRows) ['a', '-', 'b']
    = .ok [['d'], ['a'], ['b'], ['m']] := by decide +kernel
example : allSubtypesOf (fuelFor (make exRows).defs) (make exRows) ['z', 'z']
    = .ok [['b'], ['d'], ['a', '-', 'b']] := by decide +kernel
example : fits (fuelFor (make exRows).defs) (make exRows) ['d'] ['m'] = .ok true ∧
    fits (fuelFor (make exRows).defs) (make exRows) ['d'] ['z', 'z'] = .ok false := by decide +kernel
example : reflect (fuelFor (make exRows).defs) (make exRows) [(['a'], true), (['b'], true), (['q'], true)]
    = .ok [['a'], ['m'], ['b'], ['a', '-', 'b'], ['d']] := by decide +kernel
example : reflFits (fuelFor (make exRows).defs) (make exRows) [(['a'], true), (['b'], false)] ['d']
    = .ok false := by decide +kernel
example : ConjunctPartsDefined (make exRows).defs := by
  intro c hc hconj p hp
  obtain ⟨d, hd⟩ := defined_iff.1 hc
  obtain ⟨hmem, rfl⟩ := get_some hd
  rw [exDefs] at hmem
  simp only [List.mem_cons, List.not_mem_nil, or_false] at hmem
  rcases hmem with rfl | rfl | rfl | rfl | rfl <;> first | (exact absurd hconj (by decide)) | skip
  have : splitDash ['a', '-', 'b'] = [['a'], ['b']] := by decide
  rw [this] at hp
  simp only [List.mem_cons, List.not_mem_nil, or_false] at hp
  rcases hp with rfl | rfl <;> decide

end Hs.C13
