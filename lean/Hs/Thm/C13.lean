/-
  C13 — def namespace queries agree with the subtype graph.

  Model: Hs.Model.Ns (`Namespace::make` with its indexes, `supertypes_of`, `subtypes_of`, the work-list loops
  `all_supertypes_of` / `all_subtypes_of`, `inheritance`, `fits`, `choices_for`, `conjuncts_defs`, `reflect`,
  `Reflection::fits` = the filter term `^sym`), tied to src/haystack/defs/{namespace,reflection}.rs and
  filter/nodes.rs by the correspondence check.

  Specification graph (Hs.Lemmas.NsGraph): `RawEdge g a b` = "`a` is a def and `b` is a Symbol item of its `is`
  list", `Edge g a b` = `RawEdge g a b` and `b` is a def.  Closures are `Relation.TransGen` / `ReflTransGen`.

  The theorems hold for EVERY defs grid `rows` - any size, duplicates of a `def` symbol, rows without `def`,
  non-Symbol items in `is`, undefined supertypes, conjuncts, feature keys, and `is` lists that form CYCLES
  (self loops `a is [a]`, 2-cycles, longer cycles, cycles with tails, cycles through diamonds) - with every
  fuel `≥ fuelFor g = (number of defs) + 1`; results are compared as sets.  There is no acyclicity hypothesis:
  since /repo da32af2 the work-list loops expand a def only the first time it enters the result set, so
  * they end on every graph within `fuelFor g` iterations (`allSupertypes_spec`, `allSubtypes_spec`; measure:
    stack height + number of defs not yet collected; the bound is attained: `fuel_bound_sharp`), and never
    answer `diverge` (`allSupertypes_never_diverge`, `allSubtypes_never_diverge`);
  * what they return is exactly the set of defs reachable by one or more `is` edges; a def on a cycle is its own
    transitive supertype and subtype (`cycle_member_is_own_supertype`), and all members of a cycle fit each
    other (`cycle_members_fit`).
  Two observations the statements make explicit:
  * `subtypes_of` / `all_subtypes_of` of an UNDEFINED symbol that is mentioned in `is` lists are not empty
    (the index is keyed by the mentioned symbol): the subtype side is stated with `RawEdge`, and with `Edge` for
    defined symbols;
  * `reflect` takes as parts of a conjunct EVERY Marker-valued tag of the record, whether or not the tag has a def
    of its own (since the repair of `Namespace::reflect`; before, `{ahu, rooftop}` with defs `ahu`, `ahu-rooftop`
    and no def `rooftop` was not reflected as `ahu-rooftop`): `Seed` is the statement's sentence word for word,
    `reflect_spec` / `isA_spec` have no hypothesis on the conjunct's parts.  What the sentence means for
    degenerate conjunct names (empty parts `a-`, `-b`, `a--b`; repeated parts `a-a`; parts that are tags but not
    Markers; "one-part conjuncts") is stated and proved below (`conjunct_has_two_parts` ...).
  `Acyclic` (a topological numbering) survives only to state that the cyclic examples below ARE cyclic.
-/
import Hs.Lemmas.NsSpec
import Hs.Lemmas.NsAssoc
import Hs.Lemmas.NsProtos
namespace Hs.C13
open Hs Hs.Ns Relation

/-- `make` keeps one def per symbol -/
theorem make_names_distinct (rows : List Row) : (Names (make rows).defs).Nodup := nodup_mkDefs rows

/-- direct supertypes = the defined `is` items -/
theorem supertypes_spec (rows : List Row) (s b : Name) :
    b ∈ supertypesOf (make rows).defs s ↔ Edge (make rows).defs s b := mem_supertypesOf

/-- direct subtypes = the defs that list the symbol -/
theorem subtypes_spec (rows : List Row) (s x : Name) :
    x ∈ subtypesOf (make rows) s ↔ RawEdge (make rows).defs x s := mem_subtypesOf rows s x

/-- transitive supertypes, EVERY graph (cycles included): the work-list loop ends within `fuelFor` and returns
the transitive closure -/
theorem allSupertypes_spec (rows : List Row) (fuel : Nat) (hf : fuelFor (make rows).defs ≤ fuel) (s : Name) :
    ∃ res, allSupertypesOf fuel (make rows) s = .ok res ∧ res.Nodup ∧
      ∀ x, x ∈ res ↔ TransGen (Edge (make rows).defs) s x := allSupertypesOf_spec rows fuel hf s

/-- transitive subtypes, EVERY graph (cycles included) -/
theorem allSubtypes_spec (rows : List Row) (fuel : Nat) (hf : fuelFor (make rows).defs ≤ fuel) (s : Name) :
    ∃ res, allSubtypesOf fuel (make rows) s = .ok res ∧ res.Nodup ∧
      ∀ x, x ∈ res ↔ TransGen (RawEdge (make rows).defs) x s := allSubtypesOf_spec rows fuel hf s

theorem allSubtypes_spec_defined (rows : List Row) (fuel : Nat) (hf : fuelFor (make rows).defs ≤ fuel) (s : Name) (hs : defined (make rows).defs s = true) :
    ∃ res, allSubtypesOf fuel (make rows) s = .ok res ∧
      ∀ x, x ∈ res ↔ TransGen (Edge (make rows).defs) x s := allSubtypesOf_spec_defined rows fuel hf s hs

/-- whatever the graph (cycles included) and the fuel: IF the loop ends, its answer is the closure -/
theorem allSupertypes_exact_of_ok (ns : Ns) (fuel : Nat) (s : Name) (res : List Name)
    (h : allSupertypesOf fuel ns s = .ok res) : ∀ x, x ∈ res ↔ TransGen (Edge ns.defs) s x := by
  intro x
  rw [wl_exact_of_ok (supertypesOf ns.defs) false fuel s res h x]
  exact transGen_congr (fun a b => mem_supertypesOf) s x

/-- the explicit fuel bound: one iteration more than there are defs -/
theorem fuelFor_eq (g : Defs) : fuelFor g = g.length + 1 := rfl

/-- the traversals never answer `diverge`, whatever the graph -/
theorem allSupertypes_never_diverge (rows : List Row) (fuel : Nat) (hf : fuelFor (make rows).defs ≤ fuel)
    (s : Name) : allSupertypesOf fuel (make rows) s ≠ .diverge := by
  obtain ⟨res, h, _⟩ := allSupertypes_spec rows fuel hf s
  rw [h]; intro hc; cases hc

theorem allSubtypes_never_diverge (rows : List Row) (fuel : Nat) (hf : fuelFor (make rows).defs ≤ fuel)
    (s : Name) : allSubtypesOf fuel (make rows) s ≠ .diverge := by
  obtain ⟨res, h, _⟩ := allSubtypes_spec rows fuel hf s
  rw [h]; intro hc; cases hc

/-- the supertype traversal needs the `defs` map only: the same for a namespace not made by `make` -/
theorem allSupertypes_spec_any_ns (ns : Ns) (fuel : Nat) (hf : fuelFor ns.defs ≤ fuel) (s : Name) :
    ∃ res, allSupertypesOf fuel ns s = .ok res ∧ res.Nodup ∧ ∀ x, x ∈ res ↔ TransGen (Edge ns.defs) s x :=
  allSupertypesOf_spec_ns ns fuel hf s

/-- a def on a cycle of `is` edges is one of its own transitive supertypes and subtypes -/
theorem cycle_member_is_own_supertype (rows : List Row) (fuel : Nat) (hf : fuelFor (make rows).defs ≤ fuel)
    (a : Name) (hcyc : TransGen (Edge (make rows).defs) a a) :
    (∃ res, allSupertypesOf fuel (make rows) a = .ok res ∧ a ∈ res) ∧
    (∃ res, allSubtypesOf fuel (make rows) a = .ok res ∧ a ∈ res) := by
  obtain ⟨r1, h1, _, h1'⟩ := allSupertypes_spec rows fuel hf a
  obtain ⟨r2, h2, _, h2'⟩ := allSubtypes_spec rows fuel hf a
  exact ⟨⟨r1, h1, (h1' a).2 hcyc⟩, ⟨r2, h2, (h2' a).2 (tg_mono (fun _ _ => edge_raw) hcyc)⟩⟩

/-- inheritance = the def and all its supertypes (nothing for an undefined symbol) -/
theorem inheritance_spec (rows : List Row) (fuel : Nat) (hf : fuelFor (make rows).defs ≤ fuel) (s : Name) :
    ∃ res, inheritance fuel (make rows) s = .ok res ∧
      ∀ x, x ∈ res ↔ (defined (make rows).defs s = true ∧ ReflTransGen (Edge (make rows).defs) s x) :=
  Ns.inheritance_spec rows fuel hf s

theorem inheritance_is_def_cons_supertypes (fuel : Nat) (ns : Ns) (s : Name) (all : List Name)
    (hs : defined ns.defs s = true) (h : allSupertypesOf fuel ns s = .ok all) :
    inheritance fuel ns s = .ok (extendSet [s] all) := inheritance_eq fuel ns s all hs h

/-- fits a b ⇔ both exist and b is a, or a transitive supertype of a -/
theorem fits_spec (rows : List Row) (fuel : Nat) (hf : fuelFor (make rows).defs ≤ fuel) (a b : Name) :
    ∃ v, fits fuel (make rows) a b = .ok v ∧
      (v = true ↔ (defined (make rows).defs a = true ∧ defined (make rows).defs b = true ∧
        ReflTransGen (Edge (make rows).defs) a b)) := Ns.fits_spec rows fuel hf a b

/-- two defs that reach each other (they lie on a common cycle) fit each other -/
theorem cycle_members_fit (rows : List Row) (fuel : Nat) (hf : fuelFor (make rows).defs ≤ fuel) (a b : Name)
    (hab : TransGen (Edge (make rows).defs) a b) (hba : TransGen (Edge (make rows).defs) b a) :
    fits fuel (make rows) a b = .ok true ∧ fits fuel (make rows) b a = .ok true := by
  have hda : defined (make rows).defs a = true := by
    obtain ⟨c, hc, _⟩ := TransGen.head'_iff.1 hab
    obtain ⟨d, hd, _⟩ := hc
    exact defined_iff.2 ⟨d, hd⟩
  have hdb : defined (make rows).defs b = true := by
    obtain ⟨c, hc, _⟩ := TransGen.head'_iff.1 hba
    obtain ⟨d, hd, _⟩ := hc
    exact defined_iff.2 ⟨d, hd⟩
  obtain ⟨v, hv, hv'⟩ := fits_spec rows fuel hf a b
  obtain ⟨w, hw, hw'⟩ := fits_spec rows fuel hf b a
  have e1 : v = true := hv'.2 ⟨hda, hdb, hab.to_reflTransGen⟩
  have e2 : w = true := hw'.2 ⟨hdb, hda, hba.to_reflTransGen⟩
  subst e1; subst e2
  exact ⟨hv, hw⟩

/-- the driver's `fitsRow` is `fits` element-wise -/
theorem fitsRow_spec (fuel : Nat) (ns : Ns) (a : Name) (bs r : List Name)
    (h : fitsRow fuel ns a bs = .ok r) (b : Name) :
    b ∈ r ↔ (b ∈ bs ∧ fits fuel ns a b = .ok true) := mem_fitsRow fuel ns a bs r h b

/-- The statement's sentence, spelled out: `t` is a def, and it is the name of a tag of the record or a conjunct
name all of whose dash-separated parts are Marker-valued tags of the record. -/
theorem seed_def (g : Defs) (r : Rec) (t : Name) :
    Seed g r t ↔ (defined g t = true ∧
      ((∃ v, (t, v) ∈ r) ∨ (isConjunct t = true ∧ ∀ p ∈ splitDash t, (p, true) ∈ r))) := Iff.rfl

/-- "Reflecting a record yields the defs of its tags, of every conjunct whose parts are all marker tags of the
record, and all their supertypes" - both directions, for every defs grid and every record, no condition on the
parts of the conjunct having defs: `d` is reflected IFF it is, or is a transitive supertype of, the def `t` of a
tag of the record or a conjunct def `t` all of whose dash-separated parts are Marker-valued tags of the record. -/
theorem reflect_spec (rows : List Row) (fuel : Nat) (hf : fuelFor (make rows).defs ≤ fuel) (r : Rec) :
    ∃ res, reflect fuel (make rows) r = .ok res ∧
      ∀ d, d ∈ res ↔ ∃ t, (defined (make rows).defs t = true ∧
          ((∃ v, (t, v) ∈ r) ∨ (isConjunct t = true ∧ ∀ p ∈ splitDash t, (p, true) ∈ r))) ∧
        ReflTransGen (Edge (make rows).defs) t d :=
  Ns.reflect_spec rows fuel hf r

/-- "'^symbol' in a filter matches exactly the records having a tag or conjunct that fits the symbol": the term
`^base` is true on `r` IFF `base` is a def and is, or is a transitive supertype of, the def `t` of a tag of the
record or a conjunct def `t` all of whose dash-separated parts are Marker-valued tags of the record. -/
theorem isA_spec (rows : List Row) (fuel : Nat) (hf : fuelFor (make rows).defs ≤ fuel) (r : Rec) (base : Name) :
    ∃ v, reflFits fuel (make rows) r base = .ok v ∧
      (v = true ↔ ∃ t, (defined (make rows).defs t = true ∧
          ((∃ v, (t, v) ∈ r) ∨ (isConjunct t = true ∧ ∀ p ∈ splitDash t, (p, true) ∈ r))) ∧
        defined (make rows).defs base = true ∧ ReflTransGen (Edge (make rows).defs) t base) :=
  reflFits_spec rows fuel hf r base

/-! ### what the sentence means for degenerate conjunct names

`compute_conjuncts_keys` splits every def name that contains `-` on `-` (`splitDash`), files the remaining parts
under the first part; `find_conjuncts` looks every marker up as a first part, wants all remaining parts among the
markers and fetches the def under the re-joined name.  `reflect_spec` covers every name; the corollaries say what
it amounts to. -/

/-- There is no one-part conjunct: a name that contains `-` has at least two parts ... -/
theorem conjunct_has_two_parts (c : Name) (h : isConjunct c = true) : 2 ≤ (splitDash c).length :=
  two_le_length_splitDash c h

/-- ... and a name without `-` is its own only part (it is never filed in `conjuncts_keys`). -/
theorem nonconjunct_is_one_part (c : Name) (h : isConjunct c = false) : splitDash c = [c] :=
  splitDash_of_not_conjunct c h

/-- the number of parts is the number of dashes + 1: `a-` and `-b` have two parts, `a--b` three, `-` two -/
theorem parts_count (c : Name) : (splitDash c).length = c.count '-' + 1 := length_splitDash c

/-- the parts are dash-free and re-join to the name: `get_by_name(join)` asks for the very def that was split -/
theorem parts_rejoin (c : Name) : joinDash (splitDash c) = c ∧ ∀ p ∈ splitDash c, ¬ '-' ∈ p :=
  ⟨joinDash_splitDash c, fun p hp => not_dash_mem_splitDash c p hp⟩

/-- Hence the words "conjunct def" can be dropped from the sentence: for a name without `-` "all parts are marker
tags" says that the name itself is a (Marker) tag, which the first clause covers. -/
theorem seed_iff_without_isConjunct (g : Defs) (r : Rec) (t : Name) :
    Seed g r t ↔ (defined g t = true ∧ ((∃ v, (t, v) ∈ r) ∨ ∀ p ∈ splitDash t, (p, true) ∈ r)) := by
  unfold Seed
  constructor
  · rintro ⟨h1, h2 | ⟨_, h3⟩⟩
    · exact ⟨h1, Or.inl h2⟩
    · exact ⟨h1, Or.inr h3⟩
  · rintro ⟨h1, h2 | h3⟩
    · exact ⟨h1, Or.inl h2⟩
    · cases hc : isConjunct t with
      | true => exact ⟨h1, Or.inr ⟨rfl, h3⟩⟩
      | false =>
        have := h3 t (by rw [splitDash_of_not_conjunct t hc]; exact List.mem_singleton.2 rfl)
        exact ⟨h1, Or.inl ⟨true, this⟩⟩

/-- Empty parts (`a-`, `-b`, `a--b`, `-`): the empty part has to be a Marker-valued tag like any other - the
record needs a tag whose name is the empty string.  No record with proper (non-empty) tag names reflects such a
conjunct, unless it carries the conjunct's name as a tag. -/
theorem conjunct_with_empty_part (g : Defs) (r : Rec) (c : Name) (he : [] ∈ splitDash c)
    (hnoempty : ∀ v, (([] : Name), v) ∉ r) (hnotag : ∀ v, (c, v) ∉ r) : ¬ Seed g r c := by
  rintro ⟨_, ⟨v, hv⟩ | ⟨_, h⟩⟩
  · exact hnotag v hv
  · exact hnoempty true (h [] he)

theorem rec_value_unique {r : Rec} (hk : (r.map Prod.fst).Nodup) {p : Name} {a b : Bool}
    (ha : (p, a) ∈ r) (hb : (p, b) ∈ r) : a = b := by
  induction r with
  | nil => cases ha
  | cons kv r ih =>
    simp only [List.map_cons, List.nodup_cons, List.mem_map, not_exists, not_and] at hk
    rcases List.mem_cons.1 ha with e1 | ha' <;> rcases List.mem_cons.1 hb with e2 | hb'
    · rw [← e2] at e1; exact (Prod.mk.inj e1).2
    · exact absurd rfl (by rw [← e1] at hk; exact hk.1 (p, b) hb')
    · exact absurd rfl (by rw [← e2] at hk; exact hk.1 (p, a) ha')
    · exact ih hk.2 ha' hb'

/-- A part that is a tag of the record but NOT Marker-valued does not count (the tags of a record are distinct):
the conjunct is not reflected, unless the record carries the conjunct's name as a tag. -/
theorem conjunct_with_nonmarker_part (g : Defs) (r : Rec) (c p : Name) (hk : (r.map Prod.fst).Nodup)
    (hp : p ∈ splitDash c) (hv : (p, false) ∈ r) (hnotag : ∀ v, (c, v) ∉ r) : ¬ Seed g r c := by
  rintro ⟨_, ⟨v, hv'⟩ | ⟨_, h⟩⟩
  · exact hnotag v hv'
  · have := rec_value_unique hk (h p hp) hv
    cases this

/-- A part that is missing from the record: the conjunct is not reflected (unless its name is a tag). -/
theorem conjunct_with_missing_part (g : Defs) (r : Rec) (c p : Name) (hp : p ∈ splitDash c)
    (hmiss : ∀ v, (p, v) ∉ r) (hnotag : ∀ v, (c, v) ∉ r) : ¬ Seed g r c := by
  rintro ⟨_, ⟨v, hv'⟩ | ⟨_, h⟩⟩
  · exact hnotag v hv'
  · exact hmiss true (h p hp)

/-- Repeated parts (`a-a`, `a-b-a`): only the SET of parts matters - a conjunct def is a seed as soon as every
member of the set of its parts is a Marker tag. -/
theorem conjunct_parts_as_set (g : Defs) (r : Rec) (c : Name) (hd : defined g c = true) (hc : isConjunct c = true)
    (parts : List Name) (hsame : ∀ p, p ∈ splitDash c ↔ p ∈ parts) (hall : ∀ p ∈ parts, (p, true) ∈ r) :
    Seed g r c := ⟨hd, Or.inr ⟨hc, fun p hp => hall p ((hsame p).1 hp)⟩⟩

/-- `choices_for`: the direct subtypes of a def that lists the Symbol `choice` in `is` -/
theorem choices_spec (rows : List Row) (s x : Name) :
    x ∈ choicesFor (make rows) s ↔
      ((∃ d, get (make rows).defs s = some d ∧ some choiceName ∈ d.isRaw) ∧ RawEdge (make rows).defs x s) :=
  mem_choicesFor rows s x

/-- `conjuncts_defs`: the defined parts of the name -/
theorem conjuncts_spec (ns : Ns) (s x : Name) :
    x ∈ conjunctsDefs ns s ↔ (x ∈ splitDash s ∧ defined ns.defs x = true) := mem_conjunctsDefs ns s x

/-- The property at full strength: every defs grid, cyclic included; every record; conjuncts with parts that have
no def, empty parts or repeated parts included. -/
def C13_full : Prop :=
  ∀ rows : List Row, ∀ fuel, fuelFor (make rows).defs ≤ fuel →
    (∀ s b, b ∈ supertypesOf (make rows).defs s ↔ Edge (make rows).defs s b) ∧
    (∀ s x, x ∈ subtypesOf (make rows) s ↔ RawEdge (make rows).defs x s) ∧
    (∀ s, ∃ res, allSupertypesOf fuel (make rows) s = .ok res ∧
        ∀ x, x ∈ res ↔ TransGen (Edge (make rows).defs) s x) ∧
    (∀ s, ∃ res, allSubtypesOf fuel (make rows) s = .ok res ∧
        ∀ x, x ∈ res ↔ TransGen (RawEdge (make rows).defs) x s) ∧
    (∀ s, ∃ res, inheritance fuel (make rows) s = .ok res ∧
        ∀ x, x ∈ res ↔ (defined (make rows).defs s = true ∧ ReflTransGen (Edge (make rows).defs) s x)) ∧
    (∀ a b, ∃ v, fits fuel (make rows) a b = .ok v ∧
        (v = true ↔ (defined (make rows).defs a = true ∧ defined (make rows).defs b = true ∧
          ReflTransGen (Edge (make rows).defs) a b))) ∧
    (∀ r, ∃ res, reflect fuel (make rows) r = .ok res ∧
        ∀ d, d ∈ res ↔ ∃ t, (defined (make rows).defs t = true ∧
            ((∃ v, (t, v) ∈ r) ∨ (isConjunct t = true ∧ ∀ p ∈ splitDash t, (p, true) ∈ r))) ∧
          ReflTransGen (Edge (make rows).defs) t d) ∧
    (∀ r base, ∃ v, reflFits fuel (make rows) r base = .ok v ∧
        (v = true ↔ ∃ t, (defined (make rows).defs t = true ∧
            ((∃ v, (t, v) ∈ r) ∨ (isConjunct t = true ∧ ∀ p ∈ splitDash t, (p, true) ∈ r))) ∧
          defined (make rows).defs base = true ∧ ReflTransGen (Edge (make rows).defs) t base))

theorem C13_holds : C13_full := fun rows fuel hf =>
  ⟨fun s b => supertypes_spec rows s b, fun s x => subtypes_spec rows s x,
   fun s => let ⟨res, h1, _, h3⟩ := allSupertypes_spec rows fuel hf s; ⟨res, h1, h3⟩,
   fun s => let ⟨res, h1, _, h3⟩ := allSubtypes_spec rows fuel hf s; ⟨res, h1, h3⟩,
   fun s => inheritance_spec rows fuel hf s, fun a b => fits_spec rows fuel hf a b,
   fun r => reflect_spec rows fuel hf r, fun r base => isA_spec rows fuel hf r base⟩

/-! Non-vacuity (1): a grid with a diamond (`d` is `a` and `b`, both are `m`), an undefined supertype (`zz`), a
conjunct (`a-b`), a duplicate row and a row without `def`; this one is acyclic, and the model computes on it. -/
def exRows : List Row :=
  [ { name := some ['m'], isRaw := [] },
    { name := some ['a'], isRaw := [some ['m']] },
    { name := none, isRaw := [some ['a']] },
    { name := some ['b'], isRaw := [some ['a']] },
    { name := some ['b'], isRaw := [some ['m'], some ['z', 'z'], none] },
    { name := some ['d'], isRaw := [some ['a'], some ['b']] },
    { name := some ['a', '-', 'b'], isRaw := [some ['d']] } ]

def exRank (x : Name) : Nat :=
  if x = ['m'] then 1 else if x = ['a'] then 2 else if x = ['b'] then 2 else if x = ['d'] then 3
  else if x = ['a', '-', 'b'] then 4 else 0

theorem exDefs : (make exRows).defs =
    [ { name := ['m'], isRaw := [] }, { name := ['a'], isRaw := [some ['m']] },
      { name := ['b'], isRaw := [some ['m'], some ['z', 'z'], none] },
      { name := ['d'], isRaw := [some ['a'], some ['b']] },
      { name := ['a', '-', 'b'], isRaw := [some ['d']] } ] := by decide

example : Acyclic (make exRows).defs := by
  refine ⟨exRank, ?_, ?_⟩
  · rintro a b ⟨d, hd, hb⟩
    obtain ⟨hmem, rfl⟩ := get_some hd
    rw [exDefs] at hmem
    simp only [List.mem_cons, List.not_mem_nil, or_false] at hmem
    rcases hmem with rfl | rfl | rfl | rfl | rfl <;>
      simp only [Def.is, List.filterMap_cons, List.filterMap_nil, id, List.mem_cons, List.not_mem_nil,
        or_false] at hb
    · rcases hb with rfl; decide
    · rcases hb with rfl | rfl <;> decide
    · rcases hb with rfl | rfl <;> decide
    · rcases hb with rfl; decide
  · intro a
    rw [exDefs]
    unfold exRank
    split <;> (try split) <;> (try split) <;> (try split) <;> (try split) <;> decide

example : allSupertypesOf (fuelFor (make exRows).defs) (make exRows) ['a', '-', 'b']
    = .ok [['d'], ['a'], ['b'], ['m']] := by decide +kernel
example : allSubtypesOf (fuelFor (make exRows).defs) (make exRows) ['z', 'z']
    = .ok [['b'], ['d'], ['a', '-', 'b']] := by decide +kernel
example : fits (fuelFor (make exRows).defs) (make exRows) ['d'] ['m'] = .ok true ∧
    fits (fuelFor (make exRows).defs) (make exRows) ['d'] ['z', 'z'] = .ok false := by decide +kernel
example : reflect (fuelFor (make exRows).defs) (make exRows) [(['a'], true), (['b'], true), (['q'], true)]
    = .ok [['a'], ['m'], ['b'], ['a', '-', 'b'], ['d']] := by decide +kernel
example : reflFits (fuelFor (make exRows).defs) (make exRows) [(['a'], true), (['b'], false)] ['d']
    = .ok false := by decide +kernel
/-! Non-vacuity (1b): the repaired defect.  Defs `marker`, `ahu is [marker]`, `ahu-rooftop is [ahu]` - there is NO
def `rooftop`.  The record `{ahu, rooftop}` (both Markers) reflects `ahu-rooftop` and matches `^ahu-rooftop`
(before the repair: `[ahu, marker]` and no match); without `rooftop`, or with `rooftop` present but not a Marker,
it does not.  `rooftop-ahu` has the undefined part FIRST (the key of `conjuncts_keys`), `u-v` has no defined part
at all. -/
def nAhu : Name := ['a', 'h', 'u']
def nRooftop : Name := ['r', 'o', 'o', 'f', 't', 'o', 'p']
def nMarker : Name := ['m', 'a', 'r', 'k', 'e', 'r']
def nAhuRooftop : Name := ['a', 'h', 'u', '-', 'r', 'o', 'o', 'f', 't', 'o', 'p']
def nRooftopAhu : Name := ['r', 'o', 'o', 'f', 't', 'o', 'p', '-', 'a', 'h', 'u']

def ahuRows : List Row :=
  [ { name := some nMarker, isRaw := [] },
    { name := some nAhu, isRaw := [some nMarker] },
    { name := some nAhuRooftop, isRaw := [some nAhu] },
    { name := some nRooftopAhu, isRaw := [some nMarker] },
    { name := some ['u', '-', 'v'], isRaw := [some nMarker] } ]

example : defined (make ahuRows).defs nRooftop = false := by decide +kernel
example : splitDash nAhuRooftop = [nAhu, nRooftop] := by decide +kernel
theorem ahu_rooftop_reflected :
    reflect (fuelFor (make ahuRows).defs) (make ahuRows) [(nAhu, true), (nRooftop, true)]
      = .ok [nAhu, nMarker, nAhuRooftop, nRooftopAhu] ∧
    reflFits (fuelFor (make ahuRows).defs) (make ahuRows) [(nAhu, true), (nRooftop, true)] nAhuRooftop
      = .ok true := by decide +kernel
-- the hypotheses of the statement's conjunct clause hold for it: `reflect_spec` is not vacuous on this record
example : Seed (make ahuRows).defs [(nAhu, true), (nRooftop, true)] nAhuRooftop :=
  ⟨by decide +kernel, Or.inr ⟨by decide +kernel, by decide +kernel⟩⟩
-- a part is missing / is a tag but not a Marker / only the undefined part is there
example : reflect (fuelFor (make ahuRows).defs) (make ahuRows) [(nAhu, true)] = .ok [nAhu, nMarker] ∧
    reflect (fuelFor (make ahuRows).defs) (make ahuRows) [(nAhu, true), (nRooftop, false)] = .ok [nAhu, nMarker] ∧
    reflect (fuelFor (make ahuRows).defs) (make ahuRows) [(nRooftop, true)] = .ok [] ∧
    reflFits (fuelFor (make ahuRows).defs) (make ahuRows) [(nAhu, true), (nRooftop, false)] nAhuRooftop
      = .ok false := by decide +kernel
-- the defined part need not be a Marker to be reflected itself, but it must be one to count as a part
example : reflect (fuelFor (make ahuRows).defs) (make ahuRows) [(nAhu, false), (nRooftop, true)]
    = .ok [nAhu, nMarker] := by decide +kernel
-- no part has a def: the record reflects nothing but the conjunct and its supertypes
example : reflect (fuelFor (make ahuRows).defs) (make ahuRows) [(['u'], true), (['v'], true)]
    = .ok [['u', '-', 'v'], nMarker] := by decide +kernel

/-! Non-vacuity (1c): degenerate conjunct names.  Defs `a`, `a-` (parts `a`, ``), `-b` (parts ``, `b`), `a--b`
(parts `a`, ``, `b`), `-` (parts ``, ``), `a-a` (parts `a`, `a`), `a-b-a`. -/
def degRows : List Row :=
  [ { name := some ['a'], isRaw := [] },
    { name := some ['a', '-'], isRaw := [] },
    { name := some ['-', 'b'], isRaw := [] },
    { name := some ['a', '-', '-', 'b'], isRaw := [] },
    { name := some ['-'], isRaw := [] },
    { name := some ['a', '-', 'a'], isRaw := [] },
    { name := some ['a', '-', 'b', '-', 'a'], isRaw := [] } ]

example : splitDash ['a', '-'] = [['a'], []] ∧ splitDash ['-', 'b'] = [[], ['b']] ∧
    splitDash ['a', '-', '-', 'b'] = [['a'], [], ['b']] ∧ splitDash ['-'] = [[], []] ∧
    splitDash ['a', '-', 'a'] = [['a'], ['a']] ∧ splitDash [] = [[]] := by decide
-- repeated parts: the one Marker tag `a` is enough for `a-a`; `a-b-a` also wants `b`
example : reflect (fuelFor (make degRows).defs) (make degRows) [(['a'], true)]
    = .ok [['a'], ['a', '-', 'a']] := by decide +kernel
example : reflect (fuelFor (make degRows).defs) (make degRows) [(['a'], true), (['b'], true)]
    = .ok [['a'], ['a', '-', 'a'], ['a', '-', 'b', '-', 'a']] := by decide +kernel
-- empty parts: not reflected for records with proper tag names, reflected once the empty name is a Marker tag
example : reflect (fuelFor (make degRows).defs) (make degRows) [([], true)]
    = .ok [['-']] := by decide +kernel
example : reflect (fuelFor (make degRows).defs) (make degRows) [([], true), (['a'], true), (['b'], true)]
    = .ok [['a'], ['-', 'b'], ['-'], ['a', '-'], ['a', '-', '-', 'b'], ['a', '-', 'a'], ['a', '-', 'b', '-', 'a']] := by
  decide +kernel
example : reflect (fuelFor (make degRows).defs) (make degRows) [([], false), (['a'], true), (['b'], true)]
    = .ok [['a'], ['a', '-', 'a'], ['a', '-', 'b', '-', 'a']] := by decide +kernel
-- a record that carries the conjunct's NAME as a tag reflects it by the first clause, whatever its parts
example : reflect (fuelFor (make degRows).defs) (make degRows) [(['a', '-', '-', 'b'], false)]
    = .ok [['a', '-', '-', 'b']] := by decide +kernel

/-! Non-vacuity (2): the 2-cycle of the repaired defect, `aa is [bb]`, `bb is [aa]`.  It admits no topological
numbering, the traversals end within `fuelFor = 3` iterations and return the closure; each def is its own
supertype and subtype, the two fit each other, a record tagged `aa` reflects both and matches `^bb`. -/
def cyc2Rows : List Row :=
  [ { name := some ['a', 'a'], isRaw := [some ['b', 'b']] },
    { name := some ['b', 'b'], isRaw := [some ['a', 'a']] } ]

theorem cyc2_edge_ab : Edge (make cyc2Rows).defs ['a', 'a'] ['b', 'b'] :=
  ⟨{ name := ['a', 'a'], isRaw := [some ['b', 'b']] }, by decide, by decide, by decide⟩
theorem cyc2_edge_ba : Edge (make cyc2Rows).defs ['b', 'b'] ['a', 'a'] :=
  ⟨{ name := ['b', 'b'], isRaw := [some ['a', 'a']] }, by decide, by decide, by decide⟩

theorem cyc2_cycle : TransGen (Edge (make cyc2Rows).defs) ['a', 'a'] ['a', 'a'] :=
  TransGen.head cyc2_edge_ab (TransGen.single cyc2_edge_ba)

example : ¬ Acyclic (make cyc2Rows).defs :=
  not_acyclic_of_cycle (tg_mono (fun _ _ => edge_raw) cyc2_cycle)

example : fuelFor (make cyc2Rows).defs = 3 := by decide
example : allSupertypesOf (fuelFor (make cyc2Rows).defs) (make cyc2Rows) ['a', 'a']
    = .ok [['b', 'b'], ['a', 'a']] := by decide +kernel
example : allSubtypesOf (fuelFor (make cyc2Rows).defs) (make cyc2Rows) ['a', 'a']
    = .ok [['b', 'b'], ['a', 'a']] := by decide +kernel
example : inheritance (fuelFor (make cyc2Rows).defs) (make cyc2Rows) ['b', 'b']
    = .ok [['b', 'b'], ['a', 'a']] := by decide +kernel
example : fits (fuelFor (make cyc2Rows).defs) (make cyc2Rows) ['a', 'a'] ['b', 'b'] = .ok true ∧
    fits (fuelFor (make cyc2Rows).defs) (make cyc2Rows) ['b', 'b'] ['a', 'a'] = .ok true :=
  cycle_members_fit cyc2Rows _ (Nat.le_refl _) _ _ (TransGen.single cyc2_edge_ab) (TransGen.single cyc2_edge_ba)
example : reflect (fuelFor (make cyc2Rows).defs) (make cyc2Rows) [(['a', 'a'], true)]
    = .ok [['a', 'a'], ['b', 'b']] := by decide +kernel
example : reflFits (fuelFor (make cyc2Rows).defs) (make cyc2Rows) [(['a', 'a'], false)] ['b', 'b']
    = .ok true := by decide +kernel

/-! Non-vacuity (3): a cycle with a tail and a diamond inside, a self loop, an exit, an undefined supertype and a
conjunct:  `t → a`,  `a → b, c`,  `b → d`,  `c → d`,  `d → a, m, zz`  (the diamond `a → b|c → d` closes the cycle
`d → a`; `t` is the tail, `m` the exit, `zz` has no def),  `s → s, m`  (self loop),  `b-c → t`. -/
def cycRows : List Row :=
  [ { name := some ['t'], isRaw := [some ['a']] },
    { name := some ['a'], isRaw := [some ['b'], some ['c']] },
    { name := some ['b'], isRaw := [some ['d']] },
    { name := some ['c'], isRaw := [some ['d'], none] },
    { name := some ['d'], isRaw := [some ['a'], some ['m'], some ['z', 'z']] },
    { name := some ['m'], isRaw := [] },
    { name := some ['s'], isRaw := [some ['s'], some ['m']] },
    { name := some ['b', '-', 'c'], isRaw := [some ['t']] } ]

theorem cyc_edge_ab : Edge (make cycRows).defs ['a'] ['b'] :=
  ⟨{ name := ['a'], isRaw := [some ['b'], some ['c']] }, by decide, by decide, by decide⟩
theorem cyc_edge_bd : Edge (make cycRows).defs ['b'] ['d'] :=
  ⟨{ name := ['b'], isRaw := [some ['d']] }, by decide, by decide, by decide⟩
theorem cyc_edge_da : Edge (make cycRows).defs ['d'] ['a'] :=
  ⟨{ name := ['d'], isRaw := [some ['a'], some ['m'], some ['z', 'z']] }, by decide, by decide, by decide⟩

theorem cyc_cycle : TransGen (Edge (make cycRows).defs) ['a'] ['a'] :=
  TransGen.head cyc_edge_ab (TransGen.head cyc_edge_bd (TransGen.single cyc_edge_da))

theorem cyc_self_loop : Edge (make cycRows).defs ['s'] ['s'] :=
  ⟨{ name := ['s'], isRaw := [some ['s'], some ['m']] }, by decide, by decide, by decide⟩

example : ¬ Acyclic (make cycRows).defs :=
  not_acyclic_of_cycle (tg_mono (fun _ _ => edge_raw) cyc_cycle)

example : fuelFor (make cycRows).defs = 9 := by decide
-- from the tail: the whole cycle, the diamond and the exit, not the tail itself
example : allSupertypesOf (fuelFor (make cycRows).defs) (make cycRows) ['t']
    = .ok [['a'], ['b'], ['c'], ['d'], ['m']] := by decide +kernel
-- from inside the cycle: the def itself is among its supertypes
example : allSupertypesOf (fuelFor (make cycRows).defs) (make cycRows) ['a']
    = .ok [['b'], ['c'], ['d'], ['a'], ['m']] := by decide +kernel
example : allSupertypesOf (fuelFor (make cycRows).defs) (make cycRows) ['s']
    = .ok [['s'], ['m']] := by decide +kernel
example : allSubtypesOf (fuelFor (make cycRows).defs) (make cycRows) ['a']
    = .ok [['t'], ['d'], ['b'], ['c'], ['a'], ['b', '-', 'c']] := by decide +kernel
example : allSubtypesOf (fuelFor (make cycRows).defs) (make cycRows) ['m']
    = .ok [['d'], ['s'], ['b'], ['c'], ['a'], ['t'], ['b', '-', 'c']] := by decide +kernel
-- an undefined symbol below which the cycle hangs
example : allSubtypesOf (fuelFor (make cycRows).defs) (make cycRows) ['z', 'z']
    = .ok [['d'], ['b'], ['c'], ['a'], ['t'], ['b', '-', 'c']] := by decide +kernel
example : inheritance (fuelFor (make cycRows).defs) (make cycRows) ['d']
    = .ok [['d'], ['a'], ['m'], ['b'], ['c']] := by decide +kernel
example : fits (fuelFor (make cycRows).defs) (make cycRows) ['d'] ['c'] = .ok true ∧
    fits (fuelFor (make cycRows).defs) (make cycRows) ['a'] ['t'] = .ok false ∧
    fits (fuelFor (make cycRows).defs) (make cycRows) ['s'] ['s'] = .ok true := by decide +kernel
example : (∃ res, allSupertypesOf (fuelFor (make cycRows).defs) (make cycRows) ['s'] = .ok res ∧ ['s'] ∈ res) ∧
    (∃ res, allSubtypesOf (fuelFor (make cycRows).defs) (make cycRows) ['s'] = .ok res ∧ ['s'] ∈ res) :=
  cycle_member_is_own_supertype cycRows _ (Nat.le_refl _) ['s'] (TransGen.single cyc_self_loop)
-- a record whose marker tags `b`, `c` name the conjunct `b-c`, which leads through the tail into the cycle
example : reflect (fuelFor (make cycRows).defs) (make cycRows) [(['b'], true), (['c'], true), (['q'], true)]
    = .ok [['b'], ['d'], ['a'], ['m'], ['c'], ['b', '-', 'c'], ['t']] := by decide +kernel
example : reflFits (fuelFor (make cycRows).defs) (make cycRows) [(['b'], true), (['c'], true)] ['t'] = .ok true ∧
    reflFits (fuelFor (make cycRows).defs) (make cycRows) [(['b'], true), (['c'], false)] ['t'] = .ok false ∧
    reflFits (fuelFor (make cycRows).defs) (make cycRows) [(['s'], false)] ['m'] = .ok true := by decide +kernel

/-! ## Part 2 — the queries that read more of a def than its `is` list

Model: Hs.Model.NsAssoc (`associations` / `find_reciprocal_associations` with `is`, `tag_on`, `tags`;
`implementation`; `fits_marker/val/choice/entity`; `compute_entity_type`; everything `has_relationship` reads
from the namespace; the indexes `choices`, `features`, `libs`, `feature_names`, `tag_on_names`, `tag_on_defs`).
The taxonomy it uses is the model of part 1 on the projection of the full defs (`assoc_taxonomy_is_projection`),
so the closures below are the closures of part 1.  These queries are outside the sentence of C13 proper; they are
the "relationship queries" of C14 and are stated here because they are graph facts. -/

open Hs.NsA in
/-- the taxonomy model inside `makeX` is built from exactly the `def` / `is` projection of the full defs -/
theorem assoc_taxonomy_is_projection (rows : List RowX) :
    (makeX rows).ns = make (rows.map RowX.toRow) ∧ (makeX rows).ns.defs = (makeX rows).xd.map DefX.toDef ∧
    ∀ s, defined (makeX rows).ns.defs s = (getX (makeX rows).xd s).isSome :=
  ⟨rfl, makeX_defs rows, defined_iff_getX rows⟩

open Hs.NsA in
/-- the indexes `Namespace::make` builds next to `subtypes` / `conjuncts_keys`: `features` and `conjuncts` are the defs
whose symbol contains `:` / `-`; `tag_on_names` is exactly the set of Symbol items of all `tagOn` lists; `tag_on_defs`
has one entry per def with a `tagOn` list, holding the defined Symbol items in list order -/
theorem make_indexes_spec (x : NsX) :
    (∀ n, n ∈ features x ↔ ∃ d, d ∈ x.xd ∧ d.name = n ∧ isFeature n = true) ∧
    (∀ n, n ∈ conjuncts x ↔ ∃ d, d ∈ x.xd ∧ d.name = n ∧ isConjunct n = true) ∧
    (∀ n, n ∈ tagOnNames x ↔ ∃ d l, d ∈ x.xd ∧ d.getList nTagOn = some l ∧ some n ∈ l) ∧
    (∀ k v, (k, v) ∈ tagOnDefs x ↔ ∃ d l, d ∈ x.xd ∧ d.name = k ∧ d.getList nTagOn = some l ∧ v = definedSyms x.ns.defs l) :=
  ⟨mem_features x, mem_conjuncts x, mem_tagOnNames x, mem_tagOnDefs x⟩

open Hs.NsA in
/-- `associations` answers nothing for a name that is no def, or a def that does not list `association` in `is` -/
theorem associations_only_for_associations (fuel : Nat) (x : NsX) (p a : Name) :
    (getX x.xd a = none → associations fuel x p a = .ok []) ∧
    (∀ ad, getX x.xd a = some ad → isAssoc ad = false → associations fuel x p a = .ok []) :=
  ⟨associations_unknown fuel x p a, fun ad h hn => associations_not_association fuel x p a ad h hn⟩

open Hs.NsA in
/-- a plain association (`is`, `tagOn`, ...): the defined Symbol items of the parent's tag of that name -/
theorem associations_plain_spec (fuel : Nat) (x : NsX) (p a : Name) (ad : DefX)
    (h : getX x.xd a = some ad) (ha : isAssoc ad = true) (hc : ad.has nComputed = false) :
    ∃ res, associations fuel x p a = .ok res ∧
      ∀ n, n ∈ res ↔ ∃ pd l, getX x.xd p = some pd ∧ pd.getList a = some l ∧ some n ∈ l ∧ defined x.ns.defs n = true :=
  associations_plain fuel x p a ad h ha hc

open Hs.NsA in
/-- a computed association (`tags`): the defs that name, under the reciprocal tag (`tagOn`), the parent or one of
its transitive supertypes - for every defs grid, cyclic or not -/
theorem associations_computed_spec (rows : List RowX) (fuel : Nat) (hf : fuelFor (makeX rows).ns.defs ≤ fuel)
    (p a r : Name) (ad : DefX)
    (h : getX (makeX rows).xd a = some ad) (ha : isAssoc ad = true) (hc : ad.has nComputed = true)
    (hr : ad.getSymbol nReciprocalOf = some r) (hrd : defined (makeX rows).ns.defs r = true) :
    ∃ res, associations fuel (makeX rows) p a = .ok res ∧
      ∀ n, n ∈ res ↔ ∃ d l t, d ∈ (makeX rows).xd ∧ d.name = n ∧ d.tag r = some (.list l) ∧ some t ∈ l ∧
        defined (makeX rows).ns.defs p = true ∧ ReflTransGen (Edge (makeX rows).ns.defs) p t :=
  associations_computed rows fuel hf p a r ad h ha hc hr hrd

open Hs.NsA in
/-- a computed association is inherited: what is `tags` of a def is `tags` of every def below it (for every defs
grid: `q` is, or transitively lists, `p`) -/
theorem computed_association_inherited (rows : List RowX) (fuel : Nat) (hf : fuelFor (makeX rows).ns.defs ≤ fuel)
    (p q a r : Name) (ad : DefX)
    (h : getX (makeX rows).xd a = some ad) (ha : isAssoc ad = true) (hc : ad.has nComputed = true)
    (hr : ad.getSymbol nReciprocalOf = some r) (hrd : defined (makeX rows).ns.defs r = true)
    (hq : defined (makeX rows).ns.defs q = true) (hqp : ReflTransGen (Edge (makeX rows).ns.defs) q p) :
    ∃ rp rq, associations fuel (makeX rows) p a = .ok rp ∧ associations fuel (makeX rows) q a = .ok rq ∧
      ∀ n, n ∈ rp → n ∈ rq := by
  obtain ⟨rp, hp1, hp2⟩ := associations_computed rows fuel hf p a r ad h ha hc hr hrd
  obtain ⟨rq, hq1, hq2⟩ := associations_computed rows fuel hf q a r ad h ha hc hr hrd
  refine ⟨rp, rq, hp1, hq1, fun n hn => ?_⟩
  obtain ⟨d, l, t, hd, hdn, ht, htl, _, hpt⟩ := (hp2 n).1 hn
  exact (hq2 n).2 ⟨d, l, t, hd, hdn, ht, htl, hq, hqp.trans hpt⟩

open Hs.NsA in
/-- `implementation`: the defined non-feature parts of the name in order, then the `mandatory` defs among their
transitive supertypes -/
theorem implementation_is_parts_and_mandatory_supertypes (rows : List RowX) (fuel : Nat)
    (hf : fuelFor (makeX rows).ns.defs ≤ fuel) (s : Name) :
    ∃ base mand, implementation fuel (makeX rows) s = .ok (base, mand) ∧
      base = (conjunctsDefs (makeX rows).ns s).filter (fun n => !isFeature n) ∧
      ∀ n, n ∈ mand ↔ hasMarkerX (makeX rows).xd n nMandatory = true ∧
        ∃ b, b ∈ base ∧ TransGen (Edge (makeX rows).ns.defs) b n :=
  implementation_spec rows fuel hf s

open Hs.NsA in
/-- `fits_marker` / `fits_val` / `fits_choice` / `fits_entity` -/
theorem fits_root_spec (rows : List RowX) (fuel : Nat) (hf : fuelFor (makeX rows).ns.defs ≤ fuel) (w : Nat) (s : Name) :
    ∃ v, fitsRoot fuel (makeX rows) w s = .ok v ∧
      (v = true ↔ (defined (makeX rows).ns.defs s = true ∧ defined (makeX rows).ns.defs (rootName w) = true ∧
        ReflTransGen (Edge (makeX rows).ns.defs) s (rootName w))) :=
  fitsRoot_spec rows fuel hf w s

open Hs.NsA in
/-- the entity type of a reflection is one of the reflected defs and is, or inherits from, `entity` -/
theorem entity_type_sound (rows : List Row) (fuel : Nat) (hf : fuelFor (make rows).defs ≤ fuel)
    (reflected order : List Name) :
    ∃ r, entityType fuel (make rows) reflected order = .ok r ∧
      ∀ c, r = some c → c ∈ reflected ∧ defined (make rows).defs nEntity = true ∧
        ReflTransGen (Edge (make rows).defs) c nEntity := by
  obtain ⟨cands, h1, h2⟩ := entityCandidates_sound rows fuel hf reflected
  unfold entityType
  rw [h1]
  refine ⟨_, rfl, fun c hc => ?_⟩
  have := List.find?_some hc
  exact h2 c (List.contains_iff_mem.1 this)

open Hs.NsA in
/-- ... and, when several reflected defs are entities, a candidate lies in no OTHER reflected entity def's
inheritance: the entity type is a most specific one (`ahu` rather than `equip` for a record tagged with both) -/
theorem entity_type_most_specific (rows : List Row) (fuel : Nat) (hf : fuelFor (make rows).defs ≤ fuel)
    (reflected : List Name) :
    ∃ cands tw, entityCandidates fuel (make rows) reflected = .ok cands ∧
      (defined (make rows).defs nEntity = true → entityTypes fuel (make rows) (extendSet [] reflected) = .ok tw) ∧
      (tw.length ≠ 1 → ∀ c, c ∈ cands → ∀ e inh, (e, inh) ∈ tw → e ≠ c → c ∉ inh) :=
  entityCandidates_most_specific rows fuel hf reflected

open Hs.NsA in
/-- `has_relationship` always answers (no endless walk over the resolver's records, whatever cycles their refs
form), answers false for a name that is no def -/
theorem has_relationship_total (rows : List RowX) (fuel : Nat) (hf : fuelFor (makeX rows).ns.defs ≤ fuel)
    (recs : List RecX) (lf : Nat) (hlf : recs.length < lf) (rel : Name) (term : Option Name)
    (target : Option FLoops.RefId) (s : RecX) :
    (∃ b, NsA.hasRelationship fuel lf (makeX rows) recs rel term target s = .ok b) ∧
    (getX (makeX rows).xd rel = none → NsA.hasRelationship fuel lf (makeX rows) recs rel term target s = .ok false) :=
  ⟨hasRelationship_total rows fuel hf recs lf hlf rel term target s,
   hasRelationship_unknown fuel lf (makeX rows) recs rel term target s⟩


open Hs.NsA in
/-- `rel?` / `rel? ^term` (no target ref) on a record that has an `id`: no Ref is followed, the reciprocal is never
consulted; the answer is "`rel` inherits from `relationship` and some tag of the record has a def whose `rel` tag is
a Symbol that fits the term" -/
theorem has_relationship_without_target (rows : List RowX) (fuel : Nat) (hf : fuelFor (makeX rows).ns.defs ≤ fuel)
    (recs : List RecX) (lf : Nat) (rel : Name) (term : Option Name) (s : RecX) (hid : s.id ≠ none)
    (rd : DefX) (hg : getX (makeX rows).xd rel = some rd) :
    ∃ inh, inheritance fuel (makeX rows).ns rel = .ok inh ∧
      NsA.hasRelationship fuel (lf + 1) (makeX rows) recs rel term none s =
        .ok (inh.contains nRelationship &&
          s.tags.any (fun t => defVal fuel (makeX rows) term t.key rel == FLoops.DefVal.sym true)) := by
  have hns : (makeX rows).ns = make (rows.map RowX.toRow) := rfl
  obtain ⟨inh, hi, _⟩ := Ns.inheritance_spec (rows.map RowX.toRow) fuel (by rw [← hns]; exact hf) rel
  rw [← hns] at hi
  exact ⟨inh, hi, hasRelationship_no_target fuel lf (makeX rows) recs rel term s hid rd hg inh hi⟩


open Hs.NsA in
/-- `rel? @target` for a relationship without the `transitive` marker, on a record whose own `id` is not the target:
no Ref is followed and the reciprocal is never consulted; the answer is "`rel` inherits from `relationship` and some
tag of the record holds exactly that Ref and has a def whose `rel` tag is a Symbol that fits the term" -/
theorem has_relationship_direct_target (rows : List RowX) (fuel : Nat) (hf : fuelFor (makeX rows).ns.defs ≤ fuel)
    (recs : List RecX) (lf : Nat) (rel : Name) (term : Option Name) (g : Name) (s : RecX)
    (hid : (some g == s.id) = false) (rd : DefX) (hg : getX (makeX rows).xd rel = some rd)
    (htr : rd.hasMarker nTransitive = false) :
    ∃ inh, inheritance fuel (makeX rows).ns rel = .ok inh ∧
      NsA.hasRelationship fuel (lf + 1) (makeX rows) recs rel term (some g) s =
        .ok (inh.contains nRelationship &&
          s.tags.any (fun t => defVal fuel (makeX rows) term t.key rel == FLoops.DefVal.sym true && t.ref == some g)) := by
  have hns : (makeX rows).ns = make (rows.map RowX.toRow) := rfl
  obtain ⟨inh, hi, _⟩ := Ns.inheritance_spec (rows.map RowX.toRow) fuel (by rw [← hns]; exact hf) rel
  rw [← hns] at hi
  exact ⟨inh, hi, hasRelationship_direct fuel lf (makeX rows) recs rel term g s hid rd hg htr inh hi⟩


/-! OBSERVATION (not a property of the list; DESIGN 9.6): the walk of a TRANSITIVE relationship follows the first tag
whose Ref it can resolve and never returns to the other tags of the record it left - so a direct match on a later
tag is lost.  `s = {aRef:@a, bRef:@t, id:@s}`, `a = {id:@a}`, both ref tags declare `containedBy` (transitive):
`containedBy? @t` is false on `s` although `bRef` holds `@t` itself; without `aRef` (record `s2`) it is true; and with
the relationship NOT transitive it is true on `s` (`has_relationship_direct_target`).  The real code answers the same
(case `rel:first_tag_wins` of every run). -/
section
open Hs.NsA
def ftwRows (transitive : Bool) : List RowX :=
  [ { name := some nRelationship, tags := [] },
    { name := some ['x'], tags := [] },
    { name := some ['c','B'], tags := (nIs, .list [some nRelationship]) :: (if transitive then [(nTransitive, .marker)] else []) },
    { name := some ['a','R'], tags := [(['c','B'], .sym ['x'])] },
    { name := some ['b','R'], tags := [(['c','B'], .sym ['x'])] } ]
def ftwRecs : List RecX :=
  [ { key := some ['s'], id := some ['s'],
      tags := [{ key := ['a','R'], ref := some ['a'] }, { key := ['b','R'], ref := some ['t'] }, { key := ['i','d'], ref := some ['s'] }] },
    { key := some ['a'], id := some ['a'], tags := [{ key := ['i','d'], ref := some ['a'] }] },
    { key := some ['s','2'], id := some ['s','2'],
      tags := [{ key := ['b','R'], ref := some ['t'] }, { key := ['i','d'], ref := some ['s','2'] }] } ]

example :
    NsA.hasRelationship 6 4 (makeX (ftwRows true)) ftwRecs ['c','B'] none (some ['t']) ftwRecs[0]! = .ok false ∧
    NsA.hasRelationship 6 4 (makeX (ftwRows true)) ftwRecs ['c','B'] none (some ['t']) ftwRecs[2]! = .ok true ∧
    NsA.hasRelationship 6 4 (makeX (ftwRows false)) ftwRecs ['c','B'] none (some ['t']) ftwRecs[0]! = .ok true := by
  decide +kernel
end

/-! Non-vacuity (part 2): a miniature of the standard library.  `tagOn` is a plain association, `tags` is computed
from it; `ahu is [equip]`; `foo tagOn [equip]`, `bar tagOn [ahu, nowhere]`; `equip` is mandatory; `ahu-foo` is a
conjunct; `containedBy` is a transitive relationship. -/
section
open Hs.NsA
def nm (s : String) : Name := s.toList

def libRows : List RowX :=
  [ { name := some ['a','s','s','o','c','i','a','t','i','o','n'], tags := [] },
    { name := some ['t','a','g','O','n'], tags := [(nIs, .list [some nAssociation])] },
    { name := some ['t','a','g','s'], tags := [(nIs, .list [some nAssociation]), (nComputed, .marker), (nReciprocalOf, .sym nTagOn)] },
    { name := some ['i','s'], tags := [(nIs, .list [some nAssociation])] },
    { name := some ['e','n','t','i','t','y'], tags := [] },
    { name := some ['e','q','u','i','p'], tags := [(nIs, .list [some nEntity]), (nMandatory, .marker)] },
    { name := some ['a','h','u'], tags := [(nIs, .list [some ['e','q','u','i','p']])] },
    { name := some ['f','o','o'], tags := [(nTagOn, .list [some ['e','q','u','i','p']])] },
    { name := some ['b','a','r'], tags := [(nTagOn, .list [some ['a','h','u'], some ['n','o','w','h','e','r','e'], none])] },
    { name := some ['a','h','u','-','f','o','o'], tags := [(nIs, .list [some ['a','h','u']])] },
    { name := some ['n','o','t','A','s','s','o','c'], tags := [(nIs, .list [some ['e','q','u','i','p']])] } ]

def libX : NsX := makeX libRows
def libFuel : Nat := fuelFor libX.ns.defs

-- `tags(ahu)`: what is tagOn `ahu` or on its supertype `equip`; `tags(equip)`: only what is tagOn `equip`
example : assocTags libFuel libX ['a','h','u'] = .ok [['f','o','o'], ['b','a','r']] := by decide +kernel
example : assocTags libFuel libX ['e','q','u','i','p'] = .ok [['f','o','o']] := by decide +kernel
example : assocTags libFuel libX ['n','o','w','h','e','r','e'] = .ok [] := by decide +kernel
-- `tag_on(bar)`: the defined Symbol items of its `tagOn` list; `is(ahu)`
example : assocTagOn libFuel libX ['b','a','r'] = .ok [['a','h','u']] := by decide +kernel
example : assocIs libFuel libX ['a','h','u'] = .ok [['e','q','u','i','p']] := by decide +kernel
-- a def that is no association; an unknown name
example : associations libFuel libX ['a','h','u'] ['n','o','t','A','s','s','o','c'] = .ok [] := by decide +kernel
example : associations libFuel libX ['a','h','u'] ['z'] = .ok [] := by decide +kernel
-- `implementation(ahu-foo)`: the parts `ahu`, `foo`, then the mandatory supertype `equip`
example : implementation libFuel libX ['a','h','u','-','f','o','o'] =
    .ok ([['a','h','u'], ['f','o','o']], [['e','q','u','i','p']]) := by decide +kernel
example : fitsRoot libFuel libX 3 ['a','h','u'] = .ok true ∧ fitsRoot libFuel libX 3 ['f','o','o'] = .ok false ∧
    fitsRoot libFuel libX 0 ['a','h','u'] = .ok false := by decide +kernel
-- the entity type of `{ahu, equip, foo}`: `ahu` (the most specific of the two entity defs)
example : entityCandidates libFuel libX.ns [['a','h','u'], ['e','q','u','i','p'], ['f','o','o'], ['e','n','t','i','t','y']]
    = .ok [['a','h','u']] := by decide +kernel
example : tagOnNames libX = [['e','q','u','i','p'], ['a','h','u'], ['n','o','w','h','e','r','e']] ∧
    tagOnDefs libX = [(['f','o','o'], [['e','q','u','i','p']]), (['b','a','r'], [['a','h','u']])] ∧
    conjuncts libX = [['a','h','u','-','f','o','o']] := by decide +kernel
end

/-! ## Part 3: `protos` (Hs.Model.NsProtos)

For EVERY namespace, every set of defs with a `children` tag and every parent dict: the prototypes are exactly
the children of the defs that the parent's tag names name, each merged with the parent's own non-Null values
under the tags that fit one of the def's `childrenFlatten` symbols; in a prototype the flattened value of a tag
wins over the child's own. -/

open Hs.NsA in
/-- `protos(parent)`: which dicts come out -/
theorem protos_spec (fuel : Nat) (ns : Ns) (pd : ProtoDefs) (parent p : PDict) :
    p ∈ protos fuel ns pd parent ↔
      ∃ name v spec cs c, (name, v) ∈ parent ∧ plookup pd name = some spec ∧ spec.children = some cs ∧ c ∈ cs ∧
        p = mergeInto (flattened fuel ns spec.flatten parent) c := by
  rw [mem_protos]
  constructor
  · rintro ⟨name, v, h1, h2⟩
    obtain ⟨spec, cs, h3, h4, c, h5, h6⟩ := (mem_protosFromDef fuel ns pd parent name p).mp h2
    exact ⟨name, v, spec, cs, c, h1, h3, h4, h5, h6⟩
  · rintro ⟨name, v, spec, cs, c, h1, h3, h4, h5, h6⟩
    exact ⟨name, v, h1, (mem_protosFromDef fuel ns pd parent name p).mpr ⟨spec, cs, h3, h4, c, h5, h6⟩⟩

open Hs.NsA in
/-- the flattened values: the parent's entries that are not Null and whose tag fits one of the symbols -/
theorem flattened_spec (fuel : Nat) (ns : Ns) (fl : List Name) (parent : PDict) (k : Name) (v : Nat) :
    (k, v) ∈ flattened fuel ns fl parent ↔
      (k, v) ∈ parent ∧ v ≠ 0 ∧ ∃ sym, sym ∈ fl ∧ fitsB fuel ns k sym = true :=
  mem_flattened fuel ns fl parent k v

open Hs.NsA in
/-- the same in terms of the graph of the `is` lists, for every defs grid: a value of the parent is flattened into the
prototypes iff it is not Null and its tag is a def that is, or inherits from, one of the defined `childrenFlatten`
symbols -/
theorem flattened_graph_spec (rows : List Row) (fuel : Nat) (hf : fuelFor (make rows).defs ≤ fuel)
    (fl : List Name) (parent : PDict) (k : Name) (v : Nat) :
    (k, v) ∈ flattened fuel (make rows) fl parent ↔
      (k, v) ∈ parent ∧ v ≠ 0 ∧ ∃ sym, sym ∈ fl ∧ defined (make rows).defs k = true ∧
        defined (make rows).defs sym = true ∧ ReflTransGen (Edge (make rows).defs) k sym := by
  rw [flattened_spec]
  have hb : ∀ sym, fitsB fuel (make rows) k sym = true ↔
      (defined (make rows).defs k = true ∧ defined (make rows).defs sym = true ∧
        ReflTransGen (Edge (make rows).defs) k sym) := by
    intro sym
    obtain ⟨w, hw, hw'⟩ := fits_spec rows fuel hf k sym
    unfold fitsB
    rw [hw]
    exact hw'
  constructor
  · rintro ⟨h1, h2, sym, h3, h4⟩
    exact ⟨h1, h2, sym, h3, (hb sym).mp h4⟩
  · rintro ⟨h1, h2, sym, h3, h4⟩
    exact ⟨h1, h2, sym, h3, (hb sym).mpr h4⟩

open Hs.NsA in
/-- a tag of a prototype: the flattened value if there is one, the child's own otherwise -/
theorem proto_tag (f c : PDict) (k : Name) :
    pget (mergeInto f c) k = (pget f k).or (pget c k) :=
  pget_mergeInto f c k

open Hs.NsA in
/-- the model merges last to first, the code first to last: on a dict (distinct keys) every tag comes out the same -/
theorem merge_loop_eq (f : PDict) (hn : (f.map Prod.fst).Nodup) (c : PDict) (k : Name) :
    pget (mergeLoop f c) k = pget (mergeInto f c) k := by
  rw [pget_mergeLoop f hn, pget_mergeInto]

open Hs.NsA in
/-- `find_flattened_children` as the code's two nested loops run it (symbols outside, the parent's keys inside, inserts
into a fresh dict) builds, on a parent with distinct keys, the dict of `flattened_spec` -/
theorem flattened_loop_eq (fuel : Nat) (ns : Ns) (fl : List Name) (parent : PDict)
    (hn : (parent.map Prod.fst).Nodup) (k : Name) :
    pget (flattenedLoop fuel ns fl parent) k = pget (flattened fuel ns fl parent) k :=
  pget_flattenedLoop fuel ns fl parent hn k

open Hs.NsA in
/-- `protos` with every loop as the code writes it (`protosLoop`, what the driver runs against the library) hands out,
in the same order and tag by tag, the dicts of the specified `protos` - for every parent with distinct keys -/
theorem protos_loop_eq (fuel : Nat) (ns : Ns) (pd : ProtoDefs) (parent : PDict)
    (hn : (parent.map Prod.fst).Nodup) :
    (protosLoop fuel ns pd parent).map pget = (protos fuel ns pd parent).map pget := by
  unfold protosLoop protos
  rw [List.map_flatMap, List.map_flatMap]
  congr 1
  funext kv
  exact protosFromDefLoop_eq fuel ns pd parent hn kv.1

open Hs.NsA in
/-- a parent none of whose tags names a def with children has no prototypes -/
theorem protos_none (fuel : Nat) (ns : Ns) (pd : ProtoDefs) (parent : PDict)
    (h : ∀ kv, kv ∈ parent → plookup pd kv.1 = none) : protos fuel ns pd parent = [] := by
  apply List.eq_nil_iff_forall_not_mem.mpr
  intro p hp
  obtain ⟨name, v, spec, cs, c, h1, h3, _⟩ := (protos_spec fuel ns pd parent p).mp hp
  have := h (name, v) h1
  simp only at this
  rw [this] at h3
  cases h3

open Hs.NsA in
/-- a def whose `children` tag is neither a Str nor a List contributes nothing -/
theorem protos_bad_children (fuel : Nat) (ns : Ns) (pd : ProtoDefs) (parent : PDict) (name : Name) (spec : ChildSpec)
    (h1 : plookup pd name = some spec) (h2 : spec.children = none) :
    protosFromDef fuel ns pd parent name = [] := by
  simp [protosFromDef, h1, h2]

section
open Hs.NsA
/-- on the grid of part 2: `ahu` has two children and flattens what fits `equip`; the parent `{ahu, equip:7, foo:9, z:Null}` -/
def exPd : ProtoDefs :=
  [ (['a','h','u'], { children := some [[(['f','a','n'], 1)], [(['e','q','u','i','p'], 2), (['d','i','s'], 3)]],
                      flatten := [['e','q','u','i','p']] }),
    (['f','o','o'], { children := none, flatten := [] }) ]
def exParent : PDict := [(['a','h','u'], 1), (['e','q','u','i','p'], 7), (['f','o','o'], 9), (['z'], 0)]
-- the hypothesis of the loop theorems holds of the example parent (as of every dict)
example : (exParent.map Prod.fst).Nodup := by decide
-- the loops as written put the entries in another order (an association list is compared tag by tag: protos_loop_eq)
example : protosLoop libFuel libX.ns exPd exParent =
    [ [(['f','a','n'], 1), (['a','h','u'], 1), (['e','q','u','i','p'], 7)],
      [(['e','q','u','i','p'], 7), (['d','i','s'], 3), (['a','h','u'], 1)] ] := by decide +kernel
example : protos libFuel libX.ns exPd exParent =
    [ [(['f','a','n'], 1), (['e','q','u','i','p'], 7), (['a','h','u'], 1)],
      [(['e','q','u','i','p'], 7), (['d','i','s'], 3), (['a','h','u'], 1)] ] := by decide +kernel
end

open Hs.NsA in
/-- `core_type_defs`: sixteen fields; each holds the def named after its kind when the namespace has one, the empty
dict otherwise -/
theorem core_type_defs_spec (g : Defs) :
    (coreTypeDefs g).length = 16 ∧
    ∀ (i : Nat) (n : Name), coreTypeNames[i]? = some n →
      (coreTypeDefs g)[i]? = some (if defined g n then some n else none) := by
  refine ⟨by simp [coreTypeDefs, coreTypeNames], ?_⟩
  intro i n h
  simp [coreTypeDefs, List.getElem?_map, h]

open Hs.NsA in
/-- `has_subtype`: some def is a direct subtype -/
theorem has_subtype_spec (ns : Ns) (s : Name) :
    hasSubtype ns s = true ↔ ∃ d, d ∈ subtypesOf ns s := by
  unfold hasSubtype
  cases h : subtypesOf ns s with
  | nil => simp
  | cons d r => simp

open Hs.NsA in
/-- `all_matching_names`: exactly the given names that have a def, in the order given -/
theorem all_matching_names_spec (g : Defs) (names : List Name) :
    (∀ n, n ∈ allMatchingNames g names ↔ n ∈ names ∧ defined g n = true) ∧
    (allMatchingNames g names).Sublist names := by
  refine ⟨fun n => by simp [allMatchingNames, List.mem_filter], ?_⟩
  exact List.filter_sublist

/-! The fuel bound is attained: below the undefined symbol `nowhere` hang both defs of this grid, the subtype
traversal pops `1 + 2` vectors; one unit of fuel less and the model reports `diverge`. -/
def chainRows : List Row :=
  [ { name := some ['x'], isRaw := [some ['n', 'o', 'w', 'h', 'e', 'r', 'e']] },
    { name := some ['y'], isRaw := [some ['x']] } ]

theorem fuel_bound_sharp :
    allSubtypesOf (fuelFor (make chainRows).defs) (make chainRows) ['n', 'o', 'w', 'h', 'e', 'r', 'e']
      = .ok [['x'], ['y']] ∧
    allSubtypesOf (fuelFor (make chainRows).defs - 1) (make chainRows) ['n', 'o', 'w', 'h', 'e', 'r', 'e']
      = .diverge := by decide +kernel

end Hs.C13
