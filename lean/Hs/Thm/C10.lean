/-
  C10 — encoders never panic on any constructible value.

  (T) `Hs.Gen.PanicSites` is regenerated from encode.rs (Zinc), json/encode.rs, `Display for Value`,
  `dict_to_dis` and dis_macro.rs on every run: every construct of that code that CAN panic
  (indexing, slicing, unwrap/expect, panic macros, `len() - 1`) is listed and classified.
  (P) the theorems below: no unguarded site exists; the only subtractions are evaluated inside a
  loop over the non-empty collection they measure; and the model of the writer (`Hs.Zinc.enc`,
  validated byte-for-byte against the code on arbitrary ill-formed values) is a total function of
  ALL values — it contains no partial operation at all.
-/
import Hs.Model.ZincEnc
import Hs.Model.Hayson
import Hs.Model.ZincParse
import Hs.Gen.PanicSites
namespace Hs.C10
open Hs Hs.Zinc

/-- no unguarded panic-capable construct in the encoders' source -/
theorem no_unguarded_panic_site : Hs.Gen.encPanicSites.length = 0 := by decide

/-- the `len() - 1` subtractions that exist are the separator tests of the collection writers -/
theorem guarded_subs_are_separator_tests :
    Hs.Gen.encGuardedSubs.all (fun s => s.1 == "src/haystack/encoding/zinc/encode.rs") = true := by decide

/-- In the model the separator test `i < len - 1` is only evaluated for `len ≥ 1`: the writers recurse
on non-empty containers only (`encVals`, `encTags`, `encCols`, `rowLine`), an empty one writes nothing. -/
theorem empty_containers_write_nothing :
    encVals .nil = [] ∧ (∀ sep, encTags .nil sep = []) ∧ encCols .nil = [] ∧
    (∀ cells single, rowLine cells [] single = []) := by
  refine ⟨?_, ?_, ?_, ?_⟩
  · simp [encVals]
  · intro sep; simp [encTags]
  · simp [encCols]
  · intro cells single; simp [rowLine]

/-- The property for the Zinc writer and `Display` (which delegates to it): the model is a total
function on all of `Val` — for every value, well-formed or not, of any depth, there is an output. -/
theorem C10_zinc : ∀ (v : Val) (nested : Bool), ∃ bs : List UInt8, enc v nested = bs :=
  fun v nested => ⟨enc v nested, rfl⟩

/-- The Hayson `Serialize` impls: the tree-level model is a total function on all of `Val` as well. -/
theorem C10_json : ∀ v : Val, ∃ j : Hs.Hayson.Json, Hs.Hayson.toJson v = j :=
  fun v => ⟨Hs.Hayson.toJson v, rfl⟩

/-- In particular every value in the image of either decoder (whatever text it came from) can be
offered to either encoder: the encoders have no precondition. -/
theorem C10_image (bs : List UInt8) (v : Val) (_h : fromBytes bs = .ok v) :
    (∃ out, encode v = out) ∧ (∃ j, Hs.Hayson.toJson v = j) :=
  ⟨⟨encode v, rfl⟩, ⟨Hs.Hayson.toJson v, rfl⟩⟩

/-- an ill-formed value of the kind that used to panic (`XStr` with an empty type) has an encoding -/
example : encode (.xstr [] ['x']) = [40, 34, 120, 34, 41] := by decide +kernel

end Hs.C10
