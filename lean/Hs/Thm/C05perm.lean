/-
  C05 (part) — member order does not matter to the Hayson decoder visitor.

  `visit_map` (src/haystack/encoding/json/decode.rs) reads the members in the order the `MapAccess` delivers
  them (document order for `from_str`/`from_slice`, key order for `from_value`): it decodes the member's
  value, treats a `_kind` member as the type tag (returning AT ONCE for `marker`/`remove`/`na` — and
  serde_json then refuses the map unless that member was the last one, `Hs.Hayson.earlyReturn`), inserts
  every other member into a `BTreeMap` (last wins) and dispatches on the remembered kind after the last
  member.  So the outcome is independent of the member order exactly when (1) the keys are pairwise distinct
  (otherwise "last wins" depends on the order) and (2) no `_kind` member holds one of the three early-return
  kinds — unless the object has no other member.  `{"_kind":"marker","x":1}` (an error) and
  `{"x":1,"_kind":"marker"}` (Marker) violate (2) (witness below, reproduced on the real code with
  `from_str`); neither is a Hayson document.

  All statements are about the tree-level model `Hs.Hayson.fromJson`/`visitMap` (members in visiting
  order); permutations are `List.Perm` on `Members.toList`.

  Part 1: one object (`visitMap_perm`, `fromJson_obj_perm`), hypotheses exact (witnesses).
  Part 2: reordering at every depth (`JPerm`), for documents all of whose objects satisfy the hypotheses
  or have at most one member (`OrdOK`, `fromJson_jperm`); the encoder's document of a well-formed value does
  (`ordOK_val`), hence `C05_order`: any member order, at any depth, of the encoder's document decodes to the
  image of the value.  Optional members present/absent, number spellings, `"_kind":"dict"`: Thm/C05.lean.
-/
import Hs.Lemmas.HaysonTotal
import Hs.Thm.C02
set_option linter.unusedSimpArgs false
namespace Hs.C05perm
open Hs Hs.Hayson Hs.C02

/-- `ms'` is a reordering of the members `ms` -/
def MPerm (ms ms' : Members) : Prop := ms.toList.Perm ms'.toList

/-- no key occurs twice -/
def KeysDistinct (ms : Members) : Prop := (ms.toList.map (·.1)).Nodup

/-- every member value decodes -/
def AllDecode (ms : Members) : Prop := ∀ p ∈ ms.toList, ∃ v, fromJson p.2 = .ok v

/-- no `_kind` member holds `"marker"`, `"remove"` or `"na"` (the kinds on which the visitor returns
without reading the remaining members) -/
def NoEarlyKind (ms : Members) : Prop :=
  ∀ p ∈ ms.toList, p.1 = s "_kind" → isEarly (fromJson p.2) = false

theorem view_keys (ms : Members) : (view ms).map (·.1) = ms.toList.map (·.1) := by
  rw [view_eq_map, List.map_map]; rfl

theorem orderHyp_view (ms : Members) (h : NoEarlyKind ms) : OrderHyp (view ms) := by
  rw [view_eq_map]
  intro p hp
  obtain ⟨q, hq, e⟩ := List.mem_map.mp hp
  subst e
  exact ⟨fromJson_okOrErr q.2, h q hq⟩

/-- The full statement: under distinct keys and no early-return kind, the visitor — started with any
remembered kind and any collected entries — gives the same outcome on every reordering of the members. -/
def visitMap_perm_full : Prop :=
  ∀ ms ms' : Members, MPerm ms ms' → KeysDistinct ms → NoEarlyKind ms →
    ∀ kind d, visitMap ms kind d = visitMap ms' kind d

theorem visitMap_perm : visitMap_perm_full := by
  intro ms ms' hp hd hh kind d
  rw [visitMap_eq_runR, visitMap_eq_runR]
  have hp' : (view ms).Perm (view ms') := by
    rw [view_eq_map, view_eq_map]
    exact hp.map _
  exact runR_perm hp' (by rw [view_keys]; exact hd) (orderHyp_view ms hh) kind d

/-- … in particular for a whole JSON object -/
theorem fromJson_obj_perm (ms ms' : Members) (hp : MPerm ms ms') (hd : KeysDistinct ms)
    (hh : NoEarlyKind ms) : fromJson (.obj ms) = fromJson (.obj ms') := by
  rw [fromJson, fromJson]
  exact visitMap_perm ms ms' hp hd hh [] []

/-- the hypotheses travel along a reordering (so the statement is symmetric) -/
theorem hyps_of_perm (ms ms' : Members) (hp : MPerm ms ms') (hd : KeysDistinct ms)
    (hh : NoEarlyKind ms) : KeysDistinct ms' ∧ NoEarlyKind ms' := by
  have hk : (ms.toList.map (·.1)).Perm (ms'.toList.map (·.1)) := hp.map _
  exact ⟨hk.nodup_iff.mp hd, fun p hp' => hh p (hp.mem_iff.mpr hp')⟩

/-! ### the hypotheses are satisfiable and each is needed -/

def m_ref : Members :=
  .cons (s "_kind") (.str (s "ref")) (.cons (s "val") (.str (s "a")) (.cons (s "dis") (.str (s "A")) .nil))
def m_ref' : Members :=
  .cons (s "dis") (.str (s "A")) (.cons (s "val") (.str (s "a")) (.cons (s "_kind") (.str (s "ref")) .nil))

example : MPerm m_ref m_ref' ∧ KeysDistinct m_ref ∧ AllDecode m_ref ∧ NoEarlyKind m_ref := by
  refine ⟨?_, ?_, ?_, ?_⟩
  · show m_ref.toList.Perm m_ref'.toList
    have : m_ref'.toList = m_ref.toList.reverse := rfl
    rw [this]
    exact (List.reverse_perm _).symm
  · show (m_ref.toList.map (·.1)).Nodup
    decide
  · intro p hp
    simp [m_ref, Members.toList] at hp
    rcases hp with e | e | e <;> subst e <;> simp [fromJson]
  · intro p hp hk
    simp [m_ref, Members.toList] at hp
    rcases hp with e | e | e <;> subst e <;> simp [fromJson, isEarly, s] at hk ⊢

/-- (2) is needed, even when every member value decodes: `{"_kind":"marker","x":1}` is an error (the
visitor returns at `_kind`, serde_json refuses the unconsumed map), `{"x":1,"_kind":"marker"}` is Marker.
Reproduced on the real code (`from_str`: "trailing comma at line 1 column 18" / `Ok(Marker)`). -/
def one : Json := .int 1 { bits := 0x3FF0000000000000, txt := ['1'] }
example :
    (fromJson (.obj (.cons (s "_kind") (.str (s "marker")) (.cons (s "x") one .nil)))).tag = "err" ∧
    okIs (fromJson (.obj (.cons (s "x") one (.cons (s "_kind") (.str (s "marker")) .nil))))
      (fun v => match v with | .marker => true | _ => false) = true := by
  decide +kernel

/-- (1) is needed: `{"a":true,"a":false}` and `{"a":false,"a":true}` decode to different dicts -/
example :
    (match fromJson (.obj (.cons (s "a") (.bool true) (.cons (s "a") (.bool false) .nil))) with
      | .ok (.dict (.cons _ (.bool b) .nil)) => b == false | _ => false) = true ∧
    (match fromJson (.obj (.cons (s "a") (.bool false) (.cons (s "a") (.bool true) .nil))) with
      | .ok (.dict (.cons _ (.bool b) .nil)) => b == true | _ => false) = true := by
  decide +kernel

/-! ## Reordering at every depth -/

mutual
/-- `j'` is `j` with the members of any of its objects, at any depth, reordered -/
def JPerm : Json → Json → Prop
  | .arr xs, j' => ∃ ys, j' = .arr ys ∧ JsPerm xs ys
  | .obj ms, j' => ∃ ms1 ms', j' = .obj ms' ∧ MsPerm ms ms1 ∧ MPerm ms1 ms'
  | .null, j' => j' = .null
  | .bool b, j' => j' = .bool b
  | .int i f, j' => j' = .int i f
  | .flt f, j' => j' = .flt f
  | .str x, j' => j' = .str x
/-- element by element -/
def JsPerm : Jsons → Jsons → Prop
  | .nil, ys => ys = .nil
  | .cons x xs, ys => ∃ y ys', ys = .cons y ys' ∧ JPerm x y ∧ JsPerm xs ys'
/-- same keys in the same order, values reordered inside -/
def MsPerm : Members → Members → Prop
  | .nil, ms' => ms' = .nil
  | .cons k j ms, ms' => ∃ j' ms1, ms' = .cons k j' ms1 ∧ JPerm j j' ∧ MsPerm ms ms1
end

mutual
/-- every object in the document, at any depth, satisfies the hypotheses of `visitMap_perm` or has at most
one member (the `{"_kind":"marker"}` objects) -/
def OrdOK : Json → Prop
  | .arr xs => OrdOKs xs
  | .obj ms => KeysDistinct ms ∧ (NoEarlyKind ms ∨ ms.toList.length ≤ 1) ∧ OrdOKm ms
  | _ => True
def OrdOKs : Jsons → Prop
  | .nil => True
  | .cons j js => OrdOK j ∧ OrdOKs js
def OrdOKm : Members → Prop
  | .nil => True
  | .cons _ j ms => OrdOK j ∧ OrdOKm ms
end

mutual
theorem fromJson_jperm : (j : Json) → ∀ j', OrdOK j → JPerm j j' → fromJson j = fromJson j'
  | .null, j', _, hp => by simp [JPerm] at hp; rw [hp]
  | .bool b, j', _, hp => by simp [JPerm] at hp; rw [hp]
  | .int i f, j', _, hp => by simp [JPerm] at hp; rw [hp]
  | .flt f, j', _, hp => by simp [JPerm] at hp; rw [hp]
  | .str x, j', _, hp => by simp [JPerm] at hp; rw [hp]
  | .arr xs, j', ho, hp => by
    simp only [JPerm] at hp
    obtain ⟨ys, e, h⟩ := hp
    subst e
    simp only [OrdOK] at ho
    rw [fromJson, fromJson, seq_jperm xs ys ho h]
  | .obj ms, j', ho, hp => by
    simp only [JPerm] at hp
    obtain ⟨ms1, ms', e, hpw, hperm⟩ := hp
    subst e
    simp only [OrdOK] at ho
    obtain ⟨hd, hh, hm⟩ := ho
    have hv : view ms = view ms1 := view_msperm ms ms1 hm hpw
    have hp' : (view ms1).Perm (view ms') := by
      rw [view_eq_map, view_eq_map]
      exact hperm.map _
    have hn : ((view ms).map (·.1)).Nodup := by rw [view_keys]; exact hd
    rw [fromJson_obj, fromJson_obj, hv]
    rcases hh with hh | hh
    · exact runR_perm hp' (hv ▸ hn) (hv ▸ orderHyp_view ms hh) [] []
    · have hl : (view ms1).length ≤ 1 := by
        rw [← hv, view_eq_map, List.length_map]; exact hh
      rw [perm_eq_of_length_le_one hp' hl]
theorem seq_jperm : (xs : Jsons) → ∀ ys, OrdOKs xs → JsPerm xs ys → seq xs = seq ys
  | .nil, ys, _, hp => by simp [JsPerm] at hp; rw [hp]
  | .cons x xs, ys, ho, hp => by
    simp only [JsPerm] at hp
    obtain ⟨y, ys', e, h1, h2⟩ := hp
    subst e
    simp only [OrdOKs] at ho
    rw [seq, seq, fromJson_jperm x y ho.1 h1, seq_jperm xs ys' ho.2 h2]
theorem view_msperm : (ms : Members) → ∀ ms1, OrdOKm ms → MsPerm ms ms1 → view ms = view ms1
  | .nil, ms1, _, hp => by simp [MsPerm] at hp; rw [hp]
  | .cons k j ms, ms1, ho, hp => by
    simp only [MsPerm] at hp
    obtain ⟨j', ms2, e, h1, h2⟩ := hp
    subst e
    simp only [OrdOKm] at ho
    simp only [view]
    rw [fromJson_jperm j j' ho.1 h1, view_msperm ms ms2 ho.2 h2]
end


/-! ## The encoder's output satisfies the hypotheses at every depth -/

def flatJ : Json → Bool
  | .arr _ => false
  | .obj _ => false
  | _ => true
/-- every member value is a scalar token -/
def flat : Members → Bool
  | .nil => true
  | .cons _ j ms => flatJ j && flat ms

theorem flatJ_decodes (j : Json) (h : flatJ j = true) : ∃ v, fromJson j = .ok v := by
  cases j <;> simp [flatJ, fromJson] at h ⊢

theorem flatJ_ordOK (j : Json) (h : flatJ j = true) : OrdOK j := by
  cases j <;> simp [flatJ, OrdOK] at h ⊢

theorem flat_allDecode : (ms : Members) → flat ms = true → AllDecode ms
  | .nil, _ => by intro p hp; simp [Members.toList] at hp
  | .cons k j ms, h => by
    simp [flat] at h
    intro p hp
    simp only [Members.toList, List.mem_cons] at hp
    rcases hp with e | hp
    · subst e; exact flatJ_decodes j h.1
    · exact flat_allDecode ms h.2 p hp

theorem flat_ordOKm : (ms : Members) → flat ms = true → OrdOKm ms
  | .nil, _ => by simp [OrdOKm]
  | .cons k j ms, h => by
    simp [flat] at h
    simp only [OrdOKm]
    exact ⟨flatJ_ordOK j h.1, flat_ordOKm ms h.2⟩

theorem ordOK_flat (ms : Members) (hf : flat ms = true) (hd : KeysDistinct ms)
    (hk : NoEarlyKind ms ∨ ms.toList.length ≤ 1) : OrdOK (.obj ms) := by
  simp only [OrdOK]
  exact ⟨hd, hk, flat_ordOKm ms hf⟩

/-- a `{"_kind": kind, …}` object whose kind is not an early-return kind and whose other members are not
named `_kind` -/
theorem noEarly_kindObj (kind : String) (rest : Members)
    (hk : isEarly (.ok (.str (s kind))) = false) (hr : ∀ p ∈ rest.toList, p.1 ≠ s "_kind") :
    NoEarlyKind (.cons (s "_kind") (.str (s kind)) rest) := by
  intro p hp hpk
  simp only [Members.toList, List.mem_cons] at hp
  rcases hp with e | hp
  · subst e; simpa [fromJson] using hk
  · exact absurd hpk (hr p hp)

theorem noEarly_of_noKind (ms : Members) (h : ∀ p ∈ ms.toList, p.1 ≠ s "_kind") : NoEarlyKind ms :=
  fun p hp hk => absurd hk (h p hp)

@[simp] theorem flatJ_jF64 (f : Flt) : flatJ (jF64 f) = true := by
  unfold jF64; split <;> rfl
@[simp] theorem flatJ_str (x : List Char) : flatJ (.str x) = true := rfl

theorem ordOK_encNumber (n : Num) : OrdOK (encNumber n) := by
  obtain ⟨v, unit⟩ := n
  unfold encNumber
  by_cases hN : isNaN v = true
  · cases unit <;>
    · simp only [hN]
      apply ordOK_flat
      · simp [flat]
      · simp [KeysDistinct, Members.toList, s]
      · exact Or.inl (noEarly_kindObj "number" _ (by decide) (by simp [Members.toList, s]))
  · by_cases hI : isInf v = true
    · cases unit <;>
      · simp only [hN, hI]
        apply ordOK_flat
        · simp [flat]
        · simp [KeysDistinct, Members.toList, s]
        · exact Or.inl (noEarly_kindObj "number" _ (by decide) (by simp [Members.toList, s]))
    · cases unit with
      | some u =>
        simp only [hN, hI]
        apply ordOK_flat
        · simp [flat]
        · simp [KeysDistinct, Members.toList, s]
        · exact Or.inl (noEarly_kindObj "number" _ (by decide) (by simp [Members.toList, s]))
      | none =>
        simp only [hN, hI]
        simp
        repeat' split
        all_goals simp [OrdOK]

theorem tagsJson_keys : ∀ t : Tags, (tagsJson t).toList.map (·.1) = t.keys
  | .nil => by simp [tagsJson, Members.toList, Tags.keys]
  | .cons k v t => by simp [tagsJson, Members.toList, Tags.keys, tagsJson_keys t]

theorem keysDistinct_tagsJson (t : Tags) (hs : strictSorted t.keys = true) : KeysDistinct (tagsJson t) := by
  unfold KeysDistinct
  rw [tagsJson_keys]
  exact (strictSorted_pairwise _ hs).imp (fun h => ltChars_ne h)

theorem allDecode_of_view (ms : Members) (l : List (List Char × Val)) (hv : view ms = okView l) :
    AllDecode ms := by
  intro p hp
  have : (p.1, fromJson p.2) ∈ view ms := by
    rw [view_eq_map]
    exact List.mem_map_of_mem (f := fun p => (p.1, fromJson p.2)) hp
  rw [hv] at this
  obtain ⟨q, _, e⟩ := List.mem_map.mp this
  exact ⟨q.2, by simpa using (congrArg Prod.snd e).symm⟩

theorem noEarly_tagsJson (t : Tags) (hw : wfTags t = true) : NoEarlyKind (tagsJson t) := by
  apply noEarly_of_noKind
  intro p hp e
  have hv := rt_tags t hw
  have : (p.1, fromJson p.2) ∈ view (tagsJson t) := by
    rw [view_eq_map]
    exact List.mem_map_of_mem (f := fun p => (p.1, fromJson p.2)) hp
  rw [hv] at this
  obtain ⟨q, hq, e2⟩ := List.mem_map.mp this
  have : q.1 = p.1 := by simpa using congrArg Prod.fst e2
  exact wfTags_noKind t hw q hq (this.trans e)

/-- a dict object written from well-formed sorted tags -/
theorem ordOK_obj_tags (t : Tags) (hw : wfTags t = true) (hs : strictSorted t.keys = true)
    (hm : OrdOKm (tagsJson t)) : OrdOK (.obj (tagsJson t)) := by
  simp only [OrdOK]
  exact ⟨keysDistinct_tagsJson t hs, Or.inl (noEarly_tagsJson t hw), hm⟩

theorem ordOK_col (n : List Char) (jm : Json) (ho : OrdOK jm) :
    OrdOK (.obj (.cons (s "name") (.str n) (.cons (s "meta") jm .nil))) := by
  simp only [OrdOK, OrdOKm]
  refine ⟨by simp [KeysDistinct, Members.toList, s], Or.inl ?_, trivial, ho, trivial⟩
  exact noEarly_of_noKind _ (by simp [Members.toList, s])

theorem ordOK_gridObj (jm jc jr : Json) (om : OrdOK jm) (oc : OrdOK jc) (or' : OrdOK jr) :
    OrdOK (kindObj "grid" (.cons (s "meta") jm (.cons (s "cols") jc (.cons (s "rows") jr .nil)))) := by
  simp only [kindObj, OrdOK, OrdOKm]
  refine ⟨by simp [KeysDistinct, Members.toList, s], Or.inl ?_, trivial, om, oc, or', trivial⟩
  exact noEarly_kindObj "grid" _ (by decide) (by simp [Members.toList, s])

mutual
theorem ordOK_val : (v : Val) → wfj v = true → OrdOK (toJson v)
  | .null, _ => by simp [toJson, OrdOK]
  | .remove, _ => by
    simp only [toJson, kindObj]
    exact ordOK_flat _ (by simp [flat]) (by simp [KeysDistinct, Members.toList]) (Or.inr (by simp [Members.toList]))
  | .marker, _ => by
    simp only [toJson, kindObj]
    exact ordOK_flat _ (by simp [flat]) (by simp [KeysDistinct, Members.toList]) (Or.inr (by simp [Members.toList]))
  | .na, _ => by
    simp only [toJson, kindObj]
    exact ordOK_flat _ (by simp [flat]) (by simp [KeysDistinct, Members.toList]) (Or.inr (by simp [Members.toList]))
  | .bool _, _ => by simp [toJson, OrdOK]
  | .num n, _ => by simp only [toJson]; exact ordOK_encNumber n
  | .str _, _ => by simp [toJson, OrdOK]
  | .uri _, _ => by
    simp only [toJson, kindObj]
    exact ordOK_flat _ (by simp [flat]) (by simp [KeysDistinct, Members.toList, s]) (Or.inl (noEarly_kindObj "uri" _ (by decide) (by simp [Members.toList, s])))
  | .ref _ dis, _ => by
    simp only [toJson, kindObj]
    cases dis <;>
    exact ordOK_flat _ (by simp [flat]) (by simp [KeysDistinct, Members.toList, s]) (Or.inl (noEarly_kindObj "ref" _ (by decide) (by simp [Members.toList, s])))
  | .sym _, _ => by
    simp only [toJson, kindObj]
    exact ordOK_flat _ (by simp [flat]) (by simp [KeysDistinct, Members.toList, s]) (Or.inl (noEarly_kindObj "symbol" _ (by decide) (by simp [Members.toList, s])))
  | .date _, _ => by
    simp only [toJson, kindObj]
    exact ordOK_flat _ (by simp [flat]) (by simp [KeysDistinct, Members.toList, s]) (Or.inl (noEarly_kindObj "date" _ (by decide) (by simp [Members.toList, s])))
  | .time _, _ => by
    simp only [toJson, kindObj]
    exact ordOK_flat _ (by simp [flat]) (by simp [KeysDistinct, Members.toList, s]) (Or.inl (noEarly_kindObj "time" _ (by decide) (by simp [Members.toList, s])))
  | .dateTime t, _ => by
    simp only [toJson, kindObj]
    by_cases h : (t.tzid == s "UTC") = true
    · simp only [h, if_true]
      exact ordOK_flat _ (by simp [flat]) (by simp [KeysDistinct, Members.toList, s]) (Or.inl (noEarly_kindObj "dateTime" _ (by decide) (by simp [Members.toList, s])))
    · simp only [h]
      exact ordOK_flat _ (by simp [flat]) (by simp [KeysDistinct, Members.toList, s]) (Or.inl (noEarly_kindObj "dateTime" _ (by decide) (by simp [Members.toList, s])))
  | .coord a b, _ => by
    simp only [toJson, kindObj]
    exact ordOK_flat _ (by simp [flat]) (by simp [KeysDistinct, Members.toList, s]) (Or.inl (noEarly_kindObj "coord" _ (by decide) (by simp [Members.toList, s])))
  | .xstr _ _, _ => by
    simp only [toJson, kindObj]
    exact ordOK_flat _ (by simp [flat]) (by simp [KeysDistinct, Members.toList, s]) (Or.inl (noEarly_kindObj "xstr" _ (by decide) (by simp [Members.toList, s])))
  | .list xs, h => by
    simp only [toJson, OrdOK]
    exact ordOK_vals xs (by simpa [wfj] using h)
  | .dict d, h => by
    simp [wfj] at h
    simp only [toJson]
    exact ordOK_obj_tags d h.1 h.2 (ordOK_tags d h.1)
  | .grid (.some t) cols rows ver, h => by
    simp [wfj] at h
    simp only [toJson]
    exact ordOK_gridObj _ _ _
      (ordOK_obj_tags t h.1.1.1.1 h.1.1.1.2 (ordOK_tags t h.1.1.1.1))
      (by simp only [OrdOK]; exact ordOK_cols cols h.1.2)
      (by simp only [OrdOK]; exact ordOK_rows rows h.2)
  | .grid .none cols rows ver, h => by
    simp [wfj] at h
    simp only [toJson]
    exact ordOK_gridObj _ _ _
      (by simp [OrdOK, OrdOKm, KeysDistinct, Members.toList, NoEarlyKind])
      (by simp only [OrdOK]; exact ordOK_cols cols h.1)
      (by simp only [OrdOK]; exact ordOK_rows rows h.2)
theorem ordOK_vals : (vs : Vals) → wfjs vs = true → OrdOKs (listJson vs)
  | .nil, _ => by simp [listJson, OrdOKs]
  | .cons v vs, h => by
    simp [wfjs] at h
    simp only [listJson, OrdOKs]
    exact ⟨ordOK_val v h.1, ordOK_vals vs h.2⟩
theorem ordOK_tags : (t : Tags) → wfTags t = true → OrdOKm (tagsJson t)
  | .nil, _ => by simp [tagsJson, OrdOKm]
  | .cons k v t, h => by
    simp [wfTags] at h
    simp only [tagsJson, OrdOKm]
    exact ⟨ordOK_val v h.1.2, ordOK_tags t h.2⟩
theorem ordOK_cols : (c : Cols) → wfCols c = true → OrdOKs (colsJson c)
  | .nil, _ => by simp [colsJson, OrdOKs]
  | .cons n (.some t) c, h => by
    simp [wfCols] at h
    simp only [colsJson, OrdOKs]
    exact ⟨ordOK_col n _ (ordOK_obj_tags t h.1.1 h.1.2 (ordOK_tags t h.1.1)), ordOK_cols c h.2⟩
  | .cons n .none c, h => by
    simp [wfCols] at h
    simp only [colsJson, OrdOKs]
    exact ⟨ordOK_flat _ (by simp [flat]) (by simp [KeysDistinct, Members.toList]) (Or.inr (by simp [Members.toList])),
      ordOK_cols c h⟩
theorem ordOK_rows : (r : Rows) → wfRows r = true → OrdOKs (rowsJson r)
  | .nil, _ => by simp [rowsJson, OrdOKs]
  | .cons r rs, h => by
    simp [wfRows] at h
    simp only [rowsJson, OrdOKs]
    exact ⟨ordOK_obj_tags r h.1.1 h.1.2 (ordOK_tags r h.1.1), ordOK_rows rs h.2⟩
end

/-- **C02 ∘ C05 (order)**: the encoder's document of a well-formed value, with the members of any of its
objects at any depth in any order, decodes to the image of the value. -/
def C05_order_full : Prop :=
  ∀ v, WFj v → ∀ j', JPerm (toJson v) j' → fromJson j' = .ok (jImage v)

theorem C05_order : C05_order_full := by
  intro v hw j' hp
  rw [← fromJson_jperm (toJson v) j' (ordOK_val v hw) hp]
  exact C02_holds v hw


/-! ### non-vacuity of the deep statement -/

theorem JPerm.mk_arr {xs ys : Jsons} (h : JsPerm xs ys) : JPerm (.arr xs) (.arr ys) := by
  simp only [JPerm]; exact ⟨ys, rfl, h⟩
theorem JPerm.mk_obj {ms ms1 ms' : Members} (h1 : MsPerm ms ms1) (h2 : MPerm ms1 ms') :
    JPerm (.obj ms) (.obj ms') := by
  simp only [JPerm]; exact ⟨ms1, ms', rfl, h1, h2⟩
theorem JsPerm.mk_cons {x y : Json} {xs ys : Jsons} (h1 : JPerm x y) (h2 : JsPerm xs ys) :
    JsPerm (.cons x xs) (.cons y ys) := by
  simp only [JsPerm]; exact ⟨y, ys, rfl, h1, h2⟩
theorem MsPerm.mk_cons {k : List Char} {x y : Json} {xs ys : Members} (h1 : JPerm x y) (h2 : MsPerm xs ys) :
    MsPerm (.cons k x xs) (.cons k y ys) := by
  simp only [MsPerm]; exact ⟨y, ys, rfl, h1, h2⟩

mutual
theorem JPerm.refl : (j : Json) → JPerm j j
  | .null => by simp [JPerm]
  | .bool _ => by simp [JPerm]
  | .int _ _ => by simp [JPerm]
  | .flt _ => by simp [JPerm]
  | .str _ => by simp [JPerm]
  | .arr xs => JPerm.mk_arr (JsPerm.refl xs)
  | .obj ms => JPerm.mk_obj (MsPerm.refl ms) (List.Perm.refl _)
theorem JsPerm.refl : (js : Jsons) → JsPerm js js
  | .nil => by simp [JsPerm]
  | .cons j js => JsPerm.mk_cons (JPerm.refl j) (JsPerm.refl js)
theorem MsPerm.refl : (ms : Members) → MsPerm ms ms
  | .nil => by simp [MsPerm]
  | .cons _ j ms => MsPerm.mk_cons (JPerm.refl j) (MsPerm.refl ms)
end

/-- `[{a: @a "A", b: M}]` -/
def v0 : Val :=
  .list (.cons (.dict (.cons (s "a") (.ref (s "a") (some (s "A"))) (.cons (s "b") .marker .nil))) .nil)

/-- `[{"b":{"_kind":"marker"},"a":{"dis":"A","val":"a","_kind":"ref"}}]`: the encoder's document of `v0`
with the members of both the dict and the ref object reversed -/
def j0' : Json :=
  .arr (.cons (.obj
    (.cons (s "b") (.obj (.cons (s "_kind") (.str (s "marker")) .nil))
      (.cons (s "a") (.obj m_ref') .nil))) .nil)

example : WFj v0 ∧ JPerm (toJson v0) j0' := by
  refine ⟨by decide +kernel, ?_⟩
  simp only [v0, j0', toJson, listJson, tagsJson, kindObj]
  refine JPerm.mk_arr (JsPerm.mk_cons ?_ (JsPerm.refl _))
  refine JPerm.mk_obj
    (ms1 := .cons (s "a") (.obj m_ref') (.cons (s "b") (.obj (.cons (s "_kind") (.str (s "marker")) .nil)) .nil))
    (MsPerm.mk_cons ?_ (MsPerm.refl _)) ?_
  · refine JPerm.mk_obj (MsPerm.refl _) ?_
    show List.Perm m_ref.toList m_ref'.toList
    have : m_ref'.toList = m_ref.toList.reverse := rfl
    rw [this]
    exact (List.reverse_perm _).symm
  · exact List.Perm.swap _ _ _

end Hs.C05perm
