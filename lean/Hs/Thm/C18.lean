/-
  C18 — the C API is memory-safe under its ownership protocol and tolerates null.  PARTIAL by nature:
  memory safety of the Rust code itself is a runtime fact; it is *exercised* (counting allocator on
  every run, AddressSanitizer + LeakSanitizer in the thorough tier, every (function, pointer parameter)
  pair with null), not proved.  Proved here, about the models `Hs.COwn` (ownership bookkeeping) and
  `Hs.CApi.cstep` (decision logic of every function):

  * `no_double_free`, `no_use_after_free`, `no_leak`: a history that follows the documented protocol —
    stated over the history itself: every object is destroyed by its own destroy function, only while it
    has been handed out once and not yet destroyed; never passed after that; entry pointers are read only
    while nothing modified or destroyed their container since they were returned — is accepted by the
    allocator's view event by event, and if everything handed out was destroyed the live set is empty.
  * `null_is_error`: over the translated (function × pointer parameter) table: for every function of the
    inventory other than the two exempt destroy functions and every one of its pointer parameters, a null
    argument there ends on a failing path: the inventory's sentinel, an error recorded, handles unchanged.
  * `no_abort`: no call of the model ends in a panic that would cross `extern "C"`.
-/
import Hs.Lemmas.COwn
import Hs.Lemmas.CApiStep
import Hs.Lemmas.CApiTable
namespace Hs.C18
open Hs Hs.CApi Hs.COwn

/-! ## ownership -/

theorem allocs_reverse (o : Obj) (t : List Ev) : allocs o t.reverse = allocs o t := by
  simp [allocs, List.countP_reverse]

theorem frees_reverse (o : Obj) (t : List Ev) : frees o t.reverse = frees o t := by
  simp [frees, List.countP_reverse]

/-- a protocol-following history is accepted by the allocator's view, whatever its length -/
theorem protocol_accepted (t : List Ev) (hf : Follows [] t) :
    ∃ h, run Heap.empty t = .ok h ∧ Inv t.reverse h := by
  obtain ⟨h, hr, inv⟩ := run_ok t [] Heap.empty inv_empty hf
  exact ⟨h, hr, by simpa using inv⟩

def NoDoubleFree : Prop :=
  ∀ t : List Ev, Follows [] t →
    run Heap.empty t ≠ .error .doubleFree ∧ run Heap.empty t ≠ .error .wrongDestroy ∧
    run Heap.empty t ≠ .error .reissued

def NoUseAfterFree : Prop :=
  ∀ t : List Ev, Follows [] t →
    run Heap.empty t ≠ .error .useAfterFree ∧ run Heap.empty t ≠ .error .dangling

def NoLeak : Prop :=
  ∀ t : List Ev, Follows [] t → Complete t → ∃ h, run Heap.empty t = .ok h ∧ h.live = []

theorem no_double_free : NoDoubleFree := by
  intro t hf
  obtain ⟨h, hr, _⟩ := protocol_accepted t hf
  rw [hr]
  exact ⟨by simp, by simp, by simp⟩

theorem no_use_after_free : NoUseAfterFree := by
  intro t hf
  obtain ⟨h, hr, _⟩ := protocol_accepted t hf
  rw [hr]
  exact ⟨by simp, by simp⟩

theorem no_leak : NoLeak := by
  intro t hf hc
  obtain ⟨h, hr, inv⟩ := protocol_accepted t hf
  refine ⟨h, hr, ?_⟩
  apply List.eq_nil_iff_forall_not_mem.mpr
  intro o hm
  have := (inv.live_iff o).mp hm
  have hco := hc o
  rw [← allocs_reverse, ← frees_reverse] at hco
  rw [this.1, this.2] at hco
  cases hco

/-- what is still live after a protocol-following history is exactly what was handed out and not destroyed -/
theorem live_is_owned (t : List Ev) (hf : Follows [] t) :
    ∃ h, run Heap.empty t = .ok h ∧ ∀ o, o ∈ h.live ↔ (allocs o t = 1 ∧ frees o t = 0) := by
  obtain ⟨h, hr, inv⟩ := protocol_accepted t hf
  refine ⟨h, hr, fun o => ?_⟩
  rw [inv.live_iff o, Owned, allocs_reverse, frees_reverse]

/-! ## null arguments: over the translated (function × pointer parameter) table -/

open Gen.CApi in
def NullIsError : Prop :=
  ∀ (id : FnId) (i : Nat), i < (fnTable id).ptrParams.length →
    id ≠ .haystack_value_destroy → id ≠ .haystack_string_destroy →
    -- the function is modelled, with as many pointer parameters as the inventory lists
    (∃ op : COp, op.fnId = id ∧ op.nullFlags.length = (fnTable id).ptrParams.length) ∧
    -- and for every call of it with a null i-th pointer argument, on every state:
    ∀ (s : CState) (op : COp), op.fnId = id → op.nullFlags[i]? = some true →
      (cstep s op).2 = .fail op.sentinel ∧ toGen op.sentinel = (fnTable id).sentinel ∧
      (cstep s op).1.lastErr.isSome = true ∧ (cstep s op).1.pool = s.pool ∧ (cstep s op).1.fpool = s.fpool

theorem exempt_iff (op : COp) :
    op.isExemptDestroy = true ↔ (op.fnId = .haystack_value_destroy ∨ op.fnId = .haystack_string_destroy) := by
  cases op with
  | mk0 k => cases k <;> simp [COp.isExemptDestroy, COp.fnId, K0.fnId]
  | mk1 k _ => cases k <;> simp [COp.isExemptDestroy, COp.fnId, K1.fnId]
  | isKind k _ => cases k <;> simp [COp.isExemptDestroy, COp.fnId, Kind.fnId]
  | get g _ => cases g <;> simp [COp.isExemptDestroy, COp.fnId, Getter.fnId]
  | _ => simp [COp.isExemptDestroy, COp.fnId]

theorem null_is_error : NullIsError := by
  intro id i hi h1 h2
  refine ⟨⟨opOf id, inventory_covered id, ?_⟩, ?_⟩
  · have := ptr_table (opOf id)
    rw [COp.row, inventory_covered id] at this
    exact this.symm
  · intro s op hop hnull
    have hex : op.isExemptDestroy = false := by
      cases hx : op.isExemptDestroy with
      | false => rfl
      | true =>
        rcases (exempt_iff op).mp hx with h | h
        · exact absurd (hop ▸ h) h1
        · exact absurd (hop ▸ h) h2
    have hany : op.nullFlags.any _root_.id = true := by
      rw [List.any_eq_true]
      exact ⟨true, List.mem_of_getElem? hnull, rfl⟩
    obtain ⟨e, he⟩ := cexec_null (s := s) hex hany
    have hs := cstep_of_err he
    have hsen := sentinel_table op
    rw [COp.row, hop] at hsen
    rw [hs]
    exact ⟨rfl, hsen.symm, rfl, rfl, rfl⟩

/-! ## no abort -/

def NoAbort : Prop :=
  (∀ (s : CState) (op : COp), (cstep s op).2 ≠ .abort) ∧
  (∀ (ops : List COp) (s : CState), ∀ r ∈ (crun s ops).2, r ≠ .abort)

theorem no_abort_step (s : CState) (op : COp) : (cstep s op).2 ≠ .abort := by
  rcases cstep_cases s op with ⟨s', r, _, hs⟩ | ⟨e, _, hs⟩ <;> rw [hs] <;> simp

theorem no_abort : NoAbort := by
  refine ⟨no_abort_step, ?_⟩
  intro ops
  induction ops with
  | nil => intro s r hr; simp [crun] at hr
  | cons op ops ih =>
    intro s r hr
    simp only [crun, List.mem_cons] at hr
    rcases hr with hr | hr
    · rw [hr]; exact no_abort_step s op
    · exact ih _ r hr

/-! ## the property (the part that is logic) -/

/-- the bookkeeping and decision-logic clauses of C18.  Not included, because it is not a statement about
a model: that the compiled Rust code frees what `Box::from_raw` / `CString::from_raw` are given and touches
no other memory — exercised by the allocator / sanitizer runs of the harness. -/
def C18_partial : Prop := NoDoubleFree ∧ NoUseAfterFree ∧ NoLeak ∧ NullIsError ∧ NoAbort

theorem C18_partial_holds : C18_partial :=
  ⟨no_double_free, no_use_after_free, no_leak, null_is_error, no_abort⟩

/-! ## non-vacuity -/

/-- a history that follows the protocol and is complete: make a list and an entry, push, read an entry
pointer, get a string, destroy everything once -/
def exTrace : List Ev :=
  [.alloc (vobj 0), .alloc (vobj 1), .use (vobj 0), .use (vobj 1), .mutate (vobj 0),
   .use (vobj 0), .borrow 0 (vobj 0), .deref 0, .use (vobj 1), .alloc (sobj 0),
   .free .str (sobj 0), .free .val (vobj 1), .free .val (vobj 0)]

example : run Heap.empty exTrace = .ok { live := [], borrows := [] } := by rfl
example : Complete [Ev.alloc (vobj 0), .use (vobj 0), .free .val (vobj 0)] := by
  intro o
  by_cases h : vobj 0 = o <;> simp [allocs, frees, isAlloc, isFree, h]
example : Follows [] [Ev.alloc (vobj 0), .use (vobj 0), .borrow 0 (vobj 0), .deref 0, .free .val (vobj 0)] := by
  refine ⟨?_, ?_, ?_, ?_, ?_, trivial⟩
  · simp [Pre, allocs]
  · simp [Pre, Owned, allocs, frees, isAlloc, isFree]
  · simp [Pre, Owned, allocs, frees, isAlloc, isFree]
  · exact ⟨vobj 0, [], _, rfl, by simp⟩
  · simp [Pre, Owned, allocs, frees, isAlloc, isFree, vobj]
/-- the allocator's view does flag what the protocol forbids -/
example : run Heap.empty [.alloc (vobj 0), .free .val (vobj 0), .free .val (vobj 0)] = .error .doubleFree := by rfl
example : run Heap.empty [.alloc (vobj 0), .free .val (vobj 0), .use (vobj 0)] = .error .useAfterFree := by rfl
example : run Heap.empty [.alloc (vobj 0), .borrow 0 (vobj 0), .mutate (vobj 0), .deref 0] = .error .dangling := by rfl
/-- a (function, pointer parameter) pair of the table and a call with null there -/
example : (1 : Nat) < (Gen.CApi.fnTable .haystack_value_push_list_entry).ptrParams.length := by decide
example : (COp.lpush (some 0) none).nullFlags[1]? = some true := rfl

end Hs.C18
