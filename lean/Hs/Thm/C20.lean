/-
  C20 — display names follow the documented precedence and macro substitution.

  Statements are about the model `Hs.Model.Dis` of `dict_to_dis` / `HaystackDict::dis`
  (src/haystack/val/dict.rs) and `dis_macro` / `DisReplacer` (src/haystack/val/dis_macro.rs).
  They quantify over ALL records (any tags, values of any kind), all localisation functions,
  all defaults and all pattern texts (`List Char` = every Unicode string), with no bound on size.
  The precedence chain, the block shapes, the regex classes and quantifiers are the ones
  translated from the current sources (`Hs.Gen.Dis`); the model is tied to the code and to the
  real `regex` crate by the correspondence check (`dis` / `mac` requests).
-/
import Hs.Lemmas.Dis
namespace Hs.C20
open Hs Hs.Dis

/-! ### precedence -/

/-- the display tags in the documented order of precedence -/
def documentedTags : List String := ["dis", "disMacro", "disKey", "name", "def", "tag", "navName", "id"]

/-- what the property says the display string is when `t` is the first display tag the record has,
with value `v`: a `disMacro` pattern is expanded, a `disKey` is localised when a localisation exists,
an `id` Ref shows its `dis` (or else its id), a Str shows itself, any other value its display text. -/
def specText (r : Rec) (loc : Loc) (t : String) (v : DVal) : Res (List Char) :=
  if t = "disMacro" then
    match v with
    | .str s => disMacro r loc s
    | _ => .ok v.text
  else if t = "disKey" then
    match v with
    | .str s => .ok ((loc s).getD s)
    | _ => .ok v.text
  else if t = "id" then .ok v.macroText
  else .ok v.text

/-- table theorem: the if-chain of `dict_to_dis`, as translated from the current source, tests
exactly the documented tags in the documented order -/
theorem chain_documented : Gen.Dis.chain.map Prod.fst = documentedTags := by decide

/-- table theorem: every block of the chain computes what the property says for its tag -/
theorem chain_blocks (r : Rec) (loc : Loc) (v : DVal) :
    ∀ e ∈ Gen.Dis.chain, blockText r loc e.2 v = specText r loc e.1 v := by
  intro e he
  simp only [Gen.Dis.chain, List.mem_cons, List.not_mem_nil, or_false] at he
  rcases he with rfl | rfl | rfl | rfl | rfl | rfl | rfl | rfl <;>
    cases v <;> simp [blockText, specText, DVal.text, DVal.macroText] <;>
    (rename_i s; cases loc s <;> simp)

/-- **precedence**: the display string comes from the FIRST of the documented tags that the
record has — whatever else the record contains, whatever the kinds of the values -/
theorem dis_precedence (r : Rec) (loc : Loc) (dflt : Option (List Char))
    (pre post : List String) (t : String) (v : DVal)
    (hsplit : documentedTags = pre ++ t :: post)
    (hpre : ∀ p ∈ pre, r.get p.toList = none) (hv : r.get t.toList = some v) :
    dictToDis r loc dflt = specText r loc t v := by
  have hc := chain_documented
  rw [hsplit] at hc
  obtain ⟨cpre, crest, hchain, hmpre, hmrest⟩ := List.map_eq_append_iff.1 hc
  obtain ⟨e, cpost, hrest, he, _⟩ := List.map_eq_cons_iff.1 hmrest
  obtain ⟨t', sh⟩ := e
  simp only at he
  subst he
  subst hrest
  have hp : ∀ e ∈ cpre, r.get e.1.toList = none := by
    intro e he
    exact hpre e.1 (by rw [← hmpre]; exact List.mem_map.2 ⟨e, he, rfl⟩)
  have hmem : (t', sh) ∈ Gen.Dis.chain := by rw [hchain]; simp
  simp only [dictToDis, dictToDisWith, hchain, firstPresent_split r cpre cpost t' sh v hp hv]
  exact chain_blocks r loc v (t', sh) hmem

/-- … and the default (or the empty string) when it has none of them -/
theorem dis_default (r : Rec) (loc : Loc) (dflt : Option (List Char))
    (h : ∀ t ∈ documentedTags, r.get t.toList = none) :
    dictToDis r loc dflt = .ok (dflt.getD []) := by
  have hp : ∀ e ∈ Gen.Dis.chain, r.get e.1.toList = none := by
    intro e he
    exact h e.1 (by rw [← chain_documented]; exact List.mem_map.2 ⟨e, he, rfl⟩)
  simp only [dictToDis, dictToDisWith, firstPresent_none r _ hp]

/-! ### macro substitution -/

/-- **totality**: substitution terminates and never panics, for every record, localisation and
pattern (the matcher is a total function; the fuel `fuelFor` suffices for every text) -/
theorem macro_total (r : Rec) (loc : Loc) (s : List Char) : ∃ out, disMacro r loc s = .ok out := by
  obtain ⟨segs, _, h⟩ := disMacro_eq r loc s
  exact ⟨_, h⟩

/-- **identity**: text without a `$` is returned unchanged -/
theorem macro_id_without_dollar (r : Rec) (loc : Loc) (s : List Char) (h : '$' ∉ s) :
    disMacro r loc s = .ok s := by
  obtain ⟨segs, hs, hd⟩ := disMacro_eq r loc s
  rw [hd, segm_unique hs (segm_no_dollar s h), render_lits]

/-- what a match at a `$` is (`rest` = the text after the `$`): leftmost-first over the three
alternatives, each characterised declaratively (`IsTag`: `$name` with the longest possible name,
`IsBrace`: `${name}`, `IsKey`: `$<key>` with `key` free of the closer) -/
theorem match_spec (rest : List Char) (t : Tok) (after : List Char) :
    matchAt rest = some (t, after) ↔
      (∃ n, t = .tag n ∧ IsTag rest n after) ∨
      ((¬ ∃ n a, IsTag rest n a) ∧ ∃ n, t = .brace n ∧ IsBrace rest n after) ∨
      ((¬ ∃ n a, IsTag rest n a) ∧ (¬ ∃ n a, IsBrace rest n a) ∧ ∃ k, t = .key k ∧ IsKey rest k after) := by
  have n1 : alt1 rest = none ↔ ¬ ∃ n a, IsTag rest n a := by
    constructor
    · rintro h ⟨n, a, hn⟩
      have := (alt1_iff rest (.tag n) a).2 ⟨n, rfl, hn⟩
      rw [h] at this; cases this
    · intro h
      cases hm : alt1 rest with
      | none => rfl
      | some m =>
        obtain ⟨t', a⟩ := m
        obtain ⟨n, _, hn⟩ := (alt1_iff rest t' a).1 hm
        exact absurd ⟨n, a, hn⟩ h
  have n2 : alt2 rest = none ↔ ¬ ∃ n a, IsBrace rest n a := by
    constructor
    · rintro h ⟨n, a, hn⟩
      have := (alt2_iff rest (.brace n) a).2 ⟨n, rfl, hn⟩
      rw [h] at this; cases this
    · intro h
      cases hm : alt2 rest with
      | none => rfl
      | some m =>
        obtain ⟨t', a⟩ := m
        obtain ⟨n, _, hn⟩ := (alt2_iff rest t' a).1 hm
        exact absurd ⟨n, a, hn⟩ h
  rw [← alt1_iff, ← alt2_iff, ← alt3_iff, ← n1, ← n2]
  constructor
  · exact matchAt_cases
  · rintro (h | ⟨h1, h⟩ | ⟨h1, h2, h⟩)
    · simp [matchAt, h]
    · simp [matchAt, h1, h]
    · simp [matchAt, h1, h2, h]

/-- Haystack tag names: an ASCII lower-case letter, then ASCII letters, digits or `_` (code points) -/
def tagStart (c : Char) : Bool := 97 ≤ c.toNat && c.toNat ≤ 122
def tagChar (c : Char) : Bool :=
  (97 ≤ c.toNat && c.toNat ≤ 122) || (65 ≤ c.toNat && c.toNat ≤ 90) || (48 ≤ c.toNat && c.toNat ≤ 57) || c.toNat == 95
def IsTagName (n : List Char) : Prop := ∃ c run, n = c :: run ∧ tagStart c = true ∧ ∀ x ∈ run, tagChar x = true

/-- table theorem: the identifier classes and quantifiers of the regex, as translated from the
current source, are exactly the Haystack tag-name grammar `[a-z][a-zA-Z0-9_]*` (one-letter names
included), and the key is closed by `>` -/
theorem macro_tag_grammar :
    (∀ c, isHead1 c = tagStart c ∧ isHead2 c = tagStart c ∧ isTail1 c = tagChar c ∧ isTail2 c = tagChar c) ∧
    Gen.Dis.tailMin1 = 0 ∧ Gen.Dis.tailMin2 = 0 ∧ Gen.Dis.keyMin = 1 ∧ keyStop = '>' := by
  refine ⟨fun c => ⟨?_, ?_, ?_, ?_⟩, by decide, by decide, by decide, by decide⟩ <;>
  -- whatever order the ranges are listed in: both sides are propositional combinations of bounds on `c.toNat`
  · rw [Bool.eq_iff_iff]
    simp [isHead1, isHead2, isTail1, isTail2, inRanges, Gen.Dis.head1, Gen.Dis.head2, Gen.Dis.tail1, Gen.Dis.tail2,
      tagStart, tagChar]
    try omega

/-- every `$name` with `name` a tag name (taken as long as possible) is a match … -/
theorem tag_macro_matches (n after : List Char) (hn : IsTagName n)
    (hmax : ∀ x, after.head? = some x → tagChar x = false) :
    matchAt (n ++ after) = some (.tag n, after) := by
  obtain ⟨hcls, h1, _, _, _⟩ := macro_tag_grammar
  obtain ⟨c, run, rfl, hc, hrun⟩ := hn
  apply (match_spec _ _ _).2
  left
  refine ⟨c :: run, rfl, rfl, ⟨c, run, rfl, ?_, ?_, ?_⟩, ?_⟩
  · rw [(hcls c).1]; exact hc
  · intro x hx; rw [(hcls x).2.2.1]; exact hrun x hx
  · rw [h1]; exact Nat.zero_le _
  · intro x hx; rw [(hcls x).2.2.1]; exact hmax x hx

/-- … every `${name}` with `name` a tag name is a match … -/
theorem brace_macro_matches (n after : List Char) (hn : IsTagName n) :
    matchAt ('{' :: (n ++ '}' :: after)) = some (.brace n, after) := by
  obtain ⟨hcls, _, h2, _, _⟩ := macro_tag_grammar
  obtain ⟨c, run, rfl, hc, hrun⟩ := hn
  apply (match_spec _ _ _).2
  right; left
  refine ⟨?_, c :: run, rfl, rfl, ⟨c, run, rfl, ?_, ?_, ?_⟩⟩
  · rintro ⟨n', a', hsplit, ⟨c', run', rfl, hc', _⟩, _⟩
    simp only [List.cons_append, List.cons.injEq] at hsplit
    rw [← hsplit.1, (hcls '{').1] at hc'
    revert hc'; decide
  · rw [(hcls c).2.1]; exact hc
  · intro x hx; rw [(hcls x).2.2.2]; exact hrun x hx
  · rw [h2]; exact Nat.zero_le _

/-- … and every `$<key>` with a non-empty key free of `>` is a match -/
theorem key_macro_matches (k after : List Char) (hk : k ≠ []) (hfree : '>' ∉ k) :
    matchAt ('<' :: (k ++ '>' :: after)) = some (.key k, after) := by
  obtain ⟨hcls, _, _, h3, hstop⟩ := macro_tag_grammar
  apply (match_spec _ _ _).2
  right; right
  refine ⟨?_, ?_, k, rfl, ?_, ?_, ?_⟩
  · rintro ⟨n', a', hsplit, ⟨c', run', rfl, hc', _⟩, _⟩
    simp only [List.cons_append, List.cons.injEq] at hsplit
    rw [← hsplit.1, (hcls '<').1] at hc'
    revert hc'; decide
  · rintro ⟨n', a', hsplit, _⟩
    simp only [List.cons.injEq] at hsplit
    exact absurd hsplit.1 (by decide)
  · rw [hstop]
  · intro x hx e; rw [hstop] at e; exact hfree (e ▸ hx)
  · rw [h3]; cases k with
    | nil => exact absurd rfl hk
    | cons _ _ => simp

/-- what a match is replaced by: the tag's display text / the key's localisation when it exists,
the matched text verbatim otherwise -/
theorem replace_spec (r : Rec) (loc : Loc) :
    (∀ n v, r.get n = some v → replace r loc (.tag n) = v.macroText ∧ replace r loc (.brace n) = v.macroText) ∧
    (∀ n, r.get n = none → replace r loc (.tag n) = (Tok.tag n).text ∧ replace r loc (.brace n) = (Tok.brace n).text) ∧
    (∀ k x, loc k = some x → replace r loc (.key k) = x) ∧
    (∀ k, loc k = none → replace r loc (.key k) = (Tok.key k).text) := by
  refine ⟨?_, ?_, ?_, ?_⟩
  · intro n v h; simp [replace, h]
  · intro n h; simp [replace, h]
  · intro k x h; simp [replace, h]
  · intro k h; simp [replace, h]

/-- **substitution**: every pattern splits — in exactly one way — into literal characters and
matches such that (1) the pieces concatenate to the pattern (the whole input is consumed, nothing
is dropped or duplicated), (2) the pieces are the leftmost non-overlapping matches: a `$` at which
some alternative matches (`match_spec`) always starts a match, and a literal `$` is one at which
none does (`Segm`), (3) the output is the concatenation of the literal characters, copied
verbatim, and of the replacements of the matches (`replace_spec`) -/
theorem macro_spec (r : Rec) (loc : Loc) (s : List Char) :
    ∃ segs, Segm s segs ∧ (∀ segs', Segm s segs' → segs' = segs) ∧ srcOf segs = s ∧
      disMacro r loc s = .ok (render r loc segs) := by
  obtain ⟨segs, hs, hd⟩ := disMacro_eq r loc s
  exact ⟨segs, hs, fun _ h' => segm_unique h' hs, segm_src hs, hd⟩

/-- The property at full strength. -/
def C20_full : Prop :=
  (∀ (r : Rec) (loc : Loc) (dflt : Option (List Char)),
    (∀ pre post t v, documentedTags = pre ++ t :: post → (∀ p ∈ pre, r.get p.toList = none) →
        r.get t.toList = some v → dictToDis r loc dflt = specText r loc t v) ∧
    ((∀ t ∈ documentedTags, r.get t.toList = none) → dictToDis r loc dflt = .ok (dflt.getD []))) ∧
  (∀ (r : Rec) (loc : Loc) (s : List Char),
    (∃ segs, Segm s segs ∧ srcOf segs = s ∧ disMacro r loc s = .ok (render r loc segs)) ∧
    ('$' ∉ s → disMacro r loc s = .ok s)) ∧
  (∀ n after : List Char,
    (IsTagName n → (∀ x, after.head? = some x → tagChar x = false) → matchAt (n ++ after) = some (.tag n, after)) ∧
    (IsTagName n → matchAt ('{' :: (n ++ '}' :: after)) = some (.brace n, after)) ∧
    (n ≠ [] → '>' ∉ n → matchAt ('<' :: (n ++ '>' :: after)) = some (.key n, after)))

theorem C20_holds : C20_full :=
  ⟨fun r loc dflt => ⟨fun pre post t v h1 h2 h3 => dis_precedence r loc dflt pre post t v h1 h2 h3,
      dis_default r loc dflt⟩,
   fun r loc s => ⟨by
      obtain ⟨segs, h1, _, h3, h4⟩ := macro_spec r loc s
      exact ⟨segs, h1, h3, h4⟩, macro_id_without_dollar r loc s⟩,
   fun n after => ⟨tag_macro_matches n after, brace_macro_matches n after, key_macro_matches n after⟩⟩

/-! ### non-vacuity: concrete inputs satisfying the hypotheses -/

/-- `name` wins over `navName` and `id` when `dis`, `disMacro`, `disKey` are absent -/
example : dictToDis [("id".toList, .ref "x".toList none "@x".toList), ("name".toList, .str "n".toList),
      ("navName".toList, .str "v".toList)] (fun _ => none) none = .ok "n".toList :=
  dis_precedence _ _ _ ["dis", "disMacro", "disKey"] ["def", "tag", "navName", "id"] "name" (.str "n".toList)
    rfl (by decide) (by decide)

example : disMacro [] (fun _ => none) "a {b} <c> é".toList = .ok "a {b} <c> é".toList :=
  macro_id_without_dollar _ _ _ (by decide)

/-- a one-letter tag name is a tag name -/
example : matchAt "a b".toList = some (.tag "a".toList, " b".toList) :=
  tag_macro_matches "a".toList " b".toList ⟨'a', [], rfl, by decide, by simp⟩ (by decide)

/-- a pattern with all three forms, one of them unresolved -/
example : disMacro [("ab".toList, .str "X".toList), ("cd".toList, .ref "i".toList (some "D".toList) "@i".toList)]
    (fun k => if k = "k".toList then some "L".toList else none) "$ab-${cd} $<k> $<q> $zz$".toList
    = .ok "X-D L $<q> $zz$".toList := by decide

end Hs.C20
