/-
  C05 — Hayson JSON conforms to the Project Haystack JSON encoding in both directions.

  The specification is written down twice, independently of libhaystack's code:
  * as a RELATION, `Hs.Spec.Hayson.Denotes w doc` (Spec/HaysonDenote.lean): which JSON trees are Hayson
    documents of which value — `_kind` tags and field names per kind, plain JSON for null/bool/string/
    unit-less number/list/dict, the members of every object in any order, optional members present or
    absent, number tokens of either lexical class (integer; decimal/exponent);
  * as PROGRAMS: the reference reader `Hs.Spec.Hayson.readDoc` (Lean; members looked up by name) and the
    reference writer harness/src/jspell.rs (Rust; random member order, optional members, number
    spellings), which exchange documents with the library on every run.

  Theorems here (all about the tree-level model `Hs.Hayson.toJson` / `fromJson` of the library's serde
  (de)serialisers):
  * READ direction, `C05_read_holds`: every Hayson document of a value — any member order at any depth,
    `_kind` anywhere, every optional member present or absent, integer or decimal/exponent number tokens —
    is decoded to exactly that value.
  * WRITE direction, `C05_write_holds`: the encoder's document of a well-formed value is a Hayson document
    of that value (of its image `Hs.C02.jImage`), so the read theorem is not vacuous and C02 is a corollary.
  * REFERENCE READER vs relation vs decoder, `C05_reader_agrees`: on every Hayson document (`Denotes`) the
    reference reader — with the fuel `readDoc` gives it — and the library's decoder give the same value
    (the reader represents an empty grid/column meta as an absent one: `readerImage`).
    Hence `C05_writer_conforms`: the reference reader reads the encoder's document of EVERY well-formed value,
    of any kind and nesting, as the value (the `writer_conforms_*` representatives below are instances).
  * the reference reader is order independent by construction (`lookup_perm`); it is more lenient than
    `Denotes` (`readDoc_lenient`), which is why the read direction is stated with the relation and not as
    "whatever `readDoc` accepts".
  Order independence of the visitor alone, under its exact hypotheses, is `Hs.C05perm` (Thm/C05perm.lean).
-/
import Hs.Spec.HaysonRead
import Hs.Lemmas.HaysonRead4
import Hs.Lemmas.HaysonRead5
import Hs.Lemmas.HaysonReadRef4
namespace Hs.C05
open Hs Hs.Hayson Hs.Spec.Hayson Hs.C02

/-- `find?` for a key that occurs at most once does not depend on the order of the list -/
theorem find_key_perm {α : Type} {l₁ l₂ : List (List Char × α)} (h : l₁.Perm l₂)
    (nd : (l₁.map (·.1)).Nodup) (k : List Char) :
    l₁.find? (fun p => p.1 == k) = l₂.find? (fun p => p.1 == k) := by
  induction h with
  | nil => rfl
  | cons x _ ih =>
    simp only [List.map_cons, List.nodup_cons] at nd
    simp only [List.find?_cons]
    split
    · rfl
    · exact ih nd.2
  | swap x y l =>
    simp only [List.map_cons, List.nodup_cons, List.mem_cons, not_or] at nd
    simp only [List.find?_cons]
    by_cases hx : (x.1 == k) = true <;> by_cases hy : (y.1 == k) = true <;> simp [hx, hy]
    -- both match: the keys would be equal, contradicting distinctness
    have : y.1 = x.1 := by
      have h1 : x.1 = k := by simpa using hx
      have h2 : y.1 = k := by simpa using hy
      rw [h1, h2]
    exact absurd this nd.1.1
  | trans h₁ _ ih₁ ih₂ =>
    rw [ih₁ nd]
    exact ih₂ ((h₁.map (·.1)).nodup_iff.1 nd)

/-- member lookup by name is independent of member order (distinct names) -/
theorem lookup_perm {l₁ l₂ : List (List Char × Json)} (h : l₁.Perm l₂)
    (nd : (l₁.map (·.1)).Nodup) (k : String) : lookup l₁ k = lookup l₂ k := by
  unfold lookup
  have hr : l₁.reverse.Perm l₂.reverse := (List.reverse_perm l₁).trans (h.trans (List.reverse_perm l₂).symm)
  have ndr : (l₁.reverse.map (·.1)).Nodup := by
    rw [List.map_reverse]; exact (List.reverse_perm (l₁.map (·.1))).nodup_iff.2 nd
  rw [find_key_perm hr ndr]

def okIs (r : Option Val) (p : Val → Bool) : Bool :=
  match r with
  | some v => p v
  | none => false

/-- write direction, one representative per kind that has no recursive payload: the reference reader
reads the encoder model's document as the value (kinds, `_kind` tags and field names agree) -/
theorem writer_conforms_scalars :
    okIs (readDoc (toJson .null)) (fun v => match v with | .null => true | _ => false) = true ∧
    okIs (readDoc (toJson .marker)) (fun v => match v with | .marker => true | _ => false) = true ∧
    okIs (readDoc (toJson .remove)) (fun v => match v with | .remove => true | _ => false) = true ∧
    okIs (readDoc (toJson .na)) (fun v => match v with | .na => true | _ => false) = true ∧
    okIs (readDoc (toJson (.bool true))) (fun v => match v with | .bool b => b | _ => false) = true ∧
    okIs (readDoc (toJson (.ref ['a'] (some ['b'])))) (fun v => match v with
      | .ref i (some d) => i == ['a'] && d == ['b'] | _ => false) = true ∧
    okIs (readDoc (toJson (.uri ['u']))) (fun v => match v with | .uri x => x == ['u'] | _ => false) = true ∧
    okIs (readDoc (toJson (.sym ['s']))) (fun v => match v with | .sym x => x == ['s'] | _ => false) = true ∧
    okIs (readDoc (toJson (.xstr ['T'] ['v']))) (fun v => match v with
      | .xstr t x => t == ['T'] && x == ['v'] | _ => false) = true ∧
    okIs (readDoc (toJson (.coord (mkFlt 0x3FF0000000000000 "1") (mkFlt 0x4000000000000000 "2")))) (fun v => match v with
      | .coord a b => a.bits == 0x3FF0000000000000 && b.bits == 0x4000000000000000 | _ => false) = true ∧
    okIs (readDoc (toJson (.num { v := mkFlt 0x7FF8000000000000 "NaN", unit := none }))) (fun v => match v with
      | .num n => isNaN n.v | _ => false) = true ∧
    okIs (readDoc (toJson (.num { v := mkFlt 0xFFF0000000000000 "-inf", unit := none }))) (fun v => match v with
      | .num n => isInf n.v && isNeg n.v | _ => false) = true := by
  decide +kernel

/-- strings of every content are plain JSON strings for both sides -/
theorem writer_conforms_str (x : List Char) : readDoc (toJson (.str x)) = some (.str x) := by
  simp [toJson, readDoc, size, Hs.Spec.Hayson.read]

/-! ## Read direction: every Hayson document of a value is decoded to that value

`Denotes w doc` (Spec/HaysonDenote.lean) grants, for every object at any depth, any member order
(`_kind` first, in the middle or last), and

| optional member | absent | present |
|---|---|---|
| `unit` of a number | unit-less | any id of a database unit; the number carries the unit's symbol |
| the `{"_kind":"number",…}` object around a unit-less finite number | bare number token | object |
| `dis` of a ref | `dis = none` | `dis = some …` |
| `tz` of a dateTime | zone absent (`lexDateTime x none`) | zone name (`lexDateTime x (some z)`) |
| `"_kind":"dict"` of a dict, a grid meta, a column meta, a row | same dict | same dict |
| `meta` of a grid | no meta, version 3.0 | meta tags (without `ver`) |
| `ver` in a grid meta | version 3.0 | that version |
| `meta` of a column | no meta | meta tags |

and number tokens of either lexical class: `.int i f` (an integer lexeme such as `1`) and `.flt f`
(a decimal or exponent lexeme such as `1.0`, `1e0`) denote the double `f` the lexeme converts to — the
decoded number carries exactly that `f` (bit pattern and text), whatever the class and whatever `i`;
`"INF"`, `"-INF"`, `"NaN"` denote `+∞`, `−∞` and the canonical quiet NaN.  (Which double a lexeme converts
to is serde_json's text layer, outside the model: trusted base.) -/

/-- The read direction at full strength. -/
def C05_read_full : Prop :=
  ∀ (w : Val) (doc : Json), Denotes w doc → fromJson doc = .ok w

/-- **C05 read direction for the model**: proved in full, by induction on the derivation of `Denotes`
(Lemmas/HaysonRead1–3; the member order is discharged once, by `fromJson_obj_of_perm`). -/
theorem C05_read_holds : C05_read_full := fun _ _ h => read_denotes h

/-- The write direction against the same relation: the encoder's document IS a Hayson document of the
value (`jImage`: what the document says — dates/times/timestamps as texts, canonical NaN, `0` for a
unit-less `-0.0`, the empty meta the encoder writes for an absent one, version 3.0). -/
def C05_write_full (WF : Val → Prop) : Prop :=
  ∀ v, WF v → Denotes (jImage v) (toJson v)

/-- **C05 write direction for the model** (and non-vacuity of `C05_read_holds`: for every well-formed
value there is a document satisfying its hypothesis) -/
theorem C05_write_holds : C05_write_full WFj := fun v h => denotes_val v h

/-- The property at full strength for the model: both directions against the one relation. -/
def C05_full (WF : Val → Prop) : Prop := C05_write_full WF ∧ C05_read_full

theorem C05_holds : C05_full WFj := ⟨C05_write_holds, C05_read_holds⟩

/-- C02 (`fromJson (toJson v) = ok (jImage v)`) is the composition of the two directions -/
theorem C05_roundtrip (v : Val) (h : WFj v) : fromJson (toJson v) = .ok (jImage v) :=
  C05_read_holds _ _ (C05_write_holds v h)

/-- the side condition of `Denotes` on dicts (tags listed in ascending key order, as a `BTreeMap` holds them)
excludes no document: EVERY object with pairwise distinct member names, none of them `_kind`, whose member
values are Hayson documents is a Hayson document of a dict — hence decoded to it -/
theorem dict_objects_covered (ms : Members) (hd : (ms.toList.map (·.1)).Nodup)
    (hk : ∀ p ∈ ms.toList, p.1 ≠ s "_kind") (hv : ∀ p ∈ ms.toList, ∃ w, Denotes w p.2) :
    ∃ t : Tags, Denotes (.dict t) (.obj ms) ∧ fromJson (.obj ms) = .ok (.dict t) := by
  obtain ⟨t, h⟩ := denotes_dict_exists ms hd hk hv
  exact ⟨t, h, C05_read_holds _ _ h⟩

/-- the relation is unambiguous: a document is a Hayson document of at most one value -/
theorem denotes_unique {w w' : Val} {doc : Json} (h : Denotes w doc) (h' : Denotes w' doc) : w = w' := by
  have e := (C05_read_holds w doc h).symm.trans (C05_read_holds w' doc h')
  exact Res.ok.inj e

/-- number spellings: an integer token and a decimal/exponent token of the same double are decoded alike,
bare … -/
theorem read_number_spelling (i : Int) (f : Flt) : fromJson (.int i f) = fromJson (.flt f) := by
  simp [fromJson]

/-- … and as the `val` of a number object or `lat`/`lng` of a coord, in any member order, with or without
unit: two documents that differ only in the spelling of number tokens denote the same value -/
theorem denotes_respell {f : Flt} {j j' : Json} {u : Option (List Char)} {um : Mems} {ms ms' : Members}
    (hj : NumTok f j) (hj' : NumTok f j') (hu : OptUnit u um)
    (hp : ms.toList.Perm (kindMem "number" :: (s "val", j) :: um))
    (hp' : ms'.toList.Perm (kindMem "number" :: (s "val", j') :: um)) :
    fromJson (.obj ms) = fromJson (.obj ms') := by
  rw [C05_read_holds _ _ (.number (.tok hj) hu hp), C05_read_holds _ _ (.number (.tok hj') hu hp')]

/-! ### non-canonical documents (none of them is what the encoder writes) -/

def f64_1 : Flt := { bits := 0x3FF0000000000000, txt := ['1'] }
def f64_half : Flt := { bits := 0x3FE0000000000000, txt := "0.5".toList }

/-- `{"val":"a","_kind":"ref"}`: `_kind` last, `dis` omitted -/
example : Denotes (.ref (s "a") none)
    (.obj (.cons (s "val") (.str (s "a")) (.cons (s "_kind") (.str (s "ref")) .nil))) :=
  .ref .absent (List.Perm.swap _ _ _)

/-- `{"val":"a","_kind":"ref","dis":"A"}`: `_kind` in the middle, `dis` present -/
example : fromJson (.obj (.cons (s "val") (.str (s "a")) (.cons (s "_kind") (.str (s "ref"))
    (.cons (s "dis") (.str (s "A")) .nil)))) = .ok (.ref (s "a") (some (s "A"))) :=
  C05_read_holds _ _ (.ref (.present _) (List.Perm.swap _ _ _))

/-- `{"unit":"meter","val":1,"_kind":"number"}` and `{"val":1.0,"unit":"m","_kind":"number"}`: integer and
decimal spelling, unit given by name and by symbol, `_kind` last — both are `1 m` -/
example :
    fromJson (.obj (.cons (s "unit") (.str (s "meter")) (.cons (s "val") (.int 1 f64_1)
      (.cons (s "_kind") (.str (s "number")) .nil)))) = .ok (.num { v := f64_1, unit := some (s "m") }) ∧
    fromJson (.obj (.cons (s "val") (.flt f64_1) (.cons (s "unit") (.str (s "m"))
      (.cons (s "_kind") (.str (s "number")) .nil)))) = .ok (.num { v := f64_1, unit := some (s "m") }) := by
  constructor
  · refine C05_read_holds _ _ (.number (.tok (.int 1 _)) (.present (s "meter") (s "m") (by decide +kernel)) ?_)
    exact (List.reverse_perm _).symm
  · refine C05_read_holds _ _ (.number (.tok (.flt _)) (.present (s "m") (s "m") (by decide +kernel)) ?_)
    exact List.perm_append_comm (l₁ := [(s "val", .flt f64_1), (s "unit", .str (s "m"))]) (l₂ := [kindMem "number"])

/-- a unit-less finite number as `1`, as `1.0`/`1e0`, and as `{"val":1e0,"_kind":"number"}` (unit omitted) -/
example :
    fromJson (.int 1 f64_1) = .ok (.num { v := f64_1, unit := none }) ∧
    fromJson (.flt f64_1) = .ok (.num { v := f64_1, unit := none }) ∧
    fromJson (.obj (.cons (s "val") (.flt f64_1) (.cons (s "_kind") (.str (s "number")) .nil)))
      = .ok (.num { v := f64_1, unit := none }) :=
  ⟨C05_read_holds _ _ (.numTok (.int 1 _)), C05_read_holds _ _ (.numTok (.flt _)),
   C05_read_holds _ _ (.number (.tok (.flt _)) .absent (List.Perm.swap _ _ _))⟩

/-- `{"tz":"UTC","_kind":"dateTime","val":"2020-01-01T00:00:00Z"}` and the same without `tz` -/
example :
    Denotes (lexDateTime (s "2020-01-01T00:00:00Z") (some (s "UTC")))
      (.obj (.cons (s "tz") (.str (s "UTC")) (.cons (s "_kind") (.str (s "dateTime"))
        (.cons (s "val") (.str (s "2020-01-01T00:00:00Z")) .nil)))) ∧
    Denotes (lexDateTime (s "2020-01-01T00:00:00Z") none)
      (.obj (.cons (s "val") (.str (s "2020-01-01T00:00:00Z")) (.cons (s "_kind") (.str (s "dateTime")) .nil))) := by
  constructor
  · refine .dateTime (.present _) ?_
    exact ((List.Perm.swap _ _ _).trans ((List.Perm.swap _ _ _).cons _))
  · exact .dateTime .absent (List.Perm.swap _ _ _)

/-- `{"lng":0.5,"_kind":"coord","lat":1}`: integer and decimal tokens, `_kind` in the middle -/
example : fromJson (.obj (.cons (s "lng") (.flt f64_half) (.cons (s "_kind") (.str (s "coord"))
    (.cons (s "lat") (.int 1 f64_1) .nil)))) = .ok (.coord f64_1 f64_half) :=
  C05_read_holds _ _ (.coord (.int 1 _) (.flt _) ((List.Perm.swap _ _ _).trans ((List.Perm.swap _ _ _).cons _)))

/-- `{"b":true,"_kind":"dict","a":{"_kind":"marker"}}` and `{"b":true,"a":{"_kind":"marker"}}` are the
dict `{a: M, b: T}` -/
def d_ab : Tags := .cons (s "a") .marker (.cons (s "b") (.bool true) .nil)
theorem d_ab_members : DenotesM d_ab
    [(s "a", .obj (.cons (s "_kind") (.str (s "marker")) .nil)), (s "b", .bool true)] :=
  .cons .marker (.cons (.bool true) .nil)
theorem d_ab_keys : TagKeys d_ab :=
  ⟨by decide, by intro k hk; simp [d_ab, Tags.keys] at hk; rcases hk with e | e <;> subst e <;> decide⟩

example :
    fromJson (.obj (.cons (s "b") (.bool true) (.cons (s "_kind") (.str (s "dict"))
      (.cons (s "a") (.obj (.cons (s "_kind") (.str (s "marker")) .nil)) .nil)))) = .ok (.dict d_ab) ∧
    fromJson (.obj (.cons (s "b") (.bool true)
      (.cons (s "a") (.obj (.cons (s "_kind") (.str (s "marker")) .nil)) .nil))) = .ok (.dict d_ab) := by
  constructor
  · refine C05_read_holds _ _ (.dict (.mk d_ab_members d_ab_keys .present ?_))
    exact (List.Perm.swap _ _ _).trans ((List.Perm.swap _ _ _).cons _)
  · exact C05_read_holds _ _ (.dict (.mk d_ab_members d_ab_keys .absent (List.Perm.swap _ _ _)))

/-- a grid without `meta`, `_kind` last, a column with an (empty) `meta` and one without, a row tagged
`"_kind":"dict"`:
`{"rows":[{"_kind":"dict","b":true,"a":{"_kind":"marker"}}],"cols":[{"meta":{},"name":"a"},{"name":"b"}],"_kind":"grid"}` -/
example : fromJson (.obj
    (.cons (s "rows") (.arr (.cons (.obj (.cons (s "_kind") (.str (s "dict")) (.cons (s "b") (.bool true)
        (.cons (s "a") (.obj (.cons (s "_kind") (.str (s "marker")) .nil)) .nil)))) .nil))
    (.cons (s "cols") (.arr (.cons (.obj (.cons (s "meta") (.obj .nil) (.cons (s "name") (.str (s "a")) .nil)))
        (.cons (.obj (.cons (s "name") (.str (s "b")) .nil)) .nil)))
    (.cons (s "_kind") (.str (s "grid")) .nil))))
    = .ok (.grid .none (.cons (s "a") (.some .nil) (.cons (s "b") .none .nil)) (.cons d_ab .nil) (s "3.0")) := by
  refine C05_read_holds _ _ (.gridNoMeta ?_ ?_ (List.reverse_perm _).symm)
  · refine .consMeta (.mk .nil ⟨rfl, by intro k hk; cases hk⟩ .absent (List.Perm.refl _)) (List.Perm.swap _ _ _) ?_
    exact .consNoMeta (List.Perm.refl _) .nil
  · refine .cons (.mk d_ab_members d_ab_keys .present ?_) .nil
    exact (List.Perm.swap _ _ _).cons _

/-- a grid meta with `ver` and a tag, in either order, with and without `"_kind":"dict"`; and an empty meta:
`{"_kind":"grid","meta":{"dis":"G","ver":"2.0"},"cols":[],"rows":[]}` has version 2.0 and the meta `{dis}` -/
example : fromJson (.obj
    (.cons (s "_kind") (.str (s "grid"))
    (.cons (s "meta") (.obj (.cons (s "dis") (.str (s "G")) (.cons (s "ver") (.str (s "2.0")) .nil)))
    (.cons (s "cols") (.arr .nil) (.cons (s "rows") (.arr .nil) .nil)))))
    = .ok (.grid (.some (.cons (s "dis") (.str (s "G")) .nil)) .nil .nil (s "2.0")) := by
  refine C05_read_holds _ _ (.gridMeta (km := []) (.cons (.str _) .nil)
    ⟨rfl, by intro k hk; simp [Tags.keys] at hk; subst hk; decide⟩
    (by intro k hk; simp [Tags.keys] at hk; subst hk; decide) .absent (.present _) ?_ .nil .nil (List.Perm.refl _))
  exact List.Perm.swap _ _ _

/-! ## The reference reader agrees with the relation and with the decoder

`readDoc` (Spec/HaysonRead.lean) is the executable form of the specification that exchanges documents with
the real code on every run.  On every Hayson document it computes the value the relation says, and the
decoder computes the same value.  One convention of the reader is made explicit: it represents an empty
grid meta / column meta as an absent one (`readerImage`). -/

/-- Reader and decoder agree on every Hayson document, at full strength. -/
def C05_reader_agrees_full : Prop :=
  ∀ (w : Val) (doc : Json), Denotes w doc →
    readDoc doc = some (readerImage w) ∧ fromJson doc = .ok w

/-- **the reference reader and the library's decoder give the same value on every Hayson document**
(refinement of the reference reader by the decoder, on the documents of the relation) -/
theorem C05_reader_agrees : C05_reader_agrees_full :=
  fun _ _ h => ⟨reader_denotes h, read_denotes h⟩

/-- Write direction against the reference reader, every value. -/
def C05_writer_conforms_full (WF : Val → Prop) : Prop :=
  ∀ v, WF v → readDoc (toJson v) = some (readerImage (jImage v))

/-- **writer conformance for every well-formed value** (all kinds, lists, dicts, grids, any nesting): the
reference reader reads the encoder's document as the value -/
theorem C05_writer_conforms : C05_writer_conforms_full WFj := fun v h => reader_reads_writer v h

/-- a grid meta, a column meta and a row are dict objects, `"_kind":"dict"` optional in each: on
`{"_kind":"grid","meta":{"_kind":"dict"},"cols":[{"name":"a","meta":{"_kind":"dict","x":true}}],"rows":[{"_kind":"dict"}]}`
reader and decoder see an empty grid meta (the reader: an absent one), the column meta `{x}` and an empty row -/
theorem reader_meta_kind_dict :
    okIs (readDoc (.obj (.cons (s "_kind") (.str (s "grid"))
      (.cons (s "meta") (.obj (.cons (s "_kind") (.str (s "dict")) .nil))
      (.cons (s "cols") (.arr (.cons (.obj (.cons (s "name") (.str (s "a")) (.cons (s "meta")
        (.obj (.cons (s "_kind") (.str (s "dict")) (.cons (s "x") (.bool true) .nil))) .nil))) .nil))
      (.cons (s "rows") (.arr (.cons (.obj (.cons (s "_kind") (.str (s "dict")) .nil)) .nil)) .nil))))))
      (fun v => match v with
        | .grid .none (.cons _ (.some (.cons k _ .nil)) .nil) (.cons .nil .nil) _ => k == s "x" | _ => false) = true ∧
    C02.okIs (fromJson (.obj (.cons (s "_kind") (.str (s "grid"))
      (.cons (s "meta") (.obj (.cons (s "_kind") (.str (s "dict")) .nil))
      (.cons (s "cols") (.arr (.cons (.obj (.cons (s "name") (.str (s "a")) (.cons (s "meta")
        (.obj (.cons (s "_kind") (.str (s "dict")) (.cons (s "x") (.bool true) .nil))) .nil))) .nil))
      (.cons (s "rows") (.arr (.cons (.obj (.cons (s "_kind") (.str (s "dict")) .nil)) .nil)) .nil))))))
      (fun v => match v with
        | .grid (.some .nil) (.cons _ (.some (.cons k _ .nil)) .nil) (.cons .nil .nil) _ => k == s "x" | _ => false) = true := by
  decide +kernel

/-! ### why the read direction is not stated as "whatever the reference reader accepts"

The reference reader looks the members it needs up by name and ignores every other member; the
library's visitor decodes every member it meets before it knows the kind, and returns from the loop as
soon as it meets `"_kind":"marker"` (`remove`, `na`) — which serde_json accepts only if no member is left.
On `{"_kind":"marker","x":1}` the reader answers Marker and the decoder fails (model and real code:
`from_str` "trailing comma at line 1 column 18", `from_value` "invalid length 2, expected fewer elements in
map"); on `{"x":{"_kind":null},"_kind":"marker"}` likewise (the member `x` does not decode).  An object with
a member beside `"_kind":"marker"` is not a Hayson document, so this is a leniency of the reader, not a
defect of the decoder.  `Denotes` admits exactly the members the specification lists. -/
def one : Json := .int 1 { bits := 0x3FF0000000000000, txt := ['1'] }

theorem readDoc_lenient :
    okIs (readDoc (.obj (.cons (s "_kind") (.str (s "marker")) (.cons (s "x") one .nil))))
      (fun v => match v with | .marker => true | _ => false) = true ∧
    (fromJson (.obj (.cons (s "_kind") (.str (s "marker")) (.cons (s "x") one .nil)))).tag = "err" ∧
    okIs (readDoc (.obj (.cons (s "x") (.obj (.cons (s "_kind") .null .nil))
      (.cons (s "_kind") (.str (s "marker")) .nil)))) (fun v => match v with | .marker => true | _ => false) = true ∧
    (fromJson (.obj (.cons (s "x") (.obj (.cons (s "_kind") .null .nil))
      (.cons (s "_kind") (.str (s "marker")) .nil)))).tag = "err" := by
  decide +kernel

end Hs.C05
