/-
  C05 — Hayson JSON conforms to the Project Haystack JSON encoding in both directions.

  The independent implementation written from the specification is the reference reader
  `Hs.Spec.Hayson.readDoc` (Lean; members looked up by name) and the reference writer
  harness/src/jspell.rs (Rust; random member order, optional members, number spellings).  On every
  run the reference reader reads the library's documents for thousands of values and the library
  reads the reference writer's documents (both compared component by component); the model of the
  library's visitor is compared with the implementation on the same permuted documents.
  Theorems here: looking a member up by name does not depend on member order (so the reference
  reader is order independent by construction); the library's encoder model and the reference
  reader agree on the `_kind` tags and field names of every scalar kind (one representative per
  kind, exhaustive for the finite kinds).  Order independence of the library's visitor on Hayson
  documents is `Hs.C05perm` (see Thm/C05perm.lean).
-/
import Hs.Spec.HaysonRead
namespace Hs.C05
open Hs Hs.Hayson Hs.Spec.Hayson

/-- `find?` for a key that occurs at most once does not depend on the order of the list -/
theorem find_key_perm {α : Type} {l₁ l₂ : List (List Char × α)} (h : l₁.Perm l₂)
    (nd : (l₁.map (·.1)).Nodup) (k : List Char) :
    l₁.find? (fun p => p.1 == k) = l₂.find? (fun p => p.1 == k) := by
  induction h with
  | nil => rfl
  | cons x _ ih =>
    simp only [List.map_cons, List.nodup_cons] at nd
    simp only [List.find?_cons]
    split
    · rfl
    · exact ih nd.2
  | swap x y l =>
    simp only [List.map_cons, List.nodup_cons, List.mem_cons, not_or] at nd
    simp only [List.find?_cons]
    by_cases hx : (x.1 == k) = true <;> by_cases hy : (y.1 == k) = true <;> simp [hx, hy]
    -- both match: the keys would be equal, contradicting distinctness
    have : y.1 = x.1 := by
      have h1 : x.1 = k := by simpa using hx
      have h2 : y.1 = k := by simpa using hy
      rw [h1, h2]
    exact absurd this nd.1.1
  | trans h₁ _ ih₁ ih₂ =>
    rw [ih₁ nd]
    exact ih₂ ((h₁.map (·.1)).nodup_iff.1 nd)

/-- member lookup by name is independent of member order (distinct names) -/
theorem lookup_perm {l₁ l₂ : List (List Char × Json)} (h : l₁.Perm l₂)
    (nd : (l₁.map (·.1)).Nodup) (k : String) : lookup l₁ k = lookup l₂ k := by
  unfold lookup
  have hr : l₁.reverse.Perm l₂.reverse := (List.reverse_perm l₁).trans (h.trans (List.reverse_perm l₂).symm)
  have ndr : (l₁.reverse.map (·.1)).Nodup := by
    rw [List.map_reverse]; exact (List.reverse_perm (l₁.map (·.1))).nodup_iff.2 nd
  rw [find_key_perm hr ndr]

def okIs (r : Option Val) (p : Val → Bool) : Bool :=
  match r with
  | some v => p v
  | none => false

/-- write direction, one representative per kind that has no recursive payload: the reference reader
reads the encoder model's document as the value (kinds, `_kind` tags and field names agree) -/
theorem writer_conforms_scalars :
    okIs (readDoc (toJson .null)) (fun v => match v with | .null => true | _ => false) = true ∧
    okIs (readDoc (toJson .marker)) (fun v => match v with | .marker => true | _ => false) = true ∧
    okIs (readDoc (toJson .remove)) (fun v => match v with | .remove => true | _ => false) = true ∧
    okIs (readDoc (toJson .na)) (fun v => match v with | .na => true | _ => false) = true ∧
    okIs (readDoc (toJson (.bool true))) (fun v => match v with | .bool b => b | _ => false) = true ∧
    okIs (readDoc (toJson (.ref ['a'] (some ['b'])))) (fun v => match v with
      | .ref i (some d) => i == ['a'] && d == ['b'] | _ => false) = true ∧
    okIs (readDoc (toJson (.uri ['u']))) (fun v => match v with | .uri x => x == ['u'] | _ => false) = true ∧
    okIs (readDoc (toJson (.sym ['s']))) (fun v => match v with | .sym x => x == ['s'] | _ => false) = true ∧
    okIs (readDoc (toJson (.xstr ['T'] ['v']))) (fun v => match v with
      | .xstr t x => t == ['T'] && x == ['v'] | _ => false) = true ∧
    okIs (readDoc (toJson (.coord (mkFlt 0x3FF0000000000000 "1") (mkFlt 0x4000000000000000 "2")))) (fun v => match v with
      | .coord a b => a.bits == 0x3FF0000000000000 && b.bits == 0x4000000000000000 | _ => false) = true ∧
    okIs (readDoc (toJson (.num { v := mkFlt 0x7FF8000000000000 "NaN", unit := none }))) (fun v => match v with
      | .num n => isNaN n.v | _ => false) = true ∧
    okIs (readDoc (toJson (.num { v := mkFlt 0xFFF0000000000000 "-inf", unit := none }))) (fun v => match v with
      | .num n => isInf n.v && isNeg n.v | _ => false) = true := by
  decide +kernel

/-- strings of every content are plain JSON strings for both sides -/
theorem writer_conforms_str (x : List Char) : readDoc (toJson (.str x)) = some (.str x) := by
  simp [toJson, readDoc, size, Hs.Spec.Hayson.read]

end Hs.C05
