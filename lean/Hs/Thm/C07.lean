/-
  C07 — filter evaluation follows the Haystack filter semantics.

  `evalImpl` (Hs.Model.Filter) mirrors the `impl Eval` blocks of filter/nodes.rs as they are after
  the fixes b2483f0 / 13ecceb; `evalSpec` (Hs.Model.FilterSpec) is written from the property text.
  The statements quantify over ALL filters (any number of terms, any nesting of parentheses, paths
  of any length, every literal), all records and all record sets a resolver may supply, every
  namespace oracle, and every way of ordering Numbers with different units (`mixed`): the one point
  the property leaves open is excluded by `noMixed`, not decided.
  The model is tied to the code by the correspondence check (`feval` requests, harness/src/c07.rs).
-/
import Hs.Lemmas.FilterWild
namespace Hs.C07
open Hs

abbrev NsFits := Tags → List Char → Bool
abbrev NsRel := Tags → List Char → Option (List Char) → Option (List Char) → Bool

/-- the specification's environment for a resolver that supplies the records `recs` -/
def recsEnv (recs : List Tags) (fits : NsFits) (rel : NsRel) (mixed : CmpOp → Num → Num → Bool) : SpecEnv :=
  { deref := recsResolveRef recs, hops := recs.length + 2, fits := fits, rel := rel, mixed := mixed }

/-- … and without a resolver (`impl Filtered for Dict`: the record resolves its own paths) -/
def dictEnv (fits : NsFits) (rel : NsRel) (mixed : CmpOp → Num → Num → Bool) : SpecEnv :=
  recsEnv [] fits rel mixed

/-- the filter never asks how two Numbers with different units are ordered -/
@[reducible] def NoMixedUnitOrder (recs : List Tags) (f : FOr) (r : Tags) : Prop :=
  f.noMixed (recsResolveRef recs) r = true

/-! ### the connectives -/

/-- 'or' holds iff some operand holds -/
theorem or_any (cx : Ctx) : (o : FOr) → o.evalImpl cx = o.toList.any (fun a => a.evalImpl cx)
  | .nil => by simp [FOr.evalImpl, FOr.toList]
  | .cons a as => by simp [FOr.evalImpl, FOr.toList, or_any cx as]

/-- 'and' holds iff all operands hold -/
theorem and_all (cx : Ctx) : (a : FAnd) → a.evalImpl cx = a.toList.all (fun t => t.evalImpl cx)
  | .nil => by simp [FAnd.evalImpl, FAnd.toList]
  | .cons t ts => by simp [FAnd.evalImpl, FAnd.toList, and_all cx ts]

/-- parentheses group: a parenthesised filter is a term with the truth value of that filter -/
theorem parens_group (cx : Ctx) (o : FOr) : (FTerm.parens o).evalImpl cx = o.evalImpl cx := by
  simp [FTerm.evalImpl]

/-- 'and' binds tighter than 'or': `a and b or c and d` is the Or of the two Ands -/
theorem and_binds_tighter (cx : Ctx) (a b c d : FTerm) :
    (FOr.cons (.cons a (.cons b .nil)) (.cons (.cons c (.cons d .nil)) .nil)).evalImpl cx
      = ((a.evalImpl cx && b.evalImpl cx) || (c.evalImpl cx && d.evalImpl cx)) := by
  simp [FOr.evalImpl, FAnd.evalImpl]

/-! ### the terms -/

/-- 'tag' holds iff the path resolves to a value, 'not tag' iff it does not -/
theorem has_missing (recs : List Tags) (fits : NsFits) (rel : NsRel) (r : Tags) (p : FPath) :
    (FTerm.has p).evalImpl (recsCtx recs fits rel r) = (lookupSpec (recsResolveRef recs) r p).isSome ∧
    (FTerm.missing p).evalImpl (recsCtx recs fits rel r) = (lookupSpec (recsResolveRef recs) r p).isNone := by
  simp only [FTerm.evalImpl, Ctx.resolve, recsCtx, recsResolver, recsResolveFor_spec, orNull_isNull]
  cases lookupSpec (recsResolveRef recs) r p <;> simp

/-- a comparison holds iff the path resolves to a value that stands in the stated relation to the
literal, or to a list with such an element -/
theorem cmp_holds (recs : List Tags) (fits : NsFits) (rel : NsRel) (mixed : CmpOp → Num → Num → Bool)
    (r : Tags) (p : FPath) (op : CmpOp) (lit : Val)
    (h : mixedCmp op lit (lookupSpec (recsResolveRef recs) r p) = false) :
    (FTerm.cmp p op lit).evalImpl (recsCtx recs fits rel r)
      = cmpSpec (recsEnv recs fits rel mixed) op lit (lookupSpec (recsResolveRef recs) r p) := by
  simp only [FTerm.evalImpl, Ctx.resolve, recsCtx, recsResolver, recsResolveFor_spec]
  cases hl : lookupSpec (recsResolveRef recs) r p with
  | none => simp [orNull, cmpSpec, cmpDispatch]
  | some v =>
    rw [hl] at h
    simpa [orNull, cmpSpec] using cmpDispatch_spec (recsEnv recs fits rel mixed) op lit v h

/-- `path *== @ref` holds iff the Ref chain starting at the path's value reaches `@ref`; the
visited set of the loop never cuts such a chain short -/
theorem wildcard_chain (recs : List Tags) (fits : NsFits) (rel : NsRel) (mixed : CmpOp → Num → Num → Bool)
    (r : Tags) (p : FPath) (t : List Char) :
    (FTerm.wildcardEq p t).evalImpl (recsCtx recs fits rel r)
      = chaseSpec (recsEnv recs fits rel mixed) p t (recs.length + 2) r := by
  simp only [FTerm.evalImpl, wildcardEval, Ctx.resolve, recsCtx]
  have h := wildLoop_spec recs p t ((recsResolver recs).resolveFor r p)
  simp only [recsResolver] at h ⊢
  rw [h, chaseSpec_eq recs (recsEnv recs fits rel mixed) rfl p t]
  rfl

/-- the hop bound of the specification is no restriction -/
theorem wildcard_any_hops (recs : List Tags) (fits : NsFits) (rel : NsRel) (mixed : CmpOp → Num → Num → Bool)
    (r : Tags) (p : FPath) (t : List Char) (n : Nat)
    (h : chaseSpec (recsEnv recs fits rel mixed) p t n r = true) :
    chaseSpec (recsEnv recs fits rel mixed) p t (recs.length + 2) r = true := by
  rw [chaseSpec_eq recs _ rfl] at h ⊢
  exact chaseV_bounded recs p t _ n h

/-- the model's wildcard loop never runs out of fuel -/
theorem wildcard_terminates (recs : List Tags) (fits : NsFits) (rel : NsRel) (r : Tags) (p : FPath)
    (t : List Char) : ∃ b, wildcardEval (recsCtx recs fits rel r) p t = some b :=
  wildLoop_terminates recs p t _

/-! ### the whole filter -/

mutual
theorem term_spec (recs : List Tags) (fits : NsFits) (rel : NsRel) (mixed : CmpOp → Num → Num → Bool)
    (r : Tags) : (t : FTerm) → t.noMixed (recsResolveRef recs) r = true →
      t.evalImpl (recsCtx recs fits rel r) = t.evalSpec (recsEnv recs fits rel mixed) r
  | .parens o, h => by
    rw [FTerm.evalImpl, FTerm.evalSpec]
    exact or_spec recs fits rel mixed r o (by simpa [FTerm.noMixed] using h)
  | .has p, _ => by
    rw [(has_missing recs fits rel r p).1]; rfl
  | .missing p, _ => by
    rw [(has_missing recs fits rel r p).2]; rfl
  | .isA sym, _ => rfl
  | .wildcardEq p t, _ => by
    rw [wildcard_chain recs fits rel mixed r p t]; rfl
  | .relation _ _ _, _ => rfl
  | .cmp p op lit, h => by
    rw [cmp_holds recs fits rel mixed r p op lit (by simpa [FTerm.noMixed] using h)]; rfl
theorem and_spec (recs : List Tags) (fits : NsFits) (rel : NsRel) (mixed : CmpOp → Num → Num → Bool)
    (r : Tags) : (a : FAnd) → a.noMixed (recsResolveRef recs) r = true →
      a.evalImpl (recsCtx recs fits rel r) = a.evalSpec (recsEnv recs fits rel mixed) r
  | .nil, _ => rfl
  | .cons t ts, h => by
    have h' : t.noMixed (recsResolveRef recs) r = true ∧ ts.noMixed (recsResolveRef recs) r = true := by
      simpa [FAnd.noMixed] using h
    rw [FAnd.evalImpl, FAnd.evalSpec, term_spec recs fits rel mixed r t h'.1,
      and_spec recs fits rel mixed r ts h'.2]
theorem or_spec (recs : List Tags) (fits : NsFits) (rel : NsRel) (mixed : CmpOp → Num → Num → Bool)
    (r : Tags) : (o : FOr) → o.noMixed (recsResolveRef recs) r = true →
      o.evalImpl (recsCtx recs fits rel r) = o.evalSpec (recsEnv recs fits rel mixed) r
  | .nil, _ => rfl
  | .cons a as, h => by
    have h' : a.noMixed (recsResolveRef recs) r = true ∧ as.noMixed (recsResolveRef recs) r = true := by
      simpa [FOr.noMixed] using h
    rw [FOr.evalImpl, FOr.evalSpec, and_spec recs fits rel mixed r a h'.1,
      or_spec recs fits rel mixed r as h'.2]
end

/-! ### grids -/

/-- filtering a grid returns exactly the rows for which the filter holds, in order -/
theorem grid_filter_all (flt : Tags → Bool) (rows : Rows) :
    filterAll flt rows = rows.toList.filter flt := by
  simp [filterAll, filterAllLoop_eq]

/-- … and the first of them for a single match -/
theorem grid_filter_first (flt : Tags → Bool) :
    (rows : Rows) → filterFirst flt rows = (filterAll flt rows).head?
  | .nil => by simp [filterFirst, filterAll, filterAllLoop]
  | .cons r rs => by
    have ih := grid_filter_first flt rs
    rw [grid_filter_all] at ih ⊢
    rw [filterFirst]
    cases h : flt r <;> simp [Rows.toList, h, ih]

/-! ### the property -/

/-- The property at full strength: with a caller-supplied resolver and with the record's own
(`Filtered for Dict`), the code's truth value is the specified one wherever the property specifies
one; `Filtered for Grid` / `ListFiltered for Grid` return the matching rows in order / the first. -/
def C07_full : Prop :=
  (∀ (recs : List Tags) (fits : NsFits) (rel : NsRel) (mixed : CmpOp → Num → Num → Bool)
      (f : FOr) (r : Tags), NoMixedUnitOrder recs f r →
      f.evalImpl (recsCtx recs fits rel r) = f.evalSpec (recsEnv recs fits rel mixed) r) ∧
  (∀ (fits : NsFits) (rel : NsRel) (mixed : CmpOp → Num → Num → Bool) (f : FOr) (r : Tags),
      NoMixedUnitOrder [] f r →
      dictFilter fits rel f r = f.evalSpec (dictEnv fits rel mixed) r) ∧
  (∀ (fits : NsFits) (rel : NsRel) (f : FOr) (rows : Rows),
      filterAll (dictFilter fits rel f) rows = rows.toList.filter (dictFilter fits rel f) ∧
      filterFirst (dictFilter fits rel f) rows = (filterAll (dictFilter fits rel f) rows).head?)

theorem C07_holds : C07_full := by
  refine ⟨?_, ?_, ?_⟩
  · intro recs fits rel mixed f r h
    exact or_spec recs fits rel mixed r f h
  · intro fits rel mixed f r h
    have hctx : dictCtx fits rel r = recsCtx [] fits rel r := by
      simp [dictCtx, recsCtx, dictResolver_eq]
    rw [dictFilter, hctx]
    exact or_spec [] fits rel mixed r f h
  · intro fits rel f rows
    exact ⟨grid_filter_all _ rows, grid_filter_first _ rows⟩

/-! ### non-vacuity: concrete records and filters inside the theorem's hypotheses -/

abbrev five : Val := .num { v := { bits := 0x4014000000000000, txt := ['5'] }, unit := none }
abbrev three : Val := .num { v := { bits := 0x4008000000000000, txt := ['3'] }, unit := none }
abbrev seven : Val := .num { v := { bits := 0x401C000000000000, txt := ['7'] }, unit := none }
abbrev fiveM : Val := .num { v := { bits := 0x4014000000000000, txt := ['5'] }, unit := some ['m'] }
abbrev noFits : NsFits := fun _ _ => false
abbrev noRel : NsRel := fun _ _ _ _ => false
abbrev anyMixed : CmpOp → Num → Num → Bool := fun _ _ _ => true
abbrev one (t : FTerm) : FOr := .cons (.cons t .nil) .nil

/-- evaluation of the model on closed terms (`Val.pcmp` is compiled by well-founded recursion and
does not reduce in `decide`, so the definitions are unfolded by `simp`) -/
macro "filter_eval" : tactic => `(tactic| (
  simp [NoMixedUnitOrder, dictFilter, dictCtx, recsCtx, FOr.evalImpl, FAnd.evalImpl, FTerm.evalImpl,
    Ctx.resolve, dictResolver, dictResolveFor, recsResolver, recsResolveFor, recsStep, recsResolveRef,
    Tags.refId, walkPath, dictStep, Tags.getOrNull, Tags.get?, Tags.isEmpty, Val.isNull, Val.isList,
    cmpDispatch, cmpDispatchAny, CmpOp.apply, sameKind, Val.kindIdx, ordLt, ordLe, ordGt, ordGe, Val.pcmp,
    Val.pcmpSame, Val.eqv, Num.eqv, Num.pcmp, Flt.pcmp, Flt.feq, Flt.isNaN, Flt.key, FOr.noMixed,
    FAnd.noMixed, FTerm.noMixed, lookupSpec, mixedCmp, mixedVal, mixedIn, mixedInSome, Val.asValue,
    CmpOp.isOrder, wildcardEval, wildLoop, FOr.evalSpec, FAnd.evalSpec, FTerm.evalSpec, dictEnv, recsEnv,
    cmpSpec, holdsOf, holdsSome, stands, orderedSame, CmpOp.ordered, chaseSpec] <;> try decide))

/-- a record without the tag `a`: `a != 5`, `a < 5`, `a` do not hold, `not a` does (F1/F2) -/
abbrev recNoA : Tags := .cons ['b'] three .nil
example : NoMixedUnitOrder [] (one (.cmp [['a']] .ne five)) recNoA ∧
    dictFilter noFits noRel (one (.cmp [['a']] .ne five)) recNoA = false ∧
    dictFilter noFits noRel (one (.cmp [['a']] .lt five)) recNoA = false ∧
    dictFilter noFits noRel (one (.has [['a']])) recNoA = false ∧
    dictFilter noFits noRel (one (.missing [['a']])) recNoA = true ∧
    (one (.cmp [['a']] .ne five)).evalSpec (dictEnv noFits noRel anyMixed) recNoA = false := by
  repeat' apply And.intro
  all_goals filter_eval

/-- a Str where a Number is compared: no ordering operator holds, `!=` does (F2) -/
abbrev recStr : Tags := .cons ['s'] (.str ['x']) .nil
example : NoMixedUnitOrder [] (one (.cmp [['s']] .gt five)) recStr ∧
    dictFilter noFits noRel (one (.cmp [['s']] .gt five)) recStr = false ∧
    dictFilter noFits noRel (one (.cmp [['s']] .ge five)) recStr = false ∧
    dictFilter noFits noRel (one (.cmp [['s']] .lt five)) recStr = false ∧
    dictFilter noFits noRel (one (.cmp [['s']] .ne five)) recStr = true ∧
    (one (.cmp [['s']] .gt five)).evalSpec (dictEnv noFits noRel anyMixed) recStr = false := by
  repeat' apply And.intro
  all_goals filter_eval

/-- a list value is searched element-wise: `[3, 7]` is `< 5`, `> 5`, `!= 5` and not `== 5` -/
abbrev recList : Tags := .cons ['l'] (.list (.cons three (.cons seven .nil))) .nil
example : NoMixedUnitOrder [] (one (.cmp [['l']] .lt five)) recList ∧
    dictFilter noFits noRel (one (.cmp [['l']] .lt five)) recList = true ∧
    dictFilter noFits noRel (one (.cmp [['l']] .gt five)) recList = true ∧
    dictFilter noFits noRel (one (.cmp [['l']] .ne five)) recList = true ∧
    dictFilter noFits noRel (one (.cmp [['l']] .eq five)) recList = false ∧
    (one (.cmp [['l']] .gt five)).evalSpec (dictEnv noFits noRel anyMixed) recList = true := by
  repeat' apply And.intro
  all_goals filter_eval

/-- `d->a` through a nested dict, `r->a` through the resolver (and not without it), and a Ref cycle
`p -> q -> p` on which `r *== @z` ends with `false` and `r *== @p` with `true` -/
abbrev recP : Tags := .cons ['i', 'd'] (.ref ['p'] none) (.cons ['r'] (.ref ['q'] none) .nil)
abbrev recQ : Tags :=
  .cons ['a'] five (.cons ['i', 'd'] (.ref ['q'] none) (.cons ['r'] (.ref ['p'] none) .nil))
abbrev recD : Tags := .cons ['d'] (.dict (.cons ['a'] five .nil)) .nil
example : dictFilter noFits noRel (one (.cmp [['d'], ['a']] .eq five)) recD = true ∧
    (one (.cmp [['r'], ['a']] .eq five)).evalImpl (recsCtx [recP, recQ] noFits noRel recP) = true ∧
    dictFilter noFits noRel (one (.cmp [['r'], ['a']] .eq five)) recP = false ∧
    (one (.wildcardEq [['r']] ['z'])).evalImpl (recsCtx [recP, recQ] noFits noRel recP) = false ∧
    (one (.wildcardEq [['r']] ['p'])).evalImpl (recsCtx [recP, recQ] noFits noRel recP) = true := by
  repeat' apply And.intro
  all_goals filter_eval

/-- the excluded class is not empty, and is only what the property leaves open: `a < 5` on a record
with `a: 5m` is outside `NoMixedUnitOrder`, `a == 5` on the same record is inside -/
abbrev recM : Tags := .cons ['a'] fiveM .nil
example : ¬ NoMixedUnitOrder [] (one (.cmp [['a']] .lt five)) recM ∧
    NoMixedUnitOrder [] (one (.cmp [['a']] .eq five)) recM ∧
    dictFilter noFits noRel (one (.cmp [['a']] .eq five)) recM = false := by
  repeat' apply And.intro
  all_goals filter_eval

end Hs.C07
