/-
  C01 — Zinc encode → decode returns the original value.

  Model: `Hs.Zinc.encode` (encode.rs) and `Hs.Zinc.fromBytes` (decode/*: scanner, lexer, parser).
  What Rust std / chrono / chrono-tz compute stays lexical in the model (see ZincLex.lean): a decoded
  number is the text handed to `f64::from_str`, a decoded timestamp is its token text.  The
  statement therefore reads: decoding the writer's output yields the *lexical image* of the value —
  every string, name, tag, cell, row and nesting identical, every number/coordinate/timestamp
  re-read as exactly the text the writer printed for it.  `parse (fmt x) = x` for f64 and the
  chrono text round trip are the trusted-base hypotheses the harness validates on every run.
-/
import Hs.Model.ZincEnc
import Hs.Model.ZincParse
namespace Hs.C01
open Hs Hs.Zinc

/-- the lexical image of a finite number: what the reader returns for the printed text -/
def lexNum (n : Num) : Num :=
  if Flt.isNaNBits n.v.bits then { v := { bits := nanBits, txt := "NaN".toList }, unit := none }
  else if Flt.isInfBits n.v.bits then
    (if Flt.signBit n.v.bits then { v := { bits := negInfBits, txt := "-inf".toList }, unit := none }
     else { v := { bits := posInfBits, txt := "inf".toList }, unit := none })
  else { v := { bits := lexBits, txt := n.v.txt }, unit := n.unit }

mutual
/-- lexical image of a value -/
def lexImage : Val → Val
  | .num n => .num (lexNum n)
  | .coord a b => .coord { bits := lexBits, txt := a.txt } { bits := lexBits, txt := b.txt }
  | .dateTime t =>
    .dateTime { secs := 0, ns := 0, off := 0, zone := [], tzid := [],
                txt := if t.tzid == "UTC".toList then t.txt else t.txt ++ [' '] ++ t.zone }
  | .list xs => .list (lexVals xs)
  | .dict d => .dict (lexTags d)
  | .grid md cols rows ver => .grid (lexOTags md) (lexCols cols) (lexRows rows) ver
  | v => v
def lexVals : Vals → Vals
  | .nil => .nil
  | .cons v vs => .cons (lexImage v) (lexVals vs)
def lexTags : Tags → Tags
  | .nil => .nil
  | .cons k v t => .cons k (lexImage v) (lexTags t)
def lexOTags : OTags → OTags
  | .none => .none
  | .some t => .some (lexTags t)
def lexCols : Cols → Cols
  | .nil => .nil
  | .cons n m c => .cons n (lexOTags m) (lexCols c)
def lexRows : Rows → Rows
  | .nil => .nil
  | .cons r rs => .cons (lexTags r) (lexRows rs)
end

/-- The property at full strength, for a well-formedness predicate `WF` (the property's list:
identifier names, id alphabets, capitalised XStr types other than the reserved `C`, no control
characters in Uris, database units, unit-less non-finite numbers, years 0000–9999, row keys among
the column names, at least one column, resolvable unambiguous zone): -/
def C01_full (WF : Val → Prop) : Prop :=
  ∀ v, WF v → fromBytes (encode v) = .ok (lexImage v)

/-! ### the kinds with finitely many values: exhaustive -/

def isOk (r : Res Val) (p : Val → Bool) : Bool :=
  match r with
  | .ok v => p v
  | _ => false

theorem isOk_eq {r : Res Val} {p : Val → Bool} (h : isOk r p = true) : ∃ v, r = .ok v ∧ p v = true := by
  cases r <;> simp [isOk] at h
  exact ⟨_, rfl, h⟩

theorem rt_null : fromBytes (encode .null) = .ok .null := by
  have h : isOk (fromBytes (encode .null)) (fun v => match v with | .null => true | _ => false) = true := by
    decide +kernel
  obtain ⟨v, hv, hp⟩ := isOk_eq h
  cases v <;> simp at hp
  exact hv
theorem rt_marker : fromBytes (encode .marker) = .ok .marker := by
  have h : isOk (fromBytes (encode .marker)) (fun v => match v with | .marker => true | _ => false) = true := by
    decide +kernel
  obtain ⟨v, hv, hp⟩ := isOk_eq h
  cases v <;> simp at hp
  exact hv
theorem rt_remove : fromBytes (encode .remove) = .ok .remove := by
  have h : isOk (fromBytes (encode .remove)) (fun v => match v with | .remove => true | _ => false) = true := by
    decide +kernel
  obtain ⟨v, hv, hp⟩ := isOk_eq h
  cases v <;> simp at hp
  exact hv
theorem rt_na : fromBytes (encode .na) = .ok .na := by
  have h : isOk (fromBytes (encode .na)) (fun v => match v with | .na => true | _ => false) = true := by
    decide +kernel
  obtain ⟨v, hv, hp⟩ := isOk_eq h
  cases v <;> simp at hp
  exact hv
theorem rt_bool (b : Bool) : fromBytes (encode (.bool b)) = .ok (.bool b) := by
  have h : ∀ b, isOk (fromBytes (encode (.bool b))) (fun v => match v with | .bool c => c == b | _ => false) = true := by
    intro b; cases b <;> decide +kernel
  obtain ⟨v, hv, hp⟩ := isOk_eq (h b)
  cases v <;> simp at hp
  rw [hv, hp]

end Hs.C01
