/-
  C01 — Zinc encode → decode returns the original value.

  Model: `Hs.Zinc.encode` (encode.rs) and `Hs.Zinc.fromBytes` (decode/*: scanner, lexer, parser).
  What Rust std / chrono / chrono-tz compute stays lexical in the model (see ZincLex.lean): a decoded
  number is the text handed to `f64::from_str`, a decoded timestamp is its token text.  The
  statement therefore reads: decoding the writer's output yields the *lexical image* of the value —
  every string, name, tag, cell, row and nesting identical, every number/coordinate/timestamp
  re-read as exactly the text the writer printed for it.  `parse (fmt x) = x` for f64 and the
  chrono text round trip are the trusted-base hypotheses the harness validates on every run.
-/
import Hs.Model.ZincEnc
import Hs.Model.ZincParse
import Hs.Lemmas.ZincRtWf
namespace Hs.C01
open Hs Hs.Zinc

/-- the lexical image of a finite number: what the reader returns for the printed text -/
def lexNum (n : Num) : Num :=
  if Flt.isNaNBits n.v.bits then { v := { bits := nanBits, txt := "NaN".toList }, unit := none }
  else if Flt.isInfBits n.v.bits then
    (if Flt.signBit n.v.bits then { v := { bits := negInfBits, txt := "-inf".toList }, unit := none }
     else { v := { bits := posInfBits, txt := "inf".toList }, unit := none })
  else { v := { bits := lexBits, txt := n.v.txt }, unit := n.unit }

mutual
/-- lexical image of a value -/
def lexImage : Val → Val
  | .num n => .num (lexNum n)
  | .coord a b => .coord { bits := lexBits, txt := a.txt } { bits := lexBits, txt := b.txt }
  | .dateTime t =>
    .dateTime { secs := 0, ns := 0, off := 0, zone := [], tzid := [],
                txt := if t.tzid == "UTC".toList then t.txt else t.txt ++ [' '] ++ t.zone }
  | .list xs => .list (lexVals xs)
  | .dict d => .dict (lexTags d)
  | .grid md cols rows ver => .grid (lexOTags md) (lexCols cols) (lexRows rows) ver
  | v => v
def lexVals : Vals → Vals
  | .nil => .nil
  | .cons v vs => .cons (lexImage v) (lexVals vs)
def lexTags : Tags → Tags
  | .nil => .nil
  | .cons k v t => .cons k (lexImage v) (lexTags t)
def lexOTags : OTags → OTags
  | .none => .none
  | .some t => .some (lexTags t)
def lexCols : Cols → Cols
  | .nil => .nil
  | .cons n m c => .cons n (lexOTags m) (lexCols c)
def lexRows : Rows → Rows
  | .nil => .nil
  | .cons r rs => .cons (lexTags r) (lexRows rs)
end

/-- The property at full strength, for a well-formedness predicate `WF` (the property's list:
identifier names, id alphabets, capitalised XStr types other than the reserved `C`, no control
characters in Uris, database units, unit-less non-finite numbers, years 0000–9999, row keys among
the column names, at least one column, resolvable unambiguous zone): -/
def C01_full (WF : Val → Prop) : Prop :=
  ∀ v, WF v → fromBytes (encode v) = .ok (lexImage v)

/-! ### the kinds with finitely many values: exhaustive -/

def isOk (r : Res Val) (p : Val → Bool) : Bool :=
  match r with
  | .ok v => p v
  | _ => false

theorem isOk_eq {r : Res Val} {p : Val → Bool} (h : isOk r p = true) : ∃ v, r = .ok v ∧ p v = true := by
  cases r <;> simp [isOk] at h
  exact ⟨_, rfl, h⟩

theorem rt_null : fromBytes (encode .null) = .ok .null := by
  have h : isOk (fromBytes (encode .null)) (fun v => match v with | .null => true | _ => false) = true := by
    decide +kernel
  obtain ⟨v, hv, hp⟩ := isOk_eq h
  cases v <;> simp at hp
  exact hv
theorem rt_marker : fromBytes (encode .marker) = .ok .marker := by
  have h : isOk (fromBytes (encode .marker)) (fun v => match v with | .marker => true | _ => false) = true := by
    decide +kernel
  obtain ⟨v, hv, hp⟩ := isOk_eq h
  cases v <;> simp at hp
  exact hv
theorem rt_remove : fromBytes (encode .remove) = .ok .remove := by
  have h : isOk (fromBytes (encode .remove)) (fun v => match v with | .remove => true | _ => false) = true := by
    decide +kernel
  obtain ⟨v, hv, hp⟩ := isOk_eq h
  cases v <;> simp at hp
  exact hv
theorem rt_na : fromBytes (encode .na) = .ok .na := by
  have h : isOk (fromBytes (encode .na)) (fun v => match v with | .na => true | _ => false) = true := by
    decide +kernel
  obtain ⟨v, hv, hp⟩ := isOk_eq h
  cases v <;> simp at hp
  exact hv
theorem rt_bool (b : Bool) : fromBytes (encode (.bool b)) = .ok (.bool b) := by
  have h : ∀ b, isOk (fromBytes (encode (.bool b))) (fun v => match v with | .bool c => c == b | _ => false) = true := by
    intro b; cases b <;> decide +kernel
  obtain ⟨v, hv, hp⟩ := isOk_eq (h b)
  cases v <;> simp at hp
  rw [hv, hp]


/-! ## The ladder

Helper lemmas live in `Hs/Lemmas/ZincRt*.lean`.  Vocabulary used below:
* `At s rest` — the scanner `s` is positioned at `rest`: current byte = head of `rest`, unread bytes
  (peek stash first, then the reader) = its tail; at the end of the input `is_eof` is up and nothing is unread
  (`Hs/Lemmas/ZincRtScan.lean`; `Scan.make bs` satisfies `At · bs`).
* `Delim rest` — what follows a value in writer output: nothing, `,` `]` `}` newline, or a space followed by
  the lower-case first letter of a tag name.
* `Post s rest` — `At s rest`, and the peek stash is empty unless `rest` starts with a space (the Ref reader
  peeks one byte past a space).
* `RdVal v` — the framing statement of a value: for every scanner at `enc v true ++ rest` with `Delim rest`,
  enough fuel (`4·|enc v| + 8`) and `depth + nestV v < 64`, reading the first token and running `parseValue`
  gives the lexical image of `v` and leaves the scanner at `rest`.
-/

/-! ### `lexImage` is the function the lemma files use -/

mutual
theorem lexImage_eq : ∀ v : Val, lexImage v = lexImg v
  | .num n => by simp [lexImage, lexImg, lexNum, lexNumI]
  | .coord a b => by simp [lexImage, lexImg]
  | .dateTime t => by simp [lexImage, lexImg]
  | .list xs => by simp [lexImage, lexImg, lexVals_eq xs]
  | .dict d => by simp [lexImage, lexImg, lexTags_eq d]
  | .grid md cols rows ver => by simp [lexImage, lexImg, lexOTags_eq md, lexCols_eq cols, lexRows_eq rows]
  | .null => by simp [lexImage, lexImg]
  | .remove => by simp [lexImage, lexImg]
  | .marker => by simp [lexImage, lexImg]
  | .bool _ => by simp [lexImage, lexImg]
  | .na => by simp [lexImage, lexImg]
  | .str _ => by simp [lexImage, lexImg]
  | .uri _ => by simp [lexImage, lexImg]
  | .ref _ _ => by simp [lexImage, lexImg]
  | .sym _ => by simp [lexImage, lexImg]
  | .date _ => by simp [lexImage, lexImg]
  | .time _ => by simp [lexImage, lexImg]
  | .xstr _ _ => by simp [lexImage, lexImg]
theorem lexVals_eq : ∀ xs : Vals, lexVals xs = lexImgs xs
  | .nil => rfl
  | .cons v vs => by simp [lexVals, lexImgs, lexImage_eq v, lexVals_eq vs]
theorem lexTags_eq : ∀ t : Tags, lexTags t = lexImgT t
  | .nil => rfl
  | .cons k v t => by simp [lexTags, lexImgT, lexImage_eq v, lexTags_eq t]
theorem lexOTags_eq : ∀ o : OTags, lexOTags o = lexImgO o
  | .none => rfl
  | .some t => by simp [lexOTags, lexImgO, lexTags_eq t]
theorem lexCols_eq : ∀ c : Cols, lexCols c = lexImgC c
  | .nil => rfl
  | .cons n m c => by simp [lexCols, lexImgC, lexOTags_eq m, lexCols_eq c]
theorem lexRows_eq : ∀ r : Rows, lexRows r = lexImgR r
  | .nil => rfl
  | .cons r rs => by simp [lexRows, lexImgR, lexTags_eq r, lexRows_eq rs]
end

/-! ### rung 1 — UTF-8 -/

/-- the lossy decoder is the identity on encoder output, for every text -/
theorem rt_utf8 (s : List Char) : lossy (encChars s) = s := lossy_encChars s

/-- every byte of a non-ASCII character's encoding is ≥ 0x80 (byte-oriented loops copy it verbatim) -/
theorem utf8_high_bytes (c : Char) (h : 128 ≤ c.toNat) : ∀ b ∈ encChar c, 128 ≤ b.toNat := encChar_nonascii c h

/-! ### rung 2 — scanner normal form -/

theorem scan_make_at (bs : List UInt8) : At (Scan.make bs) bs := At_make_all bs
theorem scan_advance {s : Scan} {b : UInt8} {r : List UInt8} (h : At s (b :: r)) : At s.advance r := h.advance
theorem scan_read {s : Scan} {b c : UInt8} {r : List UInt8} (h : At s (b :: c :: r)) : s.read = (some c, s.advance) :=
  h.read
theorem scan_peek {s : Scan} {b c : UInt8} {r : List UInt8} (h : At s (b :: c :: r)) (hs : s.stash = []) :
    ∃ s1, s.peek = (some c, s1) ∧ At s1 (b :: c :: r) ∧ s1.stash.length = 1 ∧ s1.lastPeek = c ∧ s1.pos = s.pos :=
  h.peek0' hs

/-! ### rung 3 — Str, Uri, Ref, Symbol, XStr: every payload, any following text -/

/-- **rt_str**: every `s : List Char` (controls, quotes, backslash, `$`, astral planes), whatever follows -/
theorem rt_str (s : List Char) (sc : Scan) (rest : List UInt8) (fuel : Nat)
    (h : At sc (encQuoted s ++ rest)) (hf : (encQuoted s).length ≤ fuel) :
    ∃ sc', parseStr fuel sc = .ok (s, sc') ∧ At sc' rest := by
  obtain ⟨sc', e, h', _⟩ := parseStr_rt s sc rest fuel h hf
  exact ⟨sc', e, h'⟩

/-- **rt_uri**: every text — the writer escapes `` ` `` `\` and control characters, the reader undoes exactly
these (no hypothesis on the characters is needed in the model) -/
theorem rt_uri (s : List Char) (sc : Scan) (rest : List UInt8) (fuel : Nat)
    (h : At sc (encUri s ++ rest)) (hs : sc.stash = []) (hf : (encUri s).length ≤ fuel) :
    ∃ sc', parseUri fuel sc = .ok (s, sc') ∧ At sc' rest := by
  obtain ⟨sc', e, h', _⟩ := parseUri_rt s sc rest fuel h hs hf
  exact ⟨sc', e, h'⟩

/-- **rt_ref** without display name; `RefEnd rest`: nothing, a byte outside the id alphabet other than a
space, or a space followed by a byte other than `"` -/
theorem rt_ref_nodis (id : List Char) (hid : isRefId id = true) (sc : Scan) (rest : List UInt8) (fuel : Nat)
    (h : At sc (64 :: encChars id ++ rest)) (hs : sc.stash = []) (hend : RefEnd rest) (hf : id.length < fuel) :
    ∃ sc', parseRef fuel sc = .ok (.ref id none, sc') ∧ At sc' rest := by
  simp only [isRefId, Bool.and_eq_true, Bool.not_eq_eq_eq_not, Bool.not_true, List.isEmpty_eq_false_iff] at hid
  obtain ⟨sc', e, h', _⟩ := parseRef_nodis id hid.2 hid.1 sc rest fuel h hs hend hf
  exact ⟨sc', e, h'⟩

/-- **rt_ref** with display name: any `dis`, any following text -/
theorem rt_ref_dis (id : List Char) (hid : isRefId id = true) (dis : List Char) (sc : Scan) (rest : List UInt8)
    (fuel : Nat) (h : At sc (64 :: encChars id ++ 32 :: encQuoted dis ++ rest)) (hs : sc.stash = [])
    (hf : id.length + (encQuoted dis).length < fuel) :
    ∃ sc', parseRef fuel sc = .ok (.ref id (some dis), sc') ∧ At sc' rest := by
  simp only [isRefId, Bool.and_eq_true, Bool.not_eq_eq_eq_not, Bool.not_true, List.isEmpty_eq_false_iff] at hid
  obtain ⟨sc', e, h', _⟩ := parseRef_dis id hid.2 hid.1 dis sc rest fuel h hs hf
  exact ⟨sc', e, h'⟩

/-- **rt_symbol** -/
theorem rt_symbol (s : List Char) (hs : isSymBody s = true) (sc : Scan) (rest : List UInt8) (fuel : Nat)
    (h : At sc (94 :: encChars s ++ rest)) (hst : Stop isRefB rest) (hf : s.length < fuel) :
    ∃ sc', parseSymbol fuel sc = .ok (.sym s, sc') ∧ At sc' rest :=
  ⟨_, (parseSymbol_rt s hs sc rest fuel h hst hf).1, (parseSymbol_rt s hs sc rest fuel h hst hf).2⟩

/-- **rt_xstr** (lexer level): capitalised ASCII type other than the reserved `C`, any value text -/
theorem rt_xstr (ty : List Char) (hty : isXStrType ty = true) (v : List Char) (sc : Scan) (rest : List UInt8)
    (fuel : Nat) (h : At sc (enc (.xstr ty v) true ++ rest)) (hs : sc.stash = []) (hd : Delim rest)
    (hf : (enc (.xstr ty v) true).length + 3 ≤ fuel) :
    ∃ sc', lexRead fuel sc = .ok { sc := sc', tok := .val (.xstr ty v) } ∧ At sc' rest := by
  obtain ⟨sc', e, hp⟩ := (tok_xstr ty v hty).2 sc rest fuel h hs hd hf
  exact ⟨sc', by simpa [lexImg] using e, hp.1⟩

/-! ### rung 4 — numbers, dates, times, coordinates (lexer level, after any `Delim`) -/

/-- **rt_number**: finite number whose decimal text is accepted by `f64::from_str` and whose unit is a
symbol of the unit table (`finiteNumOk`); also NaN, INF, -INF (`numOk`) -/
theorem rt_number (n : Num) (hn : numOk n = true) (sc : Scan) (rest : List UInt8) (fuel : Nat)
    (h : At sc (encNum n ++ rest)) (hs : sc.stash = []) (hd : Delim rest) (hf : (encNum n).length + 3 ≤ fuel) :
    ∃ sc', lexRead fuel sc = .ok { sc := sc', tok := .val (.num (lexNum n)) } ∧ At sc' rest := by
  have he : enc (.num n) true = encNum n := by rw [enc]
  obtain ⟨sc', e, hp⟩ := (tok_num n hn).2 sc rest fuel (by rw [he]; exact h) hs hd (by rw [he]; exact hf)
  refine ⟨sc', ?_, hp.1⟩
  rw [e, ← lexImage_eq]; rfl

theorem rt_date (d : Date) (hd' : dateOk d = true) (sc : Scan) (rest : List UInt8) (fuel : Nat)
    (h : At sc (encChars d.txt ++ rest)) (hs : sc.stash = []) (hd : Delim rest) (hf : 2 ≤ fuel) :
    ∃ sc', lexRead fuel sc = .ok { sc := sc', tok := .val (.date d) } ∧ At sc' rest := by
  obtain ⟨sc', e, h', _⟩ := lexRead_date d hd' sc rest fuel h hs hd hf
  exact ⟨sc', e, h'⟩

theorem rt_time (t : Time) (ht : timeOk t = true) (sc : Scan) (rest : List UInt8) (fuel : Nat)
    (h : At sc (encChars t.txt ++ rest)) (hs : sc.stash = []) (hd : Delim rest) (hf : t.txt.length + 2 ≤ fuel) :
    ∃ sc', lexRead fuel sc = .ok { sc := sc', tok := .val (.time t) } ∧ At sc' rest := by
  obtain ⟨sc', e, h', _⟩ := lexRead_time t ht sc rest fuel h hs hd hf
  exact ⟨sc', e, h'⟩

/-- **rt_datetime**: a timestamp token — date, `T`, time, optional fraction, `Z` / `Z Name` / `±hh:mm Name` with
valid calendar fields and a zone name the zone table resolves (`dtOk`) — comes back as its token text -/
theorem rt_datetime (t : DateTime) (ht : dtOk t = true) (sc : Scan) (rest : List UInt8) (fuel : Nat)
    (h : At sc (encDateTime t ++ rest)) (hs : sc.stash = []) (hd : Delim rest)
    (hf : (encDateTime t).length + 3 ≤ fuel) :
    ∃ sc', lexRead fuel sc = .ok { sc := sc', tok := .val (lexImage (.dateTime t)) } ∧ At sc' rest := by
  have he : enc (.dateTime t) true = encDateTime t := by rw [enc]
  obtain ⟨sc', e, hp⟩ := (tok_datetime t ht).2 sc rest fuel (by rw [he]; exact h) hs hd (by rw [he]; exact hf)
  exact ⟨sc', by rw [lexImage_eq]; exact e, hp.1⟩

theorem rt_coord (a b : Flt) (ha : decTextOk a.txt = true) (hb : decTextOk b.txt = true) (sc : Scan)
    (rest : List UInt8) (fuel : Nat) (h : At sc (enc (.coord a b) true ++ rest)) (hs : sc.stash = [])
    (hd : Delim rest) (hf : (enc (.coord a b) true).length + 3 ≤ fuel) :
    ∃ sc', lexRead fuel sc = .ok { sc := sc', tok := .val (lexImage (.coord a b)) } ∧ At sc' rest := by
  obtain ⟨sc', e, hp⟩ := (tok_coord a b ha hb).2 sc rest fuel h hs hd hf
  exact ⟨sc', by rw [lexImage_eq]; exact e, hp.1⟩

/-! ### rung 5 — composites, by mutual induction on `Val` -/

/-- **rt_list**: a list frames when its elements do -/
theorem rt_list (xs : Vals) (h : GoodVs xs) : RdVal (.list xs) := RdVal_list (rdVs xs h)

/-- **rt_dict**: identifier keys in strictly ascending order (`dictOf` rebuilds the same `Tags`) -/
theorem rt_dict (d : Tags) (hk : keysIdent d = true) (hs : keysSorted d.keys = true) (h : GoodT d) :
    RdVal (.dict d) := RdVal_dict hk hs (rdT 44 125 st_dict d hk h)

/-- **rt_grid** (nested `<< … >>`): header with meta, columns with meta, rows with Null and missing cells,
zero rows, nested grids in cells -/
theorem rt_grid (md : OTags) (cols : Cols) (rows : Rows) (ver : List Char)
    (h : GoodV (.grid md cols rows ver)) : RdVal (.grid md cols rows ver) := rdV _ h

/-! ### the property for the model -/

/-- **C01 for the model, for the explicit decidable well-formedness predicate `wfV`** (defined in
`Hs/Lemmas/ZincRtWf.lean`), all 18 kinds, any nesting below the reader's limit:

* tag, column, dict-key names are identifiers (`isIdent`); dict / meta / row keys strictly ascending
  (`keysSorted`: the `BTreeMap` order — `dictOf` rebuilds the same `Tags`);
* Ref ids non-empty over the id alphabet (`isRefId`), any display name; Symbol bodies `isSymBody`;
  XStr types capitalised ASCII names other than the reserved `C` (`isXStrType`), any XStr value, any Str, any Uri;
* numbers: NaN, ±INF, or a finite number whose text is a decimal `f64::from_str` accepts and whose unit is a
  symbol of the unit table made of unit characters (`numOk`); coordinates with decimal components;
* dates, times, timestamps whose texts chrono accepts and whose fields are what the text says (`dateOk`,
  `timeOk`, `dtOk`: zone name resolvable through the zone table);
* grids: `ver` = "3.0", at least one column, distinct identifier column names, meta dicts absent or non-empty,
  row keys among the column names, a single-column grid has no missing cell (`metaShape`, `colsShape`,
  `rowsShape`); grid meta, column meta (first, middle, last column), Null cells, missing cells, zero rows and
  nested grids are all covered;
* nesting at most 63 deep (`depthOk`): the reader rejects anything deeper (`MAX_NESTING_DEPTH = 64`).

Relative to the property's text the residual hypotheses are therefore: the nesting bound (the property says
"at any nesting depth", the repaired reader refuses depth ≥ 64), `ver` = "3.0" (the writer always prints 3.0),
grid/column meta not `Some(empty dict)` (written like `None`, read back as `None`), the single-column missing
cell (known finding Z4), and the XStr type `C`.  Numbers and timestamps are compared lexically (`lexImage`):
`parse (fmt x) = x` for `f64` and chrono's text round trip are trusted-base assumptions validated by the
harness. -/
theorem C01_wf : C01_full (fun v => wfV v = true ∧ depthOk v = true) := by
  intro v h
  rw [lexImage_eq]
  exact rt_of_wf v h.1 h.2

/-! ### the residual hypotheses of `wfV` / `depthOk` cannot be dropped (model of the code as it is) -/

def deepList : Nat → Val
  | 0 => .list .nil
  | n + 1 => .list (.cons (deepList n) .nil)

/-- 63 levels of nesting round-trip (by `C01_wf`), … -/
theorem deep63_ok : fromBytes (encode (deepList 63)) = .ok (lexImage (deepList 63)) :=
  C01_wf _ (by decide +kernel)
/-- … the 64th does not: the reader's `MAX_NESTING_DEPTH` makes the property's "at any nesting depth" false -/
theorem C01_cex_depth : (fromBytes (encode (deepList 64))).isOk = false := by decide +kernel

/-- the writer always prints `ver:"3.0"`: another version string does not come back -/
theorem C01_cex_ver :
    isOk (fromBytes (encode (.grid .none (.cons ['a'] .none .nil) .nil ['2', '.', '0'])))
      (fun v => match v with | .grid _ _ _ ver => ver == ['3', '.', '0'] | _ => false) = true := by decide +kernel

/-- grid meta `Some(empty dict)` is written like `None` and read back as `None` -/
theorem C01_cex_empty_meta :
    isOk (fromBytes (encode (.grid (.some .nil) (.cons ['a'] .none .nil) .nil ['3', '.', '0'])))
      (fun v => match v with | .grid .none _ _ _ => true | _ => false) = true := by decide +kernel

/-- known finding Z4: in a single-column grid a missing cell is written `N` and comes back as a Null cell -/
theorem C01_cex_single_missing :
    isOk (fromBytes (encode (.grid .none (.cons ['a'] .none .nil) (.cons .nil .nil) ['3', '.', '0'])))
      (fun v => match v with | .grid _ _ (.cons (.cons _ .null .nil) .nil) _ => true | _ => false) = true := by
  decide +kernel

/-- the XStr type `C` is the Coord literal of the grammar -/
theorem C01_cex_xstr_C : (fromBytes (encode (.xstr ['C'] ['x']))).isOk = false := by decide +kernel

/-! ### the hypotheses are satisfiable: concrete non-trivial inputs -/

section examples

/-- Str: controls, quote, backslash, `$`, BMP and astral characters -/
example : ∃ sc', parseStr 100 (Scan.make (encQuoted "a\t\"\\$\x01é€😀".toList ++ [44, 49])) =
    .ok ("a\t\"\\$\x01é€😀".toList, sc') ∧ At sc' [44, 49] :=
  rt_str _ _ _ _ (scan_make_at _) (by decide +kernel)

/-- Uri with a control character, a backquote, a backslash and non-ASCII text -/
example : ∃ sc', parseUri 100 (Scan.make (encUri "http://x/`a\\b\n é😀".toList ++ [93])) =
    .ok ("http://x/`a\\b\n é😀".toList, sc') ∧ At sc' [93] :=
  rt_uri _ _ _ _ (scan_make_at _) (by decide +kernel) (by decide +kernel)

example : isRefId "p:demo:r:2a.b-c~d_E".toList = true := by decide
/-- a Ref followed by a space and a tag name (grid meta): `RefEnd` -/
example : RefEnd [32, 97, 58] := Or.inr (Or.inr ⟨97, [58], rfl, by decide⟩)
example : isSymBody "lib:ph.a-b".toList = true := by decide
example : Stop isRefB [44] := Stop_cons (by decide)
example : isXStrType "Bin".toList = true := by decide
example : Delim [32, 100, 105, 115] := Or.inr (Or.inr ⟨100, [105, 115], rfl, by decide⟩)
example : Delim [10, 62, 62] := Or.inr (Or.inl ⟨10, [62, 62], rfl, by decide⟩)

/-- numbers: negative fraction with a non-ASCII unit of the table, a unit starting with `E`, a plain
integer, NaN and both infinities -/
example : numOk ⟨⟨0, "-12.5".toList⟩, some "°F".toList⟩ = true := by decide +kernel
example : numOk ⟨⟨0, "100000000000000000000".toList⟩, some "EER".toList⟩ = true := by decide +kernel
example : numOk ⟨⟨0, "0.000001".toList⟩, some "kW/m²".toList⟩ = true := by decide +kernel
example : numOk ⟨⟨0, "42".toList⟩, none⟩ = true := by decide +kernel
example : numOk ⟨⟨nanBits, "NaN".toList⟩, none⟩ = true := by decide +kernel
example : numOk ⟨⟨negInfBits, "-inf".toList⟩, none⟩ = true := by decide +kernel

example : dateOk ⟨2024, 2, 29, "2024-02-29".toList⟩ = true := by decide +kernel
example : timeOk ⟨1, 2, 3, 500000000, "01:02:03.500".toList⟩ = true := by decide +kernel
/-- a leap second -/
example : timeOk ⟨23, 59, 59, 1000000000, "23:59:60".toList⟩ = true := by decide +kernel
example : decTextOk "-33.8688".toList = true ∧ decTextOk "151.2093".toList = true := by decide +kernel
/-- timestamps: UTC, an offset zone with a fraction, a zone with offset zero, an `Etc/GMT-3` style name -/
example : dtOk ⟨0, 0, 0, "UTC".toList, "UTC".toList, "2024-02-29T12:34:56Z".toList⟩ = true := by decide +kernel
example : dtOk ⟨0, 0, -18000, "New_York".toList, "America/New_York".toList,
    "2024-02-29T12:34:56.789-05:00".toList⟩ = true := by decide +kernel
example : dtOk ⟨0, 0, 0, "London".toList, "Europe/London".toList, "2024-01-01T00:00:00Z".toList⟩ = true := by
  decide +kernel
example : dtOk ⟨0, 0, 10800, "GMT-3".toList, "Etc/GMT-3".toList, "2024-01-01T00:00:00.123456789+03:00".toList⟩ = true := by
  decide +kernel

def exNum : Val := .num ⟨⟨0, "21.5".toList⟩, some "°C".toList⟩
def exRow1 : Tags := .cons "id".toList (.ref "a-1".toList (some "Room \"1\"".toList))
  (.cons "temp".toList exNum (.cons "ts".toList (.date ⟨2024, 2, 29, "2024-02-29".toList⟩) .nil))
def exRow2 : Tags := .cons "temp".toList .null (.cons "ts".toList
  (.dateTime ⟨0, 0, -18000, "New_York".toList, "America/New_York".toList, "2024-02-29T12:34:56.789-05:00".toList⟩) .nil)
def exRow3 : Tags := .nil
def exInner : Val :=
  .grid .none (.cons "id".toList .none (.cons "temp".toList .none (.cons "ts".toList .none .nil)))
    (.cons exRow1 (.cons exRow2 (.cons exRow3 .nil))) "3.0".toList
/-- a grid with meta (Marker, Str, Ref followed by the next tag), column meta on the first and the last
column, a nested grid and a list of dicts in cells, Null and missing cells -/
def exGrid : Val :=
  .grid (.some (.cons "dis".toList (.str "Site é".toList) (.cons "hisRef".toList (.ref "h".toList none)
      (.cons "m".toList .marker .nil))))
    (.cons "a".toList (.some (.cons "dis".toList (.str "A".toList) (.cons "unitRef".toList (.ref "u".toList none) .nil)))
      (.cons "b".toList .none (.cons "c".toList (.some (.cons "x".toList .marker .nil)) .nil)))
    (.cons (.cons "a".toList exInner (.cons "c".toList
        (.list (.cons (.dict (.cons "k".toList (.uri "http://x/`".toList) (.cons "t".toList
          (.time ⟨1, 2, 3, 0, "01:02:03".toList⟩) .nil))) (.cons (.coord ⟨0, "-1.5".toList⟩ ⟨0, "3".toList⟩)
          (.cons (.xstr "Bin".toList "a\"b".toList) (.cons (.sym "ph-lib".toList) .nil))))) .nil))
      (.cons (.cons "b".toList .na .nil) (.cons .nil .nil)))
    "3.0".toList
def exZeroRows : Val := .grid .none (.cons "only".toList .none .nil) .nil "3.0".toList

example : wfV exGrid = true ∧ depthOk exGrid = true := by decide +kernel
example : wfV exZeroRows = true ∧ depthOk exZeroRows = true := by decide +kernel
example : GoodV exInner := good_of_wf _ (by decide +kernel)
example : GoodVs (.cons exNum (.cons exInner .nil)) := goods_of_wf _ (by decide +kernel)
example : keysIdent exRow1 = true ∧ keysSorted exRow1.keys = true ∧ GoodT exRow1 :=
  ⟨by decide, by decide, goodt_of_wf _ (by decide +kernel)⟩

/-- the round trip of the example grids, through `C01_wf` -/
example : fromBytes (encode exGrid) = .ok (lexImage exGrid) := C01_wf exGrid (by decide +kernel)
example : fromBytes (encode exZeroRows) = .ok (lexImage exZeroRows) := C01_wf exZeroRows (by decide +kernel)

end examples

end Hs.C01
