/-
  C15 — every database unit is found by each of its names and survives both codecs.

  The table (`Hs.Gen.Units`: 443 unit statics, the 946-entry `UNITS` map, the byte classes of the Zinc number
  reader) is regenerated from /repo on every run; the kernel-decided facts about it are in
  `Hs.Lemmas.UnitsTable`.  Everything below is derived from those facts by general lemmas and holds for every
  unit of the table, every id, EVERY string (lookup of a non-id), every decimal text and every continuation of
  the input.  Rust's `f64` printing/parsing is a parameter (`FloatIO`, trusted base, exercised by the harness).
-/
import Hs.Lemmas.UnitsTable
namespace Hs.C15
open Hs Hs.Units Hs.Gen.Units

/-! ## lookup -/

/-- Looking up any id of any unit returns that unit. -/
theorem ids_resolve (u : Row) (hu : u ∈ units) (id : List Char) (hid : id ∈ u.ids) : getUnit id = some u := by
  obtain ⟨i, hi⟩ := List.getElem?_of_mem hu
  have hm : (id, i) ∈ entries := (tableOK.mem_iff (id, i)).2 (mem_flatIds.2 ⟨u, hi, hid⟩)
  have := findIdx_of_mem_nodup tableOK.entries_nodup hm
  unfold getUnit getUnitIdx
  rw [this]; exact hi

/-- Every entry of `UNITS` maps an id of the unit it points to. -/
theorem entries_are_ids (e : List Char × Nat) (he : e ∈ entries) : ∃ u, units[e.2]? = some u ∧ e.1 ∈ u.ids :=
  mem_flatIds.1 ((tableOK.mem_iff e).1 he)

/-- No id belongs to two units. -/
theorem no_shared_id (i j : Nat) (u v : Row) (id : List Char) (hi : units[i]? = some u) (hj : units[j]? = some v)
    (hu : id ∈ u.ids) (hv : id ∈ v.ids) : i = j := by
  have h1 := findIdx_of_mem_nodup tableOK.flatIds_nodup (mem_flatIds.2 ⟨u, hi, hu⟩)
  have h2 := findIdx_of_mem_nodup tableOK.flatIds_nodup (mem_flatIds.2 ⟨v, hj, hv⟩)
  rw [h1] at h2
  exact Option.some.inj h2

/-- A lookup that answers, answers with a unit of the table that has the string among its ids … -/
theorem getUnit_some (s : List Char) (u : Row) (h : getUnit s = some u) : u ∈ units ∧ s ∈ u.ids := by
  unfold getUnit getUnitIdx at h
  cases hf : findIdx s entries with
  | none => simp [hf] at h
  | some i =>
    simp only [hf, Option.bind_some] at h
    obtain ⟨u', hu', hs⟩ := entries_are_ids (s, i) (findIdx_some_mem hf)
    have : u' = u := Option.some.inj (hu'.symm.trans h)
    subst this
    exact ⟨List.mem_of_getElem? hu', hs⟩

/-- … so looking up a string that is no unit's id returns nothing (any string). -/
theorem getUnit_none_of_not_id (s : List Char) (h : ∀ u ∈ units, s ∉ u.ids) : getUnit s = none := by
  cases hg : getUnit s with
  | none => rfl
  | some u => exact absurd (getUnit_some s u hg).2 (h u (getUnit_some s u hg).1)

/-! ## the symbol -/

theorem symbol_mem_ids (u : Row) (h : symbol u ≠ []) : symbol u ∈ u.ids := by
  unfold symbol at h ⊢
  cases hl : u.ids.getLast? with
  | none => simp [hl] at h
  | some s => simpa [hl] using List.mem_of_getLast? hl

/-- Every unit's symbol is non-empty, consists of unit bytes only, does not start with a byte of the decimal
scan and is not an exponent prefix. -/
theorem symbol_lexable (u : Row) (hu : u ∈ units) :
    symbol u ≠ [] ∧ symbolBytes u ≠ [] ∧ (∀ b ∈ symbolBytes u, isUnitChar b = true) ∧
    (∀ b, (symbolBytes u).head? = some b → isDecChar b = false) ∧ expPrefix (symbolBytes u) = false := by
  have h := List.all_eq_true.1 table_symbols u hu
  simp only [symbolOk, Bool.and_eq_true, Bool.not_eq_true', List.all_eq_true] at h
  obtain ⟨⟨⟨h1, h2⟩, h3⟩, h4⟩ := h
  have hne : symbolBytes u ≠ [] := by
    intro h0; rw [h0] at h1; simp at h1
  refine ⟨?_, hne, h2, ?_, h4⟩
  · intro h0
    apply hne
    simp [symbolBytes, utf8, h0]
  · intro b hb
    rw [hb] at h3
    simpa using h3

/-- The symbol is one of the unit's ids, hence resolves to the unit: what the Hayson decoder does with the
`unit` entry (`get_unit(unit.as_str())`). -/
theorem C15_json (u : Row) (hu : u ∈ units) : getUnit (symbol u) = some u :=
  ids_resolve u hu _ (symbol_mem_ids u (symbol_lexable u hu).1)

/-! ## Zinc -/

/-- `parse_unit` reads back exactly the symbol when the input ends there or continues with a non-unit byte. -/
theorem parseUnit_symbol (u : Row) (hu : u ∈ units) (rest : List UInt8) (hr : Delim rest) :
    parseUnit (symbolBytes u ++ rest) = (symbolBytes u, rest) :=
  parseUnit_reads _ _ (symbol_lexable u hu).2.2.1 hr

/-- A decimal text followed by a unit's symbol splits back into that decimal (no exponent) and that unit. -/
theorem C15_zinc (u : Row) (hu : u ∈ units) (d rest : List UInt8) (hd : DecimalText d) (hr : Delim rest) :
    lexNumber (d ++ symbolBytes u ++ rest) = .ok (⟨d, none, some (symbolBytes u), rest⟩, some u) := by
  obtain ⟨_, hne, hall, hfirst, hexp⟩ := symbol_lexable u hu
  have h := lexNumberText_reads d (symbolBytes u) rest hd hall hne hfirst hexp hr
  have hg : getUnitOfBytes (symbolBytes u) = some u := by
    rw [symbolBytes, getUnitOfBytes_utf8]; exact C15_json u hu
  simp only [lexNumber, h, hg]

/-- Encode then decode of a finite Number with a unit gives back the value and the unit, for any behaviour of
`f64` printing/parsing that prints decimal texts and parses back what it prints. -/
theorem C15_zinc_roundtrip {F : Type} (P : FloatIO F) (x : F) (u : Row) (hu : u ∈ units)
    (rest : List UInt8) (hr : Delim rest) :
    decodeNumber P (encodeNumber P x u ++ rest) = some (x, some u) := by
  have h := C15_zinc u hu (P.fmt x) rest (P.fmt_shape x) hr
  simp only [decodeNumber, encodeNumber, h, P.parse_fmt, Option.getD_none, List.append_nil, Option.map_some]

/-! ## the property at full strength -/

def C15_full : Prop :=
  (∀ u ∈ units, ∀ id ∈ u.ids, getUnit id = some u) ∧
  (∀ s : List Char, (∀ u ∈ units, s ∉ u.ids) → getUnit s = none) ∧
  (∀ u ∈ units, getUnit (symbol u) = some u) ∧
  (∀ (F : Type) (P : FloatIO F) (x : F), ∀ u ∈ units, ∀ rest, Delim rest →
    decodeNumber P (encodeNumber P x u ++ rest) = some (x, some u))

theorem C15_holds : C15_full :=
  ⟨ids_resolve, getUnit_none_of_not_id, C15_json, fun _ P x u hu rest hr => C15_zinc_roundtrip P x u hu rest hr⟩

/-! ## non-vacuity -/

/-- the table is populated and lookups compute -/
example : (getUnit ['k', 'W']).map name = some "kilowatt".toList ∧ getUnit ['k', 'w'] = none ∧
    (getUnit "meter".toList).map symbol = some ['m'] := by decide +kernel
/-- a float printer/parser satisfying the hypotheses of `FloatIO` exists -/
def twoFloats : FloatIO Bool where
  fmt b := if b then [49, 46, 53] else [45, 48]            -- "1.5", "-0"
  parse t := if t = [49, 46, 53] then some true else if t = [45, 48] then some false else none
  parse_fmt b := by cases b <;> decide
  fmt_shape b := by cases b <;> decide
/-- `-0m³` followed by `,`: decimal `-0`, unit `cubic_meter` -/
example : (decodeNumber twoFloats ([45, 48] ++ utf8 ['m', '³'] ++ [44])).map (fun r => (r.1, r.2.map name))
    = some (false, some "cubic_meter".toList) := by decide +kernel
/-- the hypotheses of `C15_zinc` are satisfiable: `Delim` holds of `,…`, `DecimalText` of `123.456` -/
example : Delim [44, 32] ∧ DecimalText [49, 50, 51, 46, 52, 53, 54] := by
  refine ⟨.inr ⟨44, [32], rfl, by decide⟩, by decide⟩

end Hs.C15
