/-
  C02 — Hayson (JSON) encode → decode returns the original value.

  Model at the level of the JSON tree: `Hs.Hayson.toJson` (the `Serialize` impls) and
  `Hs.Hayson.fromJson` (`JsonValueDecoderVisitor`, member by member in document order).
  serde_json's text layer (print, then parse) is outside the model: every number token carries the
  f64 serde_json/std make of it; it is exercised through all six entry points on every run.
-/
import Hs.Lemmas.HaysonGrid
set_option linter.unusedSimpArgs false
namespace Hs.C02
open Hs Hs.Hayson

/-- what comes back for a number: canonical NaN / infinities (spelled as strings), `0.0` for `-0.0`
when it travels as the integer `0`, everything else bit for bit -/
def numImage (n : Num) : Num :=
  if isNaN n.v then { v := mkFlt 0x7FF8000000000000 "NaN", unit := n.unit }
  else if isInf n.v then
    { v := (if isNeg n.v then mkFlt 0xFFF0000000000000 "-inf" else mkFlt 0x7FF0000000000000 "inf"), unit := n.unit }
  else if n.unit.isNone && exactInt n.v == some 0 then { v := { bits := 0, txt := ['0'] }, unit := none }
  else n

mutual
/-- the image of a value under encode-then-decode (dates, times and timestamps as the texts chrono re-reads) -/
def jImage : Val → Val
  | .num n => .num (numImage n)
  | .date d => lexDate d.txt
  | .time t => lexTime t.txt
  | .dateTime t => lexDateTime t.txt (if t.tzid == s "UTC" then none else some t.zone)
  | .list xs => .list (jImages xs)
  | .dict d => .dict (jImageTags d)
  | .grid md cols rows _ =>
    .grid (.some (match md with | .some t => jImageTags t | .none => .nil)) (jImageCols cols) (jImageRows rows) (s "3.0")
  | v => v
def jImages : Vals → Vals
  | .nil => .nil
  | .cons v vs => .cons (jImage v) (jImages vs)
def jImageTags : Tags → Tags
  | .nil => .nil
  | .cons k v t => .cons k (jImage v) (jImageTags t)
def jImageCols : Cols → Cols
  | .nil => .nil
  | .cons n md c => .cons n (match md with | .some t => .some (jImageTags t) | .none => .none) (jImageCols c)
def jImageRows : Rows → Rows
  | .nil => .nil
  | .cons r rs => .cons (jImageTags r) (jImageRows rs)
end

/-- The property at full strength (tree level): for well-formed values — tag names sorted, distinct
and different from `_kind`, no grid meta tag named `ver`, database units, finite coordinates —
decoding the encoder's tree gives the image of the value, nothing lost, nothing added. -/
def C02_full (WF : Val → Prop) : Prop :=
  ∀ v, WF v → fromJson (toJson v) = .ok (jImage v)

def okIs (r : Res Val) (p : Val → Bool) : Bool :=
  match r with
  | .ok v => p v
  | _ => false

/-- finite kinds, exhaustively -/
theorem rt_finite_kinds :
    okIs (fromJson (toJson .null)) (fun v => match v with | .null => true | _ => false) = true ∧
    okIs (fromJson (toJson .marker)) (fun v => match v with | .marker => true | _ => false) = true ∧
    okIs (fromJson (toJson .remove)) (fun v => match v with | .remove => true | _ => false) = true ∧
    okIs (fromJson (toJson .na)) (fun v => match v with | .na => true | _ => false) = true ∧
    (∀ b, okIs (fromJson (toJson (.bool b))) (fun v => match v with | .bool c => c == b | _ => false) = true) := by
  refine ⟨by decide +kernel, by decide +kernel, by decide +kernel, by decide +kernel, ?_⟩
  intro b; cases b <;> decide +kernel

/-- strings of every content travel as plain JSON strings -/
theorem rt_str (x : List Char) : fromJson (toJson (.str x)) = .ok (.str x) := by
  simp [toJson, fromJson]

/-- the integral magnitudes beyond the i64 range are written as floats, not saturated: 1e20 -/
example : (match toJson (.num { v := { bits := 0x4415AF1D78B58C40, txt := "100000000000000000000".toList }, unit := none }) with
    | .flt _ => true | _ => false) = true := by decide +kernel
/-- … and 2^63 - 1024 (the largest double below 2^63) still travels as an integer -/
example : (match toJson (.num { v := { bits := 0x43DFFFFFFFFFFFFF, txt := "9223372036854775000".toList }, unit := none }) with
    | .int i _ => i == 9223372036854774784 | _ => false) = true := by decide +kernel


/-! ## Well-formedness: exactly what the round trip needs

Each condition with the line of the Rust code that forces it (`e` = src/haystack/encoding/json/encode.rs,
`d` = …/json/decode.rs, line numbers of the pinned tree; found by `#eval` on the model, witnesses below):

* **dict / grid meta / column meta / row keys strictly ascending in code point order** — `d`:299
  `dict.insert(key, value)` in `visit_map` collects the members into a `BTreeMap`: the entries come back
  in key order, and a repeated key keeps only its last value.  (`Dict` *is* a `BTreeMap`, so every real
  `Dict` satisfies this; the hand-rolled `Tags` of the model need it stated.)
* **no key `_kind`** — `d`:268 `if key == "_kind"` treats the member as the type tag (returns at once for
  `marker`/`remove`/`na`, `Err` for an unknown or non-string kind) and never inserts it.
* **no key `ver` in a grid meta** — `d`:485 `meta.get_str("ver")` becomes the grid's version and `d`:488
  `meta.remove("ver")` drops the tag whatever its type.  (Column meta and rows may have a `ver`.)
* **units are database symbols** (`unitSymbol u = some u`) — `d`:369 `get_unit(unit.as_str())` in
  `parse_number` fails on an unknown id and resolves an alias to its unit, whose symbol is what the
  decoded `Number` carries.
* **coordinates finite** — `e`:154/155 `impl Serialize for Coord` writes `lat`/`lng` as plain `f64`, which
  serde_json prints as `null` for NaN/±inf; `d`:458/459 `dict.get_num("lat")` / `get_num("lng")` in
  `parse_coord` then finds no number and fails (`coord_nonfinite_err`).  A `Number` is safe: `e`:83
  `impl Serialize for Number` spells the three as strings.
* the grid's `ver` is **not** needed for `C02_full`: `e`:180 `impl Serialize for Grid` never writes it and
  `d` `parse_grid` assumes `GRID_FORMAT_VERSION`; `jImage` says `"3.0"`.  It is needed for the identity
  (`plain`, `C02_identity` below), as is a present grid meta (`e`:184–188 writes `{}` for an absent one).
* nothing is asked of strings, ref ids, uris, symbols, xstr types, column names (a column named like no
  row tag, repeated column names), list lengths or nesting depth.
-/

def finiteF (f : Flt) : Bool := !(isNaN f || isInf f)

mutual
def wfj : Val → Bool
  | .num n => match n.unit with
    | some u => Hs.Zinc.unitSymbol u == some u
    | none => true
  | .coord a b => finiteF a && finiteF b
  | .list xs => wfjs xs
  | .dict d => wfTags d && strictSorted d.keys
  | .grid md cols rows _ =>
    (match md with
      | .some t => wfTags t && strictSorted t.keys && !(t.keys.contains (s "ver"))
      | .none => true) && wfCols cols && wfRows rows
  | _ => true
def wfjs : Vals → Bool
  | .nil => true
  | .cons v vs => wfj v && wfjs vs
/-- every value well formed, no key `_kind` -/
def wfTags : Tags → Bool
  | .nil => true
  | .cons k v t => k != s "_kind" && wfj v && wfTags t
def wfCols : Cols → Bool
  | .nil => true
  | .cons _ md c =>
    (match md with
      | .some t => wfTags t && strictSorted t.keys
      | .none => true) && wfCols c
def wfRows : Rows → Bool
  | .nil => true
  | .cons r rs => wfTags r && strictSorted r.keys && wfRows rs
end

/-- the well-formedness the Hayson round trip needs (decidable: `wfj` is a Boolean function) -/
def WFj (v : Val) : Prop := wfj v = true

instance (v : Val) : Decidable (WFj v) := inferInstanceAs (Decidable (wfj v = true))

/-! ## Scalars, all payloads -/

/-- numbers: finite, NaN, ±INF; with a (database) unit and without; integral inside and outside the
i64 range (`numImage` says what comes back) -/
theorem rt_num (n : Num) (hu : ∀ u, n.unit = some u → Hs.Zinc.unitSymbol u = some u) :
    fromJson (toJson (.num n)) = .ok (.num (numImage n)) := by
  obtain ⟨v, unit⟩ := n
  cases unit with
  | some u =>
    have hu' := hu u rfl
    by_cases hN : isNaN v = true
    · simp [toJson, encNumber, numImage, hN, fromJson, visitMap, s, knownKinds, insertTag, leChars, finish,
        getStr, getTag, getNum, hu']
    · by_cases hI : isInf v = true
      · by_cases hS : isNeg v = true <;>
        simp [toJson, encNumber, numImage, hN, hI, hS, fromJson, visitMap, s, knownKinds, insertTag, leChars, finish,
          getStr, getTag, getNum, hu']
      · simp [toJson, encNumber, numImage, hN, hI, jF64, fromJson, visitMap, s, knownKinds, insertTag, leChars, finish,
          getStr, getTag, getNum, hu']
  | none =>
    by_cases hN : isNaN v = true
    · simp [toJson, encNumber, numImage, hN, fromJson, visitMap, s, knownKinds, insertTag, leChars, finish,
        getStr, getTag, getNum]
    · by_cases hI : isInf v = true
      · by_cases hS : isNeg v = true <;>
        simp [toJson, encNumber, numImage, hN, hI, hS, fromJson, visitMap, s, knownKinds, insertTag, leChars, finish,
          getStr, getTag, getNum]
      · cases hE : exactInt v with
        | none => simp [toJson, encNumber, numImage, hN, hI, hE, fromJson]
        | some i =>
          by_cases hR : (-9223372036854775808 ≤ i && i < 9223372036854775808) = true
          · by_cases h0 : i = 0
            · subst h0
              simp [toJson, encNumber, numImage, hN, hI, hE, fromJson]
            · simp [toJson, encNumber, numImage, hN, hI, hE, hR, h0, fromJson]
          · simp [toJson, encNumber, numImage, hN, hI, hE, hR, fromJson]
            intro h0; subst h0; simp at hR

/-- a finite number that is not an integral value travelling as the integer 0 comes back bit for bit -/
theorem rt_num_exact (n : Num) (hu : ∀ u, n.unit = some u → Hs.Zinc.unitSymbol u = some u)
    (hN : isNaN n.v = false) (hI : isInf n.v = false) (h0 : n.unit.isSome ∨ exactInt n.v ≠ some 0) :
    fromJson (toJson (.num n)) = .ok (.num n) := by
  rw [rt_num n hu]
  rcases h0 with h0 | h0
  · cases hu' : n.unit with
    | none => simp [hu'] at h0
    | some u => simp [numImage, hN, hI, hu']
  · simp [numImage, hN, hI, h0]

/-- an integral number outside the i64 range is not saturated: it travels as a float token -/
theorem rt_num_big (v : Flt) (i : Int) (hE : exactInt v = some i)
    (hR : i < -9223372036854775808 ∨ 9223372036854775808 ≤ i) :
    toJson (.num { v := v, unit := none }) = .flt v ∧
    fromJson (toJson (.num { v := v, unit := none })) = .ok (.num { v := v, unit := none }) := by
  have hN : isNaN v = false := by
    cases h : isNaN v with
    | false => rfl
    | true =>
      simp [isNaN] at h
      simp [exactInt, h.1] at hE
  have hI : isInf v = false := by
    cases h : isInf v with
    | false => rfl
    | true =>
      simp [isInf] at h
      simp [exactInt, h.1] at hE
  have hR' : (decide (-9223372036854775808 ≤ i) && decide (i < 9223372036854775808)) = false := by
    rcases hR with h | h
    · have : ¬ (-9223372036854775808 ≤ i) := by omega
      simp [this]
    · have : ¬ (i < 9223372036854775808) := by omega
      simp [this]
  constructor
  · simp [toJson, encNumber, hN, hI, hE, hR']
  · simp [toJson, encNumber, hN, hI, hE, hR', fromJson]

theorem rt_ref (id : List Char) (dis : Option (List Char)) :
    fromJson (toJson (.ref id dis)) = .ok (.ref id dis) := by
  cases dis <;>
  simp [toJson, kindObj, fromJson, visitMap, s, insertTag, finish, knownKinds, getStr, getTag, leChars]

theorem rt_uri (x : List Char) : fromJson (toJson (.uri x)) = .ok (.uri x) := by
  simp [toJson, kindObj, fromJson, visitMap, s, insertTag, finish, knownKinds, getStr, getTag]

theorem rt_symbol (x : List Char) : fromJson (toJson (.sym x)) = .ok (.sym x) := by
  simp [toJson, kindObj, fromJson, visitMap, s, insertTag, finish, knownKinds, getStr, getTag]

theorem rt_xstr (ty v : List Char) : fromJson (toJson (.xstr ty v)) = .ok (.xstr ty v) := by
  simp [toJson, kindObj, fromJson, visitMap, s, insertTag, finish, knownKinds, getStr, getTag, leChars]

/-- dates come back as the text chrono printed (`str::parse::<Date>` re-reads it: trusted base) -/
theorem rt_date (d : Date) : fromJson (toJson (.date d)) = .ok (lexDate d.txt) := by
  simp [toJson, kindObj, fromJson, visitMap, s, insertTag, finish, knownKinds, getStr, getTag]

theorem rt_time (t : Time) : fromJson (toJson (.time t)) = .ok (lexTime t.txt) := by
  simp [toJson, kindObj, fromJson, visitMap, s, insertTag, finish, knownKinds, getStr, getTag]

/-- timestamps: the RFC 3339 text, and the zone's city name unless the zone is UTC -/
theorem rt_dateTime (t : DateTime) :
    fromJson (toJson (.dateTime t)) =
      .ok (lexDateTime t.txt (if t.tzid == s "UTC" then none else some t.zone)) := by
  by_cases h : t.tzid = ['U', 'T', 'C']
  · simp [toJson, kindObj, fromJson, visitMap, h, insertTag, finish, knownKinds, getStr, getTag, s]
  · simp [toJson, kindObj, fromJson, visitMap, h, insertTag, finish, knownKinds, getStr, getTag, s, leChars]

/-- finite coordinates come back bit for bit … -/
theorem rt_coord (a b : Flt) (ha : finiteF a = true) (hb : finiteF b = true) :
    fromJson (toJson (.coord a b)) = .ok (.coord a b) := by
  simp [finiteF] at ha hb
  simp [toJson, kindObj, fromJson, visitMap, jF64, ha, hb, s, insertTag, finish, knownKinds, getNum, getTag, leChars]

/-- … and a non-finite one is written as `null` and refused (why `WFj` asks for finite coordinates) -/
theorem coord_nonfinite_err (a b : Flt) (h : finiteF a = false ∨ finiteF b = false) :
    fromJson (toJson (.coord a b)) = .err := by
  by_cases ha : finiteF a = true
  · have hb : finiteF b = false := by
      rcases h with h | h
      · rw [ha] at h; cases h
      · exact h
    simp [finiteF] at ha hb
    by_cases hbn : isNaN b = true
    · simp [toJson, kindObj, fromJson, visitMap, jF64, ha, hbn, s, insertTag, finish, knownKinds, getNum, getTag, leChars]
    · have hbi := hb (by simpa using hbn)
      simp [toJson, kindObj, fromJson, visitMap, jF64, ha, hbi, s, insertTag, finish, knownKinds, getNum, getTag, leChars]
  · simp [finiteF] at ha
    by_cases han : isNaN a = true
    · by_cases hb : (isNaN b || isInf b) = true <;>
      simp [toJson, kindObj, fromJson, visitMap, jF64, han, hb, s, insertTag, finish, knownKinds, getNum, getTag, leChars]
    · have hai := ha (by simpa using han)
      by_cases hb : (isNaN b || isInf b) = true <;>
      simp [toJson, kindObj, fromJson, visitMap, jF64, hai, hb, s, insertTag, finish, knownKinds, getNum, getTag, leChars]

/-! ## Containers

The mutual induction only establishes that every member/element decodes to the image of the value it
was written from (`view (tagsJson t) = okView …`); that the visitor then collects strictly ascending
`_kind`-free entries in the order they were written is `Hs.Hayson.runR_sorted` (no induction on values). -/

theorem jImageTags_keys : ∀ t : Tags, (jImageTags t).toList.map (·.1) = t.keys
  | .nil => rfl
  | .cons k v t => by simp [jImageTags, Tags.toList, Tags.keys, jImageTags_keys t]

theorem wfTags_noKind : ∀ t : Tags, wfTags t = true → ∀ p ∈ (jImageTags t).toList, p.1 ≠ s "_kind"
  | .nil, _, p, hp => by simp [jImageTags, Tags.toList] at hp
  | .cons k v t, h, p, hp => by
    simp [wfTags] at h
    simp [jImageTags, Tags.toList] at hp
    rcases hp with e | hp
    · subst e; exact h.1.1
    · exact wfTags_noKind t h.2 p hp

/-- **the key lemma for containers**, on the encoder's members: for strictly ascending `_kind`-free tags
whose values decode to their images, the visitor started with `kind` and the entries `d` (all below the
keys of `t`) ends in `finish kind (d ++ image entries)` -/
theorem visitMap_tagsJson (t : Tags) (kind : List Char) (d : List (List Char × Val))
    (hv : view (tagsJson t) = okView (jImageTags t).toList) (hw : wfTags t = true)
    (hs : ((d.map (·.1)) ++ t.keys).Pairwise (fun a b => ltChars a b = true)) :
    visitMap (tagsJson t) kind d = finish kind (d ++ (jImageTags t).toList) := by
  rw [visitMap_eq_runR, hv]
  exact runR_sorted _ kind d (wfTags_noKind t hw) (by simpa [jImageTags_keys] using hs)

/-- a dict object `{…}` written from sorted tags decodes to the dict of the images -/
theorem obj_tags (t : Tags) (hv : view (tagsJson t) = okView (jImageTags t).toList)
    (hw : wfTags t = true) (hs : strictSorted t.keys = true) :
    fromJson (.obj (tagsJson t)) = .ok (.dict (jImageTags t)) := by
  have := fromJson_obj_sorted (tagsJson t) (jImageTags t).toList hv (wfTags_noKind t hw)
    (by rw [jImageTags_keys]; exact hs)
  rw [this, Tags.ofList_toList]

theorem obj_nil : fromJson (.obj .nil) = .ok (.dict .nil) := by
  simp [fromJson, visitMap, finish, s, Tags.ofList]

mutual
theorem rt_val : (v : Val) → wfj v = true → fromJson (toJson v) = .ok (jImage v)
  | .null, _ => by simp [toJson, fromJson, jImage]
  | .remove, _ => by simp [toJson, kindObj, fromJson, visitMap, earlyReturn, s, jImage]
  | .marker, _ => by simp [toJson, kindObj, fromJson, visitMap, earlyReturn, s, jImage]
  | .na, _ => by simp [toJson, kindObj, fromJson, visitMap, earlyReturn, s, jImage]
  | .bool b, _ => by simp [toJson, fromJson, jImage]
  | .num n, h => by
    have := rt_num n (by
      intro u hu
      simp [wfj, hu] at h
      exact h)
    simpa [jImage] using this
  | .str x, _ => by simp [toJson, fromJson, jImage]
  | .uri x, _ => by simpa [jImage] using rt_uri x
  | .ref id dis, _ => by simpa [jImage] using rt_ref id dis
  | .sym x, _ => by simpa [jImage] using rt_symbol x
  | .date d, _ => by simpa [jImage] using rt_date d
  | .time t, _ => by simpa [jImage] using rt_time t
  | .dateTime t, _ => by simpa [jImage] using rt_dateTime t
  | .coord a b, h => by
    simp [wfj] at h
    simpa [jImage] using rt_coord a b h.1 h.2
  | .xstr ty v, _ => by simpa [jImage] using rt_xstr ty v
  | .list xs, h => by
    have ih := rt_vals xs (by simpa [wfj] using h)
    rw [toJson, fromJson_arr _ _ ih, jImage, Vals.ofList_toList]
  | .dict d, h => by
    simp [wfj] at h
    rw [toJson, jImage]
    exact obj_tags d (rt_tags d h.1) h.1 h.2
  | .grid (.some t) cols rows ver, h => by
    simp [wfj] at h
    have hm := obj_tags t (rt_tags t h.1.1.1.1) h.1.1.1.1 h.1.1.1.2
    have hc := fromJson_arr _ _ (rt_cols cols h.1.2)
    have hr := fromJson_arr _ _ (rt_rows rows h.2)
    have hver : ∀ p ∈ (jImageTags t).toList, p.1 ≠ s "ver" := by
      intro p hp e
      have : p.1 ∈ t.keys := by
        rw [← jImageTags_keys]; exact List.mem_map_of_mem hp
      exact h.1.1.2 (e ▸ this)
    simp only [toJson]
    rw [fromJson_gridObj _ _ _ _ _ _ hm hc hr, finish_grid _ _ _ hver, jImage,
      Cols.ofList_toList, Rows.ofList_toList]
  | .grid .none cols rows ver, h => by
    simp [wfj] at h
    have hc := fromJson_arr _ _ (rt_cols cols h.1)
    have hr := fromJson_arr _ _ (rt_rows rows h.2)
    simp only [toJson]
    rw [fromJson_gridObj _ _ _ _ _ _ obj_nil hc hr, finish_grid _ _ _ (by simp [Tags.toList]), jImage,
      Cols.ofList_toList, Rows.ofList_toList]
theorem rt_vals : (vs : Vals) → wfjs vs = true → seq (listJson vs) = .ok (jImages vs).toList
  | .nil, _ => by simp [listJson, seq, jImages, Vals.toList]
  | .cons v vs, h => by
    simp [wfjs] at h
    simp only [listJson, jImages, Vals.toList]
    exact seq_cons _ _ _ _ (rt_val v h.1) (rt_vals vs h.2)
theorem rt_tags : (t : Tags) → wfTags t = true → view (tagsJson t) = okView (jImageTags t).toList
  | .nil, _ => by simp [tagsJson, view, jImageTags, Tags.toList, okView]
  | .cons k v t, h => by
    simp [wfTags] at h
    have ih := rt_tags t h.2
    simp only [okView] at ih ⊢
    simp [tagsJson, view, jImageTags, Tags.toList, rt_val v h.1.2, ih]
theorem rt_cols : (c : Cols) → wfCols c = true → seq (colsJson c) = .ok ((jImageCols c).toList.map colVal)
  | .nil, _ => by simp [colsJson, seq, jImageCols, Cols.toList]
  | .cons n (.some t) c, h => by
    simp [wfCols] at h
    have ht := obj_tags t (rt_tags t h.1.1) h.1.1 h.1.2
    simp only [colsJson, jImageCols, Cols.toList, List.map_cons]
    exact seq_cons _ _ _ _ (fromJson_col_some n _ _ ht) (rt_cols c h.2)
  | .cons n .none c, h => by
    simp [wfCols] at h
    simp only [colsJson, jImageCols, Cols.toList, List.map_cons]
    exact seq_cons _ _ _ _ (fromJson_col_none n) (rt_cols c h)
theorem rt_rows : (r : Rows) → wfRows r = true → seq (rowsJson r) = .ok ((jImageRows r).toList.map Val.dict)
  | .nil, _ => by simp [rowsJson, seq, jImageRows, Rows.toList]
  | .cons r rs, h => by
    simp [wfRows] at h
    simp only [rowsJson, jImageRows, Rows.toList, List.map_cons]
    exact seq_cons _ _ _ _ (obj_tags r (rt_tags r h.1.1) h.1.1 h.1.2) (rt_rows rs h.2)
end

/-- **C02 for the model**: decoding the encoder's tree of a well-formed value gives its image -/
theorem C02_holds : C02_full WFj := fun v h => rt_val v h

theorem rt_list (xs : Vals) (h : WFj (.list xs)) :
    fromJson (toJson (.list xs)) = .ok (.list (jImages xs)) := by
  simpa [jImage] using rt_val _ h

theorem rt_dict (d : Tags) (h : WFj (.dict d)) :
    fromJson (toJson (.dict d)) = .ok (.dict (jImageTags d)) := by
  simpa [jImage] using rt_val _ h

/-- the grid meta that comes back: an absent one as an empty one -/
def jImageMeta (md : OTags) : Tags :=
  match md with
  | .some t => jImageTags t
  | .none => .nil

/-- no column, row, cell or meta tag is lost; an absent meta comes back as an empty one -/
theorem rt_grid (md : OTags) (cols : Cols) (rows : Rows) (ver : List Char) (h : WFj (.grid md cols rows ver)) :
    fromJson (toJson (.grid md cols rows ver)) =
      .ok (.grid (.some (jImageMeta md)) (jImageCols cols) (jImageRows rows) (s "3.0")) := by
  cases md <;> simpa [jImage, jImageMeta] using rt_val _ h

/-! ## Non-vacuity: a concrete nested value satisfies `WFj` -/

def f64_1 : Flt := { bits := 0x3FF0000000000000, txt := ['1'] }
def f64_half : Flt := { bits := 0x3FE0000000000000, txt := "0.5".toList }

/-- a grid with meta, a column with meta, rows with a Null cell, a dict inside a list, a Ref with dis,
a number with unit, a coordinate -/
def sample : Val :=
  .grid
    (.some (.cons (s "dis") (.str (s "Site grid")) (.cons (s "hisEnd") (.num { v := f64_1, unit := some (s "m") }) .nil)))
    (.cons (s "id") (.some (.cons (s "dis") (.str (s "Id")) (.cons (s "x") .marker .nil)))
      (.cons (s "vals") .none .nil))
    (.cons (.cons (s "id") (.ref (s "a-1") (some (s "Site \"A\""))) (.cons (s "vals") .null .nil))
      (.cons
        (.cons (s "id") (.ref (s "b") none)
          (.cons (s "vals")
            (.list (.cons (.dict (.cons (s "area") (.num { v := f64_half, unit := some (s "ft²") })
                (.cons (s "geo") (.coord f64_1 f64_half) .nil))) (.cons .na .nil))) .nil))
        .nil))
    (s "3.0")

theorem sample_wf : WFj sample := by decide +kernel

example : fromJson (toJson sample) = .ok (jImage sample) := C02_holds sample sample_wf

/-! ## Each condition of `WFj` is needed (witnesses on the model) -/

def decodesTo (v : Val) (p : Val → Bool) : Bool := okIs (fromJson (toJson v)) p

/-- keys out of order come back sorted: `{b, a}` ↦ `{a, b}` -/
example : decodesTo (.dict (.cons (s "b") .marker (.cons (s "a") .marker .nil)))
    (fun v => match v with | .dict (.cons k _ _) => k == s "a" | _ => false) = true := by decide +kernel
/-- a repeated key keeps its last value only -/
example : decodesTo (.dict (.cons (s "a") .marker (.cons (s "a") .na .nil)))
    (fun v => match v with | .dict (.cons _ .na .nil) => true | _ => false) = true := by decide +kernel
/-- a tag named `_kind` is taken for the type tag: `{_kind: "marker"}` ↦ Marker; `{_kind: "marker", a}` is
refused (the visitor returns at `_kind` and serde_json refuses the map it did not consume); `{_kind: M}` is
refused -/
example : decodesTo (.dict (.cons (s "_kind") (.str (s "marker")) .nil))
    (fun v => match v with | .marker => true | _ => false) = true := by decide +kernel
example : (fromJson (toJson (.dict (.cons (s "_kind") (.str (s "marker")) (.cons (s "a") .marker .nil))))).tag = "err" := by
  decide +kernel
example : (fromJson (toJson (.dict (.cons (s "_kind") .marker .nil)))).tag = "err" := by decide +kernel
/-- a grid meta tag `ver` is swallowed (and becomes the version when it is a Str) -/
example : decodesTo (.grid (.some (.cons (s "ver") (.str (s "2.0")) .nil)) .nil .nil (s "3.0"))
    (fun v => match v with | .grid (.some .nil) _ _ ver => ver == s "2.0" | _ => false) = true := by decide +kernel
/-- a unit given by an alias comes back as the unit's symbol; an unknown unit is refused -/
example : decodesTo (.num { v := f64_1, unit := some (s "meter") })
    (fun v => match v with | .num n => n.unit == some (s "m") | _ => false) = true := by decide +kernel
example : (fromJson (toJson (.num { v := f64_1, unit := some (s "no_such_unit") }))).tag = "err" := by decide +kernel

/-! ## The identity: values that are their own image -/

mutual
/-- nothing in the value is re-spelled by the round trip: no date/time/timestamp (those come back as
chrono re-reads their text), numbers that are their own `numImage` (finite and not `-0.0` unit-less — see
`rt_num_exact`; or already canonical), grids with a meta and version `"3.0"` -/
def plain : Val → Bool
  | .num n => numImage n == n
  | .date _ => false
  | .time _ => false
  | .dateTime _ => false
  | .list xs => plains xs
  | .dict d => plainTags d
  | .grid md cols rows ver =>
    (match md with
      | .some t => plainTags t
      | .none => false) && plainCols cols && plainRows rows && ver == s "3.0"
  | _ => true
def plains : Vals → Bool
  | .nil => true
  | .cons v vs => plain v && plains vs
def plainTags : Tags → Bool
  | .nil => true
  | .cons _ v t => plain v && plainTags t
def plainCols : Cols → Bool
  | .nil => true
  | .cons _ md c =>
    (match md with
      | .some t => plainTags t
      | .none => true) && plainCols c
def plainRows : Rows → Bool
  | .nil => true
  | .cons r rs => plainTags r && plainRows rs
end

mutual
theorem jImage_plain : (v : Val) → plain v = true → jImage v = v
  | .null, _ => by simp [jImage]
  | .remove, _ => by simp [jImage]
  | .marker, _ => by simp [jImage]
  | .na, _ => by simp [jImage]
  | .bool _, _ => by simp [jImage]
  | .num n, h => by
    simp [plain] at h
    simp [jImage, h]
  | .str _, _ => by simp [jImage]
  | .uri _, _ => by simp [jImage]
  | .ref _ _, _ => by simp [jImage]
  | .sym _, _ => by simp [jImage]
  | .date _, h => by simp [plain] at h
  | .time _, h => by simp [plain] at h
  | .dateTime _, h => by simp [plain] at h
  | .coord _ _, _ => by simp [jImage]
  | .xstr _ _, _ => by simp [jImage]
  | .list xs, h => by
    simp [plain] at h
    simp [jImage, jImages_plain xs h]
  | .dict d, h => by
    simp [plain] at h
    simp [jImage, jImageTags_plain d h]
  | .grid (.some t) cols rows ver, h => by
    simp [plain] at h
    simp [jImage, jImageTags_plain t h.1.1.1, jImageCols_plain cols h.1.1.2, jImageRows_plain rows h.1.2, h.2]
  | .grid .none cols rows ver, h => by simp [plain] at h
theorem jImages_plain : (vs : Vals) → plains vs = true → jImages vs = vs
  | .nil, _ => by simp [jImages]
  | .cons v vs, h => by
    simp [plains] at h
    simp [jImages, jImage_plain v h.1, jImages_plain vs h.2]
theorem jImageTags_plain : (t : Tags) → plainTags t = true → jImageTags t = t
  | .nil, _ => by simp [jImageTags]
  | .cons k v t, h => by
    simp [plainTags] at h
    simp [jImageTags, jImage_plain v h.1, jImageTags_plain t h.2]
theorem jImageCols_plain : (c : Cols) → plainCols c = true → jImageCols c = c
  | .nil, _ => by simp [jImageCols]
  | .cons n (.some t) c, h => by
    simp [plainCols] at h
    simp [jImageCols, jImageTags_plain t h.1, jImageCols_plain c h.2]
  | .cons n .none c, h => by
    simp [plainCols] at h
    simp [jImageCols, jImageCols_plain c h]
theorem jImageRows_plain : (r : Rows) → plainRows r = true → jImageRows r = r
  | .nil, _ => by simp [jImageRows]
  | .cons r rs, h => by
    simp [plainRows] at h
    simp [jImageRows, jImageTags_plain r h.1, jImageRows_plain rs h.2]
end

/-- **the round trip is the identity** on well-formed plain values: every component comes back, in
particular every finite number bit for bit and every tag, cell, column and row -/
theorem C02_identity (v : Val) (hw : WFj v) (hp : plain v = true) : fromJson (toJson v) = .ok v := by
  rw [C02_holds v hw, jImage_plain v hp]

example : plain sample = true := by decide +kernel
example : fromJson (toJson sample) = .ok sample := C02_identity sample sample_wf (by decide +kernel)

end Hs.C02
