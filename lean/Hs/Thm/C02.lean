/-
  C02 — Hayson (JSON) encode → decode returns the original value.

  Model at the level of the JSON tree: `Hs.Hayson.toJson` (the `Serialize` impls) and
  `Hs.Hayson.fromJson` (`JsonValueDecoderVisitor`, member by member in document order).
  serde_json's text layer (print, then parse) is outside the model: every number token carries the
  f64 serde_json/std make of it; it is exercised through all six entry points on every run.
-/
import Hs.Model.Hayson
namespace Hs.C02
open Hs Hs.Hayson

/-- what comes back for a number: canonical NaN / infinities (spelled as strings), `0.0` for `-0.0`
when it travels as the integer `0`, everything else bit for bit -/
def numImage (n : Num) : Num :=
  if isNaN n.v then { v := mkFlt 0x7FF8000000000000 "NaN", unit := n.unit }
  else if isInf n.v then
    { v := (if isNeg n.v then mkFlt 0xFFF0000000000000 "-inf" else mkFlt 0x7FF0000000000000 "inf"), unit := n.unit }
  else if n.unit.isNone && exactInt n.v == some 0 then { v := { bits := 0, txt := ['0'] }, unit := none }
  else n

mutual
/-- the image of a value under encode-then-decode (dates, times and timestamps as the texts chrono re-reads) -/
def jImage : Val → Val
  | .num n => .num (numImage n)
  | .date d => lexDate d.txt
  | .time t => lexTime t.txt
  | .dateTime t => lexDateTime t.txt (if t.tzid == s "UTC" then none else some t.zone)
  | .list xs => .list (jImages xs)
  | .dict d => .dict (jImageTags d)
  | .grid md cols rows _ =>
    .grid (.some (match md with | .some t => jImageTags t | .none => .nil)) (jImageCols cols) (jImageRows rows) (s "3.0")
  | v => v
def jImages : Vals → Vals
  | .nil => .nil
  | .cons v vs => .cons (jImage v) (jImages vs)
def jImageTags : Tags → Tags
  | .nil => .nil
  | .cons k v t => .cons k (jImage v) (jImageTags t)
def jImageCols : Cols → Cols
  | .nil => .nil
  | .cons n md c => .cons n (match md with | .some t => .some (jImageTags t) | .none => .none) (jImageCols c)
def jImageRows : Rows → Rows
  | .nil => .nil
  | .cons r rs => .cons (jImageTags r) (jImageRows rs)
end

/-- The property at full strength (tree level): for well-formed values — tag names sorted, distinct
and different from `_kind`, no grid meta tag named `ver`, database units, finite coordinates —
decoding the encoder's tree gives the image of the value, nothing lost, nothing added. -/
def C02_full (WF : Val → Prop) : Prop :=
  ∀ v, WF v → fromJson (toJson v) = .ok (jImage v)

def okIs (r : Res Val) (p : Val → Bool) : Bool :=
  match r with
  | .ok v => p v
  | _ => false

/-- finite kinds, exhaustively -/
theorem rt_finite_kinds :
    okIs (fromJson (toJson .null)) (fun v => match v with | .null => true | _ => false) = true ∧
    okIs (fromJson (toJson .marker)) (fun v => match v with | .marker => true | _ => false) = true ∧
    okIs (fromJson (toJson .remove)) (fun v => match v with | .remove => true | _ => false) = true ∧
    okIs (fromJson (toJson .na)) (fun v => match v with | .na => true | _ => false) = true ∧
    (∀ b, okIs (fromJson (toJson (.bool b))) (fun v => match v with | .bool c => c == b | _ => false) = true) := by
  refine ⟨by decide +kernel, by decide +kernel, by decide +kernel, by decide +kernel, ?_⟩
  intro b; cases b <;> decide +kernel

/-- strings of every content travel as plain JSON strings -/
theorem rt_str (x : List Char) : fromJson (toJson (.str x)) = .ok (.str x) := by
  simp [toJson, fromJson]

/-- the integral magnitudes beyond the i64 range are written as floats, not saturated: 1e20 -/
example : (match toJson (.num { v := { bits := 0x4415AF1D78B58C40, txt := "100000000000000000000".toList }, unit := none }) with
    | .flt _ => true | _ => false) = true := by decide +kernel
/-- … and 2^63 - 1024 (the largest double below 2^63) still travels as an integer -/
example : (match toJson (.num { v := { bits := 0x43DFFFFFFFFFFFFF, txt := "9223372036854775000".toList }, unit := none }) with
    | .int i _ => i == 9223372036854774784 | _ => false) = true := by decide +kernel

end Hs.C02
