/-
  C06 — timestamps keep their instant and zone through every constructor and codec.

  Statements are about the model `Hs.Model.Tz` of `fixed_timezone`, `make_date_time`,
  `make_date_time_with_tz`, `find_timezone`, `timezone_short_name`, the Zinc reader/writer and the
  Hayson reader/writer for DateTime (at the level of fields: local seconds, nanoseconds, offset text,
  zone name) and the C constructors/getters.  They quantify over ALL instants (any `Int` seconds, any
  nanoseconds), all offsets, all zone names (`List Char`), and — table theorems — over every zone id
  of the compiled chrono-tz database and the prefix list of `find_timezone` as translated from the
  current sources (`Hs.Gen.Zones`).  The zone offset function is a parameter `TzDb`; the only facts
  assumed of it are stated as hypotheses where they are used:
    `EtcOk db`    — `Etc/GMT∓N` (N = 0: `UTC`) has the constant offset ±N h;
    `OffsetOk o`  — the offset of the written timestamp is a whole number of minutes in −12 h … +14 h
                    (true of every zone of the database between 1980 and 2060; checked by the harness).
  The model is tied to the code by the correspondence check and by the translator's shape assertions.
-/
import Hs.Lemmas.Tz
namespace Hs.C06
open Hs Hs.Tz Hs.Gen.Zones

/-- the database gives every fixed zone its nominal offset: `Etc/GMT-n` is n hours east, `UTC` is 0 -/
def EtcOk (db : TzDb) : Prop := ∀ n ∈ etcHours, ∀ t, db.offsetAt (etcName n) t = n * 3600

/-! ### table theorems (zone list of the compiled database × prefix list of `find_timezone`) -/

/-- `str::parse::<Tz>` of the model = membership in the zone list -/
theorem zone_parse_iff (n : List Char) : parseTz n = some n ↔ n ∈ zones := parseTz_iff n

/-- the city name of every zone with an unambiguous city name resolves back to that zone -/
theorem short_name_resolves : ∀ z ∈ zones, Unambiguous z → findTimezone (shortName z) = some z :=
  fun _ h hu => short_resolves h hu

/-- … and the city name of ANY zone (aliases included) resolves to a zone with the same city name -/
theorem short_name_resolves_alias : ∀ z ∈ zones, ∃ w ∈ zones, findTimezone (shortName z) = some w ∧ shortName w = shortName z :=
  by
  intro z h
  obtain ⟨w, h1, h2, h3⟩ := short_resolves_some h
  exact ⟨w, h2, h1, h3⟩

/-- every city name is lexed in full by the Zinc reader: `[A-Z][A-Za-z0-9_/+-]+` -/
theorem short_name_lexable : ∀ z ∈ zones, lexable (shortName z) = true := fun _ h => short_lexable h

/-! ### constructors -/

/-- **RFC 3339**: whatever the offset (hours and minutes, any sign, any size), a timestamp that is
accepted denotes exactly the instant of the text: local time − offset -/
theorem C06_rfc (loc : Int) (ns : Nat) (off : Int) (dt : DT) (h : makeDateTime loc ns off = .ok dt) :
    dt.secs = loc - off ∧ dt.ns = ns := by
  unfold makeDateTime at h
  split at h
  · simp only [Res.ok.injEq] at h
    subst h
    exact ⟨rfl, rfl⟩
  all_goals cases h

/-- none of the offsets −12:00 … +14:00 (whole minutes, so every 15-minute step) is rejected; a
whole-hour offset gets the fixed zone `Etc/GMT∓N` (hence, with `EtcOk`, the same local offset), any
other offset is kept as its instant in UTC -/
theorem C06_rfc_accepts (loc : Int) (ns : Nat) (off : Int) (h : OffsetOk off) :
    makeDateTime loc ns off = .ok ⟨loc - off, ns, if off % 3600 = 0 then etcName (off / 3600) else utcName⟩ := by
  simp only [makeDateTime, rfcZone_ok off h]

theorem C06_rfc_offset (db : TzDb) (hdb : EtcOk db) (loc : Int) (ns : Nat) (off : Int) (h : OffsetOk off)
    (hw : off % 3600 = 0) :
    ∃ dt, makeDateTime loc ns off = .ok dt ∧ dt.offset db = off := by
  refine ⟨_, C06_rfc_accepts loc ns off h, ?_⟩
  obtain ⟨_, hlo, hhi⟩ := h
  simp only [DT.offset, hw, if_true]
  rw [hdb (off / 3600) (mem_etcHours (by omega) (by omega))]
  omega

/-- **instant + zone name**: built from an instant and a zone id, or the city name of a zone whose
city name is unambiguous, the timestamp denotes that instant in that zone -/
theorem C06_with_tz (secs : Int) (ns : Nat) (name z : List Char) (hz : z ∈ zones)
    (hn : name = z ∨ (Unambiguous z ∧ name = shortName z)) :
    makeDateTimeWithTz secs ns name = .ok ⟨secs, ns, z⟩ := by
  rcases hn with rfl | ⟨hu, rfl⟩
  · simp [makeDateTimeWithTz, findTimezone_of_mem hz]
  · simp [makeDateTimeWithTz, short_resolves hz hu]

/-- whatever the name, an accepted timestamp keeps the instant and lies in a zone of the database -/
theorem C06_with_tz_instant (secs : Int) (ns : Nat) (name : List Char) (dt : DT)
    (h : makeDateTimeWithTz secs ns name = .ok dt) : dt.secs = secs ∧ dt.ns = ns ∧ dt.tzid ∈ zones := by
  unfold makeDateTimeWithTz at h
  split at h
  · rename_i z hz
    simp only [Res.ok.injEq] at h
    subst h
    exact ⟨rfl, rfl, findTimezone_mem hz⟩
  · cases h

/-! ### codecs -/

/-- a timestamp of the property's domain: a zone of the database with an unambiguous city name -/
structure InDomain (db : TzDb) (d : DT) : Prop where
  zone : d.tzid ∈ zones
  unamb : Unambiguous d.tzid
  off : OffsetOk (d.offset db)

theorem utc_offset (db : TzDb) (hdb : EtcOk db) (t : Int) : db.offsetAt utcName t = 0 := by
  have := hdb 0 (by decide) t
  simpa [etcName] using this

/-- **Zinc**: reading what the writer wrote gives the same timestamp — same instant, same zone, hence
(the offset being a function of zone and instant) the same local offset and the same zone name;
on either side of any transition, since nothing but `OffsetOk` is assumed of the offset -/
theorem C06_zinc_rt (db : TzDb) (hdb : EtcOk db) (d : DT) (hd : InDomain db d) :
    zincDec (zincEnc db d) = .ok d := by
  obtain ⟨secs, ns, z⟩ := d
  obtain ⟨hz, hu, h60, hlo, hhi⟩ := hd
  simp only [DT.offset] at h60 hlo hhi
  by_cases hutc : z = utcName
  · subst hutc
    have h0 := utc_offset db hdb secs
    simp [zincEnc, zincDec, DT.isUtc, DT.localSecs, DT.offset, h0, rfcOffsetText, parseOffTxt]
  · have hsn := short_ne_utc hu hutc
    have hlex := short_lexable hz
    have hres := short_resolves hz hu
    have hb : (z == utcName) = false := by simpa using hutc
    by_cases h0 : db.offsetAt z secs = 0
    · simp [zincEnc, zincDec, DT.isUtc, DT.localSecs, DT.offset, DT.short, hb, h0, rfcOffsetText, parseOffTxt, hlex,
        hsn, makeDateTimeWithTz, hres]
    · have hp := parseOffTxt_offsetText (db.offsetAt z secs) h60 (by omega) h0
      have hlt : (db.offsetAt z secs).natAbs < 86400 := by omega
      simp only [zincEnc, zincDec, DT.isUtc, DT.localSecs, DT.offset, DT.short, hb, hp, hlex, hsn, hlt, if_true,
        if_false, Bool.false_eq_true, makeDateTimeWithTz, hres]
      by_cases hpos : 0 < db.offsetAt z secs
      · simp only [hpos, decide_true, if_true, Res.ok.injEq, DT.mk.injEq, and_true]; omega
      · simp only [hpos, decide_false, Bool.false_eq_true, if_false, Res.ok.injEq, DT.mk.injEq, and_true]; omega

/-- **Hayson**: likewise -/
theorem C06_json_rt (db : TzDb) (hdb : EtcOk db) (d : DT) (hd : InDomain db d) :
    jsonDec (jsonEnc db d) = .ok d := by
  obtain ⟨secs, ns, z⟩ := d
  obtain ⟨hz, hu, hoff⟩ := hd
  simp only [DT.offset] at hoff
  have hm := C06_rfc_accepts (secs + db.offsetAt z secs) ns (db.offsetAt z secs) hoff
  by_cases hutc : z = utcName
  · subst hutc
    have h0 := utc_offset db hdb secs
    rw [h0] at hm
    have hm' : makeDateTime secs ns 0 = .ok ⟨secs, ns, utcName⟩ := by simpa [etcName] using hm
    simp [jsonEnc, jsonDec, DT.isUtc, DT.localSecs, DT.offset, h0, hm']
  · have hres := short_resolves hz hu
    have hb : (z == utcName) = false := by simpa using hutc
    simp only [jsonEnc, jsonDec, DT.isUtc, DT.localSecs, DT.offset, DT.short, hb, hm, Bool.false_eq_true, if_false,
      makeDateTimeWithTz, hres, Res.ok.injEq, DT.mk.injEq, and_true]
    omega

/-- **C API**: the constructor given UTC fields and the zone id or city name builds that instant in that
zone; the getters return the UTC fields, the local fields (instant + offset) and the city name -/
theorem C06_capi (db : TzDb) (d : DT) (hz : d.tzid ∈ zones) (hu : Unambiguous d.tzid) :
    capiMakeTz d.secs d.ns d.tzid = .ok d ∧ capiMakeTz d.secs d.ns d.short = .ok d ∧
    capiGetUtc d = (d.secs, d.ns) ∧ capiGetLocal db d = (d.secs + d.offset db, d.ns) ∧
    capiGetZone d = shortName d.tzid ∧ (capiMakeUtc d.secs d.ns).secs = d.secs := by
  obtain ⟨secs, ns, z⟩ := d
  exact ⟨C06_with_tz secs ns z z hz (.inl rfl), C06_with_tz secs ns (shortName z) z hz (.inr ⟨hu, rfl⟩), rfl, rfl, rfl, rfl⟩

/-- The property at full strength. -/
def C06_full : Prop :=
  (∀ loc ns off dt, makeDateTime loc ns off = .ok dt → dt.secs = loc - off ∧ dt.ns = ns) ∧
  (∀ loc ns off, OffsetOk off → ∃ dt, makeDateTime loc ns off = .ok dt) ∧
  (∀ secs ns name z, z ∈ zones → (name = z ∨ (Unambiguous z ∧ name = shortName z)) →
    makeDateTimeWithTz secs ns name = .ok ⟨secs, ns, z⟩) ∧
  (∀ db, EtcOk db → ∀ d, InDomain db d → zincDec (zincEnc db d) = .ok d ∧ jsonDec (jsonEnc db d) = .ok d)

theorem C06_holds : C06_full :=
  ⟨C06_rfc, fun loc ns off h => ⟨_, C06_rfc_accepts loc ns off h⟩, C06_with_tz,
   fun db hdb d hd => ⟨C06_zinc_rt db hdb d hd, C06_json_rt db hdb d hd⟩⟩

/-! ### non-vacuity -/

/-- a database satisfying `EtcOk`: fixed zones have their nominal offset, Sydney is at +10/+11 h -/
def sampleDb : TzDb where
  offsetAt z t :=
    match etcHours.find? (fun n => etcName n == z) with
    | some n => n * 3600
    | none =>
      if z = "Australia/Sydney".toList then (if t % 2 = 0 then 36000 else 39600)
      else if z = "Asia/Kolkata".toList then 19800
      else 0

theorem sampleDb_ok : EtcOk sampleDb := by
  intro n hn t
  have hfind : etcHours.all (fun n => etcHours.find? (fun m => etcName m == etcName n) == some n) = true := by
    decide +kernel
  have := List.all_eq_true.1 hfind n hn
  simp only [beq_iff_eq] at this
  simp only [sampleDb, this]

set_option maxRecDepth 100000 in
/-- Sydney is a zone of the database with an unambiguous city name -/
theorem sydney_in_domain (secs : Int) (ns : Nat) : InDomain sampleDb ⟨secs, ns, "Australia/Sydney".toList⟩ := by
  refine ⟨?_, ?_, ?_⟩
  · show "Australia/Sydney".toList ∈ zones
    decide +kernel
  · intro w hw hs
    have : zones.all (fun w => shortName w != shortName "Australia/Sydney".toList || w == "Australia/Sydney".toList) = true := by
      decide +kernel
    have := List.all_eq_true.1 this w hw
    simp only [Bool.or_eq_true, bne_iff_ne, ne_eq, beq_iff_eq] at this
    rcases this with h | h
    · exact absurd hs h
    · exact h
  · have hnone : etcHours.find? (fun n => etcName n == "Australia/Sydney".toList) = none := by decide +kernel
    simp only [DT.offset, sampleDb, hnone, OffsetOk, if_true]
    split <;> decide

/-- … so the round-trip theorems apply to it at every instant -/
example (secs : Int) (ns : Nat) :
    zincDec (zincEnc sampleDb ⟨secs, ns, "Australia/Sydney".toList⟩) = .ok ⟨secs, ns, "Australia/Sydney".toList⟩ :=
  C06_zinc_rt sampleDb sampleDb_ok _ (sydney_in_domain secs ns)

set_option maxRecDepth 100000 in
/-- `+10:00` (two hour digits) and `+05:30` (minutes) keep their instant -/
example : makeDateTime 36000 0 36000 = .ok ⟨0, 0, "Etc/GMT-10".toList⟩ ∧
    makeDateTime 19800 5 19800 = .ok ⟨0, 5, "UTC".toList⟩ := by decide +kernel

end Hs.C06
