/-
  C06 — timestamps keep their instant and zone through every constructor and codec.

  Statements are about the model `Hs.Model.Tz` of `fixed_timezone`, `make_date_time`,
  `make_date_time_with_tz`, `make_date_time_from_text`, `find_timezone`, `timezone_short_name`, the Zinc reader/writer and the
  Hayson reader/writer for DateTime (at the level of fields: local seconds, nanoseconds, offset text,
  zone name) and the C constructors/getters.  They quantify over ALL instants (any `Int` seconds, any
  nanoseconds), all offsets, all zone names (`List Char`), and — table theorems — over every zone id
  of the compiled chrono-tz database and the prefix list of `find_timezone` as translated from the
  current sources (`Hs.Gen.Zones`).  The zone offset function is a parameter `TzDb`; the only facts
  assumed of it are stated as hypotheses where they are used:
    `EtcOk db`    — `Etc/GMT∓N` (N = 0: `UTC`) has the constant offset ±N h;
    `OffsetOk o`  — the offset of the written timestamp is a whole number of minutes in −12 h … +14 h
                    (true of every zone of the database between 1980 and 2060; checked by the harness).
  `C06_rt_subminute` drops `OffsetOk`: the offset may have seconds (local mean time: Amsterdam +0:19:32
  until 1937); the text carries it rounded to the minute and the readers recover the instant from the
  exact wall-clock time, wherever the zone's offset is the same at the instant the text seems to denote
  (`TextDomain.stable`, the condition `make_date_time_from_text` checks).
  The model is tied to the code by the correspondence check and by the translator's shape assertions.
-/
import Hs.Lemmas.Tz
namespace Hs.C06
open Hs Hs.Tz Hs.Gen.Zones

/-- the database gives every fixed zone its nominal offset: `Etc/GMT-n` is n hours east, `UTC` is 0 -/
def EtcOk (db : TzDb) : Prop := ∀ n ∈ etcHours, ∀ t, db.offsetAt (etcName n) t = n * 3600

/-! ### table theorems (zone list of the compiled database × prefix list of `find_timezone`) -/

/-- `str::parse::<Tz>` of the model = membership in the zone list -/
theorem zone_parse_iff (n : List Char) : parseTz n = some n ↔ n ∈ zones := parseTz_iff n

/-- the city name of every zone with an unambiguous city name resolves back to that zone -/
theorem short_name_resolves : ∀ z ∈ zones, Unambiguous z → findTimezone (shortName z) = some z :=
  fun _ h hu => short_resolves h hu

/-- … and the city name of ANY zone (aliases included) resolves to a zone with the same city name -/
theorem short_name_resolves_alias : ∀ z ∈ zones, ∃ w ∈ zones, findTimezone (shortName z) = some w ∧ shortName w = shortName z :=
  by
  intro z h
  obtain ⟨w, h1, h2, h3⟩ := short_resolves_some h
  exact ⟨w, h2, h1, h3⟩

/-- every city name is lexed in full by the Zinc reader: `[A-Z][A-Za-z0-9_/+-]+` -/
theorem short_name_lexable : ∀ z ∈ zones, lexable (shortName z) = true := fun _ h => short_lexable h

/-! ### constructors -/

/-- **RFC 3339**: whatever the offset (hours and minutes, any sign, any size), a timestamp that is
accepted denotes exactly the instant of the text: local time − offset -/
theorem C06_rfc (loc : Int) (ns : Nat) (off : Int) (dt : DT) (h : makeDateTime loc ns off = .ok dt) :
    dt.secs = loc - off ∧ dt.ns = ns := by
  unfold makeDateTime at h
  split at h
  · simp only [Res.ok.injEq] at h
    subst h
    exact ⟨rfl, rfl⟩
  all_goals cases h

/-- none of the offsets −12:00 … +14:00 (whole minutes, so every 15-minute step) is rejected; a
whole-hour offset gets the fixed zone `Etc/GMT∓N` (hence, with `EtcOk`, the same local offset), any
other offset is kept as its instant in UTC -/
theorem C06_rfc_accepts (loc : Int) (ns : Nat) (off : Int) (h : OffsetOk off) :
    makeDateTime loc ns off = .ok ⟨loc - off, ns, if off % 3600 = 0 then etcName (off / 3600) else utcName⟩ := by
  simp only [makeDateTime, rfcZone_ok off h]

theorem C06_rfc_offset (db : TzDb) (hdb : EtcOk db) (loc : Int) (ns : Nat) (off : Int) (h : OffsetOk off)
    (hw : off % 3600 = 0) :
    ∃ dt, makeDateTime loc ns off = .ok dt ∧ dt.offset db = off := by
  refine ⟨_, C06_rfc_accepts loc ns off h, ?_⟩
  obtain ⟨_, hlo, hhi⟩ := h
  simp only [DT.offset, hw, if_true]
  rw [hdb (off / 3600) (mem_etcHours (by omega) (by omega))]
  omega

/-- **instant + zone name**: built from an instant and a zone id, or the city name of a zone whose
city name is unambiguous, the timestamp denotes that instant in that zone -/
theorem C06_with_tz (secs : Int) (ns : Nat) (name z : List Char) (hz : z ∈ zones)
    (hn : name = z ∨ (Unambiguous z ∧ name = shortName z)) :
    makeDateTimeWithTz secs ns name = .ok ⟨secs, ns, z⟩ := by
  rcases hn with rfl | ⟨hu, rfl⟩
  · simp [makeDateTimeWithTz, findTimezone_of_mem hz]
  · simp [makeDateTimeWithTz, short_resolves hz hu]

/-- whatever the name, an accepted timestamp keeps the instant and lies in a zone of the database -/
theorem C06_with_tz_instant (secs : Int) (ns : Nat) (name : List Char) (dt : DT)
    (h : makeDateTimeWithTz secs ns name = .ok dt) : dt.secs = secs ∧ dt.ns = ns ∧ dt.tzid ∈ zones := by
  unfold makeDateTimeWithTz at h
  split at h
  · rename_i z hz
    simp only [Res.ok.injEq] at h
    subst h
    exact ⟨rfl, rfl, findTimezone_mem hz⟩
  · cases h

/-! ### codecs -/

/-- a timestamp of the property's domain: a zone of the database with an unambiguous city name -/
structure InDomain (db : TzDb) (d : DT) : Prop where
  zone : d.tzid ∈ zones
  unamb : Unambiguous d.tzid
  off : OffsetOk (d.offset db)

theorem utc_offset (db : TzDb) (hdb : EtcOk db) (t : Int) : db.offsetAt utcName t = 0 := by
  have := hdb 0 (by decide) t
  simpa [etcName] using this

/-- a timestamp whose text can be read back, WHATEVER its offset (whole minutes or not): a zone of the
database with an unambiguous city name; an offset below 23:59:30 either way, so that rounded to the
minute it is below 24 h (`+24:00` is not an offset a reader takes); and the zone has the same offset at
the instant the minute-precision text seems to denote, `offset − rounded offset` (at most 30) seconds
away — the condition `make_date_time_from_text` checks before it takes the wall-clock time as exact -/
structure TextDomain (db : TzDb) (d : DT) : Prop where
  zone : d.tzid ∈ zones
  unamb : Unambiguous d.tzid
  range : (d.offset db).natAbs < 86370
  stable : db.offsetAt d.tzid (d.secs + (d.offset db - roundMin (d.offset db))) = d.offset db

/-- the first step of the Hayson reader (`DateTime::parse_from_rfc3339(val)`) accepts the written offset:
a rounded offset of whole hours has its `Etc/GMT∓N` zone (−12 … +14); any other is taken as UTC -/
def HaysonOk (off : Int) : Prop := roundMin off % 3600 = 0 → -43200 ≤ roundMin off ∧ roundMin off ≤ 50400

/-- where the offset is a whole number of minutes the text carries it as it is and nothing needs checking -/
theorem InDomain.text {db : TzDb} {d : DT} (hd : InDomain db d) : TextDomain db d ∧ HaysonOk (d.offset db) := by
  obtain ⟨hz, hu, h60, hlo, hhi⟩ := hd
  have hr := roundMin_of_whole h60
  refine ⟨⟨hz, hu, by omega, ?_⟩, ?_⟩
  · rw [hr, Int.sub_self, Int.add_zero]; rfl
  · intro _; rw [hr]; exact ⟨hlo, hhi⟩

/-- **Zinc, any offset** (new with `make_date_time_from_text`): the writer prints the exact wall-clock time
and the offset rounded to the minute (`+00:20` for Amsterdam's +0:19:32); the reader gives back the same
timestamp — instant, nanoseconds and zone -/
theorem C06_zinc_rt_subminute (db : TzDb) (hdb : EtcOk db) (d : DT) (hd : TextDomain db d) :
    zincDec db (zincEnc db d) = .ok d := by
  obtain ⟨secs, ns, z⟩ := d
  obtain ⟨hz, hu, hrange, hst⟩ := hd
  simp only [DT.offset] at hrange hst
  by_cases hutc : z = utcName
  · subst hutc
    have h0 := utc_offset db hdb secs
    simp [zincEnc, zincDec, DT.isUtc, DT.localSecs, DT.offset, h0, rfcOffsetText, parseOffTxt]
  · have hsn := short_ne_utc hu hutc
    have hlex := short_lexable hz
    have hres := short_resolves hz hu
    have hb : (z == utcName) = false := by simpa using hutc
    by_cases h0 : db.offsetAt z secs = 0
    · simp [zincEnc, zincDec, DT.isUtc, DT.localSecs, DT.offset, DT.short, hb, h0, rfcOffsetText, parseOffTxt, hlex,
        hsn, makeDateTimeWithTz, hres]
    · have hp := parseOffTxt_rfcOffsetText (db.offsetAt z secs) (by omega) h0
      have hlt : ((db.offsetAt z secs).natAbs + 30) / 60 * 60 < 86400 := by omega
      have hex := fromText_exact db secs ns (shortName z) z hres hst
      have hna := roundMin_natAbs (db.offsetAt z secs)
      have hbd := roundMin_bounds (db.offsetAt z secs)
      simp only [zincEnc, zincDec, DT.isUtc, DT.localSecs, DT.offset, DT.short, hb, hp, hlex, hsn, hlt, if_true,
        if_false, Bool.false_eq_true]
      by_cases hpos : 0 < db.offsetAt z secs
      · have e1 : (((db.offsetAt z secs).natAbs + 30) / 60 * 60 : Nat) = roundMin (db.offsetAt z secs) := by omega
        simp only [hpos, decide_true, if_true, e1]
        rw [show secs + db.offsetAt z secs - roundMin (db.offsetAt z secs)
              = secs + (db.offsetAt z secs - roundMin (db.offsetAt z secs)) by omega]
        exact hex
      · have e1 : -((((db.offsetAt z secs).natAbs + 30) / 60 * 60 : Nat) : Int) = roundMin (db.offsetAt z secs) := by omega
        have e2 : secs + db.offsetAt z secs + ((((db.offsetAt z secs).natAbs + 30) / 60 * 60 : Nat) : Int)
            = secs + (db.offsetAt z secs - roundMin (db.offsetAt z secs)) := by omega
        simp only [hpos, decide_false, Bool.false_eq_true, if_false, e1, e2]
        exact hex

/-- **Hayson, any offset**: likewise, when the reader's first step accepts the written offset -/
theorem C06_json_rt_subminute (db : TzDb) (hdb : EtcOk db) (d : DT) (hd : TextDomain db d)
    (hj : HaysonOk (d.offset db)) : jsonDec db (jsonEnc db d) = .ok d := by
  obtain ⟨secs, ns, z⟩ := d
  obtain ⟨hz, hu, hrange, hst⟩ := hd
  simp only [DT.offset] at hrange hst hj
  have hbd := roundMin_bounds (db.offsetAt z secs)
  have hna := roundMin_natAbs (db.offsetAt z secs)
  have hok : RfcOk (roundMin (db.offsetAt z secs)) := ⟨hbd.1, by omega, hj⟩
  have hm : makeDateTime (secs + db.offsetAt z secs) ns (roundMin (db.offsetAt z secs)) =
      .ok ⟨secs + db.offsetAt z secs - roundMin (db.offsetAt z secs), ns,
        if roundMin (db.offsetAt z secs) % 3600 = 0 then etcName (roundMin (db.offsetAt z secs) / 3600) else utcName⟩ := by
    simp only [makeDateTime, rfcZone_ok' _ hok]
  by_cases hutc : z = utcName
  · subst hutc
    have h0 := utc_offset db hdb secs
    rw [h0] at hm
    have hm' : makeDateTime secs ns 0 = .ok ⟨secs, ns, utcName⟩ := by simpa [etcName, roundMin] using hm
    simp [jsonEnc, jsonDec, DT.isUtc, DT.localSecs, DT.offset, h0, hm', roundMin]
  · have hres := short_resolves hz hu
    have hb : (z == utcName) = false := by simpa using hutc
    have hex := fromText_exact db secs ns (shortName z) z hres hst
    simp only [jsonEnc, jsonDec, DT.isUtc, DT.localSecs, DT.offset, DT.short, hb, hm, Bool.false_eq_true, if_false]
    rw [show secs + db.offsetAt z secs - roundMin (db.offsetAt z secs)
          = secs + (db.offsetAt z secs - roundMin (db.offsetAt z secs)) by omega]
    exact hex

/-- **the text of a timestamp denotes it, whatever the offset of its zone**: for ANY offset below 23:59:30
either way — whole minutes or not — at an instant where the zone's offset is locally constant in the sense
the code checks, writing (exact wall-clock time, offset rounded to the minute, city name) and reading back
gives the same timestamp, through Zinc and through Hayson -/
theorem C06_rt_subminute (db : TzDb) (hdb : EtcOk db) (d : DT) (hd : TextDomain db d) :
    zincDec db (zincEnc db d) = .ok d ∧ (HaysonOk (d.offset db) → jsonDec db (jsonEnc db d) = .ok d) :=
  ⟨C06_zinc_rt_subminute db hdb d hd, C06_json_rt_subminute db hdb d hd⟩

/-- **Zinc**: reading what the writer wrote gives the same timestamp — same instant, same zone, hence
(the offset being a function of zone and instant) the same local offset and the same zone name;
on either side of any transition, since nothing but `OffsetOk` is assumed of the offset -/
theorem C06_zinc_rt (db : TzDb) (hdb : EtcOk db) (d : DT) (hd : InDomain db d) :
    zincDec db (zincEnc db d) = .ok d := C06_zinc_rt_subminute db hdb d hd.text.1

/-- **Hayson**: likewise -/
theorem C06_json_rt (db : TzDb) (hdb : EtcOk db) (d : DT) (hd : InDomain db d) :
    jsonDec db (jsonEnc db d) = .ok d := C06_json_rt_subminute db hdb d hd.text.1 hd.text.2

/-- **C API**: the constructor given UTC fields and the zone id or city name builds that instant in that
zone; the getters return the UTC fields, the local fields (instant + offset) and the city name -/
theorem C06_capi (db : TzDb) (d : DT) (hz : d.tzid ∈ zones) (hu : Unambiguous d.tzid) :
    capiMakeTz d.secs d.ns d.tzid = .ok d ∧ capiMakeTz d.secs d.ns d.short = .ok d ∧
    capiGetUtc d = (d.secs, d.ns) ∧ capiGetLocal db d = (d.secs + d.offset db, d.ns) ∧
    capiGetZone d = shortName d.tzid ∧ (capiMakeUtc d.secs d.ns).secs = d.secs := by
  obtain ⟨secs, ns, z⟩ := d
  exact ⟨C06_with_tz secs ns z z hz (.inl rfl), C06_with_tz secs ns (shortName z) z hz (.inr ⟨hu, rfl⟩), rfl, rfl, rfl, rfl⟩

/-- The property at full strength. -/
def C06_full : Prop :=
  (∀ loc ns off dt, makeDateTime loc ns off = .ok dt → dt.secs = loc - off ∧ dt.ns = ns) ∧
  (∀ loc ns off, OffsetOk off → ∃ dt, makeDateTime loc ns off = .ok dt) ∧
  (∀ secs ns name z, z ∈ zones → (name = z ∨ (Unambiguous z ∧ name = shortName z)) →
    makeDateTimeWithTz secs ns name = .ok ⟨secs, ns, z⟩) ∧
  (∀ db, EtcOk db → ∀ d, InDomain db d → zincDec db (zincEnc db d) = .ok d ∧ jsonDec db (jsonEnc db d) = .ok d)

theorem C06_holds : C06_full :=
  ⟨C06_rfc, fun loc ns off h => ⟨_, C06_rfc_accepts loc ns off h⟩, C06_with_tz,
   fun db hdb d hd => ⟨C06_zinc_rt db hdb d hd, C06_json_rt db hdb d hd⟩⟩

/-! ### non-vacuity -/

/-- a database satisfying `EtcOk`: fixed zones have their nominal offset, Sydney is at +10/+11 h -/
def sampleDb : TzDb where
  offsetAt z t :=
    match etcHours.find? (fun n => etcName n == z) with
    | some n => n * 3600
    | none =>
      if z = "Australia/Sydney".toList then (if t % 2 = 0 then 36000 else 39600)
      else if z = "Asia/Kolkata".toList then 19800
      else 0

theorem sampleDb_ok : EtcOk sampleDb := by
  intro n hn t
  have hfind : etcHours.all (fun n => etcHours.find? (fun m => etcName m == etcName n) == some n) = true := by
    decide +kernel
  have := List.all_eq_true.1 hfind n hn
  simp only [beq_iff_eq] at this
  simp only [sampleDb, this]

set_option maxRecDepth 100000 in
/-- Sydney is a zone of the database with an unambiguous city name -/
theorem sydney_in_domain (secs : Int) (ns : Nat) : InDomain sampleDb ⟨secs, ns, "Australia/Sydney".toList⟩ := by
  refine ⟨?_, ?_, ?_⟩
  · show "Australia/Sydney".toList ∈ zones
    decide +kernel
  · intro w hw hs
    have : zones.all (fun w => shortName w != shortName "Australia/Sydney".toList || w == "Australia/Sydney".toList) = true := by
      decide +kernel
    have := List.all_eq_true.1 this w hw
    simp only [Bool.or_eq_true, bne_iff_ne, ne_eq, beq_iff_eq] at this
    rcases this with h | h
    · exact absurd hs h
    · exact h
  · have hnone : etcHours.find? (fun n => etcName n == "Australia/Sydney".toList) = none := by decide +kernel
    simp only [DT.offset, sampleDb, hnone, OffsetOk, if_true]
    split <;> decide

/-- … so the round-trip theorems apply to it at every instant -/
example (secs : Int) (ns : Nat) :
    zincDec sampleDb (zincEnc sampleDb ⟨secs, ns, "Australia/Sydney".toList⟩) = .ok ⟨secs, ns, "Australia/Sydney".toList⟩ :=
  C06_zinc_rt sampleDb sampleDb_ok _ (sydney_in_domain secs ns)

set_option maxRecDepth 100000 in
/-- `+10:00` (two hour digits) and `+05:30` (minutes) keep their instant -/
example : makeDateTime 36000 0 36000 = .ok ⟨0, 0, "Etc/GMT-10".toList⟩ ∧
    makeDateTime 19800 5 19800 = .ok ⟨0, 5, "UTC".toList⟩ := by decide +kernel

/-! ### non-vacuity of `C06_rt_subminute`: offsets with seconds -/

/-- the text offsets of local mean time: Amsterdam +0:19:32 is written `+00:20` (rounded, not truncated),
Krasnoyarsk +6:11:26 `+06:11`, New_York −4:56:02 `-04:56`; 20 s either way `+00:00` / `-00:00`, never `Z` -/
example : rfcOffsetText 1172 = "+00:20".toList ∧ rfcOffsetText 22286 = "+06:11".toList ∧
    rfcOffsetText (-17762) = "-04:56".toList ∧ rfcOffsetText 20 = "+00:00".toList ∧
    rfcOffsetText (-20) = "-00:00".toList ∧ rfcOffsetText 0 = "Z".toList ∧
    roundMin 1172 = 1200 ∧ roundMin 22286 = 22260 ∧ roundMin (-17762) = -17760 ∧ roundMin (-30) = -60 := by decide

/-- a sample database with local mean time: Amsterdam +0:19:32 before an instant in 1937 and +0:20 from
then on, Krasnoyarsk +6:11:26, New_York −4:56:02, Sydney at an offset no text can carry -/
def lmtDb : TzDb where
  offsetAt z t :=
    match etcHours.find? (fun n => etcName n == z) with
    | some n => n * 3600
    | none =>
      if z = "Europe/Amsterdam".toList then (if t < -1025740800 then 1172 else 1200)
      else if z = "Asia/Krasnoyarsk".toList then 22286
      else if z = "America/New_York".toList then -17762
      else if z = "Australia/Sydney".toList then 86370
      else 0

theorem lmtDb_ok : EtcOk lmtDb := by
  intro n hn t
  have hfind : etcHours.all (fun n => etcHours.find? (fun m => etcName m == etcName n) == some n) = true := by
    decide +kernel
  have := List.all_eq_true.1 hfind n hn
  simp only [beq_iff_eq] at this
  simp only [lmtDb, this]

theorem unambiguous_of_table (z : List Char)
    (h : zones.all (fun w => shortName w != shortName z || w == z) = true) : Unambiguous z := by
  intro w hw hs
  have := List.all_eq_true.1 h w hw
  simp only [Bool.or_eq_true, bne_iff_ne, ne_eq, beq_iff_eq] at this
  rcases this with h | h
  · exact absurd hs h
  · exact h

set_option maxRecDepth 100000 in
/-- Amsterdam in its mean-time period, at every instant of it: the hypotheses of `C06_rt_subminute` hold
(the text seems to denote an instant 28 s earlier, where the offset is the same) -/
theorem amsterdam_in_text_domain (secs : Int) (ns : Nat) (h : secs < -1025740800) :
    TextDomain lmtDb ⟨secs, ns, "Europe/Amsterdam".toList⟩ ∧ HaysonOk (lmtDb.offsetAt "Europe/Amsterdam".toList secs) := by
  have hnone : etcHours.find? (fun n => etcName n == "Europe/Amsterdam".toList) = none := by decide +kernel
  have hoff : ∀ t, t < -1025740800 → lmtDb.offsetAt "Europe/Amsterdam".toList t = 1172 := by
    intro t ht
    simp only [lmtDb, hnone, if_true, ht]
  have hr : roundMin 1172 = 1200 := by decide
  refine ⟨⟨?_, ?_, ?_, ?_⟩, ?_⟩
  · show "Europe/Amsterdam".toList ∈ zones
    decide +kernel
  · show Unambiguous "Europe/Amsterdam".toList
    exact unambiguous_of_table "Europe/Amsterdam".toList (by decide +kernel)
  · simp only [DT.offset, hoff secs h]; decide
  · simp only [DT.offset, hoff secs h, hr]
    exact hoff _ (by omega)
  · simp only [HaysonOk, hoff secs h, hr]; decide

/-- … so the text of such a timestamp is read back as the timestamp itself -/
example (secs : Int) (ns : Nat) (h : secs < -1025740800) :
    zincDec lmtDb (zincEnc lmtDb ⟨secs, ns, "Europe/Amsterdam".toList⟩) = .ok ⟨secs, ns, "Europe/Amsterdam".toList⟩ ∧
    jsonDec lmtDb (jsonEnc lmtDb ⟨secs, ns, "Europe/Amsterdam".toList⟩) = .ok ⟨secs, ns, "Europe/Amsterdam".toList⟩ :=
  ⟨(C06_rt_subminute lmtDb lmtDb_ok _ (amsterdam_in_text_domain secs ns h).1).1,
   (C06_rt_subminute lmtDb lmtDb_ok _ (amsterdam_in_text_domain secs ns h).1).2 (amsterdam_in_text_domain secs ns h).2⟩

set_option maxRecDepth 100000 in
/-- the same by evaluation, on the texts the real code writes: `1209-06-21T05:39:32+00:20 Amsterdam`
(UTC seconds −24000000000), `…T11:31:26+06:11 Krasnoyarsk`, `…T00:23:58-04:56 New_York` -/
example :
    zincEnc lmtDb ⟨-24000000000, 0, "Europe/Amsterdam".toList⟩ = ⟨-23999998828, 0, "+00:20".toList, some "Amsterdam".toList⟩ ∧
    zincDec lmtDb ⟨-23999998828, 0, "+00:20".toList, some "Amsterdam".toList⟩ = .ok ⟨-24000000000, 0, "Europe/Amsterdam".toList⟩ ∧
    zincDec lmtDb ⟨-23999977714, 0, "+06:11".toList, some "Krasnoyarsk".toList⟩ = .ok ⟨-24000000000, 0, "Asia/Krasnoyarsk".toList⟩ ∧
    zincDec lmtDb ⟨-24000017762, 5, "-04:56".toList, some "New_York".toList⟩ = .ok ⟨-24000000000, 5, "America/New_York".toList⟩ ∧
    jsonDec lmtDb ⟨-23999977714, 0, 22260, some "Krasnoyarsk".toList⟩ = .ok ⟨-24000000000, 0, "Asia/Krasnoyarsk".toList⟩ ∧
    jsonDec lmtDb ⟨-24000017762, 0, -17760, some "New_York".toList⟩ = .ok ⟨-24000000000, 0, "America/New_York".toList⟩ := by
  decide +kernel

set_option maxRecDepth 100000 in
/-- a text whose offset is NOT the zone's rounded offset (here truncated: `+00:19`) is taken at its word,
and so is any text where the zone's offset is whole minutes (Amsterdam at +0:20) -/
example :
    zincDec lmtDb ⟨-23999998828, 0, "+00:19".toList, some "Amsterdam".toList⟩ = .ok ⟨-23999999968, 0, "Europe/Amsterdam".toList⟩ ∧
    zincDec lmtDb ⟨1200, 0, "+00:20".toList, some "Amsterdam".toList⟩ = .ok ⟨0, 0, "Europe/Amsterdam".toList⟩ := by
  decide +kernel

set_option maxRecDepth 100000 in
/-- the bound of `TextDomain.range` is sharp: an offset of 23:59:30 is written `+24:00`, which the Zinc
reader does not take for an offset (`FixedOffset::east_opt` is `None`): the wall-clock time is read as UTC -/
example : (zincEnc lmtDb ⟨0, 0, "Australia/Sydney".toList⟩).offTxt = "+24:00".toList ∧
    zincDec lmtDb (zincEnc lmtDb ⟨0, 0, "Australia/Sydney".toList⟩) = .ok ⟨86370, 0, "Australia/Sydney".toList⟩ := by
  decide +kernel

end Hs.C06
