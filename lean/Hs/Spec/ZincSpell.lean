/-
  Hs.Spec.ZincSpell — the Project Haystack Zinc grammar as a RELATION between values and texts:
  `Spells v bs` — the byte string `bs` is a sentence of the grammar that denotes `v` (as it stands nested in a
  list, dict or cell); `SpellsTop v bs` — the same for a whole document (a grid is then written without `<<` `>>`).

  The relation captures the grammar's freedom as the reference writer harness/src/spell.rs exercises it on every
  run and as property C04 lists it:
    * blanks (space, tab) wherever the grammar allows them: after `[` `{` `,` `:` and before `,` `]` `}`, inside
      `C( , )` and `Type( )`, after the `,` of a column or cell separator; tags of a dict are separated by blanks
      (at least one space or tab) or, inside `{}`, by a comma with blanks around it;
    * line endings LF, CRLF or a lone CR, each line on its own, blanks allowed before every line ending (the only
      restriction: where a document may end with one more line ending, a lone CR directly followed by LF is the
      CRLF spelling, not two line endings);
    * blanks before a document; blanks and further line endings after it;
    * Str / Uri characters: raw (UTF-8) when legal, by their short escape, or as `\uXXXX` with upper- or
      lower-case hex digits (any character of the Basic Multilingual Plane); the Uri escapes are the library
      reader's full table: `` \` `` `\\` `\[ \] \@ \& \= \;` denote the character, `\: \/ \? \#` are kept verbatim
      (they denote the two characters backslash + `:` …; Haxall keeps the backslash for all of them);
    * number spellings: sign, fraction, exponent (`e`/`E`, optional sign), `_` after any digit of a digit run;
    * a trailing comma in a non-empty list; a Marker tag with or without `:M`;
    * grid layout: meta on the `ver` line, column meta, empty cells for missing values, nested grids in
      `<<` … `>>`, an optional blank line after the last row of a document.
  Numbers, coordinates and timestamps are LEXICAL, as everywhere in the model (Hs.Model.ZincLex): the value
  carries the numeral (`Flt.txt`: the sentence's numeral without `_`, exponent letter written `e`) resp. the
  token text (`DateTime.txt`: `…Z`, `…Z UTC`, `…+hh:mm`, any fraction digits); which double / instant a numeral /
  token denotes is Rust std's / chrono's business (trusted base, validated by the harness on every run).
  A Time is written as chrono prints it, its fraction with any number (1–9) of digits (trailing zeros).
  Core-only imports.
-/
import Hs.Model.Scan
import Hs.Model.ZincEnc
namespace Hs.Spell
open Hs

/-! ### blanks, line endings -/

/-- a run of spaces and tabs -/
def Blanks (ws : List UInt8) : Prop := ∀ b ∈ ws, b = 32 ∨ b = 9

/-- a line ending -/
inductive Nl : List UInt8 → Prop
  | lf : Nl [10]
  | crlf : Nl [13, 10]
  | cr : Nl [13]

/-- blanks and line endings in any order -/
def White (ws : List UInt8) : Prop := ∀ b ∈ ws, b = 32 ∨ b = 9 ∨ b = 13 ∨ b = 10

/-- what may follow a document that is not a grid: blanks and line endings, but not one single blank alone
(the library reads that too; it is left out because the scanner's end-of-input flag is raised one byte early) -/
def Trailer (ws : List UInt8) : Prop := White ws ∧ ∀ b, ws = [b] → b = 13 ∨ b = 10

/-- the characters of an ASCII byte string -/
def chars (bs : List UInt8) : List Char := bs.map (fun b => Char.ofNat b.toNat)

/-! ### Str, Uri -/

def hexLower (n : Nat) : UInt8 := if n < 10 then UInt8.ofNat (48 + n) else UInt8.ofNat (87 + n)
def hexUpper (n : Nat) : UInt8 := if n < 10 then UInt8.ofNat (48 + n) else UInt8.ofNat (55 + n)

/-- `b` is a hex digit (either case) of the nibble `n` -/
def HexOf (n : Nat) (b : UInt8) : Prop := n < 16 ∧ (b = hexLower n ∨ b = hexUpper n)

/-- `\uXXXX` of a character of the Basic Multilingual Plane -/
inductive UEsc : Char → List UInt8 → Prop
  | mk (c : Char) (d3 d2 d1 d0 : UInt8) (hc : c.toNat < 0x10000)
      (h3 : HexOf (c.toNat / 4096) d3) (h2 : HexOf (c.toNat / 256 % 16) d2)
      (h1 : HexOf (c.toNat / 16 % 16) d1) (h0 : HexOf (c.toNat % 16) d0) : UEsc c [92, 117, d3, d2, d1, d0]

/-- one character of a Str -/
inductive StrCh : Char → List UInt8 → Prop
  /-- raw: anything from U+0020 on except `"` `\` `$` -/
  | raw (c : Char) (h : 32 ≤ c.toNat) (h1 : c ≠ '"') (h2 : c ≠ '\\') (h3 : c ≠ '$') : StrCh c (encChar c)
  | b : StrCh (Char.ofNat 8) [92, 98]
  | f : StrCh (Char.ofNat 12) [92, 102]
  | n : StrCh '\n' [92, 110]
  | r : StrCh '\r' [92, 114]
  | t : StrCh '\t' [92, 116]
  | quote : StrCh '"' [92, 34]
  | bslash : StrCh '\\' [92, 92]
  | dollar : StrCh '$' [92, 36]
  | u (c : Char) (bs : List UInt8) (h : UEsc c bs) : StrCh c bs

inductive StrBody : List Char → List UInt8 → Prop
  | nil : StrBody [] []
  | cons (c : Char) (cs : List Char) (bs bs' : List UInt8) (h : StrCh c bs) (t : StrBody cs bs') :
      StrBody (c :: cs) (bs ++ bs')

/-- `"…"` -/
inductive Quoted : List Char → List UInt8 → Prop
  | mk (s : List Char) (body : List UInt8) (h : StrBody s body) : Quoted s (34 :: (body ++ [34]))

/-- one character of a Uri: the reader's full escape table. Raw text, `` \` ``, `\\`, `\[ \] \@ \& \= \;`
(each denotes the character after the backslash) and `\uXXXX`. The four escapes `\: \/ \? \#` are NOT
here: the library keeps them verbatim, so they denote two characters (see `UriBody.keep`). -/
inductive UriCh : Char → List UInt8 → Prop
  /-- raw: anything from U+0020 on except `` ` `` and `\` -/
  | raw (c : Char) (h : 32 ≤ c.toNat) (h1 : c ≠ '`') (h2 : c ≠ '\\') : UriCh c (encChar c)
  | bquote : UriCh '`' [92, 96]
  | bslash : UriCh '\\' [92, 92]
  /-- `\[ \] \@ \& \= \;`: the character itself -/
  | punct (c : Char) (b : UInt8)
      (h : (c, b) ∈ [('[', (91 : UInt8)), (']', 93), ('@', 64), ('&', 38), ('=', 61), (';', 59)]) : UriCh c [92, b]
  | u (c : Char) (bs : List UInt8) (h : UEsc c bs) : UriCh c bs

inductive UriBody : List Char → List UInt8 → Prop
  | nil : UriBody [] []
  | cons (c : Char) (cs : List Char) (bs bs' : List UInt8) (h : UriCh c bs) (t : UriBody cs bs') :
      UriBody (c :: cs) (bs ++ bs')
  /-- `\: \/ \? \#`: the library keeps these escapes verbatim — the text denotes the TWO characters `\` and
  `:` (resp. `/ ? #`) -/
  | keep (c : Char) (b : UInt8) (h : (c, b) ∈ [(':', (58 : UInt8)), ('/', 47), ('?', 63), ('#', 35)])
      (cs : List Char) (bs' : List UInt8) (t : UriBody cs bs') : UriBody ('\\' :: c :: cs) (92 :: b :: bs')

/-! ### numbers -/

def digitB (b : UInt8) : Bool := 48 ≤ b && b ≤ 57

/-- `digits := digit (digit | "_")*`: `bs` spells the non-empty digit string `ds` -/
def Digits (ds bs : List UInt8) : Prop :=
  (∀ d ∈ ds, digitB d = true) ∧ bs.filter (· != 95) = ds ∧ ∃ d r, bs = d :: r ∧ digitB d = true

/-- `decimal := ["-"] digits ["." digits]`: `bs` spells the numeral `lex` (= `bs` without the `_`) -/
inductive Decimal : List UInt8 → List UInt8 → Prop
  | int (neg : Bool) (ip ipS : List UInt8) (hi : Digits ip ipS) :
      Decimal ((if neg then [45] else []) ++ ip) ((if neg then [45] else []) ++ ipS)
  | frac (neg : Bool) (ip ipS fp fpS : List UInt8) (hi : Digits ip ipS) (hf : Digits fp fpS) :
      Decimal ((if neg then [45] else []) ++ ip ++ 46 :: fp) ((if neg then [45] else []) ++ ipS ++ 46 :: fpS)

/-- the sign of an exponent: none, `+` or `-` -/
def ExpSign (sg : List UInt8) : Prop := sg = [] ∨ sg = [43] ∨ sg = [45]

def unitText (uo : Option (List Char)) : List UInt8 :=
  match uo with
  | none => []
  | some u => encChars u

/-- a Number -/
inductive NumSp : Num → List UInt8 → Prop
  | nan (n : Num) (h : Zinc.Flt.isNaNBits n.v.bits = true) : NumSp n [78, 97, 78]
  | posInf (n : Num) (h1 : Zinc.Flt.isNaNBits n.v.bits = false) (h2 : Zinc.Flt.isInfBits n.v.bits = true)
      (h3 : Zinc.Flt.signBit n.v.bits = false) : NumSp n [73, 78, 70]
  | negInf (n : Num) (h1 : Zinc.Flt.isNaNBits n.v.bits = false) (h2 : Zinc.Flt.isInfBits n.v.bits = true)
      (h3 : Zinc.Flt.signBit n.v.bits = true) : NumSp n [45, 73, 78, 70]
  /-- decimal numeral, optional unit -/
  | dec (n : Num) (h1 : Zinc.Flt.isNaNBits n.v.bits = false) (h2 : Zinc.Flt.isInfBits n.v.bits = false)
      (lex bs : List UInt8) (hd : Decimal lex bs) (ht : n.v.txt = chars lex) : NumSp n (bs ++ unitText n.unit)
  /-- decimal numeral with exponent, optional unit; the value's numeral writes the exponent letter as `e` -/
  | exp (n : Num) (h1 : Zinc.Flt.isNaNBits n.v.bits = false) (h2 : Zinc.Flt.isInfBits n.v.bits = false)
      (lex bs : List UInt8) (hd : Decimal lex bs) (e : UInt8) (he : e = 101 ∨ e = 69)
      (sg : List UInt8) (hs : ExpSign sg) (ex exS : List UInt8) (hx : Digits ex exS)
      (ht : n.v.txt = chars lex ++ ['e'] ++ chars sg ++ chars ex) :
      NumSp n (bs ++ e :: (sg ++ exS) ++ unitText n.unit)

/-! ### Time -/

/-- `hh:mm:ss[.f+]`: the text chrono prints for the time (`Time.txt`: no fraction, or 3, 6 or 9 fraction
digits; a leap second is second 60), or that text with trailing zeros of the fraction removed or added
(1 to 9 fraction digits), or with the fraction `.0` added when there is none -/
inductive TimeSp : Time → List UInt8 → Prop
  | canon (t : Time) : TimeSp t (encChars t.txt)
  /-- `hh:mm:ss` → `hh:mm:ss.0` -/
  | dot0 (t : Time) (bs : List UInt8) (h : TimeSp t bs) (hl : bs.length = 8) : TimeSp t (bs ++ [46, 48])
  /-- one more trailing zero (a fraction is there and has fewer than 9 digits) -/
  | pad (t : Time) (bs : List UInt8) (h : TimeSp t bs) (h1 : 10 ≤ bs.length) (h2 : bs.length < 18) :
      TimeSp t (bs ++ [48])
  /-- one trailing zero less (at least one fraction digit stays) -/
  | unpad (t : Time) (bs : List UInt8) (h : TimeSp t (bs ++ [48])) (h1 : 10 ≤ bs.length) : TimeSp t bs

/-! ### values -/

/-- the cell of column `n` in the spelled cells of a row: empty when the row has no such tag -/
def cellText (cells : List (List Char × List UInt8)) (n : List Char) : List UInt8 :=
  match cells.find? (·.1 == n) with
  | some p => p.2
  | none => []

/-- one row line: the cells in column order, separated by `,` and blanks -/
inductive RowLine : List (List Char × List UInt8) → List (List Char) → List UInt8 → Prop
  | one (cells : List (List Char × List UInt8)) (n : List Char) : RowLine cells [n] (cellText cells n)
  | cons (cells : List (List Char × List UInt8)) (n n2 : List Char) (ns : List (List Char)) (w rest : List UInt8)
      (hw : Blanks w) (t : RowLine cells (n2 :: ns) rest) :
      RowLine cells (n :: n2 :: ns) (cellText cells n ++ 44 :: (w ++ rest))

mutual
/-- `bs` denotes `v` (nested position) -/
inductive Spells : Val → List UInt8 → Prop
  | null : Spells .null [78]
  | marker : Spells .marker [77]
  | remove : Spells .remove [82]
  | na : Spells .na [78, 65]
  | true_ : Spells (.bool true) [84]
  | false_ : Spells (.bool false) [70]
  | num (n : Num) (bs : List UInt8) (h : NumSp n bs) : Spells (.num n) bs
  | str (s : List Char) (bs : List UInt8) (h : Quoted s bs) : Spells (.str s) bs
  | uri (s : List Char) (body : List UInt8) (h : UriBody s body) : Spells (.uri s) (96 :: (body ++ [96]))
  | ref (id : List Char) : Spells (.ref id none) (64 :: encChars id)
  | refDis (id dis : List Char) (q : List UInt8) (h : Quoted dis q) :
      Spells (.ref id (some dis)) (64 :: (encChars id ++ 32 :: q))
  | sym (s : List Char) : Spells (.sym s) (94 :: encChars s)
  /-- `YYYY-MM-DD` -/
  | date (d : Date) : Spells (.date d) (encChars d.txt)
  | time (t : Time) (bs : List UInt8) (h : TimeSp t bs) : Spells (.time t) bs
  /-- the token text; a zone other than UTC adds ` Name` -/
  | dateTime (t : DateTime) :
      Spells (.dateTime t) (encChars t.txt ++ (if t.tzid == "UTC".toList then [] else 32 :: encChars t.zone))
  /-- `C(lat,lng)` -/
  | coord (a b : Flt) (la las lo los w1 w2 w3 w4 : List UInt8) (ha : Decimal la las) (hb : Decimal lo los)
      (hta : a.txt = chars la) (htb : b.txt = chars lo)
      (h1 : Blanks w1) (h2 : Blanks w2) (h3 : Blanks w3) (h4 : Blanks w4) :
      Spells (.coord a b) (67 :: 40 :: (w1 ++ las ++ w2 ++ 44 :: (w3 ++ los ++ w4 ++ [41])))
  /-- `Type("…")` -/
  | xstr (ty v : List Char) (q w1 w2 : List UInt8) (h : Quoted v q) (h1 : Blanks w1) (h2 : Blanks w2) :
      Spells (.xstr ty v) (encChars ty ++ 40 :: (w1 ++ q ++ w2 ++ [41]))
  /-- `[` items `]` -/
  | list (xs : Vals) (w body : List UInt8) (hw : Blanks w) (h : SpItems xs body) :
      Spells (.list xs) (91 :: (w ++ body ++ [93]))
  /-- `{` tags `}` -/
  | dict (d : Tags) (w1 body w2 : List UInt8) (h1 : Blanks w1) (h : SpTags true d body) (h2 : Blanks w2) :
      Spells (.dict d) (123 :: (w1 ++ body ++ w2 ++ [125]))
  /-- `<<` blanks newline grid `>>` -/
  | grid (md : OTags) (cols : Cols) (rows : Rows) (ver : List Char) (w nl body : List UInt8) (hw : Blanks w) (hn : Nl nl)
      (h : SpGrid md cols rows ver body) : Spells (.grid md cols rows ver) (60 :: 60 :: (w ++ nl ++ body ++ [62, 62]))

/-- list items: `v (, v)* [,]`, blanks after each value and after each comma -/
inductive SpItems : Vals → List UInt8 → Prop
  | nil : SpItems .nil []
  | last (v : Val) (bs w : List UInt8) (h : Spells v bs) (hw : Blanks w) : SpItems (.cons v .nil) (bs ++ w)
  /-- trailing comma -/
  | lastComma (v : Val) (bs w w' : List UInt8) (h : Spells v bs) (hw : Blanks w) (hw' : Blanks w') :
      SpItems (.cons v .nil) (bs ++ w ++ 44 :: w')
  | cons (v v2 : Val) (vs : Vals) (bs w w' rest : List UInt8) (h : Spells v bs) (hw : Blanks w) (hw' : Blanks w')
      (t : SpItems (.cons v2 vs) rest) : SpItems (.cons v (.cons v2 vs)) (bs ++ w ++ 44 :: (w' ++ rest))

/-- one tag: `name`, `name:M` or `name:` blanks value -/
inductive SpTag : List Char → Val → List UInt8 → Prop
  | marker (k : List Char) : SpTag k .marker (encChars k)
  | val (k : List Char) (v : Val) (w bs : List UInt8) (hw : Blanks w) (h : Spells v bs) :
      SpTag k v (encChars k ++ 58 :: (w ++ bs))

/-- tags separated by blanks (at least one) or (when `braced`) by a comma with blanks around it -/
inductive SpTags : Bool → Tags → List UInt8 → Prop
  | nil (br : Bool) : SpTags br .nil []
  | one (br : Bool) (k : List Char) (v : Val) (bs : List UInt8) (h : SpTag k v bs) : SpTags br (.cons k v .nil) bs
  | space (br : Bool) (k : List Char) (v : Val) (k2 : List Char) (v2 : Val) (t : Tags) (bs w rest : List UInt8)
      (h : SpTag k v bs) (hw : Blanks w) (hne : w ≠ []) (ht : SpTags br (.cons k2 v2 t) rest) :
      SpTags br (.cons k v (.cons k2 v2 t)) (bs ++ (w ++ rest))
  | comma (k : List Char) (v : Val) (k2 : List Char) (v2 : Val) (t : Tags) (bs w w' rest : List UInt8)
      (h : SpTag k v bs) (hw : Blanks w) (hw' : Blanks w') (ht : SpTags true (.cons k2 v2 t) rest) :
      SpTags true (.cons k v (.cons k2 v2 t)) (bs ++ w ++ 44 :: (w' ++ rest))

/-- grid meta / column meta: nothing, or blanks (at least one) and the tags -/
inductive SpMeta : OTags → List UInt8 → Prop
  | none : SpMeta .none []
  | some (t : Tags) (w body : List UInt8) (hw : Blanks w) (hne : w ≠ []) (h : SpTags false t body) :
      SpMeta (.some t) (w ++ body)

/-- the column line without its line ending: `name [meta] ("," blanks name [meta])*` -/
inductive SpCols : Cols → List UInt8 → Prop
  | one (n : List Char) (md : OTags) (m : List UInt8) (h : SpMeta md m) : SpCols (.cons n md .nil) (encChars n ++ m)
  | cons (n : List Char) (md : OTags) (n2 : List Char) (md2 : OTags) (c : Cols) (m w rest : List UInt8)
      (h : SpMeta md m) (hw : Blanks w) (t : SpCols (.cons n2 md2 c) rest) :
      SpCols (.cons n md (.cons n2 md2 c)) (encChars n ++ m ++ 44 :: (w ++ rest))

/-- every tag of a row with a spelling of its value -/
inductive SpCells : Tags → List (List Char × List UInt8) → Prop
  | nil : SpCells .nil []
  | cons (k : List Char) (v : Val) (t : Tags) (bs : List UInt8) (cells : List (List Char × List UInt8))
      (h : Spells v bs) (ht : SpCells t cells) : SpCells (.cons k v t) ((k, bs) :: cells)

/-- all rows, one line each: cells in column order separated by `,` and blanks; blanks before the line ending -/
inductive SpRows : List (List Char) → Rows → List UInt8 → Prop
  | nil (names : List (List Char)) : SpRows names .nil []
  | cons (names : List (List Char)) (r : Tags) (rs : Rows) (cells : List (List Char × List UInt8))
      (line w nl rest : List UInt8) (hc : SpCells r cells) (hl : RowLine cells names line) (hw : Blanks w) (hn : Nl nl)
      (t : SpRows names rs rest) : SpRows names (.cons r rs) (line ++ w ++ nl ++ rest)

/-- `ver:"3.0"` [meta] newline columns newline rows; blanks before each line ending -/
inductive SpGrid : OTags → Cols → Rows → List Char → List UInt8 → Prop
  | mk (md : OTags) (cols : Cols) (rows : Rows) (ver : List Char) (m w1 nl1 cl w2 nl2 rw : List UInt8)
      (hm : SpMeta md m) (hw1 : Blanks w1) (hn1 : Nl nl1) (hc : SpCols cols cl) (hw2 : Blanks w2) (hn2 : Nl nl2)
      (hr : SpRows cols.names rows rw) :
      SpGrid md cols rows ver ([118, 101, 114, 58, 34, 51, 46, 48, 34] ++ m ++ w1 ++ nl1 ++ cl ++ w2 ++ nl2 ++ rw)
end

/-- a whole document, blanks before it: a grid is written without `<<` `>>` and may be followed by further (blank)
lines; any other value may be followed by blanks and line endings -/
inductive SpellsTop : Val → List UInt8 → Prop
  | grid (md : OTags) (cols : Cols) (rows : Rows) (ver : List Char) (lead body : List UInt8) (hl : Blanks lead)
      (h : SpGrid md cols rows ver body) : SpellsTop (.grid md cols rows ver) (lead ++ body)
  /-- a lone CR that ends the grid's last line, directly followed by LF, is the CRLF line ending: not this case -/
  | gridNl (md : OTags) (cols : Cols) (rows : Rows) (ver : List Char) (lead body w nl trail : List UInt8)
      (hl : Blanks lead) (h : SpGrid md cols rows ver body) (hw : Blanks w) (hn : Nl nl) (ht : White trail)
      (hcr : w = [] → nl = [10] → body.getLast? ≠ some 13) :
      SpellsTop (.grid md cols rows ver) (lead ++ body ++ w ++ nl ++ trail)
  | other (v : Val) (lead bs trail : List UInt8) (hv : ∀ md cols rows ver, v ≠ .grid md cols rows ver)
      (hl : Blanks lead) (h : Spells v bs) (ht : Trailer trail) : SpellsTop v (lead ++ bs ++ trail)

end Hs.Spell
