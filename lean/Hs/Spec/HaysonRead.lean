/-
  Hs.Spec.HaysonRead — a reference Hayson READER written from the Project Haystack JSON encoding
  ("Hayson"), independent of libhaystack's visitor: members are looked up BY NAME, so member order
  cannot matter by construction.  Together with the reference writer harness/src/jspell.rs it is the
  "independent implementation written from the specification" of property C05.

  null/bool/string/array: plain JSON.  number token: unit-less Number.  object:
    no `_kind` or `"dict"`  -> Dict of its (other) members
    marker | remove | na    -> the singleton
    number {val, unit?}     val: number token or "INF" | "-INF" | "NaN"
    ref {val, dis?}   symbol {val}   uri {val}   date {val}   time {val}   dateTime {val, tz?}
    coord {lat, lng}   xstr {type, val}
    grid {meta?, cols:[{name, meta?}], rows:[{…}]}   (meta.ver is the grid version, not a tag; grid meta,
                                                      column meta and rows are dict objects: a `_kind` member
                                                      in them is the optional dict tag, not a tag of the dict)
  Dates, times and timestamps stay lexical (chrono evaluates the texts), as in Hs.Model.Hayson.
-/
import Hs.Model.Hayson
namespace Hs.Spec.Hayson
open Hs Hs.Hayson

def lookup (ms : List (List Char × Json)) (k : String) : Option Json :=
  (ms.reverse.find? (fun p => p.1 == s k)).map (·.2)

def strOf : Option Json → Option (List Char)
  | some (.str x) => some x
  | _ => none

def numOf : Option Json → Option Flt
  | some (.int _ f) => some f
  | some (.flt f) => some f
  | _ => none

def nameLe : List Char → List Char → Bool
  | [], _ => true
  | _ :: _, [] => false
  | a :: as, b :: bs => if a.toNat < b.toNat then true else if b.toNat < a.toNat then false else nameLe as bs

def insertTag (k : List Char) (v : Val) : List (List Char × Val) → List (List Char × Val)
  | [] => [(k, v)]
  | (k', v') :: rest =>
    if k == k' then (k, v) :: rest
    else if nameLe k k' then (k, v) :: (k', v') :: rest
    else (k', v') :: insertTag k v rest

def dictOf (kvs : List (List Char × Val)) : Tags :=
  Tags.ofList (kvs.foldl (fun acc p => insertTag p.1 p.2 acc) [])

mutual
def read : Nat → Json → Option Val
  | 0, _ => none
  | _ + 1, .null => some .null
  | _ + 1, .bool b => some (.bool b)
  | _ + 1, .int _ f => some (.num { v := f, unit := none })
  | _ + 1, .flt f => some (.num { v := f, unit := none })
  | _ + 1, .str x => some (.str x)
  | fuel + 1, .arr xs => (readAll fuel xs.toList).map fun vs => .list (Vals.ofList vs)
  | fuel + 1, .obj ms =>
    let l := ms.toList
    match lookup l "_kind" with
    | none => (readTags fuel l).map fun kvs => .dict (dictOf kvs)
    | some (.str kind) =>
      if kind == s "dict" then (readTags fuel (l.filter (·.1 != s "_kind"))).map fun kvs => .dict (dictOf kvs)
      else if kind == s "marker" then some .marker
      else if kind == s "remove" then some .remove
      else if kind == s "na" then some .na
      else if kind == s "number" then
        let v : Option Flt := match lookup l "val" with
          | some (.str t) =>
            if t == s "INF" then some (mkFlt 0x7FF0000000000000 "inf")
            else if t == s "-INF" then some (mkFlt 0xFFF0000000000000 "-inf")
            else if t == s "NaN" then some (mkFlt 0x7FF8000000000000 "NaN")
            else none
          | j => numOf j
        match v with
        | none => none
        | some f =>
          match lookup l "unit" with
          | none => some (.num { v := f, unit := none })
          | some (.str u) => (Hs.Zinc.unitSymbol u).map fun sym => .num { v := f, unit := some sym }
          | some _ => none
      else if kind == s "ref" then
        match strOf (lookup l "val") with
        | some v => match lookup l "dis" with
          | none => some (.ref v none)
          | some (.str d) => some (.ref v (some d))
          | some _ => none
        | none => none
      else if kind == s "symbol" then (strOf (lookup l "val")).map .sym
      else if kind == s "uri" then (strOf (lookup l "val")).map .uri
      else if kind == s "date" then (strOf (lookup l "val")).map lexDate
      else if kind == s "time" then (strOf (lookup l "val")).map lexTime
      else if kind == s "dateTime" then
        match strOf (lookup l "val") with
        | some v => match lookup l "tz" with
          | none => some (lexDateTime v none)
          | some (.str z) => some (lexDateTime v (some z))
          | some _ => none
        | none => none
      else if kind == s "coord" then
        match numOf (lookup l "lat"), numOf (lookup l "lng") with
        | some a, some b => some (.coord a b)
        | _, _ => none
      else if kind == s "xstr" then
        match strOf (lookup l "type"), strOf (lookup l "val") with
        | some t, some v => some (.xstr t v)
        | _, _ => none
      else if kind == s "grid" then
        let metaR : Option (List (List Char × Val) × List Char) := match lookup l "meta" with
          | none => some ([], s "3.0")
          | some (.obj mm) =>
            let ml := mm.toList
            let ver := (strOf (lookup ml "ver")).getD (s "3.0")
            -- the meta is a dict object: its optional `"_kind":"dict"` member is not a tag (as in rows)
            (readTags fuel (ml.filter (fun p => p.1 != s "ver" && p.1 != s "_kind"))).map fun kvs => (kvs, ver)
          | some _ => none
        match metaR, lookup l "cols", lookup l "rows" with
        | some (mkvs, ver), some (.arr cs), some (.arr rs) =>
          match readCols fuel cs.toList, readRows fuel rs.toList with
          | some cols, some rows =>
            -- an empty meta and an absent meta are the same thing
            let md : OTags := if mkvs.isEmpty then .none else .some (dictOf mkvs)
            some (.grid md (Cols.ofList cols) (Rows.ofList rows) ver)
          | _, _ => none
        | _, _, _ => none
      else none
    | some _ => none
def readAll : Nat → List Json → Option (List Val)
  | 0, _ => none
  | _ + 1, [] => some []
  | fuel + 1, j :: js =>
    match read fuel j, readAll fuel js with
    | some v, some vs => some (v :: vs)
    | _, _ => none
def readTags : Nat → List (List Char × Json) → Option (List (List Char × Val))
  | 0, _ => none
  | _ + 1, [] => some []
  | fuel + 1, (k, j) :: ms =>
    match read fuel j, readTags fuel ms with
    | some v, some kvs => some ((k, v) :: kvs)
    | _, _ => none
def readCols : Nat → List Json → Option (List (List Char × OTags))
  | 0, _ => none
  | _ + 1, [] => some []
  | fuel + 1, c :: cs =>
    match c with
    | .obj cm =>
      let cl := cm.toList
      match strOf (lookup cl "name"), readCols fuel cs with
      | some name, some rest =>
        match lookup cl "meta" with
        | none => some ((name, .none) :: rest)
        | some (.obj mm) =>
          (readTags fuel (mm.toList.filter (·.1 != s "_kind"))).map fun kvs =>
            (name, if kvs.isEmpty then OTags.none else OTags.some (dictOf kvs)) :: rest
        | some _ => none
      | _, _ => none
    | _ => none
def readRows : Nat → List Json → Option (List Tags)
  | 0, _ => none
  | _ + 1, [] => some []
  | fuel + 1, r :: rs =>
    match r with
    | .obj rm =>
      match readTags fuel (rm.toList.filter (·.1 != s "_kind")), readRows fuel rs with
      | some kvs, some rest => some (dictOf kvs :: rest)
      | _, _ => none
    | _ => none
end

mutual
def size : Json → Nat
  | .arr xs => 1 + sizes xs
  | .obj ms => 1 + sizem ms
  | _ => 1
def sizes : Jsons → Nat
  | .nil => 0
  | .cons j js => size j + sizes js
def sizem : Members → Nat
  | .nil => 0
  | .cons _ j ms => size j + sizem ms
end

/-- a whole document -/
def readDoc (j : Json) : Option Val := read (2 * size j + 8) j

end Hs.Spec.Hayson
