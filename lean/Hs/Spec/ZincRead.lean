/-
  Hs.Spec.ZincRead — a reference Zinc READER written from the Project Haystack Zinc grammar,
  independent of libhaystack's scanner/lexer/parser (plain recursive descent over the byte list,
  no look-ahead stash, no end-of-input flag).  Together with the reference writer in the harness
  (harness/src/spell.rs) it plays the "independent implementation written from the specification"
  of property C04.

  grid  := ver [" " tags] nl cols nl row* ;  cols := col ("," col)* ;  col := id [" " tags]
  row   := cell ("," cell)* nl ;  cell := val | (empty)
  val   := scalar | "[" val ("," val)* [","] "]" | "{" tags "}" | "<<" nl grid ">>"
  tags  := tag ((" " | ",") tag)* ;  tag := id [":" val]
  Spaces and tabs may surround separators; nl is LF, CR or CRLF.
  Numbers / coordinates stay lexical (`Flt.bits = specBits`), timestamps are their token text, as in
  Hs.Model.ZincLex: the evaluation is Rust std / chrono (trusted base).
-/
import Hs.Model.ZincLex
namespace Hs.Spec
open Hs

abbrev In := List UInt8
abbrev P (α : Type) := In → Option (α × In)

/-- marker: the double denoted by the decimal text `txt` (with `_` already removed) -/
def specBits : Nat := 2 ^ 64 + 1

def isDigit (b : UInt8) : Bool := 48 ≤ b && b ≤ 57
def isLower (b : UInt8) : Bool := 97 ≤ b && b ≤ 122
def isUpper (b : UInt8) : Bool := 65 ≤ b && b ≤ 90
def isAlnum (b : UInt8) : Bool := isDigit b || isLower b || isUpper b
def isIdChar (b : UInt8) : Bool := isAlnum b || b == 95
def isRefChar (b : UInt8) : Bool := isAlnum b || b == 95 || b == 58 || b == 45 || b == 46 || b == 126
def isHex (b : UInt8) : Bool := isDigit b || (65 ≤ b && b ≤ 70) || (97 ≤ b && b ≤ 102)
def hexVal (b : UInt8) : Nat := if isDigit b then b.toNat - 48 else if b ≥ 97 then b.toNat - 87 else b.toNat - 55
def chars (bs : In) : List Char := bs.map (fun b => Char.ofNat b.toNat)

def skipWs : In → In
  | 32 :: r => skipWs r
  | 9 :: r => skipWs r
  | r => r

/-- one newline: LF, CRLF or CR -/
def nl : In → Option In
  | 10 :: r => some r
  | 13 :: 10 :: r => some r
  | 13 :: r => some r
  | _ => none

def span (p : UInt8 → Bool) : In → In × In
  | [] => ([], [])
  | b :: r => if p b then let (a, t) := span p r; (b :: a, t) else ([], b :: r)

def ident : P (List Char) := fun i =>
  match i with
  | b :: _ => if isLower b then let (a, r) := span isIdChar i; some (chars a, r) else none
  | [] => none

/-- UTF-8 decoding of valid text (the harness feeds valid UTF-8 only) -/
def text (bs : In) : List Char := Hs.lossy bs

/-- body of a quoted string up to the closing quote `q` (34 = `"`), with the Str escapes -/
def strBody : Nat → In → In → Option (In × In)
  | 0, _, _ => none
  | _, [], _ => none
  | fuel + 1, b :: r, acc =>
    if b == 34 then some (acc, r)
    else if b == 92 then
      match r with
      | 98 :: r' => strBody fuel r' (acc ++ [8])
      | 102 :: r' => strBody fuel r' (acc ++ [12])
      | 110 :: r' => strBody fuel r' (acc ++ [10])
      | 114 :: r' => strBody fuel r' (acc ++ [13])
      | 116 :: r' => strBody fuel r' (acc ++ [9])
      | 34 :: r' => strBody fuel r' (acc ++ [34])
      | 92 :: r' => strBody fuel r' (acc ++ [92])
      | 36 :: r' => strBody fuel r' (acc ++ [36])
      | 117 :: a :: b2 :: c :: d :: r' =>
        if isHex a && isHex b2 && isHex c && isHex d then
          let u := hexVal a * 4096 + hexVal b2 * 256 + hexVal c * 16 + hexVal d
          strBody fuel r' (acc ++ Hs.encChar (Char.ofNat u))
        else none
      | _ => none
    else strBody fuel r (acc ++ [b])

def str : P (List Char) := fun i =>
  match i with
  | 34 :: r => (strBody (r.length + 1) r []).map fun (a, t) => (text a, t)
  | _ => none

def uriBody : Nat → In → In → Option (In × In)
  | 0, _, _ => none
  | _, [], _ => none
  | fuel + 1, b :: r, acc =>
    if b == 96 then some (acc, r)
    else if b == 92 then
      match r with
      | 96 :: r' => uriBody fuel r' (acc ++ [96])
      | 92 :: r' => uriBody fuel r' (acc ++ [92])
      | 117 :: a :: b2 :: c :: d :: r' =>
        if isHex a && isHex b2 && isHex c && isHex d then
          let u := hexVal a * 4096 + hexVal b2 * 256 + hexVal c * 16 + hexVal d
          uriBody fuel r' (acc ++ Hs.encChar (Char.ofNat u))
        else none
      | x :: r' => uriBody fuel r' (acc ++ [92, x])
      | [] => none
    else uriBody fuel r (acc ++ [b])

def uri : P (List Char) := fun i =>
  match i with
  | 96 :: r => (uriBody (r.length + 1) r []).map fun (a, t) => (text a, t)
  | _ => none

def digitsNat (bs : In) : Nat := bs.foldl (fun a b => a * 10 + (b.toNat - 48)) 0

/-- digits with `_` allowed between them; returns the digits only -/
def digitsU (i : In) : In × In :=
  let (a, r) := span (fun b => isDigit b || b == 95) i
  (a.filter isDigit, r)

/-- decimal := ["-"] digits ["." digits] [("e"|"E") ["+"|"-"] digits] -/
def decimal (allowExp : Bool) : P In := fun i =>
  let (sign, r0) := match i with
    | 45 :: r => ([45], r)
    | r => (([] : In), r)
  match r0 with
  | b :: _ =>
    if !isDigit b then none else
    let (ip, r1) := digitsU r0
    let (fp, r2) := match r1 with
      | 46 :: c :: r => if isDigit c then let (f, t) := digitsU (c :: r); ([46] ++ f, t) else (([] : In), r1)
      | _ => (([] : In), r1)
    let (ep, r3) := if !allowExp then (([] : In), r2) else match r2 with
      | e :: rest =>
        if e == 101 || e == 69 then
          let (sg, r) := match rest with
            | 43 :: r => ([43], r)
            | 45 :: r => ([45], r)
            | r => (([] : In), r)
          match r with
          | c :: _ => if isDigit c then let (d, t) := digitsU r; ([101] ++ sg ++ d, t) else (([] : In), r2)
          | [] => (([] : In), r2)
        else (([] : In), r2)
      | [] => (([] : In), r2)
    some (sign ++ ip ++ fp ++ ep, r3)
  | [] => none

def isUnitByte (b : UInt8) : Bool := isLower b || isUpper b || b == 36 || b == 47 || b == 37 || b == 95 || b ≥ 128

def two (i : In) : Option (Nat × In) :=
  match i with
  | a :: b :: r => if isDigit a && isDigit b then some (digitsNat [a, b], r) else none
  | _ => none

def four (i : In) : Option (Nat × In) :=
  match i with
  | a :: b :: c :: d :: r =>
    if isDigit a && isDigit b && isDigit c && isDigit d then some (digitsNat [a, b, c, d], r) else none
  | _ => none

def dateP : P Date := fun i =>
  match four i with
  | some (y, 45 :: r1) =>
    match two r1 with
    | some (m, 45 :: r2) =>
      match two r2 with
      | some (d, r3) =>
        if 1 ≤ m && m ≤ 12 && 1 ≤ d && d ≤ Hs.Zinc.daysIn y m then
          some ({ y := y, m := m, d := d, txt := chars (i.take 10) }, r3)
        else none
      | none => none
    | _ => none
  | _ => none

def timeP : P Time := fun i =>
  match two i with
  | some (h, 58 :: r1) =>
    match two r1 with
    | some (mi, 58 :: r2) =>
      match two r2 with
      | some (s, r3) =>
        let (ns, r4) := match r3 with
          | 46 :: c :: r => if isDigit c then
              let (f, t) := span isDigit (c :: r); (Hs.Zinc.fracNanos f, t)
            else (0, r3)
          | _ => (0, r3)
        if h < 24 && mi < 60 && s ≤ 60 then
          let (s', ns') := if s == 60 then (59, ns + 1000000000) else (s, ns)
          some ({ h := h, mi := mi, s := s', ns := ns', txt := Hs.Zinc.timeText h mi s' ns' }, r4)
        else none
      | none => none
    | _ => none
  | _ => none

def isTzChar (b : UInt8) : Bool := isAlnum b || b == 95 || b == 47 || b == 43 || b == 45

/-- zone part of a timestamp: `Z` | `Z Name` | `(+|-)hh:mm Name` -/
def zoneP : P Unit := fun i =>
  match i with
  | 90 :: 32 :: c :: r => if isUpper c then let (_, t) := span isTzChar (c :: r); some ((), t) else some ((), 32 :: c :: r)
  | 90 :: r => some ((), r)
  | sg :: r =>
    if sg == 43 || sg == 45 then
      match two r with
      | some (_, 58 :: r1) =>
        match two r1 with
        | some (_, 32 :: c :: r2) => if isUpper c then let (_, t) := span isTzChar (c :: r2); some ((), t) else none
        | _ => none
      | _ => none
    else none
  | [] => none

/-- code point order on names -/
def nameLe : List Char → List Char → Bool
  | [], _ => true
  | _ :: _, [] => false
  | a :: as, b :: bs => if a.toNat < b.toNat then true else if b.toNat < a.toNat then false else nameLe as bs

def insertTag (k : List Char) (v : Val) : List (List Char × Val) → List (List Char × Val)
  | [] => [(k, v)]
  | (k', v') :: rest =>
    if k == k' then (k, v) :: rest
    else if nameLe k k' then (k, v) :: (k', v') :: rest
    else (k', v') :: insertTag k v rest

/-- a dict from its tags in document order: sorted by name, a repeated name keeps its last value -/
def dictOf (kvs : List (List Char × Val)) : Tags :=
  Tags.ofList (kvs.foldl (fun acc p => insertTag p.1 p.2 acc) [])

mutual
/-- val -/
def value : Nat → P Val
  | 0, _ => none
  | fuel + 1, i =>
    match i with
    | [] => none
    | b :: r =>
      if b == 91 then listItems fuel (skipWs r) []
      else if b == 123 then
        match tags fuel (skipWs r) true [] with
        | some (kvs, r1) => match skipWs r1 with
          | 125 :: r2 => some (.dict (dictOf kvs), r2)
          | _ => none
        | none => none
      else if b == 60 then
        match r with
        | 60 :: r1 => match nl (skipWs r1) with
          | some r2 =>
            match grid fuel r2 with
            | some (g, r3) => match r3 with
              | 62 :: 62 :: r4 => some (g, r4)
              | _ => none
            | none => none
          | none => none
        | _ => none
      else scalar fuel i
/-- elements of a list after `[` -/
def listItems : Nat → In → List Val → Option (Val × In)
  | 0, _, _ => none
  | fuel + 1, i, acc =>
    match i with
    | 93 :: r => some (.list (Vals.ofList acc), r)
    | _ =>
      match value fuel i with
      | some (v, r1) =>
        match skipWs r1 with
        | 44 :: r2 => listItems fuel (skipWs r2) (acc ++ [v])
        | 93 :: r2 => some (.list (Vals.ofList (acc ++ [v])), r2)
        | _ => none
      | none => none
/-- tags; `braced`: inside `{}` a comma may separate tags -/
def tags : Nat → In → Bool → List (List Char × Val) → Option (List (List Char × Val) × In)
  | 0, _, _, _ => none
  | fuel + 1, i, braced, acc =>
    match ident i with
    | none => some (acc, i)
    | some (k, r1) =>
      let tagVal : Option (Val × In) :=
        match r1 with
        | 58 :: r2 => value fuel (skipWs r2)
        | _ => some (.marker, r1)
      match tagVal with
      | none => none
      | some (v, r3) =>
        let acc' := acc ++ [(k, v)]
        let r4 := skipWs r3
        match r4 with
        | 44 :: r5 => if braced then tags fuel (skipWs r5) braced acc' else some (acc', r3)
        | _ => if r4.length < r3.length then tags fuel r4 braced acc' else some (acc', r3)
/-- grid (the text after an optional `<<` nl) -/
def grid : Nat → P Val
  | 0, _ => none
  | fuel + 1, i =>
    match i with
    | 118 :: 101 :: 114 :: 58 :: r0 =>
      match str (skipWs r0) with
      | some (ver, r1) =>
        match tags fuel (skipWs r1) false [] with
        | some (mkvs, r2) =>
          match nl (skipWs r2) with
          | some r3 =>
            match cols fuel r3 [] with
            | some (cs, r4) =>
              match rows fuel r4 (cs.map (·.1)) [] with
              | some (rs, r5) =>
                let md : OTags := if mkvs.isEmpty then .none else .some (dictOf mkvs)
                some (.grid md (Cols.ofList cs) (Rows.ofList rs) ver, r5)
              | none => none
            | none => none
          | none => none
        | none => none
      | none => none
    | _ => none
/-- column line, up to and including its newline -/
def cols : Nat → In → List (List Char × OTags) → Option (List (List Char × OTags) × In)
  | 0, _, _ => none
  | fuel + 1, i, acc =>
    match ident (skipWs i) with
    | none => none
    | some (name, r1) =>
      match tags fuel (skipWs r1) false [] with
      | some (kvs, r2) =>
        let md : OTags := if kvs.isEmpty then .none else .some (dictOf kvs)
        let acc' := acc ++ [(name, md)]
        match skipWs r2 with
        | 44 :: r3 => cols fuel r3 acc'
        | r3 => match nl r3 with
          | some r4 => some (acc', r4)
          | none => none
      | none => none
/-- rows until a blank line, `>>` or the end of the text -/
def rows : Nat → In → List (List Char) → List Tags → Option (List Tags × In)
  | 0, _, _, _ => none
  | fuel + 1, i, names, acc =>
    match i with
    | [] => some (acc, [])
    | 62 :: 62 :: _ => some (acc, i)
    | _ =>
      match nl i with
      | some r => -- blank line: end of the grid (further blank lines are skipped)
        match r with
        | 62 :: 62 :: _ => some (acc, r)
        | _ => some (acc, r)
      | none =>
        match cells fuel i names [] with
        | some (kvs, r1) => rows fuel r1 names (acc ++ [dictOf kvs])
        | none => none
/-- the cells of one row, up to and including its newline -/
def cells : Nat → In → List (List Char) → List (List Char × Val) → Option (List (List Char × Val) × In)
  | 0, _, _, _ => none
  | fuel + 1, i, names, acc =>
    match names with
    | [] => none
    | name :: rest =>
      let i0 := skipWs i
      let cell : Option (Option Val × In) :=
        match i0 with
        | 44 :: _ => some (none, i0)
        | 10 :: _ => some (none, i0)
        | 13 :: _ => some (none, i0)
        | [] => none
        | _ => (value fuel i0).map fun (v, r) => (some v, r)
      match cell with
      | none => none
      | some (ov, r1) =>
        let acc' := match ov with
          | some v => acc ++ [(name, v)]
          | none => acc
        match skipWs r1 with
        | 44 :: r2 => if rest.isEmpty then none else cells fuel r2 rest acc'
        | r2 => match nl r2 with
          | some r3 => some (acc', r3)
          | none => none
/-- scalars -/
def scalar : Nat → P Val
  | 0, _ => none
  | _ + 1, i =>
    match i with
    | [] => none
    | b :: r =>
      if b == 34 then (str i).map fun (s, t) => (.str s, t)
      else if b == 96 then (uri i).map fun (s, t) => (.uri s, t)
      else if b == 64 then
        let (idb, r1) := span isRefChar r
        if idb.isEmpty then none else
        match r1 with
        | 32 :: 34 :: _ =>
          (str (r1.drop 1)).map fun (d, t) => (.ref (chars idb) (some d), t)
        | _ => some (.ref (chars idb) none, r1)
      else if b == 94 then
        match r with
        | c :: _ => if isLower c then let (sb, r1) := span isRefChar r; some (.sym (chars sb), r1) else none
        | [] => none
      else if isUpper b then
        let (lit, r1) := span isIdChar i
        match r1 with
        | 40 :: r2 =>
          if lit == [67] then
            match decimal false (skipWs r2) with
            | some (lat, r3) => match skipWs r3 with
              | 44 :: r4 => match decimal false (skipWs r4) with
                | some (lng, r5) => match skipWs r5 with
                  | 41 :: r6 => some (.coord { bits := specBits, txt := chars lat } { bits := specBits, txt := chars lng }, r6)
                  | _ => none
                | none => none
              | _ => none
            | none => none
          else
            match str (skipWs r2) with
            | some (v, r3) => match skipWs r3 with
              | 41 :: r4 => some (.xstr (chars lit) v, r4)
              | _ => none
            | none => none
        | _ =>
          let l := chars lit
          if l == ['N'] then some (.null, r1)
          else if l == ['M'] then some (.marker, r1)
          else if l == ['R'] then some (.remove, r1)
          else if l == ['T'] then some (.bool true, r1)
          else if l == ['F'] then some (.bool false, r1)
          else if l == ['N', 'A'] then some (.na, r1)
          else if l == ['N', 'a', 'N'] then
            some (.num { v := { bits := Hs.Zinc.nanBits, txt := "NaN".toList }, unit := none }, r1)
          else if l == ['I', 'N', 'F'] then
            some (.num { v := { bits := Hs.Zinc.posInfBits, txt := "inf".toList }, unit := none }, r1)
          else none
      else if b == 45 && r.take 3 == [73, 78, 70] then
        some (.num { v := { bits := Hs.Zinc.negInfBits, txt := "-inf".toList }, unit := none }, r.drop 3)
      else if isDigit b || b == 45 then
        -- date / time / timestamp by shape, else number
        match dateP i with
        | some (d, 84 :: r1) =>
          match timeP r1 with
          | some (_, r2) =>
            match zoneP r2 with
            | some (_, r3) =>
              let len := i.length - r3.length
              some (.dateTime { secs := 0, ns := 0, off := 0, zone := [], tzid := [], txt := chars (i.take len) }, r3)
            | none => none
          | none => none
        | some (d, r1) => some (.date d, r1)
        | none =>
          match (if b != 45 then timeP i else none) with
          | some (t, r1) => some (.time t, r1)
          | none =>
            match decimal true i with
            | some (lex, r1) =>
              let (ub, r2) := span isUnitByte r1
              if ub.isEmpty then some (.num { v := { bits := specBits, txt := chars lex }, unit := none }, r1)
              else match Hs.Zinc.unitSymbol (text ub) with
                | some sym => some (.num { v := { bits := specBits, txt := chars lex }, unit := some sym }, r2)
                | none => none
            | none => none
      else none
end

/-- a whole document: a grid (starts with an id) or a single value; trailing whitespace allowed -/
def read (bs : In) : Option Val :=
  let fuel := 4 * bs.length + 16
  let r := match bs with
    | b :: _ => if isLower b then grid fuel bs else value fuel bs
    | [] => none
  match r with
  | some (v, rest) => if (rest.all fun b => b == 32 || b == 9 || b == 10 || b == 13) then some v else none
  | none => none

end Hs.Spec
